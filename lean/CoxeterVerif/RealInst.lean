import CoxeterVerif.Scalar
import Mathlib.Analysis.SpecialFunctions.Trigonometric.Inverse
import Mathlib.Analysis.SpecialFunctions.Pow.Real
import Mathlib.Analysis.SpecialFunctions.Complex.Arg
import Mathlib.Tactic.Ring
import Mathlib.Tactic.FieldSimp
import Mathlib.Tactic.Linarith
import Mathlib.Tactic.NormNum
/-! `Scalar ℝ`: the instance at which all property theorems are stated. -/

noncomputable section

open Classical in
instance instScalarReal : Scalar ℝ where
  ofNat := fun n => (n : ℝ)
  sqrt := Real.sqrt
  cbrt := fun x => if 0 ≤ x then x ^ ((1:ℝ)/3) else -((-x) ^ ((1:ℝ)/3))
  pi := Real.pi
  sin := Real.sin
  cos := Real.cos
  tan := Real.tan
  acos := Real.arccos
  atan2 := fun y x => Complex.arg ⟨x, y⟩
  floor := fun x => (⌊x⌋ : ℝ)
  abs := fun x => |x|
  decLt := fun _ _ => Classical.propDecidable _
  decLe := fun _ _ => Classical.propDecidable _
  eqb := fun a b => decide (a = b)

end

/-- simp set turning model constants at ℝ into ordinary real numerals -/
@[simp] theorem Scalar.ofNat_real (n : Nat) : (Scalar.ofNat n : ℝ) = (n : ℝ) := rfl
@[simp] theorem Scalar.abs_real (x : ℝ) : Scalar.abs x = |x| := rfl
@[simp] theorem Scalar.sqrt_real (x : ℝ) : Scalar.sqrt x = Real.sqrt x := rfl
@[simp] theorem Scalar.pi_real : (Scalar.pi : ℝ) = Real.pi := rfl
@[simp] theorem Scalar.sin_real (x : ℝ) : Scalar.sin x = Real.sin x := rfl
@[simp] theorem Scalar.cos_real (x : ℝ) : Scalar.cos x = Real.cos x := rfl
@[simp] theorem Scalar.tan_real (x : ℝ) : Scalar.tan x = Real.tan x := rfl
@[simp] theorem Scalar.acos_real (x : ℝ) : Scalar.acos x = Real.arccos x := rfl
