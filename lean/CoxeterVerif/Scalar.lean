/-
  Scalar: the one abstraction over which every model and spec function is written.
  Instances:  Float (driver / correspondence), Rat (exact oracle), ℝ (proofs; in RealInst.lean).
  This file and everything under Model/ and Spec/ imports nothing from Mathlib.
-/

class Scalar (α : Type) extends Add α, Sub α, Mul α, Div α, Neg α, LT α, LE α where
  ofNat : Nat → α
  sqrt : α → α
  cbrt : α → α
  pi : α
  sin : α → α
  cos : α → α
  tan : α → α
  acos : α → α
  atan2 : α → α → α
  floor : α → α
  abs : α → α
  decLt : ∀ a b : α, Decidable (a < b)
  decLe : ∀ a b : α, Decidable (a ≤ b)
  /-- IEEE / mathematical equality test (`==` in the Python) -/
  eqb : α → α → Bool

namespace Scalar
variable {α : Type} [Scalar α]

instance (a b : α) : Decidable (a < b) := Scalar.decLt a b
instance (a b : α) : Decidable (a ≤ b) := Scalar.decLe a b

/-- numeric literal `n` in the model -/
@[reducible] def lit (n : Nat) : α := Scalar.ofNat n
/-- rational constant `p/q` in the model -/
@[reducible] def q (p d : Nat) : α := Scalar.ofNat p / Scalar.ofNat d

def sqr (x : α) : α := x * x
def cube (x : α) : α := x * x * x
def max (a b : α) : α := if a < b then b else a
def min (a b : α) : α := if b < a then b else a

end Scalar

/-! ### Float instance -/

def floatPi : Float := 3.141592653589793

instance : Scalar Float where
  ofNat := Float.ofNat
  sqrt := Float.sqrt
  cbrt := Float.cbrt
  pi := floatPi
  sin := Float.sin
  cos := Float.cos
  tan := Float.tan
  acos := Float.acos
  atan2 := Float.atan2
  floor := Float.floor
  abs := Float.abs
  decLt := fun a b => inferInstanceAs (Decidable (a < b))
  decLe := fun a b => inferInstanceAs (Decidable (a ≤ b))
  eqb := fun a b => a == b

/-! ### Rat instance (exact; transcendental fields unsupported = 0; `sqrt` exact on squares of
rationals, 0 otherwise) -/

def natSqrtExact (n : Nat) : Option Nat :=
  let r := Nat.sqrt n
  if r * r = n then some r else none

def ratSqrt (x : Rat) : Rat :=
  if x < 0 then 0 else
  match natSqrtExact x.num.toNat, natSqrtExact x.den with
  | some a, some b => mkRat (a : Int) b
  | _, _ => 0

instance : Scalar Rat where
  ofNat := fun n => (n : Rat)
  sqrt := ratSqrt
  cbrt := fun _ => 0
  pi := 0
  sin := fun _ => 0
  cos := fun _ => 0
  tan := fun _ => 0
  acos := fun _ => 0
  atan2 := fun _ _ => 0
  floor := fun x => (x.floor : Rat)
  abs := fun x => if x < 0 then -x else x
  decLt := fun a b => inferInstanceAs (Decidable (a < b))
  decLe := fun a b => inferInstanceAs (Decidable (a ≤ b))
  eqb := fun a b => decide (a = b)
