import CoxeterVerif.Scalar
/-! 3-vectors, triangles, tetrahedra and 3×3 symmetric data over a `Scalar`. No Mathlib. -/

structure V3 (α : Type) where
  x : α
  y : α
  z : α
deriving Repr

structure Tri (α : Type) where
  a : V3 α
  b : V3 α
  c : V3 α

structure Tet (α : Type) where
  a : V3 α
  b : V3 α
  c : V3 α
  d : V3 α

/-- full 3×3 matrix, row major -/
structure M3 (α : Type) where
  xx : α
  xy : α
  xz : α
  yx : α
  yy : α
  yz : α
  zx : α
  zy : α
  zz : α

namespace V3
variable {α : Type} [Scalar α]
open Scalar

def zero : V3 α := ⟨lit 0, lit 0, lit 0⟩
def add (u v : V3 α) : V3 α := ⟨u.x + v.x, u.y + v.y, u.z + v.z⟩
def sub (u v : V3 α) : V3 α := ⟨u.x - v.x, u.y - v.y, u.z - v.z⟩
def neg (u : V3 α) : V3 α := ⟨-u.x, -u.y, -u.z⟩
def smul (k : α) (u : V3 α) : V3 α := ⟨k * u.x, k * u.y, k * u.z⟩
def sdiv (u : V3 α) (k : α) : V3 α := ⟨u.x / k, u.y / k, u.z / k⟩
/-- componentwise product (NumPy `*`) -/
def had (u v : V3 α) : V3 α := ⟨u.x * v.x, u.y * v.y, u.z * v.z⟩
def dot (u v : V3 α) : α := u.x * v.x + u.y * v.y + u.z * v.z
def cross (u v : V3 α) : V3 α :=
  ⟨u.y * v.z - u.z * v.y, u.z * v.x - u.x * v.z, u.x * v.y - u.y * v.x⟩
def normSq (u : V3 α) : α := dot u u
def norm (u : V3 α) : α := Scalar.sqrt (normSq u)
/-- component by index 0,1,2 (anything else → z) -/
def get (u : V3 α) (i : Nat) : α := if i = 0 then u.x else if i = 1 then u.y else u.z
instance : Add (V3 α) := ⟨add⟩
instance : Sub (V3 α) := ⟨sub⟩
instance : Neg (V3 α) := ⟨neg⟩
/-- 3×3 determinant with rows u v w (`np.linalg.det` of a (3,3) array) -/
def det3 (u v w : V3 α) : α := dot u (cross v w)
def sum (l : List (V3 α)) : V3 α := l.foldr add zero
end V3

namespace Scalar
variable {α : Type} [Scalar α]
/-- right fold sum of a list of scalars -/
def sum (l : List α) : α := l.foldr (· + ·) (lit 0)
end Scalar

namespace Tri
variable {α : Type} [Scalar α]
def rot (t : Tri α) : Tri α := ⟨t.b, t.c, t.a⟩
def rev (t : Tri α) : Tri α := ⟨t.c, t.b, t.a⟩
def map (f : V3 α → V3 α) (t : Tri α) : Tri α := ⟨f t.a, f t.b, f t.c⟩
/-- un-normalised normal (b-a)×(c-a) (twice the area vector) -/
def nvec (t : Tri α) : V3 α := V3.cross (t.b - t.a) (t.c - t.a)
end Tri

namespace Tet
variable {α : Type} [Scalar α]
/-- the four faces, oriented outward when `a b c d` is positively oriented
    (i.e. `det (b-a, c-a, d-a) > 0`). -/
def bdry (T : Tet α) : List (Tri α) :=
  [⟨T.a, T.c, T.b⟩, ⟨T.a, T.b, T.d⟩, ⟨T.b, T.c, T.d⟩, ⟨T.a, T.d, T.c⟩]
def map (f : V3 α → V3 α) (T : Tet α) : Tet α := ⟨f T.a, f T.b, f T.c, f T.d⟩
end Tet
