import CoxeterVerif.Lemmas.HeapLawful
import CoxeterVerif.Lemmas.CodecPolygon
/-!
  # C16 — `Spec.Lawful` discharged for the polygon centroid getter (C04's `Poly2.centroid`)

  The certificate is C04's: `frame n` is a frame for the stored normal, the vertex cycle and a
  triangulation bounded by it lie in a plane `n · v = d`, the area is not zero. It is translation
  invariant and under it the getter model moves with the vertices (`C19.polygon_centroid_add`, proved
  from C04's `centroid_general_exact`). As in `HeapLawful.lean` the external is the concrete model
  on certified arrays and the first row elsewhere.
-/
namespace C16
open Scalar
set_option maxRecDepth 4000
noncomputable section

/-- C04's certificate for the cycle `vs` with stored normal `n` and alignment frame `R` -/
def PlanarCert (R : M3 ℝ) (n : V3 ℝ) (vs : List (V3 ℝ)) : Prop :=
  ∃ (d : ℝ) (Ts : List (Tri ℝ)), IsFrame R n ∧ InPlane n d vs ∧ TrisInPlane n d Ts ∧ Triangulates vs Ts ∧
    Spec3.area n Ts ≠ 0

theorem PlanarCert.add {R : M3 ℝ} {n : V3 ℝ} {vs : List (V3 ℝ)} (h : PlanarCert R n vs) (t : V3 ℝ) :
    PlanarCert R n (vs.map (· + t)) := by
  obtain ⟨d, Ts, hF, hpl, hT, htr, hA⟩ := h
  refine ⟨d + V3.dot n t, Ts.map (Tri.map (· + t)), hF, ?_, ?_, EdgeChainEq.map_vertices _ htr, ?_⟩
  · intro v hv
    obtain ⟨w, hw, rfl⟩ := List.mem_map.mp hv
    rw [C19.dot_add_right', hpl w hw]
  · intro u hu
    obtain ⟨w, hw, rfl⟩ := List.mem_map.mp hu
    obtain ⟨h1, h2, h3⟩ := hT w hw
    simp only [Tri.map, C19.dot_add_right', h1, h2, h3, and_self]
  · rw [C19.Spec3.area_add]; exact hA

theorem planarCert_add_iff (R : M3 ℝ) (n : V3 ℝ) (vs : List (V3 ℝ)) (t : V3 ℝ) :
    PlanarCert R n (vs.map (· + t)) ↔ PlanarCert R n vs :=
  ⟨fun h => by have := h.add (-t); rwa [map_add_neg] at this, fun h => h.add t⟩

theorem poly2_centroid_add {R : M3 ℝ} {n : V3 ℝ} {vs : List (V3 ℝ)} (h : PlanarCert R n vs) (t : V3 ℝ) :
    Poly2.centroid (vs.map (· + t)) n R = Poly2.centroid vs n R + t := by
  obtain ⟨d, Ts, hF, hpl, hT, htr, hA⟩ := h
  exact C19.polygon_centroid_add hF hpl hT htr hA t

open Classical in
/-- externals of a `Polygon` / `ConvexPolygon` (also the core of a spheropolygon): the centroid getter
is C04's `Poly2.centroid` (with the alignment frame `frame n` kabsch returns for the stored normal) on
every certified array -/
def polygonMeas (M0 : Meas ℝ) (frame : V3 ℝ → M3 ℝ) : Meas ℝ :=
  { M0 with
    cen := fun vs n => if PlanarCert (frame (l3v n)) (l3v n) (rowsOf vs)
      then Poly2.centroid (rowsOf vs) (l3v n) (frame (l3v n)) else firstRow vs
    cenV := fun _ vs => firstRow vs
    vol := fun _ => 0 }

theorem polygonMeas_cen (M0 : Meas ℝ) (frame : V3 ℝ → M3 ℝ) (vs n : Arr ℝ)
    (h : PlanarCert (frame (l3v n)) (l3v n) (rowsOf vs)) :
    (polygonMeas M0 frame).cen vs n = Poly2.centroid (rowsOf vs) (l3v n) (frame (l3v n)) := by
  simp [polygonMeas, h]

open Classical in
/-- **C04's centroid getter is lawful** -/
theorem lawful_polygon (M0 : Meas ℝ) (frame : V3 ℝ → M3 ℝ) : Spec.Lawful (polygonMeas M0 frame) where
  cen_shift := by
    intro δ vs n h
    show (if PlanarCert (frame (l3v n)) (l3v n) (rowsOf (shiftRows δ vs)) then
        Poly2.centroid (rowsOf (shiftRows δ vs)) (l3v n) (frame (l3v n)) else firstRow (shiftRows δ vs))
      = (if PlanarCert (frame (l3v n)) (l3v n) (rowsOf vs) then Poly2.centroid (rowsOf vs) (l3v n) (frame (l3v n))
          else firstRow vs) + δ
    rw [rowsOf_shiftRows]
    by_cases hc : PlanarCert (frame (l3v n)) (l3v n) (rowsOf vs)
    · rw [if_pos hc, if_pos ((planarCert_add_iff _ _ _ δ).mpr hc)]; exact poly2_centroid_add hc δ
    · rw [if_neg hc, if_neg (fun h' => hc ((planarCert_add_iff _ _ _ δ).mp h'))]; exact firstRow_shift δ vs h
  cenV_shift := fun δ vs h => firstRow_shift δ vs h
  vol_shift := fun _ _ => rfl

end
end C16
