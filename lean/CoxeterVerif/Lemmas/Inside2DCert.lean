import CoxeterVerif.Lemmas.Winding2D
/-!
  C06 — soundness of the computable triangulation-certificate checkers of `Spec/Inside2D.lean`
  (`chainCheck`, `orientedCheck`, `certCheck`, `offCheck`, `convexCheck`), and the transfer
  `ℚ → ℝ`: the model and the spec evaluated by the driver at exact `ℚ` are the model and the spec
  over `ℝ` on the cast data (`ℚ → ℝ` is an ordered-field embedding), so what the driver prints for
  the `Q` ops is, provably, what the real-number theorems speak about.
-/
open Inside2D Inside2D.Polygon Spec.In2D Scalar
set_option maxRecDepth 4000
noncomputable section
namespace In2DCert

/-! ### list facts about `edges` -/

theorem roll_map {β γ : Type} (f : β → γ) (l : List β) : roll (l.map f) = (roll l).map f := by
  cases l with
  | nil => rfl
  | cons a l => simp [roll]

theorem edges_map {β γ : Type} (f : β → γ) (l : List β) :
    edges (l.map f) = (edges l).map fun e => (f e.1, f e.2) := by
  unfold edges
  rw [roll_map, List.zip_map]
  rfl

theorem removeFirst_some {β : Type} {q : β → Bool} :
    ∀ {l l' : List β}, removeFirst q l = some l' → ∃ x, q x = true ∧ l.Perm (x :: l')
  | [], _, h => by simp [removeFirst] at h
  | y :: ys, l', h => by
    unfold removeFirst at h
    by_cases hp : q y = true
    · rw [if_pos hp] at h
      cases h
      exact ⟨y, hp, List.Perm.refl _⟩
    · rw [if_neg hp] at h
      cases hr : removeFirst q ys with
      | none => rw [hr] at h; cases h
      | some r =>
        rw [hr] at h
        cases h
        obtain ⟨x, hx, hperm⟩ := removeFirst_some hr
        exact ⟨x, hx, (hperm.cons y).trans (List.Perm.swap x y r)⟩

/-! ### generic soundness (any scalar type with a sound `eqb`, transported to `ℝ` by a vertex map) -/

def edgeTo {α : Type} (f : P2 α → P2 ℝ) (e : P2 α × P2 α) : Edge2 := (f e.1, f e.2)
def triTo {α : Type} (f : P2 α → P2 ℝ) (t : Tri2 α) : Tri2 ℝ := ⟨f t.a, f t.b, f t.c⟩

theorem flatMap_triEdges_to {α : Type} [Scalar α] (f : P2 α → P2 ℝ) (Ts : List (Tri2 α)) :
    (Ts.flatMap triEdges).map (edgeTo f) = (Ts.map (triTo f)).flatMap Tri2.bdry := by
  induction Ts with
  | nil => rfl
  | cons T Ts ih =>
    simp only [List.flatMap_cons, List.map_append, List.map_cons, ih]
    rfl

theorem esum_map_swap {G : Type} [AddCommGroup G] {φ : Edge2 → G} (hφ : OddEdge2 φ) (F : List Edge2) :
    esum φ (F.map fun e => (e.2, e.1)) = -esum φ F := by
  induction F with
  | nil => simp
  | cons e F ih =>
    simp only [List.map_cons, esum_cons, ih, hφ e.1 e.2]
    abel

/-- `E − F = 0` as a chain gives `E = F` as chains -/
theorem chainEq_of_sub_nil {E F : List Edge2}
    (h : EdgeChainEq2 (E ++ F.map fun e => (e.2, e.1)) []) : EdgeChainEq2 E F := by
  intro G _ φ hφ
  have := h G φ hφ
  rw [esum_append, esum_map_swap hφ, esum_nil] at this
  exact sub_eq_zero.mp (by rw [sub_eq_add_neg]; exact this)

section generic
variable {α : Type} [Scalar α] (heq : ∀ a b : α, Scalar.eqb a b = true → a = b)
include heq

theorem p2Eqb_sound {a b : P2 α} (h : p2Eqb a b = true) : a = b := by
  obtain ⟨ax, ay⟩ := a; obtain ⟨bx, «by»⟩ := b
  simp only [p2Eqb, Bool.and_eq_true] at h
  rw [heq _ _ h.1, heq _ _ h.2]

theorem edgeRevEqb_sound {e g : P2 α × P2 α} (h : edgeRevEqb e g = true) : e = (g.2, g.1) := by
  obtain ⟨e1, e2⟩ := e
  simp only [edgeRevEqb, Bool.and_eq_true] at h
  rw [p2Eqb_sound heq h.1, p2Eqb_sound heq h.2]

theorem cancelEdges_sound (f : P2 α → P2 ℝ) :
    ∀ (fuel : Nat) (L : List (P2 α × P2 α)), cancelEdges fuel L = true →
      EdgeChainEq2 (L.map (edgeTo f)) []
  | _, [], _ => EdgeChainEq2.refl _
  | 0, _ :: _, h => by simp [cancelEdges] at h
  | fuel + 1, e :: rest, h => by
    unfold cancelEdges at h
    cases hr : removeFirst (fun g => edgeRevEqb g e) rest with
    | none => rw [hr] at h; cases h
    | some rest' =>
      rw [hr] at h
      simp only at h
      obtain ⟨x, hx, hperm⟩ := removeFirst_some hr
      have ih := cancelEdges_sound f fuel rest' h
      have hx' := edgeRevEqb_sound heq hx
      subst hx'
      have h1 : EdgeChainEq2 ((e :: rest).map (edgeTo f))
          ((f e.1, f e.2) :: (f e.2, f e.1) :: rest'.map (edgeTo f)) := by
        simp only [List.map_cons]
        exact EdgeChainEq2.perm (by simpa [edgeTo] using (hperm.map (edgeTo f)).cons (edgeTo f e))
      exact h1.trans ((EdgeChainEq2.cancel _ _ _).trans ih)

/-- **Soundness of the boundary-chain checker**: the polygon cycle is the boundary chain of the
    triangulation (after transporting the vertices to `ℝ²` by any map). -/
theorem chainCheck_sound_gen (f : P2 α → P2 ℝ) {vs : List (P2 α)} {Ts : List (Tri2 α)}
    (h : chainCheck vs Ts = true) :
    EdgeChainEq2 (edges (vs.map f)) ((Ts.map (triTo f)).flatMap Tri2.bdry) := by
  have h0 := cancelEdges_sound heq f _ _ h
  apply chainEq_of_sub_nil
  rw [edges_map, ← flatMap_triEdges_to]
  have e1 : edgeTo f = fun e => (f e.1, f e.2) := rfl
  rw [List.map_append, List.map_map, e1] at h0
  rw [List.map_map, e1]
  exact h0

end generic

/-! ### the two instances -/

theorem eqb_real_sound (a b : ℝ) (h : Scalar.eqb a b = true) : a = b := of_decide_eq_true h
theorem eqb_rat_sound (a b : ℚ) (h : Scalar.eqb a b = true) : a = b := of_decide_eq_true h

/-- the real point with the same rational coordinates -/
def castP (p : P2 ℚ) : P2 ℝ := ⟨(p.x : ℝ), (p.y : ℝ)⟩
def castT (t : Tri2 ℚ) : Tri2 ℝ := triTo castP t

@[simp] theorem castP_x (p : P2 ℚ) : (castP p).x = (p.x : ℝ) := rfl
@[simp] theorem castP_y (p : P2 ℚ) : (castP p).y = (p.y : ℝ) := rfl
@[simp] theorem castT_a (t : Tri2 ℚ) : (castT t).a = castP t.a := rfl
@[simp] theorem castT_b (t : Tri2 ℚ) : (castT t).b = castP t.b := rfl
@[simp] theorem castT_c (t : Tri2 ℚ) : (castT t).c = castP t.c := rfl

theorem triTo_id (t : Tri2 ℝ) : triTo id t = t := rfl

theorem chainCheck_sound {vs : List (P2 ℝ)} {Ts : List (Tri2 ℝ)} (h : chainCheck vs Ts = true) :
    EdgeChainEq2 (edges vs) (Ts.flatMap Tri2.bdry) := by
  have := chainCheck_sound_gen eqb_real_sound id h
  have e1 : triTo (id : P2 ℝ → P2 ℝ) = id := rfl
  rwa [List.map_id, e1, List.map_id] at this

theorem chainCheck_sound_rat {vs : List (P2 ℚ)} {Ts : List (Tri2 ℚ)} (h : chainCheck vs Ts = true) :
    EdgeChainEq2 (edges (vs.map castP)) ((Ts.map castT).flatMap Tri2.bdry) :=
  chainCheck_sound_gen eqb_rat_sound castP h

/-! ### `ℚ → ℝ`: the model and the spec commute with the cast -/

theorem lit_rat (n : Nat) : (Scalar.lit n : ℚ) = (n : ℚ) := rfl
theorem lit_real (n : Nat) : (Scalar.lit n : ℝ) = (n : ℝ) := rfl

theorem sgn_cast (x : ℚ) : sgn ((x : ℚ) : ℝ) = sgn x := by
  unfold sgn
  have h1 : (((x : ℚ) : ℝ) < (lit 0 : ℝ)) ↔ (x < (lit 0 : ℚ)) := by
    rw [lit_rat, lit_real]; simp
  have h2 : ((lit 0 : ℝ) < ((x : ℚ) : ℝ)) ↔ ((lit 0 : ℚ) < x) := by
    rw [lit_rat, lit_real]; simp
  by_cases a : x < (lit 0 : ℚ)
  · rw [if_pos a, if_pos (h1.mpr a)]
  · rw [if_neg a, if_neg (fun h => a (h1.mp h))]
    by_cases b : (lit 0 : ℚ) < x
    · rw [if_pos b, if_pos (h2.mpr b)]
    · rw [if_neg b, if_neg (fun h => b (h2.mp h))]

theorem cast_sub' (a b : ℚ) : (((a - b : ℚ)) : ℝ) = (a : ℝ) - (b : ℝ) := by push_cast; rfl

theorem vertexSign_cast (dx dy : ℚ) : vertexSign ((dx : ℚ) : ℝ) ((dy : ℚ) : ℝ) = vertexSign dx dy := by
  unfold vertexSign; simp only [sgn_cast]

theorem edgeSign_cast (a b c d : ℚ) :
    edgeSign ((a : ℚ) : ℝ) ((b : ℚ) : ℝ) ((c : ℚ) : ℝ) ((d : ℚ) : ℝ) = edgeSign a b c d := by
  unfold edgeSign
  rw [← sgn_cast]
  congr 1
  show _ = (((a * d - b * c : ℚ)) : ℝ)
  push_cast; rfl

theorem halfTurn_cast (p a b : P2 ℚ) : halfTurn (castP p) (castP a) (castP b) = halfTurn p a b := by
  unfold halfTurn
  simp only [castP_x, castP_y]
  have e : ∀ u v : ℚ, ((u : ℝ) - (v : ℝ)) = (((u - v : ℚ)) : ℝ) := fun u v => (cast_sub' u v).symm
  simp only [e, vertexSign_cast, edgeSign_cast]

theorem halfTurnSum_cast (vs : List (P2 ℚ)) (p : P2 ℚ) :
    halfTurnSum (vs.map castP) (castP p) = halfTurnSum vs p := by
  unfold halfTurnSum
  rw [edges_map, List.map_map]
  congr 1
  apply List.map_congr_left
  intro e _
  exact halfTurn_cast p e.1 e.2

/-- the model over `ℚ` (what the driver's `Q poly.inside` evaluates) is the model over `ℝ` -/
theorem isInsideRot_cast (vs : List (P2 ℚ)) (p : P2 ℚ) :
    isInsideRot (vs.map castP) (castP p) = isInsideRot vs p := by
  unfold isInsideRot windingNumber; rw [halfTurnSum_cast]

theorem cast_orient (a b p : P2 ℚ) :
    (((orient a b p : ℚ)) : ℝ) = orient (castP a) (castP b) (castP p) := by
  show ((((b.x - a.x) * (p.y - a.y) - (b.y - a.y) * (p.x - a.x) : ℚ)) : ℝ) = _
  unfold orient; push_cast; rfl

theorem cast_dot2 (a b p : P2 ℚ) :
    (((dot2 a b p : ℚ)) : ℝ) = dot2 (castP a) (castP b) (castP p) := by
  show ((((a.x - p.x) * (b.x - p.x) + (a.y - p.y) * (b.y - p.y) : ℚ)) : ℝ) = _
  unfold dot2; push_cast; rfl

theorem pos_cast (x : ℚ) : decide ((lit 0 : ℝ) < ((x : ℚ) : ℝ)) = decide ((lit 0 : ℚ) < x) := by
  rw [lit_rat, lit_real]; simp
theorem neg_cast (x : ℚ) : decide (((x : ℚ) : ℝ) < (lit 0 : ℝ)) = decide (x < (lit 0 : ℚ)) := by
  rw [lit_rat, lit_real]; simp
theorem nonpos_cast (x : ℚ) : decide (((x : ℚ) : ℝ) ≤ (lit 0 : ℝ)) = decide (x ≤ (lit 0 : ℚ)) := by
  rw [lit_rat, lit_real]; simp
theorem eqb_zero_cast (x : ℚ) : Scalar.eqb ((x : ℚ) : ℝ) (lit 0 : ℝ) = Scalar.eqb x (lit 0 : ℚ) := by
  show decide (((x : ℚ) : ℝ) = (lit 0 : ℝ)) = decide (x = (lit 0 : ℚ))
  rw [lit_rat, lit_real]; simp

theorem inTriangle_cast (t : Tri2 ℚ) (p : P2 ℚ) : inTriangle (castT t) (castP p) = inTriangle t p := by
  unfold inTriangle
  simp only [castT_a, castT_b, castT_c, ← cast_orient, pos_cast, neg_cast]

theorem onSegment_cast (a b p : P2 ℚ) : onSegment (castP a) (castP b) (castP p) = onSegment a b p := by
  unfold onSegment
  simp only [← cast_orient, ← cast_dot2, eqb_zero_cast, nonpos_cast]

theorem onBoundary_cast (t : Tri2 ℚ) (p : P2 ℚ) : onBoundary (castT t) (castP p) = onBoundary t p := by
  unfold onBoundary
  simp only [castT_a, castT_b, castT_c, onSegment_cast]

theorem inRegion_cast (Ts : List (Tri2 ℚ)) (p : P2 ℚ) :
    inRegion (Ts.map castT) (castP p) = inRegion Ts p := by
  unfold inRegion
  rw [List.any_map]
  congr 1
  funext t
  exact inTriangle_cast t p

theorem count_cast (Ts : List (Tri2 ℚ)) (p : P2 ℚ) : count (Ts.map castT) (castP p) = count Ts p := by
  unfold count
  induction Ts with
  | nil => rfl
  | cons t Ts ih =>
    simp only [List.map_cons, List.filter_cons, inTriangle_cast]
    cases inTriangle t p <;> simpa using ih

theorem orientedCheck_sound_rat {Ts : List (Tri2 ℚ)} (h : orientedCheck Ts = true) :
    (∀ t ∈ Ts.map castT, 0 < orient t.a t.b t.c) ∨ (∀ t ∈ Ts.map castT, orient t.a t.b t.c < 0) := by
  unfold orientedCheck at h
  rw [Bool.or_eq_true, List.all_eq_true, List.all_eq_true] at h
  rcases h with h | h
  · left
    intro t ht
    obtain ⟨s, hs, rfl⟩ := List.mem_map.mp ht
    have := h s hs
    rw [← pos_cast, cast_orient, decide_eq_true_eq] at this
    simpa [lit_real] using this
  · right
    intro t ht
    obtain ⟨s, hs, rfl⟩ := List.mem_map.mp ht
    have := h s hs
    rw [← neg_cast, cast_orient, decide_eq_true_eq] at this
    simpa [lit_real] using this

theorem offCheck_sound_rat {Ts : List (Tri2 ℚ)} {p : P2 ℚ} (h : offCheck Ts p = true) :
    ∀ t ∈ Ts.map castT, onBoundary t (castP p) = false := by
  unfold offCheck at h
  rw [List.all_eq_true] at h
  intro t ht
  obtain ⟨s, hs, rfl⟩ := List.mem_map.mp ht
  have := h s hs
  rw [onBoundary_cast]
  simpa using this

theorem leftOfAll_cast (vs : List (P2 ℚ)) (p : P2 ℚ) :
    leftOfAll (vs.map castP) (castP p) = leftOfAll vs p := by
  unfold leftOfAll
  rw [edges_map, List.all_map]
  congr 1
  funext e
  simp only [Function.comp, ← cast_orient, pos_cast]

theorem rightOfAll_cast (vs : List (P2 ℚ)) (p : P2 ℚ) :
    rightOfAll (vs.map castP) (castP p) = rightOfAll vs p := by
  unfold rightOfAll
  rw [edges_map, List.all_map]
  congr 1
  funext e
  simp only [Function.comp, ← cast_orient, neg_cast]

theorem onPolygon_cast (vs : List (P2 ℚ)) (p : P2 ℚ) :
    onPolygon (vs.map castP) (castP p) = onPolygon vs p := by
  unfold onPolygon
  rw [edges_map, List.any_map]
  congr 1
  funext e
  simp only [Function.comp, onSegment_cast]

theorem castP_injective {a b : P2 ℚ} (h : castP a = castP b) : a = b := by
  obtain ⟨ax, ay⟩ := a; obtain ⟨bx, «by»⟩ := b
  simp only [castP, P2.mk.injEq, Rat.cast_inj] at h
  rw [h.1, h.2]

theorem p2Eqb_cast (a b : P2 ℚ) : p2Eqb (castP a) (castP b) = p2Eqb a b := by
  unfold p2Eqb
  show (decide (((a.x : ℚ) : ℝ) = (b.x : ℝ)) && decide (((a.y : ℚ) : ℝ) = (b.y : ℝ))) =
    (decide (a.x = b.x) && decide (a.y = b.y))
  simp

theorem convexCheck_cast (vs : List (P2 ℚ)) : convexCheck (vs.map castP) = convexCheck vs := by
  unfold convexCheck
  rw [edges_map, List.all_map]
  congr 1
  · cases vs <;> rfl
  congr 1
  funext e
  simp only [Function.comp_def, List.all_map, List.any_map]
  simp only [p2Eqb_cast, ← cast_orient, pos_cast]

end In2DCert
