import CoxeterVerif.Lemmas.BallsCert
/-!
  C13 — the acceptance test `_is_minimal_bounding_ball` of the repaired minimal bounding ball
  (da3be45), model `Balls.isMinimalBoundingBallTol`.

  `scipy.optimize.nnls` is external; its contract (`NnlsContract`) only ties the reported residual
  to the reported weights (`residual = ‖A w − b‖`, `w ≥ 0`) — optimality of nnls is NOT needed: a
  worse answer only makes the test reject more.

  * tolerances `0` (`accept_exact`): an accepted ball has a support certificate, so it IS the minimal
    bounding ball;
  * the code's tolerances (`accept_tol`): an accepted ball contains every point up to `r²(1+τc)` and
    every ball containing the points has `r'² ≥ r²·(1 − τb − τr²/(1−τr)²)`.
-/
noncomputable section
namespace Balls
open BallSpec

/-- the contract of one `nnls` call -/
structure NnlsContract (bd : List (V3 ℝ)) (c : V3 ℝ) (r2 : ℝ) (out : List ℝ × ℝ) : Prop where
  len : out.1.length = bd.length
  nonneg : ∀ w ∈ out.1, 0 ≤ w
  resid_nonneg : 0 ≤ out.2
  resid : out.2 * out.2 = nnlsResidSq bd c r2 out.1

/-- `g = Σ λ (s − c)` -/
def gvec (sup : List (ℝ × V3 ℝ)) (c : V3 ℝ) : V3 ℝ := V3.sum (sup.map fun s => V3.smul s.1 (s.2 - c))

theorem gvec_x (sup : List (ℝ × V3 ℝ)) (c : V3 ℝ) :
    (gvec sup c).x = (sup.map fun s => s.1 * s.2.x).sum - (sup.map fun s => s.1).sum * c.x := by
  unfold gvec
  rw [V3.sum_x, List.map_map]
  induction sup with
  | nil => simp
  | cons s sup ih => simp only [List.map_cons, List.sum_cons, Function.comp_apply, V3.smul_x, V3.sub_x] at ih ⊢; rw [ih]; ring
theorem gvec_y (sup : List (ℝ × V3 ℝ)) (c : V3 ℝ) :
    (gvec sup c).y = (sup.map fun s => s.1 * s.2.y).sum - (sup.map fun s => s.1).sum * c.y := by
  unfold gvec
  rw [V3.sum_y, List.map_map]
  induction sup with
  | nil => simp
  | cons s sup ih => simp only [List.map_cons, List.sum_cons, Function.comp_apply, V3.smul_y, V3.sub_y] at ih ⊢; rw [ih]; ring
theorem gvec_z (sup : List (ℝ × V3 ℝ)) (c : V3 ℝ) :
    (gvec sup c).z = (sup.map fun s => s.1 * s.2.z).sum - (sup.map fun s => s.1).sum * c.z := by
  unfold gvec
  rw [V3.sum_z, List.map_map]
  induction sup with
  | nil => simp
  | cons s sup ih => simp only [List.map_cons, List.sum_cons, Function.comp_apply, V3.smul_z, V3.sub_z] at ih ⊢; rw [ih]; ring

theorem nnlsResidSq_eq (bd : List (V3 ℝ)) (c : V3 ℝ) (r2 : ℝ) (w : List ℝ) :
    nnlsResidSq bd c r2 w = V3.normSq (gvec (List.zip w bd) c) / r2
      + (((List.zip w bd).map fun s => s.1).sum - 1) * (((List.zip w bd).map fun s => s.1).sum - 1) := by
  simp [nnlsResidSq, gvec, Scalar.sqr_real]

theorem weighted_ge (sup : List (ℝ × V3 ℝ)) (f : V3 ℝ → ℝ) (m : ℝ)
    (h : ∀ s ∈ sup, 0 ≤ s.1 ∧ m ≤ f s.2) :
    (sup.map fun s => s.1).sum * m ≤ (sup.map fun s => s.1 * f s.2).sum := by
  induction sup with
  | nil => simp
  | cons s sup ih =>
    simp only [List.map_cons, List.sum_cons]
    have h1 := h s List.mem_cons_self
    have h2 := ih fun t ht => h t (List.mem_cons_of_mem _ ht)
    nlinarith [mul_le_mul_of_nonneg_left h1.2 h1.1]

/-- **lower bound from an approximate support**: weights `≥ 0` with total `Λ > 0` on points of the set
that are at squared distance `≥ m` from `c`; then every ball containing the points has
`r'² ≥ m − ‖Σλ(s−c)‖²/Λ²`. -/
theorem approx_lower_bound (pts : List (V3 ℝ)) (sup : List (ℝ × V3 ℝ)) (c : V3 ℝ) (m : ℝ)
    (hnn : ∀ s ∈ sup, 0 ≤ s.1) (hmem : ∀ s ∈ sup, s.2 ∈ pts)
    (hpos : 0 < (sup.map fun s => s.1).sum) (hfar : ∀ s ∈ sup, m ≤ V3.normSq (s.2 - c))
    (c' : V3 ℝ) (r' : ℝ) (hb : IsBounding c' r' pts) :
    m - V3.normSq (gvec sup c) / ((sup.map fun s => s.1).sum * (sup.map fun s => s.1).sum) ≤ r' * r' := by
  set Λ := (sup.map fun s => s.1).sum with hΛ
  have hne : sup ≠ [] := by intro h0; rw [hΛ, h0] at hpos; simp at hpos
  obtain ⟨s0, hs0⟩ := List.exists_mem_of_ne_nil sup hne
  have hr' : 0 ≤ r' := radius_nonneg_of_bounding (hmem s0 hs0) hb
  have hshift := weighted_shift sup c c'
  rw [← gvec_x, ← gvec_y, ← gvec_z, ← hΛ] at hshift
  have hle := weighted_le sup (fun p => V3.normSq (p - c')) (r' * r') (by
    intro s hs
    refine ⟨hnn s hs, ?_⟩
    have := hb s.2 (hmem s hs)
    unfold InBall BallSpec.dist at this
    exact (V3.norm_le_iff _ hr').mp this)
  rw [← hΛ] at hle
  have hge := weighted_ge sup (fun p => V3.normSq (p - c)) m (fun s hs => ⟨hnn s hs, hfar s hs⟩)
  rw [← hΛ] at hge
  set g := gvec sup c with hg
  -- Λ (2 g·v + Λ‖v‖²) + ‖g‖² = ‖Λ v + g‖² ≥ 0
  have hsq : 0 ≤ Λ * (2 * (g.x * (c.x - c'.x) + g.y * (c.y - c'.y) + g.z * (c.z - c'.z))
      + Λ * V3.normSq (c - c')) + V3.normSq g := by
    have : Λ * (2 * (g.x * (c.x - c'.x) + g.y * (c.y - c'.y) + g.z * (c.z - c'.z))
        + Λ * V3.normSq (c - c')) + V3.normSq g =
        (Λ * (c.x - c'.x) + g.x) * (Λ * (c.x - c'.x) + g.x) + (Λ * (c.y - c'.y) + g.y) * (Λ * (c.y - c'.y) + g.y)
          + (Λ * (c.z - c'.z) + g.z) * (Λ * (c.z - c'.z) + g.z) := by
      simp only [V3.normSq_eq, V3.sub_x, V3.sub_y, V3.sub_z]; ring
    rw [this]
    nlinarith [mul_self_nonneg (Λ * (c.x - c'.x) + g.x), mul_self_nonneg (Λ * (c.y - c'.y) + g.y),
      mul_self_nonneg (Λ * (c.z - c'.z) + g.z)]
  have hΛΛ : 0 < Λ * Λ := mul_pos hpos hpos
  -- Λ² r'² ≥ Λ (Σλ‖s−c'‖²) = Λ (A + 2 g·v + Λ‖v‖²) ≥ Λ² m − ‖g‖²
  have h1 : Λ * (Λ * m) ≤ Λ * ((sup.map fun s => s.1 * V3.normSq (s.2 - c)).sum) :=
    mul_le_mul_of_nonneg_left hge (le_of_lt hpos)
  have h2 : Λ * ((sup.map fun s => s.1 * V3.normSq (s.2 - c')).sum) ≤ Λ * (Λ * (r' * r')) :=
    mul_le_mul_of_nonneg_left hle (le_of_lt hpos)
  rw [hshift] at h2
  have hkey : (m - r' * r') * (Λ * Λ) ≤ V3.normSq g := by nlinarith
  have : m - r' * r' ≤ V3.normSq g / (Λ * Λ) := by rw [le_div_iff₀ hΛΛ]; exact hkey
  linarith

/-! ### what an accepted ball satisfies -/

theorem isFinite_real (x : ℝ) : isFinite x = true := by
  unfold isFinite
  show decide (x - x = ((0 : ℕ) : ℝ)) = true
  simp

theorem mem_onBoundary {τb : ℝ} {pts : List (V3 ℝ)} {c : V3 ℝ} {r2 : ℝ} {p : V3 ℝ} :
    p ∈ onBoundary τb pts c r2 ↔ p ∈ pts ∧ r2 * (1 - τb) ≤ V3.normSq (p - c) := by
  unfold onBoundary
  simp [List.mem_filter]

/-- unpacking the Boolean test (over ℝ, `r2 > 0`) -/
theorem accept_spec {τc τb τr : ℝ} {nnls : List (V3 ℝ) → V3 ℝ → ℝ → List ℝ × ℝ} {pts : List (V3 ℝ)}
    {c : V3 ℝ} {r2 : ℝ} (hr2 : 0 < r2)
    (h : isMinimalBoundingBallTol τc τb τr nnls pts c r2 = true) :
    (∀ p ∈ pts, V3.normSq (p - c) ≤ r2 * (1 + τc)) ∧ onBoundary τb pts c r2 ≠ [] ∧
      (nnls (onBoundary τb pts c r2) c r2).2 ≤ τr := by
  unfold isMinimalBoundingBallTol at h
  simp only at h
  have hfin : (pts.map fun p => V3.normSq (p - c)).all isFinite = true := by
    rw [List.all_eq_true]; intro x _; exact isFinite_real x
  have hneg : decide (r2 < (Scalar.lit 0 : ℝ)) = false := by
    rw [decide_eq_false_iff_not]; simp only [Scalar.lit_real, Nat.cast_zero]; exact not_lt.mpr (le_of_lt hr2)
  have hz : Scalar.eqb r2 (Scalar.lit 0 : ℝ) = false := by
    show decide (r2 = ((0 : ℕ) : ℝ)) = false
    rw [decide_eq_false_iff_not]; simp only [Nat.cast_zero]; exact ne_of_gt hr2
  rw [hfin, isFinite_real, hneg, hz] at h
  simp only [Bool.not_true, Bool.or_self, Bool.false_eq_true, ↓reduceIte] at h
  split at h
  · cases h
  · next hmax =>
    split at h
    · cases h
    · next hemp =>
      refine ⟨fun p hp => ?_, ?_, ?_⟩
      · have := listMax_ge (pts.map fun p => V3.normSq (p - c)) _ (List.mem_map.mpr ⟨p, hp, rfl⟩)
        simp only [Scalar.lit_real, Nat.cast_one] at hmax
        linarith [not_lt.mp hmax]
      · intro h0; rw [h0] at hemp; exact hemp rfl
      · exact of_decide_eq_true h

/-- **tolerance version**: an accepted ball (`r2 > 0`, `0 ≤ τr < 1`, nnls contract) contains every point
up to `r²(1+τc)`, and every ball containing the points has `r'² ≥ r²(1 − τb) − r² τr²/(1−τr)²`. -/
theorem accept_tol {τc τb τr : ℝ} {nnls : List (V3 ℝ) → V3 ℝ → ℝ → List ℝ × ℝ} {pts : List (V3 ℝ)}
    {c : V3 ℝ} {r2 : ℝ} (hr2 : 0 < r2) (hτ : τr < 1)
    (h : isMinimalBoundingBallTol τc τb τr nnls pts c r2 = true)
    (hn : NnlsContract (onBoundary τb pts c r2) c r2 (nnls (onBoundary τb pts c r2) c r2)) :
    (∀ p ∈ pts, V3.normSq (p - c) ≤ r2 * (1 + τc)) ∧
      ∀ c' r', IsBounding c' r' pts →
        r2 * (1 - τb) - r2 * (τr * τr) / ((1 - τr) * (1 - τr)) ≤ r' * r' := by
  obtain ⟨hin, _, hres⟩ := accept_spec hr2 h
  refine ⟨hin, fun c' r' hb => ?_⟩
  set bd := onBoundary τb pts c r2 with hbd
  set out := nnls bd c r2 with hout
  set sup := List.zip out.1 bd with hsup
  have hnn : ∀ s ∈ sup, 0 ≤ s.1 := fun s hs => hn.nonneg s.1 (List.of_mem_zip hs).1
  have hmem : ∀ s ∈ sup, s.2 ∈ pts := fun s hs => (mem_onBoundary.mp (List.of_mem_zip hs).2).1
  have hfar : ∀ s ∈ sup, r2 * (1 - τb) ≤ V3.normSq (s.2 - c) :=
    fun s hs => (mem_onBoundary.mp (List.of_mem_zip hs).2).2
  set Λ := (sup.map fun s => s.1).sum with hΛ
  have hrs := hn.resid
  rw [nnlsResidSq_eq] at hrs
  have hρ : out.2 * out.2 ≤ τr * τr := by
    have := hn.resid_nonneg
    exact mul_self_le_mul_self this hres
  have hgn : 0 ≤ V3.normSq (gvec sup c) / r2 := div_nonneg (V3.normSq_nonneg _) (le_of_lt hr2)
  have hΛ1 : (Λ - 1) * (Λ - 1) ≤ τr * τr := by rw [hΛ]; linarith
  have hg2 : V3.normSq (gvec sup c) ≤ r2 * (τr * τr) := by
    have : V3.normSq (gvec sup c) / r2 ≤ τr * τr := by nlinarith [mul_self_nonneg (Λ - 1)]
    rwa [div_le_iff₀ hr2, mul_comm] at this
  have hτ0 : 0 ≤ τr := le_trans hn.resid_nonneg hres
  have hΛlow : 1 - τr ≤ Λ := by
    by_contra hlt
    push Not at hlt
    have : τr < 1 - Λ := by linarith
    nlinarith
  have h1τ : 0 < 1 - τr := by linarith
  have hΛpos : 0 < Λ := lt_of_lt_of_le h1τ hΛlow
  have hlb := approx_lower_bound pts sup c (r2 * (1 - τb)) hnn hmem hΛpos hfar c' r' hb
  rw [← hΛ] at hlb
  have hfrac : V3.normSq (gvec sup c) / (Λ * Λ) ≤ r2 * (τr * τr) / ((1 - τr) * (1 - τr)) := by
    have hΛΛ : (1 - τr) * (1 - τr) ≤ Λ * Λ := mul_self_le_mul_self (le_of_lt h1τ) hΛlow
    have hnum : 0 ≤ r2 * (τr * τr) := by positivity
    calc V3.normSq (gvec sup c) / (Λ * Λ) ≤ r2 * (τr * τr) / (Λ * Λ) :=
          div_le_div_of_nonneg_right hg2 (le_of_lt (mul_pos hΛpos hΛpos))
      _ ≤ r2 * (τr * τr) / ((1 - τr) * (1 - τr)) :=
          div_le_div_of_nonneg_left hnum (mul_pos h1τ h1τ) hΛΛ
  linarith

/-- **exact version** (all tolerances `0`): an accepted ball has a support certificate — weights of
nnls on the boundary points — hence it IS the minimal bounding ball. -/
theorem accept_exact {nnls : List (V3 ℝ) → V3 ℝ → ℝ → List ℝ × ℝ} {pts : List (V3 ℝ)}
    {c : V3 ℝ} {r2 : ℝ} (hr2 : 0 < r2)
    (h : isMinimalBoundingBallTol 0 0 0 nnls pts c r2 = true)
    (hn : NnlsContract (onBoundary 0 pts c r2) c r2 (nnls (onBoundary 0 pts c r2) c r2)) :
    IsCertificate pts c (Real.sqrt r2)
      (List.zip (nnls (onBoundary 0 pts c r2) c r2).1 (onBoundary 0 pts c r2)) := by
  obtain ⟨hin, _, hres⟩ := accept_spec hr2 h
  set bd := onBoundary 0 pts c r2 with hbd
  set out := nnls bd c r2 with hout
  set sup := List.zip out.1 bd with hsup
  have hr0 : out.2 = 0 := le_antisymm hres hn.resid_nonneg
  have hrs := hn.resid
  rw [nnlsResidSq_eq, hr0] at hrs
  have hgn : 0 ≤ V3.normSq (gvec sup c) / r2 := div_nonneg (V3.normSq_nonneg _) (le_of_lt hr2)
  set Λ := (sup.map fun s => s.1).sum with hΛ
  have hΛ1 : Λ = 1 := by
    have : (Λ - 1) * (Λ - 1) = 0 := by nlinarith [mul_self_nonneg (Λ - 1)]
    have := mul_self_eq_zero.mp this
    linarith
  have hg0 : V3.normSq (gvec sup c) = 0 := by
    have : V3.normSq (gvec sup c) / r2 = 0 := by nlinarith [mul_self_nonneg (Λ - 1)]
    rcases div_eq_zero_iff.mp this with h0 | h0
    · exact h0
    · exact absurd h0 (ne_of_gt hr2)
  have hgz : gvec sup c = V3.zero := by
    have : gvec sup c - V3.zero = gvec sup c := by ext <;> simp
    have h2 : V3.normSq (gvec sup c - V3.zero) = 0 := by rw [this]; exact hg0
    exact eq_of_normSq_sub_eq_zero h2
  refine ⟨?_, ?_, ?_, ?_, hΛ1, ?_⟩
  · intro p hp
    apply inBall_of_distSq_le
    have := hin p hp
    simpa [distSq] using this
  · exact fun s hs => (mem_onBoundary.mp (List.of_mem_zip hs).2).1
  · intro s hs
    have h1 := (mem_onBoundary.mp (List.of_mem_zip hs).2)
    have hle := hin s.2 h1.1
    have heq : V3.normSq (s.2 - c) = r2 := by linarith [h1.2]
    unfold BallSpec.dist
    rw [V3.norm_eq, heq]
  · exact fun s hs => hn.nonneg s.1 (List.of_mem_zip hs).1
  · have hx := gvec_x sup c; have hy := gvec_y sup c; have hz := gvec_z sup c
    rw [hgz, ← hΛ, hΛ1] at hx hy hz
    simp only [V3.zero_x, V3.zero_y, V3.zero_z, one_mul] at hx hy hz
    ext
    · rw [comb_x]; linarith
    · rw [comb_y]; linarith
    · rw [comb_z]; linarith

end Balls
end
