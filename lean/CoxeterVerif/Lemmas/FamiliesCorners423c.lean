import CoxeterVerif.Spec.Families
import CoxeterVerif.Generated.Planes
/-! Corner solid of Family423 on the regenerated table (cube at (1,3)); `decide +kernel` over ℤ[√5]. -/
open Fam
set_option maxRecDepth 100000
namespace FamTables
theorem c423_cube : Gen.fam423.cornerIs ⟨1, 0⟩ ⟨3, 0⟩ cubeT = true := by
  decide +kernel
end FamTables
