import CoxeterVerif.Lemmas.Inside3DTet1
import CoxeterVerif.Lemmas.ChainCheck
/-!
  C05: from the single-tetrahedron lemma to whole surfaces.

  * `windingSum_eq_signedCount` : `S = ∂(Σ Ts)` as chains and `p` off all face planes ⇒
      `windingSum S p = 2 · signedCount Ts p`;
  * `cone_closed'` : a closed oriented surface is the boundary chain of its cone from any apex,
    so `windingSum S p = 2 · rayWinding o S p` (signed ray-crossing number);
  * transport ℚ → ℝ of everything the driver evaluates exactly (`closedCheck`, `offPlanes`,
    `signedCount`, `inTet`).
-/
open Scalar
set_option maxRecDepth 4000
noncomputable section

namespace Inside3D
open Spec.In3D CCk

theorem sign_eq_sgn (x : ℝ) : Spec.In3D.sign x = sgn x := by
  unfold Spec.In3D.sign sgn
  simp only [Scalar.lit, Scalar.ofNat_real, Nat.cast_zero]
  rcases lt_trichotomy x 0 with h | h | h
  · rw [if_neg (not_lt.mpr h.le), if_pos h, if_pos h]
  · subst h; simp
  · rw [if_pos h, if_neg (not_lt.mpr h.le), if_pos h]

theorem offPlanes_iff (Ts : List (Tet ℝ)) (p : V3 ℝ) :
    offPlanes Ts p = true ↔ ∀ T ∈ Ts, ∀ x ∈ bary T p, x ≠ 0 := by
  unfold offPlanes
  simp only [List.all_eq_true, Bool.not_eq_true', Scalar.lit, Scalar.ofNat_real, Nat.cast_zero]
  constructor
  · intro h T hT x hx h0
    have := h T hT x hx
    rw [h0] at this
    have e : Scalar.eqb (0 : ℝ) 0 = true := decide_eq_true rfl
    rw [e] at this; exact Bool.noConfusion this
  · intro h T hT x hx
    have := h T hT x hx
    exact decide_eq_false this

/-- additivity of the winding sum over a tetrahedralisation (chain framework) -/
theorem windingSum_additive {S : List (Tri ℝ)} {Ts : List (Tet ℝ)}
    (h : ChainEq S (Ts.flatMap Tet.bdry)) (p : V3 ℝ) :
    Poly.windingSum S p = (Ts.map fun T => Poly.windingSum T.bdry p).sum := by
  have h1 := sumOver_bdry (windPhi_oddCyclic p) (Φ := fun T => sumOver (windPhi p) T.bdry)
    (fun _ => rfl) h
  rw [← windingSum_eq_sumOver] at h1
  have h2 : ∀ Ts : List (Tet ℝ), ((Ts.map fun T => sumOver (windPhi p) T.bdry).sum : ℝ) =
      (((Ts.map fun T => Poly.windingSum T.bdry p).sum : Int) : ℝ) := by
    intro Ts
    induction Ts with
    | nil => simp
    | cons T Ts ih => simp only [List.map_cons, List.sum_cons, Int.cast_add, windingSum_eq_sumOver, ih]
  rw [h2 Ts] at h1
  exact_mod_cast h1

theorem sum_map_two_mul {β : Type} (f : β → Int) (l : List β) :
    (l.map fun x => 2 * f x).sum = 2 * (l.map f).sum := by
  induction l with
  | nil => simp
  | cons a l ih => simp only [List.map_cons, List.sum_cons, ih]; ring

/-- **the winding sum is twice the signed number of tetrahedra containing the point** -/
theorem windingSum_eq_signedCount {S : List (Tri ℝ)} {Ts : List (Tet ℝ)}
    (h : ChainEq S (Ts.flatMap Tet.bdry)) (p : V3 ℝ) (hoff : offPlanes Ts p = true) :
    Poly.windingSum S p = 2 * signedCount Ts p := by
  rw [windingSum_additive h p]
  unfold signedCount
  rw [← sum_map_two_mul]
  congr 1
  apply List.map_congr_left
  intro T hT
  rw [tet_winding T p ((offPlanes_iff Ts p).mp hoff T hT), sign_eq_sgn]

theorem fdiv_two_mul (k : Int) : Int.fdiv (2 * k) 2 = k := by
  rw [Int.fdiv_eq_ediv_of_nonneg _ (by norm_num)]; omega

theorem isInside1_iff_signedCount {S : List (Tri ℝ)} {Ts : List (Tet ℝ)}
    (h : ChainEq S (Ts.flatMap Tet.bdry)) (p : V3 ℝ) (hoff : offPlanes Ts p = true) :
    Poly.isInside1 S p = true ↔ signedCount Ts p ≠ 0 := by
  unfold Poly.isInside1 Poly.windingNumber
  rw [windingSum_eq_signedCount h p hoff, fdiv_two_mul]
  simp

/-! ### cone over a closed surface -/

theorem coneTets_eq_cone (o : V3 ℝ) (S : List (Tri ℝ)) : coneTets o S = ChainCheck.cone o S := rfl

/-- a closed oriented surface is the boundary chain of its cone from any apex -/
theorem cone_closed' {S : List (Tri ℝ)} (h : ClosedSurface S) (o : V3 ℝ) :
    ChainEq S ((coneTets o S).flatMap Tet.bdry) := by
  intro φ hφ
  have hodd : OddEdge (fun e : Edge => φ ⟨o, e.1, e.2⟩) := fun x y => oddCyclic_swap hφ o x y
  have h0 := h _ hodd
  rw [coneTets_eq_cone, sumOver_cone hφ o S, h0]
  simp [sumEdges]

theorem closedCheck_sound' {S : List (Tri ℝ)} (h : ChainCheck.closedCheck S = true) : ClosedSurface S := by
  have := cancelEdges_sound eqb_real_sound id _ _ h
  rw [flatMap_edgesOf_triTo] at this
  simpa [triTo_id, ClosedSurface] using this

theorem closedCheck_rat_sound' {S : List (Tri ℚ)} (h : ChainCheck.closedCheck S = true) :
    ClosedSurface (S.map triOfRat) := by
  have := cancelEdges_sound eqb_rat_sound v3OfRat _ _ h
  rw [flatMap_edgesOf_triTo] at this
  exact this

/-! ### ℚ → ℝ -/

theorem orient_ofRat (a b c d : V3 ℚ) :
    orient (v3OfRat a) (v3OfRat b) (v3OfRat c) (v3OfRat d) = ((orient a b c d : ℚ) : ℝ) := by
  obtain ⟨ax, ay, az⟩ := a; obtain ⟨bx, b_y, bz⟩ := b; obtain ⟨cx, cy, cz⟩ := c; obtain ⟨dx, dy, dz⟩ := d
  simp only [orient, v3OfRat, V3.det3, V3.dot, V3.cross, gsub_x, gsub_y, gsub_z]
  push_cast; ring

theorem bary_ofRat (T : Tet ℚ) (p : V3 ℚ) :
    bary (tetOfRat T) (v3OfRat p) = (bary T p).map fun q : ℚ => (q : ℝ) := by
  simp only [bary, tetOfRat, tetTo, List.map_cons, List.map_nil, orient_ofRat]

theorem lit_zero_rat : ((lit 0 : ℚ) : ℝ) = (lit 0 : ℝ) := by
  simp [Scalar.lit, Scalar.ofNat]

theorem decide_lt_cast (x y : ℚ) : decide ((x : ℝ) < (y : ℝ)) = decide (x < y) := by
  simp only [Rat.cast_lt]
theorem decide_le_cast (x y : ℚ) : decide ((x : ℝ) ≤ (y : ℝ)) = decide (x ≤ y) := by
  simp only [Rat.cast_le]

theorem all_map_cast (f : ℝ → Bool) (g : ℚ → Bool) (hfg : ∀ q : ℚ, f (q : ℝ) = g q) (l : List ℚ) :
    (l.map fun q : ℚ => (q : ℝ)).all f = l.all g := by
  induction l with
  | nil => rfl
  | cons a l ih => simp only [List.map_cons, List.all_cons, ih, hfg]

theorem inTet_ofRat (T : Tet ℚ) (p : V3 ℚ) : inTet (tetOfRat T) (v3OfRat p) = inTet T p := by
  unfold inTet
  simp only
  rw [bary_ofRat]
  have h0 : (lit 0 : ℝ) = ((lit 0 : ℚ) : ℝ) := lit_zero_rat.symm
  have hD : orient (tetOfRat T).a (tetOfRat T).b (tetOfRat T).c (tetOfRat T).d =
      ((orient T.a T.b T.c T.d : ℚ) : ℝ) := orient_ofRat _ _ _ _
  rw [hD, h0, decide_lt_cast, decide_lt_cast,
    all_map_cast (fun x => decide (((lit 0 : ℚ) : ℝ) ≤ x)) (fun x => decide (lit 0 ≤ x))
      (fun q => decide_le_cast _ _),
    all_map_cast (fun x => decide (x ≤ ((lit 0 : ℚ) : ℝ))) (fun x => decide (x ≤ lit 0))
      (fun q => decide_le_cast _ _)]

theorem sign_ofRat (x : ℚ) : Spec.In3D.sign (x : ℝ) = Spec.In3D.sign x := by
  unfold Spec.In3D.sign
  have h0 : (lit 0 : ℝ) = ((lit 0 : ℚ) : ℝ) := lit_zero_rat.symm
  rw [h0]
  simp only [Rat.cast_lt]

theorem signedCount_ofRat (Ts : List (Tet ℚ)) (p : V3 ℚ) :
    signedCount (Ts.map tetOfRat) (v3OfRat p) = signedCount Ts p := by
  unfold signedCount
  rw [List.map_map]
  congr 1
  apply List.map_congr_left
  intro T _
  simp only [Function.comp]
  rw [inTet_ofRat]
  have hD : orient (tetOfRat T).a (tetOfRat T).b (tetOfRat T).c (tetOfRat T).d =
      ((orient T.a T.b T.c T.d : ℚ) : ℝ) := orient_ofRat _ _ _ _
  rw [hD, sign_ofRat]

theorem offPlanes_ofRat (Ts : List (Tet ℚ)) (p : V3 ℚ) :
    offPlanes (Ts.map tetOfRat) (v3OfRat p) = offPlanes Ts p := by
  unfold offPlanes
  rw [List.all_map]
  congr 1
  funext T
  simp only [Function.comp]
  rw [bary_ofRat]
  apply all_map_cast
  intro q
  have h0 : (lit 0 : ℝ) = ((lit 0 : ℚ) : ℝ) := lit_zero_rat.symm
  rw [h0]
  show (!decide ((q : ℝ) = ((lit 0 : ℚ) : ℝ))) = !decide (q = lit 0)
  simp only [Rat.cast_inj]

theorem coneTets_ofRat (o : V3 ℚ) (S : List (Tri ℚ)) :
    coneTets (v3OfRat o) (S.map triOfRat) = (coneTets o S).map tetOfRat := by
  simp only [coneTets, List.map_map]; rfl

/-! ### properly oriented tetrahedralisations: the signed count is the count -/

theorem inTet_orient_ne {T : Tet ℝ} {p : V3 ℝ} (h : inTet T p = true) : orient T.a T.b T.c T.d ≠ 0 := by
  simp only [inTet, Bool.or_eq_true, Bool.and_eq_true, decide_eq_true_iff, Scalar.lit, Scalar.ofNat_real,
    Nat.cast_zero] at h
  rcases h with ⟨h, _⟩ | ⟨h, _⟩
  · exact h.ne'
  · exact h.ne

theorem signedCount_eq_count (Ts : List (Tet ℝ)) (p : V3 ℝ)
    (hor : ∀ T ∈ Ts, 0 ≤ orient T.a T.b T.c T.d) : signedCount Ts p = (countTets Ts p : Int) := by
  unfold signedCount countTets
  induction Ts with
  | nil => simp
  | cons T Ts ih =>
    have ih' := ih (fun T' hT' => hor T' (List.mem_cons_of_mem _ hT'))
    simp only [List.map_cons, List.sum_cons, List.filter_cons, ih']
    by_cases h : inTet T p = true
    · have hpos : 0 < orient T.a T.b T.c T.d :=
        lt_of_le_of_ne (hor T List.mem_cons_self) (Ne.symm (inTet_orient_ne h))
      rw [if_pos h, if_pos h, sign_eq_sgn, sgn_pos' hpos]
      simp only [List.length_cons]; push_cast; ring
    · rw [if_neg h, if_neg h]; simp

theorem countTets_ne_zero_iff (Ts : List (Tet ℝ)) (p : V3 ℝ) :
    ((countTets Ts p : Int) ≠ 0) ↔ inTets Ts p = true := by
  simp only [ne_eq, Int.natCast_eq_zero, inTets, countTets]
  rw [List.any_eq_true, List.length_eq_zero_iff, List.filter_eq_nil_iff]
  push Not
  constructor
  · rintro ⟨T, hT1, hT2⟩; exact ⟨T, hT1, hT2⟩
  · rintro ⟨T, hT1, hT2⟩; exact ⟨T, hT1, hT2⟩

theorem inTets_ofRat (Ts : List (Tet ℚ)) (p : V3 ℚ) :
    inTets (Ts.map tetOfRat) (v3OfRat p) = inTets Ts p := by
  unfold inTets
  rw [List.any_map]
  congr 1
  funext T
  exact inTet_ofRat T p

theorem chainCheck_tets_rat_sound' {S : List (Tri ℚ)} {Ts : List (Tet ℚ)}
    (h : ChainCheck.chainCheck S (Ts.flatMap Tet.bdry) = true) :
    ChainEq (S.map triOfRat) ((Ts.map tetOfRat).flatMap Tet.bdry) := by
  have := chainCheck_sound_gen eqb_rat_sound v3OfRat h
  unfold triOfRat
  rwa [flatMap_bdry_tetTo] at this

/-! ### the weaker genericity condition `offCone` -/

theorem eqb_zero_false_iff (x : ℝ) : Scalar.eqb x (lit 0) = false ↔ x ≠ 0 := by
  show decide (x = (lit 0 : ℝ)) = false ↔ x ≠ 0
  simp [Scalar.lit]

theorem eqb_zero_true_iff (x : ℝ) : Scalar.eqb x (lit 0) = true ↔ x = 0 := by
  show decide (x = (lit 0 : ℝ)) = true ↔ x = 0
  simp [Scalar.lit]

/-- the single-tetrahedron lemma under the decidable genericity test `offApex` -/
theorem tet_winding_off (T : Tet ℝ) (p : V3 ℝ) (h : offApex T p = true) :
    Poly.windingSum T.bdry p =
      2 * (if inTet T p = true then sgn (orient T.a T.b T.c T.d) else 0) := by
  unfold offApex at h
  simp only [Bool.or_eq_true, Bool.and_eq_true, Bool.not_eq_true', eqb_zero_false_iff, eqb_zero_true_iff] at h
  rcases h with ⟨⟨⟨n1, n2⟩, n3⟩, h0⟩ | ⟨⟨z0, hin⟩, hz⟩
  · exact tet_winding' T p n1 n2 n3 h0
  · rw [hin]
    simp only [Bool.false_eq_true, if_false, mul_zero]
    apply tet_winding_edge T p z0 _ hin
    rcases hz with (⟨⟨z1, n2⟩, n3⟩ | ⟨⟨n1, z2⟩, n3⟩) | ⟨⟨n1, n2⟩, z3⟩
    · exact Or.inl ⟨z1, n2, n3⟩
    · exact Or.inr (Or.inl ⟨n1, z2, n3⟩)
    · exact Or.inr (Or.inr ⟨n1, n2, z3⟩)

theorem offCone_of_offPlanes {Ts : List (Tet ℝ)} {p : V3 ℝ} (h : offPlanes Ts p = true) :
    offCone Ts p = true := by
  rw [offPlanes_iff] at h
  unfold offCone
  rw [List.all_eq_true]
  intro T hT
  have hT' := h T hT
  simp only [bary, List.mem_cons, List.not_mem_nil, or_false, forall_eq_or_imp, forall_eq] at hT'
  unfold offApex
  simp only [Bool.or_eq_true, Bool.and_eq_true, Bool.not_eq_true', eqb_zero_false_iff, eqb_zero_true_iff]
  exact Or.inl ⟨⟨⟨hT'.2.1, hT'.2.2.1⟩, hT'.2.2.2⟩, Or.inl hT'.1⟩

/-- **the winding sum is twice the signed number of tetrahedra containing the point** (weak
genericity: `offCone`) -/
theorem windingSum_eq_signedCount' {S : List (Tri ℝ)} {Ts : List (Tet ℝ)}
    (h : ChainEq S (Ts.flatMap Tet.bdry)) (p : V3 ℝ) (hoff : offCone Ts p = true) :
    Poly.windingSum S p = 2 * signedCount Ts p := by
  rw [windingSum_additive h p]
  unfold signedCount
  rw [← sum_map_two_mul]
  congr 1
  apply List.map_congr_left
  intro T hT
  unfold offCone at hoff
  rw [tet_winding_off T p (List.all_eq_true.mp hoff T hT), sign_eq_sgn]

theorem isInside1_iff_signedCount' {S : List (Tri ℝ)} {Ts : List (Tet ℝ)}
    (h : ChainEq S (Ts.flatMap Tet.bdry)) (p : V3 ℝ) (hoff : offCone Ts p = true) :
    Poly.isInside1 S p = true ↔ signedCount Ts p ≠ 0 := by
  unfold Poly.isInside1 Poly.windingNumber
  rw [windingSum_eq_signedCount' h p hoff, fdiv_two_mul]
  simp

theorem eqb_zero_ofRat (x : ℚ) : Scalar.eqb (x : ℝ) (lit 0) = Scalar.eqb x (lit 0) := by
  have h0 : (lit 0 : ℝ) = ((lit 0 : ℚ) : ℝ) := lit_zero_rat.symm
  rw [h0]
  show decide ((x : ℝ) = ((lit 0 : ℚ) : ℝ)) = decide (x = lit 0)
  simp only [Rat.cast_inj]

theorem offCone_ofRat (Ts : List (Tet ℚ)) (p : V3 ℚ) :
    offCone (Ts.map tetOfRat) (v3OfRat p) = offCone Ts p := by
  unfold offCone
  rw [List.all_map]
  congr 1
  funext T
  simp only [Function.comp, offApex]
  rw [inTet_ofRat]
  have e1 : orient (tetOfRat T).a (v3OfRat p) (tetOfRat T).c (tetOfRat T).d =
      ((orient T.a p T.c T.d : ℚ) : ℝ) := orient_ofRat _ _ _ _
  have e2 : orient (tetOfRat T).a (tetOfRat T).b (v3OfRat p) (tetOfRat T).d =
      ((orient T.a T.b p T.d : ℚ) : ℝ) := orient_ofRat _ _ _ _
  have e3 : orient (tetOfRat T).a (tetOfRat T).b (tetOfRat T).c (v3OfRat p) =
      ((orient T.a T.b T.c p : ℚ) : ℝ) := orient_ofRat _ _ _ _
  have e0 : orient (v3OfRat p) (tetOfRat T).b (tetOfRat T).c (tetOfRat T).d =
      ((orient p T.b T.c T.d : ℚ) : ℝ) := orient_ofRat _ _ _ _
  rw [e0, e1, e2, e3, eqb_zero_ofRat, eqb_zero_ofRat, eqb_zero_ofRat, eqb_zero_ofRat]

end Inside3D
end
