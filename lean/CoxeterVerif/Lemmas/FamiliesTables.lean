import CoxeterVerif.Spec.Families
import CoxeterVerif.Generated.Planes
/-!
  Kernel-evaluated facts about the tables REGENERATED from /repo (`Generated/Planes.lean`):
  they are the documented families; determinant gap; corner solids of 323+ and (soundness half) 523.
  Every proof is `decide +kernel` on a Bool predicate over ℤ[√5] — re-checked against the
  repository's present content on every build.
-/
open Fam
set_option maxRecDepth 100000

namespace FamTables

theorem fam323_isDoc : Gen.fam323.isDoc doc323 = true := by decide +kernel
theorem fam423_isDoc : Gen.fam423.isDoc doc423 = true := by decide +kernel
theorem fam523_isDoc : Gen.fam523.isDoc doc523 = true := by decide +kernel
theorem tt_isDoc : (Gen.tt.isDoc && Gen.ttUses323) = true := by decide +kernel
theorem doi_isDoc : (Gen.doi.files == docDoi.files && Gen.doi.families == docDoi.families) = true := by
  decide +kernel

/-- entry bounds `|p| + 3|q| ≤ K` for the norm argument of `Fam.det_gap_of_bounded` -/
theorem fam323_within : entriesWithin Gen.fam323.planes 1 = true := by decide +kernel
theorem fam423_within : entriesWithin Gen.fam423.planes 1 = true := by decide +kernel
theorem fam523_within : entriesWithin Gen.fam523.planes 6 = true := by decide +kernel

/-- the 323+ and 423 tables have no √5 part -/
theorem fam323_rational : Gen.fam323.rational = true := by decide +kernel
theorem fam423_rational : Gen.fam423.rational = true := by decide +kernel

theorem fam323_detGap : detGap Gen.fam323.planes Gen.fam323.den = true := by decide +kernel
theorem fam423_detGap : detGap Gen.fam423.planes Gen.fam423.den = true := by decide +kernel

/-! 323+ : octahedron (1,1), tetrahedra (3,1), (1,3), cube (3,3) -/
theorem c323_octahedron : Gen.fam323.cornerIs ⟨1, 0⟩ ⟨1, 0⟩ octahedronT = true := by decide +kernel
theorem c323_tetrahedron_a3 : Gen.fam323.cornerIs ⟨3, 0⟩ ⟨1, 0⟩ tetrahedronDualT = true := by decide +kernel
theorem c323_tetrahedron_c3 : Gen.fam323.cornerIs ⟨1, 0⟩ ⟨3, 0⟩ tetrahedronT = true := by decide +kernel
theorem c323_cube : Gen.fam323.cornerIs ⟨3, 0⟩ ⟨3, 0⟩ cubeT = true := by decide +kernel

/-! 523 (denominator 2; 1 = 2/2, s√5 = (5−√5)/2, S² = (3+√5)/2, 3 = 6/2): every textbook vertex
    (scaled by s = 1/φ = (√5−1)/2) is a vertex of the polytope; counts 30, 12, 20, 32 -/
theorem c523_icosidodecahedron :
    (Gen.fam523.cornerHas ⟨2, 0⟩ ⟨3, 1⟩ (icosidodecahedronT.swapYZ.scale ⟨-1, 1⟩ 2) &&
      icosidodecahedronT.V.length == 30) = true := by decide +kernel
theorem c523_icosahedron :
    (Gen.fam523.cornerHas ⟨5, -1⟩ ⟨3, 1⟩ (icosahedronT.scale ⟨-1, 1⟩ 2) &&
      icosahedronT.V.length == 12) = true := by decide +kernel
theorem c523_dodecahedron :
    (Gen.fam523.cornerHas ⟨2, 0⟩ ⟨6, 0⟩ (dodecahedronT.scale ⟨-1, 1⟩ 2) &&
      dodecahedronT.V.length == 20) = true := by decide +kernel
theorem c523_rhombicTriacontahedron :
    (Gen.fam523.cornerHas ⟨5, -1⟩ ⟨6, 0⟩ (rhombicTriacontahedronT.scale ⟨-1, 1⟩ 2) &&
      rhombicTriacontahedronT.V.length == 32) = true := by decide +kernel

end FamTables
