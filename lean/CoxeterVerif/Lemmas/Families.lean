import CoxeterVerif.Lemmas.Basic
import CoxeterVerif.Model.Families
import CoxeterVerif.Spec.Families
import Mathlib.Algebra.Order.Floor.Ring
import Mathlib.Tactic.Positivity
/-! Helper lemmas for C17: list plumbing of `makeVertices`, Cramer's rule, rounding. -/
open Scalar
set_option maxRecDepth 4000

namespace Fam

/-! ### list plumbing -/

theorem mem_runHeadsAux {β : Type} (eq : β → β → Bool) (p x : β) (l : List β)
    (h : x ∈ runHeadsAux eq p l) : x ∈ l := by
  induction l generalizing p with
  | nil => simp [runHeadsAux] at h
  | cons y ys ih =>
    simp only [runHeadsAux] at h
    split at h
    · exact List.mem_cons_of_mem _ (ih _ h)
    · rcases List.mem_cons.mp h with h | h
      · exact h ▸ List.mem_cons_self
      · exact List.mem_cons_of_mem _ (ih _ h)

theorem mem_runHeads {β : Type} (eq : β → β → Bool) (x : β) (l : List β)
    (h : x ∈ runHeads eq l) : x ∈ l := by
  cases l with
  | nil => simp [runHeads] at h
  | cons y ys =>
    simp only [runHeads] at h
    rcases List.mem_cons.mp h with h | h
    · exact h ▸ List.mem_cons_self
    · exact List.mem_cons_of_mem _ (mem_runHeadsAux eq _ _ _ h)

/-- every element of the list is represented in `runHeadsAux` by an element related to it through a
    chain of `eq`; with `eq` an equivalence: by an `eq`-equal element (or by the carried head `p`) -/
theorem runHeadsAux_complete {β : Type} (eq : β → β → Bool)
    (hrefl : ∀ a, eq a a = true)
    (p x : β) (l : List β) (h : x ∈ l) :
    eq p x = true ∨ ∃ y ∈ runHeadsAux eq p l, eq y x = true := by
  induction l generalizing p with
  | nil => simp at h
  | cons z zs ih =>
    simp only [runHeadsAux]
    rcases List.mem_cons.mp h with h | h
    · subst h
      by_cases hpz : eq p x = true
      · exact Or.inl hpz
      · right; simp only [hpz]; exact ⟨x, by simp, hrefl x⟩
    · by_cases hpz : eq p z = true
      · simp only [hpz, if_true]; exact ih p h
      · simp only [hpz]
        rcases ih z h with h' | ⟨y, hy, hyx⟩
        · right; exact ⟨z, by simp, h'⟩
        · right; exact ⟨y, List.mem_cons_of_mem _ hy, hyx⟩

theorem runHeads_complete {β : Type} (eq : β → β → Bool)
    (hrefl : ∀ a, eq a a = true) (x : β) (l : List β) (h : x ∈ l) :
    ∃ y ∈ runHeads eq l, eq y x = true := by
  cases l with
  | nil => simp at h
  | cons z zs =>
    simp only [runHeads]
    rcases List.mem_cons.mp h with h | h
    · subst h; exact ⟨x, by simp, hrefl x⟩
    · rcases runHeadsAux_complete eq hrefl z x zs h with h' | ⟨y, hy, hyx⟩
      · exact ⟨z, by simp, h'⟩
      · exact ⟨y, List.mem_cons_of_mem _ hy, hyx⟩

theorem mem_pairsOf {β : Type} (l : List β) (x y : β) (h : (x, y) ∈ pairsOf l) :
    [x, y].Sublist l := by
  induction l with
  | nil => simp [pairsOf] at h
  | cons z zs ih =>
    simp only [pairsOf, List.mem_append, List.mem_map, Prod.mk.injEq] at h
    rcases h with ⟨w, hw, rfl, rfl⟩ | h
    · exact List.Sublist.cons_cons _ (List.singleton_sublist.mpr hw)
    · exact List.Sublist.cons _ (ih h)

/-- the triples are taken at increasing positions of the list -/
theorem mem_triplesOf {β : Type} (l : List β) (t : β × β × β) (h : t ∈ triplesOf l) :
    [t.1, t.2.1, t.2.2].Sublist l := by
  induction l with
  | nil => simp [triplesOf] at h
  | cons z zs ih =>
    simp only [triplesOf, List.mem_append, List.mem_map] at h
    rcases h with ⟨yz, hyz, rfl⟩ | h
    · exact List.Sublist.cons_cons _ (mem_pairsOf zs yz.1 yz.2 hyz)
    · exact List.Sublist.cons _ (ih h)

theorem pairsOf_complete {β : Type} (l : List β) (x y : β) (h : [x, y].Sublist l) :
    (x, y) ∈ pairsOf l := by
  induction l with
  | nil => simp at h
  | cons z zs ih =>
    simp only [pairsOf, List.mem_append, List.mem_map, Prod.mk.injEq]
    cases h with
    | cons _ h' => exact Or.inr (ih h')
    | cons_cons _ h' => exact Or.inl ⟨y, List.singleton_sublist.mp h', rfl, rfl⟩

theorem triplesOf_complete {β : Type} (l : List β) (x y z : β) (h : [x, y, z].Sublist l) :
    (x, y, z) ∈ triplesOf l := by
  induction l with
  | nil => simp at h
  | cons w ws ih =>
    simp only [triplesOf, List.mem_append, List.mem_map]
    cases h with
    | cons _ h' => exact Or.inr (ih h')
    | cons_cons _ h' => exact Or.inl ⟨(y, z), pairsOf_complete ws y z h', rfl⟩

/-! ### constants at ℝ -/

@[simp] theorem thresh_real : (thresh : ℝ) = 1 / 1000000 := by
  simp [thresh, Scalar.q]

theorem ofInt_real (i : Int) : (ofInt i : ℝ) = (i : ℝ) := by
  unfold ofInt
  split
  · rename_i h
    simp only [Scalar.ofNat_real]
    have : (i.natAbs : ℝ) = -(i : ℝ) := by
      have h2 : ((i.natAbs : Int) : ℝ) = ((-i : Int) : ℝ) := by
        congr 1; omega
      simpa using h2
    rw [this]; ring
  · rename_i h
    simp only [Scalar.ofNat_real]
    have h2 : ((i.natAbs : Int) : ℝ) = ((i : Int) : ℝ) := by
      congr 1; omega
    simpa using h2

theorem toScalar_real (den : Nat) (z : Z5) :
    (z.toScalar den : ℝ) = ((z.p : ℝ) + (z.q : ℝ) * Real.sqrt 5) / (den : ℝ) := by
  simp [Z5.toScalar, ofInt_real, Scalar.lit]

/-! ### Cramer's rule -/

theorem solve3_spec (t : Row ℝ × Row ℝ × Row ℝ) (hd : tripleDet t ≠ 0) :
    V3.dot t.1.1 (solve3 t) = t.1.2 ∧ V3.dot t.2.1.1 (solve3 t) = t.2.1.2 ∧
    V3.dot t.2.2.1 (solve3 t) = t.2.2.2 := by
  obtain ⟨⟨⟨a1, a2, a3⟩, b0⟩, ⟨⟨b1, b2, b3⟩, b1'⟩, ⟨⟨c1, c2, c3⟩, b2'⟩⟩ := t
  have hd' : a1 * (b2 * c3 - b3 * c2) + a2 * (b3 * c1 - b1 * c3) + a3 * (b1 * c2 - b2 * c1) ≠ 0 := by
    simpa [tripleDet, V3.det3, V3.dot, V3.cross] using hd
  refine ⟨?_, ?_, ?_⟩ <;>
  · simp only [solve3, tripleDet, V3.det3, V3.dot, V3.cross, V3.sdiv, V3.smul, V3.add_x, V3.add_y,
      V3.add_z]
    rw [← mul_div_assoc, ← mul_div_assoc, ← mul_div_assoc, ← add_div, ← add_div, div_eq_iff hd']
    ring

/-- the meeting point of three independent planes is unique -/
theorem solve3_unique (t : Row ℝ × Row ℝ × Row ℝ) (hd : tripleDet t ≠ 0) (x : V3 ℝ)
    (h0 : V3.dot t.1.1 x = t.1.2) (h1 : V3.dot t.2.1.1 x = t.2.1.2)
    (h2 : V3.dot t.2.2.1 x = t.2.2.2) : x = solve3 t := by
  obtain ⟨⟨⟨a1, a2, a3⟩, b0⟩, ⟨⟨b1, b2, b3⟩, b1'⟩, ⟨⟨c1, c2, c3⟩, b2'⟩⟩ := t
  obtain ⟨x1, x2, x3⟩ := x
  simp only [V3.dot] at h0 h1 h2
  have hd' : a1 * (b2 * c3 - b3 * c2) + a2 * (b3 * c1 - b1 * c3) + a3 * (b1 * c2 - b2 * c1) ≠ 0 := by
    simpa [tripleDet, V3.det3, V3.dot, V3.cross] using hd
  subst h0 h1 h2
  apply V3.ext' <;>
  · simp only [solve3, tripleDet, V3.det3, V3.dot, V3.cross, V3.sdiv, V3.smul, V3.add_x, V3.add_y,
      V3.add_z]
    rw [eq_div_iff hd']
    ring

/-! ### membership in `makeVertices` -/

theorem mem_uniqueRounded (l : List (V3 ℝ)) (p : V3 ℝ) (h : p ∈ uniqueRounded l) : p ∈ l := by
  simp only [uniqueRounded, List.mem_map] at h
  obtain ⟨kp, hk, rfl⟩ := h
  have h1 := mem_runHeads _ _ _ hk
  rw [List.mem_mergeSort] at h1
  simp only [List.mem_map] at h1
  obtain ⟨x, hx, rfl⟩ := h1
  exact hx

theorem keyEq_iff (u v : V3 ℝ) : keyEq u v = true ↔ u = v := by
  obtain ⟨u1, u2, u3⟩ := u
  obtain ⟨v1, v2, v3⟩ := v
  simp [keyEq, Scalar.eqb, and_assoc]

theorem uniqueRounded_complete (l : List (V3 ℝ)) (x : V3 ℝ) (h : x ∈ l) :
    ∃ p ∈ uniqueRounded l, key p = key x := by
  have hx : (key x, x) ∈ (l.map fun x => (key x, x)).mergeSort (fun u v => keyLe u.1 v.1) := by
    rw [List.mem_mergeSort]; exact List.mem_map.mpr ⟨x, h, rfl⟩
  obtain ⟨y, hy, hyx⟩ := runHeads_complete (fun u v : V3 ℝ × V3 ℝ => keyEq u.1 v.1)
    (by intro a; rw [keyEq_iff]) _ _ hx
  have hy' := mem_runHeads _ _ _ hy
  rw [List.mem_mergeSort] at hy'
  obtain ⟨z, _, hz⟩ := List.mem_map.mp hy'
  refine ⟨y.2, List.mem_map.mpr ⟨y, hy, rfl⟩, ?_⟩
  rw [keyEq_iff] at hyx
  simp only at hyx
  rw [← hz] at hyx ⊢
  exact hyx

theorem inside_iff (R : List (Row ℝ)) (x : V3 ℝ) :
    inside R x = true ↔ ∀ r ∈ R, V3.dot x r.1 ≤ r.2 + thresh := by
  simp [inside, List.all_eq_true]

theorem mem_candidates (R : List (Row ℝ)) (x : V3 ℝ) :
    x ∈ candidates R ↔ ∃ t ∈ triplesOf R, thresh < |tripleDet t| ∧ solve3 t = x := by
  simp only [candidates, List.mem_map, List.mem_filter, decide_eq_true_eq, Scalar.abs_real]
  constructor
  · rintro ⟨t, ⟨ht, hd⟩, rfl⟩; exact ⟨t, ht, hd, rfl⟩
  · rintro ⟨t, ht, hd, rfl⟩; exact ⟨t, ⟨ht, hd⟩, rfl⟩

theorem dot_comm (u v : V3 ℝ) : V3.dot u v = V3.dot v u := by
  simp only [V3.dot]; ring

/-! ### rounding -/

theorem rint_close (x : ℝ) : |rint x - x| ≤ 1 / 2 := by
  have hf := Int.floor_le x
  have hf2 := Int.lt_floor_add_one x
  unfold rint
  simp only [Scalar.q, Scalar.lit, Scalar.ofNat_real]
  show |(if x - (⌊x⌋ : ℝ) < (1:ℕ) / (2:ℕ) then (⌊x⌋ : ℝ)
        else if ((1:ℕ) : ℝ) / (2:ℕ) < x - (⌊x⌋ : ℝ) then (⌊x⌋ : ℝ) + (1:ℕ)
        else if Scalar.eqb ((⌊(⌊x⌋ : ℝ) / (2:ℕ)⌋ : ℝ) * (2:ℕ)) (⌊x⌋ : ℝ) then (⌊x⌋ : ℝ)
             else (⌊x⌋ : ℝ) + (1:ℕ)) - x| ≤ 1 / 2
  push_cast
  split_ifs with h1 h2 h3
  · rw [abs_le]; constructor <;> linarith
  · rw [abs_le]; constructor <;> linarith
  · rw [abs_le]; constructor <;> linarith
  · rw [abs_le]; constructor <;> linarith

theorem round6_close (x : ℝ) : |round6 x - x| ≤ 1 / 2000000 := by
  have h := rint_close (x * 1000000)
  unfold round6
  simp only [Scalar.lit, Scalar.ofNat_real]
  push_cast
  rw [abs_le] at h ⊢
  constructor <;> [skip; skip] <;> (rw [div_sub' (by norm_num : (1000000:ℝ) ≠ 0)])
  · rw [le_div_iff₀ (by norm_num)]; linarith [h.1]
  · rw [div_le_iff₀ (by norm_num)]; linarith [h.2]

/-- equal rounded keys: the points agree to 1e-6 in every coordinate -/
theorem key_eq_close (p x : V3 ℝ) (h : key p = key x) :
    |p.x - x.x| ≤ 1 / 1000000 ∧ |p.y - x.y| ≤ 1 / 1000000 ∧ |p.z - x.z| ≤ 1 / 1000000 := by
  simp only [key, V3.mk.injEq] at h
  obtain ⟨hx, hy, hz⟩ := h
  have c1 := round6_close p.x; have c2 := round6_close x.x
  have c3 := round6_close p.y; have c4 := round6_close x.y
  have c5 := round6_close p.z; have c6 := round6_close x.z
  rw [abs_le] at c1 c2 c3 c4 c5 c6
  refine ⟨abs_le.mpr ⟨?_, ?_⟩, abs_le.mpr ⟨?_, ?_⟩, abs_le.mpr ⟨?_, ?_⟩⟩ <;>
    linarith [c1.1, c1.2, c2.1, c2.2, c3.1, c3.2, c4.1, c4.2, c5.1, c5.2, c6.1, c6.2]

end Fam

namespace Fam

/-! ### domain tests -/

theorem outside_iff (lo hi x : ℝ) : outside lo hi x = true ↔ ¬ (lo ≤ x ∧ x ≤ hi) := by
  unfold outside
  rw [Bool.not_eq_true', Bool.and_eq_false_iff, decide_eq_false_iff_not, decide_eq_false_iff_not]
  tauto

theorem Table.domain_error_iff (T : Table) (a c : ℝ) :
    (∃ e, T.domain a c = .error e) ↔
      ¬ ((T.aLo.toScalar T.den ≤ a ∧ a ≤ T.aHi.toScalar T.den) ∧
         (T.cLo.toScalar T.den ≤ c ∧ c ≤ T.cHi.toScalar T.den)) := by
  unfold Table.domain
  by_cases ha : outside (T.aLo.toScalar T.den : ℝ) (T.aHi.toScalar T.den) a = true
  · rw [if_pos ha]
    have := (outside_iff _ _ _).mp ha
    constructor
    · intro _ h; exact this h.1
    · intro _; exact ⟨_, rfl⟩
  · rw [if_neg ha]
    have ha' : (T.aLo.toScalar T.den : ℝ) ≤ a ∧ a ≤ T.aHi.toScalar T.den := by
      by_contra h; exact ha ((outside_iff _ _ _).mpr h)
    by_cases hc : outside (T.cLo.toScalar T.den : ℝ) (T.cHi.toScalar T.den) c = true
    · rw [if_pos hc]
      have := (outside_iff _ _ _).mp hc
      constructor
      · intro _ h; exact this h.2
      · intro _; exact ⟨_, rfl⟩
    · rw [if_neg hc]
      have hc' : (T.cLo.toScalar T.den : ℝ) ≤ c ∧ c ≤ T.cHi.toScalar T.den := by
        by_contra h; exact hc ((outside_iff _ _ _).mpr h)
      constructor
      · rintro ⟨e, he⟩; cases he
      · intro h; exact absurd ⟨ha', hc'⟩ h

/-- the only error `domain` produces is ValueError -/
theorem Table.domain_error_kind (T : Table) (a c : ℝ) (e : String) (h : T.domain a c = .error e) :
    e = "ValueError" := by
  unfold Table.domain at h
  split_ifs at h <;> cases h <;> rfl

theorem Table.domain_ok (T : Table) (a c : ℝ)
    (h : (T.aLo.toScalar T.den ≤ a ∧ a ≤ T.aHi.toScalar T.den) ∧
         (T.cLo.toScalar T.den ≤ c ∧ c ≤ T.cHi.toScalar T.den)) :
    T.domain a c = .ok (a, T.b.toScalar T.den, c) := by
  unfold Table.domain
  have ha : ¬ outside (T.aLo.toScalar T.den : ℝ) (T.aHi.toScalar T.den) a = true := by
    rw [outside_iff]; exact fun hn => hn h.1
  have hc : ¬ outside (T.cLo.toScalar T.den : ℝ) (T.cHi.toScalar T.den) c = true := by
    rw [outside_iff]; exact fun hn => hn h.2
  rw [if_neg ha, if_neg hc]

/-- `get_shape(a, c)` raises (ValueError) exactly outside the rectangle; inside it hands
    `make_vertices(a, b, c)` to `ConvexPolyhedron` -/
theorem Table.getShape_spec (T : Table) (a c : ℝ) :
    (T.getShape a c = .error "ValueError" ↔
      ¬ ((T.aLo.toScalar T.den ≤ a ∧ a ≤ T.aHi.toScalar T.den) ∧
         (T.cLo.toScalar T.den ≤ c ∧ c ≤ T.cHi.toScalar T.den))) ∧
    (((T.aLo.toScalar T.den ≤ a ∧ a ≤ T.aHi.toScalar T.den) ∧
         (T.cLo.toScalar T.den ≤ c ∧ c ≤ T.cHi.toScalar T.den)) →
      T.getShape a c = .ok (makeVertices T.planesS T.types a (T.b.toScalar T.den) c)) := by
  constructor
  · rw [← Table.domain_error_iff]
    unfold Table.getShape
    constructor
    · intro h
      cases hd : T.domain a c with
      | error e => exact ⟨e, rfl⟩
      | ok d => rw [hd] at h; cases h
    · rintro ⟨e, he⟩
      rw [he, Table.domain_error_kind T a c e he]
  · intro h
    unfold Table.getShape
    rw [Table.domain_ok T a c h]

end Fam

/-! ### sortedness of `np.unique`: distinct rounded keys -/

namespace Fam

/-- real lexicographic order behind `keyLe` -/
theorem keyLe_iff (u v : V3 ℝ) : keyLe u v = true ↔
    u.x < v.x ∨ (u.x = v.x ∧ (u.y < v.y ∨ (u.y = v.y ∧ u.z ≤ v.z))) := by
  unfold keyLe
  split_ifs with h1 h2 h3 h4
  · simp [h1]
  · simp only [false_iff]; intro h; rcases h with h | ⟨h, _⟩ <;> linarith
  · have hx : u.x = v.x := le_antisymm (not_lt.mp h2) (not_lt.mp h1)
    simp [hx, h3]
  · have hx : u.x = v.x := le_antisymm (not_lt.mp h2) (not_lt.mp h1)
    simp only [false_iff]
    intro h; rcases h with h | ⟨_, h | ⟨h, _⟩⟩ <;> linarith
  · have hx : u.x = v.x := le_antisymm (not_lt.mp h2) (not_lt.mp h1)
    have hy : u.y = v.y := le_antisymm (not_lt.mp h4) (not_lt.mp h3)
    simp [hx, hy]

theorem keyLe_trans (a b c : V3 ℝ) (h1 : keyLe a b = true) (h2 : keyLe b c = true) :
    keyLe a c = true := by
  rw [keyLe_iff] at *
  rcases h1 with h1 | ⟨e1, h1 | ⟨e1', h1⟩⟩ <;> rcases h2 with h2 | ⟨e2, h2 | ⟨e2', h2⟩⟩
  · left; linarith
  · left; linarith
  · left; linarith
  · left; linarith
  · right; exact ⟨e1.trans e2, Or.inl (by linarith)⟩
  · right; exact ⟨e1.trans e2, Or.inl (by linarith)⟩
  · left; linarith
  · right; exact ⟨e1.trans e2, Or.inl (by linarith)⟩
  · right; exact ⟨e1.trans e2, Or.inr ⟨e1'.trans e2', by linarith⟩⟩

theorem keyLe_total (a b : V3 ℝ) : (keyLe a b || keyLe b a) = true := by
  rw [Bool.or_eq_true, keyLe_iff, keyLe_iff]
  rcases lt_trichotomy a.x b.x with h | h | h
  · left; left; exact h
  · rcases lt_trichotomy a.y b.y with h' | h' | h'
    · left; right; exact ⟨h, Or.inl h'⟩
    · rcases le_total a.z b.z with h'' | h''
      · left; right; exact ⟨h, Or.inr ⟨h', h''⟩⟩
      · right; right; exact ⟨h.symm, Or.inr ⟨h'.symm, h''⟩⟩
    · right; right; exact ⟨h.symm, Or.inl h'⟩
  · right; left; exact h

theorem keyLe_antisymm (a b : V3 ℝ) (h1 : keyLe a b = true) (h2 : keyLe b a = true) : a = b := by
  rw [keyLe_iff] at *
  rcases h1 with h1 | ⟨e1, h1 | ⟨e1', h1⟩⟩ <;> rcases h2 with h2 | ⟨e2, h2 | ⟨e2', h2⟩⟩ <;>
    first
    | (exfalso; linarith)
    | exact V3.ext' e1 e1' (le_antisymm h1 h2)

/-- in a list sorted by a total preorder whose equivalence is `eq`, the run heads have pairwise
    inequivalent elements -/
theorem runHeadsAux_pairwise {β : Type} (le eq : β → β → Bool)
    (htrans : ∀ a b c, le a b = true → le b c = true → le a c = true)
    (hanti : ∀ a b, le a b = true → le b a = true → eq a b = true)
    (heq_le : ∀ a b, eq a b = true → le b a = true)
    (p : β) (l : List β) (hs : (p :: l).Pairwise (fun a b => le a b = true)) :
    (runHeadsAux eq p l).Pairwise (fun a b => eq a b = false) ∧
    ∀ y ∈ runHeadsAux eq p l, eq p y = false := by
  induction l generalizing p with
  | nil => simp [runHeadsAux]
  | cons x xs ih =>
    rw [List.pairwise_cons] at hs
    obtain ⟨hp, hs'⟩ := hs
    simp only [runHeadsAux]
    by_cases hpx : eq p x = true
    · rw [if_pos hpx]
      have hs'' : (p :: xs).Pairwise (fun a b => le a b = true) := by
        rw [List.pairwise_cons]
        exact ⟨fun y hy => hp y (List.mem_cons_of_mem _ hy), (List.pairwise_cons.mp hs').2⟩
      exact ih p hs''
    · rw [if_neg hpx]
      obtain ⟨ih1, ih2⟩ := ih x hs'
      have hpx' : eq p x = false := by simpa using hpx
      refine ⟨List.pairwise_cons.mpr ⟨ih2, ih1⟩, ?_⟩
      intro y hy
      rcases List.mem_cons.mp hy with rfl | hy
      · exact hpx'
      · -- p ≤ x ≤ y; if eq p y then y ≤ p hence x ≤ p, so eq p x: contradiction
        by_contra hc
        have hpy : eq p y = true := by simpa using hc
        have hyx : y ∈ xs := mem_runHeadsAux eq x y xs hy
        have hxy : le x y = true := (List.pairwise_cons.mp hs').1 y hyx
        have hyp : le y p = true := heq_le p y hpy
        have hxp : le x p = true := htrans x y p hxy hyp
        have hpx2 : le p x = true := hp x List.mem_cons_self
        exact hpx (hanti p x hpx2 hxp)

theorem runHeads_pairwise {β : Type} (le eq : β → β → Bool)
    (htrans : ∀ a b c, le a b = true → le b c = true → le a c = true)
    (hanti : ∀ a b, le a b = true → le b a = true → eq a b = true)
    (heq_le : ∀ a b, eq a b = true → le b a = true)
    (l : List β) (hs : l.Pairwise (fun a b => le a b = true)) :
    (runHeads eq l).Pairwise (fun a b => eq a b = false) := by
  cases l with
  | nil => simp [runHeads]
  | cons x xs =>
    simp only [runHeads]
    obtain ⟨h1, h2⟩ := runHeadsAux_pairwise le eq htrans hanti heq_le x xs hs
    exact List.pairwise_cons.mpr ⟨h2, h1⟩

/-- **no two returned points share a rounded key** -/
theorem uniqueRounded_keys_nodup (l : List (V3 ℝ)) :
    (uniqueRounded l).Pairwise (fun p q => key p ≠ key q) := by
  unfold uniqueRounded
  rw [List.pairwise_map]
  have hsorted := List.pairwise_mergeSort (le := fun u v : V3 ℝ × V3 ℝ => keyLe u.1 v.1)
    (fun a b c => keyLe_trans a.1 b.1 c.1) (fun a b => keyLe_total a.1 b.1)
    (l.map fun x => (key x, x))
  have hkey : ∀ u ∈ (l.map fun x => (key x, x)).mergeSort (fun u v => keyLe u.1 v.1), u.1 = key u.2 := by
    intro u hu
    rw [List.mem_mergeSort] at hu
    obtain ⟨x, _, rfl⟩ := List.mem_map.mp hu
    rfl
  have hp := runHeads_pairwise (fun u v : V3 ℝ × V3 ℝ => keyLe u.1 v.1) (fun u v => keyEq u.1 v.1)
    (fun a b c => keyLe_trans a.1 b.1 c.1)
    (fun a b h1 h2 => (keyEq_iff _ _).mpr (keyLe_antisymm a.1 b.1 h1 h2))
    (fun a b h => by
      have := (keyEq_iff _ _).mp h
      rw [this]
      have := keyLe_total b.1 b.1; simpa using this)
    _ hsorted
  refine List.Pairwise.imp_of_mem ?_ hp
  intro a b ha hb hab
  have ha' := hkey a (mem_runHeads _ _ _ ha)
  have hb' := hkey b (mem_runHeads _ _ _ hb)
  intro hk
  rw [← ha', ← hb'] at hk
  have : keyEq a.1 b.1 = true := (keyEq_iff _ _).mpr hk
  rw [this] at hab; cases hab

end Fam
