import CoxeterVerif.Lemmas.CovarianceSim
import CoxeterVerif.Model.Balls
/-!
  Helper lemmas for C09, part 8: the ball-valued queries of C13 (`Model/Balls.lean`, imported unchanged)
  under a proper similarity `g : x ↦ k R x + t`: centres move with the shape, radii scale by `k`, and an
  error stays the same error (`Balls.mapRes g`).

  The solutions of the external solvers are arguments of the model; they are transformed the way the exact
  least-squares solution transforms (`x ↦ k R x` for the circum-systems, which are written relative to the
  first vertex; `(x, r) ↦ (g x, k r)` for the in-systems) and the reported residuals by the factor the sum of
  squares acquires (`k⁴`, `k²`: `sumSq_circum_sim`, `sumSq_in_sim` — proved, not assumed).  The guards
  `np.isclose(resids, 0, atol = 1e-8 · size²)` as repaired in /repo are then scale free: the theorem-level form
  of "no absolute threshold".
-/
open Scalar Balls
set_option maxRecDepth 4000
noncomputable section

namespace Balls

/-- image of a result: the ball is moved, an error is kept -/
def mapRes (g : Sim) : Except String (Ball ℝ) → Except String (Ball ℝ)
  | .ok b => .ok ⟨g.k * b.radius, g.pt b.center⟩
  | .error e => .error e

variable {g : Sim} (hg : g.Proper)
include hg

theorem mkBall_sim (r : ℝ) (c : V3 ℝ) : mkBall (g.k * r) (g.pt c) = mapRes g (mkBall r c) := by
  unfold mkBall
  simp only [Scalar.lit, Scalar.ofNat_real, Nat.cast_zero]
  by_cases h : 0 < r
  · rw [if_pos h, if_pos (mul_pos hg.kpos h)]; rfl
  · rw [if_neg h, if_neg (fun h' => h ((pos_mul_pos_iff hg.kpos r).mp h'))]; rfl

omit hg in
theorem listMax_mul {c : ℝ} (hc : 0 < c) (l : List ℝ) : listMax (l.map (c * ·)) = c * listMax l := by
  cases l with
  | nil => simp [listMax, Scalar.lit]
  | cons x xs => simp only [listMax, List.map_cons]; exact foldl_smax_mul hc xs x

omit hg in
theorem listMin_mul {c : ℝ} (hc : 0 < c) (l : List ℝ) : listMin (l.map (c * ·)) = c * listMin l := by
  cases l with
  | nil => simp [listMin, Scalar.lit]
  | cons x xs => simp only [listMin, List.map_cons]; exact foldl_smin_mul hc xs x

/-- **`minimal_centered_bounding_circle / sphere`**: centre moves along, radius × k -/
theorem minimalCenteredBounding_sim (verts : List (V3 ℝ)) (c : V3 ℝ) :
    minimalCenteredBounding (verts.map g.pt) (g.pt c) = mapRes g (minimalCenteredBounding verts c) := by
  unfold minimalCenteredBounding
  rw [← mkBall_sim hg, List.map_map]
  congr 1
  rw [← listMax_mul hg.kpos, List.map_map]
  congr 1
  apply List.map_congr_left
  intro v _
  simp only [Function.comp, Sim.dist hg]

/-- image of a row of `_equations` in the pair form used by the ball models -/
def planeB (g : Sim) (e : V3 ℝ × ℝ) : V3 ℝ × ℝ := (g.dir e.1, g.k * e.2 - V3.dot g.t (g.dir e.1))

theorem pointPlaneDistances_sim (eqs : List (V3 ℝ × ℝ)) (p : V3 ℝ) :
    pointPlaneDistances (eqs.map (planeB g)) (g.pt p) = (pointPlaneDistances eqs p).map (g.k * ·) := by
  unfold pointPlaneDistances
  rw [List.map_map, List.map_map]
  apply List.map_congr_left
  intro e _
  simp only [Function.comp, planeB]
  have h := Sim.vec_dot_dir hg p e.1
  have e1 : V3.dot (g.pt p) (g.dir e.1) = V3.dot (g.vec p) (g.dir e.1) + V3.dot g.t (g.dir e.1) := by
    unfold Sim.pt Sim.vec V3.dot; simp only [V3.add_x, V3.add_y, V3.add_z]; ring
  rw [e1, h]; ring

/-- **`ConvexPolyhedron.maximal_centered_bounded_sphere`** (incl. the `ValueError` for a centre outside) -/
theorem maximalCenteredBoundedSphere_sim (eqs : List (V3 ℝ × ℝ)) (c : V3 ℝ) :
    maximalCenteredBoundedSphere (eqs.map (planeB g)) (g.pt c)
      = mapRes g (maximalCenteredBoundedSphere eqs c) := by
  unfold maximalCenteredBoundedSphere
  simp only [pointPlaneDistances_sim hg, List.any_map, Function.comp_def, Scalar.lit, Scalar.ofNat_real,
    Nat.cast_zero]
  have e : ∀ d : ℝ, decide (0 < g.k * d) = decide (0 < d) := fun d => by
    rw [decide_eq_decide]; exact pos_mul_pos_iff hg.kpos d
  simp only [e]
  split_ifs
  · rfl
  · rw [listMax_mul hg.kpos, ← mkBall_sim hg]; congr 1; ring

omit hg in
theorem rollR_map {β γ : Type} (f : β → γ) (l : List β) : rollR (l.map f) = (rollR l).map f := by
  unfold rollR
  rw [List.getLast?_map]
  cases h : l.getLast? with
  | none => rfl
  | some x => simp [List.map_dropLast]

omit hg in
theorem rollL_map {β γ : Type} (f : β → γ) (l : List β) : rollL (l.map f) = (rollL l).map f := by
  cases l <;> simp [rollL]

theorem edgeLineDistances_sim (verts : List (V3 ℝ)) (c : V3 ℝ) :
    edgeLineDistances (verts.map g.pt) (g.pt c) = (edgeLineDistances verts c).map (g.k * ·) := by
  unfold edgeLineDistances
  simp only [rollR_map, List.zipWith_map_left, List.zipWith_map_right, List.map_map, List.zipWith_map,
    List.map_zipWith]
  -- both sides are the same `zipWith` over `(verts, zipWith … verts (rollR verts))`
  have key : ∀ (v : V3 ℝ) (a b : V3 ℝ),
      V3.norm (V3.cross (g.pt c - g.pt v) (V3.sdiv (g.pt a - g.pt b) (V3.norm (g.pt a - g.pt b))))
        = g.k * V3.norm (V3.cross (c - v) (V3.sdiv (a - b) (V3.norm (a - b)))) := by
    intro v a b
    rw [Sim.pt_sub, Sim.pt_sub, Sim.vec_norm hg, Sim.sdiv_vec hg, Sim.vec_cross_dir hg,
      V3.norm_smul_nonneg hg.kpos.le, Sim.dir_norm hg]
  generalize rollR verts = ws
  induction verts generalizing ws with
  | nil => simp
  | cons v vs ih =>
    cases ws with
    | nil => simp
    | cons w ws =>
      simp only [List.zipWith_cons_cons, List.map_cons, Function.comp]
      rw [key v v w]
      congr 1
      have := ih ws
      simp only [Function.comp] at this
      exact this

/-- **`ConvexPolygon.maximal_centered_bounded_circle`** -/
theorem maximalCenteredBoundedCircle_sim (verts : List (V3 ℝ)) (c : V3 ℝ) :
    maximalCenteredBoundedCircle (verts.map g.pt) (g.pt c)
      = mapRes g (maximalCenteredBoundedCircle verts c) := by
  unfold maximalCenteredBoundedCircle
  rw [edgeLineDistances_sim hg, listMin_mul hg.kpos, mkBall_sim hg]

/-! ### circum- and in-balls: the systems, their residuals and the (relative) guards -/

/-- image of a row of a circum-system (written relative to the first vertex: no translation part) -/
def rowC (g : Sim) (row : Row ℝ) : Row ℝ := ⟨g.vec row.a, row.k, g.k ^ 2 * row.b⟩

omit hg in
theorem circumPoints_sim (g : Sim) (verts : List (V3 ℝ)) :
    circumPoints (verts.map g.pt) = (circumPoints verts).map g.vec := by
  cases verts with
  | nil => rfl
  | cons v0 rest =>
    simp only [circumPoints, List.map_cons, List.map_map]
    apply List.map_congr_left
    intro v _
    simp only [Function.comp, Sim.pt_sub]

theorem circumSystemSphere_sim (verts : List (V3 ℝ)) :
    circumSystemSphere (verts.map g.pt) = (circumSystemSphere verts).map (rowC g) := by
  unfold circumSystemSphere
  rw [circumPoints_sim, List.map_map, List.map_map]
  apply List.map_congr_left
  intro p _
  simp only [Function.comp, rowC, Sim.vec_dot hg, Row.mk.injEq, true_and]
  ring

omit hg in
/-- the unit normal of the polygon's plane enters the circle system as a row `n · x = 0`: it is a
DIRECTION (rotated, not scaled) -/
def rowN (g : Sim) (n : V3 ℝ) : Row ℝ := ⟨g.dir n, lit 0, lit 0⟩

theorem circumSystemCircle_sim (verts : List (V3 ℝ)) (n : V3 ℝ) :
    circumSystemCircle (verts.map g.pt) (g.dir n) = (circumSystemSphere verts).map (rowC g) ++ [rowN g n] := by
  unfold circumSystemCircle
  rw [circumSystemSphere_sim hg]; rfl

/-- residual of a transformed circum-row at the transformed solution: × k² -/
theorem resid_rowC (row : Row ℝ) (x : V3 ℝ) (r : ℝ) (h0 : row.k = 0) :
    (rowC g row).resid (g.vec x) r = g.k ^ 2 * row.resid x r := by
  unfold Row.resid rowC
  simp only [Sim.vec_dot hg, h0]; ring

theorem resid_rowN (n x : V3 ℝ) (r : ℝ) :
    (rowN g n).resid (g.vec x) r = g.k * (⟨n, lit 0, lit 0⟩ : Row ℝ).resid x r := by
  unfold Row.resid rowN
  have c : ∀ u v : V3 ℝ, V3.dot u v = V3.dot v u := by intro u v; unfold V3.dot; ring
  simp only [Scalar.lit, Scalar.ofNat_real, Nat.cast_zero, zero_mul, add_zero, sub_zero]
  rw [c, Sim.vec_dot_dir hg, c]

/-- **what `lstsq` reports for the moved circumsphere system is `k⁴` times what it reports for `x`**
(sum of squared residuals at the transformed solution) -/
theorem sumSq_circum_sim (verts : List (V3 ℝ)) (x : V3 ℝ) (r : ℝ) :
    sumSq (circumSystemSphere (verts.map g.pt)) (g.vec x) r
      = g.k ^ 4 * sumSq (circumSystemSphere verts) x r := by
  rw [circumSystemSphere_sim hg]
  unfold sumSq
  simp only [Scalar.sum_real, List.map_map]
  rw [← list_sum_map_mul]
  congr 1
  apply List.map_congr_left
  intro row hrow
  have h0 : row.k = 0 := by
    unfold circumSystemSphere at hrow
    obtain ⟨p, _, rfl⟩ := List.mem_map.mp hrow
    simp [Scalar.lit]
  simp only [Function.comp, resid_rowC hg row x r h0, Scalar.sqr]
  ring

omit hg in
theorem vec_add_pt (g : Sim) (x a : V3 ℝ) : g.vec x + g.pt a = g.pt (x + a) := by
  unfold Sim.vec Sim.pt
  rw [mulVec_add, V3.smul_add]
  ext <;> simp only [V3.add_x, V3.add_y, V3.add_z] <;> ring

omit hg in
theorem firstVertex_sim (g : Sim) (verts : List (V3 ℝ)) (hne : verts ≠ []) :
    firstVertex (verts.map g.pt) = g.pt (firstVertex verts) := by
  cases verts with
  | nil => exact absurd rfl hne
  | cons v vs => rfl

omit hg in
theorem isclose_zero_scale {c : ℝ} (hc : 0 < c) (ρ atol : ℝ) :
    isclose (c * ρ) (lit 0) (c * atol) = isclose ρ (lit 0) atol := by
  unfold isclose
  simp only [Scalar.lit, Scalar.q, Scalar.ofNat_real, Scalar.abs_real, Nat.cast_zero, sub_zero, abs_zero,
    mul_zero, add_zero]
  rw [abs_mul, abs_of_pos hc]
  exact decide_mul_le_mul hc _ _

omit hg in
/-- **the repaired existence guards are scale free**: residual and tolerance carry the same power of `k` -/
theorem residGuard_scale {c : ℝ} (hc : 0 < c) (n thr : Nat) (resids : List ℝ) (atol : ℝ) :
    residGuard n thr (resids.map (c * ·)) (c * atol) = residGuard n thr resids atol := by
  unfold residGuard
  split_ifs
  · match resids with
    | [] => rfl
    | [ρ] => simp only [List.map_cons, List.map_nil, isclose_zero_scale hc]
    | _ :: _ :: _ => rfl
  · rfl

theorem circumAtol_sphere_sim (verts : List (V3 ℝ)) :
    circumAtol (circumSystemSphere (verts.map g.pt)) = g.k ^ 4 * circumAtol (circumSystemSphere verts) := by
  rw [circumSystemSphere_sim hg]
  unfold circumAtol
  rw [List.map_map]
  have : (List.map ((fun row => row.b) ∘ rowC g) (circumSystemSphere verts))
      = ((circumSystemSphere verts).map fun row => row.b).map (g.k ^ 2 * ·) := by
    rw [List.map_map]; rfl
  rw [this, listMax_mul (pow_pos hg.kpos 2)]
  simp only [Scalar.sqr]; ring

theorem circumAtol_circle_sim (verts : List (V3 ℝ)) (n : V3 ℝ) :
    circumAtol (circumSystemCircle (verts.map g.pt) (g.dir n))
      = g.k ^ 4 * circumAtol (circumSystemCircle verts n) := by
  rw [circumSystemCircle_sim hg]
  unfold circumAtol circumSystemCircle
  have : (List.map (fun row => row.b) ((circumSystemSphere verts).map (rowC g) ++ [rowN g n]))
      = ((circumSystemSphere verts ++ [(⟨n, lit 0, lit 0⟩ : Row ℝ)]).map fun row => row.b).map (g.k ^ 2 * ·) := by
    simp only [List.map_append, List.map_map, List.map_cons, List.map_nil, rowN, Scalar.lit, Scalar.ofNat_real,
      Nat.cast_zero, mul_zero]
    rfl
  rw [this, listMax_mul (pow_pos hg.kpos 2)]
  simp only [Scalar.sqr]; ring

/-- **`Polyhedron.circumsphere`**: same decision (ball / `RuntimeError` / `ValueError`), centre moved,
radius × k — for the transformed least-squares solution and the residual `lstsq` then reports -/
theorem circumsphere_sim (verts : List (V3 ℝ)) (hne : verts ≠ []) (x : V3 ℝ) (resids : List ℝ) :
    circumsphere (verts.map g.pt) (g.vec x) (resids.map (g.k ^ 4 * ·))
      = mapRes g (circumsphere verts x resids) := by
  unfold circumsphere circumBall
  dsimp only
  rw [circumAtol_sphere_sim hg, List.length_map, residGuard_scale (pow_pos hg.kpos 4), firstVertex_sim g verts hne,
    Sim.vec_norm hg, vec_add_pt]
  cases residGuard verts.length 4 resids (circumAtol (circumSystemSphere verts)) with
  | error e => rfl
  | ok b =>
    cases b
    · simp only [bind, Except.bind, Bool.false_eq_true, if_false]; exact mkBall_sim hg _ _
    · rfl

/-- **`Polygon.circumcircle`** (the stored normal rotates with the shape) -/
theorem circumcircle_sim (verts : List (V3 ℝ)) (hne : verts ≠ []) (n x : V3 ℝ) (resids : List ℝ) :
    circumcircle (verts.map g.pt) (g.dir n) (g.vec x) (resids.map (g.k ^ 4 * ·))
      = mapRes g (circumcircle verts n x resids) := by
  unfold circumcircle circumBall
  dsimp only
  rw [circumAtol_circle_sim hg, List.length_map, residGuard_scale (pow_pos hg.kpos 4), firstVertex_sim g verts hne,
    Sim.vec_norm hg, vec_add_pt]
  cases residGuard verts.length 3 resids (circumAtol (circumSystemCircle verts n)) with
  | error e => rfl
  | ok b =>
    cases b
    · simp only [bind, Except.bind, Bool.false_eq_true, if_false]; exact mkBall_sim hg _ _
    · rfl

theorem extent_sim (verts : List (V3 ℝ)) (hne : verts ≠ []) :
    extent (verts.map g.pt) = g.k * extent verts := by
  unfold extent
  rw [firstVertex_sim g verts hne, List.map_map, ← listMax_mul hg.kpos, List.map_map]
  congr 1
  apply List.map_congr_left
  intro v _
  simp only [Function.comp, Sim.dist hg]

/-- **`Polyhedron.insphere` / `Polygon.incircle`** after the `lstsq` call: residual `k²`, tolerance
`1e-8 · extent²` also `k²` -/
theorem inBall_sim (thr : Nat) (verts : List (V3 ℝ)) (hne : verts ≠ []) (x : V3 ℝ) (r : ℝ) (resids : List ℝ) :
    inBall thr (verts.map g.pt) (g.pt x) (g.k * r) (resids.map (g.k ^ 2 * ·))
      = mapRes g (inBall thr verts x r resids) := by
  unfold inBall
  dsimp only
  rw [extent_sim hg verts hne, List.length_map]
  have e : q 1 100000000 * sqr (g.k * extent verts) = g.k ^ 2 * (q 1 100000000 * sqr (extent verts)) := by
    simp only [Scalar.sqr]; ring
  rw [e, residGuard_scale (pow_pos hg.kpos 2)]
  cases residGuard verts.length thr resids (q 1 100000000 * sqr (extent verts)) with
  | error e => rfl
  | ok b =>
    cases b
    · simp only [bind, Except.bind, Bool.false_eq_true, if_false]; exact mkBall_sim hg _ _
    · rfl

/-- the in-sphere system of the moved faces, at the moved solution: every residual × k, sum of squares × k² -/
theorem sumSq_in_sim (faces : List (V3 ℝ × V3 ℝ)) (x : V3 ℝ) (r : ℝ) :
    sumSq (inSystemSphere (faces.map fun f => (g.dir f.1, g.pt f.2))) (g.pt x) (g.k * r)
      = g.k ^ 2 * sumSq (inSystemSphere faces) x r := by
  unfold sumSq inSystemSphere
  simp only [Scalar.sum_real, List.map_map]
  rw [← list_sum_map_mul]
  congr 1
  apply List.map_congr_left
  intro f _
  simp only [Function.comp, Row.resid, Scalar.sqr, Scalar.lit, Scalar.ofNat_real, Nat.cast_one, one_mul]
  have c : ∀ u v : V3 ℝ, V3.dot u v = V3.dot v u := by intro u v; unfold V3.dot; ring
  have h1 : V3.dot (g.dir f.1) (g.pt x) - V3.dot (g.dir f.1) (g.pt f.2) = g.k * (V3.dot f.1 x - V3.dot f.1 f.2) := by
    have : V3.dot (g.dir f.1) (g.pt x) - V3.dot (g.dir f.1) (g.pt f.2) = V3.dot (g.pt x - g.pt f.2) (g.dir f.1) := by
      unfold V3.dot; simp only [V3.sub_x, V3.sub_y, V3.sub_z]; ring
    rw [this, Sim.pt_sub, Sim.vec_dot_dir hg]
    unfold V3.dot; simp only [V3.sub_x, V3.sub_y, V3.sub_z]; ring
  have h2 : V3.dot (g.dir f.1) (g.pt x) + g.k * r - V3.dot (g.dir f.1) (g.pt f.2)
      = g.k * (V3.dot f.1 x + r - V3.dot f.1 f.2) := by linarith [h1]
  rw [h2]; ring

/-! ### the verification of miniball's answer (`_is_minimal_bounding_ball`): all tolerances relative -/

omit hg in
theorem isFinite_real (x : ℝ) : isFinite x = true := by
  unfold isFinite
  show decide (x - x = ((0 : Nat) : ℝ)) = true
  simp

theorem onBoundary_sim (τb : ℝ) (points : List (V3 ℝ)) (c : V3 ℝ) (r2 : ℝ) :
    onBoundary τb (points.map g.pt) (g.pt c) (g.k ^ 2 * r2) = (onBoundary τb points c r2).map g.pt := by
  unfold onBoundary
  rw [List.filter_map]
  congr 2
  funext p
  simp only [Function.comp, Sim.pt_sub, Sim.vec_normSq hg]
  rw [mul_assoc]
  exact decide_mul_le_mul (pow_pos hg.kpos 2) _ _

/-- **`_is_minimal_bounding_ball` is invariant under every proper similarity** (containment slack
`r²(1 + 1e-8)`, boundary band `r²(1 − 1e-6)` and the `nnls` residual of the NORMALISED system are all
relative), provided the external `nnls` answers the moved system with the residual it gave for `x`. -/
theorem isMinimalBoundingBallTol_sim (τc τb τr : ℝ) (nnls nnls' : List (V3 ℝ) → V3 ℝ → ℝ → List ℝ × ℝ)
    (points : List (V3 ℝ)) (c : V3 ℝ) (r2 : ℝ)
    (hn : (nnls' ((onBoundary τb points c r2).map g.pt) (g.pt c) (g.k ^ 2 * r2)).2
            = (nnls (onBoundary τb points c r2) c r2).2) :
    isMinimalBoundingBallTol τc τb τr nnls' (points.map g.pt) (g.pt c) (g.k ^ 2 * r2)
      = isMinimalBoundingBallTol τc τb τr nnls points c r2 := by
  have h2 := pow_pos hg.kpos 2
  unfold isMinimalBoundingBallTol
  have hd2 : (points.map g.pt).map (fun p => V3.normSq (p - g.pt c))
      = (points.map fun p => V3.normSq (p - c)).map (g.k ^ 2 * ·) := by
    rw [List.map_map, List.map_map]
    apply List.map_congr_left
    intro p _
    simp only [Function.comp, Sim.pt_sub, Sim.vec_normSq hg]
  simp only [hd2, onBoundary_sim hg, hn, isFinite_real, List.all_map, Function.comp_def, Bool.not_true,
    Bool.false_or, List.all_eq_true, implies_true, decide_true]
  have e1 : decide (g.k ^ 2 * r2 < lit 0) = decide (r2 < lit 0) := by
    simp only [Scalar.lit, Scalar.ofNat_real, Nat.cast_zero]
    rw [decide_eq_decide]; exact pos_mul_lt_zero h2 r2
  have e2 : Scalar.eqb (g.k ^ 2 * r2) (lit 0 : ℝ) = Scalar.eqb r2 (lit 0 : ℝ) := by
    show decide (g.k ^ 2 * r2 = ((0 : Nat) : ℝ)) = decide (r2 = ((0 : Nat) : ℝ))
    rw [decide_eq_decide]; simp only [Nat.cast_zero]; exact pos_mul_eq_zero h2 r2
  have e3 : ∀ d : ℝ, Scalar.eqb (g.k ^ 2 * d) (lit 0 : ℝ) = Scalar.eqb d (lit 0 : ℝ) := by
    intro d
    show decide (g.k ^ 2 * d = ((0 : Nat) : ℝ)) = decide (d = ((0 : Nat) : ℝ))
    rw [decide_eq_decide]; simp only [Nat.cast_zero]; exact pos_mul_eq_zero h2 d
  have e4 : (g.k ^ 2 * r2 * (lit 1 + τc) < listMax ((points.map fun p => V3.normSq (p - c)).map (g.k ^ 2 * ·)))
      ↔ (r2 * (lit 1 + τc) < listMax (points.map fun p => V3.normSq (p - c))) := by
    rw [listMax_mul h2, mul_assoc]; exact mul_lt_mul_iff_right₀ h2
  simp only [e1, e2, e3, e4, List.isEmpty_map]

end Balls

end
