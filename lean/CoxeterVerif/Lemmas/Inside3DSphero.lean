import CoxeterVerif.Lemmas.Inside3DHull3
/-!
  C05: exact facet structures (exact arithmetic, exact planes) and the pieces of the
  spheropolyhedron completeness proof.

  * `ExactFacets eqs V` : every vertex satisfies every plane inequality, and the faces cut into
    triangles form a closed surface with vertices in `V`, each triangle lying EXACTLY in a plane of
    `eqs`, with a point `o` of the hull strictly inside everything.
  * `cp_inside_iff_hull_exact` : then `CP.isInside1 eqs p = true ↔ MemHull V p` (boundary included).
  * `exit_point`       : the segment from a point of the cell to a point outside leaves the cell through
                         a plane that the outside point sees.
  * `memHull_on_plane` : a hull point on which a functional `g ≤ 0` vanishes is a combination of the
                         vertices on which `g` vanishes.
  * `cyl_or_cap`       : a point within `r` of a point of a segment passes the cylinder test of the
                         segment or the cap test of one of its ends.
-/
open Scalar
set_option maxRecDepth 4000
noncomputable section

namespace Inside3D
open Spec.In3D CCk

/-! ### exact facet structure -/

def ExactFacets (eqs : List (Plane ℝ)) (V : List (V3 ℝ)) : Prop :=
  (∀ e ∈ eqs, ∀ v ∈ V, CP.planeDist e v ≤ 0) ∧
  ∃ (o : V3 ℝ) (F : List (Tri ℝ × Plane ℝ)), MemHull V o ∧ F ≠ [] ∧ ClosedSurface (F.map Prod.fst) ∧
    ∀ f ∈ F, f.2 ∈ eqs ∧ (f.1.a ∈ V ∧ f.1.b ∈ V ∧ f.1.c ∈ V) ∧ 0 < orient o f.1.a f.1.b f.1.c ∧
      CP.planeDist f.2 o < 0 ∧ CP.planeDist f.2 f.1.a = 0 ∧ CP.planeDist f.2 f.1.b = 0 ∧
      CP.planeDist f.2 f.1.c = 0

theorem isInside1_iff (eqs : List (Plane ℝ)) (p : V3 ℝ) :
    CP.isInside1 eqs p = true ↔ ∀ e ∈ eqs, CP.planeDist e p ≤ 0 := by
  unfold CP.isInside1 CP.planeDists
  simp only [List.all_eq_true, List.mem_map, decide_eq_true_iff, Scalar.lit, Scalar.ofNat_real, Nat.cast_zero,
    forall_exists_index, and_imp, forall_apply_eq_imp_iff₂]

theorem accepts_of_memHull (eqs : List (Plane ℝ)) (V : List (V3 ℝ)) (p : V3 ℝ)
    (hq : ∀ e ∈ eqs, ∀ v ∈ V, CP.planeDist e v ≤ 0) (hp : MemHull V p) :
    ∀ e ∈ eqs, CP.planeDist e p ≤ 0 := by
  obtain ⟨ws, hlen, ⟨hw, hs⟩, rfl⟩ := hp
  simp only [Scalar.lit, Scalar.ofNat_real, Scalar.sum_real, Nat.cast_zero, Nat.cast_one] at hw hs
  intro e he
  rw [planeDist_comb e ws V hlen, hs]
  have := sum_zipWith_nonpos (CP.planeDist e) ws V hw (hq e he)
  linarith

/-- **convex polyhedron, exact arithmetic: accepted ⇔ in the hull** (boundary points included) -/
theorem cp_inside_iff_hull_exact {eqs : List (Plane ℝ)} {V : List (V3 ℝ)} (h : ExactFacets eqs V)
    (p : V3 ℝ) : CP.isInside1 eqs p = true ↔ MemHull V p := by
  obtain ⟨hq, o, F, hoV, hne, hcl, hF⟩ := h
  rw [isInside1_iff]
  constructor
  · intro hp
    have hne' : F.map Prod.fst ≠ [] := by
      intro h0; exact hne (List.map_eq_nil_iff.mp h0)
    refine memHull_of_inner_side_closed V hcl hne' ?_ o hoV ?_ p ?_
    · intro t ht
      obtain ⟨f, hf, rfl⟩ := List.mem_map.mp ht
      exact (hF f hf).2.1
    · intro t ht
      obtain ⟨f, hf, rfl⟩ := List.mem_map.mp ht
      exact (hF f hf).2.2.1
    · intro t ht
      obtain ⟨f, hf, rfl⟩ := List.mem_map.mp ht
      obtain ⟨hmem, _, hD, hoo, za, zb, zc⟩ := hF f hf
      have key := planeVal_bary f.2.n f.2.d o f.1.a f.1.b f.1.c p
      simp only [planeVal_eq] at key
      rw [za, zb, zc] at key
      have hpe := hp f.2 hmem
      -- D e(p) = β₀ e(o)
      by_contra hneg
      have hlt : orient p f.1.a f.1.b f.1.c < 0 := not_le.mp hneg
      have h1 : 0 < orient p f.1.a f.1.b f.1.c * CP.planeDist f.2 o := mul_pos_of_neg_of_neg hlt hoo
      have h2 : orient o f.1.a f.1.b f.1.c * CP.planeDist f.2 p ≤ 0 :=
        mul_nonpos_of_nonneg_of_nonpos hD.le hpe
      linarith
  · exact accepts_of_memHull eqs V p hq

/-! ### leaving the cell -/

theorem planeDist_lerp (e : Plane ℝ) (q p : V3 ℝ) (τ : ℝ) :
    CP.planeDist e (q + V3.smul τ (p - q)) = (1 - τ) * CP.planeDist e q + τ * CP.planeDist e p := by
  obtain ⟨qx, qy, qz⟩ := q; obtain ⟨px, py, pz⟩ := p
  simp only [CP.planeDist, V3.dot, V3.add_x, V3.add_y, V3.add_z, V3.smul_x, V3.smul_y, V3.smul_z, V3.sub_x,
    V3.sub_y, V3.sub_z]
  ring

/-- numbers only: pairs `(a, b)` = (value at the inner point, value at the outer point) -/
theorem exit_param : ∀ (l : List (ℝ × ℝ)), (∀ ab ∈ l, ab.1 ≤ 0) →
    ∃ τ : ℝ, 0 ≤ τ ∧ τ ≤ 1 ∧ (∀ ab ∈ l, (1 - τ) * ab.1 + τ * ab.2 ≤ 0) ∧
      (τ = 1 ∨ ∃ ab ∈ l, (1 - τ) * ab.1 + τ * ab.2 = 0 ∧ 0 < ab.2)
  | [], _ => ⟨1, by norm_num, le_refl _, fun ab h => by simp at h, Or.inl rfl⟩
  | (a, b) :: l, h => by
    obtain ⟨τ, h0, h1, hall, hlast⟩ := exit_param l (fun ab hab => h ab (List.mem_cons_of_mem _ hab))
    have ha : a ≤ 0 := h (a, b) List.mem_cons_self
    by_cases hc : (1 - τ) * a + τ * b ≤ 0
    · refine ⟨τ, h0, h1, ?_, ?_⟩
      · intro ab hab
        rcases List.mem_cons.mp hab with rfl | hab
        · exact hc
        · exact hall ab hab
      · rcases hlast with rfl | ⟨ab, hab, hz⟩
        · exact Or.inl rfl
        · exact Or.inr ⟨ab, List.mem_cons_of_mem _ hab, hz⟩
    · have hpos : 0 < (1 - τ) * a + τ * b := not_le.mp hc
      have hτ : 0 < τ := by
        rcases h0.lt_or_eq with h | h
        · exact h
        · rw [← h] at hpos; simp at hpos; linarith
      have hb : 0 < b := by
        by_contra hb'
        have : b ≤ 0 := not_lt.mp hb'
        have : (1 - τ) * a + τ * b ≤ 0 := by
          have := mul_nonpos_of_nonneg_of_nonpos (by linarith : 0 ≤ 1 - τ) ha
          have := mul_nonpos_of_nonneg_of_nonpos h0 ‹b ≤ 0›
          linarith
        linarith
      -- the zero of the affine function s ↦ (1−s)a + s b
      have hba : 0 < b - a := by linarith
      set σ := -a / (b - a) with hσ
      have hσ0 : 0 ≤ σ := div_nonneg (by linarith) hba.le
      have hzero : (1 - σ) * a + σ * b = 0 := by
        rw [hσ]; field_simp; ring
      have hστ : σ ≤ τ := by
        by_contra hgt
        have hgt' : τ < σ := not_le.mp hgt
        have : (1 - τ) * a + τ * b < (1 - σ) * a + σ * b := by nlinarith
        linarith
      refine ⟨σ, hσ0, hστ.trans h1, ?_, Or.inr ⟨(a, b), List.mem_cons_self, hzero, hb⟩⟩
      intro ab hab
      rcases List.mem_cons.mp hab with rfl | hab
      · exact hzero.le
      · have h2 := hall ab hab
        have h3 := h ab (List.mem_cons_of_mem _ hab)
        -- value at σ is the combination (1 − σ/τ)·(value at 0) + (σ/τ)·(value at τ)
        have hk : (1 - σ) * ab.1 + σ * ab.2 =
            (1 - σ / τ) * ab.1 + (σ / τ) * ((1 - τ) * ab.1 + τ * ab.2) := by
          field_simp; ring
        rw [hk]
        have hr1 : 0 ≤ σ / τ := div_nonneg hσ0 hτ.le
        have hr2 : σ / τ ≤ 1 := (div_le_one hτ).mpr hστ
        have := mul_nonpos_of_nonneg_of_nonpos (by linarith : 0 ≤ 1 - σ / τ) h3
        have := mul_nonpos_of_nonneg_of_nonpos hr1 h2
        linarith

/-- **exit point.**  `q` in the cell, `p` outside: a point `x = q + τ(p − q)` of the segment lies in
the cell and on a plane `k` that `p` sees (`0 < e_k(p)`). -/
theorem exit_point (eqs : List (Plane ℝ)) (q p : V3 ℝ) (hq : ∀ e ∈ eqs, CP.planeDist e q ≤ 0)
    (hp : ∃ e ∈ eqs, 0 < CP.planeDist e p) :
    ∃ τ : ℝ, 0 ≤ τ ∧ τ ≤ 1 ∧ (∀ e ∈ eqs, CP.planeDist e (q + V3.smul τ (p - q)) ≤ 0) ∧
      ∃ k ∈ eqs, CP.planeDist k (q + V3.smul τ (p - q)) = 0 ∧ 0 < CP.planeDist k p := by
  obtain ⟨τ, h0, h1, hall, hlast⟩ := exit_param (eqs.map fun e => (CP.planeDist e q, CP.planeDist e p))
    (by intro ab hab; obtain ⟨e, he, rfl⟩ := List.mem_map.mp hab; exact hq e he)
  have hall' : ∀ e ∈ eqs, CP.planeDist e (q + V3.smul τ (p - q)) ≤ 0 := by
    intro e he
    rw [planeDist_lerp]
    exact hall _ (List.mem_map.mpr ⟨e, he, rfl⟩)
  refine ⟨τ, h0, h1, hall', ?_⟩
  rcases hlast with rfl | ⟨ab, hab, hz, hb⟩
  · exfalso
    obtain ⟨e, he, hpos⟩ := hp
    have := hall' e he
    rw [planeDist_lerp] at this
    simp at this; linarith
  · obtain ⟨e, he, rfl⟩ := List.mem_map.mp hab
    exact ⟨e, he, by rw [planeDist_lerp]; exact hz, hb⟩

/-! ### hull points on a supporting plane -/

/-- sub-convex combination supported on the vertices where `g` vanishes -/
theorem subHull_on_zero (g : V3 ℝ → ℝ) (W : List (V3 ℝ)) : ∀ (ws : List ℝ) (V : List (V3 ℝ)),
    ws.length = V.length → (∀ w ∈ ws, 0 ≤ w) → (∀ v ∈ V, g v ≤ 0) → (∀ v ∈ V, g v = 0 → v ∈ W) →
    (List.zipWith (fun w v => w * g v) ws V).sum = 0 → SubHull W ws.sum (comb ws V)
  | [], [], _, _, _, _, _ => by
    have := subHull_zero W
    simpa [comb] using this
  | w :: ws, v :: V, hlen, hw, hg, hW, hsum => by
    simp only [List.length_cons, Nat.add_right_cancel_iff] at hlen
    simp only [List.zipWith_cons_cons, List.sum_cons] at hsum
    have hw0 := hw w List.mem_cons_self
    have hgv := hg v List.mem_cons_self
    have hrest := sum_zipWith_nonpos g ws V (fun x hx => hw x (List.mem_cons_of_mem _ hx))
      (fun x hx => hg x (List.mem_cons_of_mem _ hx))
    have h1 : w * g v ≤ 0 := mul_nonpos_of_nonneg_of_nonpos hw0 hgv
    have hz : w * g v = 0 := by linarith
    have hr : (List.zipWith (fun w v => w * g v) ws V).sum = 0 := by linarith
    have ih := subHull_on_zero g W ws V hlen (fun x hx => hw x (List.mem_cons_of_mem _ hx))
      (fun x hx => hg x (List.mem_cons_of_mem _ hx)) (fun x hx => hW x (List.mem_cons_of_mem _ hx)) hr
    simp only [comb_cons, List.sum_cons]
    rcases mul_eq_zero.mp hz with hw' | hg'
    · subst hw'
      have h00 : SubHull W 0 (V3.smul (0 : ℝ) v) := by
        have : V3.smul (0 : ℝ) v = V3.zero := by ext <;> simp
        rw [this]; exact subHull_zero W
      have := subHull_add h00 ih
      simpa using this
    · have hv : MemHull W v := memHull_of_mem (hW v List.mem_cons_self hg')
      have := subHull_smul w hw0 ((memHull_iff_subHull W v).mp hv)
      have := subHull_add this ih
      simpa using this
  | [], _ :: _, h, _, _, _, _ => by simp at h
  | _ :: _, [], h, _, _, _, _ => by simp at h

/-- a hull point at which an affine functional `e ≤ 0` (on `V`) vanishes is a convex combination of
the vertices at which it vanishes -/
theorem memHull_on_plane (g : V3 ℝ → ℝ) (hgaff : ∀ (ws : List ℝ) (V : List (V3 ℝ)), ws.length = V.length →
      ws.sum = 1 → g (comb ws V) = (List.zipWith (fun w v => w * g v) ws V).sum)
    (V W : List (V3 ℝ)) (hg : ∀ v ∈ V, g v ≤ 0) (hW : ∀ v ∈ V, g v = 0 → v ∈ W)
    (x : V3 ℝ) (hx : MemHull V x) (h0 : g x = 0) : MemHull W x := by
  obtain ⟨ws, hlen, ⟨hw, hs⟩, rfl⟩ := hx
  simp only [Scalar.lit, Scalar.ofNat_real, Scalar.sum_real, Nat.cast_zero, Nat.cast_one] at hw hs
  rw [hgaff ws V hlen hs] at h0
  have := subHull_on_zero g W ws V hlen hw hg hW h0
  rw [hs] at this
  exact (memHull_iff_subHull W _).mpr this

theorem planeDist_affine (e : Plane ℝ) (ws : List ℝ) (V : List (V3 ℝ)) (hlen : ws.length = V.length)
    (hs : ws.sum = 1) :
    CP.planeDist e (comb ws V) = (List.zipWith (fun w v => w * CP.planeDist e v) ws V).sum := by
  rw [planeDist_comb e ws V hlen, hs]; ring

theorem sum_zipWith_add_fun (f g : V3 ℝ → ℝ) : ∀ (ws : List ℝ) (V : List (V3 ℝ)),
    (List.zipWith (fun w v => w * (f v + g v)) ws V).sum =
      (List.zipWith (fun w v => w * f v) ws V).sum + (List.zipWith (fun w v => w * g v) ws V).sum
  | [], _ => by simp
  | _ :: _, [] => by simp
  | w :: ws, v :: V => by
    simp only [List.zipWith_cons_cons, List.sum_cons, sum_zipWith_add_fun f g ws V]; ring

/-! ### a segment: hull of a list whose members are two points -/

theorem subHull_pair (s e : V3 ℝ) : ∀ (W : List (V3 ℝ)) (ws : List ℝ), ws.length = W.length →
    (∀ w ∈ ws, 0 ≤ w) → (∀ v ∈ W, v = s ∨ v = e) →
    ∃ α β : ℝ, 0 ≤ α ∧ 0 ≤ β ∧ α + β = ws.sum ∧ comb ws W = V3.smul α s + V3.smul β e
  | [], [], _, _, _ => ⟨0, 0, le_refl _, le_refl _, by simp, by simp [comb]; ext <;> simp⟩
  | v :: W, w :: ws, hlen, hw, hv => by
    simp only [List.length_cons, Nat.add_right_cancel_iff] at hlen
    obtain ⟨α, β, ha, hb, hsum, hc⟩ := subHull_pair s e W ws hlen
      (fun x hx => hw x (List.mem_cons_of_mem _ hx)) (fun x hx => hv x (List.mem_cons_of_mem _ hx))
    have hw0 := hw w List.mem_cons_self
    simp only [comb_cons, List.sum_cons, hc]
    rcases hv v List.mem_cons_self with rfl | rfl
    · exact ⟨w + α, β, by linarith, hb, by linarith, by ext <;> simp <;> ring⟩
    · exact ⟨α, w + β, ha, by linarith, by linarith, by ext <;> simp <;> ring⟩
  | [], _ :: _, h, _, _ => by simp at h
  | _ :: _, [], h, _, _ => by simp at h

theorem memHull_pair {W : List (V3 ℝ)} {s e y : V3 ℝ} (hW : ∀ v ∈ W, v = s ∨ v = e) (hy : MemHull W y) :
    ∃ lam : ℝ, 0 ≤ lam ∧ lam ≤ 1 ∧ y = V3.smul (1 - lam) s + V3.smul lam e := by
  obtain ⟨ws, hlen, ⟨hw, hs⟩, rfl⟩ := hy
  simp only [Scalar.lit, Scalar.ofNat_real, Scalar.sum_real, Nat.cast_zero, Nat.cast_one] at hw hs
  obtain ⟨α, β, ha, hb, hsum, hc⟩ := subHull_pair s e W ws hlen hw hW
  refine ⟨β, hb, by linarith, ?_⟩
  rw [hc]; have : α = 1 - β := by linarith
  rw [this]

end Inside3D
end
