import CoxeterVerif.Lemmas.FamiliesNgon
/-! Helper lemmas for C17: heights, radii and edge identities of the uniform prism, antiprism,
    pyramid and dipyramid of `coxeter/families/common.py`. -/
open Scalar
set_option maxRecDepth 4000
namespace Fam
noncomputable section


theorem prismH_real (n : Nat) : (prismH n : ℝ) = Scalar.cbrt (4 / (n:ℝ) * Real.tan (Real.pi / n)) := by
  simp [prismH, Scalar.lit]

theorem prismH_pos {n : Nat} (hn : 3 ≤ n) : 0 < (prismH n : ℝ) := by
  rw [prismH_real]
  apply cbrt_pos
  have : (0:ℝ) < n := by exact_mod_cast (by omega : 0 < n)
  have := tan_pi_div_pos hn
  positivity

theorem prismH_cube {n : Nat} (hn : 3 ≤ n) :
    (prismH n : ℝ) ^ 3 = 4 / (n:ℝ) * Real.tan (Real.pi / n) := by
  rw [prismH_real]
  apply cbrt_cube
  have : (0:ℝ) < n := by exact_mod_cast (by omega : 0 < n)
  have := tan_pi_div_pos hn
  positivity

/-- base edge of the prism: `2 s² (1 − cos δ) = h²` with `s² = (1/h)/(n/2 · sin δ)` -/
theorem prism_base_edge {n : Nat} (hn : 3 ≤ n) :
    2 * (ngonScale n (1 / (prismH n : ℝ)) * ngonScale n (1 / (prismH n : ℝ))) * (1 - Real.cos (delta n))
      = (prismH n : ℝ) * prismH n := by
  have hH := prismH_pos hn
  have hc := prismH_cube hn
  rw [ngonScale_sq hn (by positivity), one_sub_cos_delta, sin_delta_eq]
  have hs := sin_pi_div_pos hn
  have hcs := cos_pi_div_pos hn
  have hn0 : (0:ℝ) < n := by exact_mod_cast (by omega : 0 < n)
  rw [Real.tan_eq_sin_div_cos] at hc
  generalize (prismH n : ℝ) = H at *
  generalize Real.sin (Real.pi / n) = sn at *
  generalize Real.cos (Real.pi / n) = cs at *
  field_simp at hc ⊢
  nlinarith [hc]


/-- base edge² of an n-gon of area `A` as built by `_make_ngon`: `4 A tan(π/n) / n` -/
theorem ngon_base_edge {n : Nat} (hn : 3 ≤ n) {A : ℝ} (hA : 0 ≤ A) :
    2 * (ngonScale n A * ngonScale n A) * (1 - Real.cos (delta n))
      = 4 * A * Real.sin (Real.pi / n) / (n * Real.cos (Real.pi / n)) := by
  rw [ngonScale_sq hn hA, one_sub_cos_delta, sin_delta_eq]
  have hs := sin_pi_div_pos hn
  have hcs := cos_pi_div_pos hn
  have hn0 : (0:ℝ) < n := by exact_mod_cast (by omega : 0 < n)
  field_simp
  ring

/-- squared circumradius: `A / (n sin(π/n) cos(π/n))` -/
theorem ngon_radius_sq {n : Nat} (hn : 3 ≤ n) {A : ℝ} (hA : 0 ≤ A) :
    ngonScale n A * ngonScale n A = A / (n * Real.sin (Real.pi / n) * Real.cos (Real.pi / n)) := by
  rw [ngonScale_sq hn hA, sin_delta_eq]
  have hs := sin_pi_div_pos hn
  have hcs := cos_pi_div_pos hn
  have hn0 : (0:ℝ) < n := by exact_mod_cast (by omega : 0 < n)
  field_simp

theorem sin_pi_div_gt_half {n : Nat} (hn : 3 ≤ n) (hn5 : n ≤ 5) : 1 / 2 < Real.sin (Real.pi / n) := by
  rw [← Real.sin_pi_div_six]
  apply Real.sin_lt_sin_of_lt_of_le_pi_div_two
  · linarith [Real.pi_pos]
  · exact (pi_div_lt hn).le
  · have h5 : (n:ℝ) ≤ 5 := by exact_mod_cast hn5
    have hn0 : (0:ℝ) < n := by exact_mod_cast (by omega : 0 < n)
    rw [div_lt_div_iff₀ (by norm_num) hn0]
    nlinarith [Real.pi_pos]

theorem invSinSq_real (n : Nat) : (invSinSq n : ℝ) = 1 / (Real.sin (Real.pi / n) * Real.sin (Real.pi / n)) := by
  simp [invSinSq, Scalar.lit, Scalar.sqr]

theorem cot_real (x : ℝ) : (cot x : ℝ) = 1 / Real.tan x := by simp [cot, Scalar.lit]
theorem sec_real (x : ℝ) : (sec x : ℝ) = 1 / Real.cos x := by simp [sec, Scalar.lit]

/-- the quantity under the cube root of the pyramid height is positive for n = 3, 4, 5 -/
theorem pyramid_arg_pos {n : Nat} (hn : 3 ≤ n) (hn5 : n ≤ 5) :
    0 < (3 * (4 - 1 / (Real.sin (Real.pi / n) * Real.sin (Real.pi / n)))) / (n * (1 / Real.tan (Real.pi / n))) := by
  have hs := sin_pi_div_gt_half hn hn5
  have ht := tan_pi_div_pos hn
  have hn0 : (0:ℝ) < n := by exact_mod_cast (by omega : 0 < n)
  have : 1 / (Real.sin (Real.pi / n) * Real.sin (Real.pi / n)) < 4 := by
    rw [div_lt_iff₀ (by nlinarith)]; nlinarith
  have h1 : 0 < 4 - 1 / (Real.sin (Real.pi / n) * Real.sin (Real.pi / n)) := by linarith
  positivity

theorem pyramidH_real (n : Nat) : (pyramidH n : ℝ) =
    Scalar.cbrt ((3 * (4 - 1 / (Real.sin (Real.pi / n) * Real.sin (Real.pi / n)))) / (n * (1 / Real.tan (Real.pi / n)))) := by
  simp [pyramidH, Scalar.lit, invSinSq_real, cot_real]

theorem pyramidH_pos {n : Nat} (hn : 3 ≤ n) (hn5 : n ≤ 5) : 0 < (pyramidH n : ℝ) := by
  rw [pyramidH_real]; exact cbrt_pos (pyramid_arg_pos hn hn5)

theorem pyramidH_cube {n : Nat} (hn : 3 ≤ n) (hn5 : n ≤ 5) : (pyramidH n : ℝ) ^ 3 =
    (3 * (4 - 1 / (Real.sin (Real.pi / n) * Real.sin (Real.pi / n)))) / (n * (1 / Real.tan (Real.pi / n))) := by
  rw [pyramidH_real]; exact cbrt_cube (pyramid_arg_pos hn hn5).le

/-- pyramid: lateral edge² (= r² + h²) equals base edge² -/
theorem pyramid_edges {n : Nat} (hn : 3 ≤ n) (hn5 : n ≤ 5) :
    ngonScale n (3 / (pyramidH n : ℝ)) * ngonScale n (3 / (pyramidH n : ℝ)) + (pyramidH n : ℝ) * pyramidH n
      = 2 * (ngonScale n (3 / (pyramidH n : ℝ)) * ngonScale n (3 / (pyramidH n : ℝ))) * (1 - Real.cos (delta n)) := by
  have hH := pyramidH_pos hn hn5
  have hc := pyramidH_cube hn hn5
  rw [ngon_base_edge hn (by positivity), ngon_radius_sq hn (by positivity)]
  have hs := sin_pi_div_pos hn
  have hcs := cos_pi_div_pos hn
  have hn0 : (0:ℝ) < n := by exact_mod_cast (by omega : 0 < n)
  rw [Real.tan_eq_sin_div_cos] at hc
  generalize (pyramidH n : ℝ) = H at *
  generalize Real.sin (Real.pi / n) = sn at *
  generalize Real.cos (Real.pi / n) = cs at *
  field_simp at hc ⊢
  nlinarith [hc]

/-! dipyramid -/
theorem dipyramid_arg_pos {n : Nat} (hn : 3 ≤ n) (hn5 : n ≤ 5) :
    0 < (3 * (4 - 1 / (Real.sin (Real.pi / n) * Real.sin (Real.pi / n))) / 2) / (n * (1 / Real.tan (Real.pi / n))) := by
  have hs := sin_pi_div_gt_half hn hn5
  have ht := tan_pi_div_pos hn
  have hn0 : (0:ℝ) < n := by exact_mod_cast (by omega : 0 < n)
  have : 1 / (Real.sin (Real.pi / n) * Real.sin (Real.pi / n)) < 4 := by
    rw [div_lt_iff₀ (by nlinarith)]; nlinarith
  have h1 : 0 < 4 - 1 / (Real.sin (Real.pi / n) * Real.sin (Real.pi / n)) := by linarith
  positivity

theorem dipyramidH_real (n : Nat) : (dipyramidH n : ℝ) =
    Scalar.cbrt ((3 * (4 - 1 / (Real.sin (Real.pi / n) * Real.sin (Real.pi / n))) / 2) / (n * (1 / Real.tan (Real.pi / n)))) := by
  simp [dipyramidH, Scalar.lit, invSinSq_real, cot_real]

theorem dipyramidH_pos {n : Nat} (hn : 3 ≤ n) (hn5 : n ≤ 5) : 0 < (dipyramidH n : ℝ) := by
  rw [dipyramidH_real]; exact cbrt_pos (dipyramid_arg_pos hn hn5)

theorem dipyramidH_cube {n : Nat} (hn : 3 ≤ n) (hn5 : n ≤ 5) : (dipyramidH n : ℝ) ^ 3 =
    (3 * (4 - 1 / (Real.sin (Real.pi / n) * Real.sin (Real.pi / n))) / 2) / (n * (1 / Real.tan (Real.pi / n))) := by
  rw [dipyramidH_real]; exact cbrt_cube (dipyramid_arg_pos hn hn5).le

/-- dipyramid: lateral edge² (= r² + h²) equals base edge² -/
theorem dipyramid_edges {n : Nat} (hn : 3 ≤ n) (hn5 : n ≤ 5) :
    ngonScale n (3 / 2 / (dipyramidH n : ℝ)) * ngonScale n (3 / 2 / (dipyramidH n : ℝ)) + (dipyramidH n : ℝ) * dipyramidH n
      = 2 * (ngonScale n (3 / 2 / (dipyramidH n : ℝ)) * ngonScale n (3 / 2 / (dipyramidH n : ℝ))) * (1 - Real.cos (delta n)) := by
  have hH := dipyramidH_pos hn hn5
  have hc := dipyramidH_cube hn hn5
  rw [ngon_base_edge hn (by positivity), ngon_radius_sq hn (by positivity)]
  have hs := sin_pi_div_pos hn
  have hcs := cos_pi_div_pos hn
  have hn0 : (0:ℝ) < n := by exact_mod_cast (by omega : 0 < n)
  rw [Real.tan_eq_sin_div_cos] at hc
  generalize (dipyramidH n : ℝ) = H at *
  generalize Real.sin (Real.pi / n) = sn at *
  generalize Real.cos (Real.pi / n) = cs at *
  field_simp at hc ⊢
  nlinarith [hc]

/-! antiprism -/
/-- half of `π/n` -/
def hx (n : Nat) : ℝ := Real.pi / (2 * n)

theorem pi_div_eq_two_hx (n : Nat) : Real.pi / n = 2 * hx n := by
  unfold hx
  rcases Nat.eq_zero_or_pos n with h | h
  · subst h; simp
  · have : (n:ℝ) ≠ 0 := by exact_mod_cast (by omega : n ≠ 0)
    field_simp

theorem hx_pos {n : Nat} (hn : 3 ≤ n) : 0 < hx n := by
  have : (0:ℝ) < n := by exact_mod_cast (by omega : 0 < n)
  unfold hx; positivity

theorem hx_lt {n : Nat} (hn : 3 ≤ n) : hx n < Real.pi / 3 := by
  have h3 : (3:ℝ) ≤ n := by exact_mod_cast hn
  unfold hx
  rw [div_lt_div_iff₀ (by linarith) (by norm_num)]
  nlinarith [Real.pi_pos]

theorem cos_hx_gt_half {n : Nat} (hn : 3 ≤ n) : 1 / 2 < Real.cos (hx n) := by
  rw [← Real.cos_pi_div_three]
  apply Real.cos_lt_cos_of_nonneg_of_le_pi_div_two (hx_pos hn).le _ (hx_lt hn)
  linarith [Real.pi_pos]

theorem sin_hx_pos {n : Nat} (hn : 3 ≤ n) : 0 < Real.sin (hx n) :=
  Real.sin_pos_of_pos_of_lt_pi (hx_pos hn) (by linarith [hx_lt hn, Real.pi_pos])

theorem antiprismArea_real (n : Nat) :
    (antiprismArea n : ℝ) = n / 4 * (1 / Real.tan (Real.pi / n)) * ((antiprismS n : ℝ) * antiprismS n) := by
  simp [antiprismArea, cot_real, Scalar.lit, Scalar.sqr]

theorem antiprismArea_nonneg {n : Nat} (hn : 3 ≤ n) : 0 ≤ (antiprismArea n : ℝ) := by
  rw [antiprismArea_real]
  have := tan_pi_div_pos hn
  have hn0 : (0:ℝ) < n := by exact_mod_cast (by omega : 0 < n)
  have := mul_self_nonneg (antiprismS n : ℝ)
  positivity

theorem antiprismH_sq {n : Nat} (hn : 3 ≤ n) : (antiprismH n : ℝ) * antiprismH n =
    (1 - 1 / 4 * (1 / Real.cos (hx n) * (1 / Real.cos (hx n)))) * ((antiprismS n : ℝ) * antiprismS n) := by
  have hc := cos_hx_gt_half hn
  have e : (antiprismH n : ℝ) = Real.sqrt (1 - 1 / 4 * (1 / Real.cos (hx n) * (1 / Real.cos (hx n)))) * antiprismS n := by
    simp [antiprismH, sec_real, Scalar.lit, Scalar.sqr, Scalar.q, hx]
  rw [e]
  have hnn : 0 ≤ 1 - 1 / 4 * (1 / Real.cos (hx n) * (1 / Real.cos (hx n))) := by
    have : 1 / Real.cos (hx n) * (1 / Real.cos (hx n)) ≤ 4 := by
      have hc0 : 0 < Real.cos (hx n) := by linarith
      rw [one_div_mul_one_div, div_le_iff₀ (by positivity)]; nlinarith
    linarith
  have := Real.mul_self_sqrt hnn
  nlinarith [this]

/-- antiprism base edge² = s² -/
theorem antiprism_base_edge {n : Nat} (hn : 3 ≤ n) :
    2 * (ngonScale n (antiprismArea n : ℝ) * ngonScale n (antiprismArea n : ℝ)) * (1 - Real.cos (delta n))
      = (antiprismS n : ℝ) * antiprismS n := by
  rw [ngon_base_edge hn (antiprismArea_nonneg hn), antiprismArea_real, Real.tan_eq_sin_div_cos]
  have hs := sin_pi_div_pos hn
  have hcs := cos_pi_div_pos hn
  have hn0 : (0:ℝ) < n := by exact_mod_cast (by omega : 0 < n)
  field_simp

/-- antiprism lateral edge²: `2 r² (1 − cos(π/n)) + h² = s²` -/
theorem antiprism_lateral_edge {n : Nat} (hn : 3 ≤ n) :
    2 * (ngonScale n (antiprismArea n : ℝ) * ngonScale n (antiprismArea n : ℝ)) * (1 - Real.cos (Real.pi / n))
      + (antiprismH n : ℝ) * antiprismH n = (antiprismS n : ℝ) * antiprismS n := by
  rw [ngon_radius_sq hn (antiprismArea_nonneg hn), antiprismArea_real, antiprismH_sq hn,
    Real.tan_eq_sin_div_cos, pi_div_eq_two_hx, Real.sin_two_mul, Real.cos_two_mul]
  have hs := sin_hx_pos hn
  have hc := cos_hx_gt_half hn
  have hc0 : 0 < Real.cos (hx n) := by linarith
  have hcs : 0 < 2 * Real.cos (hx n) ^ 2 - 1 := by
    have := cos_pi_div_pos hn
    rwa [pi_div_eq_two_hx, Real.cos_two_mul] at this
  have hn0 : (0:ℝ) < n := by exact_mod_cast (by omega : 0 < n)
  have hpy := Real.sin_sq_add_cos_sq (hx n)
  generalize (antiprismS n : ℝ) = S at *
  generalize Real.sin (hx n) = sn at *
  generalize Real.cos (hx n) = cs at *
  have hsn : sn ^ 2 = 1 - cs ^ 2 := by linarith
  field_simp
  nlinarith [hsn]
end
end Fam
