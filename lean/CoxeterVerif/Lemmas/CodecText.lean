import CoxeterVerif.Lemmas.Codec
/-!
  Helper lemmas for C19, part 3: the token-level printer of `__repr__` and the evaluator of exactly
  that syntax (`Model/Codec.lean`: `printCall`, `parseCall`) are inverse to each other.

  Generic part (any item type): `sepBy` reads back what `commaSep` printed, `listOf` what `printList`
  printed.  Then numbers (sign handled as unary minus), index lists, rows, keyword arguments, calls.
-/
namespace C19
open Scalar

section generic
variable {α β : Type}

theorem length_le_commaSep (pr : β → List (Tok α)) :
    ∀ xs : List β, (∀ x ∈ xs, 1 ≤ (pr x).length) → xs.length ≤ (commaSep pr xs).length
  | [], _ => by simp [commaSep]
  | [x], h => by simpa [commaSep] using h x (by simp)
  | x :: y :: r, h => by
    have h1 := h x (by simp)
    have h2 := length_le_commaSep pr (y :: r) (fun z hz => h z (List.mem_cons_of_mem _ hz))
    simp only [commaSep, List.length_append, List.length_cons] at h2 ⊢
    omega

/-- `sepBy` reads back a non-empty comma separated sequence followed by the closing token -/
theorem sepBy_commaSep (p : Parser α β) (pr : β → List (Tok α)) (close : Tok α → Bool)
    (hcomma : close .comma = false) (c : Tok α) (hc : close c = true) :
    ∀ (xs : List β), xs ≠ [] → (∀ x ∈ xs, ∀ rest, p (pr x ++ rest) = .ok (x, rest)) →
      ∀ (fuel : Nat), xs.length ≤ fuel → ∀ rest,
        sepBy p close fuel (commaSep pr xs ++ c :: rest) = .ok (xs, rest) := by
  intro xs
  induction xs with
  | nil => intro h; exact absurd rfl h
  | cons x r ih =>
    intro _ hp fuel hf rest
    cases fuel with
    | zero => simp at hf
    | succ fuel =>
      cases r with
      | nil =>
        simp only [commaSep, sepBy, hp x (by simp), hc, if_true]
      | cons y r' =>
        have hx := hp x (by simp) (.comma :: (commaSep pr (y :: r') ++ c :: rest))
        have hrec := ih (by simp) (fun z hz => hp z (List.mem_cons_of_mem _ hz)) fuel
          (by simpa using hf) rest
        simp only [commaSep, List.append_assoc, List.cons_append, sepBy, hx, hcomma, hrec]
        rfl

/-- the first token of a non-empty printed sequence is the first token of its first item -/
theorem commaSep_head (pr : β → List (Tok α)) (x : β) (r : List β) (t : Tok α) (w : List (Tok α))
    (h : pr x = t :: w) : ∃ w', commaSep pr (x :: r) = t :: w' := by
  cases r with
  | nil => exact ⟨w, by simp [commaSep, h]⟩
  | cons y r' => exact ⟨w ++ .comma :: commaSep pr (y :: r'), by simp [commaSep, h]⟩

/-- `listOf` reads back a printed list display -/
theorem listOf_printList (p : Parser α β) (pr : β → List (Tok α)) (xs : List β)
    (hp : ∀ x ∈ xs, ∀ rest, p (pr x ++ rest) = .ok (x, rest))
    (hstart : ∀ x ∈ xs, ∃ t w, pr x = t :: w ∧ Tok.isRbr t = false) (rest : List (Tok α)) :
    listOf p (printList pr xs ++ rest) = .ok (xs, rest) := by
  cases xs with
  | nil => simp [listOf, printList, commaSep]
  | cons x r =>
    obtain ⟨t, w, hx, ht⟩ := hstart x (by simp)
    obtain ⟨w', hw⟩ := commaSep_head pr x r t w hx
    have hlen : (x :: r).length ≤ (commaSep pr (x :: r) ++ Tok.rbr :: rest).length := by
      have := length_le_commaSep pr (x :: r) (fun z hz => by
        obtain ⟨t', w'', hz', _⟩ := hstart z hz
        simp [hz'])
      simp only [List.length_append, List.length_cons] at this ⊢
      omega
    have hs := sepBy_commaSep p pr Tok.isRbr rfl .rbr rfl (x :: r) (by simp) hp _ hlen rest
    have e : printList pr (x :: r) ++ rest = .lbr :: (commaSep pr (x :: r) ++ .rbr :: rest) := by
      simp [printList]
    rw [e]
    rw [hw] at hs ⊢
    cases t with
    | rbr => simp [Tok.isRbr] at ht
    | _ => simpa [listOf] using hs
end generic

/-! ### numbers, indices, rows over ℝ -/

/-- the classifier calls every scalar finite (true of every real number) -/
def Spec.RealFmt (nk : NumFmt ℝ) : Prop := ∀ x, ∃ b, nk x = .fin b

theorem parseNumber_prNum {nk : NumFmt ℝ} (h : Spec.RealFmt nk) (x : ℝ) (rest : List (Tok ℝ)) :
    parseNumber (prNum nk x ++ rest) = .ok (x, rest) := by
  obtain ⟨b, hb⟩ := h x
  cases b <;> simp [prNum, hb, parseNumber]

theorem prNum_start {nk : NumFmt ℝ} (h : Spec.RealFmt nk) (x : ℝ) :
    ∃ t w, prNum nk x = t :: w ∧ Tok.isRbr t = false ∧ (∀ y, t = .num y ∨ t = .minus → True) ∧
      (t = .num x ∨ t = .minus) := by
  obtain ⟨b, hb⟩ := h x
  cases b
  · exact ⟨.num x, [], by simp [prNum, hb], rfl, fun _ _ => trivial, Or.inl rfl⟩
  · exact ⟨.minus, [.num (-x)], by simp [prNum, hb], rfl, fun _ _ => trivial, Or.inr rfl⟩

theorem parseIndex_prInt (n : Nat) (rest : List (Tok ℝ)) :
    parseIndex (prInt n ++ rest) = .ok (n, rest) := rfl

theorem listOf_numbers {nk : NumFmt ℝ} (h : Spec.RealFmt nk) (v : List ℝ) (rest : List (Tok ℝ)) :
    listOf parseNumber (printList (prNum nk) v ++ rest) = .ok (v, rest) :=
  listOf_printList parseNumber (prNum nk) v (fun x _ r => parseNumber_prNum h x r)
    (fun x _ => by obtain ⟨t, w, h1, h2, _⟩ := prNum_start h x; exact ⟨t, w, h1, h2⟩) rest

theorem listOf_rows {nk : NumFmt ℝ} (h : Spec.RealFmt nk) (m : List (List ℝ)) (rest : List (Tok ℝ)) :
    listOf (listOf parseNumber) (printList (printList (prNum nk)) m ++ rest) = .ok (m, rest) :=
  listOf_printList (listOf parseNumber) (printList (prNum nk)) m (fun r _ rest' => listOf_numbers h r rest')
    (fun r _ => ⟨.lbr, commaSep (prNum nk) r ++ [.rbr], rfl, rfl⟩) rest

theorem listOf_indices (f : List Nat) (rest : List (Tok ℝ)) :
    listOf parseIndex (printList prInt f ++ rest) = .ok (f, rest) :=
  listOf_printList parseIndex prInt f (fun n _ r => parseIndex_prInt n r)
    (fun n _ => ⟨.int n, [], rfl, rfl⟩) rest

theorem listOf_faces (f : List (List Nat)) (rest : List (Tok ℝ)) :
    listOf (listOf parseIndex) (printList (printList (prInt (α := ℝ))) f ++ rest) = .ok (f, rest) :=
  listOf_printList (listOf parseIndex) (printList prInt) f (fun r _ rest' => listOf_indices r rest')
    (fun r _ => ⟨.lbr, commaSep prInt r ++ [.rbr], rfl, rfl⟩) rest

/-! ### keyword arguments and calls -/

/-- a keyword argument as `__repr__` emits them: numbers anywhere, a flat list under a key other than
`vertices` / `faces`, rows under `vertices`, index lists under `faces` -/
def Spec.ArgOk : String × Val ℝ → Prop
  | (_, .num _) => True
  | (k, .vec _) => k ≠ "faces" ∧ k ≠ "vertices"
  | (k, .mat _) => k = "vertices"
  | (k, .idx _) => k = "faces"
  | (_, .str _) => False
  | (_, .live) => False

theorem parseArg_printVal {nk : NumFmt ℝ} (h : Spec.RealFmt nk) (k : String) (v : Val ℝ)
    (hok : Spec.ArgOk (k, v)) (rest : List (Tok ℝ)) :
    parseArg k (printVal nk v ++ rest) = .ok (v, rest) := by
  cases v with
  | str s => exact absurd hok (by simp [Spec.ArgOk])
  | live => exact absurd hok (by simp [Spec.ArgOk])
  | num x =>
    have hp := parseNumber_prNum h x rest
    obtain ⟨b, hb⟩ := h x
    cases b <;> simp only [printVal, prNum, hb, List.cons_append, List.nil_append] at hp ⊢ <;>
      simp only [parseArg, hp]
  | vec l =>
    obtain ⟨h1, h2⟩ : k ≠ "faces" ∧ k ≠ "vertices" := hok
    cases l with
    | nil => simp [printVal, printList, commaSep, parseArg, h1, h2]
    | cons x r =>
      have hp := listOf_numbers h (x :: r) rest
      obtain ⟨t, w, hx, _, _, ht⟩ := prNum_start h x
      obtain ⟨w', hw⟩ := commaSep_head (prNum nk) x r t w hx
      simp only [printVal, printList, List.cons_append, hw] at hp ⊢
      rcases ht with rfl | rfl <;> simp only [parseArg, hp]
  | mat m =>
    have hk : k = "vertices" := hok
    subst hk
    cases m with
    | nil => simp [printVal, printList, commaSep, parseArg]
    | cons r rs =>
      have hp := listOf_rows h (r :: rs) rest
      obtain ⟨w', hw⟩ := commaSep_head (printList (prNum nk)) r rs .lbr (commaSep (prNum nk) r ++ [.rbr]) rfl
      simp only [printVal, printList, List.cons_append, hw, List.append_assoc, List.nil_append] at hp ⊢
      simp [parseArg, hp]
  | idx f =>
    have hk : k = "faces" := hok
    subst hk
    cases f with
    | nil => simp [printVal, printList, commaSep, parseArg]
    | cons r rs =>
      have hp := listOf_faces (r :: rs) rest
      obtain ⟨w', hw⟩ := commaSep_head (printList (prInt (α := ℝ))) r rs .lbr (commaSep prInt r ++ [.rbr]) rfl
      simp only [printVal, printList, List.cons_append, hw, List.append_assoc, List.nil_append] at hp ⊢
      simp [parseArg, hp]

theorem parseKw_printKw {nk : NumFmt ℝ} (h : Spec.RealFmt nk) (e : String × Val ℝ)
    (hok : Spec.ArgOk e) (rest : List (Tok ℝ)) :
    parseKw (printKw nk e ++ rest) = .ok (e, rest) := by
  obtain ⟨k, v⟩ := e
  simp only [printKw, List.cons_append, parseKw, parseArg_printVal h k v hok rest]

/-- **the evaluator reads back what the printer printed**, for every call whose arguments are of the
kinds `__repr__` emits -/
theorem parseCall_printCall {nk : NumFmt ℝ} (h : Spec.RealFmt nk) (c : Call ℝ)
    (hok : ∀ e ∈ c.kwargs, Spec.ArgOk e) : parseCall (printCall nk c) = .ok c := by
  obtain ⟨fn, kw⟩ := c
  cases kw with
  | nil => simp [printCall, commaSep, parseCall]
  | cons e r =>
    have hlen : (e :: r).length ≤ (commaSep (printKw nk) (e :: r) ++ Tok.rpar :: []).length := by
      have := length_le_commaSep (printKw nk) (e :: r) (fun z _ => by simp [printKw])
      simp only [List.length_append, List.length_cons] at this ⊢
      omega
    have hs := sepBy_commaSep parseKw (printKw nk) Tok.isRpar rfl .rpar rfl (e :: r) (by simp)
      (fun z hz rest => parseKw_printKw h z (hok z hz) rest) _ hlen []
    obtain ⟨w', hw⟩ := commaSep_head (printKw nk) e r (.name e.1) (.eq :: printVal nk e.2) rfl
    simp only [printCall]
    rw [hw] at hs ⊢
    simp only [List.cons_append] at hs
    simp only [List.cons_append, parseCall, hs]

/-- every call `__repr__` emits has arguments of those kinds -/
theorem reprCall_argOk (s : Shape ℝ) : ∀ e ∈ (reprCall s).kwargs, Spec.ArgOk e := by
  cases s <;> simp [reprCall, Spec.ArgOk]

end C19
