import CoxeterVerif.Lemmas.StructureCert
/-!
  C07, deepening round — the geometric half of the surface certificate.

  `isSupportingFacet` (exact sign tests of `m·(v − v0)`, `m` the right-hand normal of the first
  three vertices of the face) implies
  * `IsHullFacet` — a supporting plane of the point set whose on-plane points are exactly the
    vertices of the face, three of them not collinear;
  * the plane equation that `Polyhedron._find_equations` computes for that face is a unit normal,
    contains EVERY vertex of the face and has every other vertex strictly on its negative side;
  * every convex combination of the input points is on the non-positive side, and lies on the
    plane iff it only uses vertices of the face (the face is the exposed face
    `conv(points) ∩ plane`).
-/
open Struct Scalar
set_option maxRecDepth 4000
noncomputable section

namespace StructLemmas

theorem sgn_beq_zero (x : ℝ) : (StructSpec.sgn x == 0) = true ↔ x = 0 := by
  unfold StructSpec.sgn
  simp only [Scalar.lit, Scalar.ofNat_real, Nat.cast_zero]
  split_ifs with h1 h2
  · constructor
    · intro h; exact absurd h (by decide)
    · intro h; rw [h] at h1; exact absurd h1 (lt_irrefl _)
  · constructor
    · intro h; exact absurd h (by decide)
    · intro h; rw [h] at h2; exact absurd h2 (lt_irrefl _)
  · constructor
    · intro _; exact le_antisymm (not_lt.mp h1) (not_lt.mp h2)
    · intro _; rfl

theorem sgn_beq_neg_one (x : ℝ) : (StructSpec.sgn x == -1) = true ↔ x < 0 := by
  unfold StructSpec.sgn
  simp only [Scalar.lit, Scalar.ofNat_real, Nat.cast_zero]
  split_ifs with h1 h2
  · constructor
    · intro h; exact absurd h (by decide)
    · intro h; exact absurd (lt_trans h h1) (lt_irrefl _)
  · constructor
    · intro _; exact h2
    · intro _; rfl
  · constructor
    · intro h; exact absurd h (by decide)
    · intro h; exact absurd h h2

/-- the exact side tests behind `isSupportingFacet`, spelled out -/
theorem isSupportingFacet_spec (verts : List (V3 ℝ)) (face : Face)
    (h : StructSpec.isSupportingFacet verts face = true) :
    let v0 := verts.getD (face.getD 0 0) V3.zero
    let m := StructSpec.rawNormal v0 (verts.getD (face.getD 1 0) V3.zero) (verts.getD (face.getD 2 0) V3.zero)
    ∀ i, i < verts.length →
      (i ∈ face → V3.dot m (verts.getD i V3.zero - v0) = 0) ∧
      (i ∉ face → V3.dot m (verts.getD i V3.zero - v0) < 0) := by
  intro v0 m i hi
  unfold StructSpec.isSupportingFacet StructSpec.sides at h
  simp only [List.all_eq_true, List.mem_range] at h
  have hi' := h i hi
  have hget : (List.map (fun v => StructSpec.sgn (V3.dot m (v - v0))) verts).getD i 1 =
      StructSpec.sgn (V3.dot m (verts.getD i V3.zero - v0)) := by
    simp [List.getD_eq_getElem?_getD, hi]
  constructor
  · intro hm
    have hc : face.contains i = true := by simpa using hm
    rw [if_pos hc] at hi'
    rw [hget] at hi'
    exact (sgn_beq_zero _).mp hi'
  · intro hm
    have hc : ¬ face.contains i = true := by simpa using hm
    rw [if_neg hc] at hi'
    rw [hget] at hi'
    exact (sgn_beq_neg_one _).mp hi'

theorem dot_sub_eq (m v v0 : V3 ℝ) : V3.dot m v + -(V3.dot m v0) = V3.dot m (v - v0) := by
  obtain ⟨a, b, c⟩ := m; obtain ⟨p, q, r⟩ := v; obtain ⟨s, t, u⟩ := v0
  unfold_model; ring

theorem getD_mem_of_lt (f : Face) {k : Nat} (h : k < f.length) : f.getD k 0 ∈ f := by
  rw [getD_of_lt f h]; exact List.getElem_mem h

/-- **certificate ⇒ facet of the hull**: a well-formed face that passes `isSupportingFacet` is a
facet of the convex hull of the vertex list in the sense of `StructSpec.IsHullFacet` -/
theorem hullFacet_of_cert (verts : List (V3 ℝ)) (face : Face)
    (hwf : StructSpec.faceWellFormed verts face = true)
    (h : StructSpec.isSupportingFacet verts face = true) :
    StructSpec.IsHullFacet verts face := by
  have hs := isSupportingFacet_spec verts face h
  simp only at hs
  set v0 := verts.getD (face.getD 0 0) V3.zero with hv0
  set m := StructSpec.rawNormal v0 (verts.getD (face.getD 1 0) V3.zero) (verts.getD (face.getD 2 0) V3.zero) with hm
  unfold StructSpec.faceWellFormed at hwf
  simp only [Bool.and_eq_true, decide_eq_true_eq, List.all_eq_true, Bool.or_eq_true, bne_iff_ne, ← hv0, ← hm] at hwf
  obtain ⟨⟨hlen, _⟩, hnz⟩ := hwf
  refine ⟨m, -(V3.dot m v0), ?_, ?_, ?_⟩
  · intro i hi
    simp only [Scalar.lit, Scalar.ofNat_real, Nat.cast_zero]
    rw [dot_sub_eq]
    by_cases hmem : i ∈ face
    · exact le_of_eq ((hs i hi).1 hmem)
    · exact le_of_lt ((hs i hi).2 hmem)
  · intro i hi
    simp only [Scalar.lit, Scalar.ofNat_real, Nat.cast_zero]
    rw [dot_sub_eq]
    constructor
    · exact (hs i hi).1
    · intro h0
      by_contra hmem
      exact absurd h0 (ne_of_lt ((hs i hi).2 hmem))
  · refine ⟨face.getD 0 0, getD_mem_of_lt face (by omega), face.getD 1 0, getD_mem_of_lt face (by omega),
      face.getD 2 0, getD_mem_of_lt face (by omega), ?_⟩
    intro hz
    have hmz : m = V3.zero := by rw [hm]; exact hz
    have hx : StructSpec.sgn m.x = 0 := by rw [hmz]; simp [StructSpec.sgn, V3.zero]
    have hy : StructSpec.sgn m.y = 0 := by rw [hmz]; simp [StructSpec.sgn, V3.zero]
    have hzz : StructSpec.sgn m.z = 0 := by rw [hmz]; simp [StructSpec.sgn, V3.zero]
    rcases hnz with (h1 | h1) | h1
    · exact h1 hx
    · exact h1 hy
    · exact h1 hzz

/-- a vector with a component of non-zero sign has positive length -/
theorem norm_pos_of_sgn (m : V3 ℝ)
    (h : StructSpec.sgn m.x ≠ 0 ∨ StructSpec.sgn m.y ≠ 0 ∨ StructSpec.sgn m.z ≠ 0) : 0 < V3.norm m := by
  rcases (norm_nonneg m).lt_or_eq with h1 | h1
  · exact h1
  · exfalso
    have hz : V3.normSq m = 0 := by rw [← norm_sq_eq, ← h1]; ring
    unfold V3.normSq V3.dot at hz
    have hx : m.x = 0 := by nlinarith [sq_nonneg m.x, sq_nonneg m.y, sq_nonneg m.z]
    have hy : m.y = 0 := by nlinarith [sq_nonneg m.x, sq_nonneg m.y, sq_nonneg m.z]
    have hzz : m.z = 0 := by nlinarith [sq_nonneg m.x, sq_nonneg m.y, sq_nonneg m.z]
    rcases h with h | h | h
    · apply h; rw [hx]; simp [StructSpec.sgn]
    · apply h; rw [hy]; simp [StructSpec.sgn]
    · apply h; rw [hzz]; simp [StructSpec.sgn]

/-- for non-collinear `v0 v1 v2` the normal of `_find_equations` has length 1 -/
theorem face_equation_unit_normal' (v0 v1 v2 : V3 ℝ)
    (hnd : V3.norm (V3.cross (v2 - v1) (v0 - v1)) ≠ 0) :
    V3.normSq (Poly3.faceEquation v0 v1 v2).1 = 1 := by
  simp only [Poly3.faceEquation]
  set n := V3.cross (v2 - v1) (v0 - v1) with hn
  have hsq := norm_sq_eq n
  have : V3.normSq (V3.sdiv n (V3.norm n)) = V3.normSq n / (V3.norm n * V3.norm n) := by
    unfold V3.normSq V3.dot
    simp only [V3.sdiv_x, V3.sdiv_y, V3.sdiv_z]
    field_simp
  rw [this, hsq]
  have : V3.normSq n ≠ 0 := by rw [← hsq]; exact mul_ne_zero hnd hnd
  exact div_self this

/-- **certificate ⇒ the plane equation clause of C07**: for a well-formed face passing
`isSupportingFacet`, the equation `Polyhedron._find_equations` computes from its first three
vertices is a UNIT normal, its plane contains EVERY vertex of the face, and every other vertex is
strictly on the inner (negative) side. -/
theorem equation_of_cert (verts : List (V3 ℝ)) (face : Face)
    (hwf : StructSpec.faceWellFormed verts face = true)
    (h : StructSpec.isSupportingFacet verts face = true) :
    let e := Poly3.faceEquation (verts.getD (face.getD 0 0) V3.zero) (verts.getD (face.getD 1 0) V3.zero)
      (verts.getD (face.getD 2 0) V3.zero)
    V3.normSq e.1 = 1 ∧
    (∀ i, i < verts.length → i ∈ face → StructSpec.OnPlane e.1 e.2 (verts.getD i V3.zero)) ∧
    (∀ i, i < verts.length → i ∉ face → V3.dot e.1 (verts.getD i V3.zero) + e.2 < 0) := by
  have hs := isSupportingFacet_spec verts face h
  simp only at hs
  set v0 := verts.getD (face.getD 0 0) V3.zero with hv0
  set v1 := verts.getD (face.getD 1 0) V3.zero with hv1
  set v2 := verts.getD (face.getD 2 0) V3.zero with hv2
  unfold StructSpec.faceWellFormed at hwf
  simp only [Bool.and_eq_true, decide_eq_true_eq, List.all_eq_true, Bool.or_eq_true, bne_iff_ne,
    ← hv0, ← hv1, ← hv2] at hwf
  obtain ⟨_, hnz⟩ := hwf
  have hpos : 0 < V3.norm (StructSpec.rawNormal v0 v1 v2) :=
    norm_pos_of_sgn _ (by rcases hnz with (h1 | h1) | h1 <;> tauto)
  have hraw := faceEquation_raw v0 v1 v2
  have hunit : V3.normSq (Poly3.faceEquation v0 v1 v2).1 = 1 := by
    apply face_equation_unit_normal'
    rw [hraw]; exact hpos.ne'
  have key : ∀ v : V3 ℝ, V3.dot (Poly3.faceEquation v0 v1 v2).1 v + (Poly3.faceEquation v0 v1 v2).2 =
      V3.dot (StructSpec.rawNormal v0 v1 v2) (v - v0) / V3.norm (StructSpec.rawNormal v0 v1 v2) := by
    intro v
    simp only [Poly3.faceEquation, hraw]
    set n := StructSpec.rawNormal v0 v1 v2
    unfold V3.dot
    simp only [V3.sdiv_x, V3.sdiv_y, V3.sdiv_z, V3.sub_x, V3.sub_y, V3.sub_z]
    field_simp
    ring
  refine ⟨hunit, ?_, ?_⟩
  · intro i hi hmem
    unfold StructSpec.OnPlane
    simp only [Scalar.lit, Scalar.ofNat_real, Nat.cast_zero]
    rw [key, (hs i hi).1 hmem]; simp
  · intro i hi hmem
    rw [key]
    exact div_neg_of_neg_of_pos ((hs i hi).2 hmem) hpos

/-! ### convex combinations: the face is `conv(points) ∩ plane` -/

/-- `Σ wᵢ vᵢ` -/
def combo : List ℝ → List (V3 ℝ) → V3 ℝ
  | w :: ws, v :: vs => V3.smul w v + combo ws vs
  | _, _ => V3.zero

def wsum : List ℝ → List ℝ → ℝ
  | w :: ws, t :: ts => w * t + wsum ws ts
  | _, _ => 0

theorem dot_combo (m : V3 ℝ) (d : ℝ) : ∀ (ws : List ℝ) (vs : List (V3 ℝ)), ws.length = vs.length →
    V3.dot m (combo ws vs) + d * ws.sum = wsum ws (vs.map fun v => V3.dot m v + d)
  | [], [], _ => by simp [combo, wsum, V3.dot, V3.zero]
  | w :: ws, v :: vs, h => by
    have ih := dot_combo m d ws vs (by simpa using h)
    simp only [combo, wsum, List.map_cons, List.sum_cons]
    rw [← ih]
    unfold V3.dot
    simp only [V3.add_x, V3.add_y, V3.add_z, V3.smul_x, V3.smul_y, V3.smul_z]
    ring
  | [], _ :: _, h => by simp at h
  | _ :: _, [], h => by simp at h

theorem wsum_nonpos : ∀ (ws ts : List ℝ), (∀ w ∈ ws, 0 ≤ w) → (∀ t ∈ ts, t ≤ 0) → wsum ws ts ≤ 0
  | [], _, _, _ => by simp [wsum]
  | _ :: _, [], _, _ => by simp [wsum]
  | w :: ws, t :: ts, hw, ht => by
    have ih := wsum_nonpos ws ts (fun x hx => hw x (List.mem_cons_of_mem _ hx))
      (fun x hx => ht x (List.mem_cons_of_mem _ hx))
    simp only [wsum]
    have := mul_nonpos_of_nonneg_of_nonpos (hw w List.mem_cons_self) (ht t List.mem_cons_self)
    linarith

theorem wsum_eq_zero_iff : ∀ (ws ts : List ℝ), ws.length = ts.length → (∀ w ∈ ws, 0 ≤ w) → (∀ t ∈ ts, t ≤ 0) →
    (wsum ws ts = 0 ↔ ∀ i, i < ws.length → ws.getD i 0 = 0 ∨ ts.getD i 0 = 0)
  | [], [], _, _, _ => by simp [wsum]
  | [], _ :: _, h, _, _ => by simp at h
  | _ :: _, [], h, _, _ => by simp at h
  | w :: ws, t :: ts, h, hw, ht => by
    have hw' := fun x hx => hw x (List.mem_cons_of_mem _ hx)
    have ht' := fun x hx => ht x (List.mem_cons_of_mem _ hx)
    have ih := wsum_eq_zero_iff ws ts (by simpa using h) hw' ht'
    have h1 := mul_nonpos_of_nonneg_of_nonpos (hw w List.mem_cons_self) (ht t List.mem_cons_self)
    have h2 := wsum_nonpos ws ts hw' ht'
    simp only [wsum]
    constructor
    · intro hz i hi
      have hz1 : w * t = 0 := by linarith
      have hz2 : wsum ws ts = 0 := by linarith
      cases i with
      | zero => simpa using mul_eq_zero.mp hz1
      | succ i =>
        simp only [List.getD_cons_succ]
        exact ih.mp hz2 i (by simpa using hi)
    · intro hall
      have h0 := hall 0 (by simp)
      simp only [List.getD_cons_zero] at h0
      have hz1 : w * t = 0 := mul_eq_zero.mpr h0
      have hz2 : wsum ws ts = 0 := ih.mpr (fun i hi => by
        have := hall (i + 1) (by simpa using hi)
        simpa using this)
      linarith

/-- **a facet in the sense of `IsHullFacet` is the exposed face `conv(points) ∩ plane`**: every
convex combination of the points is on the non-positive side of the facet's plane, and it lies on
the plane exactly when all its weight is on vertices of the face. -/
theorem hullFacet_exposed (verts : List (V3 ℝ)) (face : Face) (h : StructSpec.IsHullFacet verts face) :
    ∃ (m : V3 ℝ) (d : ℝ), ∀ ws : List ℝ, ws.length = verts.length → (∀ w ∈ ws, 0 ≤ w) → ws.sum = 1 →
      V3.dot m (combo ws verts) + d ≤ 0 ∧
      (V3.dot m (combo ws verts) + d = 0 ↔ ∀ i, i < verts.length → i ∉ face → ws.getD i 0 = 0) := by
  obtain ⟨m, d, hsup, hiff, _⟩ := h
  simp only [Scalar.lit, Scalar.ofNat_real, Nat.cast_zero] at hsup hiff
  refine ⟨m, d, ?_⟩
  intro ws hlen hw hsum
  have hd := dot_combo m d ws verts hlen
  rw [hsum, mul_one] at hd
  have hts : ∀ t ∈ verts.map (fun v => V3.dot m v + d), t ≤ 0 := by
    intro t ht
    obtain ⟨v, hv, rfl⟩ := List.mem_map.mp ht
    obtain ⟨i, hi, rfl⟩ := List.mem_iff_getElem.mp hv
    have := hsup i hi
    simpa [List.getD_eq_getElem?_getD, hi] using this
  rw [hd]
  refine ⟨wsum_nonpos _ _ hw hts, ?_⟩
  rw [wsum_eq_zero_iff _ _ (by simpa using hlen) hw hts]
  constructor
  · intro hall i hi hmem
    rcases hall i (by omega) with h0 | h0
    · exact h0
    · exfalso
      apply hmem
      apply (hiff i hi).mpr
      simpa [List.getD_eq_getElem?_getD, List.getElem?_map, hi] using h0
  · intro hall i hi
    rw [hlen] at hi
    by_cases hmem : i ∈ face
    · right
      have := (hiff i hi).mp hmem
      simpa [List.getD_eq_getElem?_getD, List.getElem?_map, hi] using this
    · left; exact hall i hi hmem

end StructLemmas
