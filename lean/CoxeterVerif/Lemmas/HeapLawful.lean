import CoxeterVerif.Lemmas.HeapValues
import CoxeterVerif.Lemmas.Covariance
import CoxeterVerif.Lemmas.Mutable
import CoxeterVerif.Props.C01
import CoxeterVerif.Props.C02
/-!
  # C16 — `Spec.Lawful` discharged for the concrete getter models (polyhedra)

  `Spec.Lawful M` asks the externals of the heap machine to commute with translations for EVERY array.
  The concrete getter models (C01 `CP.centroid / CP.volume`, C02 `Poly3.centroid`) do so exactly on the
  arrays that carry the certificate their own properties need (a closed surface bounding tetrahedra,
  non-zero / positive volume) — on a degenerate array the formulas divide by zero. So the externals
  are instantiated with the concrete model ON certified arrays and with an arbitrary equivariant
  function (the first row) elsewhere; the certificate is translation invariant, hence the law holds
  for every array, and on every certified array the external IS the concrete getter model
  (`polyhedronMeas_cen`, `convexMeas_cenV`, `convexMeas_vol`).
-/
namespace C16
open Scalar
set_option maxRecDepth 4000
noncomputable section

/-- the rows of an `(N,3)` array -/
def rowsOf : Arr ℝ → List (V3 ℝ)
  | x :: y :: z :: r => ⟨x, y, z⟩ :: rowsOf r
  | _ => []

theorem rowsOf_shiftRows (δ : V3 ℝ) : ∀ l : Arr ℝ, rowsOf (shiftRows δ l) = (rowsOf l).map (· + δ)
  | x :: y :: z :: r => by
      simp only [shiftRows, rowsOf, List.map_cons, rowsOf_shiftRows δ r]
      rfl
  | [] => rfl
  | [_] => rfl
  | [_, _] => rfl

/-- the first row: an equivariant stand-in used where no certificate holds -/
def firstRow : Arr ℝ → V3 ℝ
  | x :: y :: z :: _ => ⟨x, y, z⟩
  | _ => V3.zero

theorem firstRow_shift (δ : V3 ℝ) (vs : Arr ℝ) (h : 3 ≤ vs.length) : firstRow (shiftRows δ vs) = firstRow vs + δ := by
  match vs, h with
  | x :: y :: z :: r, _ => rfl

theorem map_add_neg (t : V3 ℝ) (l : List (V3 ℝ)) : (l.map (· + t)).map (· + (-t)) = l := by
  rw [List.map_map]
  conv_rhs => rw [← List.map_id l]
  apply List.map_congr_left
  intro v _
  obtain ⟨a, b, c⟩ := v; obtain ⟨d, e, f⟩ := t
  show (⟨a + d + -d, b + e + -e, c + f + -f⟩ : V3 ℝ) = ⟨a, b, c⟩
  congr 1 <;> ring

/-! ## closed-surface certificate (C01 / C02) -/

/-- the simplices address existing rows and the surface they gather bounds a set of tetrahedra -/
def SolidCert (simp : List (Nat × Nat × Nat)) (pos : Bool) (vs : List (V3 ℝ)) : Prop :=
  InRange vs.length simp ∧
    ∃ Ts : List (Tet ℝ), ChainEq (Mut.trisOf vs simp) (Ts.flatMap Tet.bdry) ∧
      (if pos then 0 < Spec.vol Ts else Spec.vol Ts ≠ 0)

theorem chain_add' {S : List (Tri ℝ)} {Ts : List (Tet ℝ)} (t : V3 ℝ)
    (h : ChainEq S (Ts.flatMap Tet.bdry)) : ChainEq (addS t S) ((addT t Ts).flatMap Tet.bdry) := by
  have := ChainEq.map (· + t) h
  rwa [← flatMap_bdry_map] at this

theorem SolidCert.add {simp : List (Nat × Nat × Nat)} {pos : Bool} {vs : List (V3 ℝ)} (h : SolidCert simp pos vs)
    (t : V3 ℝ) : SolidCert simp pos (vs.map (· + t)) := by
  obtain ⟨hr, Ts, hc, hv⟩ := h
  refine ⟨by rw [List.length_map]; exact hr, addT t Ts, ?_, ?_⟩
  · rw [trisOf_map_add t vs simp hr]; exact chain_add' t hc
  · rw [Spec.vol_add]; exact hv

theorem solidCert_add_iff (simp : List (Nat × Nat × Nat)) (pos : Bool) (vs : List (V3 ℝ)) (t : V3 ℝ) :
    SolidCert simp pos (vs.map (· + t)) ↔ SolidCert simp pos vs :=
  ⟨fun h => by have := h.add (-t); rwa [map_add_neg] at this, fun h => h.add t⟩

/-- C02: `Poly3.centroid` of the gathered surface moves with the rows -/
theorem poly3_centroid_add {simp : List (Nat × Nat × Nat)} {vs : List (V3 ℝ)} (h : SolidCert simp false vs)
    (t : V3 ℝ) :
    Poly3.centroid (Mut.trisOf (vs.map (· + t)) simp) = Poly3.centroid (Mut.trisOf vs simp) + t := by
  obtain ⟨hr, Ts, hc, hv⟩ := h
  simp only [Bool.false_eq_true, if_false] at hv
  have hv' : Spec.vol (addT t Ts) ≠ 0 := by rw [Spec.vol_add]; exact hv
  rw [trisOf_map_add t vs simp hr, poly_centroid_exact (chain_add' t hc) hv', poly_centroid_exact hc hv,
    Spec.centroid_add Ts t hv]

/-- C01: `CP.volume` of the gathered surface is translation invariant -/
theorem cp_volume_add {simp : List (Nat × Nat × Nat)} {vs : List (V3 ℝ)} (h : SolidCert simp true vs) (t : V3 ℝ) :
    CP.volume (Mut.trisOf (vs.map (· + t)) simp) = CP.volume (Mut.trisOf vs simp) := by
  obtain ⟨hr, Ts, hc, hv⟩ := h
  simp only [if_true] at hv
  unfold CP.volume
  rw [trisOf_map_add t vs simp hr, cp_volume_exact (chain_add' t hc), cp_volume_exact hc, Spec.vol_add]

/-- C01: `CP.centroid` with the shape's own volume moves with the rows -/
theorem cp_centroid_add {simp : List (Nat × Nat × Nat)} {vs : List (V3 ℝ)} (h : SolidCert simp true vs) (t : V3 ℝ) :
    CP.centroid (Mut.trisOf (vs.map (· + t)) simp) (CP.volume (Mut.trisOf vs simp))
      = CP.centroid (Mut.trisOf vs simp) (CP.volume (Mut.trisOf vs simp)) + t := by
  have hvol := cp_volume_add h t
  obtain ⟨hr, Ts, hc, hv⟩ := h
  simp only [if_true] at hv
  have hv' : 0 < Spec.vol (addT t Ts) := by rw [Spec.vol_add]; exact hv
  rw [← hvol, trisOf_map_add t vs simp hr, cp_centroid_exact (chain_add' t hc) hv', ← trisOf_map_add t vs simp hr,
    hvol, cp_centroid_exact hc hv, Spec.centroid_add Ts t hv.ne']

open Classical in
/-- externals of a `Polyhedron` with surface simplices `simp`: the centroid getter is C02's
`Poly3.centroid` of the gathered triangles on every certified array -/
def polyhedronMeas (M0 : Meas ℝ) (simp : List (Nat × Nat × Nat)) : Meas ℝ :=
  { M0 with
    cen := fun vs _ => if SolidCert simp false (rowsOf vs) then Poly3.centroid (Mut.trisOf (rowsOf vs) simp)
      else firstRow vs
    cenV := fun _ vs => firstRow vs
    vol := fun _ => 0 }

open Classical in
/-- externals of a `ConvexPolyhedron` (also the core of a spheropolyhedron): `_calculate_signed_volume`
and `_centroid_from_triangulated_surface` are C01's `CP.volume`, `CP.centroid` on every certified array -/
def convexMeas (M0 : Meas ℝ) (simp : List (Nat × Nat × Nat)) : Meas ℝ :=
  { M0 with
    cen := fun vs _ => firstRow vs
    cenV := fun v vs => if SolidCert simp true (rowsOf vs) then CP.centroid (Mut.trisOf (rowsOf vs) simp) v
      else firstRow vs
    vol := fun vs => if SolidCert simp true (rowsOf vs) then CP.volume (Mut.trisOf (rowsOf vs) simp) else 0 }

theorem polyhedronMeas_cen (M0 : Meas ℝ) (simp : List (Nat × Nat × Nat)) (vs n : Arr ℝ)
    (h : SolidCert simp false (rowsOf vs)) :
    (polyhedronMeas M0 simp).cen vs n = Poly3.centroid (Mut.trisOf (rowsOf vs) simp) := by
  simp [polyhedronMeas, h]

theorem convexMeas_vol (M0 : Meas ℝ) (simp : List (Nat × Nat × Nat)) (vs : Arr ℝ) (h : SolidCert simp true (rowsOf vs)) :
    (convexMeas M0 simp).vol vs = CP.volume (Mut.trisOf (rowsOf vs) simp) := by
  simp [convexMeas, h]

theorem convexMeas_cenV (M0 : Meas ℝ) (simp : List (Nat × Nat × Nat)) (v : ℝ) (vs : Arr ℝ)
    (h : SolidCert simp true (rowsOf vs)) :
    (convexMeas M0 simp).cenV v vs = CP.centroid (Mut.trisOf (rowsOf vs) simp) v := by
  simp [convexMeas, h]

open Classical in
/-- **C02's centroid getter is lawful** -/
theorem lawful_polyhedron (M0 : Meas ℝ) (simp : List (Nat × Nat × Nat)) : Spec.Lawful (polyhedronMeas M0 simp) where
  cen_shift := by
    intro δ vs n h
    show (if SolidCert simp false (rowsOf (shiftRows δ vs)) then _ else _) = (if SolidCert simp false (rowsOf vs) then _ else _) + δ
    rw [rowsOf_shiftRows]
    by_cases hc : SolidCert simp false (rowsOf vs)
    · rw [if_pos hc, if_pos ((solidCert_add_iff simp false _ δ).mpr hc)]; exact poly3_centroid_add hc δ
    · rw [if_neg hc, if_neg (fun h' => hc ((solidCert_add_iff simp false _ δ).mp h'))]; exact firstRow_shift δ vs h
  cenV_shift := fun δ vs h => firstRow_shift δ vs h
  vol_shift := fun _ _ => rfl

open Classical in
/-- **C01's volume and centroid getters are lawful** -/
theorem lawful_convex_polyhedron (M0 : Meas ℝ) (simp : List (Nat × Nat × Nat)) : Spec.Lawful (convexMeas M0 simp) where
  cen_shift := fun δ vs _ h => firstRow_shift δ vs h
  cenV_shift := by
    intro δ vs h
    show (if SolidCert simp true (rowsOf (shiftRows δ vs)) then
        CP.centroid (Mut.trisOf (rowsOf (shiftRows δ vs)) simp) ((convexMeas M0 simp).vol vs) else firstRow (shiftRows δ vs))
      = (if SolidCert simp true (rowsOf vs) then CP.centroid (Mut.trisOf (rowsOf vs) simp) ((convexMeas M0 simp).vol vs)
          else firstRow vs) + δ
    rw [rowsOf_shiftRows]
    by_cases hc : SolidCert simp true (rowsOf vs)
    · rw [if_pos hc, if_pos ((solidCert_add_iff simp true _ δ).mpr hc), convexMeas_vol M0 simp vs hc]
      exact cp_centroid_add hc δ
    · rw [if_neg hc, if_neg (fun h' => hc ((solidCert_add_iff simp true _ δ).mp h'))]; exact firstRow_shift δ vs h
  vol_shift := by
    intro δ vs
    show (if SolidCert simp true (rowsOf (shiftRows δ vs)) then CP.volume (Mut.trisOf (rowsOf (shiftRows δ vs)) simp) else 0)
      = (if SolidCert simp true (rowsOf vs) then CP.volume (Mut.trisOf (rowsOf vs) simp) else 0)
    rw [rowsOf_shiftRows]
    by_cases hc : SolidCert simp true (rowsOf vs)
    · rw [if_pos hc, if_pos ((solidCert_add_iff simp true _ δ).mpr hc)]; exact cp_volume_add hc δ
    · rw [if_neg hc, if_neg (fun h' => hc ((solidCert_add_iff simp true _ δ).mp h'))]

end
end C16
