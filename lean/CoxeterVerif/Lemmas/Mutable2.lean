import CoxeterVerif.Lemmas.Mutable
import CoxeterVerif.Model.Mutable2
/-!
  Lemmas behind the extended state machines of C03 / C08 (`Model/Mutable2.lean`):
  orthogonal matrices acting on row vectors, re-orientation of index triples, translation law of
  the curl-theorem centroid on closed surfaces, homogeneity of the polygon measures.
-/
open Scalar Mut
set_option maxRecDepth 4000
noncomputable section

namespace Mut

/-! ### orthogonal matrices (`QᵀQ = 1`) acting on row vectors -/

/-- the columns of `Q` are orthonormal: `QᵀQ = 1` -/
structure IsOrth (Q : M3 ℝ) : Prop where
  c11 : Q.xx * Q.xx + Q.yx * Q.yx + Q.zx * Q.zx = 1
  c22 : Q.xy * Q.xy + Q.yy * Q.yy + Q.zy * Q.zy = 1
  c33 : Q.xz * Q.xz + Q.yz * Q.yz + Q.zz * Q.zz = 1
  c12 : Q.xx * Q.xy + Q.yx * Q.yy + Q.zx * Q.zy = 0
  c13 : Q.xx * Q.xz + Q.yx * Q.yz + Q.zx * Q.zz = 0
  c23 : Q.xy * Q.xz + Q.yy * Q.yz + Q.zy * Q.zz = 0

theorem mdet_eq (Q : M3 ℝ) : mdet Q =
    Q.xx * (Q.yy * Q.zz - Q.yz * Q.zy) + Q.xy * (Q.yz * Q.zx - Q.yx * Q.zz)
      + Q.xz * (Q.yx * Q.zy - Q.yy * Q.zx) := by
  simp only [mdet, V3.det3, V3.dot, V3.cross]

namespace IsOrth
variable {Q : M3 ℝ} (h : IsOrth Q)
include h

/-- `det(Q)² = det(QᵀQ) = 1` -/
theorem det_sq : mdet Q * mdet Q = 1 := by
  obtain ⟨c11, c22, c33, c12, c13, c23⟩ := h
  obtain ⟨xx, xy, xz, yx, yy, yz, zx, zy, zz⟩ := Q
  rw [mdet_eq]
  simp only at *
  linear_combination
    ((xy * xy + yy * yy + zy * zy) * (xz * xz + yz * yz + zz * zz)
        - (xy * xz + yy * yz + zy * zz) * (xy * xz + yy * yz + zy * zz)) * c11
    + (xz * xz + yz * yz + zz * zz) * c22 + c33
    - (xy * xz + yy * yz + zy * zz) * c23
    - ((xx * xy + yx * yy + zx * zy) * (xz * xz + yz * yz + zz * zz)
        - (xy * xz + yy * yz + zy * zz) * (xx * xz + yx * yz + zx * zz)) * c12
    + ((xx * xy + yx * yy + zx * zy) * (xy * xz + yy * yz + zy * zz)
        - (xy * xy + yy * yy + zy * zy) * (xx * xz + yx * yz + zx * zz)) * c13

theorem det_pm : mdet Q = 1 ∨ mdet Q = -1 := by
  have := h.det_sq
  have h2 : (mdet Q - 1) * (mdet Q + 1) = 0 := by linear_combination this
  rcases mul_eq_zero.mp h2 with h3 | h3
  · left; linarith
  · right; linarith

/-- the cofactor matrix of an orthogonal matrix is `det Q · Q` -/
theorem cof_eq :
    Q.yy * Q.zz - Q.yz * Q.zy = mdet Q * Q.xx ∧ -(Q.yx * Q.zz - Q.yz * Q.zx) = mdet Q * Q.xy ∧
    Q.yx * Q.zy - Q.yy * Q.zx = mdet Q * Q.xz ∧ -(Q.xy * Q.zz - Q.xz * Q.zy) = mdet Q * Q.yx ∧
    Q.xx * Q.zz - Q.xz * Q.zx = mdet Q * Q.yy ∧ -(Q.xx * Q.zy - Q.xy * Q.zx) = mdet Q * Q.yz ∧
    Q.xy * Q.yz - Q.xz * Q.yy = mdet Q * Q.zx ∧ -(Q.xx * Q.yz - Q.xz * Q.yx) = mdet Q * Q.zy ∧
    Q.xx * Q.yy - Q.xy * Q.yx = mdet Q * Q.zz := by
  obtain ⟨c11, c22, c33, c12, c13, c23⟩ := h
  obtain ⟨xx, xy, xz, yx, yy, yz, zx, zy, zz⟩ := Q
  rw [mdet_eq]
  simp only at *
  refine ⟨?_, ?_, ?_, ?_, ?_, ?_, ?_, ?_, ?_⟩
  · linear_combination -((yy * zz - yz * zy) * c11 + (-(yx * zz - yz * zx)) * c12 + (yx * zy - yy * zx) * c13)
  · linear_combination -((yy * zz - yz * zy) * c12 + (-(yx * zz - yz * zx)) * c22 + (yx * zy - yy * zx) * c23)
  · linear_combination -((yy * zz - yz * zy) * c13 + (-(yx * zz - yz * zx)) * c23 + (yx * zy - yy * zx) * c33)
  · linear_combination -((-(xy * zz - xz * zy)) * c11 + (xx * zz - xz * zx) * c12 + (-(xx * zy - xy * zx)) * c13)
  · linear_combination -((-(xy * zz - xz * zy)) * c12 + (xx * zz - xz * zx) * c22 + (-(xx * zy - xy * zx)) * c23)
  · linear_combination -((-(xy * zz - xz * zy)) * c13 + (xx * zz - xz * zx) * c23 + (-(xx * zy - xy * zx)) * c33)
  · linear_combination -((xy * yz - xz * yy) * c11 + (-(xx * yz - xz * yx)) * c12 + (xx * yy - xy * yx) * c13)
  · linear_combination -((xy * yz - xz * yy) * c12 + (-(xx * yz - xz * yx)) * c22 + (xx * yy - xy * yx) * c23)
  · linear_combination -((xy * yz - xz * yy) * c13 + (-(xx * yz - xz * yx)) * c23 + (xx * yy - xy * yx) * c33)

/-- the rows are orthonormal as well: `Q Qᵀ = 1` -/
theorem rows : Q.xx * Q.xx + Q.xy * Q.xy + Q.xz * Q.xz = 1 ∧ Q.yx * Q.yx + Q.yy * Q.yy + Q.yz * Q.yz = 1 ∧
    Q.zx * Q.zx + Q.zy * Q.zy + Q.zz * Q.zz = 1 ∧ Q.xx * Q.yx + Q.xy * Q.yy + Q.xz * Q.yz = 0 ∧
    Q.xx * Q.zx + Q.xy * Q.zy + Q.xz * Q.zz = 0 ∧ Q.yx * Q.zx + Q.yy * Q.zy + Q.yz * Q.zz = 0 := by
  have hd := h.det_sq
  obtain ⟨h1, h2, h3, h4, h5, h6, h7, h8, h9⟩ := h.cof_eq
  have hdet := mdet_eq Q
  generalize mdet Q = d at *
  obtain ⟨xx, xy, xz, yx, yy, yz, zx, zy, zz⟩ := Q
  simp only at *
  -- `d · (row_i · row_j) = d · δ_ij` by Laplace expansion, then cancel `d` with `d² = 1`
  have e11 : d * (xx * xx + xy * xy + xz * xz) = d := by
    linear_combination -hdet - (xx * h1 + xy * h2 + xz * h3)
  have e22 : d * (yx * yx + yy * yy + yz * yz) = d := by
    linear_combination -hdet - (yx * h4 + yy * h5 + yz * h6)
  have e33 : d * (zx * zx + zy * zy + zz * zz) = d := by
    linear_combination -hdet - (zx * h7 + zy * h8 + zz * h9)
  have e12 : d * (xx * yx + xy * yy + xz * yz) = 0 := by
    linear_combination -(xx * h4 + xy * h5 + xz * h6)
  have e13 : d * (xx * zx + xy * zy + xz * zz) = 0 := by
    linear_combination -(xx * h7 + xy * h8 + xz * h9)
  have e23 : d * (yx * zx + yy * zy + yz * zz) = 0 := by
    linear_combination -(yx * h7 + yy * h8 + yz * h9)
  refine ⟨?_, ?_, ?_, ?_, ?_, ?_⟩
  · linear_combination d * e11 + (1 - (xx * xx + xy * xy + xz * xz)) * hd
  · linear_combination d * e22 + (1 - (yx * yx + yy * yy + yz * yz)) * hd
  · linear_combination d * e33 + (1 - (zx * zx + zy * zy + zz * zz)) * hd
  · linear_combination d * e12 + (0 - (xx * yx + xy * yy + xz * yz)) * hd
  · linear_combination d * e13 + (0 - (xx * zx + xy * zy + xz * zz)) * hd
  · linear_combination d * e23 + (0 - (yx * zx + yy * zy + yz * zz)) * hd

/-- `(uQ)·(vQ) = u·v` -/
theorem dot_rowMul (u v : V3 ℝ) : V3.dot (rowMul u Q) (rowMul v Q) = V3.dot u v := by
  obtain ⟨r11, r22, r33, r12, r13, r23⟩ := h.rows
  obtain ⟨ux, uy, uz⟩ := u; obtain ⟨vx, vy, vz⟩ := v
  simp only [rowMul, V3.dot]
  linear_combination (ux * vx) * r11 + (uy * vy) * r22 + (uz * vz) * r33 + (ux * vy + uy * vx) * r12 +
    (ux * vz + uz * vx) * r13 + (uy * vz + uz * vy) * r23

theorem normSq_rowMul (u : V3 ℝ) : V3.normSq (rowMul u Q) = V3.normSq u := h.dot_rowMul u u

theorem norm_rowMul (u : V3 ℝ) : V3.norm (rowMul u Q) = V3.norm u := by
  unfold V3.norm; rw [h.normSq_rowMul]

end IsOrth

theorem rowMul_sub (Q : M3 ℝ) (u v : V3 ℝ) : rowMul u Q - rowMul v Q = rowMul (u - v) Q := by
  obtain ⟨ux, uy, uz⟩ := u; obtain ⟨vx, vy, vz⟩ := v
  ext <;> simp only [rowMul, V3.sub_x, V3.sub_y, V3.sub_z] <;> ring

theorem rowMul_zero (Q : M3 ℝ) : rowMul (V3.zero : V3 ℝ) Q = V3.zero := by
  ext <;> simp [rowMul, V3.zero, Scalar.lit]

/-- `det(aQ, bQ, cQ) = det Q · det(a, b, c)` -/
theorem det3_rowMul (Q : M3 ℝ) (a b c : V3 ℝ) :
    V3.det3 (rowMul a Q) (rowMul b Q) (rowMul c Q) = mdet Q * V3.det3 a b c := by
  obtain ⟨ax, ay, az⟩ := a; obtain ⟨bx, b_y, bz⟩ := b; obtain ⟨cx, cy, cz⟩ := c
  simp only [rowMul, mdet, V3.det3, V3.dot, V3.cross]; ring

/-- negating the first column negates the determinant -/
theorem mdet_negCol0 (Q : M3 ℝ) : mdet (negCol0 Q) = -mdet Q := by
  simp only [negCol0, mdet, V3.det3, V3.dot, V3.cross, Scalar.lit, Scalar.ofNat_real]; push_cast; ring

theorem isOrth_negCol0 {Q : M3 ℝ} (h : IsOrth Q) : IsOrth (negCol0 Q) := by
  obtain ⟨c11, c22, c33, c12, c13, c23⟩ := h
  constructor <;> simp only [negCol0, Scalar.lit, Scalar.ofNat_real] <;> push_cast
  · linear_combination c11
  · exact c22
  · exact c33
  · linear_combination -c12
  · linear_combination -c13
  · exact c23

theorem isOrth_fixHanded {P : M3 ℝ} (h : IsOrth P) : IsOrth (fixHanded P) := by
  unfold fixHanded; split_ifs
  · exact isOrth_negCol0 h
  · exact h

/-- **the handedness correction yields a proper rotation**: from `det P = ±1` to `det = 1` -/
theorem mdet_fixHanded {P : M3 ℝ} (h : mdet P = 1 ∨ mdet P = -1) : mdet (fixHanded P) = 1 := by
  unfold fixHanded
  rcases h with h | h
  · have : ¬ (mdet P < (lit 0 : ℝ)) := by rw [h]; simp [Scalar.lit]
    rw [if_neg this]; exact h
  · have : mdet P < (lit 0 : ℝ) := by rw [h]; simp [Scalar.lit]
    rw [if_pos this, mdet_negCol0, h]; norm_num

/-- Lagrange: `|u × v|² = |u|²|v|² − (u·v)²` -/
theorem normSq_cross (u v : V3 ℝ) :
    V3.normSq (V3.cross u v) = V3.normSq u * V3.normSq v - V3.dot u v * V3.dot u v := by
  obtain ⟨ux, uy, uz⟩ := u; obtain ⟨vx, vy, vz⟩ := v
  simp only [V3.normSq, V3.dot, V3.cross]; ring

theorem triArea_rowMul {Q : M3 ℝ} (h : IsOrth Q) (t : Tri ℝ) :
    CP.triArea (t.map (rowMul · Q)) = CP.triArea t := by
  unfold CP.triArea V3.norm
  simp only [Tri.map, rowMul_sub, normSq_cross, h.normSq_rowMul, h.dot_rowMul]

theorem vget_map_rowMul (Q : M3 ℝ) (vs : List (V3 ℝ)) (i : Nat) :
    vget (vs.map (rowMul · Q)) i = rowMul (vget vs i) Q := by
  unfold vget
  by_cases h : i < vs.length
  · simp [List.getD, h]
  · have h' : vs.length ≤ i := by omega
    simp only [List.getD, List.getElem?_map, List.getElem?_eq_none h', Option.map_none, Option.getD_none]
    exact (rowMul_zero Q).symm

theorem trisOf_map_rowMul (Q : M3 ℝ) (vs : List (V3 ℝ)) (simp : List (Nat × Nat × Nat)) :
    trisOf (vs.map (rowMul · Q)) simp = (trisOf vs simp).map (Tri.map (rowMul · Q)) := by
  unfold trisOf
  simp only [List.map_map]
  apply List.map_congr_left
  intro s _
  simp only [Function.comp, Tri.map, vget_map_rowMul]

theorem signedVolume_rowMul (Q : M3 ℝ) (S : List (Tri ℝ)) :
    CP.signedVolume (S.map (Tri.map (rowMul · Q))) = mdet Q * CP.signedVolume S := by
  unfold CP.signedVolume
  simp only [Scalar.sum_real, List.map_map]
  induction S with
  | nil => simp
  | cons t S ih =>
    simp only [List.map_cons, List.sum_cons, ih, Function.comp, Tri.map, det3_rowMul]; ring

theorem surfaceArea_rowMul {Q : M3 ℝ} (h : IsOrth Q) (S : List (Tri ℝ)) :
    CP.surfaceArea (S.map (Tri.map (rowMul · Q))) = CP.surfaceArea S := by
  unfold CP.surfaceArea
  simp only [Scalar.sum_real, List.map_map]
  congr 1
  apply List.map_congr_left
  intro t _
  exact triArea_rowMul h t

/-! ### re-orientation of index triples (`_sort_simplices`) -/

def rotIdx (a : Nat × Nat × Nat) : Nat × Nat × Nat := (a.2.1, a.2.2, a.1)
def revIdx (a : Nat × Nat × Nat) : Nat × Nat × Nat := (a.2.2, a.2.1, a.1)
/-- `b` is a cyclic rotation of the triple `a` -/
def EvenPerm (a b : Nat × Nat × Nat) : Prop := b = a ∨ b = rotIdx a ∨ b = rotIdx (rotIdx a)
/-- `b` is a reflection of the triple `a` -/
def OddPerm (a b : Nat × Nat × Nat) : Prop := EvenPerm (revIdx a) b

/-- **contract of `_sort_simplices`** (the breadth-first re-orientation is an external input):
every new index triple is the old triple of the same row, all rows re-oriented alike (all by an
even permutation, or all by an odd one), and the result has non-negative signed volume. -/
structure SortContract (vs' : List (V3 ℝ)) (simp simp' : List (Nat × Nat × Nat)) : Prop where
  orient : List.Forall₂ EvenPerm simp simp' ∨ List.Forall₂ OddPerm simp simp'
  nonneg : 0 ≤ CP.signedVolume (trisOf vs' simp')

def triOf (vs : List (V3 ℝ)) (a : Nat × Nat × Nat) : Tri ℝ := ⟨vget vs a.1, vget vs a.2.1, vget vs a.2.2⟩

theorem trisOf_eq (vs : List (V3 ℝ)) (simp : List (Nat × Nat × Nat)) : trisOf vs simp = simp.map (triOf vs) := rfl
theorem triOf_rot (vs : List (V3 ℝ)) (a : Nat × Nat × Nat) : triOf vs (rotIdx a) = (triOf vs a).rot := rfl
theorem triOf_rev (vs : List (V3 ℝ)) (a : Nat × Nat × Nat) : triOf vs (revIdx a) = (triOf vs a).rev := rfl

theorem trisOf_map_revIdx (vs : List (V3 ℝ)) (simp : List (Nat × Nat × Nat)) :
    trisOf vs (simp.map revIdx) = (trisOf vs simp).map Tri.rev := by
  simp only [trisOf_eq, List.map_map]; rfl

theorem triArea_rot (t : Tri ℝ) : CP.triArea t.rot = CP.triArea t := by
  obtain ⟨⟨ax,ay,az⟩,⟨bx,b_y,bz⟩,⟨cx,cy,cz⟩⟩ := t
  unfold CP.triArea V3.norm
  congr 2
  unfold_model; ring

theorem triArea_rev (t : Tri ℝ) : CP.triArea t.rev = CP.triArea t := by
  obtain ⟨⟨ax,ay,az⟩,⟨bx,b_y,bz⟩,⟨cx,cy,cz⟩⟩ := t
  unfold CP.triArea V3.norm
  congr 2
  unfold_model; ring

theorem triArea_even {vs : List (V3 ℝ)} {a b : Nat × Nat × Nat} (h : EvenPerm a b) :
    CP.triArea (triOf vs b) = CP.triArea (triOf vs a) := by
  rcases h with rfl | rfl | rfl
  · rfl
  · rw [triOf_rot, triArea_rot]
  · rw [triOf_rot, triOf_rot, triArea_rot, triArea_rot]

theorem triArea_odd {vs : List (V3 ℝ)} {a b : Nat × Nat × Nat} (h : OddPerm a b) :
    CP.triArea (triOf vs b) = CP.triArea (triOf vs a) := by
  rw [triArea_even h, triOf_rev, triArea_rev]

/-- the total area does not see the orientation of the triangles -/
theorem surfaceArea_reorient (vs : List (V3 ℝ)) {simp simp' : List (Nat × Nat × Nat)}
    (h : List.Forall₂ EvenPerm simp simp' ∨ List.Forall₂ OddPerm simp simp') :
    CP.surfaceArea (trisOf vs simp') = CP.surfaceArea (trisOf vs simp) := by
  unfold CP.surfaceArea
  simp only [Scalar.sum_real, trisOf_eq, List.map_map]
  rcases h with h | h
  · induction h with
    | nil => rfl
    | cons hab _ ih => simp only [List.map_cons, List.sum_cons, Function.comp, triArea_even hab, ih]
  · induction h with
    | nil => rfl
    | cons hab _ ih => simp only [List.map_cons, List.sum_cons, Function.comp, triArea_odd hab, ih]

theorem inRange_reorient {n : Nat} {simp simp' : List (Nat × Nat × Nat)}
    (h : List.Forall₂ EvenPerm simp simp' ∨ List.Forall₂ OddPerm simp simp') (hr : InRange n simp) :
    InRange n simp' := by
  have key : ∀ a b : Nat × Nat × Nat, (EvenPerm a b ∨ OddPerm a b) →
      (a.1 < n ∧ a.2.1 < n ∧ a.2.2 < n) → (b.1 < n ∧ b.2.1 < n ∧ b.2.2 < n) := by
    rintro ⟨a1, a2, a3⟩ b hab ⟨h1, h2, h3⟩
    rcases hab with (rfl | rfl | rfl) | (rfl | rfl | rfl) <;> simp [rotIdx, revIdx, *]
  have h' : List.Forall₂ (fun a b => EvenPerm a b ∨ OddPerm a b) simp simp' := by
    rcases h with h | h
    · exact h.imp (fun _ _ hab => Or.inl hab)
    · exact h.imp (fun _ _ hab => Or.inr hab)
  clear h
  induction h' with
  | nil => intro s hs; cases hs
  | @cons a b l l' hab _ ih =>
    intro s hs
    rcases List.mem_cons.mp hs with rfl | hs
    · exact key a _ hab (hr a List.mem_cons_self)
    · exact ih (fun t ht => hr t (List.mem_cons_of_mem _ ht)) s hs

theorem ChainEq.cons' (t : Tri ℝ) {S T : List (Tri ℝ)} (h : ChainEq S T) : ChainEq (t :: S) (t :: T) :=
  ChainEq.append (ChainEq.refl [t]) h

/-- all rows rotated: the same 2-chain -/
theorem chainEq_even (vs : List (V3 ℝ)) {simp simp' : List (Nat × Nat × Nat)}
    (h : List.Forall₂ EvenPerm simp simp') : ChainEq (trisOf vs simp') (trisOf vs simp) := by
  simp only [trisOf_eq]
  induction h with
  | nil => exact ChainEq.refl _
  | @cons a b l l' hab _ ih =>
    simp only [List.map_cons]
    have ht := ChainEq.cons' (triOf vs a) ih
    rcases hab with rfl | rfl | rfl
    · exact ht
    · rw [triOf_rot]; exact (ChainEq.rot _ _).trans ht
    · rw [triOf_rot, triOf_rot]
      exact ((ChainEq.rot _ _).trans (ChainEq.rot _ _)).trans ht

/-- all rows reflected: the reversed 2-chain -/
theorem chainEq_odd (vs : List (V3 ℝ)) {simp simp' : List (Nat × Nat × Nat)}
    (h : List.Forall₂ OddPerm simp simp') :
    ChainEq (trisOf vs simp') ((trisOf vs simp).map Tri.rev) := by
  rw [← trisOf_map_revIdx]
  apply chainEq_even
  exact (List.forall₂_map_left_iff).mpr h

theorem sumOver_map_rev {φ : Tri ℝ → ℝ} (hφ : OddCyclic φ) (S : List (Tri ℝ)) :
    sumOver φ (S.map Tri.rev) = -sumOver φ S := by
  unfold sumOver
  induction S with
  | nil => simp
  | cons t S ih => simp only [List.map_cons, List.sum_cons, ih, hφ.rev]; ring

theorem chainEq_map_rev {S T : List (Tri ℝ)} (h : ChainEq S T) : ChainEq (S.map Tri.rev) (T.map Tri.rev) :=
  fun φ hφ => by rw [sumOver_map_rev hφ, sumOver_map_rev hφ, h φ hφ]

theorem signedVolume_map_rev (S : List (Tri ℝ)) : CP.signedVolume (S.map Tri.rev) = -CP.signedVolume S := by
  rw [signedVolume_eq_sumOver, signedVolume_eq_sumOver, sumOver_map_rev volPhi_oddCyclic]

theorem signedVolume_chainEq {S T : List (Tri ℝ)} (h : ChainEq S T) : CP.signedVolume S = CP.signedVolume T := by
  rw [signedVolume_eq_sumOver, signedVolume_eq_sumOver]; exact h _ volPhi_oddCyclic

/-- the oppositely oriented tetrahedron -/
def tetSwap (T : Tet ℝ) : Tet ℝ := ⟨T.a, T.c, T.b, T.d⟩

theorem bdry_rev (T : Tet ℝ) : ChainEq (T.bdry.map Tri.rev) (tetSwap T).bdry := by
  intro φ hφ
  obtain ⟨a, b, c, d⟩ := T
  have r1 := hφ.rot ⟨a, b, c⟩
  have r2 := hφ.rot ⟨a, d, b⟩
  have r3 := hφ.rot ⟨c, b, d⟩
  have r3' := hφ.rot ⟨b, d, c⟩
  have r4 := hφ.rot ⟨a, c, d⟩
  simp only [Tri.rot] at r1 r2 r3 r3' r4
  simp only [sumOver, Tet.bdry, tetSwap, Tri.rev, List.map_cons, List.map_nil, List.sum_cons, List.sum_nil]
  linarith

theorem flatMap_bdry_rev (Ts : List (Tet ℝ)) :
    ChainEq ((Ts.flatMap Tet.bdry).map Tri.rev) ((Ts.map tetSwap).flatMap Tet.bdry) := by
  induction Ts with
  | nil => exact ChainEq.refl _
  | cons T Ts ih =>
    simp only [List.flatMap_cons, List.map_append, List.map_cons]
    exact ChainEq.append (bdry_rev T) ih

/-- a reversed closed surface is closed -/
theorem closed_rev {S : List (Tri ℝ)} (h : ∃ Ts : List (Tet ℝ), ChainEq S (Ts.flatMap Tet.bdry)) :
    ∃ Ts : List (Tet ℝ), ChainEq (S.map Tri.rev) (Ts.flatMap Tet.bdry) := by
  obtain ⟨Ts, hT⟩ := h
  exact ⟨Ts.map tetSwap, (chainEq_map_rev hT).trans (flatMap_bdry_rev Ts)⟩

/-! ### translation law of the curl-theorem centroid on a closed surface -/

theorem centroidSum_get (S : List (Tri ℝ)) (i : Nat) (hi : i < 3) :
    (V3.sum (S.map CP.centroidTerm)).get i = sumOver (cenPhi i) S := by
  cases3 i
  · simp only [V3.get_zero, V3.sum_x, sumOver, List.map_map]; rfl
  · simp only [V3.get_one, V3.sum_y, sumOver, List.map_map]; rfl
  · simp only [V3.get_two, V3.sum_z, sumOver, List.map_map]; rfl

theorem centroidSum_chain {S : List (Tri ℝ)} {Ts : List (Tet ℝ)}
    (h : ChainEq S (Ts.flatMap Tet.bdry)) (i : Nat) (hi : i < 3) :
    (V3.sum (S.map CP.centroidTerm)).get i = 48 * (Spec.first Ts).get i := by
  rw [centroidSum_get S i hi, sumOver_bdry (cenPhi_oddCyclic i hi) (cenPhi_tet i hi) h,
    first_get Ts i hi, list_sum_map_mul]

theorem tetFirst_add (T : Tet ℝ) (d : V3 ℝ) (i : Nat) (hi : i < 3) :
    (Spec.tetFirst (T.map (· + d))).get i = (Spec.tetFirst T).get i + d.get i * Spec.tetVol T := by
  obtain ⟨⟨ax,ay,az⟩,⟨bx,b_y,bz⟩,⟨cx,cy,cz⟩,⟨dx,dy,dz⟩⟩ := T
  obtain ⟨d1,d2,d3⟩ := d
  cases3 i <;> unfold Spec.tetFirst Spec.tetVol Spec.tetSum <;> unfold_model <;> ring

theorem first_add (Ts : List (Tet ℝ)) (d : V3 ℝ) (i : Nat) (hi : i < 3) :
    (Spec.first (Ts.map (Tet.map (· + d)))).get i = (Spec.first Ts).get i + d.get i * Spec.vol Ts := by
  rw [first_get _ i hi, first_get _ i hi, Spec.vol_eq]
  induction Ts with
  | nil => simp
  | cons T Ts ih =>
    simp only [List.map_cons, List.sum_cons, List.map_map] at ih ⊢
    rw [tetFirst_add T d i hi]
    simp only [Function.comp_def] at ih ⊢
    linarith

/-- **the curl-theorem centroid of a closed surface follows a translation** when the volume it
is normalised with is the signed volume of that surface. -/
theorem centroid_translate_closed {S : List (Tri ℝ)}
    (hc : ∃ Ts : List (Tet ℝ), ChainEq S (Ts.flatMap Tet.bdry)) (d : V3 ℝ) {V : ℝ}
    (hV : V = CP.signedVolume S) (hV0 : V ≠ 0) :
    CP.centroid (S.map (Tri.map (· + d))) V = CP.centroid S V + d := by
  obtain ⟨Ts, h⟩ := hc
  have hch := ChainEq.map (· + d) h
  rw [← flatMap_bdry_map] at hch
  have hvol : V = Spec.vol Ts := by rw [hV, signedVolume_chain h]
  apply V3.ext_get
  intro i hi
  have h1 := centroidSum_chain hch i hi
  have h2 := centroidSum_chain h i hi
  have h3 := first_add Ts d i hi
  rw [h3] at h1
  unfold CP.centroid
  cases3 i <;>
    simp only [V3.get_zero, V3.get_one, V3.get_two, V3.smul_x, V3.smul_y, V3.smul_z, V3.add_x, V3.add_y,
      V3.add_z, Scalar.lit, Scalar.ofNat_real] at h1 h2 ⊢ <;>
    rw [h1, h2, ← hvol] <;> push_cast <;> field_simp

/-! ### vectors -/

theorem v3_add_sub_cancel (v c : V3 ℝ) : v + (V3.zero - c) + (c - V3.zero) = v := by
  cases v; cases c; ext <;> simp

theorem v3_add_self_sub (v c : V3 ℝ) : v + (c - c) = v := by
  cases v; cases c; ext <;> simp

theorem v3_zero_add_neg (c : V3 ℝ) : c + (V3.zero - c) = V3.zero := by
  cases c; ext <;> simp

/-! ### plane equations under scaling -/

theorem findEquations_smul {k : ℝ} (hk : 0 < k) (vs : List (V3 ℝ)) (heads : List (Nat × Nat × Nat)) :
    CPState.findEquations (vs.map (V3.smul k)) heads
      = ((CPState.findEquations vs heads).1, (CPState.findEquations vs heads).2.map (· * k)) := by
  unfold CPState.findEquations
  simp only [Prod.mk.injEq, List.map_map]
  constructor
  · apply List.map_congr_left; intro f _
    simp only [Function.comp, vget_map_smul, faceEquation_smul hk]
  · apply List.map_congr_left; intro f _
    simp only [Function.comp, vget_map_smul, faceEquation_smul hk]

/-! ### polygon measures under scaling -/

theorem rotl_map {β γ : Type} (f : β → γ) (j : Nat) (l : List β) :
    Poly2.rotl j (l.map f) = (Poly2.rotl j l).map f := by
  unfold Poly2.rotl
  simp only [List.length_map, List.map_append, List.map_drop, List.map_take]

theorem sum_zipWith_mul {β γ : Type} (c : ℝ) (f g : β → γ → ℝ) (h : ∀ a b, f a b = c * g a b)
    (l : List β) (l' : List γ) : (List.zipWith f l l').sum = c * (List.zipWith g l l').sum := by
  induction l generalizing l' with
  | nil => simp
  | cons a t ih =>
    cases l' with
    | nil => simp
    | cons b t' => simp only [List.zipWith_cons_cons, List.sum_cons, ih t', h a b]; ring

theorem v3get_smul (k : ℝ) (a : V3 ℝ) (i : Nat) : (V3.smul k a).get i = k * a.get i := by
  unfold V3.get; split_ifs <;> rfl

theorem signedArea_smul (k : ℝ) (vs : List (V3 ℝ)) (n : V3 ℝ) :
    Poly2.signedArea (vs.map (V3.smul k)) n = k * k * Poly2.signedArea vs n := by
  unfold Poly2.signedArea
  simp only [rotl_map, List.zip_map, List.zipWith_map_left, List.zipWith_map_right, Scalar.sum_real]
  rw [sum_zipWith_mul (k * k) _ (fun (ab : V3 ℝ × V3 ℝ) c =>
    ab.2.get ((Poly2.argmax3 (Scalar.abs n.x) (Scalar.abs n.y) (Scalar.abs n.z) + 1) % 3) *
      (c.get ((Poly2.argmax3 (Scalar.abs n.x) (Scalar.abs n.y) (Scalar.abs n.z) + 2) % 3) -
        ab.1.get ((Poly2.argmax3 (Scalar.abs n.x) (Scalar.abs n.y) (Scalar.abs n.z) + 2) % 3)))]
  · ring
  · intro ab c
    simp only [Prod.map, v3get_smul]; ring

theorem area_smul (k : ℝ) (vs : List (V3 ℝ)) (n : V3 ℝ) :
    Poly2.area (vs.map (V3.smul k)) n = k * k * Poly2.area vs n := by
  unfold Poly2.area
  rw [signedArea_smul, Scalar.abs_real, Scalar.abs_real, abs_mul, abs_of_nonneg (mul_self_nonneg k)]

theorem perimeter_smul {k : ℝ} (hk : 0 ≤ k) (vs : List (V3 ℝ)) :
    Poly2.perimeter (vs.map (V3.smul k)) = k * Poly2.perimeter vs := by
  unfold Poly2.perimeter
  simp only [rotl_map, List.zipWith_map_left, List.zipWith_map_right, Scalar.sum_real]
  apply sum_zipWith_mul
  intro a b
  rw [v3smul_sub, v3norm_smul hk]

theorem edgeSum_smul {k : ℝ} (hk : 0 ≤ k) (vs : List (V3 ℝ)) :
    edgeSum (vs.map (V3.smul k)) = k * edgeSum vs := by
  unfold edgeSum
  simp only [rotl_map, List.zipWith_map_left, List.zipWith_map_right, Scalar.sum_real]
  apply sum_zipWith_mul
  intro a b
  rw [v3smul_sub, v3norm_smul hk]

theorem edgeSum_nonneg (vs : List (V3 ℝ)) : 0 ≤ edgeSum vs := by
  unfold edgeSum
  simp only [Scalar.sum_real]
  generalize Poly2.rotl 1 vs = ws
  induction vs generalizing ws with
  | nil => simp
  | cons a t ih =>
    cases ws with
    | nil => simp
    | cons b t' =>
      simp only [List.zipWith_cons_cons, List.sum_cons]
      have : 0 ≤ V3.norm (a - b) := by unfold V3.norm; simp only [Scalar.sqrt_real]; positivity
      linarith [ih t']

theorem perimeter_nonneg (vs : List (V3 ℝ)) : 0 ≤ Poly2.perimeter vs := by
  unfold Poly2.perimeter
  simp only [Scalar.sum_real]
  generalize Poly2.rotl 1 vs = ws
  induction vs generalizing ws with
  | nil => simp
  | cons a t ih =>
    cases ws with
    | nil => simp
    | cons b t' =>
      simp only [List.zipWith_cons_cons, List.sum_cons]
      have : 0 ≤ V3.norm (b - a) := by unfold V3.norm; simp only [Scalar.sqrt_real]; positivity
      linarith [ih t']

/-- area of one face polygon of a scaled polyhedron -/
theorem facePolyArea_smul {k : ℝ} (hk : 0 < k) (vs : List (V3 ℝ)) (f : List Nat) :
    facePolyArea (vs.map (V3.smul k)) f = k * k * facePolyArea vs f := by
  unfold facePolyArea
  simp only [vget_map_smul, faceEquation_smul hk]
  have hm : f.map (vget (vs.map (V3.smul k))) = (f.map (vget vs)).map (V3.smul k) := by
    simp only [List.map_map]
    apply List.map_congr_left
    intro i _
    simp only [Function.comp, vget_map_smul]
  rw [hm]
  exact area_smul k _ _

theorem sum_zip_volume (k : ℝ) (ds as : List ℝ) :
    ((List.zip (ds.map (· * k)) (as.map (fun a => k * k * a))).map fun da => (-da.1) * da.2).sum
      = k * k * k * ((List.zip ds as).map fun da => (-da.1) * da.2).sum := by
  induction ds generalizing as with
  | nil => simp
  | cons d t ih =>
    cases as with
    | nil => simp
    | cons a t' =>
      simp only [List.map_cons, List.zip_cons_cons, List.sum_cons, ih t']; ring


/-! ### guards and factors -/

theorem setterFactor_spec {deg : Nat} (hdeg : deg = 1 ∨ deg = 2 ∨ deg = 3) {cur v : ℝ}
    (hc : 0 < cur) (hv : 0 < v) :
    ∃ k, 0 < k ∧ setterFactor deg cur v = .ok k ∧ cur * k ^ deg = v := by
  have h0 : (lit 0 : ℝ) < v := by simpa [Scalar.lit] using hv
  have hq : 0 < v / cur := div_pos hv hc
  unfold setterFactor
  rw [if_neg (not_not.mpr h0)]
  rcases hdeg with rfl | rfl | rfl
  · refine ⟨v / cur, hq, by simp, ?_⟩
    field_simp
  · refine ⟨Scalar.sqrt (v / cur), Real.sqrt_pos.mpr hq, by simp, ?_⟩
    rw [pow_two, sqrt_sq' hq]; field_simp
  · refine ⟨Scalar.cbrt (v / cur), cbrt_pos hq, by simp, ?_⟩
    rw [show Scalar.cbrt (v / cur) ^ 3 = Scalar.cbrt (v / cur) * Scalar.cbrt (v / cur) * Scalar.cbrt (v / cur) by ring,
      cbrt_cube hq]; field_simp

theorem setterFactor_bad (deg : Nat) (cur : ℝ) {v : ℝ} (hv : ¬ 0 < v) :
    setterFactor deg cur v = .error "ValueError" := by
  have h0 : ¬ (lit 0 : ℝ) < v := by simpa [Scalar.lit] using hv
  unfold setterFactor; rw [if_pos h0]

theorem spg_setRadiusAbs_ok (s : SPGState ℝ) {v : ℝ} (hv : 0 ≤ v) :
    s.setRadiusAbs v = .ok { s with radius := v } := by
  unfold SPGState.setRadiusAbs
  have : (lit 0 : ℝ) ≤ v := by simpa [Scalar.lit] using hv
  rw [if_pos this]

theorem spg_setRadiusAbs_bad (s : SPGState ℝ) {v : ℝ} (hv : ¬ 0 ≤ v) :
    s.setRadiusAbs v = .error "ValueError" := by
  unfold SPGState.setRadiusAbs
  have : ¬ (lit 0 : ℝ) ≤ v := by simpa [Scalar.lit] using hv
  rw [if_neg this]

/-- `_rescale` with a non-negative factor never trips the rounding-radius guard: the only
`raise` a spheropolygon size setter can reach is its own guard, before anything is modified -/
theorem spg_rescale_ok (s : SPGState ℝ) {k : ℝ} (hk : 0 ≤ k) (hr : 0 ≤ s.radius) :
    s.rescale k = .ok ⟨s.core.rescale k, s.radius * k⟩ := by
  unfold SPGState.rescale
  rw [spg_setRadiusAbs_ok _ (mul_nonneg hr hk)]

theorem sph_setRadiusAbs_ok (s : SPHState ℝ) {v : ℝ} (hv : 0 ≤ v) :
    s.setRadiusAbs v = .ok { s with radius := v } := by
  unfold SPHState.setRadiusAbs
  have : (lit 0 : ℝ) ≤ v := by simpa [Scalar.lit] using hv
  rw [if_pos this]

theorem sph_setRadiusAbs_bad (s : SPHState ℝ) {v : ℝ} (hv : ¬ 0 ≤ v) :
    s.setRadiusAbs v = .error "ValueError" := by
  unfold SPHState.setRadiusAbs
  have : ¬ (lit 0 : ℝ) ≤ v := by simpa [Scalar.lit] using hv
  rw [if_neg this]

theorem sph_rescale_ok (s : SPHState ℝ) {k : ℝ} (hk : 0 ≤ k) (hr : 0 ≤ s.radius) :
    s.rescale k = .ok ⟨s.core.rescale k, s.radius * k⟩ := by
  unfold SPHState.rescale
  rw [sph_setRadiusAbs_ok _ (mul_nonneg hr hk)]

theorem forall₂_even_refl (l : List (Nat × Nat × Nat)) : List.Forall₂ EvenPerm l l := by
  induction l with
  | nil => exact List.Forall₂.nil
  | cons a l ih => exact List.Forall₂.cons (Or.inl rfl) ih

theorem map_add_cancel (vs : List (V3 ℝ)) (c : V3 ℝ) :
    (vs.map (· + (V3.zero - c))).map (· + (c - V3.zero)) = vs := by
  rw [List.map_map]
  conv_rhs => rw [← List.map_id vs]
  apply List.map_congr_left
  intro v _
  exact v3_add_sub_cancel v c

/-! ### polygon measures under translation -/

theorem rotl_perm {β : Type} (k : Nat) (l : List β) : (Poly2.rotl k l).Perm l := by
  unfold Poly2.rotl
  exact List.perm_append_comm.trans (by rw [List.take_append_drop])

theorem rotl_length {β : Type} (k : Nat) (l : List β) : (Poly2.rotl k l).length = l.length :=
  (rotl_perm k l).length_eq

theorem v3get_add (a t : V3 ℝ) (i : Nat) : (a + t).get i = a.get i + t.get i := by
  unfold V3.get; split_ifs <;> rfl

theorem v3_add_sub_add (a b t : V3 ℝ) : (b + t) - (a + t) = b - a := by
  cases a; cases b; cases t; ext <;> simp

theorem sum_zipWith_sub {β γ : Type} (f : β → ℝ) (g : γ → ℝ) (l : List β) (l' : List γ)
    (h : l.length = l'.length) :
    (List.zipWith (fun a b => g b - f a) l l').sum = (l'.map g).sum - (l.map f).sum := by
  induction l generalizing l' with
  | nil => cases l' with
    | nil => simp
    | cons b t => simp at h
  | cons a t ih =>
    cases l' with
    | nil => simp at h
    | cons b t' =>
      simp only [List.length_cons, Nat.add_right_cancel_iff] at h
      simp only [List.zipWith_cons_cons, List.sum_cons, List.map_cons, ih t' h]; ring

theorem sum_zipWith_add_mul {β γ : Type} (c : ℝ) (F G : β → γ → ℝ) (l : List β) (l' : List γ) :
    (List.zipWith (fun a b => F a b + c * G a b) l l').sum
      = (List.zipWith F l l').sum + c * (List.zipWith G l l').sum := by
  induction l generalizing l' with
  | nil => simp
  | cons a t ih =>
    cases l' with
    | nil => simp
    | cons b t' => simp only [List.zipWith_cons_cons, List.sum_cons, ih t']; ring

/-- the shoelace sum of a closed polygon does not see a translation -/
theorem signedArea_translate (t : V3 ℝ) (vs : List (V3 ℝ)) (n : V3 ℝ) :
    Poly2.signedArea (vs.map (· + t)) n = Poly2.signedArea vs n := by
  unfold Poly2.signedArea
  simp only [rotl_map, List.zip_map, List.zipWith_map_left, List.zipWith_map_right, Scalar.sum_real]
  congr 1
  set c1 := (Poly2.argmax3 (Scalar.abs n.x) (Scalar.abs n.y) (Scalar.abs n.z) + 1) % 3
  set c2 := (Poly2.argmax3 (Scalar.abs n.x) (Scalar.abs n.y) (Scalar.abs n.z) + 2) % 3
  have hfun : (fun (ab : V3 ℝ × V3 ℝ) (c : V3 ℝ) =>
        (Prod.map (· + t) (· + t) ab).2.get c1 * ((c + t).get c2 - (Prod.map (· + t) (· + t) ab).1.get c2))
      = (fun ab c => ab.2.get c1 * (c.get c2 - ab.1.get c2) + t.get c1 * (c.get c2 - ab.1.get c2)) := by
    funext ab c
    simp only [Prod.map, v3get_add]; ring
  rw [hfun, sum_zipWith_add_mul]
  have hlen : (vs.zip (Poly2.rotl 1 vs)).length = (Poly2.rotl 2 vs).length := by
    simp [List.length_zip, rotl_length]
  rw [sum_zipWith_sub (fun ab : V3 ℝ × V3 ℝ => ab.1.get c2) (fun c : V3 ℝ => c.get c2) _ _ hlen]
  have h1 : ((vs.zip (Poly2.rotl 1 vs)).map fun ab => ab.1.get c2) = vs.map fun v => v.get c2 := by
    rw [show (fun ab : V3 ℝ × V3 ℝ => ab.1.get c2) = (fun v : V3 ℝ => v.get c2) ∘ Prod.fst from rfl,
      ← List.map_map, List.map_fst_zip (by rw [rotl_length])]
  rw [h1, ((rotl_perm 2 vs).map _).sum_eq]; ring

theorem area_translate (t : V3 ℝ) (vs : List (V3 ℝ)) (n : V3 ℝ) :
    Poly2.area (vs.map (· + t)) n = Poly2.area vs n := by
  unfold Poly2.area; rw [signedArea_translate]

theorem perimeter_translate (t : V3 ℝ) (vs : List (V3 ℝ)) :
    Poly2.perimeter (vs.map (· + t)) = Poly2.perimeter vs := by
  unfold Poly2.perimeter
  simp only [rotl_map, List.zipWith_map_left, List.zipWith_map_right, v3_add_sub_add]

theorem edgeSum_translate (t : V3 ℝ) (vs : List (V3 ℝ)) : edgeSum (vs.map (· + t)) = edgeSum vs := by
  unfold edgeSum
  simp only [rotl_map, List.zipWith_map_left, List.zipWith_map_right, v3_add_sub_add]

/-- a spheropolygon with a non-degenerate core and `r ≥ 0` has positive area and perimeter -/
theorem spg_area_pos (s : SPGState ℝ) (ha : 0 < Poly2.area s.core.verts s.core.normal) (hr : 0 ≤ s.radius) :
    0 < s.area := by
  unfold SPGState.area SPGState.signedArea
  unfold Poly2.area at ha
  simp only [Scalar.abs_real, Scalar.lit, Scalar.ofNat_real, Nat.cast_zero, Scalar.pi_real] at ha ⊢
  have he := edgeSum_nonneg s.core.verts
  have hs : 0 ≤ edgeSum s.core.verts * s.radius + Real.pi * s.radius * s.radius := by
    have := Real.pi_pos; positivity
  split_ifs with hneg
  · rw [abs_of_neg (by linarith)]; linarith
  · have hA : 0 < Poly2.signedArea s.core.verts s.core.normal := by
      rcases lt_or_eq_of_le (not_lt.mp hneg) with h | h
      · exact h
      · rw [← h] at ha; simp at ha
    rw [abs_of_pos (by linarith)]; linarith

theorem spg_perimeter_pos (s : SPGState ℝ) (hp : 0 < Poly2.perimeter s.core.verts) (hr : 0 ≤ s.radius) :
    0 < s.perimeter := by
  unfold SPGState.perimeter
  simp only [Scalar.lit, Scalar.ofNat_real, Scalar.pi_real]
  have := Real.pi_pos
  push_cast
  have : 0 ≤ 2 * Real.pi * s.radius := by positivity
  linarith

end Mut
end
