import CoxeterVerif.Lemmas.TabulatedBits
import CoxeterVerif.Lemmas.TabulatedReal3
/-!
  C18: the per-table Bool obligations of `Spec/Textbook.lean` (`platonicOk`, …, `repositoryOk`), which the
  kernel evaluates on every generated entry, unfolded into Prop-level statements (combinatorics of the face
  list, real geometry of the vertices in units of 10⁻¹⁸, rows of the hand-entered textbook tables).
  Generic: for EVERY `Entry`, so each `decide +kernel` fact of `Generated/Check*.lean` lifts to the
  corresponding statement about the tabulated coordinates (`Props/C18.lean`).
-/
namespace Tab
noncomputable section

/-! ### `polyhedronOk` -/

/-- what `polyhedronOk` certifies: a `ConvexPolyhedron` record whose face list is a closed, consistently
    oriented surface on exactly the record's vertices, with Euler characteristic 2 (`2V + 2F = 2E + 4`, where
    `2E` is the number of directed edges), planar faces, every vertex on the inner side of every face plane
    (within 10⁻⁹) and positive enclosed volume `Σ det / 6` -/
structure PolyhedronCert (e : Entry) : Prop where
  type_eq : e.type = "ConvexPolyhedron"
  uses : UsesExactlyVerts e
  closed : ClosedOriented e
  euler : 2 * e.verts.length + 2 * e.faces.length = (dirEdges e).length + 4
  convex : ConvexCert e
  vol_pos : 0 < vol6V e

theorem polyhedronOk_iff (e : Entry) : polyhedronOk e = true ↔ PolyhedronCert e := by
  unfold polyhedronOk
  simp only [Bool.and_eq_true, beq_iff_eq, usesExactlyVerts_iff, eulerOk_iff, convexOk_iff, positiveVolume_iff]
  constructor
  · rintro ⟨⟨⟨⟨⟨h1, h2⟩, h3⟩, h4⟩, h5⟩, h6⟩
    exact ⟨h1, h2, (closedOriented_iff e h2).mp h3, h4, h5, h6⟩
  · rintro ⟨h1, h2, h3, h4, h5, h6⟩
    exact ⟨⟨⟨⟨⟨h1, h2⟩, (closedOriented_iff e h2).mpr h3⟩, h4⟩, h5⟩, h6⟩

/-! ### textbook rows -/

/-- the entry has the vertex, (directed-)edge and face counts of the row and, for every face size the row
    lists, that many faces of that size -/
structure MatchesRow (s : Textbook.Solid) (e : Entry) : Prop where
  v : e.verts.length = s.v
  e2 : (dirEdges e).length = 2 * s.e
  f : e.faces.length = s.f
  census : ∀ kc ∈ s.faces, (e.faces.map List.length).count kc.1 = kc.2

theorem matchesTextbook_iff (s : Textbook.Solid) (e : Entry) : matchesTextbook s e = true ↔ MatchesRow s e := by
  unfold matchesTextbook numV numE2 numF facesOfSize
  simp only [Bool.and_eq_true, natBeq_iff, List.all_eq_true, cnt_eq_count]
  constructor
  · rintro ⟨⟨⟨h1, h2⟩, h3⟩, h4⟩; exact ⟨h1, h2, h3, h4⟩
  · rintro ⟨h1, h2, h3, h4⟩; exact ⟨⟨⟨h1, h2⟩, h3⟩, h4⟩

/-- a row with that name exists and the entry matches it (no row ⇒ the predicate is `false`) -/
theorem textbookOkAs_sound (rows : List Textbook.Solid) (nm : String) (e : Entry)
    (h : textbookOkAs rows nm e = true) : ∃ s ∈ rows, s.name = nm ∧ MatchesRow s e := by
  unfold textbookOkAs at h
  cases hf : rows.find? (fun s => s.name == nm) with
  | none => rw [hf] at h; cases h
  | some s =>
    rw [hf] at h
    exact ⟨s, List.mem_of_find?_eq_some hf, by simpa using List.find?_some hf, (matchesTextbook_iff s e).mp h⟩

theorem textbookOk_sound (rows : List Textbook.Solid) (e : Entry) (h : textbookOk rows e = true) :
    ∃ s ∈ rows, s.name = e.name ∧ MatchesRow s e :=
  textbookOkAs_sound rows e.name e h

/-- the entry has the row's vertices and `F' − F = E' − E ≥ 0` extra faces and edges -/
structure MatchesSplit (s : Textbook.Solid) (e : Entry) : Prop where
  v : e.verts.length = s.v
  f : s.f ≤ e.faces.length
  surplus : (dirEdges e).length + 2 * s.f = 2 * s.e + 2 * e.faces.length

theorem matchesSplit_iff (s : Textbook.Solid) (e : Entry) : matchesSplit s e = true ↔ MatchesSplit s e := by
  unfold matchesSplit numV numE2 numF
  simp only [Bool.and_eq_true, natBeq_iff, Nat.ble_eq]
  constructor
  · rintro ⟨⟨h1, h2⟩, h3⟩; exact ⟨h1, h2, h3⟩
  · rintro ⟨h1, h2, h3⟩; exact ⟨⟨h1, h2⟩, h3⟩

/-- an exact match is in particular a match up to split faces -/
theorem MatchesRow.split {s : Textbook.Solid} {e : Entry} (h : MatchesRow s e) : MatchesSplit s e :=
  ⟨h.v, by rw [h.f], by rw [h.e2, h.f]⟩

theorem textbookSplitOkAs_sound (rows : List Textbook.Solid) (nm : String) (e : Entry)
    (h : textbookSplitOkAs rows nm e = true) : ∃ s ∈ rows, s.name = nm ∧ MatchesSplit s e := by
  unfold textbookSplitOkAs at h
  cases hf : rows.find? (fun s => s.name == nm) with
  | none => rw [hf] at h; cases h
  | some s =>
    rw [hf] at h
    exact ⟨s, List.mem_of_find?_eq_some hf, by simpa using List.find?_some hf, (matchesSplit_iff s e).mp h⟩

/-- an entry without a specification row fails its obligation -/
theorem textbookOkAs_no_row (rows : List Textbook.Solid) (nm : String) (e : Entry)
    (h : ∀ s ∈ rows, s.name ≠ nm) : textbookOkAs rows nm e = false := by
  unfold textbookOkAs
  have : rows.find? (fun s => s.name == nm) = none := by
    rw [List.find?_eq_none]
    intro s hs
    simpa using h s hs
  rw [this]

/-! ### regular faces -/

/-- what `regularOk` says: all edges have one length and, in every face with more than three corners, all
    short diagonals `pᵢpᵢ₊₂` have one length (squared lengths within `2·10⁻⁹` relative).  A planar convex
    polygon (`ConvexCert`) with equal sides and equal short diagonals has equal angles. -/
structure RegularCert (e : Entry) : Prop where
  edges : AllNear ((dirEdges e).map (sqDistV e.verts))
  diagonals : ∀ f ∈ e.faces, f.length ≤ 3 ∨ AllNear ((cycPairs2 f).map (sqDistV e.verts))

theorem regularOk_iff (e : Entry) : regularOk e = true ↔ RegularCert e := by
  unfold regularOk
  rw [Bool.and_eq_true, equalEdgesOk_iff, equalDiagonalsOk_iff]
  exact ⟨fun ⟨h1, h2⟩ => ⟨h1, h2⟩, fun ⟨h1, h2⟩ => ⟨h1, h2⟩⟩

/-- unit volume, in true units -/
def UnitVolume (e : Entry) : Prop := |vol6V e / (6 * 10^54) - 1| ≤ 1 / 10^9

/-! ### the per-table obligations -/

theorem platonicOk_meaning (e : Entry) (h : platonicOk e = true) :
    PolyhedronCert e ∧ (∃ s ∈ Textbook.platonic, s.name = e.name ∧ MatchesRow s e) ∧ UnitVolume e
      ∧ RegularCert e := by
  unfold platonicOk at h
  simp only [Bool.and_eq_true] at h
  obtain ⟨⟨⟨h1, h2⟩, h3⟩, h4⟩ := h
  exact ⟨(polyhedronOk_iff e).mp h1, textbookOk_sound _ e h2, (unitVolumeOk_iff e).mp h3,
    (regularOk_iff e).mp h4⟩

theorem archimedeanOk_meaning (e : Entry) (h : archimedeanOk e = true) :
    PolyhedronCert e ∧ (∃ s ∈ Textbook.archimedean, s.name = e.name ∧ MatchesRow s e) ∧ UnitVolume e
      ∧ RegularCert e := by
  unfold archimedeanOk at h
  simp only [Bool.and_eq_true] at h
  obtain ⟨⟨⟨h1, h2⟩, h3⟩, h4⟩ := h
  exact ⟨(polyhedronOk_iff e).mp h1, textbookOk_sound _ e h2, (unitVolumeOk_iff e).mp h3,
    (regularOk_iff e).mp h4⟩

theorem catalanOk_meaning (e : Entry) (h : catalanOk e = true) :
    PolyhedronCert e ∧ (∃ s ∈ Textbook.catalan, s.name = e.name ∧ MatchesRow s e) ∧ UnitVolume e
      ∧ Insphere e := by
  unfold catalanOk at h
  simp only [Bool.and_eq_true] at h
  obtain ⟨⟨⟨h1, h2⟩, h3⟩, h4⟩ := h
  exact ⟨(polyhedronOk_iff e).mp h1, textbookOk_sound _ e h2, (unitVolumeOk_iff e).mp h3,
    insphereOk_sound e h4⟩

/-- the entry carries a Johnson number `n`, has the counts and census of row `n` of the hand-entered table, -/
def JohnsonRow (e : Entry) : Prop :=
  ∃ n s, johnsonNumber e.short = some n ∧ johnsonRow n = some s ∧ MatchesRow s e

theorem johnsonCountsOk_sound (e : Entry) (h : johnsonCountsOk e = true) : JohnsonRow e := by
  unfold johnsonCountsOk at h
  cases hn : johnsonNumber e.short with
  | none => rw [hn] at h; cases h
  | some n =>
    rw [hn] at h
    simp only [] at h
    cases hr : johnsonRow n with
    | none => rw [hr] at h; cases h
    | some s =>
      rw [hr] at h
      exact ⟨n, s, hn, hr, (matchesTextbook_iff s e).mp h⟩

theorem johnsonNameOk_sound (e : Entry) (h : johnsonNameOk e = true) :
    ∃ n, johnsonNumber e.short = some n ∧ johnsonName n = some e.name := by
  unfold johnsonNameOk at h
  cases hn : johnsonNumber e.short with
  | none => rw [hn] at h; cases h
  | some n =>
    rw [hn] at h
    exact ⟨n, rfl, by simpa using h⟩

theorem johnsonOk_meaning (e : Entry) (h : johnsonOk e = true) :
    PolyhedronCert e ∧ RegularCert e ∧ JohnsonRow e
      ∧ ∃ n, johnsonNumber e.short = some n ∧ johnsonName n = some e.name := by
  unfold johnsonOk at h
  simp only [Bool.and_eq_true] at h
  obtain ⟨⟨⟨h1, h2⟩, h3⟩, h4⟩ := h
  exact ⟨(polyhedronOk_iff e).mp h1, (regularOk_iff e).mp h2, johnsonCountsOk_sound e h3,
    johnsonNameOk_sound e h4⟩

theorem prismAntiprismOk_meaning (e : Entry) (h : prismAntiprismOk e = true) :
    PolyhedronCert e ∧ ∃ s ∈ Textbook.prismAntiprism, s.name = e.name ∧ MatchesRow s e := by
  unfold prismAntiprismOk at h
  simp only [Bool.and_eq_true] at h
  exact ⟨(polyhedronOk_iff e).mp h.1, textbookOk_sound _ e h.2⟩

theorem pyramidDipyramidOk_meaning (e : Entry) (h : pyramidDipyramidOk e = true) :
    PolyhedronCert e ∧ ∃ s ∈ Textbook.pyramidDipyramid, s.name = e.name ∧ MatchesRow s e := by
  unfold pyramidDipyramidOk at h
  simp only [Bool.and_eq_true] at h
  exact ⟨(polyhedronOk_iff e).mp h.1, textbookOk_sound _ e h.2⟩

/-- the specification row of a repository record (see `repoTextbookOk`) -/
structure RepoRow (e : Entry) : Prop where
  johnson_code : ∀ n, johnsonNumber e.name = some n →
    ∃ s, johnsonRow n = some s ∧ MatchesRow s e ∧ (e.source = "johnson.json" → johnsonName n = some e.ref)
  cited : e.source ≠ "" → ∃ s ∈ textbookBySource e.source, s.name = e.ref ∧ MatchesRow s e
  uncited : e.source = "" →
    (johnsonNumber e.name).isSome = true ∨ ∃ s ∈ Textbook.otherSolids, s.name = e.ref ∧ MatchesSplit s e

theorem repoTextbookOk_sound (e : Entry) (h : repoTextbookOk e = true) : RepoRow e := by
  unfold repoTextbookOk at h
  rw [Bool.and_eq_true] at h
  obtain ⟨hj, hs⟩ := h
  refine ⟨?_, ?_, ?_⟩
  · intro n hn
    rw [hn] at hj
    simp only [Bool.and_eq_true, Bool.or_eq_true, Bool.not_eq_true', beq_eq_false_iff_ne, beq_iff_eq] at hj
    cases hr : johnsonRow n with
    | none => rw [hr] at hj; exact absurd hj.1 (by simp)
    | some s =>
      rw [hr] at hj
      refine ⟨s, rfl, (matchesTextbook_iff s e).mp hj.1, ?_⟩
      intro hsrc
      rcases hj.2 with h | h
      · exact absurd hsrc h
      · exact h
  · intro hne
    have : (e.source == "") = false := by simpa using hne
    rw [this] at hs
    exact textbookOkAs_sound _ _ e (by simpa using hs)
  · intro heq
    have : (e.source == "") = true := by simpa using heq
    rw [this] at hs
    simp only [if_true, Bool.or_eq_true] at hs
    rcases hs with h | h
    · exact Or.inl h
    · exact Or.inr (textbookSplitOkAs_sound _ _ e h)

/-- a repository record that cites a family has, within 10⁻⁹, the vertex set of the cited record -/
def CitesFamily (lookup : String → List Entry) (e : Entry) : Prop :=
  e.source ≠ "" → ∃ r ∈ lookup e.source, r.name = e.ref ∧ e.verts.length = r.verts.length
    ∧ (∀ p ∈ e.verts, ∃ q ∈ r.verts, V3.normSq (toV p - toV q) ≤ 10^18)
    ∧ (∀ p ∈ r.verts, ∃ q ∈ e.verts, V3.normSq (toV p - toV q) ≤ 10^18)

theorem repositoryOk_meaning (lookup : String → List Entry) (e : Entry) (h : repositoryOk lookup e = true) :
    PolyhedronCert e ∧ CitesFamily lookup e ∧ RepoRow e := by
  unfold repositoryOk at h
  simp only [Bool.and_eq_true] at h
  obtain ⟨⟨h1, h2⟩, h3⟩ := h
  refine ⟨(polyhedronOk_iff e).mp h1, ?_, repoTextbookOk_sound e h3⟩
  intro hs
  obtain ⟨r, hr, hn, hsv⟩ := sourceOk_sound lookup e h2 hs
  exact ⟨r, hr, hn, sameVerts_sound _ _ hsv⟩

end
end Tab
