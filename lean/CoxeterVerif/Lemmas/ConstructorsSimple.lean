import CoxeterVerif.Lemmas.Constructors
/-!
  C15, deepening round: the O(n²) predicate `Spec.simple` against the index/point based text-book definition
  `Spec.SimplePolygon`.

  * `onSeg_iff_prop`      — the Bool test `onSeg` decides `OnSegProp` (∃ parameter in [0,1]);
  * `foldBack_false_iff`  — MEANING of `foldBack`: two consecutive edges `a→q`, `q→d` (`a ≠ q ≠ d`) have only `q` in
                            common iff neither `d ∈ aq` nor `a ∈ qd`;
  * `cycEdges_eq_zip`, `cycEdges_getElem` — edge `i` of the closed cycle is `(vtx i, vtx (i+1))`;
  * `edgeOK_adjacent`, `edgeOK_wrap`, `edgeOK_far` — what `edgeOK` says for the three kinds of index pairs of a
    cycle with pairwise different vertices.
-/
open Scalar C15 C15.Spec
set_option maxRecDepth 4000
set_option linter.unusedSimpArgs false
set_option linter.unusedVariables false
noncomputable section

namespace C15

/-! ### points on a segment -/

theorem onSeg_iff_prop (a b x : P2 ℝ) : onSeg a b x = true ↔ OnSegProp a b x := by
  unfold OnSegProp
  simp only [lit_zero, lit_one]
  constructor
  · intro h; exact onSeg_param a b x h
  · rintro ⟨s, h0, h1, hx, hy⟩; exact param_onSeg a b x s h0 h1 hx hy

theorem segMeetProp_iff_common_point (a b c d : P2 ℝ) :
    SegMeetProp a b c d ↔ ∃ x, OnSegProp a b x ∧ OnSegProp c d x := by
  unfold SegMeetProp OnSegProp
  constructor
  · rintro ⟨s, t, hs0, hs1, ht0, ht1, hx, hy⟩
    exact ⟨⟨a.x + s * (b.x - a.x), a.y + s * (b.y - a.y)⟩, ⟨s, hs0, hs1, rfl, rfl⟩, ⟨t, ht0, ht1, hx, hy⟩⟩
  · rintro ⟨x, ⟨s, hs0, hs1, hx, hy⟩, ⟨t, ht0, ht1, hx', hy'⟩⟩
    exact ⟨s, t, hs0, hs1, ht0, ht1, by rw [← hx, ← hx'], by rw [← hy, ← hy']⟩

theorem P2.ext' {p q : P2 ℝ} (hx : p.x = q.x) (hy : p.y = q.y) : p = q := by
  cases p; cases q; simp only [P2.mk.injEq]; exact ⟨hx, hy⟩

/-! ### the meaning of `foldBack` -/

/-- two consecutive edges `a → q → d` have exactly the vertex `q` in common iff the path does not fold back
(neither `d` on `aq` nor `a` on `qd`) -/
theorem foldBack_false_iff (a q d : P2 ℝ) (haq : a ≠ q) (hqd : q ≠ d) :
    foldBack a q d = false ↔ ∀ x, OnSegProp a q x → OnSegProp q d x → x = q := by
  unfold foldBack
  rw [Bool.or_eq_false_iff]
  constructor
  · rintro ⟨h1, h2⟩ x hx1 hx2
    by_contra hne
    obtain ⟨s, hs0, hs1, hsx, hsy⟩ := hx1
    obtain ⟨t, ht0, ht1, htx, hty⟩ := hx2
    simp only [lit_zero, lit_one] at hs0 hs1 ht0 ht1
    -- s' = 1 - s : x = q + s' (a - q)
    have hs'pos : 0 < 1 - s := by
      rcases hs1.eq_or_lt with h | h
      · exfalso; apply hne; apply P2.ext'
        · rw [hsx, h]; ring
        · rw [hsy, h]; ring
      · linarith
    have htpos : 0 < t := by
      rcases ht0.eq_or_lt with h | h
      · exfalso; apply hne; apply P2.ext'
        · rw [htx, ← h]; ring
        · rw [hty, ← h]; ring
      · exact h
    have ex : (1 - s) * (a.x - q.x) = t * (d.x - q.x) := by linarith
    have ey : (1 - s) * (a.y - q.y) = t * (d.y - q.y) := by linarith
    rcases le_total (1 - s) t with hle | hle
    · -- d = q + ((1-s)/t) (a - q)  lies on aq
      have : onSeg a q d = true := by
        apply param_onSeg a q d (1 - (1 - s) / t)
        · have : (1 - s) / t ≤ 1 := (div_le_one htpos).2 hle
          linarith
        · have : 0 ≤ (1 - s) / t := div_nonneg hs'pos.le htpos.le
          linarith
        · field_simp; linarith
        · field_simp; linarith
      rw [this] at h1; exact Bool.noConfusion h1
    · have : onSeg q d a = true := by
        apply param_onSeg q d a (t / (1 - s))
        · exact div_nonneg htpos.le hs'pos.le
        · exact (div_le_one hs'pos).2 hle
        · field_simp; linarith
        · field_simp; linarith
      rw [this] at h2; exact Bool.noConfusion h2
  · intro h
    constructor
    · by_contra hc
      rw [Bool.not_eq_false] at hc
      have hd : d = q := h d ((onSeg_iff_prop a q d).1 hc)
        ((onSeg_iff_prop q d d).1 (by rw [onSeg_comm]; exact onSeg_self_left d q))
      exact hqd hd.symm
    · by_contra hc
      rw [Bool.not_eq_false] at hc
      have ha : a = q := h a ((onSeg_iff_prop a q a).1 (onSeg_self_left a q)) ((onSeg_iff_prop q d a).1 hc)
      exact haq ha

/-! ### edges of the closed cycle by index -/

section idx
variable {β : Type}

theorem path_eq_zip (x : β) (u : List β) : path (x :: u) = List.zip (x :: u) u := by
  induction u generalizing x with
  | nil => simp
  | cons y u ih => rw [path_cons_cons, ih y]; rfl

theorem cycEdges_eq_zip (l : List β) : cycEdges l = List.zip l (l.rotate 1) := by
  cases l with
  | nil => rfl
  | cons a t =>
    rw [cycEdges_cons, path_eq_zip]
    have hr : (a :: t).rotate 1 = t ++ [a] := by simp [List.rotate_cons_succ]
    rw [hr]
    apply List.ext_getElem
    · simp
    · intro i h1 h2
      simp only [List.getElem_zip]
      have hi : i < (a :: t).length := by
        simp only [List.length_zip, List.length_cons, List.length_append, List.length_nil] at h2 ⊢
        omega
      congr 1
      have : ∀ (u : List β) (h : i < (u ++ [a]).length) (h' : i < u.length), (u ++ [a])[i] = u[i] :=
        fun u h h' => List.getElem_append_left h'
      exact this (a :: t) _ hi

theorem cycEdges_length (l : List β) : (cycEdges l).length = l.length := by
  rw [cycEdges_eq_zip]; simp

end idx

theorem vtx_eq_getElem (l : List (P2 ℝ)) (i : Nat) (h : i < l.length) : vtx l i = l[i] := by
  unfold vtx
  rw [Nat.mod_eq_of_lt h, List.getD_eq_getElem?_getD, List.getElem?_eq_getElem h]; rfl

theorem vtx_mod (l : List (P2 ℝ)) (i : Nat) : vtx l (i % l.length) = vtx l i := by
  unfold vtx; rw [Nat.mod_mod]

/-- edge `i` of the closed cycle is `(vertex i, vertex i+1)` -/
theorem cycEdges_getElem (l : List (P2 ℝ)) (i : Nat) (h : i < (cycEdges l).length) :
    (cycEdges l)[i] = (vtx l i, vtx l (i + 1)) := by
  have hi : i < l.length := by rw [cycEdges_length] at h; exact h
  have : (cycEdges l)[i] = (List.zip l (l.rotate 1))[i]'(by rw [← cycEdges_eq_zip]; exact h) := by
    congr 1; exact cycEdges_eq_zip l
  rw [this, List.getElem_zip, List.getElem_rotate, vtx_eq_getElem l i hi]
  congr 1
  unfold vtx
  rw [List.getD_eq_getElem?_getD, List.getElem?_eq_getElem (Nat.mod_lt _ (by omega))]; rfl

/-- pairwise different vertices, by index -/
def DistinctIdx (l : List (P2 ℝ)) : Prop := ∀ i j, i < j → j < l.length → vtx l i ≠ vtx l j

theorem distinct_iff_idx (l : List (P2 ℝ)) : distinct l = true ↔ DistinctIdx l := by
  unfold distinct DistinctIdx
  rw [allPairs_iff, List.pairwise_iff_getElem]
  constructor
  · intro h i j hij hj
    have := h i j (by omega) hj hij
    rw [vtx_eq_getElem l i (by omega), vtx_eq_getElem l j hj]
    intro heq
    rw [Bool.not_eq_true', ← Bool.not_eq_true, ptEq_eq] at this
    exact this heq
  · intro h i j hi hj hij
    have := h i j hij hj
    rw [vtx_eq_getElem l i hi, vtx_eq_getElem l j hj] at this
    rw [Bool.not_eq_true', ← Bool.not_eq_true, ptEq_eq]
    exact this

/-- distinct vertices: equal `vtx` ⇒ equal indices mod n -/
theorem DistinctIdx.inj {l : List (P2 ℝ)} (hd : DistinctIdx l) {i j : Nat} (hi : i < l.length) (hj : j < l.length)
    (h : vtx l i = vtx l j) : i = j := by
  rcases lt_trichotomy i j with hij | hij | hij
  · exact absurd h (hd i j hij hj)
  · exact hij
  · exact absurd h.symm (hd j i hij hi)

theorem DistinctIdx.ptEq_false {l : List (P2 ℝ)} (hd : DistinctIdx l) {i j : Nat} (hn : 0 < l.length)
    (h : i % l.length ≠ j % l.length) : ptEq (vtx l i) (vtx l j) = false := by
  rw [← Bool.not_eq_true, ptEq_eq]
  intro heq
  rw [← vtx_mod l i, ← vtx_mod l j] at heq
  exact h (hd.inj (Nat.mod_lt _ hn) (Nat.mod_lt _ hn) heq)

theorem ptEq_self (p : P2 ℝ) : ptEq p p = true := (ptEq_eq p p).2 rfl

/-- `edgeOK` on two CONSECUTIVE edges `i`, `i+1` of a cycle with ≥ 3 pairwise different vertices -/
theorem edgeOK_adjacent (l : List (P2 ℝ)) (hd : DistinctIdx l) (h3 : 3 ≤ l.length) (i : Nat) :
    edgeOK (vtx l i, vtx l (i + 1)) (vtx l (i + 1), vtx l (i + 2)) = !foldBack (vtx l i) (vtx l (i + 1)) (vtx l (i + 2)) := by
  have hn : 0 < l.length := by omega
  have h2 : ptEq (vtx l (i + 2)) (vtx l i) = false := by
    apply hd.ptEq_false hn
    intro h
    have : (i + 2) % l.length = (i % l.length + 2) % l.length := by
      rw [Nat.add_mod, Nat.mod_eq_of_lt (show 2 < l.length by omega)]
    rw [this] at h
    have hlt := Nat.mod_lt i hn
    generalize i % l.length = r at h hlt
    by_cases hr : r + 2 < l.length
    · rw [Nat.mod_eq_of_lt hr] at h; omega
    · have : (r + 2) % l.length = r + 2 - l.length := by
        rw [Nat.mod_eq_sub_mod (by omega), Nat.mod_eq_of_lt (by omega)]
      omega
  unfold edgeOK
  simp only [ptEq_self, h2, Bool.true_and, Bool.and_false, Bool.false_eq_true, if_false, if_true]

/-- `edgeOK` on two edges `i < j` that are NOT neighbours in the cycle: they must not meet -/
theorem edgeOK_far (l : List (P2 ℝ)) (hd : DistinctIdx l) (h3 : 3 ≤ l.length) (i j : Nat) (hij : i < j)
    (hj : j < l.length) (hna : ¬ cycAdjacent l.length i j) :
    edgeOK (vtx l i, vtx l (i + 1)) (vtx l j, vtx l (j + 1))
      = !segMeet (vtx l i) (vtx l (i + 1)) (vtx l j) (vtx l (j + 1)) := by
  have hn : 0 < l.length := by omega
  unfold cycAdjacent at hna
  have hi : i < l.length := by omega
  have mi : i % l.length = i := Nat.mod_eq_of_lt hi
  have mj : j % l.length = j := Nat.mod_eq_of_lt hj
  have mi1 : (i + 1) % l.length = i + 1 := Nat.mod_eq_of_lt (by omega)
  have mj1 : (j + 1) % l.length = if j + 1 = l.length then 0 else j + 1 := by
    split_ifs with h
    · rw [h, Nat.mod_self]
    · exact Nat.mod_eq_of_lt (by omega)
  have e1 : ptEq (vtx l (i + 1)) (vtx l j) = false := by
    apply hd.ptEq_false hn; rw [mi1, mj]; omega
  have e2 : ptEq (vtx l (j + 1)) (vtx l i) = false := by
    apply hd.ptEq_false hn; rw [mj1, mi]; split_ifs <;> omega
  have e3 : ptEq (vtx l i) (vtx l j) = false := by
    apply hd.ptEq_false hn; rw [mi, mj]; omega
  have e4 : ptEq (vtx l (i + 1)) (vtx l (j + 1)) = false := by
    apply hd.ptEq_false hn; rw [mi1, mj1]; split_ifs <;> omega
  unfold edgeOK
  simp only [e1, e2, e3, e4, Bool.false_and, Bool.or_self, Bool.false_eq_true, if_false]

/-- `edgeOK` on the first and the last edge of the cycle (they share vertex 0) -/
theorem edgeOK_wrap (l : List (P2 ℝ)) (hd : DistinctIdx l) (h3 : 3 ≤ l.length) :
    edgeOK (vtx l 0, vtx l 1) (vtx l (l.length - 1), vtx l (l.length - 1 + 1))
      = !foldBack (vtx l (l.length - 1)) (vtx l (l.length - 1 + 1)) (vtx l (l.length - 1 + 2)) := by
  have hn : 0 < l.length := by omega
  have h0 : vtx l (l.length - 1 + 1) = vtx l 0 := by
    rw [← vtx_mod, Nat.sub_add_cancel (by omega), Nat.mod_self]
  have h1 : vtx l (l.length - 1 + 2) = vtx l 1 := by
    rw [← vtx_mod]
    have : l.length - 1 + 2 = 1 + l.length := by omega
    rw [this, Nat.add_mod_right, vtx_mod]
  have e1 : ptEq (vtx l 1) (vtx l (l.length - 1)) = false := by
    apply hd.ptEq_false hn
    rw [Nat.mod_eq_of_lt (show 1 < l.length by omega), Nat.mod_eq_of_lt (show l.length - 1 < l.length by omega)]
    omega
  rw [h0, h1]
  unfold edgeOK
  simp only [e1, ptEq_self, Bool.false_and, Bool.and_true, Bool.false_eq_true, if_false, if_true]

end C15
end
