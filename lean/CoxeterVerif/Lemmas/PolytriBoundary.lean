import CoxeterVerif.Lemmas.Planar
import CoxeterVerif.Model.Polyhedron
/-!
  Helper lemmas for C02: the boundary chain of the ear clipping `Polytri.triangulate`
  (model in `Model/Polyhedron.lean`).

  * list level: the directed edge cycle of a polygon is invariant (as a 1-chain) under rotation of
    the vertex list; clipping the ear `(l[i], l[i+1], l[i+2])` (indices mod `n`, i.e. including the
    wrap-around positions `i = n-2`, `i = n-1`) splits the cycle into the triangle's boundary plus
    the cycle of the list with `l[(i+1) % n]` erased; erasing a vertex equal to a neighbour does
    not change the chain;
  * loop level: induction on the fuel of `Polytri.loop` with the invariant
    `cycleEdges poly ≡ (triangles emitted from now on).flatMap triEdges ++ cycleEdges rest`.
-/
open Scalar
set_option maxRecDepth 4000
noncomputable section

/-! ### chains -/

theorem sumEdges_append (φ : Edge → ℝ) (E F : List Edge) :
    sumEdges φ (E ++ F) = sumEdges φ E + sumEdges φ F := by
  simp [sumEdges]

theorem sumEdges_cons (φ : Edge → ℝ) (e : Edge) (E : List Edge) :
    sumEdges φ (e :: E) = φ e + sumEdges φ E := by
  simp [sumEdges]

theorem OddEdge.self_zero {φ : Edge → ℝ} (hφ : OddEdge φ) (p : V3 ℝ) : φ (p, p) = 0 := by
  have := hφ p p; linarith

namespace EdgeChainEq

theorem append_left (A : List Edge) {E F : List Edge} (h : EdgeChainEq E F) :
    EdgeChainEq (A ++ E) (A ++ F) := fun φ hφ => by
  rw [sumEdges_append, sumEdges_append, h φ hφ]

theorem append_right {E F : List Edge} (h : EdgeChainEq E F) (A : List Edge) :
    EdgeChainEq (E ++ A) (F ++ A) := fun φ hφ => by
  rw [sumEdges_append, sumEdges_append, h φ hφ]

end EdgeChainEq

/-! ### the edge cycle and rotations of the vertex list -/

theorem cycleEdges_eq (w : List (V3 ℝ)) : cycleEdges w = w.zip (w.rotate 1) := by
  unfold cycleEdges; rw [rotl_eq_rotate]

theorem cycleEdges_rotate (w : List (V3 ℝ)) (k : Nat) :
    cycleEdges (w.rotate k) = (cycleEdges w).rotate k := by
  simp only [cycleEdges_eq, List.zip]
  rw [List.zipWith_rotate_distrib _ _ _ _ (by simp), List.rotate_rotate, List.rotate_rotate,
    Nat.add_comm]

theorem cycleEdges_rotate_chain (w : List (V3 ℝ)) (k : Nat) :
    EdgeChainEq (cycleEdges (w.rotate k)) (cycleEdges w) := by
  rw [cycleEdges_rotate]; exact EdgeChainEq.perm (List.rotate_perm _ _)

theorem cycleEdges_isRotated {l l' : List (V3 ℝ)} (h : l ~r l') :
    EdgeChainEq (cycleEdges l) (cycleEdges l') := by
  obtain ⟨k, rfl⟩ := h
  exact (cycleEdges_rotate_chain l k).symm

theorem cycleEdges_cons_cons (a b : V3 ℝ) (r : List (V3 ℝ)) :
    cycleEdges (a :: b :: r) = (a, b) :: (b :: r).zip (r ++ [a]) := by
  simp [cycleEdges_eq]

theorem cycleEdges_nil : cycleEdges [] = [] := by simp [cycleEdges_eq]
theorem cycleEdges_single (a : V3 ℝ) : cycleEdges [a] = [(a, a)] := by simp [cycleEdges_eq]
theorem cycleEdges_pair (a b : V3 ℝ) : cycleEdges [a, b] = [(a, b), (b, a)] := by
  simp [cycleEdges_eq]

/-- the cycle of at most two vertices is the zero chain -/
theorem cycleEdges_short {rest : List (V3 ℝ)} (h : rest.length ≤ 2) :
    EdgeChainEq (cycleEdges rest) [] := by
  match rest, h with
  | [], _ => rw [cycleEdges_nil]; exact EdgeChainEq.refl _
  | [a], _ =>
    rw [cycleEdges_single]
    intro φ hφ; simp [sumEdges, hφ.self_zero]
  | [a, b], _ =>
    rw [cycleEdges_pair]; exact EdgeChainEq.cancel a b []

/-- **ear at the front**: clipping `(a, b, c)` from `a :: b :: c :: r` -/
theorem ear_front (a b c : V3 ℝ) (r : List (V3 ℝ)) :
    EdgeChainEq (cycleEdges (a :: b :: c :: r))
      (triEdges ⟨a, b, c⟩ ++ cycleEdges (a :: c :: r)) := by
  intro φ hφ
  rw [cycleEdges_cons_cons, cycleEdges_cons_cons]
  simp only [triEdges, List.zip_cons_cons, List.cons_append, List.nil_append, sumEdges_cons]
  have := hφ a c
  linarith

/-- **duplicate at the front**: erasing `b` from `a :: b :: c :: r` when `a = b` or `b = c` -/
theorem dup_front (a b c : V3 ℝ) (r : List (V3 ℝ)) (h : a = b ∨ b = c) :
    EdgeChainEq (cycleEdges (a :: b :: c :: r)) (cycleEdges (a :: c :: r)) := by
  intro φ hφ
  rw [cycleEdges_cons_cons, cycleEdges_cons_cons]
  simp only [List.zip_cons_cons, List.cons_append, sumEdges_cons]
  rcases h with rfl | rfl
  · rw [hφ.self_zero]; ring
  · rw [hφ.self_zero]; ring

/-! ### erasing the middle vertex of the looped slice `i, i+1, i+2 (mod n)` -/

/-- element `i mod len` of a list (list version of `Polytri.getLoop`) -/
def loopGet (l : List (V3 ℝ)) (i : Nat) : V3 ℝ := l.getD (i % l.length) V3.zero

theorem loopGet_eq_rotate {l : List (V3 ℝ)} {i k : Nat} (hk : k < l.length) :
    loopGet l (i + k) = (l.rotate i).getD k V3.zero := by
  unfold loopGet
  rw [List.getD_eq_getElem?_getD, List.getD_eq_getElem?_getD, List.getElem?_rotate hk, Nat.add_comm]

/-- rotating by `i` brings the looped slice to the front -/
theorem rotate_front {l : List (V3 ℝ)} (hn : 3 ≤ l.length) (i : Nat) :
    ∃ r, l.rotate i = loopGet l i :: loopGet l (i + 1) :: loopGet l (i + 2) :: r := by
  have h0 := loopGet_eq_rotate (l := l) (i := i) (k := 0) (by omega)
  have h1 := loopGet_eq_rotate (l := l) (i := i) (k := 1) (by omega)
  have h2 := loopGet_eq_rotate (l := l) (i := i) (k := 2) (by omega)
  have hlen : (l.rotate i).length = l.length := List.length_rotate _ _
  match hr : l.rotate i, hlen with
  | x :: y :: z :: r, _ =>
    rw [hr] at h0 h1 h2
    simp only [Nat.add_zero, List.getD_cons_zero, List.getD_cons_succ] at h0 h1 h2
    exact ⟨r, by rw [h0, h1, h2]⟩
  | [], h => simp at h; omega
  | [_], h => simp at h; omega
  | [_, _], h => simp at h; omega

/-- erasing index `(i+1) % n` of `l` is, up to rotation, erasing index `1` of `l.rotate i`
(covers the wrap-around position `i = n - 1`, where index `0` is erased) -/
theorem eraseIdx_isRotated {l : List (V3 ℝ)} (hn : 2 ≤ l.length) {i : Nat} (hi : i < l.length) :
    l.eraseIdx ((i + 1) % l.length) ~r (l.rotate i).eraseIdx 1 := by
  rw [List.rotate_eq_drop_append_take hi.le]
  by_cases h : i + 1 < l.length
  · rw [Nat.mod_eq_of_lt h]
    have hd : 1 < (l.drop i).length := by rw [List.length_drop]; omega
    rw [List.eraseIdx_append_of_lt_length hd]
    conv_lhs => rw [← List.take_append_drop i l]
    have ht : (l.take i).length = i := by rw [List.length_take]; omega
    rw [List.eraseIdx_append_of_length_le (by omega), ht, Nat.add_sub_cancel_left]
    exact List.isRotated_append
  · have hi' : i + 1 = l.length := by omega
    rw [hi', Nat.mod_self]
    -- l = b :: m ++ [a]
    match l, hn, hi' with
    | b :: m, hn, hi' =>
      simp only [List.length_cons, Nat.add_right_cancel_iff] at hi' hn
      subst hi'
      rcases List.eq_nil_or_concat m with rfl | ⟨m', a, rfl⟩
      · simp at hn
      · simp only [List.concat_eq_append]
        have e : (b :: (m' ++ [a])) = (b :: m') ++ [a] := by simp
        have hl : (m' ++ [a]).length = (b :: m').length := by simp
        rw [List.eraseIdx_cons_zero, hl, e, List.drop_left, List.take_left]
        simp only [List.singleton_append, List.eraseIdx_cons_succ, List.eraseIdx_cons_zero]
        exact List.isRotated_append (l := m') (l' := [a])

/-- **ear removal, any position** (indices mod `n`, wrap-around included) -/
theorem ear_removal {l : List (V3 ℝ)} (hn : 3 ≤ l.length) {i : Nat} (hi : i < l.length) :
    EdgeChainEq (cycleEdges l)
      (triEdges ⟨loopGet l i, loopGet l (i + 1), loopGet l (i + 2)⟩
        ++ cycleEdges (l.eraseIdx ((i + 1) % l.length))) := by
  obtain ⟨r, hr⟩ := rotate_front hn i
  have hrot := eraseIdx_isRotated (by omega) hi
  rw [hr] at hrot
  simp only [List.eraseIdx_cons_succ, List.eraseIdx_cons_zero] at hrot
  refine (cycleEdges_rotate_chain l i).symm.trans ?_
  rw [hr]
  refine (ear_front _ _ _ r).trans ?_
  exact EdgeChainEq.append_left _ (cycleEdges_isRotated hrot).symm

/-- **duplicate removal, any position** -/
theorem dup_removal {l : List (V3 ℝ)} (hn : 3 ≤ l.length) {i : Nat} (hi : i < l.length)
    (h : loopGet l i = loopGet l (i + 1) ∨ loopGet l (i + 1) = loopGet l (i + 2)) :
    EdgeChainEq (cycleEdges l) (cycleEdges (l.eraseIdx ((i + 1) % l.length))) := by
  obtain ⟨r, hr⟩ := rotate_front hn i
  have hrot := eraseIdx_isRotated (by omega) hi
  rw [hr] at hrot
  simp only [List.eraseIdx_cons_succ, List.eraseIdx_cons_zero] at hrot
  refine (cycleEdges_rotate_chain l i).symm.trans ?_
  rw [hr]
  exact (dup_front _ _ _ r h).trans (cycleEdges_isRotated hrot).symm

/-! ### the loop of `Polytri.triangulate` -/

namespace Polytri

theorem veq_eq {a b : V3 ℝ} (h : veq a b = true) : a = b := by
  unfold veq at h
  simp only [Bool.and_eq_true] at h
  obtain ⟨⟨hx, hy⟩, hz⟩ := h
  have hx' : a.x = b.x := of_decide_eq_true hx
  have hy' : a.y = b.y := of_decide_eq_true hy
  have hz' : a.z = b.z := of_decide_eq_true hz
  cases a; cases b; simp_all

theorem getLoop_eq (poly : Array (V3 ℝ)) (i : Nat) : getLoop poly i = loopGet poly.toList i := by
  unfold getLoop loopGet
  simp [Array.getD_eq_getD_getElem?, List.getD_eq_getElem?_getD]

/-- the vector `Σ_k p_k × p_{k+1}` (twice the vector area) that `triangulate` computes for the
vertices left when no ear is found -/
def restVec (rest : List (V3 ℝ)) : V3 ℝ :=
  (List.range rest.toArray.size).foldl
    (fun s k => s + V3.cross (getLoop rest.toArray k) (getLoop rest.toArray (k + 1))) V3.zero

/-- the degenerate-remainder exit condition of `Polytri.loop` (the `i ≥ len(polygon)` branch of
`triangulate`): `|Σ p_k × p_{k+1}|² ≤ 1e-12 |normal|²` for the vertices `rest` that are left -/
def restDegenerate (normal : V3 ℝ) (rest : List (V3 ℝ)) : Prop :=
  V3.dot (restVec rest) (restVec rest) ≤ (lit 1 / lit 1000000000000) * V3.dot normal normal

/-- component `c` of the per-edge cross product `p × q`: an odd edge functional -/
def crossPhi (c : Nat) : Edge → ℝ := fun e => (V3.cross e.1 e.2).get c

theorem crossPhi_odd (c : Nat) : OddEdge (crossPhi c) := by
  intro ⟨px, py, pz⟩ ⟨qx, qy, qz⟩
  simp only [crossPhi, V3.cross, V3.get]
  split_ifs <;> ring

theorem get_add (u v : V3 ℝ) (c : Nat) : (u + v).get c = u.get c + v.get c := by
  unfold V3.get; split_ifs <;> rfl

theorem foldl_add_get (g : Nat → V3 ℝ) (L : List Nat) (z : V3 ℝ) (c : Nat) :
    (L.foldl (fun s k => s + g k) z).get c = z.get c + (L.map fun k => (g k).get c).sum := by
  induction L generalizing z with
  | nil => simp
  | cons k L ih => simp only [List.foldl_cons, ih, get_add, List.map_cons, List.sum_cons]; ring

theorem range_loop_eq_cycle (l : List (V3 ℝ)) (f : V3 ℝ → V3 ℝ → ℝ) :
    (List.range l.length).map (fun k => f (loopGet l k) (loopGet l (k + 1)))
      = (cycleEdges l).map (fun e => f e.1 e.2) := by
  apply List.ext_getElem
  · simp [cycleEdges_eq]
  · intro k h1 h2
    have hk : k < l.length := by simpa using h1
    simp only [List.getElem_map, List.getElem_range, cycleEdges_eq, List.getElem_zip,
      List.getElem_rotate]
    unfold loopGet
    rw [List.getD_eq_getElem?_getD, List.getD_eq_getElem?_getD, Nat.mod_eq_of_lt hk,
      List.getElem?_eq_getElem hk, List.getElem?_eq_getElem (Nat.mod_lt _ (by omega))]
    rfl

/-- the remainder vector is, component by component, the sum of the odd functional `p × q` over
the remainder's edge cycle -/
theorem restVec_get (rest : List (V3 ℝ)) (c : Nat) :
    (restVec rest).get c = sumEdges (crossPhi c) (cycleEdges rest) := by
  unfold restVec
  rw [foldl_add_get]
  simp only [getLoop_eq, List.size_toArray]
  rw [range_loop_eq_cycle rest (fun p q => (V3.cross p q).get c)]
  have hz : (V3.zero : V3 ℝ).get c = 0 := by
    simp only [V3.get, V3.zero, Scalar.lit, Scalar.ofNat_real]; split_ifs <;> simp
  rw [hz, zero_add]; rfl

theorem size_erase (poly : Array (V3 ℝ)) {j : Nat} (hj : j < poly.size) :
    (poly.eraseIdxIfInBounds j).size + 1 = poly.size := by
  rw [← Array.length_toList, Array.toList_eraseIdxIfInBounds, List.length_eraseIdx_of_lt (by simpa using hj)]
  simp only [Array.length_toList]; omega

/-- what the loop guarantees about its result, relative to its current state -/
structure LoopPost (normal : V3 ℝ) (poly : List (V3 ℝ)) (new : List (Tri ℝ)) (rest : List (V3 ℝ)) :
    Prop where
  chain : EdgeChainEq (cycleEdges poly) (new.flatMap triEdges ++ cycleEdges rest)
  exit : rest.length ≤ 2 ∨ restDegenerate normal rest
  count : new.length + rest.length ≤ poly.length
  two : 2 ≤ poly.length → 2 ≤ rest.length
  le : new.length ≤ poly.length - 2
  sub : rest.Sublist poly

theorem LoopPost.erase {normal : V3 ℝ} {poly : List (V3 ℝ)} {j : Nat} (hj : j < poly.length)
    (h3 : 3 ≤ poly.length) {emit new : List (Tri ℝ)} {rest : List (V3 ℝ)} (he : emit.length ≤ 1)
    (hc : EdgeChainEq (cycleEdges poly) (emit.flatMap triEdges ++ cycleEdges (poly.eraseIdx j)))
    (p : LoopPost normal (poly.eraseIdx j) new rest) : LoopPost normal poly (emit ++ new) rest where
  chain := by
    rw [List.flatMap_append, List.append_assoc]
    exact hc.trans (EdgeChainEq.append_left _ p.chain)
  exit := p.exit
  count := by
    have := p.count
    rw [List.length_eraseIdx_of_lt hj] at this
    rw [List.length_append]; omega
  two := fun _ => p.two (by rw [List.length_eraseIdx_of_lt hj]; omega)
  le := by
    have := p.le
    rw [List.length_eraseIdx_of_lt hj] at this
    rw [List.length_append]; omega
  sub := p.sub.trans (List.eraseIdx_sublist _ _)

/-- **loop invariant** (induction on the fuel): whenever the loop returns `tris`, these are the
triangles accumulated so far followed by new ones whose boundary, together with the cycle of the
final remainder `rest`, is chain-equal to the cycle of the current polygon. -/
theorem loop_boundary (normal : V3 ℝ) (fuel : Nat) :
    ∀ (poly : Array (V3 ℝ)) (i : Nat) (acc tris : List (Tri ℝ)),
      loop normal fuel poly i acc = .ok tris →
      ∃ (new : List (Tri ℝ)) (rest : List (V3 ℝ)),
        tris = acc.reverse ++ new ∧ LoopPost normal poly.toList new rest := by
  induction fuel with
  | zero => intro poly i acc tris h; simp [loop] at h
  | succ fuel ih =>
    intro poly i acc tris h
    rw [loop] at h
    by_cases h1 : poly.size ≤ 2
    · rw [if_pos h1] at h
      refine ⟨[], poly.toList, ?_, ?_⟩
      · simpa using (Except.ok.inj h).symm
      · exact ⟨by simpa using EdgeChainEq.refl _, Or.inl (by simpa using h1), by simp,
          fun h => h, by simp, List.Sublist.refl _⟩
    · rw [if_neg h1] at h
      have h3 : 3 ≤ poly.toList.length := by simp only [Array.length_toList]; omega
      by_cases h2 : i ≥ poly.size
      · rw [if_pos h2] at h
        simp only [] at h
        split_ifs at h with hdeg
        refine ⟨[], poly.toList, ?_, ?_⟩
        · simpa using (Except.ok.inj h).symm
        · refine ⟨by simpa using EdgeChainEq.refl _, Or.inr ?_, by simp, fun h => h,
            by simp, List.Sublist.refl _⟩
          unfold restDegenerate restVec
          simpa using hdeg
      · rw [if_neg h2] at h
        simp only [] at h
        have hi : i < poly.toList.length := by simp only [Array.length_toList]; omega
        have hj : (i + 1) % poly.size < poly.toList.length := by
          simp only [Array.length_toList]; exact Nat.mod_lt _ (by omega)
        have hsz : poly.size = poly.toList.length := by simp
        by_cases h4 : (veq (getLoop poly i) (getLoop poly (i + 1))
            || veq (getLoop poly (i + 1)) (getLoop poly (i + 2))) = true
        · rw [if_pos h4] at h
          obtain ⟨new, rest, hnew, hp⟩ := ih _ _ _ _ h
          rw [Array.toList_eraseIdxIfInBounds] at hp
          refine ⟨new, rest, hnew, ?_⟩
          have hdup : loopGet poly.toList i = loopGet poly.toList (i + 1)
              ∨ loopGet poly.toList (i + 1) = loopGet poly.toList (i + 2) := by
            simp only [Bool.or_eq_true] at h4
            rcases h4 with h4 | h4
            · left; rw [← getLoop_eq, ← getLoop_eq]; exact veq_eq h4
            · right; rw [← getLoop_eq, ← getLoop_eq]; exact veq_eq h4
          have hc := dup_removal h3 hi hdup
          rw [← hsz] at hc
          exact LoopPost.erase (emit := []) hj h3 (by simp) (by simpa using hc) hp
        · rw [if_neg h4] at h
          split_ifs at h with h5 h6
          · obtain ⟨new, rest, hnew, hp⟩ := ih _ _ _ _ h
            rw [Array.toList_eraseIdxIfInBounds] at hp
            refine ⟨⟨getLoop poly i, getLoop poly (i + 1), getLoop poly (i + 2)⟩ :: new, rest,
              by simpa using hnew, ?_⟩
            have hc := ear_removal h3 hi
            rw [← hsz, ← getLoop_eq, ← getLoop_eq, ← getLoop_eq] at hc
            exact LoopPost.erase (emit := [_]) hj h3 (by simp) (by simpa using hc) hp
          · exact ih _ _ _ _ h
          · exact ih _ _ _ _ h

/-! #### the Newell normal is minus the cycle sum of `p × q` -/

/-- the summand of `calculate_normal_3d` for the edge `(p1, p2)` -/
def newellTerm (p1 p2 : V3 ℝ) : V3 ℝ :=
  ⟨(p2 - p1).y * (p2 + p1).z, (p2 - p1).z * (p2 + p1).x, (p2 - p1).x * (p2 + p1).y⟩

theorem newell_go_get (first : V3 ℝ) (l : List (V3 ℝ)) (acc : V3 ℝ) (c : Nat) :
    (newell.go first l acc).get c
      = acc.get c + ((l.zip (l.tail ++ [first])).map fun e => (newellTerm e.1 e.2).get c).sum := by
  induction l generalizing acc with
  | nil => simp [newell.go]
  | cons p1 t ih =>
    cases t with
    | nil =>
      simp only [newell.go, List.tail_cons, List.nil_append, List.zip_cons_cons, List.zip_nil_left,
        List.map_cons, List.map_nil, List.sum_cons, List.sum_nil, add_zero]
      unfold newellTerm V3.get; split_ifs <;> rfl
    | cons p2 rest =>
      simp only [newell.go]
      rw [ih]
      simp only [List.tail_cons, List.cons_append, List.zip_cons_cons, List.map_cons, List.sum_cons,
        ← add_assoc]
      congr 1
      unfold newellTerm V3.get; split_ifs <;> rfl

/-- the telescoping part of the Newell summand -/
def newellPot (c : Nat) (p : V3 ℝ) : ℝ := if c = 0 then p.y * p.z else if c = 1 then p.z * p.x else p.x * p.y

theorem newellTerm_get (p q : V3 ℝ) (c : Nat) :
    (newellTerm p q).get c = -(crossPhi c (p, q)) + (newellPot c q - newellPot c p) := by
  obtain ⟨px, py, pz⟩ := p
  obtain ⟨qx, qy, qz⟩ := q
  simp only [newellTerm, crossPhi, newellPot, V3.get, V3.cross, V3.sub_x, V3.sub_y, V3.sub_z,
    V3.add_x, V3.add_y, V3.add_z]
  split_ifs <;> ring

theorem sum_zipWith_diff (g : V3 ℝ → ℝ) (l l' : List (V3 ℝ)) (h : l'.length = l.length) :
    ((l.zip l').map fun e => g e.2 - g e.1).sum = (l'.map g).sum - (l.map g).sum := by
  induction l generalizing l' with
  | nil =>
    have : l' = [] := List.length_eq_zero_iff.mp (by simpa using h)
    subst this; simp
  | cons a t ih =>
    match l', h with
    | b :: t', h =>
      simp only [List.zip_cons_cons, List.map_cons, List.sum_cons]
      rw [ih t' (by simpa using h)]; ring

theorem cycle_telescope (g : V3 ℝ → ℝ) (l : List (V3 ℝ)) :
    ((cycleEdges l).map fun e => g e.2 - g e.1).sum = 0 := by
  rw [cycleEdges_eq, sum_zipWith_diff g l _ (List.length_rotate _ _),
    ((List.rotate_perm l 1).map g).sum_eq, sub_self]

/-- **`calculate_normal_3d` = −Σ p × q** over the polygon's edge cycle, component by component -/
theorem newell_get (poly : List (V3 ℝ)) (c : Nat) :
    (newell poly).get c = -sumEdges (crossPhi c) (cycleEdges poly) := by
  have hz : (V3.zero : V3 ℝ).get c = 0 := by
    simp only [V3.get, V3.zero, Scalar.lit, Scalar.ofNat_real]; split_ifs <;> simp
  cases poly with
  | nil => simp [newell, cycleEdges_nil, sumEdges, hz]
  | cons first t =>
    have hcyc : (first :: t).zip ((first :: t).tail ++ [first]) = cycleEdges (first :: t) := by
      simp [cycleEdges_eq]
    simp only [newell]
    rw [newell_go_get, hz, zero_add, hcyc]
    simp only [newellTerm_get]
    have := cycle_telescope (newellPot c) (first :: t)
    have hsplit : ∀ E : List Edge,
        (E.map fun e => -(crossPhi c (e.1, e.2)) + (newellPot c e.2 - newellPot c e.1)).sum
          = -(E.map (crossPhi c)).sum + (E.map fun e => newellPot c e.2 - newellPot c e.1).sum := by
      intro E
      induction E with
      | nil => simp
      | cons e E ih => simp only [List.map_cons, List.sum_cons, ih]; ring
    rw [hsplit, this, add_zero]; rfl

/-! #### evaluation helpers on literal arrays (for the non-vacuity examples) -/
theorem getLoop4 (a b c d : V3 ℝ) : getLoop #[a, b, c, d] 0 = a ∧ getLoop #[a, b, c, d] 1 = b ∧
    getLoop #[a, b, c, d] 2 = c := ⟨rfl, rfl, rfl⟩
theorem getLoop3 (a b c : V3 ℝ) : getLoop #[a, b, c] 0 = a ∧ getLoop #[a, b, c] 1 = b ∧
    getLoop #[a, b, c] 2 = c := ⟨rfl, rfl, rfl⟩
theorem erase4 (a b c d : V3 ℝ) :
    (#[a, b, c, d] : Array (V3 ℝ)).eraseIdxIfInBounds (1 % 4) = #[a, c, d] := by
  simp [Array.eraseIdxIfInBounds]
theorem erase3 (a b c : V3 ℝ) : (#[a, b, c] : Array (V3 ℝ)).eraseIdxIfInBounds (1 % 3) = #[a, c] := by
  simp [Array.eraseIdxIfInBounds]
theorem others4 (a b c d : V3 ℝ) : others #[a, b, c, d] 0 = [d] := by simp [others]
theorem others3 (a b c : V3 ℝ) : others #[a, b, c] 0 = [] := by simp [others]

end Polytri

end
