import CoxeterVerif.Lemmas.Inside3DSphero3
import CoxeterVerif.Spec.Inside3DCheck
/-!
  Soundness of the checkers `exactFacetsCheck` / `spheroExactCheck` (Spec/Inside3DCheck.lean) as the
  driver evaluates them (exactly, over ℚ): acceptance gives the hypotheses `ExactFacets` / `SpheroExact`
  of `cp_inside_iff_hull` / `sphero_inside_iff` for the real-valued data.
-/
open Scalar
set_option maxRecDepth 4000
noncomputable section

namespace Inside3D
open Spec.In3D CCk

/-- the real plane of a rational equation -/
def planeR (e : V3 ℚ × ℚ) : Plane ℝ := ⟨v3OfRat e.1, (e.2 : ℝ)⟩
def facetR (f : Tri ℚ × V3 ℚ × ℚ) : Tri ℝ × Plane ℝ := (triOfRat f.1, planeR f.2)
/-- the real face data of a checked face -/
def faceR (f : FaceC ℚ) : FaceData := ⟨planeR (f.n, f.d), f.prism.map planeR, f.pts.map v3OfRat⟩

theorem planeDist_planeR (e : V3 ℚ × ℚ) (x : V3 ℚ) :
    CP.planeDist (planeR e) (v3OfRat x) = ((planeVal e.1 e.2 x : ℚ) : ℝ) := by
  rw [← planeVal_ofRat]; rfl

theorem isZero_rat {x : ℚ} (h : isZero x = true) : x = 0 := by
  have := eqb_rat_sound _ _ h
  rw [this]; simp [Scalar.lit, Scalar.ofNat]

theorem v3OfRat_inj {u v : V3 ℚ} (h : v3OfRat u = v3OfRat v) : u = v := by
  obtain ⟨ux, uy, uz⟩ := u; obtain ⟨vx, vy, vz⟩ := v
  simp only [v3OfRat, V3.mk.injEq, Rat.cast_inj] at h
  simp only [V3.mk.injEq]; exact h

theorem planeEqb_sound {n : V3 ℚ} {d : ℚ} {e : V3 ℚ × ℚ} (h : planeEqb n d e = true) : (n, d) = e := by
  unfold planeEqb at h
  simp only [Bool.and_eq_true] at h
  obtain ⟨e1, e2⟩ := e
  have a := v3Eqb_sound eqb_rat_sound h.1
  have b := eqb_rat_sound _ _ h.2
  simp only at a b
  rw [a, b]

/-- **Soundness of `exactFacetsCheck` over ℚ.** -/
theorem exactFacetsCheck_rat_sound (V : List (V3 ℚ)) (eqs : List (V3 ℚ × ℚ)) (ws : List ℚ)
    (F : List (Tri ℚ × V3 ℚ × ℚ)) (h : exactFacetsCheck V eqs ws F = true) :
    ExactFacets (eqs.map planeR) (V.map v3OfRat) := by
  unfold exactFacetsCheck at h
  simp only [Bool.and_eq_true, decide_eq_true_iff, List.all_eq_true, Bool.not_eq_true'] at h
  obtain ⟨⟨⟨⟨⟨⟨hcon, hlen⟩, hw⟩, hs⟩, hne⟩, hcl⟩, hF⟩ := h
  have hs' : Scalar.sum ws = (lit 1 : ℚ) := eqb_rat_sound _ _ hs
  refine ⟨?_, v3OfRat (comb ws V), F.map facetR, ?_, ?_, ?_, ?_⟩
  · intro e' he' v' hv'
    obtain ⟨e, he, rfl⟩ := List.mem_map.mp he'
    obtain ⟨v, hv, rfl⟩ := List.mem_map.mp hv'
    rw [planeDist_planeR]
    have := hcon e he v hv
    rw [lit0_rat] at this
    exact_mod_cast this
  · exact memHull_comb_ofRat ws V hlen (fun w hw' => by simpa using hw w hw') hs'
  · intro h0
    have : F = [] := List.map_eq_nil_iff.mp h0
    rw [this] at hne; simp at hne
  · have := closedCheck_rat_sound' hcl
    rw [List.map_map] at this ⊢
    exact this
  · intro f' hf'
    obtain ⟨f, hf, rfl⟩ := List.mem_map.mp hf'
    have hok := hF f hf
    try simp only [Bool.and_eq_true, decide_eq_true_iff] at hok
    obtain ⟨⟨⟨⟨⟨⟨⟨⟨hmem, hva⟩, hvb⟩, hvc⟩, hD⟩, hoo⟩, za⟩, zb⟩, zc⟩ := hok
    obtain ⟨⟨a, b, c⟩, n, d⟩ := f
    simp only [facetR, triOfRat, triTo]
    rw [lit0_rat] at hD hoo
    refine ⟨?_, ⟨mem_of_any_v3Eqb hva, mem_of_any_v3Eqb hvb, mem_of_any_v3Eqb hvc⟩, ?_, ?_, ?_, ?_, ?_⟩
    · rw [List.any_eq_true] at hmem
      obtain ⟨e, he, heq⟩ := hmem
      rw [planeEqb_sound heq]
      exact List.mem_map.mpr ⟨e, he, rfl⟩
    · rw [orient_ofRat]; exact_mod_cast hD
    · rw [planeDist_planeR]; exact_mod_cast hoo
    · rw [planeDist_planeR, isZero_rat za]; simp
    · rw [planeDist_planeR, isZero_rat zb]; simp
    · rw [planeDist_planeR, isZero_rat zc]; simp

theorem prismVertices_ofRat (r : ℚ) (n : V3 ℚ) (pts : List (V3 ℚ)) :
    Sphero.prismVertices (r : ℝ) (v3OfRat n) (pts.map v3OfRat) =
      (Sphero.prismVertices r n pts).map v3OfRat := by
  unfold Sphero.prismVertices
  simp only [List.map_append, List.map_map]
  congr 1 <;> apply List.map_congr_left <;> intro v _ <;>
    (obtain ⟨x, y, z⟩ := v; obtain ⟨nx, ny, nz⟩ := n
     simp only [Function.comp, v3OfRat]
     ext
     · first | (show (x : ℝ) - (r : ℝ) * (nx : ℝ) = ((x - r * nx : ℚ) : ℝ); push_cast; ring)
             | (show (x : ℝ) + (r : ℝ) * (nx : ℝ) = ((x + r * nx : ℚ) : ℝ); push_cast; ring)
     · first | (show (y : ℝ) - (r : ℝ) * (ny : ℝ) = ((y - r * ny : ℚ) : ℝ); push_cast; ring)
             | (show (y : ℝ) + (r : ℝ) * (ny : ℝ) = ((y + r * ny : ℚ) : ℝ); push_cast; ring)
     · first | (show (z : ℝ) - (r : ℝ) * (nz : ℝ) = ((z - r * nz : ℚ) : ℝ); push_cast; ring)
             | (show (z : ℝ) + (r : ℝ) * (nz : ℝ) = ((z + r * nz : ℚ) : ℝ); push_cast; ring))

theorem roll_map {β γ : Type} (g : β → γ) (l : List β) : roll (l.map g) = (roll l).map g := by
  cases l with
  | nil => rfl
  | cons a l => simp [roll]

theorem normSq_ofRat (n : V3 ℚ) : V3.normSq (v3OfRat n) = ((V3.normSq n : ℚ) : ℝ) := by
  obtain ⟨x, y, z⟩ := n
  simp only [V3.normSq, V3.dot, v3OfRat]; push_cast; ring

theorem mem_map_v3OfRat {v : V3 ℚ} {l : List (V3 ℚ)} (h : v3OfRat v ∈ l.map v3OfRat) : v ∈ l := by
  obtain ⟨u, hu, he⟩ := List.mem_map.mp h
  rw [← v3OfRat_inj he]; exact hu

/-- **Soundness of `spheroExactCheck` over ℚ.** -/
theorem spheroExactCheck_rat_sound (V : List (V3 ℚ)) (r : ℚ) (Fs : List (FaceC ℚ)) (ws : List ℚ)
    (F : List (Tri ℚ × V3 ℚ × ℚ)) (h : spheroExactCheck V r Fs ws F = true) :
    SpheroExact (V.map v3OfRat) (r : ℝ) (Fs.map faceR) := by
  unfold spheroExactCheck at h
  simp only [Bool.and_eq_true, decide_eq_true_iff, List.all_eq_true] at h
  obtain ⟨⟨⟨hr, hcore⟩, hfaces⟩, hpairs⟩ := h
  rw [lit0_rat] at hr
  refine ⟨by exact_mod_cast hr, ?_, ?_, ?_⟩
  · have := exactFacetsCheck_rat_sound V _ ws F hcore
    rw [List.map_map] at this ⊢
    exact this
  · intro f' hf'
    obtain ⟨f, hf, rfl⟩ := List.mem_map.mp hf'
    have hfc := hfaces f hf
    unfold faceCheck at hfc
    simp only [Bool.and_eq_true, Bool.or_eq_true, decide_eq_true_iff, List.all_eq_true, Bool.not_eq_true',
      decide_eq_false_iff_not] at hfc
    obtain ⟨⟨⟨hn, hpts⟩, hall⟩, hprism⟩ := hfc
    refine ⟨?_, ?_, ?_, ?_⟩
    · show V3.normSq (v3OfRat f.n) = 1
      rw [normSq_ofRat, eqb_rat_sound _ _ hn]; simp [Scalar.lit, Scalar.ofNat]
    · intro v' hv'
      obtain ⟨v, hv, rfl⟩ := List.mem_map.mp hv'
      have := hpts v hv
      refine ⟨mem_of_any_v3Eqb this.1, ?_⟩
      show CP.planeDist (planeR (f.n, f.d)) (v3OfRat v) = 0
      rw [planeDist_planeR, isZero_rat this.2]; simp
    · intro v' hv' hz
      obtain ⟨v, hv, rfl⟩ := List.mem_map.mp hv'
      have hz' : CP.planeDist (planeR (f.n, f.d)) (v3OfRat v) = 0 := hz
      rw [planeDist_planeR] at hz'
      have hz0 : planeVal f.n f.d v = 0 := by exact_mod_cast hz'
      rcases hall v hv with hno | hyes
      · exfalso
        have : isZero (planeVal f.n f.d v) = true := by
          unfold isZero; rw [hz0]; exact decide_eq_true (by simp [Scalar.lit, Scalar.ofNat])
        rw [this] at hno; exact Bool.noConfusion hno
      · exact mem_of_any_v3Eqb hyes
    · intro hrpos
      have hrq : (lit 0 : ℚ) < r := by rw [lit0_rat]; exact_mod_cast hrpos
      rcases hprism with hno | hyes
      · exact absurd hrq hno
      · have := exactFacetsCheck_rat_sound _ _ _ _ hyes
        show ExactFacets (f.prism.map planeR) (Sphero.prismVertices (r : ℝ) (v3OfRat f.n) (f.pts.map v3OfRat))
        rw [prismVertices_ofRat]; exact this
  · intro f' hf' g' hg' hne
    obtain ⟨f, hf, rfl⟩ := List.mem_map.mp hf'
    obtain ⟨g, hg, rfl⟩ := List.mem_map.mp hg'
    have hp := hpairs f hf g hg
    unfold pairCheck at hp
    rw [Bool.or_eq_true] at hp
    rcases hp with hsame | hedge
    · exfalso; apply hne
      have := planeEqb_sound hsame
      show planeR (f.n, f.d) = planeR (g.n, g.d)
      rw [this]
    · rw [List.any_eq_true] at hedge
      obtain ⟨⟨s, e⟩, hse, hall⟩ := hedge
      refine ⟨(v3OfRat s, v3OfRat e), ?_, ?_⟩
      · show (v3OfRat s, v3OfRat e) ∈ (f.pts.map v3OfRat).zip (roll (f.pts.map v3OfRat))
        rw [roll_map, List.zip_map]
        exact List.mem_map.mpr ⟨(s, e), hse, rfl⟩
      · intro v' hv' h1 h2
        obtain ⟨v, hv, rfl⟩ := List.mem_map.mp hv'
        have h1' : CP.planeDist (planeR (f.n, f.d)) (v3OfRat v) = 0 := h1
        have h2' : CP.planeDist (planeR (g.n, g.d)) (v3OfRat v) = 0 := h2
        rw [planeDist_planeR] at h1' h2'
        have z1 : planeVal f.n f.d v = 0 := by exact_mod_cast h1'
        have z2 : planeVal g.n g.d v = 0 := by exact_mod_cast h2'
        have i1 : isZero (planeVal f.n f.d v) = true := by
          unfold isZero; rw [z1]; exact decide_eq_true (by simp [Scalar.lit, Scalar.ofNat])
        have i2 : isZero (planeVal g.n g.d v) = true := by
          unfold isZero; rw [z2]; exact decide_eq_true (by simp [Scalar.lit, Scalar.ofNat])
        rw [List.all_eq_true] at hall
        have := hall v hv
        simp only [i1, i2, Bool.not_true, Bool.false_or, Bool.or_eq_true] at this
        rcases this with h | h
        · left; rw [v3Eqb_sound eqb_rat_sound h]
        · right; rw [v3Eqb_sound eqb_rat_sound h]

end Inside3D
end
