import CoxeterVerif.Lemmas.MeshIOFormats
/-!
  Helper lemmas of C20, part 3: X3D / HTML — the `point_indices` insertion loop equals consecutive ranges each
  followed by −1 (`pointIndices_eq`), `splitIdx` inverts it, `chunk3` inverts the flattened `point` list, the
  expanded mesh re-indexes to the original corner coordinates (`corners_expand`), tree readers.
-/
set_option linter.unusedSimpArgs false
namespace MeshIO

/-! ## X3D -/

def ranges : Nat → List Nat → List (List Nat)
  | _, [] => []
  | s, k :: ks => List.range' s k :: ranges (s + k) ks

def cleanIdx (s : Nat) (lens : List Nat) : List Int :=
  (ranges s lens).flatMap fun r => r.map Int.ofNat ++ [-1]

theorem pyInsert_mid {α} (p q : List α) (x : α) {i : Nat} (hi : i = p.length) :
    pyInsert (p ++ q) i x = p ++ x :: q := by
  subst hi
  simp [pyInsert]

theorem pi_fold (fs : List (List Nat)) (done : List Int) (a : Nat) :
    (fs.foldl (fun (st : List Int × Nat) f => (pyInsert st.1 (f.length + st.2) (-1), st.2 + (f.length + 1)))
      (done ++ (List.range' a (sumLen fs)).map Int.ofNat, done.length)).1
    = done ++ cleanIdx a (fs.map List.length) := by
  induction fs generalizing done a with
  | nil => simp [sumLen, cleanIdx, ranges]
  | cons f fs ih =>
    have hs : sumLen (f :: fs) = f.length + sumLen fs := by simp [sumLen]
    have hr : List.range' a (f.length + sumLen fs) = List.range' a f.length ++ List.range' (a + f.length) (sumLen fs) := by
      rw [List.range'_append_1]
    simp only [List.foldl_cons, hs, hr, List.map_append]
    rw [← List.append_assoc, pyInsert_mid _ _ _ (by simp; omega)]
    have := ih (done ++ (List.range' a f.length).map Int.ofNat ++ [-1]) (a + f.length)
    simp only [List.length_append, List.length_map, List.length_range', List.length_cons, List.length_nil] at this
    simp only [List.append_assoc, List.singleton_append] at this ⊢
    rw [show done.length + (f.length + 1) = done.length + f.length + (0 + 1) by omega, this]
    simp [cleanIdx, ranges, List.append_assoc]

theorem pointIndices_eq (faces : List (List Nat)) : pointIndices faces = cleanIdx 0 (faces.map List.length) := by
  have := pi_fold faces [] 0
  simpa [pointIndices, List.range_eq_range', sumLen] using this


/-- corner coordinates, face by face -/
def corners (m : Mesh) : List (List V3T) := m.faces.map fun f => f.map (vat m)

/-- the mesh an X3D `IndexedFaceSet` of coxeter denotes: one point per face corner, consecutive indices -/
def expand (m : Mesh) : Mesh := ⟨(corners m).flatten, ranges 0 (m.faces.map List.length)⟩

theorem splitIdx_face (r : List Nat) {X : List Int} {f : List Nat} {fs : List (List Nat)}
    (h : splitIdx X = some (f :: fs)) : splitIdx (r.map Int.ofNat ++ X) = some ((r ++ f) :: fs) := by
  induction r with
  | nil => simpa using h
  | cons i r ih =>
    have h1 : ¬ ((i : Int) = -1) := by omega
    have h2 : ¬ ((i : Int) < 0) := by omega
    simp only [List.map_cons, List.cons_append, splitIdx, ih, Option.bind_some, Int.ofNat_eq_natCast, h1, h2, if_false]
    simp

theorem splitIdx_clean (rs : List (List Nat)) :
    splitIdx (rs.flatMap fun r => r.map Int.ofNat ++ [-1]) = some rs := by
  induction rs with
  | nil => rfl
  | cons r rs ih =>
    rw [List.flatMap_cons, List.append_assoc]
    have : splitIdx ([-1] ++ rs.flatMap fun r => r.map Int.ofNat ++ [-1]) = some ([] :: rs) := by
      simp [splitIdx, ih]
    simpa using splitIdx_face r this

theorem chunk3_flat (vs : List V3T) : chunk3 (vs.flatMap vtoks) = some vs := by
  induction vs with
  | nil => rfl
  | cons v vs ih => simp [vtoks, chunk3, ih]

theorem points_eq (m : Mesh) : points m = (corners m).flatten.flatMap vtoks := by
  simp only [points, corners, vtoks]
  induction m.faces with
  | nil => rfl
  | cons f fs ih =>
    simp only [List.flatMap_cons, List.map_cons, List.flatten_cons, List.flatMap_append, ih]
    congr 1
    induction f with
    | nil => rfl
    | cons i f ih2 => simp [ih2, vtoks]

theorem corners_mem {m : Mesh} (h : m.WF) : ∀ v ∈ (corners m).flatten, v ∈ m.verts := by
  intro v hv
  simp only [corners, List.mem_flatten, List.mem_map] at hv
  obtain ⟨l, ⟨f, hf, rfl⟩, hv⟩ := hv
  obtain ⟨i, hi, rfl⟩ := List.mem_map.mp hv
  exact vat_mem (h.range f hf i hi)

theorem ranges_length (s : Nat) (lens : List Nat) : (ranges s lens).map List.length = lens := by
  induction lens generalizing s with
  | nil => rfl
  | cons k ks ih => simp [ranges, ih]

theorem ranges_lt (s : Nat) (lens : List Nat) : ∀ r ∈ ranges s lens, ∀ i ∈ r, i < s + lens.foldr (· + ·) 0 := by
  induction lens generalizing s with
  | nil => intro r hr; cases hr
  | cons k ks ih =>
    intro r hr i hi
    simp only [ranges, List.mem_cons] at hr
    rcases hr with rfl | hr
    · have := List.mem_range'_1.mp hi
      simp only [List.foldr_cons]; omega
    · have := ih (s + k) r hr i hi
      simp only [List.foldr_cons]; omega

theorem length_flatten_corners (m : Mesh) :
    (corners m).flatten.length = (m.faces.map List.length).foldr (· + ·) 0 := by
  simp only [corners]
  induction m.faces with
  | nil => rfl
  | cons f fs ih => simp [ih]

theorem expand_inRange (m : Mesh) : inRange (expand m) = true := by
  simp only [inRange, expand, List.all_eq_true, decide_eq_true_eq, length_flatten_corners]
  intro r hr i hi
  simpa using ranges_lt 0 _ r hr i hi

theorem expand_arity {m : Mesh} (h : m.WF) : (expand m).faces.all (fun f => 3 ≤ f.length) = true := by
  simp only [expand, List.all_eq_true, decide_eq_true_eq]
  intro r hr
  have : r.length ∈ (ranges 0 (m.faces.map List.length)).map List.length := List.mem_map.mpr ⟨r, hr, rfl⟩
  rw [ranges_length] at this
  obtain ⟨f, hf, hl⟩ := List.mem_map.mp this
  rw [← hl]; exact h.arity f hf

theorem readFaceSet_x3d {m : Mesh} (h : m.WF) (eq : Str → Str → Bool)
    (h1 : eq cs!"coordIndex" cs!"coordIndex" = true) (h2 : eq cs!"Coordinate" cs!"Coordinate" = true)
    (h3 : eq cs!"point" cs!"point" = true) :
    readFaceSet eq (.node cs!"IndexedFaceSet" [(cs!"coordIndex", join cs!" " ((pointIndices m.faces).map decI))] []
           [.node cs!"Coordinate" [(cs!"point", join cs!" " (points m))] [] []]) = some (expand m) := by
  have hw1 : words isWsX (spaced ((pointIndices m.faces).map decI)) = (pointIndices m.faces).map decI :=
    words_spaced (by decide) fun t ht => by
      obtain ⟨i, _, rfl⟩ := List.mem_map.mp ht
      exact ⟨(wf_decI i).ne_nil, (wf_decI i).free⟩
  have hw2 : words isWsX (spaced (points m)) = points m :=
    words_spaced (by decide) fun t ht => by
      rw [points_eq] at ht
      obtain ⟨v, hv, ht⟩ := List.mem_flatMap.mp ht
      have := wf_vtoks h (corners_mem h v hv) t ht
      exact ⟨this.1.ne_nil, this.1.free⟩
  have hp : mapOpt parseInt ((pointIndices m.faces).map decI) = some (pointIndices m.faces) :=
    mapOpt_map fun x _ => parseInt_decI x
  have hs : splitIdx (pointIndices m.faces) = some (ranges 0 (m.faces.map List.length)) := by
    rw [pointIndices_eq]; exact splitIdx_clean _
  have hc : chunk3 (points m) = some (corners m).flatten := by rw [points_eq]; exact chunk3_flat _
  have ha := expand_arity h
  have hr := expand_inRange m
  simp only [expand] at ha hr
  have ha' : ∀ x ∈ ranges 0 (m.faces.map List.length), 3 ≤ x.length := by simpa using ha
  simp [readFaceSet, attr, child, Xml.attrs, Xml.children, Xml.tag, h1, h2, h3, hw1, hw2, hp, hs, hc, checked, hr,
    expand]
  exact ha'

theorem readX3dLenient_tree (b : Bool) (cls : Str) {m : Mesh} (h : m.WF) :
    readX3dLenient (x3dTree b cls m) = some (expand m) := by
  have hf := readFaceSet_x3d h htmlName (by decide) (by decide) (by decide)
  have e0 : htmlName cs!"x3d" cs!"X3D" = true := by decide
  have e1 : htmlName cs!"Scene" cs!"Scene" = true := by decide
  have e2 : htmlName cs!"shape" cs!"Shape" = true := by decide
  have e3 : htmlName cs!"Appearance" cs!"IndexedFaceSet" = false := by decide
  have e4 : htmlName cs!"IndexedFaceSet" cs!"IndexedFaceSet" = true := by decide
  unfold readX3dLenient readX3dWith x3dTree
  simp only [Xml.tag, child, Xml.children, List.find?, e0, e1, e2, e3, e4, if_true, Option.bind_some, hf]


theorem map_getD_range' {α} (pre L rest : List α) (d : α) :
    (List.range' pre.length L.length).map (fun i => (pre ++ (L ++ rest)).getD i d) = L := by
  apply List.ext_getElem
  · simp
  · intro i h1 h2
    simp only [List.getElem_map, List.getElem_range', Nat.one_mul]
    rw [List.getD_eq_getElem?_getD, List.getElem?_append_right (by omega)]
    simp [List.getElem?_append_left h2, List.getElem?_eq_getElem h2]

theorem unflatten_ranges {α} (Ls : List (List α)) (pre : List α) (d : α) :
    (ranges pre.length (Ls.map List.length)).map (fun r => r.map fun i => (pre ++ Ls.flatten).getD i d) = Ls := by
  induction Ls generalizing pre with
  | nil => rfl
  | cons L Ls ih =>
    simp only [List.map_cons, ranges, List.flatten_cons, map_getD_range']
    congr 1
    have := ih (pre ++ L)
    simpa [List.append_assoc] using this

/-- re-indexing the expanded mesh gives back the cycles of corner coordinates -/
theorem corners_expand (m : Mesh) : corners (expand m) = corners m := by
  have := unflatten_ranges (corners m) [] ([], [], [])
  simp only [List.length_nil, List.nil_append] at this
  have hl : (corners m).map List.length = m.faces.map List.length := by simp [corners]
  rw [hl] at this
  simp only [corners] at this ⊢
  exact this

theorem readHtml_tree (cls : Str) {m : Mesh} (h : m.WF) : readHtml (htmlTree cls m) = some (expand m) := by
  have e0 : htmlName cs!"html" cs!"html" = true := by decide
  have e1 : htmlName cs!"head" cs!"body" = false := by decide
  have e2 : htmlName cs!"body" cs!"body" = true := by decide
  have e3 : htmlName (x3dTree true cls m).tag cs!"x3d" = true := by
    have : (x3dTree true cls m).tag = cs!"x3d" := rfl
    rw [this]; decide
  unfold readHtml htmlTree
  simp only [child, Xml.children, Xml.tag, List.find?, e0, e1, e2, if_true, Option.bind_some]
  have e3' := e3
  simp only [Xml.tag] at e3'
  simp only [e3', Option.bind_some, readX3dLenient_tree true cls h]

theorem readX3d_tree_none (b : Bool) (cls : Str) (m : Mesh) : readX3d (x3dTree b cls m) = none := by
  have e0 : exactName cs!"x3d" cs!"X3D" = false := by decide
  unfold readX3d readX3dWith x3dTree
  simp only [Xml.tag, e0]
  rfl

end MeshIO
