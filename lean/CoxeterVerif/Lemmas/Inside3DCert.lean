import CoxeterVerif.Lemmas.Inside3DHull2
/-!
  C05, convex bodies — part 3: from plane equations (with slack) to the triangle planes, and the
  soundness of the facet-completeness certificate `Spec.In3D.facetCert` as the driver evaluates it
  (exactly, over ℚ, on the implementation's own equations, vertices and faces).
-/
open Scalar
set_option maxRecDepth 4000
noncomputable section

namespace Inside3D
open Spec.In3D CCk

/-! ### one triangle: plane inequality with margin ⇒ inner side of the triangle's own plane -/

theorem planeVal_eq (n : V3 ℝ) (d : ℝ) (x : V3 ℝ) : planeVal n d x = CP.planeDist ⟨n, d⟩ x := rfl

/-- `D · e(p) = Σ βᵢ(p) · e(vertexᵢ)` for the affine function `e` and the tetrahedron `(o, a, b, c)` -/
theorem planeVal_bary (n : V3 ℝ) (d : ℝ) (o a b c p : V3 ℝ) :
    orient o a b c * planeVal n d p =
      orient p a b c * planeVal n d o + orient o p b c * planeVal n d a
        + orient o a p c * planeVal n d b + orient o a b p * planeVal n d c := by
  obtain ⟨ox, oy, oz⟩ := o; obtain ⟨ax, ay, az⟩ := a; obtain ⟨bx, b_y, bz⟩ := b
  obtain ⟨cx, cy, cz⟩ := c; obtain ⟨px, py, pz⟩ := p; obtain ⟨nx, ny, nz⟩ := n
  unfold planeVal orient V3.det3 V3.dot V3.cross
  simp only [V3.sub_x, V3.sub_y, V3.sub_z]; ring

theorem l1_real (v : V3 ℝ) : l1 v = |v.x| + |v.y| + |v.z| := rfl

theorem abs_dot_le (x N : V3 ℝ) (R : ℝ) (hx : |x.x| ≤ R) (hy : |x.y| ≤ R) (hz : |x.z| ≤ R) :
    |V3.dot x N| ≤ R * l1 N := by
  rw [l1_real]
  unfold V3.dot
  have h1 : |x.x * N.x| ≤ R * |N.x| := by rw [abs_mul]; exact mul_le_mul_of_nonneg_right hx (abs_nonneg _)
  have h2 : |x.y * N.y| ≤ R * |N.y| := by rw [abs_mul]; exact mul_le_mul_of_nonneg_right hy (abs_nonneg _)
  have h3 : |x.z * N.z| ≤ R * |N.z| := by rw [abs_mul]; exact mul_le_mul_of_nonneg_right hz (abs_nonneg _)
  have := abs_add_le (x.x * N.x + x.y * N.y) (x.z * N.z)
  have := abs_add_le (x.x * N.x) (x.y * N.y)
  linarith

theorem l1_nonneg (v : V3 ℝ) : 0 ≤ l1 v := by rw [l1_real]; positivity

/-- three slack products bounded by `M` each against the full spread ⇒ their mixed sum is `≤ M` -/
theorem mixed_le {e1 e2 e3 R a1 a2 a3 M : ℝ} (hR : 0 ≤ R)
    (k1 : 0 ≤ a1) (k2 : 0 ≤ a2) (k3 : 0 ≤ a3)
    (g1 : e1 * (R * (a1 + a2 + a3)) ≤ M) (g2 : e2 * (R * (a1 + a2 + a3)) ≤ M)
    (g3 : e3 * (R * (a1 + a2 + a3)) ≤ M) :
    e1 * (R * a1) + e2 * (R * a2) + e3 * (R * a3) ≤ M := by
  have r1 : 0 ≤ R * a1 := mul_nonneg hR k1
  have r2 : 0 ≤ R * a2 := mul_nonneg hR k2
  have r3 : 0 ≤ R * a3 := mul_nonneg hR k3
  have key : ∀ e : ℝ, e1 ≤ e → e2 ≤ e → e3 ≤ e → e * (R * (a1 + a2 + a3)) ≤ M →
      e1 * (R * a1) + e2 * (R * a2) + e3 * (R * a3) ≤ M := by
    intro e l1 l2 l3 g
    have m1 := mul_le_mul_of_nonneg_right l1 r1
    have m2 := mul_le_mul_of_nonneg_right l2 r2
    have m3 := mul_le_mul_of_nonneg_right l3 r3
    have e' : e * (R * (a1 + a2 + a3)) = e * (R * a1) + e * (R * a2) + e * (R * a3) := by ring
    linarith
  rcases le_total e1 e2 with a | a
  · rcases le_total e2 e3 with b | b
    · exact key e3 (a.trans b) b le_rfl g3
    · exact key e2 a le_rfl b g2
  · rcases le_total e1 e3 with c | c
    · exact key e3 c (a.trans c) le_rfl g3
    · exact key e1 le_rfl a c g1

/-- **margin ⇒ inner side.**  `o` strictly inside the cone tetrahedron's base plane and the face
plane; the three vertices miss the face plane by at most `η` with `η·R·spread ≤ D·m`; then every
point of the box `|p − o|∞ ≤ R` with `e(p) < −m` sees the triangle with positive orientation. -/
theorem inner_of_margin (n : V3 ℝ) (d : ℝ) (o a b c : V3 ℝ) (m R : ℝ)
    (hD : 0 < orient o a b c) (ho : planeVal n d o < 0)
    (ha : |planeVal n d a| * (R * coneSpread o ⟨a, b, c⟩) ≤ orient o a b c * m)
    (hb : |planeVal n d b| * (R * coneSpread o ⟨a, b, c⟩) ≤ orient o a b c * m)
    (hc : |planeVal n d c| * (R * coneSpread o ⟨a, b, c⟩) ≤ orient o a b c * m)
    (p : V3 ℝ) (hx : |p.x - o.x| ≤ R) (hy : |p.y - o.y| ≤ R) (hz : |p.z - o.z| ≤ R)
    (hp : planeVal n d p < -m) : 0 < orient p a b c := by
  have key := planeVal_bary n d o a b c p
  set D := orient o a b c
  set N1 := V3.cross (b - o) (c - o) with hN1
  set N2 := V3.cross (a - o) (c - o) with hN2
  set N3 := V3.cross (a - o) (b - o) with hN3
  have e1 : orient o p b c = V3.dot (p - o) N1 := rfl
  have e2 : orient o a p c = -V3.dot (p - o) N2 := by
    obtain ⟨ox, oy, oz⟩ := o; obtain ⟨ax, ay, az⟩ := a
    obtain ⟨cx, cy, cz⟩ := c; obtain ⟨px, py, pz⟩ := p
    simp only [hN2]; unfold orient V3.det3 V3.dot V3.cross
    simp only [V3.sub_x, V3.sub_y, V3.sub_z]; ring
  have e3 : orient o a b p = V3.dot (p - o) N3 := by
    obtain ⟨ox, oy, oz⟩ := o; obtain ⟨ax, ay, az⟩ := a
    obtain ⟨bx, b_y, bz⟩ := b; obtain ⟨px, py, pz⟩ := p
    simp only [hN3]; unfold orient V3.det3 V3.dot V3.cross
    simp only [V3.sub_x, V3.sub_y, V3.sub_z]; ring
  have q1 := abs_dot_le (p - o) N1 R hx hy hz
  have q2 := abs_dot_le (p - o) N2 R hx hy hz
  have q3 := abs_dot_le (p - o) N3 R hx hy hz
  have hR : 0 ≤ R := le_trans (abs_nonneg _) hx
  have hsp : coneSpread o ⟨a, b, c⟩ = l1 N1 + l1 N2 + l1 N3 := rfl
  rw [hsp] at ha hb hc
  have hmix := mixed_le (e1 := |planeVal n d a|) (e2 := |planeVal n d b|) (e3 := |planeVal n d c|) hR
    (l1_nonneg N1) (l1_nonneg N2) (l1_nonneg N3) (M := D * m) ha hb hc
  -- β₀ e(o) = D e(p) − Σ βᵢ e(vᵢ)
  have hβ : orient p a b c * planeVal n d o =
      D * planeVal n d p - (orient o p b c * planeVal n d a + orient o a p c * planeVal n d b
        + orient o a b p * planeVal n d c) := by linarith [key]
  have t1 : -(orient o p b c * planeVal n d a) ≤ |planeVal n d a| * (R * l1 N1) := by
    have h1 : -(orient o p b c * planeVal n d a) ≤ |orient o p b c * planeVal n d a| := neg_le_abs _
    rw [abs_mul, e1] at h1
    rw [e1]
    have h2 := mul_le_mul_of_nonneg_left q1 (abs_nonneg (planeVal n d a))
    linarith [mul_comm |V3.dot (p - o) N1| |planeVal n d a|]
  have t2 : -(orient o a p c * planeVal n d b) ≤ |planeVal n d b| * (R * l1 N2) := by
    have h1 : -(orient o a p c * planeVal n d b) ≤ |orient o a p c * planeVal n d b| := neg_le_abs _
    rw [abs_mul, e2, abs_neg] at h1
    rw [e2]
    have h2 := mul_le_mul_of_nonneg_left q2 (abs_nonneg (planeVal n d b))
    linarith [mul_comm |V3.dot (p - o) N2| |planeVal n d b|]
  have t3 : -(orient o a b p * planeVal n d c) ≤ |planeVal n d c| * (R * l1 N3) := by
    have h1 : -(orient o a b p * planeVal n d c) ≤ |orient o a b p * planeVal n d c| := neg_le_abs _
    rw [abs_mul, e3] at h1
    rw [e3]
    have h2 := mul_le_mul_of_nonneg_left q3 (abs_nonneg (planeVal n d c))
    linarith [mul_comm |V3.dot (p - o) N3| |planeVal n d c|]
  have hDp : D * planeVal n d p < -(D * m) := by
    have := mul_lt_mul_of_pos_left hp hD; linarith
  have hneg : orient p a b c * planeVal n d o < 0 := by rw [hβ]; linarith
  by_contra hcon
  have hle : orient p a b c ≤ 0 := not_lt.mp hcon
  have : 0 ≤ orient p a b c * planeVal n d o := mul_nonneg_of_nonpos_of_nonpos hle ho.le
  linarith

/-! ### the hull theorem from facet data (Prop form) -/

/-- **convex polyhedron, accepted (with margin) ⇒ in the hull.**  `F` = the faces cut into
triangles, each with the plane equation of its face. -/
theorem cp_hull_of_facets (V : List (V3 ℝ)) (o : V3 ℝ) (ho : MemHull V o)
    (F : List (Tri ℝ × V3 ℝ × ℝ)) (hne : F ≠ []) (hcl : ClosedSurface (F.map Prod.fst)) (m R : ℝ)
    (hF : ∀ f ∈ F, (f.1.a ∈ V ∧ f.1.b ∈ V ∧ f.1.c ∈ V) ∧ 0 < orient o f.1.a f.1.b f.1.c ∧
      planeVal f.2.1 f.2.2 o < 0 ∧
      ∀ v ∈ [f.1.a, f.1.b, f.1.c],
        |planeVal f.2.1 f.2.2 v| * (R * coneSpread o f.1) ≤ orient o f.1.a f.1.b f.1.c * m)
    (p : V3 ℝ) (hx : |p.x - o.x| ≤ R) (hy : |p.y - o.y| ≤ R) (hz : |p.z - o.z| ≤ R)
    (hp : ∀ f ∈ F, planeVal f.2.1 f.2.2 p < -m) : MemHull V p := by
  obtain ⟨f1, hf1⟩ := List.exists_mem_of_ne_nil F hne
  have ht1 : f1.1 ∈ F.map Prod.fst := List.mem_map.mpr ⟨f1, hf1, rfl⟩
  refine memHull_of_inner_side V hcl ?_ o ho ht1 (hF f1 hf1).2.1.ne' p ?_
  · intro t ht
    obtain ⟨f, hf, rfl⟩ := List.mem_map.mp ht
    exact (hF f hf).1
  · intro t ht
    obtain ⟨f, hf, rfl⟩ := List.mem_map.mp ht
    obtain ⟨_, hD, hoo, hv⟩ := hF f hf
    obtain ⟨⟨a, b, c⟩, n, d⟩ := f
    exact inner_of_margin n d o a b c m R hD hoo (hv a (by simp)) (hv b (by simp)) (hv c (by simp))
      p hx hy hz (hp _ hf)

/-! ### soundness of `facetCert` as evaluated over ℚ -/

def planeOfRat (e : V3 ℚ × ℚ) : V3 ℝ × ℝ := (v3OfRat e.1, (e.2 : ℝ))
def facetOfRat (f : Tri ℚ × V3 ℚ × ℚ) : Tri ℝ × V3 ℝ × ℝ := (triOfRat f.1, v3OfRat f.2.1, (f.2.2 : ℝ))

theorem planeVal_ofRat (n : V3 ℚ) (d : ℚ) (x : V3 ℚ) :
    planeVal (v3OfRat n) (d : ℝ) (v3OfRat x) = ((planeVal n d x : ℚ) : ℝ) := by
  obtain ⟨nx, ny, nz⟩ := n; obtain ⟨xx, xy, xz⟩ := x
  simp only [planeVal, V3.dot, v3OfRat]; push_cast; ring

theorem abs_ofRat (x : ℚ) : |(x : ℝ)| = ((Scalar.abs x : ℚ) : ℝ) := by
  show |(x : ℝ)| = (((if x < 0 then -x else x) : ℚ) : ℝ)
  split_ifs with h
  · rw [abs_of_neg (by exact_mod_cast h)]; push_cast; ring
  · rw [abs_of_nonneg (by exact_mod_cast (not_lt.mp h))]

theorem l1_ofRat (v : V3 ℚ) : l1 (v3OfRat v) = ((l1 v : ℚ) : ℝ) := by
  obtain ⟨x, y, z⟩ := v
  simp only [l1, v3OfRat, Scalar.abs_real, abs_ofRat]; push_cast; ring

theorem cross_sub_ofRat (a b o : V3 ℚ) :
    V3.cross (v3OfRat a - v3OfRat o) (v3OfRat b - v3OfRat o) = v3OfRat (V3.cross (a - o) (b - o)) := by
  obtain ⟨ax, ay, az⟩ := a; obtain ⟨bx, b_y, bz⟩ := b; obtain ⟨ox, oy, oz⟩ := o
  simp only [V3.cross, v3OfRat, gsub_x, gsub_y, gsub_z]
  ext <;> push_cast <;> ring

theorem coneSpread_ofRat (o : V3 ℚ) (t : Tri ℚ) :
    coneSpread (v3OfRat o) (triOfRat t) = ((coneSpread o t : ℚ) : ℝ) := by
  simp only [coneSpread, triOfRat, triTo, cross_sub_ofRat, l1_ofRat]; push_cast; ring

theorem comb_ofRat : ∀ (ws : List ℚ) (V : List (V3 ℚ)),
    comb (ws.map fun q : ℚ => (q : ℝ)) (V.map v3OfRat) = v3OfRat (comb ws V)
  | [], V => by cases V <;> simp [comb, v3OfRat, V3.zero, Scalar.lit, Scalar.ofNat]
  | w :: ws, [] => by simp [comb, v3OfRat, V3.zero, Scalar.lit, Scalar.ofNat]
  | w :: ws, v :: V => by
    simp only [List.map_cons, comb, comb_ofRat ws V]
    obtain ⟨x, y, z⟩ := v
    generalize comb ws V = r
    obtain ⟨rx, ry, rz⟩ := r
    simp only [v3OfRat]
    ext
    · show (w : ℝ) * (x : ℝ) + (rx : ℝ) = ((w * x + rx : ℚ) : ℝ); push_cast; ring
    · show (w : ℝ) * (y : ℝ) + (ry : ℝ) = ((w * y + ry : ℚ) : ℝ); push_cast; ring
    · show (w : ℝ) * (z : ℝ) + (rz : ℝ) = ((w * z + rz : ℚ) : ℝ); push_cast; ring

theorem memHull_comb_ofRat (ws : List ℚ) (V : List (V3 ℚ)) (hlen : ws.length = V.length)
    (hw : ∀ w ∈ ws, (lit 0 : ℚ) ≤ w) (hs : Scalar.sum ws = (lit 1 : ℚ)) :
    MemHull (V.map v3OfRat) (v3OfRat (comb ws V)) := by
  refine ⟨ws.map fun q : ℚ => (q : ℝ), by simp [hlen], ⟨?_, ?_⟩, comb_ofRat ws V⟩
  · intro w hw'
    obtain ⟨q, hq, rfl⟩ := List.mem_map.mp hw'
    have := hw q hq
    simp only [Scalar.lit, Scalar.ofNat_real, Nat.cast_zero]
    have h0 : (0 : ℚ) ≤ q := by simpa [Scalar.lit, Scalar.ofNat] using this
    exact_mod_cast h0
  · rw [Scalar.sum_real, ← scalar_sum_rat, hs]
    simp [Scalar.lit, Scalar.ofNat]

theorem mem_of_any_v3Eqb {V : List (V3 ℚ)} {v : V3 ℚ} (h : V.any (ChainCheck.v3Eqb v) = true) :
    v3OfRat v ∈ V.map v3OfRat := by
  rw [List.any_eq_true] at h
  obtain ⟨u, hu, he⟩ := h
  rw [v3Eqb_sound eqb_rat_sound he]
  exact List.mem_map.mpr ⟨u, hu, rfl⟩

theorem lit0_rat : (lit 0 : ℚ) = 0 := by simp [Scalar.lit, Scalar.ofNat]

/-- **Soundness of the facet-completeness certificate (as the driver evaluates it, in ℚ).** -/
theorem facetCert_rat_sound (V : List (V3 ℚ)) (eqs : List (V3 ℚ × ℚ)) (ws : List ℚ)
    (F : List (Tri ℚ × V3 ℚ × ℚ)) (m R : ℚ) (h : facetCert V eqs ws F m R = true)
    (p : V3 ℝ) (hx : |p.x - ((comb ws V).x : ℝ)| ≤ R) (hy : |p.y - ((comb ws V).y : ℝ)| ≤ R)
    (hz : |p.z - ((comb ws V).z : ℝ)| ≤ R)
    (hp : ∀ e ∈ eqs, planeVal (v3OfRat e.1) (e.2 : ℝ) p < -(m : ℝ)) :
    MemHull (V.map v3OfRat) p := by
  unfold facetCert at h
  simp only [Bool.and_eq_true, decide_eq_true_iff, List.all_eq_true, Bool.not_eq_true'] at h
  obtain ⟨⟨⟨⟨⟨⟨hlen, hw⟩, hs⟩, _hm⟩, hne⟩, hcl⟩, hF⟩ := h
  have hs' : Scalar.sum ws = (lit 1 : ℚ) := eqb_rat_sound _ _ hs
  set o := comb ws V with ho
  have hoV := memHull_comb_ofRat ws V hlen (fun w hw' => by simpa using hw w hw') hs'
  have hneF : F.map facetOfRat ≠ [] := by
    intro h0
    have : F = [] := List.map_eq_nil_iff.mp h0
    rw [this] at hne; simp at hne
  have hcl' : ClosedSurface ((F.map facetOfRat).map Prod.fst) := by
    have := closedCheck_rat_sound' hcl
    rw [List.map_map] at this ⊢
    exact this
  refine cp_hull_of_facets (V.map v3OfRat) (v3OfRat o) hoV (F.map facetOfRat) hneF hcl' (m : ℝ) (R : ℝ)
    ?_ p hx hy hz ?_
  · intro f' hf'
    obtain ⟨f, hf, rfl⟩ := List.mem_map.mp hf'
    have hok := hF f hf
    unfold facetOK at hok
    simp only [Bool.and_eq_true, decide_eq_true_iff, List.all_eq_true] at hok
    obtain ⟨⟨⟨⟨⟨⟨_, hva⟩, hvb⟩, hvc⟩, hD⟩, hoo⟩, hv⟩ := hok
    obtain ⟨⟨a, b, c⟩, n, d⟩ := f
    simp only [facetOfRat, triOfRat, triTo]
    rw [lit0_rat] at hD hoo
    refine ⟨⟨mem_of_any_v3Eqb hva, mem_of_any_v3Eqb hvb, mem_of_any_v3Eqb hvc⟩, ?_, ?_, ?_⟩
    · rw [orient_ofRat]; exact_mod_cast hD
    · rw [planeVal_ofRat]; exact_mod_cast hoo
    · intro v' hv'
      have hcs := coneSpread_ofRat o ⟨a, b, c⟩
      simp only [triOfRat, triTo] at hcs
      simp only [List.mem_cons, List.not_mem_nil, or_false] at hv'
      have hall : ∀ v ∈ [a, b, c],
          |planeVal (v3OfRat n) (d : ℝ) (v3OfRat v)| *
            ((R : ℝ) * coneSpread (v3OfRat o) ⟨v3OfRat a, v3OfRat b, v3OfRat c⟩) ≤
            orient (v3OfRat o) (v3OfRat a) (v3OfRat b) (v3OfRat c) * (m : ℝ) := by
        intro v hvm
        have := hv v hvm
        rw [planeVal_ofRat, hcs, orient_ofRat, abs_ofRat]
        exact_mod_cast this
      rcases hv' with rfl | rfl | rfl
      · exact hall a (by simp)
      · exact hall b (by simp)
      · exact hall c (by simp)
  · intro f' hf'
    obtain ⟨f, hf, rfl⟩ := List.mem_map.mp hf'
    have hok := hF f hf
    unfold facetOK at hok
    simp only [Bool.and_eq_true, decide_eq_true_iff, List.all_eq_true] at hok
    obtain ⟨⟨⟨⟨⟨⟨hmem, _⟩, _⟩, _⟩, _⟩, _⟩, _⟩ := hok
    rw [List.any_eq_true] at hmem
    obtain ⟨e, he, heq⟩ := hmem
    unfold planeEqb at heq
    simp only [Bool.and_eq_true] at heq
    have e1 := v3Eqb_sound eqb_rat_sound heq.1
    have e2 := eqb_rat_sound _ _ heq.2
    have := hp e he
    simp only [facetOfRat]
    rw [e1, e2]; exact this

end Inside3D
end
