import CoxeterVerif.Model.MeshIO
import CoxeterVerif.RealInst
import CoxeterVerif.Lemmas.Basic
import CoxeterVerif.Lemmas.MeshIOFormats
import Mathlib.Tactic.LinearCombination
/-!
  Geometry of the facet normals written by `to_stl` (C20), over ℝ.

  `to_stl` fan-triangulates every face `f` from its first corner, `(f[0], f[i+1], f[i+2])`, and writes for each
  triangle the un-normalised normal `np.cross(t[1]-t[0], t[2]-t[1])` (`MeshIO.stlNormal`).  This file proves, for a
  face that is a planar convex polygon listed counter-clockwise when seen from the side its normal `n` points to
  (`ConvexCCW n p`, `p` = the list of corner coordinates `f.map vs`):

  * `stl_fan_outward` / `stlFaceNormals_outward`: every written facet normal is a POSITIVE multiple of `n`, i.e. it
    points outward whenever `n` does;
  * `fan_normals_sum` / `stlFaceNormals_sum` (no convexity needed): the written normals of one face add up to the
    polygon's doubled area vector `newell2 p = Σ pᵢ × pᵢ₊₁` (Newell's formula);
  * `fan_area_additive` / `stlFaceNormals_area_additive`: `newell2 p` is itself a positive multiple of `n`, the
    coefficient being the sum of the triangles' coefficients, and `‖newell2 p‖ = Σ ‖facet normal‖`: the facets'
    areas (half the norms) add up to the face's area — the fan neither overlaps itself nor leaves the face.

  "Area of the polygon" is here by definition `‖newell2 p‖ / 2` (Newell / shoelace formula in 3D); no measure
  theoretic area is involved.
-/
namespace MeshIO
open Scalar

noncomputable section

/-! ## small `V3 ℝ` toolkit -/

/-- two real 3-vectors are equal when their components are -/
theorem v3_ext {u v : V3 ℝ} (hx : u.x = v.x) (hy : u.y = v.y) (hz : u.z = v.z) : u = v :=
  V3.ext' hx hy hz

theorem v3sum_nil : V3.sum ([] : List (V3 ℝ)) = V3.zero := rfl
theorem v3sum_cons (a : V3 ℝ) (l : List (V3 ℝ)) : V3.sum (a :: l) = a + V3.sum l := rfl

/-- unfold vector operations at ℝ to components -/
macro "v3simp" : tactic => `(tactic|
  simp only [V3.dot, V3.cross, V3.normSq, stlNormal,
    V3.add_x, V3.add_y, V3.add_z, V3.sub_x, V3.sub_y, V3.sub_z, V3.smul_x, V3.smul_y, V3.smul_z,
    V3.neg_x, V3.neg_y, V3.neg_z, V3.zero_x, V3.zero_y, V3.zero_z])

/-- `(b-a) × (c-b) = (c-b) × (a-b)`: both are `a×b + b×c + c×a` -/
theorem cross_cyc (a b c : V3 ℝ) : V3.cross (b - a) (c - b) = V3.cross (c - b) (a - b) := by
  apply v3_ext <;> v3simp <;> ring

/-- `‖c • n‖ = c ‖n‖` for `c ≥ 0` -/
theorem norm_smul_nonneg {c : ℝ} (hc : 0 ≤ c) (n : V3 ℝ) : V3.norm (V3.smul c n) = c * V3.norm n := by
  have e : V3.dot (V3.smul c n) (V3.smul c n) = c * c * V3.dot n n := by v3simp; ring
  simp only [V3.norm, V3.normSq, Scalar.sqrt_real]
  rw [e, Real.sqrt_mul (mul_self_nonneg c), Real.sqrt_mul_self hc]

/-! ## the definitions -/

/-- a planar convex polygon, traversed counter-clockwise when seen from the side the vector `n` points to:
    all corners lie in one plane perpendicular to `n`, and every corner that is not an endpoint of a (cyclic) edge lies
    strictly to the left of that edge. -/
structure ConvexCCW (n : V3 ℝ) (p : List (V3 ℝ)) : Prop where
  planar : ∀ i j (hi : i < p.length) (hj : j < p.length), V3.dot n (p[j] - p[i]) = 0
  left : ∀ i j (hi : i < p.length) (hj : j < p.length), j ≠ i → j ≠ (i + 1) % p.length →
    0 < V3.dot n (V3.cross (p[(i + 1) % p.length]'(Nat.mod_lt _ (by omega)) - p[i]) (p[j] - p[i]))

/-- `ConvexCCW.left` with the successor index named: corner `j` lies strictly left of the edge `p[i] → p[k]`,
    `k = (i+1) mod length`. -/
theorem ConvexCCW.left' {n : V3 ℝ} {p : List (V3 ℝ)} (h : ConvexCCW n p) (i j k : Nat)
    (hi : i < p.length) (hj : j < p.length) (hk : k < p.length) (hik : k = (i + 1) % p.length)
    (hji : j ≠ i) (hjk : j ≠ k) :
    0 < V3.dot n (V3.cross (p[k] - p[i]) (p[j] - p[i])) := by
  subst hik
  exact h.left i j hi hj hji hjk

/-- doubled area vector of the closed polygon `p` (Newell): `Σ pᵢ × pᵢ₊₁`, indices cyclic.  Its norm is twice the
    area of a planar polygon and its direction the polygon's normal. -/
def newell2 (p : List (V3 ℝ)) : V3 ℝ :=
  V3.sum ((p.zip (p.drop 1 ++ p.take 1)).map fun ab => V3.cross ab.1 ab.2)

/-- the normals `to_stl` writes for one face whose corner COORDINATES, in order, are `p`
    (`stlFaceNormals vs f = fanNormals (f.map vs)`, see `stlFaceNormals_eq`) -/
def fanNormals (p : List (V3 ℝ)) : List (V3 ℝ) :=
  match p with
  | [] => []
  | a :: rest => (rest.zip (rest.drop 1)).map fun bc => stlNormal a bc.1 bc.2

theorem stlFaceNormals_eq (vs : Nat → V3 ℝ) (f : List Nat) :
    stlFaceNormals vs f = fanNormals (f.map vs) := by
  cases f with
  | nil => rfl
  | cons a rest =>
    simp [stlFaceNormals, fan, fanNormals, ← List.map_tail, List.zip_map, Function.comp_def]

theorem fanNormals_length (p : List (V3 ℝ)) : (fanNormals p).length = p.length - 2 := by
  cases p with
  | nil => rfl
  | cons a rest => simp [fanNormals]

/-- the `i`-th written normal belongs to the triangle `(p[0], p[i+1], p[i+2])` -/
theorem fanNormals_getElem (p : List (V3 ℝ)) (i : Nat) (h : i + 2 < p.length) :
    (fanNormals p)[i]'(by rw [fanNormals_length]; omega) = stlNormal p[0] p[i + 1] p[i + 2] := by
  cases p with
  | nil => simp at h
  | cons a rest =>
    simp [fanNormals, List.getElem_zip]

/-- membership form of `fanNormals_getElem` -/
theorem mem_fanNormals {p : List (V3 ℝ)} {N : V3 ℝ} (hN : N ∈ fanNormals p) :
    ∃ (i : Nat) (h : i + 2 < p.length), N = stlNormal p[0] p[i + 1] p[i + 2] := by
  obtain ⟨i, hi, rfl⟩ := List.mem_iff_getElem.1 hN
  have h : i + 2 < p.length := by rw [fanNormals_length] at hi; omega
  exact ⟨i, h, fanNormals_getElem p i h⟩

/-! ## 2. a vector perpendicular to two vectors of the plane is parallel to the plane's normal -/

/-- if `u` and `v` are both perpendicular to `n` then `u × v` is parallel to `n`:
    `(n·n) (u × v) = (n·(u × v)) n`. -/
theorem cross_parallel_of_perp (n u v : V3 ℝ) (hu : V3.dot n u = 0) (hv : V3.dot n v = 0) :
    V3.smul (V3.dot n n) (V3.cross u v) = V3.smul (V3.dot n (V3.cross u v)) n := by
  obtain ⟨nx, ny, nz⟩ := n
  obtain ⟨ux, uy, uz⟩ := u
  obtain ⟨vx, vy, vz⟩ := v
  simp only [V3.dot] at hu hv
  apply v3_ext <;> v3simp
  · linear_combination (ny * vz - nz * vy) * hu - (ny * uz - nz * uy) * hv
  · linear_combination (nz * vx - nx * vz) * hu - (nz * ux - nx * uz) * hv
  · linear_combination (nx * vy - ny * vx) * hu - (nx * uy - ny * ux) * hv

/-- … hence, with `n ≠ 0` and `n·(u × v) > 0`, `u × v` is a positive multiple of `n`, the factor being
    `n·(u × v) / n·n`. -/
theorem cross_pos_multiple {n u v : V3 ℝ} (hn : 0 < V3.dot n n) (hu : V3.dot n u = 0) (hv : V3.dot n v = 0)
    (hpos : 0 < V3.dot n (V3.cross u v)) :
    0 < V3.dot n (V3.cross u v) / V3.dot n n ∧
      V3.cross u v = V3.smul (V3.dot n (V3.cross u v) / V3.dot n n) n := by
  refine ⟨div_pos hpos hn, ?_⟩
  have key := cross_parallel_of_perp n u v hu hv
  have hx := congrArg V3.x key
  have hy := congrArg V3.y key
  have hz := congrArg V3.z key
  simp only [V3.smul_x, V3.smul_y, V3.smul_z] at hx hy hz
  generalize V3.dot n (V3.cross u v) = d at *
  generalize V3.dot n n = nn at *
  generalize V3.cross u v = w at *
  have hne : nn ≠ 0 := hn.ne'
  apply v3_ext <;> simp only [V3.smul_x, V3.smul_y, V3.smul_z] <;>
    rw [div_mul_eq_mul_div, eq_div_iff hne] <;> linarith

/-! ## 3. every facet normal of a convex counter-clockwise face points to the side of `n` -/

/-- **`to_stl` normals point outward.**  For a planar convex face listed counter-clockwise as seen from the side `n`
    points to (`ConvexCCW n p`) with `n ≠ 0` (stated as `0 < n·n`), the normal written for every fan triangle
    `(p[0], p[i+1], p[i+2])` is a POSITIVE multiple of `n`.  (`3 ≤ p.length` is implied by `i + 2 < p.length`.)
    The reason: `n·((b-a)×(c-b)) = n·((c-b)×(a-b))`, which is positive because the corner `a = p[0]` lies left of
    the edge `p[i+1] → p[i+2]`. -/
theorem stl_fan_outward {n : V3 ℝ} {p : List (V3 ℝ)} (hc : ConvexCCW n p) (hn : 0 < V3.dot n n)
    (i : Nat) (h : i + 2 < p.length) :
    ∃ c : ℝ, 0 < c ∧ stlNormal p[0] p[i + 1] p[i + 2] = V3.smul c n := by
  have hu : V3.dot n (p[i + 1] - p[0]) = 0 := hc.planar 0 (i + 1) (by omega) (by omega)
  have hv : V3.dot n (p[i + 2] - p[i + 1]) = 0 := hc.planar (i + 1) (i + 2) (by omega) (by omega)
  have hl : (0 : ℝ) < V3.dot n (V3.cross (p[i + 2] - p[i + 1]) (p[0] - p[i + 1])) :=
    hc.left' (i + 1) 0 (i + 2) (by omega) (by omega) (by omega)
      (by rw [Nat.mod_eq_of_lt (by omega)]) (by omega) (by omega)
  rw [← cross_cyc] at hl
  obtain ⟨h1, h2⟩ := cross_pos_multiple hn hu hv hl
  exact ⟨_, h1, h2⟩

/-- all normals written for a convex counter-clockwise face are positive multiples of `n` -/
theorem fanNormals_outward {n : V3 ℝ} {p : List (V3 ℝ)} (hc : ConvexCCW n p) (hn : 0 < V3.dot n n) :
    ∀ N ∈ fanNormals p, ∃ c : ℝ, 0 < c ∧ N = V3.smul c n := by
  intro N hN
  obtain ⟨i, h, rfl⟩ := mem_fanNormals hN
  exact stl_fan_outward hc hn i h

/-- **`to_stl` normals point outward**, in terms of the model's `stlFaceNormals`: for a face `f` (vertex indices)
    of a shape with vertices `vs` whose corners form a planar convex polygon listed counter-clockwise seen from the
    side of `n ≠ 0`, every `facet normal` line written for `f` carries a positive multiple of `n`.
    (For `f.length < 3` nothing is written and the statement is vacuous.) -/
theorem stlFaceNormals_outward {n : V3 ℝ} (vs : Nat → V3 ℝ) (f : List Nat)
    (hc : ConvexCCW n (f.map vs)) (hn : 0 < V3.dot n n) :
    ∀ N ∈ stlFaceNormals vs f, ∃ c : ℝ, 0 < c ∧ N = V3.smul c n := by
  rw [stlFaceNormals_eq]
  exact fanNormals_outward hc hn

/-! ## 4. the written normals add up to the Newell vector (any polygon) -/

/-- telescoping step: the open Newell chain `b, l…, a` closed by `a × b` equals the fan from `a` over `b, l…` -/
theorem fan_newell_aux (a : V3 ℝ) : ∀ (l : List (V3 ℝ)) (b : V3 ℝ),
    V3.sum (((b :: l).zip (l ++ [a])).map fun ab => V3.cross ab.1 ab.2) + V3.cross a b
      = V3.sum (((b :: l).zip l).map fun bc => stlNormal a bc.1 bc.2) := by
  intro l
  induction l with
  | nil =>
    intro b
    simp only [List.nil_append, List.zip_cons_cons, List.zip_nil_right, List.map_cons, List.map_nil,
      v3sum_cons, v3sum_nil]
    apply v3_ext <;> v3simp <;> ring
  | cons c l ih =>
    intro b
    simp only [List.cons_append, List.zip_cons_cons, List.map_cons, v3sum_cons]
    rw [← ih c]
    apply v3_ext <;> v3simp <;> ring

/-- **The fan is a triangulation of the polygon's area vector.**  For EVERY corner list `p` (planar or not, convex
    or not, any length) the sum of the normals written by `to_stl` equals `Σ pᵢ × pᵢ₊₁` (cyclic), the doubled
    area vector of the polygon. -/
theorem fan_normals_sum (p : List (V3 ℝ)) : V3.sum (fanNormals p) = newell2 p := by
  match p with
  | [] => rfl
  | [a] =>
    simp only [fanNormals, newell2, List.drop_one, List.tail_cons, List.take, List.nil_append,
      List.zip_cons_cons, List.zip_nil_right, List.zip_nil_left, List.map_cons, List.map_nil,
      v3sum_cons, v3sum_nil]
    apply v3_ext <;> v3simp <;> ring
  | a :: b :: l =>
    have e := fan_newell_aux a l b
    simp only [fanNormals, newell2, List.drop_one, List.tail_cons, List.take, List.cons_append,
      List.zip_cons_cons, List.map_cons, v3sum_cons] at e ⊢
    rw [← e]
    apply v3_ext <;> v3simp <;> ring

/-- `fan_normals_sum` for the model's `stlFaceNormals`: the normals written for the face `f` add up to the
    doubled area vector of the polygon `f.map vs`. -/
theorem stlFaceNormals_sum (vs : Nat → V3 ℝ) (f : List Nat) :
    V3.sum (stlFaceNormals vs f) = newell2 (f.map vs) := by
  rw [stlFaceNormals_eq, fan_normals_sum]

/-- `fan_normals_sum` with the triangles spelled out by index (out-of-range reads, which do not occur, are `0`) -/
theorem fan_normals_sum_range (p : List (V3 ℝ)) :
    V3.sum ((List.range (p.length - 2)).map fun i =>
      stlNormal (p.getD 0 V3.zero) (p.getD (i + 1) V3.zero) (p.getD (i + 2) V3.zero)) = newell2 p := by
  rw [← fan_normals_sum]
  congr 1
  apply List.ext_getElem
  · simp [fanNormals_length]
  · intro i h1 h2
    have h : i + 2 < p.length := by rw [fanNormals_length] at h2; omega
    rw [fanNormals_getElem p i h]
    simp [List.getD_eq_getElem?_getD, h, (by omega : 0 < p.length),
      (by omega : i + 1 < p.length)]

/-! ## 5. areas add up -/

/-- a list of positive multiples of `n` is `cs.map (· • n)` for a list of positive coefficients -/
theorem exists_coeffs (n : V3 ℝ) : ∀ L : List (V3 ℝ), (∀ N ∈ L, ∃ c : ℝ, 0 < c ∧ N = V3.smul c n) →
    ∃ cs : List ℝ, (∀ c ∈ cs, 0 < c) ∧ L = cs.map fun c => V3.smul c n := by
  intro L
  induction L with
  | nil => intro _; exact ⟨[], by simp, rfl⟩
  | cons N L ih =>
    intro h
    obtain ⟨c, hc, rfl⟩ := h N (by simp)
    obtain ⟨cs, hcs, rfl⟩ := ih (fun M hM => h M (by simp [hM]))
    refine ⟨c :: cs, ?_, rfl⟩
    intro x hx
    rcases List.mem_cons.1 hx with rfl | hx
    · exact hc
    · exact hcs x hx

theorem sum_map_smul (n : V3 ℝ) (cs : List ℝ) :
    V3.sum (cs.map fun c => V3.smul c n) = V3.smul cs.sum n := by
  induction cs with
  | nil => apply v3_ext <;> simp [v3sum_nil]
  | cons c cs ih =>
    simp only [List.map_cons, v3sum_cons, List.sum_cons, ih]
    apply v3_ext <;> v3simp <;> ring

theorem sum_norm_map_smul (n : V3 ℝ) (cs : List ℝ) (hcs : ∀ c ∈ cs, 0 < c) :
    ((cs.map fun c => V3.smul c n).map V3.norm).sum = cs.sum * V3.norm n := by
  induction cs with
  | nil => simp
  | cons c cs ih =>
    have hc : 0 < c := hcs c (by simp)
    simp only [List.map_cons, List.sum_cons, ih (fun x hx => hcs x (by simp [hx])),
      norm_smul_nonneg hc.le]
    ring

theorem list_sum_nonneg_of_pos (cs : List ℝ) (hcs : ∀ c ∈ cs, 0 < c) : 0 ≤ cs.sum := by
  induction cs with
  | nil => simp
  | cons c cs ih =>
    have hc : 0 < c := hcs c (by simp)
    have := ih (fun x hx => hcs x (by simp [hx]))
    simp only [List.sum_cons]; linarith

theorem list_sum_pos_of_pos (cs : List ℝ) (hcs : ∀ c ∈ cs, 0 < c) (hne : cs ≠ []) : 0 < cs.sum := by
  cases cs with
  | nil => exact absurd rfl hne
  | cons c cs =>
    have hc : 0 < c := hcs c (by simp)
    have := list_sum_nonneg_of_pos cs (fun x hx => hcs x (by simp [hx]))
    simp only [List.sum_cons]; linarith

/-- **Coefficient form.**  For a planar convex counter-clockwise face with at least three corners there are
    positive numbers `cs`, one per fan triangle, such that the `i`-th written normal is `csᵢ • n` and the polygon's
    doubled area vector is `(Σ csᵢ) • n`. -/
theorem fan_area_coeffs {n : V3 ℝ} {p : List (V3 ℝ)} (hc : ConvexCCW n p) (hn : 0 < V3.dot n n) :
    ∃ cs : List ℝ, cs.length = p.length - 2 ∧ (∀ c ∈ cs, 0 < c) ∧
      fanNormals p = cs.map (fun c => V3.smul c n) ∧ newell2 p = V3.smul (Scalar.sum cs) n := by
  obtain ⟨cs, hpos, e⟩ := exists_coeffs n (fanNormals p) (fanNormals_outward hc hn)
  refine ⟨cs, ?_, hpos, e, ?_⟩
  · have := congrArg List.length e
    rw [fanNormals_length, List.length_map] at this
    exact this.symm
  · rw [← fan_normals_sum, e, sum_map_smul, Scalar.sum_real]

/-- **The facets' areas add up to the face's area.**  For a planar convex face with at least three corners, listed
    counter-clockwise as seen from the side of `n ≠ 0`: the polygon's doubled area vector `newell2 p` is a positive
    multiple of `n` (so the face as a whole is oriented like its facets), and its norm — twice the polygon's area —
    is the sum of the norms of the normals written by `to_stl` — twice the triangles' areas. -/
theorem fan_area_additive {n : V3 ℝ} {p : List (V3 ℝ)} (hc : ConvexCCW n p) (h3 : 3 ≤ p.length)
    (hn : 0 < V3.dot n n) :
    (∃ c : ℝ, 0 < c ∧ newell2 p = V3.smul c n) ∧
      V3.norm (newell2 p) = Scalar.sum ((fanNormals p).map V3.norm) := by
  obtain ⟨cs, hlen, hpos, e, hsum⟩ := fan_area_coeffs hc hn
  rw [Scalar.sum_real] at hsum
  have hne : cs ≠ [] := by
    intro h0
    rw [h0] at hlen
    simp at hlen
    omega
  have hS : 0 < cs.sum := list_sum_pos_of_pos cs hpos hne
  refine ⟨⟨cs.sum, hS, hsum⟩, ?_⟩
  rw [Scalar.sum_real, hsum, norm_smul_nonneg hS.le, e, sum_norm_map_smul n cs hpos]

/-- `fan_area_additive` for the model's `stlFaceNormals` -/
theorem stlFaceNormals_area_additive {n : V3 ℝ} (vs : Nat → V3 ℝ) (f : List Nat)
    (hc : ConvexCCW n (f.map vs)) (h3 : 3 ≤ f.length) (hn : 0 < V3.dot n n) :
    (∃ c : ℝ, 0 < c ∧ newell2 (f.map vs) = V3.smul c n) ∧
      V3.norm (newell2 (f.map vs)) = Scalar.sum ((stlFaceNormals vs f).map V3.norm) := by
  rw [stlFaceNormals_eq]
  exact fan_area_additive hc (by simpa using h3) hn

/-! ## 6. the hypotheses are satisfiable: the unit square in the plane `z = 2` -/

/-- the unit square at height 2, counter-clockwise seen from above -/
def squareZ2 : List (V3 ℝ) := [⟨0, 0, 2⟩, ⟨1, 0, 2⟩, ⟨1, 1, 2⟩, ⟨0, 1, 2⟩]

theorem squareZ2_convexCCW : ConvexCCW ⟨0, 0, 1⟩ squareZ2 := by
  constructor
  · intro i j hi hj
    simp only [squareZ2, List.length_cons, List.length_nil] at hi hj
    have hi' : i = 0 ∨ i = 1 ∨ i = 2 ∨ i = 3 := by omega
    have hj' : j = 0 ∨ j = 1 ∨ j = 2 ∨ j = 3 := by omega
    rcases hi' with rfl | rfl | rfl | rfl <;> rcases hj' with rfl | rfl | rfl | rfl <;>
      simp [squareZ2, V3.dot]
  · intro i j hi hj hji hjk
    simp only [squareZ2, List.length_cons, List.length_nil] at hi hj hjk
    have hi' : i = 0 ∨ i = 1 ∨ i = 2 ∨ i = 3 := by omega
    have hj' : j = 0 ∨ j = 1 ∨ j = 2 ∨ j = 3 := by omega
    rcases hi' with rfl | rfl | rfl | rfl <;> rcases hj' with rfl | rfl | rfl | rfl <;>
      first
        | (exfalso; omega)
        | (simp [squareZ2, V3.dot, V3.cross])

/-- both facets written for the square carry a positive multiple of `(0,0,1)` -/
example : ∀ i (h : i + 2 < squareZ2.length),
    ∃ c : ℝ, 0 < c ∧ stlNormal squareZ2[0] squareZ2[i + 1] squareZ2[i + 2] = V3.smul c ⟨0, 0, 1⟩ :=
  fun i h => stl_fan_outward squareZ2_convexCCW (by norm_num [V3.dot]) i h

/-- the two triangles' areas add up to the square's area -/
example : V3.norm (newell2 squareZ2) = Scalar.sum ((fanNormals squareZ2).map V3.norm) :=
  (fan_area_additive squareZ2_convexCCW (by simp [squareZ2]) (by norm_num [V3.dot])).2

end

end MeshIO
