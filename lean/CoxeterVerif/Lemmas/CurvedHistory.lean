import CoxeterVerif.Lemmas.Curved
/-!
  C10: the setter state machine of `Model/Curved.lean` at ℝ.  The attributes after any history are those of the LAST
  successful assignment of each (or the initial ones); reading and `to_hoomd` change nothing; a failed assignment changes
  nothing.
-/
noncomputable section
namespace Curved

theorem St.run_cons (s : St ℝ) (st : Step ℝ) (rest : List (Step ℝ)) : s.run (st :: rest) = (s.step st).run rest := rfl

theorem St.run_nil (s : St ℝ) : s.run [] = s := rfl

theorem St.run_append (s : St ℝ) (l₁ l₂ : List (Step ℝ)) : s.run (l₁ ++ l₂) = (s.run l₁).run l₂ := by
  simp [St.run, List.foldl_append]

/-- what one statement does -/
theorem St.step_eq (s : St ℝ) (st : Step ℝ) :
    s.step st = match st with
      | .setA v => if 0 < v then { s with a := v } else s
      | .setB v => if 0 < v then { s with b := v } else s
      | .setC v => if 0 < v then { s with c := v } else s
      | .setCen q => { s with cen := q }
      | .read => s
      | .toHoomd => s := by
  cases st <;> simp only [St.step, St.apply, Scalar.lt_real, Scalar.lit, Scalar.ofNat_real, Nat.cast_zero, pure,
    Except.pure, throw, throwThe, MonadExceptOf.throw] <;> (try split_ifs) <;> rfl

theorem St.raises_eq (s : St ℝ) (st : Step ℝ) :
    s.raises st = match st with
      | .setA v => decide (¬ 0 < v)
      | .setB v => decide (¬ 0 < v)
      | .setC v => decide (¬ 0 < v)
      | _ => false := by
  cases st <;> simp only [St.raises, St.apply, Scalar.lt_real, Scalar.lit, Scalar.ofNat_real, Nat.cast_zero, pure,
    Except.pure, throw, throwThe, MonadExceptOf.throw] <;> (try split_ifs) <;> simp_all

/-- the value a statement assigns to each attribute (if it does and does not raise) -/
def assignA : Step ℝ → Option ℝ
  | .setA v => if 0 < v then some v else none
  | _ => none
def assignB : Step ℝ → Option ℝ
  | .setB v => if 0 < v then some v else none
  | _ => none
def assignC : Step ℝ → Option ℝ
  | .setC v => if 0 < v then some v else none
  | _ => none
def assignCen : Step ℝ → Option (V3 ℝ)
  | .setCen q => some q
  | _ => none

/-- the value of the last successful assignment of each attribute in a history -/
def lastA : List (Step ℝ) → Option ℝ
  | [] => none
  | st :: rest => (lastA rest).orElse fun _ => assignA st
def lastB : List (Step ℝ) → Option ℝ
  | [] => none
  | st :: rest => (lastB rest).orElse fun _ => assignB st
def lastC : List (Step ℝ) → Option ℝ
  | [] => none
  | st :: rest => (lastC rest).orElse fun _ => assignC st
def lastCen : List (Step ℝ) → Option (V3 ℝ)
  | [] => none
  | st :: rest => (lastCen rest).orElse fun _ => assignCen st

theorem getD_orElse {β : Type} (o₁ o₂ : Option β) (d : β) : (o₁.orElse fun _ => o₂).getD d = o₁.getD (o₂.getD d) := by
  cases o₁ <;> simp

theorem St.step_a (s : St ℝ) (st : Step ℝ) : (s.step st).a = (assignA st).getD s.a := by
  rw [St.step_eq]; cases st <;> simp only [assignA] <;> (try split_ifs) <;> rfl
theorem St.step_b (s : St ℝ) (st : Step ℝ) : (s.step st).b = (assignB st).getD s.b := by
  rw [St.step_eq]; cases st <;> simp only [assignB] <;> (try split_ifs) <;> rfl
theorem St.step_c (s : St ℝ) (st : Step ℝ) : (s.step st).c = (assignC st).getD s.c := by
  rw [St.step_eq]; cases st <;> simp only [assignC] <;> (try split_ifs) <;> rfl
theorem St.step_cen (s : St ℝ) (st : Step ℝ) : (s.step st).cen = (assignCen st).getD s.cen := by
  rw [St.step_eq]; cases st <;> simp only [assignCen] <;> (try split_ifs) <;> rfl

theorem St.run_a (s : St ℝ) (steps : List (Step ℝ)) : (s.run steps).a = (lastA steps).getD s.a := by
  induction steps generalizing s with
  | nil => rfl
  | cons st rest ih => rw [St.run_cons, ih, lastA, getD_orElse, St.step_a]

theorem St.run_b (s : St ℝ) (steps : List (Step ℝ)) : (s.run steps).b = (lastB steps).getD s.b := by
  induction steps generalizing s with
  | nil => rfl
  | cons st rest ih => rw [St.run_cons, ih, lastB, getD_orElse, St.step_b]

theorem St.run_c (s : St ℝ) (steps : List (Step ℝ)) : (s.run steps).c = (lastC steps).getD s.c := by
  induction steps generalizing s with
  | nil => rfl
  | cons st rest ih => rw [St.run_cons, ih, lastC, getD_orElse, St.step_c]

theorem St.run_cen (s : St ℝ) (steps : List (Step ℝ)) : (s.run steps).cen = (lastCen steps).getD s.cen := by
  induction steps generalizing s with
  | nil => rfl
  | cons st rest ih => rw [St.run_cons, ih, lastCen, getD_orElse, St.step_cen]

end Curved
