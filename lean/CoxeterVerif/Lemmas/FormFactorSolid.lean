import CoxeterVerif.Lemmas.FormFactorTet
/-!
  Divergence step for tetrahedra and for every closed triangulated surface, in geometric form.

  * `faceFT q T = (q·N_T) · triFT T q`, `N_T = (b−a)×(c−a)`: the surface functional; it is invariant under
    rotation of the triangle and negated by reversal (`OddCyclic` real and imaginary parts);
  * `tet_face_form`: `(i/|q|²) Σ_{T ∈ ∂(ABCD)} faceFT q T = det(B−A,C−A,D−A) · tetFT A B C D q`
    for EVERY tetrahedron (also degenerate, either orientation) and every `q ≠ 0`;
  * `surface_form_tets`: the same for every surface that is the boundary chain of a list of tetrahedra;
  * `closed_surface_form_cone`: every closed triangulated surface (certificate `ChainCheck.closedCheck`),
    any apex `p`:  `(i/|q|²) Σ_{T∈S} faceFT q T = Σ_{T∈S} det(T.a−p, T.b−p, T.c−p) · tetFT p T.a T.b T.c q`.
-/
open Scalar MeasureTheory
set_option maxRecDepth 4000
namespace FF
noncomputable section

/-- **the Fourier integral over a tetrahedron**: iterated interval integral over the affine parametrisation
`r(s,t,u) = A + s(B−A) + t(C−A) + u(D−A)`; `∫∫∫_T e^{-iq·r} dV = 6·vol(T) · tetFT A B C D q`. -/
def tetFT (A B C D qv : V3 ℝ) : ℂ :=
  ∫ s in (0:ℝ)..1, ∫ t in (0:ℝ)..(1 - s), ∫ u in (0:ℝ)..(1 - s - t),
    cexp (V3.dot qv (A + V3.smul s (B - A) + V3.smul t (C - A) + V3.smul u (D - A)))

theorem tetFT_eq_Ktet (A B C D qv : V3 ℝ) :
    tetFT A B C D qv = Ktet (V3.dot qv A) (V3.dot qv B - V3.dot qv A) (V3.dot qv C - V3.dot qv A)
      (V3.dot qv D - V3.dot qv A) := by
  unfold tetFT Ktet
  congr 1; funext s; congr 1; funext t; congr 1; funext u; congr 1
  obtain ⟨ax, ay, az⟩ := A; obtain ⟨bx, b_y, bz⟩ := B; obtain ⟨cx, cy, cz⟩ := C; obtain ⟨dx, dy, dz⟩ := D
  obtain ⟨x, y, z⟩ := qv
  simp [V3.dot, V3.smul]
  ring

/-- surface functional: `(q·N_T) ∫∫ e^{-iq·r}` over the parametrised triangle -/
def faceFT (qv : V3 ℝ) (T : Tri ℝ) : ℂ := ((V3.dot qv T.nvec : ℝ) : ℂ) * triFT T.a T.b T.c qv

theorem triFT_rot (a b c qv : V3 ℝ) : triFT b c a qv = triFT a b c qv := by
  rw [triFT_eq_Jtri, triFT_eq_Jtri]
  exact (Jtri_perm1 _ _ _).symm

theorem triFT_rev (a b c qv : V3 ℝ) : triFT c b a qv = triFT a b c qv := by
  rw [triFT_eq_Jtri, triFT_eq_Jtri, Jtri_rebase (V3.dot qv a)]
  congr 1 <;> ring

theorem nvec_rot (t : Tri ℝ) : t.rot.nvec = t.nvec := by
  obtain ⟨⟨ax, ay, az⟩, ⟨bx, b_y, bz⟩, ⟨cx, cy, cz⟩⟩ := t
  simp only [Tri.rot, Tri.nvec, V3.cross]
  ext <;> simp <;> ring

theorem nvec_rev (t : Tri ℝ) : t.rev.nvec = -t.nvec := by
  obtain ⟨⟨ax, ay, az⟩, ⟨bx, b_y, bz⟩, ⟨cx, cy, cz⟩⟩ := t
  simp only [Tri.rev, Tri.nvec, V3.cross]
  ext <;> simp <;> ring

theorem faceFT_rot (qv : V3 ℝ) (t : Tri ℝ) : faceFT qv t.rot = faceFT qv t := by
  unfold faceFT
  rw [nvec_rot]
  simp only [Tri.rot]
  rw [triFT_rot]

theorem faceFT_rev (qv : V3 ℝ) (t : Tri ℝ) : faceFT qv t.rev = -faceFT qv t := by
  unfold faceFT
  rw [nvec_rev, dot_neg_right]
  simp only [Tri.rev]
  rw [triFT_rev]
  push_cast; ring

theorem faceFT_re_odd (qv : V3 ℝ) : OddCyclic fun t => (faceFT qv t).re :=
  ⟨fun t => by rw [faceFT_rot], fun t => by rw [faceFT_rev]; simp⟩

theorem faceFT_im_odd (qv : V3 ℝ) : OddCyclic fun t => (faceFT qv t).im :=
  ⟨fun t => by rw [faceFT_rot], fun t => by rw [faceFT_rev]; simp⟩

/-- complex sum over a triangle list -/
def surfSum (qv : V3 ℝ) (S : List (Tri ℝ)) : ℂ := (S.map (faceFT qv)).sum

theorem surfSum_re (qv : V3 ℝ) (S : List (Tri ℝ)) : (surfSum qv S).re = sumOver (fun t => (faceFT qv t).re) S := by
  unfold surfSum sumOver
  induction S with
  | nil => simp
  | cons t S ih => simp only [List.map_cons, List.sum_cons, Complex.add_re, ih]

theorem surfSum_im (qv : V3 ℝ) (S : List (Tri ℝ)) : (surfSum qv S).im = sumOver (fun t => (faceFT qv t).im) S := by
  unfold surfSum sumOver
  induction S with
  | nil => simp
  | cons t S ih => simp only [List.map_cons, List.sum_cons, Complex.add_im, ih]

/-- the surface sum only depends on the surface as a 2-chain -/
theorem surfSum_chain (qv : V3 ℝ) {S S' : List (Tri ℝ)} (h : ChainEq S S') : surfSum qv S = surfSum qv S' := by
  apply Complex.ext
  · rw [surfSum_re, surfSum_re]; exact h _ (faceFT_re_odd qv)
  · rw [surfSum_im, surfSum_im]; exact h _ (faceFT_im_odd qv)

theorem surfSum_append (qv : V3 ℝ) (S S' : List (Tri ℝ)) : surfSum qv (S ++ S') = surfSum qv S + surfSum qv S' := by
  simp [surfSum]

/-- `det(B−A, C−A, D−A)` = six times the signed volume -/
def tet6 (A B C D : V3 ℝ) : ℝ := V3.det3 (B - A) (C - A) (D - A)

/-- **tetrahedron: divergence step.** For EVERY tetrahedron `A B C D` (any orientation, also degenerate) and
every `q ≠ 0`: the face form `(i/|q|²) Σ_faces (q·N_f) ∫∫_f e^{-iq·r}` equals `det(B−A,C−A,D−A) ∫∫∫ e^{-iq·r}`
(iterated integrals over the affine parametrisations). No divergence theorem is assumed. -/
theorem tet_face_form (A B C D qv : V3 ℝ) (hQ : V3.dot qv qv ≠ 0) :
    (Complex.I / ((V3.dot qv qv : ℝ) : ℂ)) * surfSum qv (Tet.bdry ⟨A, B, C, D⟩) =
      ((tet6 A B C D : ℝ) : ℂ) * tetFT A B C D qv := by
  rw [tetFT_eq_Ktet]
  have key := tet_boundary_eq (V3.dot qv A) (V3.dot qv B) (V3.dot qv C) (V3.dot qv D)
    (V3.dot qv (Tri.nvec ⟨B, C, D⟩)) (V3.dot qv (Tri.nvec ⟨A, D, C⟩)) (V3.dot qv (Tri.nvec ⟨A, B, D⟩))
    (V3.dot qv (Tri.nvec ⟨A, C, B⟩)) (V3.dot qv qv) (tet6 A B C D) hQ ?_ ?_
  · rw [← key]
    unfold surfSum faceFT
    simp only [Tet.bdry, List.map_cons, List.map_nil, List.sum_cons, List.sum_nil, add_zero, triFT_eq_Jtri]
    ring
  · obtain ⟨ax, ay, az⟩ := A; obtain ⟨bx, b_y, bz⟩ := B; obtain ⟨cx, cy, cz⟩ := C; obtain ⟨dx, dy, dz⟩ := D
    obtain ⟨x, y, z⟩ := qv
    simp [V3.dot, V3.cross, Tri.nvec]; ring
  · obtain ⟨ax, ay, az⟩ := A; obtain ⟨bx, b_y, bz⟩ := B; obtain ⟨cx, cy, cz⟩ := C; obtain ⟨dx, dy, dz⟩ := D
    obtain ⟨x, y, z⟩ := qv
    simp [V3.dot, V3.cross, Tri.nvec, tet6, V3.det3]; ring

theorem surfSum_flatMap_bdry (qv : V3 ℝ) (Ts : List (Tet ℝ)) :
    surfSum qv (Ts.flatMap Tet.bdry) = (Ts.map fun T => surfSum qv T.bdry).sum := by
  induction Ts with
  | nil => simp [surfSum]
  | cons T Ts ih => simp only [List.flatMap_cons, surfSum_append, ih, List.map_cons, List.sum_cons]

/-- Σ over tetrahedra of `signed 6·volume × iterated Fourier integral` -/
def tetsFT (Ts : List (Tet ℝ)) (qv : V3 ℝ) : ℂ :=
  (Ts.map fun T => ((tet6 T.a T.b T.c T.d : ℝ) : ℂ) * tetFT T.a T.b T.c T.d qv).sum

/-- **divergence step for every surface that bounds a list of tetrahedra** (as a 2-chain) -/
theorem surface_form_tets (qv : V3 ℝ) (hQ : V3.dot qv qv ≠ 0) {S : List (Tri ℝ)} {Ts : List (Tet ℝ)}
    (h : ChainEq S (Ts.flatMap Tet.bdry)) :
    (Complex.I / ((V3.dot qv qv : ℝ) : ℂ)) * surfSum qv S = tetsFT Ts qv := by
  rw [surfSum_chain qv h, surfSum_flatMap_bdry, ← List.sum_map_mul_left]
  unfold tetsFT
  congr 1
  apply List.map_congr_left
  intro T _
  exact tet_face_form T.a T.b T.c T.d qv hQ

/-- a closed oriented surface is the boundary chain of its cone from any apex -/
theorem cone_closed_chain {S : List (Tri ℝ)} (h : CCk.ClosedSurface S) (p : V3 ℝ) :
    ChainEq S ((ChainCheck.cone p S).flatMap Tet.bdry) := by
  intro φ hφ
  have hodd : OddEdge (fun e : Edge => φ ⟨p, e.1, e.2⟩) := fun x y => CCk.oddCyclic_swap hφ p x y
  have h0 := h _ hodd
  rw [CCk.sumOver_cone hφ p S, h0]
  simp [sumEdges]

/-- **divergence step for every closed triangulated surface**, cone from any apex `p` -/
theorem closed_surface_form_cone (qv : V3 ℝ) (hQ : V3.dot qv qv ≠ 0) {S : List (Tri ℝ)}
    (hclosed : CCk.ClosedSurface S) (p : V3 ℝ) :
    (Complex.I / ((V3.dot qv qv : ℝ) : ℂ)) * surfSum qv S = tetsFT (ChainCheck.cone p S) qv :=
  surface_form_tets qv hQ (cone_closed_chain hclosed p)

end
end FF
