import CoxeterVerif.Lemmas.Mutable2
import CoxeterVerif.Lemmas.SolidIntegral
import CoxeterVerif.Model.ConvexPolyhedronHistory
/-!
  C01, state part: the measure caches of a `ConvexPolyhedron` (`_volume`, `_area`, `_centroid`, the simplex
  normals `inertia_tensor` reads) after construction and after ANY sequence of `_rescale` / `centroid.setter`
  steps describe the CURRENT solid: the tetrahedra `Ts` the surface bounded at construction, moved by the same
  similarity transformations (`runTets`).  Invariant `MeasInv s Ts`; one-step lemmas; induction over the history.
-/
open Scalar Mut
set_option maxRecDepth 4000
namespace CPH
noncomputable section

/-! ### the solid follows the operations -/

def scaleTets (k : ℝ) (Ts : List (Tet ℝ)) : List (Tet ℝ) := Ts.map (Tet.map (V3.smul k))
def shiftTets (d : V3 ℝ) (Ts : List (Tet ℝ)) : List (Tet ℝ) := Ts.map (Tet.map (· + d))

/-- what an operation does to the solid: a size setter scales it about the origin by the factor it passes to
`_rescale` (nothing when it raises), the centroid setter translates it by `c − centroid` -/
def moveTets (s : CPState ℝ) (op : MOp ℝ) (Ts : List (Tet ℝ)) : List (Tet ℝ) :=
  match op with
  | .setVolume v => match setterFactor 3 s.volume v with | .ok k => scaleTets k Ts | .error _ => Ts
  | .setSurfaceArea v => match setterFactor 2 s.area v with | .ok k => scaleTets k Ts | .error _ => Ts
  | .setRadius cur v => match setterFactor 1 cur v with | .ok k => scaleTets k Ts | .error _ => Ts
  | .setCentroid c => shiftTets (c - s.centroid) Ts

def runTets : CPState ℝ → List (MOp ℝ) → List (Tet ℝ) → List (Tet ℝ)
  | _, [], Ts => Ts
  | s, op :: ops, Ts => runTets (apply s op) ops (moveTets s op Ts)

theorem run_cons (s : CPState ℝ) (op : MOp ℝ) (ops : List (MOp ℝ)) : run s (op :: ops) = run (apply s op) ops := rfl

/-- a radius getter returns a positive number -/
def MOp.Valid : MOp ℝ → Prop
  | .setRadius cur _ => 0 < cur
  | _ => True

/-! ### spec under scaling and translation -/

theorem tetVol_smul (k : ℝ) (T : Tet ℝ) : Spec.tetVol (T.map (V3.smul k)) = k * k * k * Spec.tetVol T := by
  obtain ⟨⟨ax,ay,az⟩,⟨bx,b_y,bz⟩,⟨cx,cy,cz⟩,⟨dx,dy,dz⟩⟩ := T
  unfold Spec.tetVol; unfold_model; ring

theorem vol_scale (k : ℝ) (Ts : List (Tet ℝ)) : Spec.vol (scaleTets k Ts) = k * k * k * Spec.vol Ts := by
  unfold scaleTets
  rw [Spec.vol_eq, Spec.vol_eq, List.map_map, ← list_sum_map_mul]
  congr 1
  apply List.map_congr_left
  intro T _
  exact tetVol_smul k T

theorem vol_shift (d : V3 ℝ) (Ts : List (Tet ℝ)) : Spec.vol (shiftTets d Ts) = Spec.vol Ts := by
  unfold shiftTets
  have : (fun x : V3 ℝ => x + d) = (fun x => x - (-d)) := by
    funext x; cases x; cases d; ext <;> simp
  rw [this, vol_translate]

theorem centroid_shift (d : V3 ℝ) (Ts : List (Tet ℝ)) (hv : Spec.vol Ts ≠ 0) :
    Spec.centroid (shiftTets d Ts) = Spec.centroid Ts + d := by
  apply V3.ext_get
  intro i hi
  have h := first_add Ts d i hi
  have hvs := vol_shift d Ts
  unfold shiftTets at hvs
  unfold Spec.centroid shiftTets
  rw [hvs]
  cases3 i <;>
    simp only [V3.get_zero, V3.get_one, V3.get_two, V3.sdiv_x, V3.sdiv_y, V3.sdiv_z, V3.add_x, V3.add_y,
      V3.add_z] at h ⊢ <;>
    rw [h] <;> field_simp

/-- the curl-theorem centroid normalised with the exact volume is the exact centroid -/
theorem centroid_chain {S : List (Tri ℝ)} {Ts : List (Tet ℝ)}
    (h : ChainEq S (Ts.flatMap Tet.bdry)) (hv : Spec.vol Ts ≠ 0) :
    CP.centroid S (Spec.vol Ts) = Spec.centroid Ts := by
  apply V3.ext_get
  intro i hi
  have hs := centroidSum_chain h i hi
  unfold CP.centroid Spec.centroid
  cases3 i <;>
    simp only [V3.get_zero, V3.get_one, V3.get_two, V3.smul_x, V3.smul_y, V3.smul_z, V3.sdiv_x,
      V3.sdiv_y, V3.sdiv_z, Scalar.lit, Scalar.ofNat_real] at hs ⊢ <;>
    rw [hs] <;> push_cast <;> field_simp

theorem volume_chain {S : List (Tri ℝ)} {Ts : List (Tet ℝ)}
    (h : ChainEq S (Ts.flatMap Tet.bdry)) (hpos : 0 < Spec.vol Ts) : CP.volume S = Spec.vol Ts := by
  unfold CP.volume; rw [signedVolume_chain h]; simpa using hpos.le

/-! ### triangles under scaling and translation -/

theorem nvec_smul (k : ℝ) (t : Tri ℝ) : (t.map (V3.smul k)).nvec = V3.smul (k * k) t.nvec := by
  obtain ⟨⟨ax,ay,az⟩,⟨bx,b_y,bz⟩,⟨cx,cy,cz⟩⟩ := t
  ext <;> unfold_model <;> ring

theorem nvec_add (d : V3 ℝ) (t : Tri ℝ) : (t.map (· + d)).nvec = t.nvec := by
  obtain ⟨⟨ax,ay,az⟩,⟨bx,b_y,bz⟩,⟨cx,cy,cz⟩⟩ := t
  obtain ⟨d1,d2,d3⟩ := d
  ext <;> unfold_model <;> ring

theorem simplexNormal_add (d : V3 ℝ) (t : Tri ℝ) : CP.simplexNormal (t.map (· + d)) = CP.simplexNormal t := by
  have h := nvec_add d t
  unfold CP.simplexNormal
  unfold Tri.nvec at h
  simp only [h]

theorem nondeg_smul {k : ℝ} (hk : 0 < k) {S : List (Tri ℝ)} (h : ∀ t ∈ S, V3.norm t.nvec ≠ 0) :
    ∀ t ∈ S.map (Tri.map (V3.smul k)), V3.norm t.nvec ≠ 0 := by
  intro t ht
  obtain ⟨t0, h0, rfl⟩ := List.mem_map.mp ht
  rw [nvec_smul, v3norm_smul (by positivity)]
  exact mul_ne_zero (by positivity) (h t0 h0)

theorem nondeg_add (d : V3 ℝ) {S : List (Tri ℝ)} (h : ∀ t ∈ S, V3.norm t.nvec ≠ 0) :
    ∀ t ∈ S.map (Tri.map (· + d)), V3.norm t.nvec ≠ 0 := by
  intro t ht
  obtain ⟨t0, h0, rfl⟩ := List.mem_map.mp ht
  rw [nvec_add]; exact h t0 h0

theorem triArea_pos {t : Tri ℝ} (h : V3.norm t.nvec ≠ 0) : 0 < CP.triArea t := by
  have h2 := triArea_two t
  simp only [Scalar.lit, Scalar.ofNat_real] at h2
  have hn : 0 ≤ V3.norm t.nvec := by unfold V3.norm; simp only [Scalar.sqrt_real]; exact Real.sqrt_nonneg _
  have : 0 < V3.norm t.nvec := lt_of_le_of_ne hn (Ne.symm h)
  push_cast at h2
  linarith

theorem surfaceArea_pos {S : List (Tri ℝ)} (hne : S ≠ []) (h : ∀ t ∈ S, V3.norm t.nvec ≠ 0) :
    0 < CP.surfaceArea S := by
  unfold CP.surfaceArea
  rw [Scalar.sum_real]
  cases S with
  | nil => exact absurd rfl hne
  | cons t S =>
    simp only [List.map_cons, List.sum_cons]
    have h1 := triArea_pos (h t List.mem_cons_self)
    have h2 : 0 ≤ (S.map CP.triArea).sum := by
      apply List.sum_nonneg
      intro x hx
      obtain ⟨u, hu, rfl⟩ := List.mem_map.mp hx
      exact (triArea_pos (h u (List.mem_cons_of_mem _ hu))).le
    linarith

/-- the inertia routine fed with the from-scratch unit normals is the from-scratch routine -/
theorem inertiaCentredWith_fresh (S : List (Tri ℝ)) (c : V3 ℝ) :
    CP.inertiaCentredWith S (S.map CP.simplexNormal) c = CP.inertiaCentred S c := by
  have hz : ∀ (β : Type) (F : Tri ℝ → V3 ℝ → β) (S : List (Tri ℝ)),
      List.zipWith F S (S.map CP.simplexNormal) = S.map fun t => F t (CP.simplexNormal t) := by
    intro β F S
    induction S with
    | nil => rfl
    | cons t S ih => simp only [List.map_cons, List.zipWith_cons_cons, ih]
  unfold CP.inertiaCentredWith CP.inertiaCentred
  simp only [hz]

/-! ### the invariant -/

/-- the measure caches of `s` describe the solid `Ts` -/
structure MeasInv (s : CPState ℝ) (Ts : List (Tet ℝ)) : Prop where
  /-- the current surface triangles are the boundary chain of `Ts` -/
  chain : ChainEq s.tris (Ts.flatMap Tet.bdry)
  pos : 0 < Spec.vol Ts
  nd : ∀ t ∈ s.tris, V3.norm t.nvec ≠ 0
  rng : InRange s.verts.length s.simplices
  /-- `_volume` is the exact volume -/
  vol : s.volume = Spec.vol Ts
  /-- `_area` is the sum of the triangle areas of the current surface -/
  area : s.area = CP.surfaceArea s.tris
  /-- `_centroid` is the exact centroid -/
  cen : s.centroid = Spec.centroid Ts
  /-- the cached simplex normals are the unit normals of the current triangles -/
  seqN : s.seqN = s.tris.map CP.simplexNormal

theorem MeasInv.tris_ne_nil {s : CPState ℝ} {Ts : List (Tet ℝ)} (h : MeasInv s Ts) : s.tris ≠ [] := by
  intro h0
  have := signedVolume_chain h.chain
  rw [h0] at this
  have hz : CP.signedVolume ([] : List (Tri ℝ)) = 0 := by simp [CP.signedVolume, Scalar.sum, Scalar.lit]
  rw [hz] at this
  exact absurd this.symm h.pos.ne'

theorem MeasInv.area_pos {s : CPState ℝ} {Ts : List (Tet ℝ)} (h : MeasInv s Ts) : 0 < s.area := by
  rw [h.area]; exact surfaceArea_pos h.tris_ne_nil h.nd

theorem MeasInv.vol_pos {s : CPState ℝ} {Ts : List (Tet ℝ)} (h : MeasInv s Ts) : 0 < s.volume := by
  rw [h.vol]; exact h.pos

theorem rescale_tris' (s : CPState ℝ) (k : ℝ) : (s.rescale k).tris = s.tris.map (Tri.map (V3.smul k)) := by
  unfold CPState.rescale CPState.tris; exact trisOf_map_smul k s.verts s.simplices

theorem setCentroid_tris' (s : CPState ℝ) (c : V3 ℝ) (hr : InRange s.verts.length s.simplices) :
    (s.setCentroid c).tris = s.tris.map (Tri.map (· + (c - s.centroid))) := by
  unfold CPState.setCentroid CPState.tris; exact trisOf_map_add _ s.verts s.simplices hr

/-- **construction**: `_consume_hull` + `_sort_simplices` leave caches that describe the hull, provided Qhull's
`hull.area` is the area of its own triangulation (the per-run contract; `hull.volume` is overwritten and needs
no contract). -/
theorem construct_inv (verts : List (V3 ℝ)) (simplices faceHead : List (Nat × Nat × Nat))
    (eqN : List (V3 ℝ)) (eqD : List ℝ) (hullVolume hullArea : ℝ) (Ts : List (Tet ℝ))
    (hch : ChainEq (trisOf verts simplices) (Ts.flatMap Tet.bdry)) (hpos : 0 < Spec.vol Ts)
    (hnd : ∀ t ∈ trisOf verts simplices, V3.norm t.nvec ≠ 0)
    (hr : InRange verts.length simplices)
    (harea : hullArea = CP.surfaceArea (trisOf verts simplices)) :
    MeasInv (construct verts simplices faceHead eqN eqD hullVolume hullArea) Ts := by
  have hv := volume_chain hch hpos
  refine ⟨hch, hpos, hnd, hr, hv, harea, ?_, rfl⟩
  show CP.centroid (trisOf verts simplices) (CP.volume (trisOf verts simplices)) = Spec.centroid Ts
  rw [hv]; exact centroid_chain hch hpos.ne'

/-- **one step of `_rescale(k)`, `k > 0`** -/
theorem rescale_inv {s : CPState ℝ} {Ts : List (Tet ℝ)} (h : MeasInv s Ts) {k : ℝ} (hk : 0 < k) :
    MeasInv (s.rescale k) (scaleTets k Ts) := by
  have ht := rescale_tris' s k
  have hch : ChainEq (s.rescale k).tris ((scaleTets k Ts).flatMap Tet.bdry) := by
    rw [ht]; unfold scaleTets; rw [flatMap_bdry_map]; exact ChainEq.map _ h.chain
  have hvol : Spec.vol (scaleTets k Ts) = s.volume * (k * k * k) := by rw [vol_scale, h.vol]; ring
  have hpos : 0 < Spec.vol (scaleTets k Ts) := by
    rw [vol_scale]; have := h.pos; positivity
  refine ⟨hch, hpos, ?_, ?_, hvol.symm, ?_, ?_, ?_⟩
  · rw [ht]; exact nondeg_smul hk h.nd
  · show InRange (s.verts.map (V3.smul k)).length s.simplices
    simpa using h.rng
  · rw [ht, surfaceArea_smul hk, ← h.area]; rfl
  · show CP.centroid (trisOf (s.verts.map (V3.smul k)) s.simplices) (s.volume * (k * k * k)) = _
    rw [← hvol]
    exact centroid_chain hch hpos.ne'
  · show s.seqN = (s.rescale k).tris.map CP.simplexNormal
    rw [ht, h.seqN, List.map_map]
    apply List.map_congr_left
    intro t _
    simp only [Function.comp, simplexNormal_smul hk]

/-- **one step of `centroid.setter`**: the caches describe the translated solid, and the new centroid is the
requested point. -/
theorem setCentroid_inv {s : CPState ℝ} {Ts : List (Tet ℝ)} (h : MeasInv s Ts) (c : V3 ℝ) :
    MeasInv (s.setCentroid c) (shiftTets (c - s.centroid) Ts) := by
  have ht := setCentroid_tris' s c h.rng
  have hch : ChainEq (s.setCentroid c).tris ((shiftTets (c - s.centroid) Ts).flatMap Tet.bdry) := by
    rw [ht]; unfold shiftTets; rw [flatMap_bdry_map]; exact ChainEq.map _ h.chain
  have hvs := vol_shift (c - s.centroid) Ts
  have hpos : 0 < Spec.vol (shiftTets (c - s.centroid) Ts) := by rw [hvs]; exact h.pos
  refine ⟨hch, hpos, ?_, ?_, ?_, ?_, ?_, ?_⟩
  · rw [ht]; exact nondeg_add _ h.nd
  · show InRange (s.verts.map (· + (c - s.centroid))).length s.simplices
    simpa using h.rng
  · show CP.volume (s.setCentroid c).tris = _
    exact volume_chain hch hpos
  · show s.area = CP.surfaceArea (s.setCentroid c).tris
    rw [ht, surfaceArea_translate, ← h.area]
  · show CP.centroid (s.setCentroid c).tris s.volume = _
    rw [h.vol, ← hvs]
    exact centroid_chain hch hpos.ne'
  · rfl

/-- the centroid setter does what it says: afterwards the stored (= exact) centroid is the requested point -/
theorem setCentroid_centroid {s : CPState ℝ} {Ts : List (Tet ℝ)} (h : MeasInv s Ts) (c : V3 ℝ) :
    (s.setCentroid c).centroid = c := by
  rw [(setCentroid_inv h c).cen, centroid_shift _ _ h.pos.ne', ← h.cen]
  cases c; cases hc : s.centroid; ext <;> simp

theorem setterFactor_pos' {deg : Nat} {cur tgt k : ℝ} (hcur : 0 < cur)
    (h : setterFactor deg cur tgt = .ok k) : 0 < k := by
  unfold setterFactor at h
  by_cases ht : (lit 0 : ℝ) < tgt
  · have ht' : (0:ℝ) < tgt := by simpa [Scalar.lit] using ht
    have hq : 0 < tgt / cur := div_pos ht' hcur
    simp only [ht, not_true_eq_false, if_false] at h
    split_ifs at h <;> injection h with h <;> subst h
    · exact cbrt_pos hq
    · exact Real.sqrt_pos.mpr hq
    · exact hq
  · rw [if_pos ht] at h; cases h

/-- **one operation** -/
theorem apply_inv {s : CPState ℝ} {Ts : List (Tet ℝ)} (h : MeasInv s Ts) (op : MOp ℝ) (hop : op.Valid) :
    MeasInv (apply s op) (moveTets s op Ts) := by
  unfold apply step moveTets
  cases op with
  | setVolume v =>
    simp only [CPState.setVolume]
    cases hk : setterFactor 3 s.volume v with
    | error e => simpa [hk, bind, Except.bind] using h
    | ok k => simpa [hk, bind, Except.bind, pure, Except.pure] using rescale_inv h (setterFactor_pos' h.vol_pos hk)
  | setSurfaceArea v =>
    simp only [CPState.setSurfaceArea]
    cases hk : setterFactor 2 s.area v with
    | error e => simpa [hk, bind, Except.bind] using h
    | ok k => simpa [hk, bind, Except.bind, pure, Except.pure] using rescale_inv h (setterFactor_pos' h.area_pos hk)
  | setRadius cur v =>
    simp only [CPState.setRadius]
    cases hk : setterFactor 1 cur v with
    | error e => simpa [hk, bind, Except.bind] using h
    | ok k => simpa [hk, bind, Except.bind, pure, Except.pure] using rescale_inv h (setterFactor_pos' hop hk)
  | setCentroid c => exact setCentroid_inv h c

/-- **any history** -/
theorem run_inv (ops : List (MOp ℝ)) : ∀ {s : CPState ℝ} {Ts : List (Tet ℝ)}, MeasInv s Ts →
    (∀ op ∈ ops, op.Valid) → MeasInv (run s ops) (runTets s ops Ts) := by
  induction ops with
  | nil => intro s Ts h _; exact h
  | cons op ops ih =>
    intro s Ts h hv
    rw [run_cons]
    exact ih (apply_inv h op (hv op List.mem_cons_self)) (fun o ho => hv o (List.mem_cons_of_mem _ ho))

end
end CPH
