import CoxeterVerif.Model.MeshIO
/-!
  Helper lemmas of C20 (deepening round): the heap model of the writers (`Model/MeshIO.lean`: `Heap`, `ShapeH`,
  `deepcopyH`, `toStlPreH`, `exportH`).  No Mathlib.

  Main facts
  * `deepcopyH` only appends arrays: the old heap is a prefix, the copy's `_vertices` is the first new array and holds
    the contents of the original's;
  * the `shape.centroid[i] -= m` loop of `to_stl` writes only into arrays that did not exist before the call (the
    copy's `_centroid`, or the temporary array the `Polyhedron.centroid` getter returns) — never into the copy's
    `_vertices`;
  * hence `toStlPre_deepcopy`: every array that existed keeps its contents and the coordinates that are printed are the
    contents of the shape's own `_vertices` (the "shift to positive coordinates" is without effect);
  * with a shallow copy instead (`shallowcopyH`, the seeded change r2-C20-2 / r1-C20-2) the caller's `_centroid`
    array IS modified: `toStlPre_shallow_mutates`.
-/
namespace MeshIO
namespace Heap
variable {α : Type}

theorem get_eq_take (h : Heap α) {i k : Nat} (hik : i < k) : h.get i = Heap.get (h.take k) i := by
  simp [Heap.get, List.getD, hik]

theorem length_alloc (h : Heap α) (a : List α) : (h.alloc a).1.length = h.length + 1 := by
  simp [Heap.alloc]

theorem alloc_snd (h : Heap α) (a : List α) : (h.alloc a).2 = h.length := rfl

theorem take_alloc (h : Heap α) (a : List α) {k : Nat} (hk : k ≤ h.length) :
    (h.alloc a).1.take k = h.take k := by
  simp [Heap.alloc, List.take_append_of_le_length hk]

theorem length_setAt (h : Heap α) (i k : Nat) (x : α) : (h.setAt i k x).length = h.length := by
  simp [Heap.setAt]

theorem take_setAt (h : Heap α) {i n : Nat} (k : Nat) (x : α) (hn : n ≤ i) :
    (h.setAt i k x).take n = h.take n := by
  simp [Heap.setAt, List.take_set_of_le hn]

theorem get_alloc_new (h : Heap α) (a : List α) : (h.alloc a).1.get h.length = a := by
  simp [Heap.alloc, Heap.get]

end Heap

variable {α : Type}

/-- the copying loop over `others` only appends -/
theorem copyFold_prefix (os : List Nat) (st : Heap α × List Nat) :
    ∃ ext, (os.foldl copyArr st).1 = st.1 ++ ext := by
  induction os generalizing st with
  | nil => exact ⟨[], by simp⟩
  | cons o os ih =>
    simp only [List.foldl_cons]
    obtain ⟨ext, he⟩ := ih (copyArr st o)
    refine ⟨[st.1.get o] ++ ext, ?_⟩
    rw [he]
    simp [copyArr, Heap.alloc]

/-- `deepcopy`: the heap grows at the end; the copy's `_vertices` is the array number `h.length` and has the
    contents of the original's `_vertices`; its `_centroid` is the array number `h.length + 1`. -/
theorem deepcopyH_spec (h : Heap α) (s : ShapeH) :
    ∃ ext, (deepcopyH h s).1 = h ++ (h.get s.vertices :: ext)
      ∧ (deepcopyH h s).2.vertices = h.length ∧ (deepcopyH h s).2.centroid = h.length + 1
      ∧ (deepcopyH h s).2.convex = s.convex := by
  unfold deepcopyH
  obtain ⟨ext, he⟩ := copyFold_prefix s.others
    (((h.alloc (h.get s.vertices)).1.alloc ((h.alloc (h.get s.vertices)).1.get s.centroid)).1, [])
  refine ⟨[(h.alloc (h.get s.vertices)).1.get s.centroid] ++ ext, ?_, ?_, ?_, ?_⟩
  · simp only [he]
    simp [Heap.alloc]
  · simp [Heap.alloc]
  · simp [Heap.alloc]
  · simp

section loop
variable [Scalar α]

/-- one round of the shift loop, on a shape whose `_centroid` is not one of the first `n + 1` arrays, leaves the first
    `n + 1` arrays alone -/
theorem shiftStep_take (cen : List α → List α) (g : Heap α) (s : ShapeH) (n : Nat) (mi : α × Nat)
    (hc : n + 1 ≤ s.centroid) (hl : n + 1 ≤ g.length) :
    (shiftStep cen s g mi).take (n + 1) = g.take (n + 1) := by
  unfold shiftStep
  split
  · unfold centroidGetH
    split
    · exact Heap.take_setAt _ _ _ hc
    · simp only
      rw [Heap.take_setAt _ _ _ (by rw [Heap.alloc_snd]; exact hl), Heap.take_alloc _ _ hl]
  · rfl

theorem shiftLoop_take (cen : List α → List α) (s : ShapeH) (n : Nat) (hc : n + 1 ≤ s.centroid)
    (ms : List (α × Nat)) (g : Heap α) (hl : n + 1 ≤ g.length) :
    (ms.foldl (shiftStep cen s) g).take (n + 1) = g.take (n + 1) := by
  induction ms generalizing g with
  | nil => rfl
  | cons mi ms ih =>
    simp only [List.foldl_cons]
    have hstep := shiftStep_take cen g s n mi hc hl
    have hl' : n + 1 ≤ (shiftStep cen s g mi).length := by
      have := congrArg List.length hstep
      simp only [List.length_take] at this
      omega
    rw [ih _ hl', hstep]

/-- `to_stl` with `deepcopy` (the code as it is): afterwards every array that existed before the call has its old
    contents, and `vs` — the coordinates that are printed — are the contents of the shape's own `_vertices`. -/
theorem toStlPre_deepcopy (cen : List α → List α) (h : Heap α) (shape : ShapeH) :
    (∀ i, i < h.length → (toStlPreH deepcopyH cen h shape).1.get i = h.get i)
    ∧ (toStlPreH deepcopyH cen h shape).2 = h.get shape.vertices := by
  obtain ⟨ext, he, hv, hc, _⟩ := deepcopyH_spec h shape
  unfold toStlPreH
  simp only
  have hl : h.length + 1 ≤ (deepcopyH h shape).1.length := by rw [he]; simp
  have hloop := fun ms => shiftLoop_take cen (deepcopyH h shape).2 h.length (by omega) ms (deepcopyH h shape).1 hl
  have htake : (deepcopyH h shape).1.take (h.length + 1) = h ++ [h.get shape.vertices] := by
    rw [he, List.take_append, List.take_of_length_le (by omega)]
    simp
  constructor
  · intro i hi
    rw [Heap.get_eq_take _ (show i < h.length + 1 by omega), hloop, htake]
    simp [Heap.get, List.getD, List.getElem?_append_left hi]
  · rw [hv, Heap.get_eq_take _ (show h.length < h.length + 1 by omega), hloop, htake]
    simp [Heap.get]

end loop

/-- all seven writers: arrays that existed keep their contents, the caller's shape object holds the same arrays (only
    the `edges` cache may have been filled, by `to_off`), and the printed coordinates are the shape's vertices. -/
theorem exportH_spec [Scalar α] (cen : List α → List α) (fmt : Nat) (h : Heap α) (shape : ShapeH) :
    (∀ i, i < h.length → (exportH cen fmt h shape).1.get i = h.get i)
    ∧ (exportH cen fmt h shape).2.1 = { shape with edgesCached := shape.edgesCached || fmt == 1 }
    ∧ (exportH cen fmt h shape).2.2 = h.get shape.vertices := by
  unfold exportH
  by_cases h2 : fmt = 2
  · subst h2
    have := toStlPre_deepcopy cen h shape
    simp only [if_true]
    exact ⟨this.1, by simp, this.2⟩
  · by_cases h1 : fmt = 1
    · subst h1
      simp
    · have hb : (fmt == 1) = false := by simp [h1]
      simp [h1, h2, hb]

/-! ### histories of exports -/

section history
variable [Scalar α]

theorem shiftStep_length (cen : List α → List α) (g : Heap α) (s : ShapeH) (mi : α × Nat) :
    g.length ≤ (shiftStep cen s g mi).length := by
  unfold shiftStep
  split
  · unfold centroidGetH
    split
    · simp [Heap.length_setAt]
    · simp [Heap.length_setAt, Heap.length_alloc]
  · exact Nat.le_refl _

theorem shiftLoop_length (cen : List α → List α) (s : ShapeH) (ms : List (α × Nat)) (g : Heap α) :
    g.length ≤ (ms.foldl (shiftStep cen s) g).length := by
  induction ms generalizing g with
  | nil => exact Nat.le_refl _
  | cons mi ms ih =>
    simp only [List.foldl_cons]
    exact Nat.le_trans (shiftStep_length cen g s mi) (ih _)

/-- the heap only grows -/
theorem exportH_length (cen : List α → List α) (fmt : Nat) (h : Heap α) (shape : ShapeH) :
    h.length ≤ (exportH cen fmt h shape).1.length := by
  unfold exportH
  split
  · simp only [toStlPreH]
    obtain ⟨ext, he, _⟩ := deepcopyH_spec h shape
    refine Nat.le_trans ?_ (shiftLoop_length cen _ _ _)
    rw [he]; simp
  · split <;> exact Nat.le_refl _

/-- a whole history of exports, in any order and number: heap and shape object afterwards, and the coordinates each
    export printed -/
def exportsH (cen : List α → List α) : List Nat → Heap α → ShapeH → Heap α × ShapeH × List (List α)
  | [], h, s => (h, s, [])
  | f :: fs, h, s =>
    ((exportsH cen fs (exportH cen f h s).1 (exportH cen f h s).2.1).1,
     (exportsH cen fs (exportH cen f h s).1 (exportH cen f h s).2.1).2.1,
     (exportH cen f h s).2.2 :: (exportsH cen fs (exportH cen f h s).1 (exportH cen f h s).2.1).2.2)

theorem exportsH_spec (cen : List α → List α) (fmts : List Nat) (h : Heap α) (shape : ShapeH)
    (hv : shape.vertices < h.length) :
    (∀ i, i < h.length → (exportsH cen fmts h shape).1.get i = h.get i)
    ∧ (exportsH cen fmts h shape).2.1 = { shape with edgesCached := shape.edgesCached || fmts.contains 1 }
    ∧ (∀ vs ∈ (exportsH cen fmts h shape).2.2, vs = h.get shape.vertices)
    ∧ (exportsH cen fmts h shape).2.2.length = fmts.length := by
  induction fmts generalizing h shape with
  | nil => simp [exportsH]
  | cons f fs ih =>
    have h1 := exportH_spec cen f h shape
    have hlen := exportH_length cen f h shape
    have hv' : (exportH cen f h shape).2.1.vertices < (exportH cen f h shape).1.length := by
      rw [h1.2.1]; exact Nat.lt_of_lt_of_le hv hlen
    have h2 := ih (exportH cen f h shape).1 (exportH cen f h shape).2.1 hv'
    simp only [exportsH]
    refine ⟨?_, ?_, ?_, ?_⟩
    · intro i hi
      rw [h2.1 i (Nat.lt_of_lt_of_le hi hlen), h1.1 i hi]
    · rw [h2.2.1]
      simp only [h1.2.1]
      by_cases hf : f = 1
      · subst hf; simp
      · have h10 : ¬ (1 = f) := fun h => hf h.symm
        have h01 : (f == 1) = false := by simpa using hf
        simp [h01, h10]
    · intro vs hvs
      rcases List.mem_cons.mp hvs with rfl | hvs
      · exact h1.2.2
      · rw [h2.2.2.1 vs hvs, h1.2.1]
        exact h1.1 _ hv
    · simp [h2.2.2.2]

end history

/-! ### sensitivity: with a SHALLOW copy the caller's cached centroid is modified -/

section witness
/-- cube `[-1,1]³` as a `ConvexPolyhedron`: array 0 = `_vertices`, array 1 = `_centroid` -/
def wHeap : Heap Rat :=
  [[-1, -1, -1, -1, -1, 1, -1, 1, -1, -1, 1, 1, 1, -1, -1, 1, -1, 1, 1, 1, -1, 1, 1, 1], [0, 0, 0]]
def wShape : ShapeH := ⟨true, 0, 1, [], false⟩

/-- `shape = copy(shape)` instead of `deepcopy(shape)`: `shape.centroid[i] -= m` edits the caller's `_centroid`
    (here from (0,0,0) to (1,1,1)) — the model distinguishes the two, `toStlPre_deepcopy` is not vacuous. -/
theorem toStlPre_shallow_mutates :
    (toStlPreH shallowcopyH (fun _ => [0, 0, 0]) wHeap wShape).1.get 1 = [1, 1, 1]
    ∧ (toStlPreH deepcopyH (fun _ => [0, 0, 0]) wHeap wShape).1.get 1 = [0, 0, 0] := by
  decide +kernel
end witness

end MeshIO
