import CoxeterVerif.Spec.Families
import CoxeterVerif.Generated.Planes
/-! The per-run exactness check `Fam.halfspaceGap` evaluated once by the kernel (exactly, over ℚ) on
    the regenerated 323+ table at the cube corner (a, b, c) = (3, 1, 3): the hypothesis of
    `make_vertices_exact_certified` is satisfiable. (In a file of its own: ≈ 90 s of kernel time.) -/
open Fam
set_option maxRecDepth 100000
namespace FamTables
theorem fam323_cube_gapcheck :
    halfspaceGap (rows (Gen.fam323.planesS : List (V3 Rat)) Gen.fam323.types 3 1 3) = true := by
  decide +kernel
end FamTables
