import CoxeterVerif.Lemmas.ConstructorsStar
/-!
  C15, deepening round: a strictly convex polygon listed counter-clockwise (`Spec.ccwConvex2`: every other vertex
  strictly to the left of every directed edge) with pairwise different vertices is simple.
-/
open Scalar C15 C15.Spec
set_option maxRecDepth 4000
set_option linter.unusedSimpArgs false
set_option linter.unusedVariables false
noncomputable section

namespace C15

theorem vtx_mem (l : List (P2 ℝ)) (hn : 0 < l.length) (m : Nat) : vtx l m ∈ l := by
  rw [← vtx_mod, vtx_eq_getElem l _ (Nat.mod_lt _ hn)]
  exact List.getElem_mem _

/-- index form of `ccwConvex2` -/
theorem ccwConvex2_left (l : List (P2 ℝ)) (h : ccwConvex2 l = true) (hd : DistinctIdx l) (i : Nat) (hi : i < l.length)
    (m : Nat) (h1 : m % l.length ≠ i) (h2 : m % l.length ≠ (i + 1) % l.length) :
    0 < orient (vtx l i) (vtx l (i + 1)) (vtx l m) := by
  unfold ccwConvex2 at h
  rw [Bool.and_eq_true, decide_eq_true_eq, List.all_eq_true] at h
  obtain ⟨h3, hall⟩ := h
  have hn : 0 < l.length := by omega
  have hi' : i < (cycEdges l).length := by rw [cycEdges_length]; exact hi
  have he := hall _ (List.getElem_mem hi')
  rw [cycEdges_getElem, List.all_eq_true] at he
  have := he _ (vtx_mem l hn m)
  simp only [Bool.or_eq_true, decide_eq_true_eq, lit_zero] at this
  rcases this with (h' | h') | h'
  · exfalso
    have := hd.ptEq_false (i := m) (j := i) hn (by rw [Nat.mod_eq_of_lt hi]; exact h1)
    rw [h'] at this; exact Bool.noConfusion this
  · exfalso
    have := hd.ptEq_false (i := m) (j := i + 1) hn h2
    rw [h'] at this; exact Bool.noConfusion this
  · exact h'

theorem onSeg_false_of_orient_pos (a b p : P2 ℝ) (h : 0 < orient a b p) : onSeg a b p = false := by
  rw [← Bool.not_eq_true, onSeg_iff]
  rintro ⟨h0, _⟩; linarith

/-- two segments each of which has the other strictly on its left do not meet -/
theorem segMeet_false_of_left (a b c d : P2 ℝ) (h1 : 0 < orient a b c) (h2 : 0 < orient a b d)
    (h3 : 0 < orient c d a) (h4 : 0 < orient c d b) : segMeet a b c d = false := by
  rw [← Bool.not_eq_true, segMeet_iff]
  rintro (⟨h, _⟩ | h | h | h | h)
  · rw [oppositeSigns_iff] at h
    rcases h with ⟨_, h⟩ | ⟨h, _⟩ <;> linarith
  · rw [onSeg_false_of_orient_pos _ _ _ h1] at h; exact Bool.noConfusion h
  · rw [onSeg_false_of_orient_pos _ _ _ h2] at h; exact Bool.noConfusion h
  · rw [onSeg_false_of_orient_pos _ _ _ h3] at h; exact Bool.noConfusion h
  · rw [onSeg_false_of_orient_pos _ _ _ h4] at h; exact Bool.noConfusion h

theorem succ_mod_ne (n r : Nat) (hn : 2 ≤ n) (hr : r < n) : (r + 1) % n ≠ r := by
  by_cases h : r + 1 < n
  · rw [Nat.mod_eq_of_lt h]; omega
  · have : r + 1 = n := by omega
    rw [this, Nat.mod_self]; omega

theorem add_two_mod_ne (n r : Nat) (hn : 3 ≤ n) (hr : r < n) : (r + 2) % n ≠ r ∧ (r + 2) % n ≠ (r + 1) % n := by
  by_cases h : r + 2 < n
  · rw [Nat.mod_eq_of_lt h, Nat.mod_eq_of_lt (by omega)]; omega
  · by_cases h' : r + 1 < n
    · have : r + 2 = n := by omega
      rw [this, Nat.mod_self, Nat.mod_eq_of_lt h']; omega
    · have e1 : r + 1 = n := by omega
      have e2 : r + 2 = 1 + n := by omega
      rw [e2, Nat.add_mod_right, Nat.mod_eq_of_lt (by omega), e1, Nat.mod_self]; omega

/-- **a strictly convex counter-clockwise polygon with pairwise different vertices is simple** -/
theorem ccwConvex2_simple (l : List (P2 ℝ)) (hd : distinct l = true) (h : ccwConvex2 l = true) :
    Spec.simple l = true := by
  have h3 : 3 ≤ l.length := by
    unfold ccwConvex2 at h; rw [Bool.and_eq_true, decide_eq_true_eq] at h; exact h.1
  have hn : 0 < l.length := by omega
  have hD : DistinctIdx l := (distinct_iff_idx l).1 hd
  unfold Spec.simple
  rw [Bool.and_eq_true, Bool.and_eq_true, decide_eq_true_eq]
  refine ⟨⟨h3, hd⟩, ?_⟩
  rw [edgesOK_iff_idx]
  -- the turn at vertex i+1 and the edge i+1 seeing vertex i
  have hadj : ∀ i, i < l.length → (!foldBack (vtx l i) (vtx l (i + 1)) (vtx l (i + 2))) = true := by
    intro i hi
    obtain ⟨n1, n2⟩ := add_two_mod_ne l.length i h3 hi
    have o1 := ccwConvex2_left l h hD i hi (i + 2) n1 n2
    -- edge (i+1) mod n sees vertex i on its left
    have hj : (i + 1) % l.length < l.length := Nat.mod_lt _ hn
    have o2 := ccwConvex2_left l h hD ((i + 1) % l.length) hj i
      (by rw [Nat.mod_eq_of_lt hi]; exact (succ_mod_ne l.length i (by omega) hi).symm)
      (by
        rw [Nat.mod_eq_of_lt hi]
        have : ((i + 1) % l.length + 1) % l.length = (i + 2) % l.length := by
          rw [Nat.add_mod, Nat.mod_mod, ← Nat.add_mod]
        rw [this]; exact n1.symm)
    have e1 : vtx l ((i + 1) % l.length) = vtx l (i + 1) := vtx_mod l (i + 1)
    have e2 : vtx l ((i + 1) % l.length + 1) = vtx l (i + 2) := by
      rw [← vtx_mod l ((i + 1) % l.length + 1), Nat.add_mod, Nat.mod_mod, ← Nat.add_mod, vtx_mod]
    rw [e1, e2] at o2
    unfold foldBack
    rw [onSeg_false_of_orient_pos _ _ _ o1, onSeg_false_of_orient_pos _ _ _ o2]
    rfl
  intro i j hij hj
  by_cases hna : cycAdjacent l.length i j
  · rcases hna with hh | ⟨h0, hlast⟩
    · subst hh
      have e : i + 1 + 1 = i + 2 := rfl
      rw [e, edgeOK_adjacent l hD h3 i]
      exact hadj i (by omega)
    · subst h0
      have hj' : j = l.length - 1 := by omega
      subst hj'
      have e : 0 + 1 = 1 := rfl
      rw [e, edgeOK_wrap l hD h3]
      exact hadj (l.length - 1) (by omega)
  · rw [edgeOK_far l hD h3 i j hij hj hna]
    unfold cycAdjacent at hna
    have hi : i < l.length := by omega
    have mj : j % l.length = j := Nat.mod_eq_of_lt hj
    have mi : i % l.length = i := Nat.mod_eq_of_lt hi
    have mi1 : (i + 1) % l.length = i + 1 := Nat.mod_eq_of_lt (by omega)
    have mj1 : (j + 1) % l.length = if j + 1 = l.length then 0 else j + 1 := by
      split_ifs with hh
      · rw [hh, Nat.mod_self]
      · exact Nat.mod_eq_of_lt (by omega)
    have o1 := ccwConvex2_left l h hD i hi j (by rw [mj]; omega) (by rw [mj, mi1]; omega)
    have o2 := ccwConvex2_left l h hD i hi (j + 1) (by rw [mj1]; split_ifs <;> omega)
      (by rw [mj1, mi1]; split_ifs <;> omega)
    have o3 := ccwConvex2_left l h hD j hj i (by rw [mi]; omega) (by rw [mi, mj1]; split_ifs <;> omega)
    have o4 := ccwConvex2_left l h hD j hj (i + 1) (by rw [mi1]; omega) (by rw [mi1, mj1]; split_ifs <;> omega)
    rw [segMeet_false_of_left _ _ _ _ o1 o2 o3 o4]
    rfl

end C15
end
