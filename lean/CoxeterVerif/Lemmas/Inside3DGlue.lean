import CoxeterVerif.Lemmas.Inside3D
/-!
  C05: the glue of `Polyhedron.is_inside` — the round trip polytri triangle → vertex index →
  `self.vertices` row (`vertex_to_index`) — is the identity whenever every triangle vertex is (exactly)
  one of the vertices; duplicates in the vertex list are harmless (the last index wins, same
  coordinates).
-/
open Scalar
set_option maxRecDepth 4000
noncomputable section

namespace Inside3D
open Spec.In3D

theorem vEqb_iff (u v : V3 ℝ) : Poly.vEqb u v = true ↔ u = v := by
  unfold Poly.vEqb
  obtain ⟨ux, uy, uz⟩ := u; obtain ⟨vx, vy, vz⟩ := v
  simp only [Bool.and_eq_true, V3.mk.injEq]
  constructor
  · rintro ⟨⟨h1, h2⟩, h3⟩
    exact ⟨of_decide_eq_true h1, of_decide_eq_true h2, of_decide_eq_true h3⟩
  · rintro ⟨h1, h2, h3⟩
    exact ⟨⟨decide_eq_true h1, decide_eq_true h2⟩, decide_eq_true h3⟩

/-- a found index points to a row with the requested coordinates -/
theorem vertexIndex_some : ∀ (V : List (V3 ℝ)) (v : V3 ℝ) (i j : Nat),
    Poly.vertexIndex V v i = some j → i ≤ j ∧ V.getD (j - i) V3.zero = v ∧ j - i < V.length
  | [], v, i, j, h => by simp [Poly.vertexIndex] at h
  | u :: us, v, i, j, h => by
    unfold Poly.vertexIndex at h
    cases hr : Poly.vertexIndex us v (i + 1) with
    | some k =>
      rw [hr] at h
      simp only [Option.some.injEq] at h
      subst h
      obtain ⟨h1, h2, h3⟩ := vertexIndex_some us v (i + 1) k hr
      have e : k - i = (k - (i + 1)) + 1 := by omega
      refine ⟨by omega, ?_, ?_⟩
      · rw [e, List.getD_cons_succ]; exact h2
      · rw [e, List.length_cons]; omega
    | none =>
      rw [hr] at h
      simp only at h
      split_ifs at h with he
      simp only [Option.some.injEq] at h
      subst h
      refine ⟨le_refl _, ?_, ?_⟩
      · simp only [Nat.sub_self, List.getD_cons_zero]; exact (vEqb_iff u v).mp he
      · simp

/-- a present vertex is found -/
theorem vertexIndex_of_mem : ∀ (V : List (V3 ℝ)) (v : V3 ℝ) (i : Nat), v ∈ V →
    ∃ j, Poly.vertexIndex V v i = some j
  | [], v, i, h => by simp at h
  | u :: us, v, i, h => by
    unfold Poly.vertexIndex
    cases hr : Poly.vertexIndex us v (i + 1) with
    | some k => exact ⟨k, rfl⟩
    | none =>
      rcases List.mem_cons.mp h with rfl | hm
      · refine ⟨i, ?_⟩
        simp only
        rw [if_pos ((vEqb_iff v v).mpr rfl)]
      · obtain ⟨j, hj⟩ := vertexIndex_of_mem us v (i + 1) hm
        rw [hr] at hj; cases hj

theorem gatherVertex_eq {V : List (V3 ℝ)} {v : V3 ℝ} (h : v ∈ V) : Poly.gatherVertex V v = .ok v := by
  unfold Poly.gatherVertex
  obtain ⟨j, hj⟩ := vertexIndex_of_mem V v 0 h
  rw [hj]
  have := (vertexIndex_some V v 0 j hj).2.1
  simp only [Nat.sub_zero] at this
  simp only [this]

/-- **the index round trip is the identity** -/
theorem gather_eq (V : List (V3 ℝ)) : ∀ (S : List (Tri ℝ)),
    (∀ t ∈ S, t.a ∈ V ∧ t.b ∈ V ∧ t.c ∈ V) → Poly.gather V S = .ok S
  | [], _ => rfl
  | t :: S, h => by
    have ih := gather_eq V S (fun t' ht' => h t' (List.mem_cons_of_mem _ ht'))
    obtain ⟨ha, hb, hc⟩ := h t List.mem_cons_self
    unfold Poly.gather at ih ⊢
    rw [List.mapM_cons, gatherVertex_eq ha, gatherVertex_eq hb, gatherVertex_eq hc, ih]
    rfl

/-- a vertex of a triangle that is not a row of `self.vertices`: `KeyError` -/
theorem gatherVertex_error {V : List (V3 ℝ)} {v : V3 ℝ} (h : v ∉ V) :
    Poly.gatherVertex V v = .error "KeyError" := by
  unfold Poly.gatherVertex
  cases hr : Poly.vertexIndex V v 0 with
  | none => rfl
  | some j =>
    exfalso
    obtain ⟨_, h2, h3⟩ := vertexIndex_some V v 0 j hr
    apply h
    rw [← h2]
    simp only [Nat.sub_zero] at h3 ⊢
    rw [List.getD_eq_getElem?_getD, List.getElem?_eq_getElem h3]
    exact List.getElem_mem h3

end Inside3D
end
