import CoxeterVerif.Lemmas.BallsCert
import Mathlib.Analysis.LocallyConvex.Separation
import Mathlib.Analysis.Convex.Topology
import Mathlib.Analysis.Convex.Combination
/-!
  C13 — COMPLETENESS of the support certificate: every minimal bounding ball of a non-empty finite
  point set has one (its centre is a convex combination of the points at distance exactly `r`).

  Proof: otherwise the centre is strictly separated from the convex hull of those points
  (geometric Hahn–Banach in `Fin 3 → ℝ`), and moving the centre a little along the separating
  direction brings EVERY point strictly inside — a smaller bounding ball.
-/
noncomputable section
namespace Balls
open BallSpec

abbrev E3 := Fin 3 → ℝ
def toE (v : V3 ℝ) : E3 := ![v.x, v.y, v.z]
def ofE (e : E3) : V3 ℝ := ⟨e 0, e 1, e 2⟩
theorem ofE_toE (v : V3 ℝ) : ofE (toE v) = v := by cases v; rfl

/-- a continuous linear functional on `ℝ³` is a dot product -/
theorem clm_eq_dot (f : E3 →L[ℝ] ℝ) : ∃ d : V3 ℝ, ∀ v, f (toE v) = V3.dot d v := by
  refine ⟨⟨f (Pi.single 0 1), f (Pi.single 1 1), f (Pi.single 2 1)⟩, fun v => ?_⟩
  have hv : toE v = v.x • (Pi.single 0 1 : E3) + v.y • (Pi.single 1 1 : E3) + v.z • (Pi.single 2 1 : E3) := by
    funext i
    fin_cases i <;> simp [toE]
  rw [hv, map_add, map_add, map_smul, map_smul, map_smul, V3.dot_eq]
  simp only [smul_eq_mul]
  ring

/-- a positive number below finitely many positive numbers -/
theorem exists_pos_le_all (l : List ℝ) (h : ∀ x ∈ l, 0 < x) : ∃ ε, 0 < ε ∧ ∀ x ∈ l, ε ≤ x := by
  induction l with
  | nil => exact ⟨1, one_pos, fun x hx => by cases hx⟩
  | cons a l ih =>
    obtain ⟨ε, hε, hall⟩ := ih fun x hx => h x (List.mem_cons_of_mem _ hx)
    refine ⟨min a ε, lt_min (h a List.mem_cons_self) hε, fun x hx => ?_⟩
    rcases List.mem_cons.mp hx with rfl | hx
    · exact min_le_left _ _
    · exact le_trans (min_le_right _ _) (hall x hx)

theorem normSq_shift (p c d : V3 ℝ) (ε : ℝ) :
    V3.normSq (p - (c + V3.smul ε d)) =
      V3.normSq (p - c) - 2 * ε * V3.dot d (p - c) + ε * ε * V3.normSq d := by
  simp only [V3.normSq_eq, V3.dot_eq, V3.sub_x, V3.sub_y, V3.sub_z, V3.add_x, V3.add_y, V3.add_z,
    V3.smul_x, V3.smul_y, V3.smul_z]
  ring

/-- per point: a step size below which the point is strictly inside the ball about the moved centre -/
theorem step_for_point (p c d : V3 ℝ) (r : ℝ) (_hr : 0 ≤ r) (hin : V3.norm (p - c) ≤ r)
    (hsup : V3.norm (p - c) = r → 0 < V3.dot d (p - c)) :
    ∃ εp, 0 < εp ∧ ∀ ε, 0 < ε → ε ≤ εp → V3.normSq (p - (c + V3.smul ε d)) < r * r := by
  have hD := V3.normSq_nonneg d
  rcases eq_or_lt_of_le hin with heq | hlt
  · have ha := hsup heq
    have hsq : V3.normSq (p - c) = r * r := by rw [← V3.norm_mul_self, heq]
    refine ⟨V3.dot d (p - c) / (V3.normSq d + 1), div_pos ha (by linarith), fun ε hε hle => ?_⟩
    rw [normSq_shift, hsq]
    have h1 : ε * (V3.normSq d + 1) ≤ V3.dot d (p - c) := by
      rwa [le_div_iff₀ (by linarith : (0 : ℝ) < V3.normSq d + 1)] at hle
    nlinarith [mul_pos hε ha, mul_nonneg (le_of_lt hε) hD]
  · have hsq : V3.normSq (p - c) < r * r := by
      rw [← V3.norm_mul_self]
      exact mul_self_lt_mul_self (V3.norm_nonneg _) hlt
    set δ := r * r - V3.normSq (p - c) with hδ
    have hδpos : 0 < δ := by rw [hδ]; linarith
    set A := |V3.dot d (p - c)| with hA
    have hApos : 0 ≤ A := abs_nonneg _
    have hden : 0 < 2 * A + V3.normSq d + 1 := by linarith
    refine ⟨min 1 (δ / (2 * A + V3.normSq d + 1)), lt_min one_pos (div_pos hδpos hden), fun ε hε hle => ?_⟩
    have hε1 : ε ≤ 1 := le_trans hle (min_le_left _ _)
    have hε2 : ε * (2 * A + V3.normSq d + 1) ≤ δ := by
      have := le_trans hle (min_le_right _ _)
      rwa [le_div_iff₀ hden] at this
    rw [normSq_shift]
    have habs : -(V3.dot d (p - c)) ≤ A := by rw [hA]; exact neg_le_abs _
    have h2 : ε * ε * V3.normSq d ≤ ε * V3.normSq d := by
      have : ε * ε ≤ ε := by nlinarith
      exact mul_le_mul_of_nonneg_right this hD
    nlinarith [mul_le_mul_of_nonneg_left habs (le_of_lt hε)]

/-- **improvement step.** If some direction `d` has `d · (p − c) > 0` for every point on the sphere,
the ball is not minimal: a nearby centre admits a strictly smaller radius. -/
theorem improve (pts : List (V3 ℝ)) (hne : pts ≠ []) (c d : V3 ℝ) (r : ℝ) (hb : IsBounding c r pts)
    (hd : ∀ p ∈ pts, dist p c = r → 0 < V3.dot d (p - c)) :
    ∃ c' r', IsBounding c' r' pts ∧ r' < r := by
  obtain ⟨p0, hp0⟩ := List.exists_mem_of_ne_nil pts hne
  have hr : 0 ≤ r := radius_nonneg_of_bounding hp0 hb
  -- one step size per point
  have hstep : ∀ p ∈ pts, ∃ εp, 0 < εp ∧ ∀ ε, 0 < ε → ε ≤ εp → V3.normSq (p - (c + V3.smul ε d)) < r * r :=
    fun p hp => step_for_point p c d r hr (hb p hp) (hd p hp)
  choose! εf hεf using hstep
  obtain ⟨ε, hε, hall⟩ := exists_pos_le_all (pts.map εf) (by
    intro x hx
    obtain ⟨p, hp, rfl⟩ := List.mem_map.mp hx
    exact (hεf p hp).1)
  set c' := c + V3.smul ε d with hc'
  have hlt : ∀ p ∈ pts, V3.norm (p - c') < r := by
    intro p hp
    have h1 := (hεf p hp).2 ε hε (hall _ (List.mem_map.mpr ⟨p, hp, rfl⟩))
    have hrpos : 0 < r := by
      by_contra hle
      push Not at hle
      have : r = 0 := le_antisymm hle hr
      rw [this] at h1
      have := V3.normSq_nonneg (p - c')
      linarith
    rw [V3.norm_eq]
    calc Real.sqrt (V3.normSq (p - c')) < Real.sqrt (r * r) :=
          Real.sqrt_lt_sqrt (V3.normSq_nonneg _) h1
      _ = r := Real.sqrt_mul_self hr
  have hne' : pts.map (fun p => V3.norm (p - c')) ≠ [] := by simpa using hne
  refine ⟨c', listMax (pts.map fun p => V3.norm (p - c')), fun p hp => ?_, ?_⟩
  · exact listMax_ge _ _ (List.mem_map.mpr ⟨p, hp, rfl⟩)
  · obtain ⟨p, hp, hpe⟩ := List.mem_map.mp (listMax_mem _ hne')
    rw [← hpe]; exact hlt p hp

open Classical in
/-- the points of the list lying exactly on the sphere -/
def onSphereOf (pts : List (V3 ℝ)) (c : V3 ℝ) (r : ℝ) : List (V3 ℝ) :=
  pts.filter fun p => decide (dist p c = r)

theorem mem_onSphereOf {pts : List (V3 ℝ)} {c : V3 ℝ} {r : ℝ} {p : V3 ℝ} :
    p ∈ onSphereOf pts c r ↔ p ∈ pts ∧ dist p c = r := by
  unfold onSphereOf
  simp [List.mem_filter]

/-- **completeness of the support certificate**: a minimal bounding ball of a non-empty list of points
always has one. -/
theorem certificate_exists (pts : List (V3 ℝ)) (hne : pts ≠ []) (c : V3 ℝ) (r : ℝ)
    (hmin : IsMinimalBounding c r pts) : ∃ sup, IsCertificate pts c r sup := by
  classical
  set s : Finset E3 := ((onSphereOf pts c r).map toE).toFinset with hs
  by_cases hmem : toE c ∈ convexHull ℝ (s : Set E3)
  · -- the centre is a convex combination of the support points: read off the weights
    obtain ⟨w, hw0, hw1, hcm⟩ := Finset.mem_convexHull.mp hmem
    rw [Finset.centerMass_eq_of_sum_1 _ _ hw1] at hcm
    have hsmem : ∀ y ∈ s, ∃ p, p ∈ pts ∧ dist p c = r ∧ toE p = y := by
      intro y hy
      rw [hs, List.mem_toFinset] at hy
      obtain ⟨p, hp, rfl⟩ := List.mem_map.mp hy
      exact ⟨p, (mem_onSphereOf.mp hp).1, (mem_onSphereOf.mp hp).2, rfl⟩
    refine ⟨s.toList.map fun y => (w y, ofE y), ?_⟩
    have hcomp : ∀ i : Fin 3, (s.toList.map fun y => w y * y i).sum = toE c i := by
      intro i
      rw [Finset.sum_map_toList, ← hcm, Finset.sum_apply]
      simp [smul_eq_mul]
    refine ⟨hmin.1, ?_, ?_, ?_, ?_, ?_⟩
    · intro t ht
      obtain ⟨y, hy, rfl⟩ := List.mem_map.mp ht
      obtain ⟨p, hp, _, rfl⟩ := hsmem y (Finset.mem_toList.mp hy)
      simpa [ofE_toE] using hp
    · intro t ht
      obtain ⟨y, hy, rfl⟩ := List.mem_map.mp ht
      obtain ⟨p, _, hpr, rfl⟩ := hsmem y (Finset.mem_toList.mp hy)
      simpa [ofE_toE] using hpr
    · intro t ht
      obtain ⟨y, hy, rfl⟩ := List.mem_map.mp ht
      exact hw0 y (Finset.mem_toList.mp hy)
    · rw [List.map_map]
      have : ((fun t : ℝ × V3 ℝ => t.1) ∘ fun y => (w y, ofE y)) = w := rfl
      rw [this, Finset.sum_map_toList, hw1]
    · ext
      · rw [comb_x, List.map_map]
        have := hcomp 0
        simpa [Function.comp_def, ofE, toE] using this
      · rw [comb_y, List.map_map]
        have := hcomp 1
        simpa [Function.comp_def, ofE, toE] using this
      · rw [comb_z, List.map_map]
        have := hcomp 2
        simpa [Function.comp_def, ofE, toE] using this
  · -- otherwise: strict separation, and the ball can be improved — contradiction
    exfalso
    have hclosed : IsClosed (convexHull ℝ (s : Set E3)) := s.finite_toSet.isClosed_convexHull ℝ
    obtain ⟨f, u, hfu, hfK⟩ := geometric_hahn_banach_point_closed (convex_convexHull ℝ _) hclosed hmem
    obtain ⟨d, hd⟩ := clm_eq_dot f
    have hdir : ∀ p ∈ pts, dist p c = r → 0 < V3.dot d (p - c) := by
      intro p hp hpr
      have hy : toE p ∈ (s : Set E3) := by
        rw [hs]; simp only [List.coe_toFinset]
        exact List.mem_map.mpr ⟨p, mem_onSphereOf.mpr ⟨hp, hpr⟩, rfl⟩
      have h1 := hfK _ (subset_convexHull ℝ _ hy)
      rw [hd] at h1 hfu
      rw [V3.dot_sub_right]; linarith
    obtain ⟨c', r', hb', hlt⟩ := improve pts hne c d r hmin.1 hdir
    exact absurd (hmin.2 c' r' hb') (not_le.mpr hlt)

/-- **a ball is the minimal bounding ball iff it has a support certificate** -/
theorem minimal_iff_certificate (pts : List (V3 ℝ)) (hne : pts ≠ []) (c : V3 ℝ) (r : ℝ) :
    IsMinimalBounding c r pts ↔ ∃ sup, IsCertificate pts c r sup :=
  ⟨certificate_exists pts hne c r, fun ⟨sup, h⟩ => certificate_optimal pts c r sup h⟩

end Balls
end
