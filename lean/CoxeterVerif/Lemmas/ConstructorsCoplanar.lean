import CoxeterVerif.Lemmas.Constructors
import CoxeterVerif.Lemmas.CovarianceTol
/-!
  C15: the coplanarity test of `Polygon.__init__` after 744f807 (`coplanarRel`): distances from the plane through the
  first vertex against `planar_tolerance · extent`.  Spelled out, passed by exactly planar vertices, and — unlike the old
  `np.isclose(n·v, d, planar_tolerance)` loop — invariant under every proper similarity (rotation, positive scaling,
  translation; `Sim` of `Lemmas/CovarianceSim.lean`).
-/
open Scalar C15 C15.Spec
set_option maxRecDepth 4000
set_option linter.unusedSimpArgs false
set_option linter.unusedVariables false
noncomputable section

namespace C15

theorem coplanarRel_iff (n : V3 ℝ) (verts : List (V3 ℝ)) (ptol : ℝ) :
    coplanarRel n verts ptol = true ↔
      ∀ v ∈ verts, |V3.dot (v - verts.getD 0 V3.zero) n| ≤ ptol * planarExtent verts := by
  unfold coplanarRel
  simp only [List.all_eq_true, decide_eq_true_eq, Scalar.abs_real]

theorem foldl_smax_ge (l : List ℝ) (a : ℝ) : a ≤ l.foldl Scalar.max a := by
  induction l generalizing a with
  | nil => exact le_refl _
  | cons x l ih =>
    simp only [List.foldl_cons]
    refine le_trans ?_ (ih _)
    unfold Scalar.max
    split_ifs with h
    · exact h.le
    · exact le_refl _

theorem planarExtent_nonneg (verts : List (V3 ℝ)) : 0 ≤ planarExtent verts := by
  unfold planarExtent
  have := foldl_smax_ge (verts.map fun v => V3.norm (v - verts.getD 0 V3.zero)) (Scalar.lit 0)
  simpa using this

theorem dot_sub_left (a b n : V3 ℝ) : V3.dot (a - b) n = V3.dot n a - V3.dot n b := by
  simp only [V3.dot, V3.sub_x, V3.sub_y, V3.sub_z]; ring

/-- **exactly planar vertices pass the coplanarity test** for every non-negative tolerance, wherever they are and
whatever their size -/
theorem coplanarRel_of_planar (n : V3 ℝ) (verts : List (V3 ℝ)) {ptol : ℝ} (hp : 0 ≤ ptol)
    (hplanar : ∀ v ∈ verts, ∀ w ∈ verts, V3.dot n v = V3.dot n w) : coplanarRel n verts ptol = true := by
  rw [coplanarRel_iff]
  intro v hv
  have h0 : verts.getD 0 V3.zero ∈ verts := by
    cases verts with
    | nil => cases hv
    | cons a t => simp
  rw [dot_sub_left, hplanar v hv _ h0, sub_self, abs_zero]
  exact mul_nonneg hp (planarExtent_nonneg verts)

theorem getD_zero_map_pt (g : Sim) (verts : List (V3 ℝ)) (hne : verts ≠ []) :
    (verts.map g.pt).getD 0 V3.zero = g.pt (verts.getD 0 V3.zero) := by
  cases verts with
  | nil => exact absurd rfl hne
  | cons a t => simp

theorem c15_planarExtent_sim {g : Sim} (hg : g.Proper) (verts : List (V3 ℝ)) :
    planarExtent (verts.map g.pt) = g.k * planarExtent verts := by
  cases verts with
  | nil => simp [planarExtent]
  | cons a t =>
    unfold planarExtent
    rw [getD_zero_map_pt g (a :: t) (by simp)]
    simp only
    rw [List.map_map]
    have : ((fun v => V3.norm (v - g.pt ((a :: t).getD 0 V3.zero))) ∘ g.pt)
        = (g.k * ·) ∘ (fun v => V3.norm (v - (a :: t).getD 0 V3.zero)) := by
      funext v; simp only [Function.comp, Sim.dist hg]
    rw [this, ← List.map_map]
    have key := foldl_smax_mul hg.kpos ((a :: t).map fun v => V3.norm (v - (a :: t).getD 0 V3.zero)) 0
    rw [mul_zero] at key
    rw [lit_zero]
    exact key

/-- **the coplanarity test is invariant under proper similarities**: rotate, scale (k > 0) and translate the vertices
(and rotate the normal along) — the verdict does not change -/
theorem c15_coplanarRel_sim {g : Sim} (hg : g.Proper) (n : V3 ℝ) (verts : List (V3 ℝ)) (ptol : ℝ) :
    coplanarRel (g.dir n) (verts.map g.pt) ptol = coplanarRel n verts ptol := by
  cases verts with
  | nil => rfl
  | cons a t =>
    rw [Bool.eq_iff_iff, coplanarRel_iff, coplanarRel_iff, c15_planarExtent_sim hg, getD_zero_map_pt g (a :: t) (by simp)]
    have key : ∀ v, |V3.dot (g.pt v - g.pt ((a :: t).getD 0 V3.zero)) (g.dir n)| ≤ ptol * (g.k * planarExtent (a :: t)) ↔
        |V3.dot (v - (a :: t).getD 0 V3.zero) n| ≤ ptol * planarExtent (a :: t) := by
      intro v
      rw [Sim.pt_sub, Sim.vec_dot_dir hg, abs_mul, abs_of_pos hg.kpos]
      have : ptol * (g.k * planarExtent (a :: t)) = g.k * (ptol * planarExtent (a :: t)) := by ring
      rw [this, mul_le_mul_iff_right₀ hg.kpos]
    constructor
    · intro h v hv
      exact (key v).1 (h _ (List.mem_map_of_mem hv))
    · intro h w hw
      obtain ⟨v, hv, rfl⟩ := List.mem_map.1 hw
      exact (key v).2 (h v hv)

/-- duplicates are preserved and created by no injective map -/
theorem hasDup_three_map {f : V3 ℝ → V3 ℝ} (hf : Function.Injective f) (rows : List (V3 ℝ)) :
    hasDup 3 (rows.map f) = hasDup 3 rows := by
  have r3 : ∀ u v : V3 ℝ, rowEqb 3 u v = true ↔ u = v := by
    intro u v
    unfold rowEqb
    simp only [Bool.and_eq_true, Bool.or_eq_true, eqb_iff]
    cases u; cases v; simp [and_assoc]
  have r3f : ∀ u v : V3 ℝ, rowEqb 3 (f u) (f v) = rowEqb 3 u v := by
    intro u v
    rw [Bool.eq_iff_iff, r3, r3]
    exact ⟨fun h => hf h, fun h => by rw [h]⟩
  induction rows with
  | nil => rfl
  | cons v vs ih =>
    simp only [List.map_cons, hasDup, ih, List.any_map]
    congr 1
    apply congrArg
    funext w
    exact r3f v w

end C15
end
