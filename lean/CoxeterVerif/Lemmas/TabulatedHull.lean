import CoxeterVerif.Lemmas.TabulatedReal
/-!
  C18: a geometric consequence of the convexity certificate.  `ConvexCert e` bounds the signed distance of
  every VERTEX from every face plane; by linearity the same bound holds for every CONVEX COMBINATION of the
  vertices: the whole convex hull of the entry's vertices lies on the inner side of every face plane (within
  10⁻⁹), i.e. inside the polyhedron the face list describes.
-/
namespace Tab
noncomputable section

/-- the combination `Σ wᵢ vᵢ` (weights and points paired in order) -/
def comb (ws : List ℝ) (vs : List (V3 ℝ)) : V3 ℝ := V3.sum (List.zipWith V3.smul ws vs)

theorem dot_sum (n : V3 ℝ) (l : List (V3 ℝ)) : V3.dot n (V3.sum l) = (l.map (V3.dot n)).sum := by
  induction l with
  | nil => simp [V3.sum, V3.dot]
  | cons a t ih =>
    rw [V3.sum_cons', List.map_cons, List.sum_cons, ← ih]
    simp only [V3.dot, V3.add_x, V3.add_y, V3.add_z]; ring

theorem dot_comb (n : V3 ℝ) (ws : List ℝ) (vs : List (V3 ℝ)) :
    V3.dot n (comb ws vs) = (List.zipWith (fun w v => w * V3.dot n v) ws vs).sum := by
  unfold comb
  rw [dot_sum]
  congr 1
  induction ws generalizing vs with
  | nil => simp
  | cons w t ih =>
    cases vs with
    | nil => simp
    | cons v vt =>
      simp only [List.zipWith_cons_cons, List.map_cons, ih vt]
      congr 1
      simp only [V3.dot, V3.smul_x, V3.smul_y, V3.smul_z]; ring

theorem sum_zipWith_shift (k : ℝ) (g : V3 ℝ → ℝ) (ws : List ℝ) (vs : List (V3 ℝ)) (hl : ws.length = vs.length) :
    (List.zipWith (fun w v => w * (g v - k)) ws vs).sum
      = (List.zipWith (fun w v => w * g v) ws vs).sum - k * ws.sum := by
  induction ws generalizing vs with
  | nil => simp
  | cons w t ih =>
    cases vs with
    | nil => simp at hl
    | cons v vt =>
      simp only [List.length_cons, Nat.add_right_cancel_iff] at hl
      simp only [List.zipWith_cons_cons, List.sum_cons, ih vt hl]
      ring

theorem sum_zipWith_le (c : ℝ) (g : V3 ℝ → ℝ) (ws : List ℝ) (vs : List (V3 ℝ)) (hl : ws.length = vs.length)
    (hw : ∀ w ∈ ws, 0 ≤ w) (hg : ∀ v ∈ vs, g v ≤ c) :
    (List.zipWith (fun w v => w * g v) ws vs).sum ≤ c * ws.sum := by
  induction ws generalizing vs with
  | nil => simp
  | cons w t ih =>
    cases vs with
    | nil => simp at hl
    | cons v vt =>
      simp only [List.length_cons, Nat.add_right_cancel_iff] at hl
      simp only [List.zipWith_cons_cons, List.sum_cons]
      have h1 : w * g v ≤ w * c :=
        mul_le_mul_of_nonneg_left (hg v List.mem_cons_self) (hw w List.mem_cons_self)
      have h2 := ih vt hl (fun x hx => hw x (List.mem_cons_of_mem _ hx))
        (fun x hx => hg x (List.mem_cons_of_mem _ hx))
      nlinarith

/-- a half-space that contains the points contains their convex combinations -/
theorem halfspace_convex (n p0 : V3 ℝ) (c : ℝ) (ws : List ℝ) (vs : List (V3 ℝ))
    (hl : ws.length = vs.length) (hw : ∀ w ∈ ws, 0 ≤ w) (h1 : ws.sum = 1)
    (hv : ∀ v ∈ vs, V3.dot n (v - p0) ≤ c) :
    V3.dot n (comb ws vs - p0) ≤ c := by
  have hsub : ∀ x : V3 ℝ, V3.dot n (x - p0) = V3.dot n x - V3.dot n p0 := by
    intro x; simp only [V3.dot, V3.sub_x, V3.sub_y, V3.sub_z]; ring
  rw [hsub, dot_comb]
  have hs := sum_zipWith_shift (V3.dot n p0) (V3.dot n) ws vs hl
  have hle := sum_zipWith_le c (fun v => V3.dot n v - V3.dot n p0) ws vs hl hw
    (fun v hv' => by have := hv v hv'; rw [hsub] at this; exact this)
  rw [h1] at hs hle
  linarith

/-- **the convex hull of the entry's vertices lies on the inner side of every face plane** (within 10⁻⁹):
    for every face and all weights `wᵢ ≥ 0`, `Σ wᵢ = 1`, the point `Σ wᵢ vᵢ` has signed distance at most
    `10⁹` (units of 10⁻¹⁸) from the face plane -/
theorem ConvexCert.hull_inside {e : Entry} (h : ConvexCert e) :
    ∀ f ∈ e.faces, ∃ p0 rest, facePts e f = p0 :: rest ∧
      ∀ ws : List ℝ, ws.length = e.verts.length → (∀ w ∈ ws, 0 ≤ w) → ws.sum = 1 →
        V3.dot (newellV ((p0 :: rest).map toV)) (comb ws (e.verts.map toV) - toV p0)
          ≤ 10^9 * Real.sqrt (V3.normSq (newellV ((p0 :: rest).map toV))) := by
  intro f hf
  obtain ⟨p0, rest, hfp, hc⟩ := h f hf
  refine ⟨p0, rest, hfp, ?_⟩
  intro ws hl hw h1
  apply halfspace_convex _ _ _ ws (e.verts.map toV) (by rw [List.length_map]; exact hl) hw h1
  intro v hv
  obtain ⟨p, hp, rfl⟩ := List.mem_map.mp hv
  exact hc.inner p hp

end
end Tab
