import CoxeterVerif.Lemmas.FormFactorIntegral
import Mathlib.MeasureTheory.Integral.IntervalIntegral.FundThmCalculus
import Mathlib.MeasureTheory.Integral.IntervalIntegral.IntegrationByParts
/-!
  The Fourier transform of a TRIANGLE as an iterated interval integral, and the proof (from Mathlib's
  fundamental theorem of calculus only — no Green/Stokes theorem is assumed) that it equals the
  boundary (edge) form used by `Polygon.compute_form_factor_amplitude`.

  Parametrise the triangle `A B C` by `r(s,t) = A + s (B − A) + t (C − A)`, `0 ≤ s`, `0 ≤ t`, `s + t ≤ 1`
  (Jacobian `|(B−A)×(C−A)| = 2·area`).  With the phases `p_X = q·X` the integrand is
  `e^{-i (p_A + s (p_B − p_A) + t (p_C − p_A))}` and

      ∫∫_T e^{-i q·r} dA = 2·area · Jtri p_A (p_B − p_A) (p_C − p_A),
      Jtri a β γ := ∫ s in 0..1, ∫ t in 0..(1 − s), e^{-i (a + s β + t γ)}.

  Two relations are proved by the fundamental theorem of calculus:
    γ · Jtri a β γ = i (I1 (a+γ) (β−γ) − I1 a β)        (integrate the inner variable)
    β · Jtri a β 0 = i (I1 a β − e^{-i a})               (γ = 0: integration by parts)
  where `I1 a b = ∫₀¹ e^{-i(a + s b)} ds` is the edge integral; together with the closed-loop relation
  `Σ_edges (p_end − p_start) · I1 = 0` and a Lagrange identity for the edge coefficients they give
  `(i/|q|²) Σ_edges q·(e×n) I1(edge) = ((B−A)×(C−A))·n · Jtri`, for every triangle and every non-zero
  in-plane `q`, including `q` perpendicular to an edge.
-/
open Scalar
namespace FF
noncomputable section

/-- `e^{-i x}` -/
def cexp (x : ℝ) : ℂ := Complex.exp (-(Complex.I) * (x : ℂ))

theorem cexp_zero : cexp 0 = 1 := by simp [cexp]

theorem continuous_cexp_comp {f : ℝ → ℝ} (hf : Continuous f) : Continuous fun s => cexp (f s) := by
  unfold cexp
  exact Complex.continuous_exp.comp (continuous_const.mul (Complex.continuous_ofReal.comp hf))

theorem toC_cis' (x : ℝ) : toC (Spec.cis x) = cexp x := toC_cis x

/-- `d/dt [i e^{-i(c + tγ)}] = γ e^{-i(c + tγ)}` -/
theorem hasDerivAt_I_cexp (c γ t : ℝ) :
    HasDerivAt (fun t : ℝ => Complex.I * cexp (c + t * γ)) ((γ : ℂ) * cexp (c + t * γ)) t := by
  unfold cexp
  have h0 : HasDerivAt (fun t : ℝ => c + t * γ) γ t := by
    simpa using ((hasDerivAt_id t).mul_const γ).const_add c
  have h1 : HasDerivAt (fun t : ℝ => ((c + t * γ : ℝ) : ℂ)) (γ : ℂ) t := h0.ofReal_comp
  have h2 : HasDerivAt (fun t : ℝ => -(Complex.I) * ((c + t * γ : ℝ) : ℂ)) (-(Complex.I) * (γ : ℂ)) t :=
    h1.const_mul _
  have h3 : HasDerivAt (fun t : ℝ => Complex.exp (-(Complex.I) * ((c + t * γ : ℝ) : ℂ))) _ t := HasDerivAt.cexp h2
  have h4 := HasDerivAt.const_mul Complex.I h3
  refine h4.congr_deriv ?_
  have hI : Complex.I * Complex.I = -1 := Complex.I_mul_I
  linear_combination (-(γ : ℂ) * Complex.exp (-(Complex.I) * ((c + t * γ : ℝ) : ℂ))) * hI

/-- the edge integral `∫₀¹ e^{-i(a + s b)} ds` -/
def I1 (a b : ℝ) : ℂ := ∫ s in (0:ℝ)..1, cexp (a + s * b)

/-- the triangle integral `∫₀¹ ∫₀^{1-s} e^{-i(a + sβ + tγ)} dt ds` -/
def Jtri (a β γ : ℝ) : ℂ := ∫ s in (0:ℝ)..1, ∫ t in (0:ℝ)..(1 - s), cexp (a + s * β + t * γ)

theorem I1_eq_closed (a b : ℝ) : I1 a b = toC (Spec.edgeIntegral a b) := by
  rw [← edge_integral_closed]
  unfold I1 cexp
  congr 1
  funext s
  push_cast
  rfl

/-- FTC on a segment: `γ ∫₀ᴸ e^{-i(c + tγ)} dt = i (e^{-i(c + Lγ)} − e^{-i c})`, every `γ` (also `0`) and `L` -/
theorem seg_rel (c γ L : ℝ) :
    (γ : ℂ) * ∫ t in (0:ℝ)..L, cexp (c + t * γ) = Complex.I * (cexp (c + L * γ) - cexp c) := by
  rw [← intervalIntegral.integral_const_mul]
  rw [intervalIntegral.integral_eq_sub_of_hasDerivAt (f := fun t : ℝ => Complex.I * cexp (c + t * γ))
    (fun t _ => hasDerivAt_I_cexp c γ t)
    ((continuous_const.mul (continuous_cexp_comp (by fun_prop))).intervalIntegrable _ _)]
  simp only [zero_mul, add_zero]
  ring

theorem I1_rel (a b : ℝ) : (b : ℂ) * I1 a b = Complex.I * (cexp (a + b) - cexp a) := by
  have := seg_rel a b 1
  simpa [I1] using this

theorem I1_zero (a : ℝ) : I1 a 0 = cexp a := by
  simp [I1]

/-- the edge integral does not depend on the direction of the edge -/
theorem I1_reverse (a b : ℝ) : I1 (a + b) (-b) = I1 a b := by
  unfold I1
  have h := intervalIntegral.integral_comp_sub_left (fun s : ℝ => cexp (a + s * b)) (1:ℝ) (a := 0) (b := 1)
  simp only [sub_self, sub_zero] at h
  rw [← h]
  congr 1
  funext s
  congr 1
  ring

theorem intervalIntegrable_cexp {f : ℝ → ℝ} (hf : Continuous f) (a b : ℝ) :
    IntervalIntegrable (fun s => cexp (f s)) MeasureTheory.volume a b :=
  (continuous_cexp_comp hf).intervalIntegrable _ _

/-- **inner variable**: `γ · Jtri a β γ = i (I1 (a+γ) (β−γ) − I1 a β)`, for every `γ` -/
theorem Jtri_rel_gamma (a β γ : ℝ) :
    (γ : ℂ) * Jtri a β γ = Complex.I * (I1 (a + γ) (β - γ) - I1 a β) := by
  unfold Jtri I1
  rw [← intervalIntegral.integral_const_mul]
  simp_rw [seg_rel]
  have h : ∀ s : ℝ, cexp (a + s * β + (1 - s) * γ) = cexp (a + γ + s * (β - γ)) := fun s => by
    congr 1; ring
  simp_rw [h]
  rw [intervalIntegral.integral_const_mul, intervalIntegral.integral_sub
    (intervalIntegrable_cexp (by fun_prop) _ _) (intervalIntegrable_cexp (by fun_prop) _ _)]

/-- **`γ = 0`** (wave vector perpendicular to the edge `AC`): integration by parts in the outer variable -/
theorem Jtri_rel_beta_zero (a β : ℝ) :
    (β : ℂ) * Jtri a β 0 = Complex.I * (I1 a β - cexp a) := by
  have hJ : Jtri a β 0 = ∫ s in (0:ℝ)..1, ((1 - s : ℝ) : ℂ) * cexp (a + s * β) := by
    unfold Jtri
    congr 1
    funext s
    simp only [mul_zero, add_zero, intervalIntegral.integral_const, sub_zero]
    rw [Complex.real_smul]
  -- F(s) = (1 - s) · i e^{-i(a+sβ)},  F' = -(i e) + (1 - s) β e
  have hF : ∀ s : ℝ, HasDerivAt (fun s : ℝ => ((1 - s : ℝ) : ℂ) * (Complex.I * cexp (a + s * β)))
      (-(Complex.I * cexp (a + s * β)) + ((1 - s : ℝ) : ℂ) * ((β : ℂ) * cexp (a + s * β))) s := by
    intro s
    have h1 : HasDerivAt (fun s : ℝ => ((1 - s : ℝ) : ℂ)) (-1 : ℂ) s := by
      have : HasDerivAt (fun s : ℝ => 1 - s) (-1 : ℝ) s := by
        simpa using (hasDerivAt_id s).const_sub 1
      simpa using this.ofReal_comp
    have := h1.mul (hasDerivAt_I_cexp a β s)
    exact this.congr_deriv (by ring)
  have hcont1 : Continuous fun s : ℝ => Complex.I * cexp (a + s * β) :=
    continuous_const.mul (continuous_cexp_comp (by fun_prop))
  have hcont2 : Continuous fun s : ℝ => ((1 - s : ℝ) : ℂ) * ((β : ℂ) * cexp (a + s * β)) :=
    (Complex.continuous_ofReal.comp (by fun_prop)).mul (continuous_const.mul (continuous_cexp_comp (by fun_prop)))
  have hcont1n : Continuous fun s : ℝ => -(Complex.I * cexp (a + s * β)) := hcont1.neg
  have hint := intervalIntegral.integral_eq_sub_of_hasDerivAt (a := 0) (b := 1) (fun s _ => hF s)
    ((hcont1n.add hcont2).intervalIntegrable _ _)
  rw [intervalIntegral.integral_add (hcont1n.intervalIntegrable _ _) (hcont2.intervalIntegrable _ _),
    intervalIntegral.integral_neg, intervalIntegral.integral_const_mul] at hint
  simp only [sub_self, Complex.ofReal_zero, zero_mul, sub_zero, Complex.ofReal_one, one_mul, add_zero] at hint
  rw [hJ, ← intervalIntegral.integral_const_mul]
  have e : (fun s : ℝ => (β : ℂ) * (((1 - s : ℝ) : ℂ) * cexp (a + s * β))) =
      fun s : ℝ => ((1 - s : ℝ) : ℂ) * ((β : ℂ) * cexp (a + s * β)) := by
    funext s; ring
  rw [e]
  unfold I1
  linear_combination hint

/-- **triangle = boundary form**, in terms of the phases `p_A, p_B, p_C` at the vertices, the edge
coefficients `c₁ c₂ c₃` (for `AB`, `BC`, `CA`), `Q = |q|²` and the signed double area `S`.
The hypotheses `h1 h2 h3` are the Lagrange identities `lagrange_inplane` of the geometry. -/
theorem tri_boundary_eq (pA pB pC c1 c2 c3 Q S : ℝ) (hQ : Q ≠ 0)
    (h1 : (pC - pA) * c1 + (pB - pA) * c3 = -(Q * S))
    (h2 : (pC - pA) * c2 + (pC - pB) * c3 = Q * S)
    (h3 : c1 + c2 + c3 = 0) :
    (Complex.I / (Q : ℂ)) *
        ((c1 : ℂ) * I1 pA (pB - pA) + (c2 : ℂ) * I1 pB (pC - pB) + (c3 : ℂ) * I1 pC (pA - pC)) =
      (S : ℂ) * Jtri pA (pB - pA) (pC - pA) := by
  have hQC : (Q : ℂ) ≠ 0 := by exact_mod_cast hQ
  have h1C : ((pC : ℂ) - pA) * c1 + ((pB : ℂ) - pA) * c3 = -((Q : ℂ) * S) := by exact_mod_cast h1
  have h2C : ((pC : ℂ) - pA) * c2 + ((pC : ℂ) - pB) * c3 = (Q : ℂ) * S := by exact_mod_cast h2
  have h3C : (c1 : ℂ) + c2 + c3 = 0 := by exact_mod_cast h3
  have L1 := I1_rel pA (pB - pA)
  have L2 := I1_rel pB (pC - pB)
  have L3 := I1_rel pC (pA - pC)
  rw [show pA + (pB - pA) = pB by ring] at L1
  rw [show pB + (pC - pB) = pC by ring] at L2
  rw [show pC + (pA - pC) = pA by ring] at L3
  push_cast at L1 L2 L3
  -- the edge BC seen from C
  have hBC : I1 (pA + (pC - pA)) ((pB - pA) - (pC - pA)) = I1 pB (pC - pB) := by
    have := I1_reverse pB (pC - pB)
    rw [← this]
    congr 1 <;> ring
  set IAB := I1 pA (pB - pA) with hIAB
  set IBC := I1 pB (pC - pB) with hIBC
  set ICA := I1 pC (pA - pC) with hICA
  rw [div_mul_eq_mul_div, div_eq_iff hQC]
  by_cases hγ : pC - pA = 0
  · -- q ⟂ AC
    have hCA : pC = pA := by linarith
    have R := Jtri_rel_beta_zero pA (pB - pA)
    rw [hγ]
    have hICA' : ICA = cexp pA := by
      rw [hICA, hCA, sub_self, I1_zero]
    have hIBC' : IBC = IAB := by
      rw [hIBC, hIAB, hCA]
      have := I1_reverse pA (pB - pA)
      rw [← this]
      congr 1 <;> ring
    rw [hICA', hIBC']
    rw [← hIAB] at R
    have hγC : (pC : ℂ) - pA = 0 := by exact_mod_cast hγ
    rw [hγC] at h1C h2C
    by_cases hβ : pB - pA = 0
    · -- degenerate: all phases equal, S = 0
      have hβC : (pB : ℂ) - pA = 0 := by exact_mod_cast hβ
      have hS : (S : ℂ) = 0 := by
        have : (Q : ℂ) * S = 0 := by rw [hβC] at h1C; linear_combination h1C
        rcases mul_eq_zero.mp this with h | h
        · exact absurd h hQC
        · exact h
      have hIAB' : IAB = cexp pA := by rw [hIAB, hβ, I1_zero]
      rw [hS, hIAB']
      linear_combination (Complex.I * cexp pA) * h3C
    · have hβC : ((pB - pA : ℝ) : ℂ) ≠ 0 := by exact_mod_cast hβ
      push_cast at hβC R
      apply mul_left_cancel₀ hβC
      linear_combination (((pB : ℂ) - pA) * Complex.I * IAB) * h3C +
        (-(Complex.I * (IAB - cexp pA))) * h1C - ((S : ℂ) * Q) * R
  · have hγC : ((pC - pA : ℝ) : ℂ) ≠ 0 := by exact_mod_cast hγ
    have R := Jtri_rel_gamma pA (pB - pA) (pC - pA)
    rw [hBC, ← hIAB] at R
    push_cast at hγC R
    apply mul_left_cancel₀ hγC
    linear_combination (-(Complex.I * c3)) * (L1 + L2 + L3) + (Complex.I * IAB) * h1C +
      (Complex.I * IBC) * h2C - ((S : ℂ) * Q) * R

end
end FF
