import CoxeterVerif.Lemmas.PlanarFrame
/-!
  C04: the frame contract `IsFrame R n` (`RᵀR = 1`, `det R = 1`, `R n = ẑ`) that `rowan.mapping.kabsch` is assumed to
  meet CAN be met for every unit normal: Rodrigues' rotation about `n × ẑ` (and a half turn about `x̂` for `n = −ẑ`).
  Together with the frame-independence theorems of `Props/C04.lean` this makes "the value computed with the
  matrix kabsch returns" well defined for every plane.
-/
open Scalar
noncomputable section

/-- Rodrigues' rotation taking the unit vector `n` (`n ≠ −ẑ`) to `ẑ` about the axis `n × ẑ` -/
def rodrigues (n : V3 ℝ) : M3 ℝ :=
  ⟨1 - n.x * n.x / (1 + n.z), -(n.x * n.y) / (1 + n.z), -n.x,
   -(n.x * n.y) / (1 + n.z), 1 - n.y * n.y / (1 + n.z), -n.y,
   n.x, n.y, n.z⟩

theorem rodrigues_frame {n : V3 ℝ} (hn : V3.normSq n = 1) (hk : 1 + n.z ≠ 0) : IsFrame (rodrigues n) n := by
  obtain ⟨nx, ny, nz⟩ := n
  simp only [V3.normSq, V3.dot] at hn
  simp only at hk
  have h' : nx ^ 2 + ny ^ 2 - (1 - nz) * (1 + nz) = 0 := by linear_combination hn
  refine ⟨⟨?_, ?_, ?_, ?_, ?_, ?_, ?_⟩, ?_⟩
  · simp only [rodrigues]; field_simp; linear_combination (nx ^ 2) * h'
  · simp only [rodrigues]; field_simp; linear_combination (ny ^ 2) * h'
  · simp only [rodrigues]; linear_combination hn
  · simp only [rodrigues]; field_simp; linear_combination (nx * ny) * h'
  · simp only [rodrigues]; field_simp; linear_combination (nx) * h'
  · simp only [rodrigues]; field_simp; linear_combination (ny) * h'
  · simp only [rodrigues, M3.det]; field_simp; linear_combination (1 + nz) * h'
  · simp only [rodrigues, M3.mulVec]
    ext
    · simp only; field_simp; linear_combination (-nx) * h'
    · simp only; field_simp; linear_combination (-ny) * h'
    · simp only; linear_combination hn

theorem flip_frame : IsFrame (⟨1, 0, 0, 0, -1, 0, 0, 0, -1⟩ : M3 ℝ) ⟨0, 0, -1⟩ := by
  refine ⟨⟨?_, ?_, ?_, ?_, ?_, ?_, ?_⟩, ?_⟩ <;> simp [M3.det, M3.mulVec]

/-- **the kabsch contract can be met for every unit normal** -/
theorem exists_frame {n : V3 ℝ} (hn : V3.norm n = 1) : ∃ R, IsFrame R n := by
  have hn2 : V3.normSq n = 1 := normSq_of_norm_one hn
  by_cases hk : 1 + n.z = 0
  · have hz : n.z = -1 := by linarith
    obtain ⟨nx, ny, nz⟩ := n
    simp only at hz
    simp only [V3.normSq, V3.dot, hz] at hn2
    have hx : nx = 0 := by nlinarith [mul_self_nonneg nx, mul_self_nonneg ny]
    have hy : ny = 0 := by nlinarith [mul_self_nonneg nx, mul_self_nonneg ny]
    subst hx hy hz
    exact ⟨_, flip_frame⟩
  · exact ⟨_, rodrigues_frame hn2 hk⟩
end
