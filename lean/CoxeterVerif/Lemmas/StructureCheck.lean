import CoxeterVerif.Model.Structure
import CoxeterVerif.Spec.Structure
/-!
  C07 — computable certificates that combine model functions (`Struct.*`) and specification
  predicates (`StructSpec.*`). NO Mathlib: the driver imports this file and evaluates the
  certificates exactly over ℚ on the implementation's own simplices / faces; their soundness is
  proved in `Props/C07.lean` (`sort_simplices_outward`, `poly_sort_faces_oriented`).
-/

namespace Struct
variable {α : Type} [Scalar α]

/-- **simplex certificate** for `_sort_simplices`: `G` (the implementation's simplices) keeps or
reverses every start simplex, is a closed oriented surface of triangles, every pair of Qhull
neighbours consists of two different simplices sharing an edge, the neighbour graph is connected,
and every triangle of `G` appears counter-clockwise from the side opposite to the point `p`
(any point; the driver uses the vertex mean). -/
def simplexCert (verts : List (V3 α)) (start : List Face) (nbrs : List (List Nat)) (G : List Face)
    (p : V3 α) : Bool :=
  StructSpec.sameUpToReversalB start G && StructSpec.closedOrientedB G && nbrsShareB nbrs start &&
  visitsAll nbrs start && StructSpec.outwardFromB verts p G &&
  start.all (fun s => s.length == 3) && !G.isEmpty

/-- **orientation certificate** for the traversal of `Polyhedron.sort_faces`: `G` (the
implementation's faces) keeps or reverses every (re-ordered) input face, is a closed oriented
surface, and the neighbour graph found by `_find_neighbors` is connected. -/
def orientCert (faces : List Face) (G : List Face) : Bool :=
  StructSpec.sameUpToReversalB faces G && StructSpec.closedOrientedB G &&
  match findNeighbors faces with
  | .ok N => visitsAll N faces
  | .error _ => false

/-- `get_dihedral(a, b)` with Python's index semantics: `self.neighbors[a]` raises `IndexError`
outside `[-F, F)` and wraps negative `a`; `b not in neighbors[a]` is a membership test among
non-negative face indices, so a negative `b` raises `ValueError`. -/
def getDihedralPy (nbrs : List (List Nat)) (normals : List (V3 α)) (a b : Int) : Except String α :=
  let n : Int := nbrs.length
  if a < -n ∨ n ≤ a then .error "IndexError"
  else
    let a' := (if a < 0 then a + n else a).toNat
    if b < 0 then .error "ValueError" else getDihedral nbrs normals a' b.toNat

/-- the graph is closed under the labelling: both ends of every entry carry the same label -/
def labelsClosedB (graph : List (Nat × Nat)) (labels : List Nat) : Bool :=
  graph.all fun e => labels.getD e.1 0 == labels.getD e.2 0

/-- the complete label certificate the driver evaluates on scipy's `connected_components` result:
agreement with the model's own labelling, closure under the graph, valid node indices -/
def labelsCert (n : Nat) (graph : List (Nat × Nat)) (labels : List Nat) : Bool :=
  labelsContract n graph labels && labelsClosedB graph labels &&
  graph.all fun e => decide (e.1 < n) && decide (e.2 < n)

end Struct
