import CoxeterVerif.Lemmas.Mutable2
import CoxeterVerif.Model.Mutable3
import Mathlib.Data.List.Rotate
import Mathlib.Data.List.Dedup
import Mathlib.Data.List.Forall2
/-!
  Combinatorial lemmas behind `Model/Mutable3.lean` (C03): reversing faces does not change which
  faces share an edge (`findNeighbors_flip`), and the breadth-first re-orientation of
  `sort_faces` only reverses faces (`orientFaces_flip`).
-/
open Scalar Mut
set_option maxRecDepth 4000

namespace Mut

theorem rotl_rotate {β : Type} (k : Nat) (l : List β) : Poly2.rotl k l = l.rotate k := by
  unfold Poly2.rotl; rw [List.rotate_eq_drop_append_take_mod]

theorem dedupL_eq_dedup (l : List Edge2) : dedupL l = l.dedup := by
  induction l with
  | nil => rfl
  | cons a l ih =>
    unfold dedupL
    by_cases h : a ∈ l
    · simp [h, ih, List.dedup_cons_of_mem h]
    · simp [h, ih, List.dedup_cons_of_notMem h]

/-! ### reversing a face -/

theorem faceEdges_reverse (f : List Nat) : faceEdges f.reverse = (faceEdgesRev f).reverse := by
  unfold faceEdges faceEdgesRev
  rw [rotl_rotate, rotl_rotate, List.rotate_reverse]
  rcases f with _ | ⟨a, _ | ⟨b, t⟩⟩
  · simp
  · simp
  · have h1 : 1 % (a :: b :: t).length = 1 := by simp
    rw [h1, List.zip_eq_zipWith, List.zip_eq_zipWith, List.reverse_zipWith (by simp)]

theorem faceEdgesRev_reverse (f : List Nat) : faceEdgesRev f.reverse = (faceEdges f).reverse := by
  unfold faceEdges faceEdgesRev
  rw [rotl_rotate, rotl_rotate, List.rotate_reverse, List.length_reverse]
  rcases f with _ | ⟨a, _ | ⟨b, t⟩⟩
  · simp
  · simp
  · have h1 : ((a :: b :: t).length - 1) % (a :: b :: t).length = (a :: b :: t).length - 1 :=
      Nat.mod_eq_of_lt (by simp)
    have h2 : (a :: b :: t).length - ((a :: b :: t).length - 1) = 1 := by simp
    rw [h1, h2, List.zip_eq_zipWith, List.zip_eq_zipWith, List.reverse_zipWith (by simp)]

theorem faceEdgesBoth_reverse_perm (f : List Nat) :
    (faceEdgesBoth f.reverse).Perm (faceEdgesBoth f) := by
  unfold faceEdgesBoth
  rw [faceEdges_reverse, faceEdgesRev_reverse]
  exact (List.perm_append_comm).trans
    (List.Perm.append (List.reverse_perm _) (List.reverse_perm _))

/-- `g` is `f` or `f` reversed -/
def FlipRel (f g : List Nat) : Prop := g = f ∨ g = f.reverse

theorem FlipRel.refl (f : List Nat) : FlipRel f f := Or.inl rfl

theorem FlipRel.reverse {f g : List Nat} (h : FlipRel f g) : FlipRel f g.reverse := by
  rcases h with rfl | rfl
  · exact Or.inr rfl
  · exact Or.inl (List.reverse_reverse _)

theorem FlipRel.both_perm {f g : List Nat} (h : FlipRel f g) :
    (faceEdgesBoth g).Perm (faceEdgesBoth f) := by
  rcases h with rfl | rfl
  · exact List.Perm.refl _
  · exact faceEdgesBoth_reverse_perm f

theorem commonEdges_length_perm {fi fj gi gj : List Nat}
    (hi : (faceEdgesBoth gi).Perm (faceEdgesBoth fi)) (hj : (faceEdgesBoth gj).Perm (faceEdgesBoth fj)) :
    (commonEdges gi gj).length = (commonEdges fi fj).length := by
  unfold commonEdges
  rw [dedupL_eq_dedup, dedupL_eq_dedup]
  have hp : (fun e => (faceEdgesBoth gj).contains e) = (fun e => (faceEdgesBoth fj).contains e) := by
    funext e
    simp only [List.contains_eq_mem, decide_eq_decide]
    exact hj.mem_iff
  rw [hp]
  exact ((hi.dedup).filter _).length_eq

theorem forall₂_getD {R : List Nat → List Nat → Prop} (hR : R [] []) {F G : List (List Nat)}
    (h : List.Forall₂ R F G) (k : Nat) : R (F.getD k []) (G.getD k []) := by
  induction h generalizing k with
  | nil => simpa using hR
  | cons hab _ ih =>
    cases k with
    | zero => simpa using hab
    | succ k => simpa using ih k

theorem pairCommon_flip {F G : List (List Nat)} (h : List.Forall₂ FlipRel F G) (i j : Nat) :
    pairCommon G i j = pairCommon F i j := by
  unfold pairCommon
  exact commonEdges_length_perm (forall₂_getD (FlipRel.refl []) h _).both_perm
    (forall₂_getD (FlipRel.refl []) h _).both_perm

/-- **reversing any of the faces does not change `_find_neighbors()`** (nor whether its assertion
fires) -/
theorem findNeighbors_flip {F G : List (List Nat)} (h : List.Forall₂ FlipRel F G) :
    findNeighbors G = findNeighbors F := by
  have hl : G.length = F.length := h.length_eq.symm
  have hp : pairCommon G = pairCommon F := by funext i j; exact pairCommon_flip h i j
  unfold findNeighbors
  rw [hl, hp]

theorem forall₂_flip_map_reverse (F : List (List Nat)) : List.Forall₂ FlipRel F (F.map List.reverse) := by
  induction F with
  | nil => exact List.Forall₂.nil
  | cons f F ih => exact List.Forall₂.cons (Or.inr rfl) ih

theorem forall₂_flip_refl (F : List (List Nat)) : List.Forall₂ FlipRel F F := by
  induction F with
  | nil => exact List.Forall₂.nil
  | cons f F ih => exact List.Forall₂.cons (Or.inl rfl) ih

theorem forall₂_flip_trans_reverse {F G : List (List Nat)} (h : List.Forall₂ FlipRel F G) :
    List.Forall₂ FlipRel F (G.map List.reverse) := by
  induction h with
  | nil => exact List.Forall₂.nil
  | cons hab _ ih => exact List.Forall₂.cons hab.reverse ih

/-! ### the breadth-first loop only reverses faces -/

theorem forall₂_flip_set {F G : List (List Nat)} (h : List.Forall₂ FlipRel F G) (nb : Nat) :
    List.Forall₂ FlipRel F (G.set nb (G.getD nb []).reverse) := by
  induction h generalizing nb with
  | nil => simp
  | cons hab hrest ih =>
    cases nb with
    | zero => simpa using List.Forall₂.cons hab.reverse hrest
    | succ nb => simpa using List.Forall₂.cons hab (ih nb)

theorem bfsVisit_flip {F : List (List Nat)} (cur : Nat) (nbs : List Nat) (st : BfsSt)
    (h : List.Forall₂ FlipRel F st.faces) : List.Forall₂ FlipRel F (bfsVisit cur st nbs).faces := by
  unfold bfsVisit
  generalize faceEdges (st.faces.getD cur []) = ce
  induction nbs generalizing st with
  | nil => simpa using h
  | cons nb nbs ih =>
    simp only [List.foldl_cons]
    apply ih
    by_cases hv : st.visited.contains nb = true
    · simp only [hv, if_true]; exact h
    · simp only [hv]
      by_cases hf : needsFlip ce (faceEdges (st.faces.getD nb [])) = true
      · simp only [hf, if_true]; exact forall₂_flip_set h nb
      · simp only [hf]; exact h

theorem bfs_flip {F : List (List Nat)} (fuel : Nat) (nbrs : List (List Nat)) (st : BfsSt)
    (h : List.Forall₂ FlipRel F st.faces) : List.Forall₂ FlipRel F (bfs fuel nbrs st).faces := by
  induction fuel generalizing st with
  | zero => simpa [bfs] using h
  | succ fuel ih =>
    unfold bfs
    cases hl : st.remaining.getLast? with
    | none => simpa using h
    | some cur =>
      simp only
      apply ih
      exact bfsVisit_flip cur _ _ h

/-- **the re-orientation loop of `sort_faces` only reverses faces** -/
theorem orientFaces_flip (faces nbrs : List (List Nat)) :
    List.Forall₂ FlipRel faces (orientFaces faces nbrs) :=
  bfs_flip _ _ _ (forall₂_flip_refl faces)

end Mut

/-! ### `Polyhedron` with all attributes: coherence -/
noncomputable section
namespace Mut

/-- negating the stored equations is the same as recomputing them from the reversed faces -/
def NegEqOK (verts : List (V3 ℝ)) (faces : List (List Nat)) : Prop :=
  PHState.findEquations verts (faces.map List.reverse) =
    ((PHState.findEquations verts faces).1.map PHFull.negN,
     (PHState.findEquations verts faces).2.map (· * (-(lit 1))))

theorem dot_sdiv (N v : V3 ℝ) (s : ℝ) : V3.dot (V3.sdiv N s) v = V3.dot N v / s := by
  simp only [V3.dot, V3.sdiv]; ring

theorem faceEquation_rev3 (va vb vc : V3 ℝ) :
    Poly3.faceEquation vc vb va =
      (PHFull.negN (Poly3.faceEquation va vb vc).1, (Poly3.faceEquation va vb vc).2 * (-(lit 1))) := by
  unfold Poly3.faceEquation PHFull.negN
  have hN : V3.cross (va - vb) (vc - vb) = V3.smul (-1) (V3.cross (vc - vb) (va - vb)) := by
    ext <;> simp [V3.cross] <;> ring
  have hnorm : V3.norm (V3.cross (va - vb) (vc - vb)) = V3.norm (V3.cross (vc - vb) (va - vb)) := by
    rw [hN]; unfold V3.norm V3.normSq; congr 1; simp [V3.dot]
  simp only [hnorm]
  generalize V3.norm (V3.cross (vc - vb) (va - vb)) = s
  refine Prod.ext ?_ ?_
  · simp only [Scalar.lit, Scalar.ofNat_real]
    ext <;> simp [V3.sdiv, V3.cross] <;> ring
  · simp only [dot_sdiv, Scalar.lit, Scalar.ofNat_real]
    have : V3.dot (V3.cross (va - vb) (vc - vb)) vc = -V3.dot (V3.cross (vc - vb) (va - vb)) va := by
      simp [V3.dot, V3.cross]; ring
    rw [this]; push_cast; ring

/-- for triangular faces the global flip of `sort_faces` (`faces[i][::-1]`, `equations[i] *= -1`)
leaves the equations equal to their recomputation -/
theorem negEqOK_of_triangles (verts : List (V3 ℝ)) (faces : List (List Nat))
    (h : ∀ f ∈ faces, f.length = 3) : NegEqOK verts faces := by
  unfold NegEqOK PHState.findEquations CPState.findEquations faceHeads
  simp only [List.map_map, Prod.mk.injEq]
  constructor <;> apply List.map_congr_left <;> intro f hf
  all_goals
    obtain ⟨a, b, c, rfl⟩ : ∃ a b c, f = [a, b, c] := by
      have := h f hf
      match f, this with
      | [a, b, c], _ => exact ⟨a, b, c, rfl⟩
    simp only [Function.comp, List.reverse_cons, List.reverse_nil, List.nil_append, List.cons_append,
      List.getD_cons_zero, List.getD_cons_succ]
    rw [faceEquation_rev3]

theorem FlipRel.length_eq {f g : List Nat} (h : FlipRel f g) : g.length = f.length := by
  rcases h with rfl | rfl <;> simp

theorem forall₂_flip_lengths {F G : List (List Nat)} (h : List.Forall₂ FlipRel F G) {n : Nat}
    (hF : ∀ f ∈ F, f.length = n) : ∀ g ∈ G, g.length = n := by
  induction h with
  | nil => intro g hg; cases hg
  | cons hab _ ih =>
    intro g hg
    rcases List.mem_cons.mp hg with rfl | hg
    · rw [hab.length_eq]; exact hF _ List.mem_cons_self
    · exact ih (fun f hf => hF f (List.mem_cons_of_mem _ hf)) g hg

/-- every attribute a `Polyhedron` stores equals its recomputation from vertices and faces:
plane equations, neighbours, and the `edges` entry of the instance `__dict__` if there is one -/
structure PHFull.Coherent (s : PHFull ℝ) : Prop where
  eqs : s.core.Coherent
  nbrs : findNeighbors s.core.faces = .ok s.neighbors
  edges : ∀ e, s.edgesCache = some e → e = edgesOf s.core.faces

/-- a freshly constructed `Polyhedron` is coherent -/
theorem PHFull.fresh_coherent {verts : List (V3 ℝ)} {faces : List (List Nat)} {conv : Bool} {s : PHFull ℝ}
    (h : PHFull.fresh verts faces conv = .ok s) : s.Coherent := by
  unfold PHFull.fresh at h
  cases hn : findNeighbors faces with
  | error e => rw [hn] at h; cases h
  | ok nb =>
    rw [hn] at h
    injection h with h; subst h
    exact ⟨rfl, hn, fun e he => by cases he⟩

/-- **a coherent `Polyhedron` IS the freshly constructed one** (same vertices, faces, flag), up to
the `edges` cache being filled -/
theorem PHFull.coherent_eq_fresh {s : PHFull ℝ} (h : s.Coherent) :
    PHFull.fresh s.core.verts s.core.faces s.conv = .ok { s with edgesCache := none } := by
  unfold PHFull.fresh
  rw [h.nbrs]
  have he := h.eqs
  unfold PHState.Coherent at he
  obtain ⟨⟨verts, faces, eqN, eqD⟩, conv, nb, cache⟩ := s
  simp only at he ⊢
  have e1 := congrArg Prod.fst he
  have e2 := congrArg Prod.snd he
  simp only at e1 e2
  rw [← e1, ← e2]

/-- the `edges` getter of a coherent object returns what it returns on a fresh one -/
theorem PHFull.readEdges_value {s : PHFull ℝ} (h : s.Coherent) : s.readEdges.1 = edgesOf s.core.faces := by
  unfold PHFull.readEdges
  cases hc : s.edgesCache with
  | none => rfl
  | some e => exact h.edges e hc

theorem PHFull.readEdges_coherent {s : PHFull ℝ} (h : s.Coherent) : s.readEdges.2.Coherent := by
  unfold PHFull.readEdges
  cases hc : s.edgesCache with
  | none => exact ⟨h.eqs, h.nbrs, fun e he => by injection he with he; exact he.symm⟩
  | some e => exact h

/-- a mutator of the core that keeps the faces and the coherence of the equations keeps everything -/
theorem PHFull.liftCore_coherent {s : PHFull ℝ} (f : PHState ℝ → PHState ℝ) (hf : (f s.core).faces = s.core.faces)
    (hc : (f s.core).Coherent) (h : s.Coherent) : (s.liftCore f).Coherent := by
  refine ⟨hc, ?_, ?_⟩
  · show findNeighbors (f s.core).faces = _
    rw [hf]; exact h.nbrs
  · intro e he
    show e = edgesOf (f s.core).faces
    rw [hf]; exact h.edges e he

/-- what is needed of the geometry when `sort_faces` takes its `volume < 0` branch -/
def PHFull.SortGeomOK (s : PHFull ℝ) (faces1 : List (List Nat)) : Prop :=
  ∀ nb, findNeighbors faces1 = .ok nb → NegEqOK s.core.verts (orientFaces faces1 nb)

theorem PHFull.sortGeomOK_of_triangles (s : PHFull ℝ) (faces1 : List (List Nat))
    (h : ∀ f ∈ faces1, f.length = 3) : s.SortGeomOK faces1 := by
  intro nb _
  exact negEqOK_of_triangles _ _ (forall₂_flip_lengths (orientFaces_flip faces1 nb) h)

/-- **`sort_faces()` leaves a coherent object, whatever the state before was**: the neighbours it
computes before re-orienting the faces are those of the final faces, the equations are those of the
final faces (in the `volume < 0` branch: by `SortGeomOK`), the `edges` cache is dropped. -/
theorem PHFull.sortFaces_coherent {s s' : PHFull ℝ} {faces1 : List (List Nat)}
    (hg : s.SortGeomOK faces1) (h : s.sortFaces faces1 = .ok s') : s'.Coherent := by
  unfold PHFull.sortFaces at h
  by_cases hc : s.conv = true
  · simp only [hc, Bool.not_true, Bool.false_eq_true, if_false] at h
    cases hn : findNeighbors faces1 with
    | error e => rw [hn] at h; cases h
    | ok nb =>
      rw [hn] at h
      simp only at h
      injection h with h; subst h
      have hfl := orientFaces_flip faces1 nb
      split_ifs with hv
      · refine ⟨?_, ?_, fun e he => by cases he⟩
        · show (_, _) = PHState.findEquations s.core.verts ((orientFaces faces1 nb).map List.reverse)
          rw [hg nb hn]
        · show findNeighbors ((orientFaces faces1 nb).map List.reverse) = _
          rw [findNeighbors_flip (forall₂_flip_trans_reverse hfl)]; exact hn
      · refine ⟨rfl, ?_, fun e he => by cases he⟩
        show findNeighbors (orientFaces faces1 nb) = _
        rw [findNeighbors_flip hfl]; exact hn
  · simp only [hc, Bool.not_false, if_true] at h
    cases h

/-- `sort_faces` keeps vertices and flag, and the final faces are the ordered faces `faces1`, each
possibly reversed -/
theorem PHFull.sortFaces_faces {s s' : PHFull ℝ} {faces1 : List (List Nat)} (h : s.sortFaces faces1 = .ok s') :
    s'.core.verts = s.core.verts ∧ s'.conv = s.conv ∧ List.Forall₂ FlipRel faces1 s'.core.faces := by
  unfold PHFull.sortFaces at h
  by_cases hc : s.conv = true
  · simp only [hc, Bool.not_true, Bool.false_eq_true, if_false] at h
    cases hn : findNeighbors faces1 with
    | error e => rw [hn] at h; cases h
    | ok nb =>
      rw [hn] at h
      simp only at h
      injection h with h; subst h
      have hfl := orientFaces_flip faces1 nb
      split_ifs with hv
      · exact ⟨rfl, hc.symm ▸ rfl, forall₂_flip_trans_reverse hfl⟩
      · exact ⟨rfl, hc.symm ▸ rfl, hfl⟩
  · simp only [hc, Bool.not_false, if_true] at h
    cases h

/-- **`merge_faces()` that raises leaves a coherent object exactly as it was** (old faces put
back, equations and neighbours recomputed from them, `edges` cache untouched) -/
theorem PHFull.mergeFaces_error_restores {s : PHFull ℝ} {faces1 : List (List Nat)} {e : String}
    (h : s.Coherent) (he : (s.mergeFaces faces1).2 = some e) : (s.mergeFaces faces1).1 = s := by
  obtain ⟨⟨verts, faces, eqN, eqD⟩, conv, nb, cache⟩ := s
  have hn : findNeighbors faces = .ok nb := h.nbrs
  have heq : (eqN, eqD) = PHState.findEquations verts faces := h.eqs
  have e1 : eqN = (PHState.findEquations verts faces).1 := congrArg Prod.fst heq
  have e2 : eqD = (PHState.findEquations verts faces).2 := congrArg Prod.snd heq
  unfold PHFull.mergeFaces at he ⊢
  cases conv with
  | false => simp
  | true =>
    simp only [Bool.not_true, Bool.false_eq_true, if_false] at he ⊢
    cases hs : PHFull.sortFaces (⟨⟨verts, faces, eqN, eqD⟩, true, nb, cache⟩ : PHFull ℝ) faces1 with
    | ok s' => rw [hs] at he; cases he
    | error e' => simp only [hn, ← e1, ← e2]

/-- **`merge_faces()` leaves a coherent object** — rebuilt by `sort_faces` when it succeeds,
restored when it raises -/
theorem PHFull.mergeFaces_coherent {s : PHFull ℝ} {faces1 : List (List Nat)} (hg : s.SortGeomOK faces1)
    (h : s.Coherent) : (s.mergeFaces faces1).1.Coherent := by
  cases he : (s.mergeFaces faces1).2 with
  | some e => rw [PHFull.mergeFaces_error_restores h he]; exact h
  | none =>
    unfold PHFull.mergeFaces at he ⊢
    by_cases hc : s.conv = true
    · simp only [hc, Bool.not_true, Bool.false_eq_true, if_false] at he ⊢
      cases hs : s.sortFaces faces1 with
      | ok s' => simp only; exact PHFull.sortFaces_coherent hg hs
      | error e' =>
        rw [hs] at he
        simp only at he
        split at he <;> cases he
    · simp only [hc, Bool.not_false, if_true] at he
      cases he

end Mut
end
