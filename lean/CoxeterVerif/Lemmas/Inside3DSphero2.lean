import CoxeterVerif.Lemmas.Inside3DSphero
/-!
  C05, spheropolyhedron completeness — geometric pieces:
  `cyl_or_cap` (a point within `r` of a point of a segment passes the cylinder test of the segment or
  the cap test of one of its ends), `memHull_prism_of_foot` (a point above/below a point of the face
  polygon by at most `r` along the unit normal is a convex combination of the prism's vertices).
-/
open Scalar
set_option maxRecDepth 4000
noncomputable section

namespace Inside3D
open Spec.In3D CCk

/-! ### cylinder or cap -/

theorem normSq_nonneg (u : V3 ℝ) : 0 ≤ V3.normSq u := by
  simp only [V3.normSq, V3.dot]
  exact add_nonneg (add_nonneg (mul_self_nonneg _) (mul_self_nonneg _)) (mul_self_nonneg _)

theorem norm_le_of_normSq_le {u : V3 ℝ} {r : ℝ} (hr : 0 ≤ r) (h : V3.normSq u ≤ r * r) : V3.norm u ≤ r := by
  unfold V3.norm
  rw [Scalar.sqrt_real, Real.sqrt_le_iff]
  exact ⟨hr, by nlinarith⟩

theorem norm_mul_self (u : V3 ℝ) : V3.norm u * V3.norm u = V3.normSq u := by
  unfold V3.norm; rw [Scalar.sqrt_real]; exact Real.mul_self_sqrt (normSq_nonneg u)

theorem norm_nonneg' (u : V3 ℝ) : 0 ≤ V3.norm u := by
  unfold V3.norm; rw [Scalar.sqrt_real]; exact Real.sqrt_nonneg _

/-- **cylinder or cap.**  `y = (1−λ)s + λe` on the segment, `|p − y| ≤ r`: then `p` passes the cylinder
test of `(s, e)`, or the cap test of `s`, or the cap test of `e`. -/
theorem cyl_or_cap (r : ℝ) (hr : 0 ≤ r) (p s e : V3 ℝ) (lam : ℝ) (h0 : 0 ≤ lam) (h1 : lam ≤ 1)
    (hd : distSq p (V3.smul (1 - lam) s + V3.smul lam e) ≤ r * r) :
    Sphero.inCylinder r p s e = true ∨ Sphero.inCap r p s = true ∨ Sphero.inCap r p e = true := by
  set u := e - s with hu
  set w := p - s with hw
  set Ln := V3.norm u with hL
  have hLL : Ln * Ln = V3.normSq u := norm_mul_self u
  have hL0 : 0 ≤ Ln := norm_nonneg' u
  -- |p − y|² = |w − λu|²
  have hdy : distSq p (V3.smul (1 - lam) s + V3.smul lam e) =
      V3.normSq w - 2 * lam * V3.dot w u + lam * lam * V3.normSq u := by
    obtain ⟨px, py, pz⟩ := p; obtain ⟨sx, sy, sz⟩ := s; obtain ⟨ex, ey, ez⟩ := e
    simp only [hu, hw, distSq, V3.normSq, V3.dot, V3.sub_x, V3.sub_y, V3.sub_z, V3.add_x, V3.add_y, V3.add_z,
      V3.smul_x, V3.smul_y, V3.smul_z]
    ring
  rw [hdy] at hd
  by_cases hz : Ln = 0
  · -- degenerate edge: e = s
    right; left
    have hn0 : V3.normSq u = 0 := by rw [← hLL, hz]; ring
    unfold Sphero.inCap
    rw [decide_eq_true_iff]
    apply norm_le_of_normSq_le hr
    have hdot : V3.dot w u = 0 := by
      have hx : u.x = 0 := by
        have := normSq_nonneg u; simp only [V3.normSq, V3.dot] at hn0
        nlinarith [mul_self_nonneg u.x, mul_self_nonneg u.y, mul_self_nonneg u.z]
      have hy : u.y = 0 := by
        simp only [V3.normSq, V3.dot] at hn0
        nlinarith [mul_self_nonneg u.x, mul_self_nonneg u.y, mul_self_nonneg u.z]
      have hzz : u.z = 0 := by
        simp only [V3.normSq, V3.dot] at hn0
        nlinarith [mul_self_nonneg u.x, mul_self_nonneg u.y, mul_self_nonneg u.z]
      simp only [V3.dot, hx, hy, hzz]; ring
    rw [hdot, hn0] at hd
    linarith
  · have hLpos : 0 < Ln := lt_of_le_of_ne hL0 (Ne.symm hz)
    set t := V3.dot w (V3.sdiv u Ln) with ht
    have htL : t * Ln = V3.dot w u := by
      simp only [ht, V3.dot, V3.sdiv_x, V3.sdiv_y, V3.sdiv_z]
      field_simp
    -- |p − y|² = (|w|² − t²) + (t − λL)²
    have hsplit : V3.normSq w - 2 * lam * V3.dot w u + lam * lam * V3.normSq u =
        (V3.normSq w - t * t) + (t - lam * Ln) * (t - lam * Ln) := by
      rw [← htL, ← hLL]; ring
    rw [hsplit] at hd
    have hperp : V3.normSq (w - V3.smul t (V3.sdiv u Ln)) = V3.normSq w - t * t := by
      have hunit : V3.normSq (V3.sdiv u Ln) = 1 := by
        have : V3.normSq (V3.sdiv u Ln) = V3.normSq u / (Ln * Ln) := by
          simp only [V3.normSq, V3.dot, V3.sdiv_x, V3.sdiv_y, V3.sdiv_z]; field_simp
        rw [this, hLL]; exact div_self (by rw [← hLL]; positivity)
      have e1 : V3.normSq (w - V3.smul t (V3.sdiv u Ln)) =
          V3.normSq w - 2 * t * V3.dot w (V3.sdiv u Ln) + t * t * V3.normSq (V3.sdiv u Ln) := by
        generalize V3.sdiv u Ln = g
        obtain ⟨wx, wy, wz⟩ := w; obtain ⟨gx, gy, gz⟩ := g
        simp only [V3.normSq, V3.dot, V3.sub_x, V3.sub_y, V3.sub_z, V3.smul_x, V3.smul_y, V3.smul_z]; ring
      rw [e1, hunit, ← ht]; ring
    have hperp0 : 0 ≤ V3.normSq w - t * t := by rw [← hperp]; exact normSq_nonneg _
    by_cases ht0 : t < 0
    · -- beyond `s`
      right; left
      unfold Sphero.inCap; rw [decide_eq_true_iff]
      apply norm_le_of_normSq_le hr
      have hlL : 0 ≤ lam * Ln := mul_nonneg h0 hL0
      nlinarith
    · by_cases htL' : Ln < t
      · -- beyond `e`
        right; right
        unfold Sphero.inCap; rw [decide_eq_true_iff]
        apply norm_le_of_normSq_le hr
        have hpe : V3.normSq (p - e) = (V3.normSq w - t * t) + (t - Ln) * (t - Ln) := by
          have : V3.normSq (p - e) = V3.normSq w - 2 * V3.dot w u + V3.normSq u := by
            obtain ⟨px, py, pz⟩ := p; obtain ⟨sx, sy, sz⟩ := s; obtain ⟨ex, ey, ez⟩ := e
            simp only [hu, hw, V3.normSq, V3.dot, V3.sub_x, V3.sub_y, V3.sub_z]; ring
          rw [this, ← htL, ← hLL]; ring
        rw [hpe]
        have hlL : lam * Ln ≤ Ln := by nlinarith
        nlinarith
      · left
        have ht0' : 0 ≤ t := not_lt.mp ht0
        have htL'' : t ≤ Ln := not_lt.mp htL'
        unfold Sphero.inCylinder
        simp only [Bool.and_eq_true, decide_eq_true_iff, Scalar.lit, Scalar.ofNat_real, Nat.cast_zero]
        refine ⟨⟨?_, ht0'⟩, htL''⟩
        apply norm_le_of_normSq_le hr
        rw [hperp]
        nlinarith [mul_self_nonneg (t - lam * Ln)]

/-! ### hull of the prism -/

theorem memHull_map_add {B : List (V3 ℝ)} {x : V3 ℝ} (c : V3 ℝ) (h : MemHull B x) :
    MemHull (B.map fun v => v + c) (x + c) := by
  obtain ⟨ws, hlen, ⟨hw, hs⟩, rfl⟩ := h
  refine ⟨ws, by simp [hlen], ⟨hw, hs⟩, ?_⟩
  simp only [Scalar.lit, Scalar.ofNat_real, Scalar.sum_real, Nat.cast_zero, Nat.cast_one] at hs
  rw [comb_map_add c ws B hlen, hs]
  ext <;> simp

theorem memHull_append_left {A : List (V3 ℝ)} (B : List (V3 ℝ)) {x : V3 ℝ} (h : MemHull A x) :
    MemHull (A ++ B) x := by
  obtain ⟨ws, hlen, ⟨hw, hs⟩, rfl⟩ := h
  simp only [Scalar.lit, Scalar.ofNat_real, Scalar.sum_real, Nat.cast_zero, Nat.cast_one] at hw hs
  refine ⟨ws ++ List.replicate B.length 0, by simp [hlen], ⟨?_, ?_⟩, ?_⟩
  · intro w hw'
    simp only [Scalar.lit, Scalar.ofNat_real, Nat.cast_zero]
    rcases List.mem_append.mp hw' with h | h
    · exact hw w h
    · rw [List.eq_of_mem_replicate h]
  · simp only [Scalar.sum_real, Scalar.lit, Scalar.ofNat_real, Nat.cast_one, List.sum_append, hs]; simp
  · rw [comb_append ws _ A B hlen, comb_replicate_zero]; ext <;> simp

theorem memHull_append_right (A : List (V3 ℝ)) {B : List (V3 ℝ)} {x : V3 ℝ} (h : MemHull B x) :
    MemHull (A ++ B) x := by
  obtain ⟨ws, hlen, ⟨hw, hs⟩, rfl⟩ := h
  simp only [Scalar.lit, Scalar.ofNat_real, Scalar.sum_real, Nat.cast_zero, Nat.cast_one] at hw hs
  refine ⟨List.replicate A.length 0 ++ ws, by simp [hlen], ⟨?_, ?_⟩, ?_⟩
  · intro w hw'
    simp only [Scalar.lit, Scalar.ofNat_real, Nat.cast_zero]
    rcases List.mem_append.mp hw' with h | h
    · rw [List.eq_of_mem_replicate h]
    · exact hw w h
  · simp only [Scalar.sum_real, Scalar.lit, Scalar.ofNat_real, Nat.cast_one, List.sum_append, hs]; simp
  · rw [comb_append _ ws A B (by simp), comb_replicate_zero]; ext <;> simp

/-- **prism branch.**  `x` in the hull of the face points, `p = x + d·n` with `|d| ≤ r`, `0 < r`:
`p` is a convex combination of the prism's vertices `(base − r n) ∪ (base + r n)`. -/
theorem memHull_prism_of_foot (r : ℝ) (hr : 0 < r) (n : V3 ℝ) (base : List (V3 ℝ)) (x : V3 ℝ)
    (hx : MemHull base x) (d : ℝ) (hd1 : -r ≤ d) (hd2 : d ≤ r) :
    MemHull (Sphero.prismVertices r n base) (x + V3.smul d n) := by
  unfold Sphero.prismVertices
  have hsub : (base.map fun v => v - V3.smul r n) = base.map fun v => v + V3.smul (-r) n := by
    apply List.map_congr_left; intro v _; ext <;> simp <;> ring
  have hA : MemHull ((base.map fun v => v - V3.smul r n) ++ base.map fun v => v + V3.smul r n)
      (x + V3.smul (-r) n) := by
    apply memHull_append_left; rw [hsub]; exact memHull_map_add _ hx
  have hB : MemHull ((base.map fun v => v - V3.smul r n) ++ base.map fun v => v + V3.smul r n)
      (x + V3.smul r n) := by
    apply memHull_append_right; exact memHull_map_add _ hx
  have := memHull_comb (V := (base.map fun v => v - V3.smul r n) ++ base.map fun v => v + V3.smul r n)
    [(1 - d / r) / 2, (1 + d / r) / 2] [x + V3.smul (-r) n, x + V3.smul r n] rfl
    (by intro u hu
        simp only [List.mem_cons, List.not_mem_nil, or_false] at hu
        have h1 : d / r ≤ 1 := (div_le_one hr).mpr hd2
        have h2 : -1 ≤ d / r := by rw [le_div_iff₀ hr]; linarith
        rcases hu with rfl | rfl <;> linarith)
    (by simp; ring)
    (by intro q hq
        simp only [List.mem_cons, List.not_mem_nil, or_false] at hq
        rcases hq with rfl | rfl
        · exact hA
        · exact hB)
  have e : comb [(1 - d / r) / 2, (1 + d / r) / 2] [x + V3.smul (-r) n, x + V3.smul r n] =
      x + V3.smul d n := by
    simp only [comb_cons, comb_nil_left]
    ext <;> simp <;> field_simp <;> ring
  rwa [e] at this

end Inside3D
end
