import CoxeterVerif.Lemmas.PlanarTilted
import CoxeterVerif.Lemmas.Covariance
/-!
  C04, tilted planes, part 2: transfer through the orthogonal frame `R` returned by
  `rowan.mapping.kabsch([n,-n],[ẑ,-ẑ])` (contract: proper rotation with `R n = ẑ`), translation laws
  of the 2-D triangle spec, and the 3-D triangle-list spec (`Spec3`) seen in the aligned frame.
-/
open Scalar
set_option maxRecDepth 4000
noncomputable section

/-! ### the frame contract -/

/-- `RᵀR = 1` (as a matrix equation) and `det R = 1` give `IsRot R` -/
theorem isRot_of_mul {R : M3 ℝ} (h : M3.mul (M3.transpose R) R = M3.one) (hd : M3.det R = 1) :
    IsRot R := by
  obtain ⟨xx, xy, xz, yx, yy, yz, zx, zy, zz⟩ := R
  simp only [M3.mul, M3.transpose, M3.one, M3.mk.injEq, Scalar.lit, Scalar.ofNat_real] at h
  push_cast at h
  obtain ⟨h1, h2, h3, _, h5, h6, _, _, h9⟩ := h
  exact ⟨h1, h5, h9, h2, h3, h6, hd⟩

theorem det_transpose (R : M3 ℝ) : M3.det (M3.transpose R) = M3.det R := by
  simp only [M3.det, M3.transpose]; ring

/-- the contract in the form the harness checks it: `R Rᵀ = 1`, `det R = 1` -/
theorem isRot_of_mul_transpose {R : M3 ℝ} (h : M3.mul R (M3.transpose R) = M3.one)
    (hd : M3.det R = 1) : IsRot R := by
  have ht : IsRot (M3.transpose R) := by
    apply isRot_of_mul _ (by rw [det_transpose]; exact hd)
    simpa [M3.transpose] using h
  obtain ⟨r1, r2, r3, r4, r5, r6⟩ := ht.rows
  simp only [M3.transpose] at r1 r2 r3 r4 r5 r6
  exact ⟨r1, r2, r3, r4, r5, r6, hd⟩

/-- `R` is a proper rotation taking the normal `n` to `ẑ` -/
structure IsFrame (R : M3 ℝ) (n : V3 ℝ) : Prop where
  rot : IsRot R
  toZ : M3.mulVec R n = ⟨0, 0, 1⟩

theorem isRot_one : IsRot (M3.one : M3 ℝ) := by
  constructor <;> simp [M3.one, M3.det, Scalar.lit]

theorem isFrame_one : IsFrame (M3.one : M3 ℝ) ⟨0, 0, 1⟩ :=
  ⟨isRot_one, by simp [M3.mulVec, M3.one, Scalar.lit]⟩

theorem IsRot.transpose_mulVec {R : M3 ℝ} (h : IsRot R) (v : V3 ℝ) :
    M3.mulVec (M3.transpose R) (M3.mulVec R v) = v := by
  obtain ⟨c11, c22, c33, c12, c13, c23, _⟩ := h
  obtain ⟨vx, vy, vz⟩ := v
  ext <;> simp only [M3.mulVec, M3.transpose]
  · linear_combination vx * c11 + vy * c12 + vz * c13
  · linear_combination vx * c12 + vy * c22 + vz * c23
  · linear_combination vx * c13 + vy * c23 + vz * c33

namespace IsFrame
variable {R : M3 ℝ} {n : V3 ℝ} (h : IsFrame R n)
include h

/-- the normal is the third row of `R` -/
theorem row3 : n = ⟨R.zx, R.zy, R.zz⟩ := by
  obtain ⟨⟨c11, c22, c33, c12, c13, c23, _⟩, hz⟩ := h
  obtain ⟨nx, ny, nz⟩ := n
  simp only [M3.mulVec, V3.mk.injEq] at hz
  obtain ⟨e1, e2, e3⟩ := hz
  ext <;> simp only
  · linear_combination (R.xx * e1 + R.yx * e2 + R.zx * e3) - nx * c11 - ny * c12 - nz * c13
  · linear_combination (R.xy * e1 + R.yy * e2 + R.zy * e3) - nx * c12 - ny * c22 - nz * c23
  · linear_combination (R.xz * e1 + R.yz * e2 + R.zz * e3) - nx * c13 - ny * c23 - nz * c33

theorem normSq_eq : V3.normSq n = 1 := by
  rw [h.row3]
  simp only [V3.normSq, V3.dot]
  exact h.rot.rows.2.2.1

theorem norm_eq : V3.norm n = 1 := by
  unfold V3.norm; rw [h.normSq_eq]; simp

/-- height above the plane through the origin: `(R v).z = n · v` -/
theorem mulVec_z (v : V3 ℝ) : (M3.mulVec R v).z = V3.dot n v := by
  rw [h.row3]; simp only [M3.mulVec, V3.dot]

/-- the shoelace term in the aligned frame is `n · (a × b)` -/
theorem delta_eq (a b : V3 ℝ) :
    Poly2.delta (M3.mulVec R a) (M3.mulVec R b) = V3.dot n (V3.cross a b) := by
  have hc := congrArg V3.z (h.rot.cross_rot a b)
  rw [h.mulVec_z] at hc
  rw [← hc]; simp only [Poly2.delta, V3.cross]; ring

/-- squared distance from the normal axis -/
theorem xy_sq (u : V3 ℝ) :
    (M3.mulVec R u).x * (M3.mulVec R u).x + (M3.mulVec R u).y * (M3.mulVec R u).y
      = V3.normSq u - V3.dot n u * V3.dot n u := by
  have h1 := h.rot.normSq_rot u
  have h2 := h.mulVec_z u
  simp only [V3.normSq, V3.dot] at h1 h2 ⊢
  rw [← h2, ← h1]; ring

theorem triArea_eq (t : Tri ℝ) : Spec2.triArea (t.map (M3.mulVec R)) = Spec3.triArea n t := by
  unfold Spec2.triArea Spec3.triArea
  rw [← h.delta_eq]
  simp only [Tri.map, mulVec_sub, Poly2.delta, V3.sub_x, V3.sub_y]

end IsFrame

/-! ### vertex maps preserve "triangulates" -/

theorem cycleEdges_map (f : V3 ℝ → V3 ℝ) (w : List (V3 ℝ)) :
    cycleEdges (w.map f) = (cycleEdges w).map (fun e => (f e.1, f e.2)) := by
  simp only [cycleEdges_eq, ← List.map_rotate, List.zip_map]
  rfl

theorem triEdges_map (f : V3 ℝ → V3 ℝ) (Ts : List (Tri ℝ)) :
    (Ts.map (Tri.map f)).flatMap triEdges = (Ts.flatMap triEdges).map (fun e => (f e.1, f e.2)) := by
  induction Ts with
  | nil => rfl
  | cons t Ts ih =>
    simp only [List.map_cons, List.flatMap_cons, List.map_append, ih]
    rfl

/-- applying any vertex map to the cycle and to the triangulation keeps the chain equation -/
theorem EdgeChainEq.map_vertices (f : V3 ℝ → V3 ℝ) {w : List (V3 ℝ)} {Ts : List (Tri ℝ)}
    (h : EdgeChainEq (cycleEdges w) (Ts.flatMap triEdges)) :
    EdgeChainEq (cycleEdges (w.map f)) ((Ts.map (Tri.map f)).flatMap triEdges) := by
  intro φ hφ
  rw [cycleEdges_map, triEdges_map]
  have := h (fun e => φ (f e.1, f e.2)) (fun p q => hφ (f p) (f q))
  simpa only [sumEdges, List.map_map, Function.comp_def] using this

/-! ### 2-D spec: translation laws -/

theorem V3.get_sub (a c : V3 ℝ) (i : Nat) : (a - c).get i = a.get i - c.get i := by
  unfold V3.get; split_ifs <;> rfl

namespace Spec2
theorem triArea_translate (t : Tri ℝ) (c : V3 ℝ) : Spec2.triArea (t.map (· - c)) = Spec2.triArea t := by
  simp only [Spec2.triArea, Tri.map, V3.sub_x, V3.sub_y]; ring

theorem triFirst_translate (t : Tri ℝ) (c : V3 ℝ) (i : Nat) :
    Spec2.triFirst (t.map (· - c)) i = Spec2.triFirst t i - c.get i * Spec2.triArea t := by
  unfold Spec2.triFirst
  rw [triArea_translate]
  simp only [Tri.map, V3.get_sub, Scalar.lit, Scalar.ofNat_real]; push_cast; ring

/-- translation law of the second moments of a triangle -/
theorem triSecond_translate (t : Tri ℝ) (c : V3 ℝ) (i j : Nat) :
    Spec2.triSecond (t.map (· - c)) i j =
      Spec2.triSecond t i j - c.get i * Spec2.triFirst t j - c.get j * Spec2.triFirst t i
        + c.get i * c.get j * Spec2.triArea t := by
  unfold Spec2.triSecond Spec2.triFirst
  rw [triArea_translate]
  simp only [Tri.map, V3.get_sub, Scalar.lit, Scalar.ofNat_real]; push_cast; ring

theorem area_translate (Ts : List (Tri ℝ)) (c : V3 ℝ) :
    Spec2.area (Ts.map (Tri.map (· - c))) = Spec2.area Ts := by
  simp only [Spec2.area, Scalar.sum_real, List.map_map]
  congr 1
  exact List.map_congr_left (fun t _ => triArea_translate t c)

theorem first_translate (Ts : List (Tri ℝ)) (c : V3 ℝ) (i : Nat) :
    Spec2.first (Ts.map (Tri.map (· - c))) i = Spec2.first Ts i - c.get i * Spec2.area Ts := by
  simp only [Spec2.first, Spec2.area, Scalar.sum_real, List.map_map]
  induction Ts with
  | nil => simp
  | cons t Ts ih =>
    simp only [List.map_cons, List.sum_cons, Function.comp_def] at ih ⊢
    rw [ih, triFirst_translate]; ring

/-- **translation law of the exact second moments** (2-D analogue of `second_translate`) -/
theorem second_translate (Ts : List (Tri ℝ)) (c : V3 ℝ) (i j : Nat) :
    Spec2.second (Ts.map (Tri.map (· - c))) i j =
      Spec2.second Ts i j - c.get i * Spec2.first Ts j - c.get j * Spec2.first Ts i
        + c.get i * c.get j * Spec2.area Ts := by
  simp only [Spec2.second, Spec2.first, Spec2.area, Scalar.sum_real, List.map_map]
  induction Ts with
  | nil => simp
  | cons t Ts ih =>
    simp only [List.map_cons, List.sum_cons, Function.comp_def] at ih ⊢
    rw [ih, triSecond_translate]; ring

/-- centred second moments: if `c_i = first_i / area` then `M(Ts − c)_ij = M_ij − A c_i c_j` -/
theorem second_centred (Ts : List (Tri ℝ)) (c : V3 ℝ) (i j : Nat)
    (hi : Spec2.first Ts i = Spec2.area Ts * c.get i)
    (hj : Spec2.first Ts j = Spec2.area Ts * c.get j) :
    Spec2.second (Ts.map (Tri.map (· - c))) i j =
      Spec2.second Ts i j - Spec2.area Ts * c.get i * c.get j := by
  rw [second_translate, hi, hj]; ring
end Spec2

/-! ### 3-D triangle-list spec -/

/-- all triangle vertices lie in the plane `n · v = d` -/
def TrisInPlane (n : V3 ℝ) (d : ℝ) (Ts : List (Tri ℝ)) : Prop :=
  ∀ t ∈ Ts, V3.dot n t.a = d ∧ V3.dot n t.b = d ∧ V3.dot n t.c = d

namespace Spec3
theorem area_eq (n : V3 ℝ) (Ts : List (Tri ℝ)) : Spec3.area n Ts = (Ts.map (Spec3.triArea n)).sum := by
  simp [Spec3.area]
theorem area_cons (n : V3 ℝ) (t : Tri ℝ) (Ts : List (Tri ℝ)) :
    Spec3.area n (t :: Ts) = Spec3.triArea n t + Spec3.area n Ts := by
  simp [Spec3.area]
theorem first_cons (n : V3 ℝ) (t : Tri ℝ) (Ts : List (Tri ℝ)) :
    Spec3.first n (t :: Ts) = Spec3.triFirst n t + Spec3.first n Ts := rfl
theorem polarAbout_cons (n p : V3 ℝ) (t : Tri ℝ) (Ts : List (Tri ℝ)) :
    Spec3.polarAbout n p (t :: Ts) = Spec3.triPolar n p t + Spec3.polarAbout n p Ts := by
  simp [Spec3.polarAbout]
theorem first_nil (n : V3 ℝ) : Spec3.first n ([] : List (Tri ℝ)) = V3.zero := rfl

theorem triArea_translate (n c : V3 ℝ) (t : Tri ℝ) :
    Spec3.triArea n (t.map (· - c)) = Spec3.triArea n t := by
  obtain ⟨⟨ax,ay,az⟩,⟨bx,b_y,bz⟩,⟨cx,cy,cz⟩⟩ := t
  obtain ⟨c1,c2,c3⟩ := c
  simp only [Spec3.triArea, Tri.map]; unfold_model; ring

/-- the first moment of planar triangles stays in the plane: `n · first = d · area` -/
theorem dot_first {n : V3 ℝ} {d : ℝ} {Ts : List (Tri ℝ)} (hT : TrisInPlane n d Ts) :
    V3.dot n (Spec3.first n Ts) = d * Spec3.area n Ts := by
  induction Ts with
  | nil => simp [Spec3.first_nil, Spec3.area, V3.dot]
  | cons t Ts ih =>
    have ih' := ih (fun t ht => hT t (List.mem_cons_of_mem _ ht))
    obtain ⟨ha, hb, hc⟩ := hT t List.mem_cons_self
    rw [first_cons, area_cons]
    simp only [V3.dot, V3.add_x, V3.add_y, V3.add_z] at ih' ha hb hc ⊢
    simp only [Spec3.triFirst, V3.smul_x, V3.smul_y, V3.smul_z, V3.add_x, V3.add_y, V3.add_z,
      Scalar.lit, Scalar.ofNat_real]
    push_cast
    linear_combination ih' + Spec3.triArea n t / 3 * (ha + hb + hc)

/-- the exact centroid of a planar triangulation lies in the plane -/
theorem dot_centroid {n : V3 ℝ} {d : ℝ} {Ts : List (Tri ℝ)} (hT : TrisInPlane n d Ts)
    (hA : Spec3.area n Ts ≠ 0) : V3.dot n (Spec3.centroid n Ts) = d := by
  have := dot_first hT
  simp only [Spec3.centroid, V3.dot, V3.sdiv_x, V3.sdiv_y, V3.sdiv_z] at this ⊢
  field_simp
  linarith
end Spec3

/-- `n · areaVector vs` is the exact signed area of ANY triangulation bounded by the cycle -/
theorem dot_areaVector_tri (n : V3 ℝ) {vs : List (V3 ℝ)} {Ts : List (Tri ℝ)}
    (h : EdgeChainEq (cycleEdges vs) (Ts.flatMap triEdges)) :
    V3.dot n (Spec3.areaVector vs) = Spec3.area n Ts := by
  rw [dot_areaVector, Spec3.area_eq]
  apply sumEdges_bdry _ _ h
  · intro p q
    obtain ⟨nx, ny, nz⟩ := n; obtain ⟨px, py, pz⟩ := p; obtain ⟨qx, qy, qz⟩ := q
    simp only [V3.dot, V3.cross]; ring
  · intro t
    obtain ⟨⟨ax,ay,az⟩,⟨bx,b_y,bz⟩,⟨cx,cy,cz⟩⟩ := t
    obtain ⟨nx, ny, nz⟩ := n
    simp only [sumEdges, triEdges, Spec3.triArea, List.map_cons, List.map_nil, List.sum_cons, List.sum_nil]
    unfold_model; ring

/-! ### the spec in the aligned frame -/

namespace IsFrame
variable {R : M3 ℝ} {n : V3 ℝ} (h : IsFrame R n)
include h

theorem area_eq (Ts : List (Tri ℝ)) :
    Spec2.area (Ts.map (Tri.map (M3.mulVec R))) = Spec3.area n Ts := by
  simp only [Spec2.area, Spec3.area, Scalar.sum_real, List.map_map]
  congr 1
  exact List.map_congr_left (fun t _ => h.triArea_eq t)

theorem triFirst_eq (t : Tri ℝ) :
    Spec2.triFirst (t.map (M3.mulVec R)) 0 = (M3.mulVec R (Spec3.triFirst n t)).x ∧
    Spec2.triFirst (t.map (M3.mulVec R)) 1 = (M3.mulVec R (Spec3.triFirst n t)).y := by
  unfold Spec2.triFirst Spec3.triFirst
  rw [h.triArea_eq, mulVec_smul, mulVec_add, mulVec_add]
  simp only [Tri.map, V3.get_zero, V3.get_one, V3.smul_x, V3.smul_y, V3.add_x, V3.add_y]
  constructor <;> ring

theorem first_eq (Ts : List (Tri ℝ)) :
    Spec2.first (Ts.map (Tri.map (M3.mulVec R))) 0 = (M3.mulVec R (Spec3.first n Ts)).x ∧
    Spec2.first (Ts.map (Tri.map (M3.mulVec R))) 1 = (M3.mulVec R (Spec3.first n Ts)).y := by
  induction Ts with
  | nil => simp [Spec2.first, Spec3.first_nil, M3.mulVec, V3.zero, Scalar.lit]
  | cons t Ts ih =>
    obtain ⟨i0, i1⟩ := ih
    obtain ⟨t0, t1⟩ := h.triFirst_eq t
    simp only [Spec2.first, Scalar.sum_real, List.map_cons, List.sum_cons, List.map_map] at i0 i1 ⊢
    rw [Spec3.first_cons, mulVec_add, V3.add_x, V3.add_y, ← i0, ← i1, ← t0, ← t1]
    exact ⟨rfl, rfl⟩

end IsFrame

/-! ### the doubly-aligned, centred frame used by `inertia_tensor` -/

/-- the vertex map `v ↦ R2 (R (v − c))` applied by `Polygon.inertia_tensor` before it evaluates the
polar moment -/
def frameMap (R R2 : M3 ℝ) (c : V3 ℝ) (v : V3 ℝ) : V3 ℝ := M3.mulVec R2 (M3.mulVec R (v - c))

theorem V3.dot_sub_right (n a c : V3 ℝ) : V3.dot n (a - c) = V3.dot n a - V3.dot n c := by
  simp only [V3.dot, V3.sub_x, V3.sub_y, V3.sub_z]; ring
theorem V3.dot_add_right (n a c : V3 ℝ) : V3.dot n (a + c) = V3.dot n a + V3.dot n c := by
  simp only [V3.dot, V3.add_x, V3.add_y, V3.add_z]; ring

namespace Spec3
theorem triArea_z (t : Tri ℝ) : Spec3.triArea ⟨0, 0, 1⟩ t = Spec2.triArea t := by
  obtain ⟨⟨ax,ay,az⟩,⟨bx,b_y,bz⟩,⟨cx,cy,cz⟩⟩ := t
  simp only [Spec3.triArea, Spec2.triArea]; unfold_model; ring

theorem area_z (Ts : List (Tri ℝ)) : Spec3.area ⟨0, 0, 1⟩ Ts = Spec2.area Ts := by
  simp only [Spec3.area, Spec2.area]
  congr 1
  exact List.map_congr_left (fun t _ => triArea_z t)

theorem first_z (Ts : List (Tri ℝ)) :
    (Spec3.first ⟨0, 0, 1⟩ Ts).x = Spec2.first Ts 0 ∧ (Spec3.first ⟨0, 0, 1⟩ Ts).y = Spec2.first Ts 1 := by
  induction Ts with
  | nil => simp [Spec2.first, Spec3.first_nil]
  | cons t Ts ih =>
    obtain ⟨i0, i1⟩ := ih
    simp only [Spec2.first, Scalar.sum_real, List.map_cons, List.sum_cons] at i0 i1 ⊢
    rw [Spec3.first_cons, V3.add_x, V3.add_y, i0, i1]
    simp only [Spec3.triFirst, Spec2.triFirst, triArea_z, V3.smul_x, V3.smul_y, V3.add_x, V3.add_y,
      V3.get_zero, V3.get_one]
    constructor <;> ring
end Spec3

section frame
variable {R R2 : M3 ℝ} {n : V3 ℝ}

theorem frameMap_xy_sq (h : IsFrame R n) (h2 : IsFrame R2 ⟨0, 0, 1⟩) (u : V3 ℝ)
    (hu : V3.dot n u = 0) :
    (M3.mulVec R2 (M3.mulVec R u)).x * (M3.mulVec R2 (M3.mulVec R u)).x
      + (M3.mulVec R2 (M3.mulVec R u)).y * (M3.mulVec R2 (M3.mulVec R u)).y = V3.normSq u := by
  rw [h2.xy_sq, h.rot.normSq_rot]
  have : V3.dot ⟨0, 0, 1⟩ (M3.mulVec R u) = 0 := by
    have e : V3.dot ⟨0, 0, 1⟩ (M3.mulVec R u) = (M3.mulVec R u).z := by simp [V3.dot]
    rw [e, h.mulVec_z, hu]
  rw [this]; ring

theorem frameMap_triArea (h : IsFrame R n) (h2 : IsFrame R2 ⟨0, 0, 1⟩) (c : V3 ℝ) (t : Tri ℝ) :
    Spec2.triArea (t.map (frameMap R R2 c)) = Spec3.triArea n t := by
  have e : t.map (frameMap R R2 c) = ((t.map (· - c)).map (M3.mulVec R)).map (M3.mulVec R2) := rfl
  rw [e, h2.triArea_eq, Spec3.triArea_z, h.triArea_eq, Spec3.triArea_translate]

theorem frameMap_area (h : IsFrame R n) (h2 : IsFrame R2 ⟨0, 0, 1⟩) (c : V3 ℝ) (Ts : List (Tri ℝ)) :
    Spec2.area (Ts.map (Tri.map (frameMap R R2 c))) = Spec3.area n Ts := by
  simp only [Spec2.area, Spec3.area, Scalar.sum_real, List.map_map]
  congr 1
  exact List.map_congr_left (fun t _ => frameMap_triArea h h2 c t)

/-- per triangle: `∫x² + ∫y²` in the doubly-aligned centred frame is `∫|v − c|²` in space -/
theorem frameMap_triPolar (h : IsFrame R n) (h2 : IsFrame R2 ⟨0, 0, 1⟩) (c : V3 ℝ) (t : Tri ℝ)
    (ha : V3.dot n (t.a - c) = 0) (hb : V3.dot n (t.b - c) = 0) (hc : V3.dot n (t.c - c) = 0) :
    Spec2.triSecond (t.map (frameMap R R2 c)) 0 0 + Spec2.triSecond (t.map (frameMap R R2 c)) 1 1
      = Spec3.triPolar n c t := by
  have hA := frameMap_triArea h h2 c t
  have q1 := frameMap_xy_sq h h2 _ ha
  have q2 := frameMap_xy_sq h h2 _ hb
  have q3 := frameMap_xy_sq h h2 _ hc
  have hs : V3.dot n ((t.a - c) + (t.b - c) + (t.c - c)) = 0 := by
    rw [V3.dot_add_right, V3.dot_add_right, ha, hb, hc]; ring
  have q4 := frameMap_xy_sq h h2 _ hs
  simp only [mulVec_add, V3.add_x, V3.add_y] at q4
  unfold Spec2.triSecond Spec3.triPolar
  rw [hA]
  simp only [Tri.map, frameMap, V3.get_zero, V3.get_one, Scalar.lit, Scalar.ofNat_real]
  push_cast
  linear_combination (Spec3.triArea n t / 12) * (q1 + q2 + q3 + q4)

theorem frameMap_polar (h : IsFrame R n) (h2 : IsFrame R2 ⟨0, 0, 1⟩) (c : V3 ℝ) (Ts : List (Tri ℝ))
    (hT : ∀ t ∈ Ts, V3.dot n (t.a - c) = 0 ∧ V3.dot n (t.b - c) = 0 ∧ V3.dot n (t.c - c) = 0) :
    Spec2.second (Ts.map (Tri.map (frameMap R R2 c))) 0 0
      + Spec2.second (Ts.map (Tri.map (frameMap R R2 c))) 1 1 = Spec3.polarAbout n c Ts := by
  induction Ts with
  | nil => simp [Spec2.second, Spec3.polarAbout]
  | cons t Ts ih =>
    have ih' := ih (fun t ht => hT t (List.mem_cons_of_mem _ ht))
    obtain ⟨ha, hb, hc⟩ := hT t List.mem_cons_self
    have ht := frameMap_triPolar h h2 c t ha hb hc
    rw [Spec3.polarAbout_cons, ← ih', ← ht]
    simp only [Spec2.second, Scalar.sum_real, List.map_cons, List.sum_cons]
    ring

/-- `Rᵀ diag(0,0,j) R = j · n nᵀ` -/
theorem rotateTensor_axis (h : IsFrame R n) (j : ℝ) :
    Poly2.rotateTensor (M3.transpose R) ⟨0, 0, 0, 0, 0, 0, 0, 0, j⟩
      = ⟨j * (n.x * n.x), j * (n.x * n.y), j * (n.x * n.z),
         j * (n.y * n.x), j * (n.y * n.y), j * (n.y * n.z),
         j * (n.z * n.x), j * (n.z * n.y), j * (n.z * n.z)⟩ := by
  rw [h.row3]
  simp only [Poly2.rotateTensor, M3.mul, M3.transpose]
  apply M3.ext' <;> simp only <;> ring
end frame

/-! ### polar moment about the normal axis through the origin (what `polar_moment_inertia` returns) -/

theorem normSq_sub_axis (n u : V3 ℝ) (e : ℝ) (hn : V3.normSq n = 1) (hu : V3.dot n u = e) :
    V3.normSq (u - V3.smul e n) = V3.normSq u - V3.dot n u * V3.dot n u := by
  obtain ⟨nx, ny, nz⟩ := n; obtain ⟨ux, uy, uz⟩ := u
  simp only [V3.normSq, V3.dot, V3.sub_x, V3.sub_y, V3.sub_z, V3.smul_x, V3.smul_y, V3.smul_z] at hn hu ⊢
  linear_combination e ^ 2 * hn + (nx * ux + ny * uy + nz * uz - e) * hu

/-- per triangle in the plane `n · v = d`: `∫x² + ∫y²` in the aligned frame is `∫|v − d n|²`, the
squared distance from the axis through the origin along `n` -/
theorem IsFrame.triPolar_axis {R : M3 ℝ} {n : V3 ℝ} (h : IsFrame R n) (t : Tri ℝ) (d : ℝ)
    (ha : V3.dot n t.a = d) (hb : V3.dot n t.b = d) (hc : V3.dot n t.c = d) :
    Spec2.triSecond (t.map (M3.mulVec R)) 0 0 + Spec2.triSecond (t.map (M3.mulVec R)) 1 1
      = Spec3.triPolar n (V3.smul d n) t := by
  have hA := h.triArea_eq t
  have hn := h.normSq_eq
  have q1 := h.xy_sq t.a
  have q2 := h.xy_sq t.b
  have q3 := h.xy_sq t.c
  have q4 := h.xy_sq (t.a + t.b + t.c)
  simp only [mulVec_add, V3.add_x, V3.add_y] at q4
  have hs : V3.dot n (t.a + t.b + t.c) = 3 * d := by
    rw [V3.dot_add_right, V3.dot_add_right, ha, hb, hc]; ring
  have es : (t.a - V3.smul d n) + (t.b - V3.smul d n) + (t.c - V3.smul d n)
      = (t.a + t.b + t.c) - V3.smul (3 * d) n := by
    ext <;> simp only [V3.add_x, V3.add_y, V3.add_z, V3.sub_x, V3.sub_y, V3.sub_z, V3.smul_x,
      V3.smul_y, V3.smul_z] <;> ring
  unfold Spec2.triSecond Spec3.triPolar
  rw [hA, es, normSq_sub_axis n _ d hn ha, normSq_sub_axis n _ d hn hb, normSq_sub_axis n _ d hn hc,
    normSq_sub_axis n _ (3 * d) hn hs]
  simp only [Tri.map, V3.get_zero, V3.get_one, Scalar.lit, Scalar.ofNat_real]
  push_cast
  linear_combination (Spec3.triArea n t / 12) * (q1 + q2 + q3 + q4)

theorem IsFrame.polar_axis {R : M3 ℝ} {n : V3 ℝ} (h : IsFrame R n) {d : ℝ} {Ts : List (Tri ℝ)}
    (hT : TrisInPlane n d Ts) :
    Spec2.second (Ts.map (Tri.map (M3.mulVec R))) 0 0 + Spec2.second (Ts.map (Tri.map (M3.mulVec R))) 1 1
      = Spec3.polarAbout n (V3.smul d n) Ts := by
  induction Ts with
  | nil => simp [Spec2.second, Spec3.polarAbout]
  | cons t Ts ih =>
    have ih' := ih (fun t ht => hT t (List.mem_cons_of_mem _ ht))
    obtain ⟨ha, hb, hc⟩ := hT t List.mem_cons_self
    have ht := h.triPolar_axis t d ha hb hc
    rw [Spec3.polarAbout_cons, ← ih', ← ht]
    simp only [Spec2.second, Scalar.sum_real, List.map_cons, List.sum_cons]
    ring

theorem mulVec_one_id (p : V3 ℝ) : M3.mulVec (M3.one : M3 ℝ) p = p := by
  cases p; simp [M3.mulVec, M3.one, Scalar.lit]

theorem frameMap_one (c : V3 ℝ) : frameMap M3.one M3.one c = (· - c) := by
  funext v; simp only [frameMap, mulVec_one_id]

end
