import CoxeterVerif.Lemmas.Planar
import CoxeterVerif.Spec.Planar3
/-!
  C04, tilted planes, part 1: the area vector of a closed planar cycle is parallel to the plane's
  normal, and the projection formula of `Polygon.signed_area` (project along the largest normal
  component, rescale) returns `n · areaVector`.
-/
open Scalar
set_option maxRecDepth 4000
noncomputable section

/-! ### cyclic sums -/

theorem cyc_eq_rotate {β : Type} (l : List β) : Spec3.cyc l = l.rotate 1 := by
  cases l with
  | nil => rfl
  | cons a t => simp [Spec3.cyc, List.rotate_cons_succ]

theorem cycleEdges_eq (w : List (V3 ℝ)) : cycleEdges w = w.zip (w.rotate 1) := by
  unfold cycleEdges; rw [rotl_eq_rotate]

theorem mem_cycleEdges {w : List (V3 ℝ)} {e : Edge} (h : e ∈ cycleEdges w) : e.1 ∈ w ∧ e.2 ∈ w := by
  rw [cycleEdges_eq] at h
  obtain ⟨p, q⟩ := e
  have := List.of_mem_zip h
  exact ⟨this.1, (List.mem_rotate).mp this.2⟩

theorem sumEdges_congr {φ ψ : Edge → ℝ} {E : List Edge} (h : ∀ e ∈ E, φ e = ψ e) :
    sumEdges φ E = sumEdges ψ E := by
  unfold sumEdges; rw [List.map_congr_left h]

theorem sumEdges_lin (a b : ℝ) (φ ψ : Edge → ℝ) (E : List Edge) :
    sumEdges (fun e => a * φ e + b * ψ e) E = a * sumEdges φ E + b * sumEdges ψ E := by
  unfold sumEdges
  induction E with
  | nil => simp
  | cons e E ih => simp only [List.map_cons, List.sum_cons, ih]; ring

theorem sumEdges_lin3 (a b c : ℝ) (φ ψ χ : Edge → ℝ) (E : List Edge) :
    sumEdges (fun e => a * φ e + b * ψ e + c * χ e) E
      = a * sumEdges φ E + b * sumEdges ψ E + c * sumEdges χ E := by
  unfold sumEdges
  induction E with
  | nil => simp
  | cons e E ih => simp only [List.map_cons, List.sum_cons, ih]; ring

theorem sum_zipWith_sub (g h : V3 ℝ → ℝ) (l l' : List (V3 ℝ)) (hl : l'.length = l.length) :
    (List.zipWith (fun p q => g p - h q) l l').sum = (l.map g).sum - (l'.map h).sum := by
  induction l generalizing l' with
  | nil =>
    have : l' = [] := List.length_eq_zero_iff.mp (by simpa using hl)
    subst this; simp
  | cons a t ih =>
    match l', hl with
    | b :: t', hl =>
      simp only [List.zipWith_cons_cons, List.sum_cons, List.map_cons]
      rw [ih t' (by simpa using hl)]; ring

/-- telescoping round the closed cycle -/
theorem sumEdges_telescope (f : V3 ℝ → ℝ) (w : List (V3 ℝ)) :
    sumEdges (fun e => f e.1 - f e.2) (cycleEdges w) = 0 := by
  rw [cycleEdges_eq]
  simp only [sumEdges, List.map_zip_eq_zipWith]
  have : (List.zipWith (Function.curry fun e : Edge => f e.1 - f e.2) w (w.rotate 1))
      = List.zipWith (fun p q => f p - f q) w (w.rotate 1) := rfl
  rw [this, sum_zipWith_sub f f w _ (List.length_rotate _ _)]
  rw [((List.rotate_perm w 1).map f).sum_eq]; ring

/-! ### the area vector in components -/

theorem V3.sum_zipWith_x (f : V3 ℝ → V3 ℝ → V3 ℝ) (l l' : List (V3 ℝ)) :
    (V3.sum (List.zipWith f l l')).x = (List.zipWith (fun p q => (f p q).x) l l').sum := by
  rw [V3.sum_x, List.map_zipWith]
theorem V3.sum_zipWith_y (f : V3 ℝ → V3 ℝ → V3 ℝ) (l l' : List (V3 ℝ)) :
    (V3.sum (List.zipWith f l l')).y = (List.zipWith (fun p q => (f p q).y) l l').sum := by
  rw [V3.sum_y, List.map_zipWith]
theorem V3.sum_zipWith_z (f : V3 ℝ → V3 ℝ → V3 ℝ) (l l' : List (V3 ℝ)) :
    (V3.sum (List.zipWith f l l')).z = (List.zipWith (fun p q => (f p q).z) l l').sum := by
  rw [V3.sum_z, List.map_zipWith]

theorem sumEdges_cycle (f : V3 ℝ → V3 ℝ → ℝ) (w : List (V3 ℝ)) :
    sumEdges (fun e => f e.1 e.2) (cycleEdges w) = (List.zipWith f w (w.rotate 1)).sum := by
  rw [cycleEdges_eq]; simp only [sumEdges, List.map_zip_eq_zipWith]; rfl

/-- components of the area vector as cyclic edge sums -/
theorem areaVector_x (vs : List (V3 ℝ)) :
    2 * (Spec3.areaVector vs).x = sumEdges (fun e => (V3.cross e.1 e.2).x) (cycleEdges vs) := by
  rw [sumEdges_cycle (fun p q => (V3.cross p q).x)]
  unfold Spec3.areaVector
  rw [V3.sdiv_x, V3.sum_zipWith_x, cyc_eq_rotate]
  simp only [Scalar.lit, Scalar.ofNat_real]; push_cast; ring
theorem areaVector_y (vs : List (V3 ℝ)) :
    2 * (Spec3.areaVector vs).y = sumEdges (fun e => (V3.cross e.1 e.2).y) (cycleEdges vs) := by
  rw [sumEdges_cycle (fun p q => (V3.cross p q).y)]
  unfold Spec3.areaVector
  rw [V3.sdiv_y, V3.sum_zipWith_y, cyc_eq_rotate]
  simp only [Scalar.lit, Scalar.ofNat_real]; push_cast; ring
theorem areaVector_z (vs : List (V3 ℝ)) :
    2 * (Spec3.areaVector vs).z = sumEdges (fun e => (V3.cross e.1 e.2).z) (cycleEdges vs) := by
  rw [sumEdges_cycle (fun p q => (V3.cross p q).z)]
  unfold Spec3.areaVector
  rw [V3.sdiv_z, V3.sum_zipWith_z, cyc_eq_rotate]
  simp only [Scalar.lit, Scalar.ofNat_real]; push_cast; ring

theorem areaVector_get (vs : List (V3 ℝ)) (k : Nat) (hk : k < 3) :
    2 * (Spec3.areaVector vs).get k = sumEdges (fun e => (V3.cross e.1 e.2).get k) (cycleEdges vs) := by
  cases3 k
  · simpa using areaVector_x vs
  · simpa using areaVector_y vs
  · simpa using areaVector_z vs

/-- `n · areaVector` as a cyclic edge sum -/
theorem dot_areaVector (n : V3 ℝ) (vs : List (V3 ℝ)) :
    V3.dot n (Spec3.areaVector vs)
      = sumEdges (fun e => V3.dot n (V3.cross e.1 e.2) / 2) (cycleEdges vs) := by
  have hx := areaVector_x vs; have hy := areaVector_y vs; have hz := areaVector_z vs
  have := sumEdges_lin3 (n.x / 2) (n.y / 2) (n.z / 2) (fun e => (V3.cross e.1 e.2).x)
    (fun e => (V3.cross e.1 e.2).y) (fun e => (V3.cross e.1 e.2).z) (cycleEdges vs)
  have e : (fun e : Edge => V3.dot n (V3.cross e.1 e.2) / 2)
      = (fun e => n.x / 2 * (V3.cross e.1 e.2).x + n.y / 2 * (V3.cross e.1 e.2).y
          + n.z / 2 * (V3.cross e.1 e.2).z) := by
    funext e; simp only [V3.dot]; ring
  rw [e, this, ← hx, ← hy, ← hz]; simp only [V3.dot]; ring

/-! ### planar cycle ⇒ area vector ∥ normal -/

/-- BAC–CAB in the form needed: for `n·p = n·q = d`, `n × (p × q) = d (p − q)` -/
theorem cross_cross_planar (n p q : V3 ℝ) (d : ℝ) (hp : V3.dot n p = d) (hq : V3.dot n q = d) :
    V3.cross n (V3.cross p q) = V3.smul d (p - q) := by
  obtain ⟨nx, ny, nz⟩ := n; obtain ⟨px, py, pz⟩ := p; obtain ⟨qx, qy, qz⟩ := q
  simp only [V3.dot] at hp hq
  ext <;> simp only [V3.cross, V3.smul_x, V3.smul_y, V3.smul_z, V3.sub_x, V3.sub_y, V3.sub_z]
  · linear_combination px * hq - qx * hp
  · linear_combination py * hq - qy * hp
  · linear_combination pz * hq - qz * hp

/-- the area vector of a closed cycle lying in the plane `n · v = d` satisfies `n × A = 0` -/
theorem cross_areaVector_planar (n : V3 ℝ) (d : ℝ) (vs : List (V3 ℝ))
    (hpl : ∀ v ∈ vs, V3.dot n v = d) : V3.cross n (Spec3.areaVector vs) = ⟨0, 0, 0⟩ := by
  have hx := areaVector_x vs; have hy := areaVector_y vs; have hz := areaVector_z vs
  have key : ∀ (c : V3 ℝ → ℝ),
      sumEdges (fun e => d * (c e.1 - c e.2)) (cycleEdges vs) = 0 := by
    intro c
    have := sumEdges_lin d 0 (fun e => c e.1 - c e.2) (fun _ => 0) (cycleEdges vs)
    simp only [zero_mul, add_zero] at this
    rw [this, sumEdges_telescope]; ring
  have hcomp : ∀ e ∈ cycleEdges vs, V3.cross n (V3.cross e.1 e.2) = V3.smul d (e.1 - e.2) := by
    intro e he
    obtain ⟨h1, h2⟩ := mem_cycleEdges he
    exact cross_cross_planar n e.1 e.2 d (hpl _ h1) (hpl _ h2)
  have lx := sumEdges_lin n.y (-n.z) (fun e => (V3.cross e.1 e.2).z) (fun e => (V3.cross e.1 e.2).y)
    (cycleEdges vs)
  have ly := sumEdges_lin n.z (-n.x) (fun e => (V3.cross e.1 e.2).x) (fun e => (V3.cross e.1 e.2).z)
    (cycleEdges vs)
  have lz := sumEdges_lin n.x (-n.y) (fun e => (V3.cross e.1 e.2).y) (fun e => (V3.cross e.1 e.2).x)
    (cycleEdges vs)
  have cx : sumEdges (fun e => n.y * (V3.cross e.1 e.2).z + -n.z * (V3.cross e.1 e.2).y) (cycleEdges vs) = 0 := by
    rw [← key (·.x)]
    apply sumEdges_congr
    intro e he
    have := congrArg V3.x (hcomp e he)
    simp only [V3.cross, V3.smul_x, V3.sub_x] at this ⊢
    linarith
  have cy : sumEdges (fun e => n.z * (V3.cross e.1 e.2).x + -n.x * (V3.cross e.1 e.2).z) (cycleEdges vs) = 0 := by
    rw [← key (·.y)]
    apply sumEdges_congr
    intro e he
    have := congrArg V3.y (hcomp e he)
    simp only [V3.cross, V3.smul_y, V3.sub_y] at this ⊢
    linarith
  have cz : sumEdges (fun e => n.x * (V3.cross e.1 e.2).y + -n.y * (V3.cross e.1 e.2).x) (cycleEdges vs) = 0 := by
    rw [← key (·.z)]
    apply sumEdges_congr
    intro e he
    have := congrArg V3.z (hcomp e he)
    simp only [V3.cross, V3.smul_z, V3.sub_z] at this ⊢
    linarith
  rw [lx] at cx; rw [ly] at cy; rw [lz] at cz
  rw [← hx, ← hy, ← hz] at *
  ext <;> simp only [V3.cross] <;> linarith

/-- for a unit normal: `A = (n · A) n` -/
theorem areaVector_parallel (n : V3 ℝ) (d : ℝ) (vs : List (V3 ℝ))
    (hpl : ∀ v ∈ vs, V3.dot n v = d) (hn : V3.normSq n = 1) :
    Spec3.areaVector vs = V3.smul (V3.dot n (Spec3.areaVector vs)) n := by
  have h := cross_areaVector_planar n d vs hpl
  generalize Spec3.areaVector vs = A at h ⊢
  obtain ⟨nx, ny, nz⟩ := n; obtain ⟨ax, ay, az⟩ := A
  simp only [V3.cross, V3.mk.injEq] at h
  obtain ⟨h1, h2, h3⟩ := h
  simp only [V3.normSq, V3.dot] at hn
  ext <;> simp only [V3.smul_x, V3.smul_y, V3.smul_z, V3.dot]
  · linear_combination (-ax) * hn - ny * h3 + nz * h2
  · linear_combination (-ay) * hn - nz * h1 + nx * h3
  · linear_combination (-az) * hn - nx * h2 + ny * h1

/-! ### the projection shoelace along axis `k` is the `k`-th component of `2 A` -/

theorem cross_get (a b : V3 ℝ) (k : Nat) (hk : k < 3) :
    (V3.cross a b).get k
      = a.get ((k + 1) % 3) * b.get ((k + 2) % 3) - b.get ((k + 1) % 3) * a.get ((k + 2) % 3) := by
  cases3 k <;> simp [V3.cross, V3.get] <;> ring

theorem sum_zip3_split_gen (g h : V3 ℝ → ℝ) (l v1 v2 : List (V3 ℝ)) (h1 : v1.length = l.length)
    (h2 : v2.length = l.length) :
    (List.zipWith (fun (ab : V3 ℝ × V3 ℝ) c => g ab.2 * (h c - h ab.1)) (l.zip v1) v2).sum
      = (List.zipWith (fun p q => g p * h q) v1 v2).sum
        - (List.zipWith (fun p q => g q * h p) l v1).sum := by
  induction l generalizing v1 v2 with
  | nil =>
    have : v1 = [] := List.length_eq_zero_iff.mp (by simpa using h1)
    subst this
    simp only [List.zip_nil_left, List.zipWith_nil_left, List.sum_nil, sub_self]
  | cons a t ih =>
    match v1, v2, h1, h2 with
    | b :: t1, c :: t2, h1, h2 =>
      simp only [List.zip_cons_cons, List.zipWith_cons_cons, List.sum_cons]
      rw [ih t1 t2 (by simpa using h1) (by simpa using h2)]
      ring

theorem sum_zipWith_sub2 (f f' : V3 ℝ → V3 ℝ → ℝ) (l v1 : List (V3 ℝ)) :
    (List.zipWith f l v1).sum - (List.zipWith f' l v1).sum
      = (List.zipWith (fun p q => f p q - f' p q) l v1).sum := by
  induction l generalizing v1 with
  | nil => simp
  | cons a t ih =>
    match v1 with
    | [] => simp
    | b :: t1 =>
      have := ih t1
      simp only [List.zipWith_cons_cons, List.sum_cons] at this ⊢
      linarith

/-- `Σ g(v_{i+1}) (h(v_{i+2}) − h(v_i)) = Σ (g(v_i) h(v_{i+1}) − g(v_{i+1}) h(v_i))` round the cycle -/
theorem shoelace_reindex_gen (g h : V3 ℝ → ℝ) (vs : List (V3 ℝ)) :
    (List.zipWith (fun (ab : V3 ℝ × V3 ℝ) c => g ab.2 * (h c - h ab.1))
        (vs.zip (Poly2.rotl 1 vs)) (Poly2.rotl 2 vs)).sum
      = sumEdges (fun e => g e.1 * h e.2 - g e.2 * h e.1) (cycleEdges vs) := by
  rw [sumEdges_cycle (fun p q => g p * h q - g q * h p)]
  simp only [rotl_eq_rotate]
  rw [sum_zip3_split_gen g h vs _ _ (List.length_rotate _ _) (List.length_rotate _ _),
    sum_zipWith_rotate (fun p q => g p * h q) vs, sum_zipWith_sub2]

/-! ### `argmax3` and the rescaling factor -/

theorem argmax3_lt (a b c : ℝ) : Poly2.argmax3 a b c < 3 := by
  unfold Poly2.argmax3; split_ifs <;> omega

/-- the component selected by `np.argmax(|n|)` of a non-zero vector is non-zero -/
theorem argmax3_get_ne_zero (n : V3 ℝ) (hn : V3.normSq n ≠ 0) :
    n.get (Poly2.argmax3 |n.x| |n.y| |n.z|) ≠ 0 := by
  obtain ⟨nx, ny, nz⟩ := n
  simp only [V3.normSq, V3.dot] at hn
  intro h0
  apply hn
  have hx := abs_nonneg nx; have hy := abs_nonneg ny; have hz := abs_nonneg nz
  unfold Poly2.argmax3 at h0
  split_ifs at h0 with h1 h2 h2 <;> simp only [V3.get_zero, V3.get_one, V3.get_two] at h0
  · rw [h0, abs_zero] at h2; linarith
  · rw [h0, abs_zero] at h1; linarith
  · rw [h0, abs_zero] at h2; linarith
  · rw [h0, abs_zero] at h1 h2
    have e1 : ny = 0 := abs_eq_zero.mp (le_antisymm (not_lt.mp h1) hy)
    have e2 : nz = 0 := abs_eq_zero.mp (le_antisymm (not_lt.mp h2) hz)
    rw [h0, e1, e2]; ring

theorem norm_abs (n : V3 ℝ) : V3.norm (⟨|n.x|, |n.y|, |n.z|⟩ : V3 ℝ) = V3.norm n := by
  unfold V3.norm V3.normSq V3.dot
  simp only [abs_mul_abs_self]

theorem normSq_of_norm_one {n : V3 ℝ} (hn : V3.norm n = 1) : V3.normSq n = 1 := by
  unfold V3.norm at hn
  simp only [Scalar.sqrt_real] at hn
  exact (Real.sqrt_eq_one).mp hn

/-- **projection formula**: `Poly2.signedArea vs n = n · areaVector vs` for a cycle in the plane
`n · v = d`, `‖n‖ = 1`. -/
theorem signedArea_eq_dot_areaVector (vs : List (V3 ℝ)) (n : V3 ℝ) (d : ℝ)
    (hpl : ∀ v ∈ vs, V3.dot n v = d) (hn : V3.norm n = 1) :
    Poly2.signedArea vs n = V3.dot n (Spec3.areaVector vs) := by
  have hn2 := normSq_of_norm_one hn
  have hk := argmax3_lt |n.x| |n.y| |n.z|
  have hne := argmax3_get_ne_zero n (by rw [hn2]; norm_num)
  have hpar := areaVector_parallel n d vs hpl hn2
  unfold Poly2.signedArea
  simp only [Scalar.sum_real, Scalar.abs_real, norm_abs, hn]
  generalize Poly2.argmax3 |n.x| |n.y| |n.z| = k at hk hne
  rw [shoelace_reindex_gen (fun v => v.get ((k + 1) % 3)) (fun v => v.get ((k + 2) % 3)) vs]
  have : (fun e : Edge => e.1.get ((k + 1) % 3) * e.2.get ((k + 2) % 3)
        - e.2.get ((k + 1) % 3) * e.1.get ((k + 2) % 3))
      = fun e => (V3.cross e.1 e.2).get k := by
    funext e; rw [cross_get _ _ k hk]
  rw [this, ← areaVector_get vs k hk]
  have hg : (Spec3.areaVector vs).get k = V3.dot n (Spec3.areaVector vs) * n.get k := by
    conv_lhs => rw [hpar]
    cases3 k <;> simp
  rw [hg]
  simp only [Scalar.lit, Scalar.ofNat_real]; push_cast
  field_simp

end
