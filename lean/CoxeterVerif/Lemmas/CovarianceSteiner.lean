import CoxeterVerif.Lemmas.CovarianceSim
import CoxeterVerif.Model.Steiner
/-!
  Helper lemmas for C09, part 11: the Steiner / curvature quantities of C11 (`Model/Steiner.lean`, imported
  unchanged) under a proper similarity `g : x ↦ k R x + t`.

  The image of what the curvature code reads from a `ConvexPolyhedron` (`Steiner.simCore`): vertices moved,
  unit normals rotated, face intersections (combinatorial) unchanged, volume × k³, area × k².  Then every
  loop item `(L, φ)` becomes `(k L, φ)` (dihedral angles are invariant, edge lengths scale), hence
  mean curvature × k, spheropolyhedron volume × k³ and surface area × k² (rounding radius × k), and the
  dimensionless descriptors `tau`, `asphericity`, `iq` are invariant; same error on the same input.
-/
open Scalar Steiner
set_option maxRecDepth 4000
noncomputable section

namespace Steiner

/-- image of the data the curvature code reads -/
def simCore (g : Sim) (c : Core ℝ) : Core ℝ :=
  ⟨c.vertices.map g.pt, c.normals.map g.dir, c.fi, g.k ^ 3 * c.volume, g.k ^ 2 * c.area⟩

/-- image of the loop data `[(L, φ)]` -/
def simEdges (k : ℝ) (es : List (ℝ × ℝ)) : List (ℝ × ℝ) := es.map fun e => (k * e.1, e.2)

/-- image of a result of type `Except String β` -/
def mapOk {β γ : Type} (f : β → γ) : Except String β → Except String γ
  | .ok b => .ok (f b)
  | .error e => .error e

variable {g : Sim} (hg : g.Proper)
include hg

theorem dihedralAngle_sim (n1 n2 : V3 ℝ) : CP.dihedralAngle (g.dir n1) (g.dir n2) = CP.dihedralAngle n1 n2 := by
  unfold CP.dihedralAngle
  have : V3.dot (-(g.dir n1)) (g.dir n2) = V3.dot (-n1) n2 := by
    have := Sim.dir_dot hg n1 n2
    unfold V3.dot at this ⊢
    simp only [V3.neg_x, V3.neg_y, V3.neg_z]
    linarith
  rw [this]

theorem getDihedral_sim (normals : List (V3 ℝ)) (nb : List (List Nat)) (a b : Nat) :
    CP.getDihedral (normals.map g.dir) nb a b = CP.getDihedral normals nb a b := by
  unfold CP.getDihedral
  cases nb[a]? with
  | none => rfl
  | some na =>
    simp only
    split_ifs
    · rfl
    · simp only [List.getElem?_map]
      cases normals[a]? <;> cases normals[b]? <;> simp [dihedralAngle_sim hg]

theorem edgeLength_sim (vertices : List (V3 ℝ)) (e0 e1 : Nat) :
    CP.edgeLength (vertices.map g.pt) e0 e1 = mapOk (g.k * ·) (CP.edgeLength vertices e0 e1) := by
  unfold CP.edgeLength
  simp only [List.getElem?_map]
  cases vertices[e0]? <;> cases vertices[e1]? <;>
    first
      | rfl
      | simp [mapOk, Sim.dist hg, pure, Except.pure]

theorem edgeTerm_sim (c : Core ℝ) (nb : List (List Nat)) (f : FaceIx) :
    CP.edgeTerm (simCore g c) nb f = mapOk (fun e => (g.k * e.1, e.2)) (CP.edgeTerm c nb f) := by
  unfold CP.edgeTerm simCore
  simp only [getDihedral_sim hg, edgeLength_sim hg]
  cases CP.getDihedral c.normals nb f.i f.j with
  | error e => rfl
  | ok phi =>
    cases CP.edgeLength c.vertices f.e0 f.e1 with
    | error e => rfl
    | ok len => rfl

theorem mapM_sim (c : Core ℝ) (nb : List (List Nat)) (fi : List FaceIx) :
    fi.mapM (CP.edgeTerm (simCore g c) nb) = mapOk (simEdges g.k) (fi.mapM (CP.edgeTerm c nb)) := by
  induction fi with
  | nil => rfl
  | cons f fi ih =>
    simp only [List.mapM_cons, edgeTerm_sim hg, ih]
    cases CP.edgeTerm c nb f with
    | error e => rfl
    | ok e0 =>
      cases fi.mapM (CP.edgeTerm c nb) with
      | error e => rfl
      | ok es => rfl

/-- **the loop data of `mean_curvature` / `volume` / `surface_area`**: same error, or every edge length × k
with the same dihedral angle -/
theorem edgeTerms_sim (c : Core ℝ) :
    CP.edgeTerms (simCore g c) = mapOk (simEdges g.k) (CP.edgeTerms c) := by
  unfold CP.edgeTerms
  have : (simCore g c).normals.length = c.normals.length := by simp [simCore]
  rw [this]
  exact mapM_sim hg c _ c.fi

omit hg in
theorem foldl_lin (k : ℝ) (F G : ℝ × ℝ → ℝ) (h : ∀ e, F (k * e.1, e.2) = k * G e) (es : List (ℝ × ℝ)) (a : ℝ) :
    (simEdges k es).foldl (fun acc e => acc + F e) (k * a) = k * es.foldl (fun acc e => acc + G e) a := by
  unfold simEdges
  induction es generalizing a with
  | nil => rfl
  | cons e es ih =>
    simp only [List.map_cons, List.foldl_cons, h]
    rw [← mul_add]; exact ih _

omit hg in
theorem foldl_lin' (k c : ℝ) (F G : ℝ × ℝ → ℝ) (h : ∀ e, F (k * e.1, e.2) = c * G e) (es : List (ℝ × ℝ)) (a : ℝ) :
    (simEdges k es).foldl (fun acc e => acc + F e) (c * a) = c * es.foldl (fun acc e => acc + G e) a := by
  unfold simEdges
  induction es generalizing a with
  | nil => rfl
  | cons e es ih =>
    simp only [List.map_cons, List.foldl_cons, h]
    rw [← mul_add]; exact ih _

omit hg in
/-- **mean curvature × k** -/
theorem meanCurvatureOf_sim (k : ℝ) (es : List (ℝ × ℝ)) :
    CP.meanCurvatureOf (simEdges k es) = k * CP.meanCurvatureOf es := by
  unfold CP.meanCurvatureOf
  have := foldl_lin k (fun e => e.1 * (pi - e.2)) (fun e => e.1 * (pi - e.2)) (fun e => by simp only []; ring) es 0
  simp only [Scalar.lit, Scalar.ofNat_real, Nat.cast_zero, mul_zero] at this ⊢
  rw [this]; ring

omit hg in
/-- **spheropolyhedron volume × k³** (core volume × k³, core area × k², radius × k) -/
theorem sphero_volumeOf_sim (k V A r : ℝ) (es : List (ℝ × ℝ)) :
    SpheroPolyhedron.volumeOf (k ^ 3 * V) (k ^ 2 * A) (k * r) (simEdges k es)
      = k ^ 3 * SpheroPolyhedron.volumeOf V A r es := by
  unfold SpheroPolyhedron.volumeOf
  have := foldl_lin' k (k ^ 3) (fun e => (pi * sqr (k * r)) * ((pi - e.2) / (lit 2 * pi)) * e.1)
    (fun e => (pi * sqr r) * ((pi - e.2) / (lit 2 * pi)) * e.1)
    (fun e => by simp only [Scalar.sqr]; ring) es 0
  simp only [Scalar.lit, Scalar.ofNat_real, Nat.cast_zero, mul_zero] at this ⊢
  rw [this]
  simp only [Scalar.cube, Scalar.q]; ring

omit hg in
/-- **spheropolyhedron surface area × k²** -/
theorem sphero_surfaceAreaOf_sim (k A r : ℝ) (es : List (ℝ × ℝ)) :
    SpheroPolyhedron.surfaceAreaOf (k ^ 2 * A) (k * r) (simEdges k es)
      = k ^ 2 * SpheroPolyhedron.surfaceAreaOf A r es := by
  unfold SpheroPolyhedron.surfaceAreaOf
  have := foldl_lin' k (k ^ 2) (fun e => (lit 2 * pi * (k * r)) * ((pi - e.2) / (lit 2 * pi)) * e.1)
    (fun e => (lit 2 * pi * r) * ((pi - e.2) / (lit 2 * pi)) * e.1)
    (fun e => by simp only []; ring) es 0
  simp only [Scalar.lit, Scalar.ofNat_real, Nat.cast_zero, mul_zero] at this ⊢
  rw [this]
  simp only [Scalar.sqr]; ring

omit hg in
theorem sphero_meanCurvatureOf_sim (k r : ℝ) (es : List (ℝ × ℝ)) :
    SpheroPolyhedron.meanCurvatureOf (k * r) (simEdges k es) = k * SpheroPolyhedron.meanCurvatureOf r es := by
  unfold SpheroPolyhedron.meanCurvatureOf
  rw [meanCurvatureOf_sim]; ring

omit hg in
/-- **dimensionless descriptors are invariant** (`k ≠ 0`) -/
theorem descriptors_sim {k : ℝ} (hk : k ≠ 0) (mc A V P : ℝ) :
    CP.tauOf (k * mc) (k ^ 2 * A) = CP.tauOf mc A ∧
    CP.asphericityOf (k * mc) (k ^ 2 * A) (k ^ 3 * V) = CP.asphericityOf mc A V ∧
    Shape3D.iq (k ^ 3 * V) (k ^ 2 * A) = Shape3D.iq V A ∧
    Shape2D.iq (k ^ 2 * A) (k * P) = Shape2D.iq A P := by
  refine ⟨?_, ?_, ?_, ?_⟩
  · unfold CP.tauOf
    by_cases hA : A = 0
    · subst hA; simp
    · field_simp
  · unfold CP.asphericityOf
    by_cases hV : V = 0
    · subst hV; simp
    · simp only [Scalar.lit, Scalar.ofNat_real]; field_simp
  · unfold Shape3D.iq
    simp only [Scalar.sqr, Scalar.cube]
    by_cases hA : A = 0
    · subst hA; simp
    · field_simp
  · unfold Shape2D.iq
    simp only [Scalar.sqr]
    by_cases hP : P = 0
    · subst hP; simp
    · field_simp

/-- **`ConvexPolyhedron.mean_curvature`, end to end** -/
theorem meanCurvature_sim (c : Core ℝ) :
    CP.meanCurvature (simCore g c) = mapOk (g.k * ·) (CP.meanCurvature c) := by
  unfold CP.meanCurvature
  rw [edgeTerms_sim hg]
  cases CP.edgeTerms c with
  | error e => rfl
  | ok es =>
    show Except.ok (CP.meanCurvatureOf (simEdges g.k es)) = Except.ok (g.k * CP.meanCurvatureOf es)
    rw [meanCurvatureOf_sim]

/-- **`ConvexSpheropolyhedron.volume / surface_area / mean_curvature`, end to end** (radius × k) -/
theorem sphero_sim (c : Core ℝ) (r : ℝ) :
    SpheroPolyhedron.volume (simCore g c) (g.k * r) = mapOk (g.k ^ 3 * ·) (SpheroPolyhedron.volume c r) ∧
    SpheroPolyhedron.surfaceArea (simCore g c) (g.k * r) = mapOk (g.k ^ 2 * ·) (SpheroPolyhedron.surfaceArea c r) ∧
    SpheroPolyhedron.meanCurvature (simCore g c) (g.k * r) = mapOk (g.k * ·) (SpheroPolyhedron.meanCurvature c r) := by
  unfold SpheroPolyhedron.volume SpheroPolyhedron.surfaceArea SpheroPolyhedron.meanCurvature
  rw [edgeTerms_sim hg]
  cases CP.edgeTerms c with
  | error e => exact ⟨rfl, rfl, rfl⟩
  | ok es =>
    refine ⟨?_, ?_, ?_⟩
    · show Except.ok (SpheroPolyhedron.volumeOf (g.k ^ 3 * c.volume) (g.k ^ 2 * c.area) (g.k * r) (simEdges g.k es)) = _
      rw [sphero_volumeOf_sim]; rfl
    · show Except.ok (SpheroPolyhedron.surfaceAreaOf (g.k ^ 2 * c.area) (g.k * r) (simEdges g.k es)) = _
      rw [sphero_surfaceAreaOf_sim]; rfl
    · show Except.ok (SpheroPolyhedron.meanCurvatureOf (g.k * r) (simEdges g.k es)) = _
      rw [sphero_meanCurvatureOf_sim]; rfl

omit hg in
theorem zsum_mul {β γ : Type} (k : ℝ) (f : β → γ → ℝ) (l : List β) (l' : List γ) :
    (List.zipWith (fun a b => k * f a b) l l').sum = k * (List.zipWith f l l').sum := by
  induction l generalizing l' with
  | nil => simp
  | cons a l ih =>
    cases l' with
    | nil => simp
    | cons b l' => simp only [List.zipWith_cons_cons, List.sum_cons, ih l']; ring

omit hg in
theorem roll_map' {β γ : Type} (f : β → γ) (l : List β) : roll (l.map f) = (roll l).map f := by
  cases l <;> simp [roll]

/-- **spheropolygon**: perimeter × k, edge-length sum × k, signed area / area × k² (polygon area × k²,
radius × k) -/
theorem spheropolygon_sim (vs : List (V3 ℝ)) (polyArea r : ℝ) :
    SpheroPolygon.perimeter (vs.map g.pt) (g.k * r) = g.k * SpheroPolygon.perimeter vs r ∧
    SpheroPolygon.signedArea (vs.map g.pt) (g.k ^ 2 * polyArea) (g.k * r)
      = g.k ^ 2 * SpheroPolygon.signedArea vs polyArea r ∧
    SpheroPolygon.area (vs.map g.pt) (g.k ^ 2 * polyArea) (g.k * r) = g.k ^ 2 * SpheroPolygon.area vs polyArea r := by
  have hper : Polygon.perimeter (vs.map g.pt) = g.k * Polygon.perimeter vs := by
    unfold Polygon.perimeter
    simp only [Scalar.sum_real, roll_map', List.zipWith_map_left, List.zipWith_map_right, Sim.dist hg]
    exact zsum_mul _ _ _ _
  have hels : SpheroPolygon.edgeLengthSum (vs.map g.pt) = g.k * SpheroPolygon.edgeLengthSum vs := by
    unfold SpheroPolygon.edgeLengthSum
    simp only [Scalar.sum_real, roll_map', List.zipWith_map_left, List.zipWith_map_right, Sim.dist hg]
    exact zsum_mul _ _ _ _
  have hsa : SpheroPolygon.signedArea (vs.map g.pt) (g.k ^ 2 * polyArea) (g.k * r)
      = g.k ^ 2 * SpheroPolygon.signedArea vs polyArea r := by
    unfold SpheroPolygon.signedArea
    simp only [hels, Scalar.lit, Scalar.ofNat_real, Nat.cast_zero]
    by_cases h : polyArea < 0
    · rw [if_pos h, if_pos ((pos_mul_lt_zero (pow_pos hg.kpos 2) polyArea).mpr h)]; ring
    · rw [if_neg h, if_neg (fun h' => h ((pos_mul_lt_zero (pow_pos hg.kpos 2) polyArea).mp h'))]; ring
  refine ⟨?_, hsa, ?_⟩
  · unfold SpheroPolygon.perimeter; rw [hper]; ring
  · unfold SpheroPolygon.area
    rw [hsa, Scalar.abs_real, Scalar.abs_real, abs_mul, abs_of_pos (pow_pos hg.kpos 2)]

end Steiner

end
