import CoxeterVerif.Lemmas.Heap
import CoxeterVerif.Model.SettersHeap
/-!
  C08 — a setter on one shape never changes another shape or an array of the caller
  (`Model/SettersHeap.lean`): the frame of `applyEffs`, isolation of a `step`, persistence of the
  separation invariant.
-/
namespace SettersHeap
open C16 (Heap)
variable {α : Type}

@[simp] theorem applyEffs_cons_cons (h : Heap α) (next a : Addr) (as : List Addr) (e : Eff α) (es : List (Eff α)) :
    applyEffs h next (a :: as) (e :: es) =
      ((applyEffs (applyEff h next a e).1 (applyEff h next a e).2.1 as es).1,
       (applyEffs (applyEff h next a e).1 (applyEff h next a e).2.1 as es).2.1,
       (applyEff h next a e).2.2 :: (applyEffs (applyEff h next a e).1 (applyEff h next a e).2.1 as es).2.2) := rfl

@[simp] theorem applyEffs_nil_left (h : Heap α) (next : Addr) (es : List (Eff α)) :
    applyEffs h next [] es = (h, next, []) := by cases es <;> rfl

@[simp] theorem applyEffs_nil_right (h : Heap α) (next : Addr) (as : List Addr) :
    applyEffs h next as [] = (h, next, as) := by cases as <;> rfl

/-- one attribute: the free pointer does not decrease, the attribute's address is kept or fresh,
every other existing array is untouched -/
theorem applyEff_spec (h : Heap α) (next a : Addr) (e : Eff α) :
    next ≤ (applyEff h next a e).2.1 ∧
    ((applyEff h next a e).2.2 = a ∨ (next ≤ (applyEff h next a e).2.2 ∧ (applyEff h next a e).2.2 < (applyEff h next a e).2.1)) ∧
    ∀ x, x < next → x ≠ a → Heap.get (applyEff h next a e).1 x = Heap.get h x := by
  cases e with
  | keep => exact ⟨Nat.le_refl _, Or.inl rfl, fun _ _ _ => rfl⟩
  | inplace c =>
    refine ⟨Nat.le_refl _, Or.inl rfl, fun x _ hxa => ?_⟩
    exact C16.Heap.get_set_other h a x c hxa
  | rebind c =>
    refine ⟨Nat.le_succ _, Or.inr ⟨Nat.le_refl _, Nat.lt_succ_self _⟩, fun x hx _ => ?_⟩
    exact C16.Heap.get_set_other h next x c (Nat.ne_of_lt hx)

/-- **frame of a mutator**: the free pointer does not decrease; every attribute address afterwards
is an old attribute address of the same object or fresh; every existing array that is not an
attribute of this object is untouched -/
theorem applyEffs_spec (fields : List Addr) : ∀ (h : Heap α) (next : Addr) (effs : List (Eff α)),
    next ≤ (applyEffs h next fields effs).2.1 ∧
    (∀ b ∈ (applyEffs h next fields effs).2.2, b ∈ fields ∨ (next ≤ b ∧ b < (applyEffs h next fields effs).2.1)) ∧
    ∀ x, x < next → x ∉ fields → Heap.get (applyEffs h next fields effs).1 x = Heap.get h x := by
  induction fields with
  | nil =>
    intro h next effs
    rw [applyEffs_nil_left]
    exact ⟨Nat.le_refl _, fun b hb => absurd hb List.not_mem_nil, fun _ _ _ => rfl⟩
  | cons a as ih =>
    intro h next effs
    cases effs with
    | nil =>
      rw [applyEffs_nil_right]
      exact ⟨Nat.le_refl _, fun b hb => Or.inl hb, fun _ _ _ => rfl⟩
    | cons e es =>
      obtain ⟨h1, h2, h3⟩ := applyEff_spec h next a e
      obtain ⟨i1, i2, i3⟩ := ih (applyEff h next a e).1 (applyEff h next a e).2.1 es
      simp only [applyEffs_cons_cons]
      refine ⟨Nat.le_trans h1 i1, ?_, ?_⟩
      · intro b hb
        rcases List.mem_cons.mp hb with rfl | hb
        · rcases h2 with h2 | ⟨h2a, h2b⟩
          · left; rw [h2]; exact List.mem_cons_self
          · right; exact ⟨h2a, Nat.lt_of_lt_of_le h2b i1⟩
        · rcases i2 b hb with hmem | ⟨hlo, hhi⟩
          · left; exact List.mem_cons_of_mem _ hmem
          · right; exact ⟨Nat.le_trans h1 hlo, hhi⟩
      · intro x hx hxn
        have hxa : x ≠ a := fun hEq => hxn (hEq ▸ List.mem_cons_self)
        have hxas : x ∉ as := fun hm => hxn (List.mem_cons_of_mem _ hm)
        rw [i3 x (Nat.lt_of_lt_of_le hx h1) hxas, h3 x hx hxa]

/-- **separation**: no two shapes share an array, no shape shares an array with the caller
(`np.shares_memory` is `False` across objects), and every address in use is below the free pointer -/
structure Sep (w : World α) : Prop where
  objs_disjoint : ∀ (i j : Nat) (fi fj : List Addr), w.objs[i]? = some fi → w.objs[j]? = some fj → i ≠ j → ∀ a ∈ fi, a ∉ fj
  caller_disjoint : ∀ (i : Nat) (fi : List Addr), w.objs[i]? = some fi → ∀ a ∈ fi, a ∉ w.caller
  objs_lt : ∀ (i : Nat) (fi : List Addr), w.objs[i]? = some fi → ∀ a ∈ fi, a < w.next
  caller_lt : ∀ a ∈ w.caller, a < w.next

theorem step_objs_other (w : World α) (i : Nat) (effs : List (Eff α)) (j : Nat) (hj : j ≠ i) :
    (w.step i effs).objs[j]? = w.objs[j]? := by
  unfold World.step
  cases hfi : w.objs[i]? with
  | none => rfl
  | some fields => exact List.getElem?_set_ne (Ne.symm hj)

theorem step_caller (w : World α) (i : Nat) (effs : List (Eff α)) : (w.step i effs).caller = w.caller := by
  unfold World.step
  cases w.objs[i]? <;> rfl

/-- every existing array that does not belong to shape `i` survives a mutator of shape `i` -/
theorem step_get (w : World α) (i : Nat) (effs : List (Eff α)) (x : Addr) (hx : x < w.next)
    (hnot : ∀ fi, w.objs[i]? = some fi → x ∉ fi) :
    Heap.get (w.step i effs).heap x = Heap.get w.heap x := by
  unfold World.step
  cases hfi : w.objs[i]? with
  | none => rfl
  | some fields => exact (applyEffs_spec fields w.heap w.next effs).2.2 x hx (hnot fields hfi)

/-- **a setter on one shape never changes another shape or a caller array**: after any mutator of
shape `i`, every other shape `j` has the same array attributes (same addresses, same contents),
the caller owns the same arrays and they have the same contents -/
theorem step_isolated {w : World α} (hs : Sep w) (i : Nat) (effs : List (Eff α)) :
    (∀ j, j ≠ i → (w.step i effs).objs[j]? = w.objs[j]? ∧ (w.step i effs).view j = w.view j) ∧
    (w.step i effs).caller = w.caller ∧
    (∀ a ∈ w.caller, Heap.get (w.step i effs).heap a = Heap.get w.heap a) := by
  refine ⟨fun j hj => ⟨step_objs_other w i effs j hj, ?_⟩, step_caller w i effs, fun a ha => ?_⟩
  · unfold World.view
    rw [step_objs_other w i effs j hj]
    cases hfj : w.objs[j]? with
    | none => rfl
    | some fj =>
      show fj.map (Heap.get (w.step i effs).heap) = fj.map (Heap.get w.heap)
      apply List.map_congr_left
      intro a ha
      exact step_get w i effs a (hs.objs_lt j fj hfj a ha)
        (fun fi hfi => hs.objs_disjoint j i fj fi hfj hfi hj a ha)
  · exact step_get w i effs a (hs.caller_lt a ha)
      (fun fi hfi hmem => hs.caller_disjoint i fi hfi a hmem ha)

theorem step_next_le (w : World α) (i : Nat) (effs : List (Eff α)) : w.next ≤ (w.step i effs).next := by
  unfold World.step
  cases hfi : w.objs[i]? with
  | none => exact Nat.le_refl _
  | some fields => exact (applyEffs_spec fields w.heap w.next effs).1

/-- the attributes of the addressed shape afterwards: old ones of the same shape, or fresh -/
theorem step_objs_self (w : World α) (i : Nat) (effs : List (Eff α)) (fi : List Addr) (hfi : w.objs[i]? = some fi) :
    ∃ nf, (w.step i effs).objs[i]? = some nf ∧
      ∀ b ∈ nf, b ∈ fi ∨ (w.next ≤ b ∧ b < (w.step i effs).next) := by
  have hlen : i < w.objs.length := by
    rcases Nat.lt_or_ge i w.objs.length with h | h
    · exact h
    · rw [List.getElem?_eq_none h] at hfi; cases hfi
  unfold World.step
  rw [hfi]
  exact ⟨_, List.getElem?_set_self hlen, (applyEffs_spec fi w.heap w.next effs).2.1⟩

/-- **the separation persists** through every mutator (all re-bindings go to fresh arrays) -/
theorem step_sep {w : World α} (hs : Sep w) (i : Nat) (effs : List (Eff α)) : Sep (w.step i effs) := by
  have hn := step_next_le w i effs
  -- description of any shape's attributes afterwards
  have key : ∀ (j : Nat) (fj' : List Addr), (w.step i effs).objs[j]? = some fj' →
      ∃ fj, w.objs[j]? = some fj ∧ ∀ b ∈ fj', b ∈ fj ∨ (w.next ≤ b ∧ b < (w.step i effs).next) := by
    intro j fj' hj'
    by_cases hji : j = i
    · subst hji
      cases hfi : w.objs[j]? with
      | none =>
        have : (w.step j effs) = w := by unfold World.step; rw [hfi]
        rw [this, hfi] at hj'; cases hj'
      | some fi =>
        obtain ⟨nf, h1, h2⟩ := step_objs_self w j effs fi hfi
        rw [h1] at hj'; cases hj'
        exact ⟨fi, rfl, h2⟩
    · rw [step_objs_other w i effs j hji] at hj'
      exact ⟨fj', hj', fun b hb => Or.inl hb⟩
  constructor
  · intro j1 j2 f1 f2 h1 h2 hne a ha1 ha2
    obtain ⟨g1, hg1, k1⟩ := key j1 f1 h1
    obtain ⟨g2, hg2, k2⟩ := key j2 f2 h2
    rcases k1 a ha1 with m1 | ⟨lo1, _⟩ <;> rcases k2 a ha2 with m2 | ⟨lo2, _⟩
    · exact hs.objs_disjoint j1 j2 g1 g2 hg1 hg2 hne a m1 m2
    · exact absurd (hs.objs_lt j1 g1 hg1 a m1) (Nat.not_lt.mpr lo2)
    · exact absurd (hs.objs_lt j2 g2 hg2 a m2) (Nat.not_lt.mpr lo1)
    · -- both fresh: only the addressed shape gets fresh addresses, so j1 = j2 = i
      by_cases e1 : j1 = i
      · by_cases e2 : j2 = i
        · exact hne (e1.trans e2.symm)
        · rw [step_objs_other w i effs j2 e2] at h2
          exact absurd (hs.objs_lt j2 f2 h2 a ha2) (Nat.not_lt.mpr lo2)
      · rw [step_objs_other w i effs j1 e1] at h1
        exact absurd (hs.objs_lt j1 f1 h1 a ha1) (Nat.not_lt.mpr lo1)
  · intro j fj' hj' a ha hc
    rw [step_caller] at hc
    obtain ⟨g, hg, k⟩ := key j fj' hj'
    rcases k a ha with m | ⟨lo, _⟩
    · exact hs.caller_disjoint j g hg a m hc
    · exact absurd (hs.caller_lt a hc) (Nat.not_lt.mpr lo)
  · intro j fj' hj' a ha
    obtain ⟨g, hg, k⟩ := key j fj' hj'
    rcases k a ha with m | ⟨_, hi⟩
    · exact Nat.lt_of_lt_of_le (hs.objs_lt j g hg a m) hn
    · exact hi
  · intro a ha
    rw [step_caller] at ha
    exact Nat.lt_of_lt_of_le (hs.caller_lt a ha) hn

/-- the caller creating an array of its own keeps the separation -/
theorem callerAlloc_sep {w : World α} (hs : Sep w) (c : List α) : Sep (w.callerAlloc c) := by
  constructor
  · exact hs.objs_disjoint
  · intro i fi hfi a ha hc
    rcases List.mem_cons.mp hc with rfl | hc
    · exact absurd (hs.objs_lt i fi hfi _ ha) (Nat.lt_irrefl _)
    · exact hs.caller_disjoint i fi hfi a ha hc
  · intro i fi hfi a ha
    exact Nat.lt_succ_of_lt (hs.objs_lt i fi hfi a ha)
  · intro a ha
    rcases List.mem_cons.mp ha with rfl | ha
    · exact Nat.lt_succ_self _
    · exact Nat.lt_succ_of_lt (hs.caller_lt a ha)

/-- shapes keep their arrays when the caller allocates -/
theorem callerAlloc_view {w : World α} (hs : Sep w) (c : List α) (j : Nat) : (w.callerAlloc c).view j = w.view j := by
  unfold World.view World.callerAlloc
  cases hfj : w.objs[j]? with
  | none => rfl
  | some fj =>
    show fj.map (Heap.get (Heap.set w.heap w.next c)) = fj.map (Heap.get w.heap)
    apply List.map_congr_left
    intro a ha
    exact C16.Heap.get_set_other w.heap w.next a c (Nat.ne_of_lt (hs.objs_lt j fj hfj a ha))

/-- **any history** of mutators on any shapes, interleaved with caller allocations -/
inductive Ev (α : Type)
  | mutate (i : Nat) (effs : List (Eff α))
  | alloc (c : List α)

def run : World α → List (Ev α) → World α
  | w, [] => w
  | w, Ev.mutate i effs :: r => run (w.step i effs) r
  | w, .alloc c :: r => run (w.callerAlloc c) r

theorem run_sep {w : World α} (hs : Sep w) (evs : List (Ev α)) : Sep (run w evs) := by
  induction evs generalizing w with
  | nil => exact hs
  | cons e r ih =>
    cases e with
    | mutate i effs => exact ih (step_sep hs i effs)
    | alloc c => exact ih (callerAlloc_sep hs c)

/-- **a shape that no event of the history addresses is bit-identical afterwards**, whatever the
other shapes and the caller did in between -/
theorem run_untouched {w : World α} (hs : Sep w) (evs : List (Ev α)) (j : Nat)
    (hj : ∀ e ∈ evs, ∀ i effs, e = Ev.mutate i effs → i ≠ j) : (run w evs).view j = w.view j := by
  induction evs generalizing w with
  | nil => rfl
  | cons e r ih =>
    have hr : ∀ e' ∈ r, ∀ i effs, e' = Ev.mutate i effs → i ≠ j := fun e' he' => hj e' (List.mem_cons_of_mem _ he')
    cases e with
    | mutate i effs =>
      have hij : i ≠ j := hj _ List.mem_cons_self i effs rfl
      show (run (w.step i effs) r).view j = w.view j
      rw [ih (step_sep hs i effs) hr]
      exact ((step_isolated hs i effs).1 j (Ne.symm hij)).2
    | alloc c =>
      show (run (w.callerAlloc c) r).view j = w.view j
      rw [ih (callerAlloc_sep hs c) hr]
      exact callerAlloc_view hs c j

/-! ### the attributes of ONE shape never come to share a block -/

/-- a mutator keeps the attribute addresses of its object pairwise distinct: kept addresses were
distinct, re-bound attributes get consecutive fresh addresses -/
theorem applyEffs_nodup (fields : List Addr) : ∀ (h : Heap α) (next : Addr) (effs : List (Eff α)),
    fields.Nodup → (∀ a ∈ fields, a < next) → (applyEffs h next fields effs).2.2.Nodup := by
  induction fields with
  | nil => intro h next effs _ _; rw [applyEffs_nil_left]; exact List.nodup_nil
  | cons a as ih =>
    intro h next effs hnd hlt
    cases effs with
    | nil => rw [applyEffs_nil_right]; exact hnd
    | cons e es =>
      obtain ⟨h1, h2, _⟩ := applyEff_spec h next a e
      obtain ⟨_, i2, _⟩ := applyEffs_spec as (applyEff h next a e).1 (applyEff h next a e).2.1 es
      have hnd' := List.nodup_cons.mp hnd
      have hlt_as : ∀ b ∈ as, b < (applyEff h next a e).2.1 :=
        fun b hb => Nat.lt_of_lt_of_le (hlt b (List.mem_cons_of_mem _ hb)) h1
      simp only [applyEffs_cons_cons]
      refine List.nodup_cons.mpr ⟨?_, ih _ _ es hnd'.2 hlt_as⟩
      intro hmem
      rcases i2 _ hmem with hin | ⟨hlo, _⟩
      · -- the new address of `a` is an old address of the tail
        rcases h2 with h2 | ⟨h2a, _⟩
        · rw [h2] at hin; exact hnd'.1 hin
        · exact absurd (hlt _ (List.mem_cons_of_mem _ hin)) (Nat.not_lt.mpr h2a)
      · -- the new address of `a` is one of the tail's fresh addresses
        rcases h2 with h2 | ⟨_, h2b⟩
        · rw [h2] at hlo
          exact absurd (hlt a List.mem_cons_self) (Nat.not_lt.mpr (Nat.le_trans h1 hlo))
        · exact absurd h2b (Nat.not_lt.mpr hlo)

/-- every shape's array attributes are pairwise distinct blocks -/
def Distinct (w : World α) : Prop := ∀ (i : Nat) (fi : List Addr), w.objs[i]? = some fi → fi.Nodup

/-- **no setter makes two attributes of one shape share a block** -/
theorem step_distinct {w : World α} (hs : Sep w) (hd : Distinct w) (i : Nat) (effs : List (Eff α)) :
    Distinct (w.step i effs) := by
  intro j fj' hj'
  by_cases hji : j = i
  · subst hji
    cases hfi : w.objs[j]? with
    | none =>
      have : (w.step j effs) = w := by unfold World.step; rw [hfi]
      rw [this, hfi] at hj'; cases hj'
    | some fi =>
      have hlen : j < w.objs.length := by
        rcases Nat.lt_or_ge j w.objs.length with h | h
        · exact h
        · rw [List.getElem?_eq_none h] at hfi; cases hfi
      have hnew : (w.step j effs).objs[j]? = some (applyEffs w.heap w.next fi effs).2.2 := by
        unfold World.step; rw [hfi]; exact List.getElem?_set_self hlen
      rw [hnew] at hj'; cases hj'
      exact applyEffs_nodup fi w.heap w.next effs (hd j fi hfi) (hs.objs_lt j fi hfi)
  · rw [step_objs_other w i effs j hji] at hj'
    exact hd j fj' hj'

theorem run_distinct {w : World α} (hs : Sep w) (hd : Distinct w) (evs : List (Ev α)) : Distinct (run w evs) := by
  induction evs generalizing w with
  | nil => exact hd
  | cons e r ih =>
    cases e with
    | mutate i effs => exact ih (step_sep hs i effs) (step_distinct hs hd i effs)
    | alloc c => exact ih (callerAlloc_sep hs c) hd


end SettersHeap
