import CoxeterVerif.Lemmas.Basic
import CoxeterVerif.Model.Constructors
import Mathlib.Data.List.Sort
import Mathlib.Data.List.Rotate
import Mathlib.Tactic.Tauto
/-!
  Helper lemmas for C15 (constructors): the segment predicates at ℝ, list lemmas about the edges of a closed
  cycle (rotation / reversal are permutations of the edge list), `allPairs` ↔ `List.Pairwise`, the insertion
  sort of `_reorder_verts` as `List.insertionSort`.
-/
open Scalar C15 C15.Spec
set_option maxRecDepth 4000
set_option linter.unusedSimpArgs false
noncomputable section

namespace C15

/-! ### the Bool tests at ℝ -/

theorem eqb_iff (a b : ℝ) : Scalar.eqb a b = true ↔ a = b := by
  simp [Scalar.eqb]

theorem eqb_comm (a b : ℝ) : Scalar.eqb a b = Scalar.eqb b a := by
  rw [Bool.eq_iff_iff, eqb_iff, eqb_iff, eq_comm]

@[simp] theorem lit_zero : (Scalar.lit 0 : ℝ) = 0 := by simp [Scalar.lit]
@[simp] theorem lit_one : (Scalar.lit 1 : ℝ) = 1 := by simp [Scalar.lit]
@[simp] theorem lit_two : (Scalar.lit 2 : ℝ) = 2 := by simp [Scalar.lit]

theorem between_iff (u v w : ℝ) :
    between u v w = true ↔ (u ≤ w ∧ w ≤ v) ∨ (v ≤ w ∧ w ≤ u) := by
  simp [between]

theorem between_comm (u v w : ℝ) : between u v w = between v u w := by
  rw [Bool.eq_iff_iff, between_iff, between_iff]; tauto

theorem between_self_left (u v : ℝ) : between u v u = true := by
  rw [between_iff]; rcases le_total u v with h | h
  · exact Or.inl ⟨le_refl _, h⟩
  · exact Or.inr ⟨h, le_refl _⟩

theorem orient_swap (a b c : P2 ℝ) : orient b a c = -orient a b c := by
  unfold orient; ring

theorem orient_self_right (a b : P2 ℝ) : orient a b a = 0 := by unfold orient; ring

theorem onSeg_iff (a b p : P2 ℝ) :
    onSeg a b p = true ↔ orient a b p = 0 ∧ ((a.x ≤ p.x ∧ p.x ≤ b.x) ∨ (b.x ≤ p.x ∧ p.x ≤ a.x))
      ∧ ((a.y ≤ p.y ∧ p.y ≤ b.y) ∨ (b.y ≤ p.y ∧ p.y ≤ a.y)) := by
  unfold onSeg
  rw [Bool.and_eq_true, Bool.and_eq_true, eqb_iff, between_iff, between_iff, lit_zero, and_assoc]

theorem onSeg_comm (a b p : P2 ℝ) : onSeg a b p = onSeg b a p := by
  rw [Bool.eq_iff_iff, onSeg_iff, onSeg_iff, orient_swap b a p, neg_eq_zero]; tauto

theorem onSeg_self_left (a b : P2 ℝ) : onSeg a b a = true := by
  rw [onSeg_iff]
  refine ⟨orient_self_right a b, ?_, ?_⟩
  · have := between_self_left a.x b.x; rwa [between_iff] at this
  · have := between_self_left a.y b.y; rwa [between_iff] at this

theorem oppositeSigns_iff (u v : ℝ) :
    oppositeSigns u v = true ↔ (0 < u ∧ v < 0) ∨ (u < 0 ∧ 0 < v) := by
  simp [oppositeSigns]

theorem oppositeSigns_comm (u v : ℝ) : oppositeSigns u v = oppositeSigns v u := by
  rw [Bool.eq_iff_iff, oppositeSigns_iff, oppositeSigns_iff]; tauto

theorem oppositeSigns_neg (u v : ℝ) : oppositeSigns (-u) (-v) = oppositeSigns u v := by
  rw [Bool.eq_iff_iff, oppositeSigns_iff, oppositeSigns_iff]
  simp only [Left.neg_pos_iff, Left.neg_neg_iff]; tauto

theorem segMeet_iff (a b c d : P2 ℝ) :
    segMeet a b c d = true ↔
      (oppositeSigns (orient a b c) (orient a b d) = true ∧ oppositeSigns (orient c d a) (orient c d b) = true)
        ∨ onSeg a b c = true ∨ onSeg a b d = true ∨ onSeg c d a = true ∨ onSeg c d b = true := by
  unfold segMeet
  simp only [Bool.or_eq_true, Bool.and_eq_true]
  tauto

/-- the predicate does not depend on which segment is named first -/
theorem segMeet_symm (a b c d : P2 ℝ) : segMeet a b c d = segMeet c d a b := by
  rw [Bool.eq_iff_iff, segMeet_iff, segMeet_iff]; tauto

/-- … nor on the direction of the first segment -/
theorem segMeet_flip (a b c d : P2 ℝ) : segMeet b a c d = segMeet a b c d := by
  rw [Bool.eq_iff_iff, segMeet_iff, segMeet_iff, orient_swap b a c, orient_swap b a d, oppositeSigns_neg,
    oppositeSigns_comm (orient c d b), onSeg_comm b a c, onSeg_comm b a d]
  tauto

/-- … nor on the direction of the second -/
theorem segMeet_flip' (a b c d : P2 ℝ) : segMeet a b d c = segMeet a b c d := by
  rw [segMeet_symm, segMeet_flip, segMeet_symm]

theorem ptEq_iff (p q : P2 ℝ) : ptEq p q = true ↔ p.x = q.x ∧ p.y = q.y := by
  unfold ptEq; rw [Bool.and_eq_true, eqb_iff, eqb_iff]

theorem ptEq_comm (p q : P2 ℝ) : ptEq p q = ptEq q p := by
  rw [Bool.eq_iff_iff, ptEq_iff, ptEq_iff]; constructor <;> rintro ⟨h1, h2⟩ <;> exact ⟨h1.symm, h2.symm⟩

theorem ptEq_eq (p q : P2 ℝ) : ptEq p q = true ↔ p = q := by
  rw [ptEq_iff]; cases p; cases q; simp

theorem foldBack_rev (a q d : P2 ℝ) : foldBack d q a = foldBack a q d := by
  unfold foldBack
  rw [onSeg_comm d q a, onSeg_comm q a d, Bool.or_comm]

/-- a degenerate "path" `a → b → a` always folds back -/
theorem foldBack_self (a b : P2 ℝ) : foldBack a b a = true := by
  unfold foldBack; rw [onSeg_self_left]; rfl

/-! ### `edgeOK` is symmetric and insensitive to the direction of traversal -/

theorem edgeOK_symm (e f : P2 ℝ × P2 ℝ) : edgeOK e f = edgeOK f e := by
  obtain ⟨a, b⟩ := e; obtain ⟨c, d⟩ := f
  unfold edgeOK
  simp only
  rw [ptEq_comm c a, ptEq_comm d b, segMeet_symm c d a b]
  cases h1 : ptEq b c <;> cases h2 : ptEq d a <;> simp

theorem edgeOK_swap (e f : P2 ℝ × P2 ℝ) : edgeOK e.swap f.swap = edgeOK e f := by
  obtain ⟨a, b⟩ := e; obtain ⟨c, d⟩ := f
  unfold edgeOK
  simp only [Prod.swap]
  rw [segMeet_flip, segMeet_flip', ptEq_comm a d, ptEq_comm c b]
  cases h1 : ptEq b c <;> cases h2 : ptEq d a
  · simp [Bool.or_comm]
  · have := (ptEq_eq d a).1 h2; subst this
    simp only [Bool.and_false, Bool.false_and, Bool.true_and, Bool.and_true, Bool.false_eq_true, if_true, if_false]
    rw [foldBack_rev]
  · have := (ptEq_eq b c).1 h1; subst this
    simp only [Bool.and_false, Bool.false_and, Bool.true_and, Bool.and_true, Bool.false_eq_true, if_true, if_false]
    rw [foldBack_rev]
  · simp

/-! ### edges of a closed cycle -/

section lists
variable {β : Type}

@[simp] theorem path_nil : path ([] : List β) = [] := rfl
@[simp] theorem path_single (a : β) : path [a] = [] := rfl
@[simp] theorem path_cons_cons (a b : β) (l : List β) : path (a :: b :: l) = (a, b) :: path (b :: l) := rfl

theorem path_append_two (u : List β) (x y : β) : path (u ++ [x, y]) = path (u ++ [x]) ++ [(x, y)] := by
  induction u with
  | nil => simp
  | cons a u ih =>
    cases u with
    | nil => simp
    | cons b u =>
      simp only [List.cons_append, path_cons_cons] at ih ⊢
      rw [ih]

theorem cycEdges_cons (a : β) (t : List β) : cycEdges (a :: t) = path (a :: (t ++ [a])) := rfl

/-- rotating the vertex list by one rotates the edge list by one -/
theorem cycEdges_rotate_one (a : β) (t : List β) :
    (cycEdges (t ++ [a])).Perm (cycEdges (a :: t)) := by
  cases t with
  | nil => exact List.Perm.refl _
  | cons b t =>
    have h1 : cycEdges ((b :: t) ++ [a]) = path ((b :: t) ++ [a]) ++ [(a, b)] := by
      have := path_append_two (b :: t) a b
      simp only [List.cons_append, List.nil_append] at this
      rw [List.cons_append, cycEdges_cons, List.append_assoc]
      exact this
    have h2 : cycEdges (a :: b :: t) = (a, b) :: path ((b :: t) ++ [a]) := by
      rw [cycEdges_cons]; simp
    rw [h1, h2]
    exact List.perm_append_singleton _ _

theorem cycEdges_rotate (l : List β) (k : Nat) : (cycEdges (l.rotate k)).Perm (cycEdges l) := by
  induction k generalizing l with
  | zero => simp
  | succ k ih =>
    cases l with
    | nil => simp
    | cons a t =>
      rw [List.rotate_cons_succ]
      exact (ih (t ++ [a])).trans (cycEdges_rotate_one a t)

theorem path_reverse (l : List β) : path l.reverse = ((path l).map Prod.swap).reverse := by
  induction l with
  | nil => simp
  | cons a l ih =>
    cases l with
    | nil => simp
    | cons b t =>
      have : (a :: b :: t).reverse = t.reverse ++ [b, a] := by simp
      rw [this, path_append_two]
      have h2 : t.reverse ++ [b] = (b :: t).reverse := by simp
      rw [h2, ih]
      simp

/-- reversing the vertex list reverses every edge (and permutes the edge list) -/
theorem cycEdges_reverse (l : List β) : (cycEdges l.reverse).Perm ((cycEdges l).map Prod.swap) := by
  cases l with
  | nil => exact List.Perm.refl _
  | cons a t =>
    have h1 : (a :: t).reverse = t.reverse ++ [a] := by simp
    rw [h1]
    refine (cycEdges_rotate_one a t.reverse).trans ?_
    have h2 : a :: (t.reverse ++ [a]) = (a :: (t ++ [a])).reverse := by simp
    rw [cycEdges_cons, h2, path_reverse, cycEdges_cons]
    exact List.reverse_perm _

theorem path_map {γ : Type} (f : β → γ) (l : List β) : path (l.map f) = (path l).map (Prod.map f f) := by
  induction l with
  | nil => simp
  | cons a l ih =>
    cases l with
    | nil => simp
    | cons b t =>
      simp only [List.map_cons, path_cons_cons] at ih ⊢
      rw [ih]; rfl

theorem cycEdges_map {γ : Type} (f : β → γ) (l : List β) :
    cycEdges (l.map f) = (cycEdges l).map (Prod.map f f) := by
  cases l with
  | nil => rfl
  | cons a t =>
    rw [List.map_cons, cycEdges_cons, cycEdges_cons, ← path_map]
    simp

theorem allPairs_iff (R : β → β → Bool) (l : List β) :
    allPairs R l = true ↔ l.Pairwise (fun x y => R x y = true) := by
  induction l with
  | nil => simp [allPairs]
  | cons a l ih =>
    simp only [allPairs, Bool.and_eq_true, List.all_eq_true, List.pairwise_cons, ih]

theorem allPairs_perm {R : β → β → Bool} (hR : ∀ x y, R x y = R y x) {l l' : List β} (h : l.Perm l') :
    allPairs R l = allPairs R l' := by
  rw [Bool.eq_iff_iff, allPairs_iff, allPairs_iff]
  exact h.pairwise_iff (fun {x y} hxy => by rw [← hR]; exact hxy)

theorem allPairs_map {γ : Type} (R : γ → γ → Bool) (f : β → γ) (l : List β) :
    allPairs R (l.map f) = allPairs (fun x y => R (f x) (f y)) l := by
  rw [Bool.eq_iff_iff, allPairs_iff, allPairs_iff, List.pairwise_map]

theorem allPairs_congr {R S : β → β → Bool} (h : ∀ x y, R x y = S x y) (l : List β) :
    allPairs R l = allPairs S l := by
  have : R = S := by funext x y; exact h x y
  rw [this]

end lists

/-! ### positive affine maps preserve every predicate (used for `_is_simple`'s normalisation) -/

/-- `p ↦ (p − c) / k` -/
def aff (c : P2 ℝ) (k : ℝ) (p : P2 ℝ) : P2 ℝ := ⟨(p.x - c.x) / k, (p.y - c.y) / k⟩

theorem aff_le {k : ℝ} (hk : 0 < k) (u v c : ℝ) : (u - c) / k ≤ (v - c) / k ↔ u ≤ v := by
  rw [div_le_div_iff_of_pos_right hk]; exact sub_le_sub_iff_right c

theorem orient_aff (c : P2 ℝ) {k : ℝ} (hk : 0 < k) (a b p : P2 ℝ) :
    orient (aff c k a) (aff c k b) (aff c k p) = orient a b p / (k * k) := by
  have : k ≠ 0 := hk.ne'
  unfold orient aff; field_simp; ring

theorem onSeg_aff (c : P2 ℝ) {k : ℝ} (hk : 0 < k) (a b p : P2 ℝ) :
    onSeg (aff c k a) (aff c k b) (aff c k p) = onSeg a b p := by
  have hkk : k * k ≠ 0 := (mul_pos hk hk).ne'
  rw [Bool.eq_iff_iff, onSeg_iff, onSeg_iff, orient_aff c hk, div_eq_zero_iff]
  simp only [aff, aff_le hk, hkk, or_false]

theorem oppositeSigns_div {m : ℝ} (hm : 0 < m) (u v : ℝ) :
    oppositeSigns (u / m) (v / m) = oppositeSigns u v := by
  have h1 : ∀ w : ℝ, w / m < 0 ↔ w < 0 := fun w => by rw [div_lt_iff₀ hm, zero_mul]
  rw [Bool.eq_iff_iff, oppositeSigns_iff, oppositeSigns_iff, div_pos_iff_of_pos_right hm,
    div_pos_iff_of_pos_right hm, h1, h1]

theorem segMeet_aff (c : P2 ℝ) {k : ℝ} (hk : 0 < k) (a b p q : P2 ℝ) :
    segMeet (aff c k a) (aff c k b) (aff c k p) (aff c k q) = segMeet a b p q := by
  unfold segMeet
  simp only [orient_aff c hk, onSeg_aff c hk, oppositeSigns_div (mul_pos hk hk)]

theorem aff_inj (c : P2 ℝ) {k : ℝ} (hk : 0 < k) (p q : P2 ℝ) : aff c k p = aff c k q ↔ p = q := by
  have : k ≠ 0 := hk.ne'
  constructor
  · intro h
    have hx := congrArg P2.x h; have hy := congrArg P2.y h
    simp only [aff] at hx hy
    rw [div_left_inj' this] at hx hy
    cases p; cases q; simp only [P2.mk.injEq]; constructor <;> linarith
  · intro h; rw [h]

theorem ptEq_aff (c : P2 ℝ) {k : ℝ} (hk : 0 < k) (p q : P2 ℝ) :
    ptEq (aff c k p) (aff c k q) = ptEq p q := by
  rw [Bool.eq_iff_iff, ptEq_eq, ptEq_eq, aff_inj c hk]

theorem edgeOK_aff (c : P2 ℝ) {k : ℝ} (hk : 0 < k) (e f : P2 ℝ × P2 ℝ) :
    edgeOK (Prod.map (aff c k) (aff c k) e) (Prod.map (aff c k) (aff c k) f) = edgeOK e f := by
  obtain ⟨a, b⟩ := e; obtain ⟨p, q⟩ := f
  unfold edgeOK foldBack
  simp only [Prod.map, ptEq_aff c hk, onSeg_aff c hk, segMeet_aff c hk]

/-- `edgesOK` is invariant under translation and positive scaling -/
theorem edgesOK_aff (c : P2 ℝ) {k : ℝ} (hk : 0 < k) (l : List (P2 ℝ)) :
    edgesOK (l.map (aff c k)) = edgesOK l := by
  unfold edgesOK
  rw [cycEdges_map, allPairs_map]
  exact allPairs_congr (fun e f => edgeOK_aff c hk e f) _

theorem normalise_eq_aff (l : List (P2 ℝ)) : ∃ (c : P2 ℝ) (k : ℝ), 0 < k ∧ normalise l = l.map (aff c k) := by
  unfold normalise
  simp only [lit_zero]
  split
  · rename_i h
    refine ⟨mean2 l, _, h, ?_⟩
    simp only [List.map_map]; rfl
  · refine ⟨mean2 l, 1, one_pos, ?_⟩
    apply List.map_congr_left; intro p _; simp [aff]

/-- the normalisation inside `_is_simple` does not change the verdict -/
theorem isSimple_eq (planar : List (V3 ℝ)) : isSimple planar = edgesOK (planar.map xy) := by
  unfold isSimple
  obtain ⟨c, k, hk, h⟩ := normalise_eq_aff (planar.map xy)
  rw [h, edgesOK_aff c hk]

/-! ### `_reorder_verts`: the stable insertion sort -/

section sort
variable {β : Type}

/-- `a` may stay before `b`: not (b < a) in the lexicographic (angle, distance) order -/
def keyLe (a b : (ℝ × ℝ) × β) : Prop := keyLt b a = false

instance : DecidableRel (keyLe (β := β)) := fun a b => inferInstanceAs (Decidable (keyLt b a = false))

theorem keyLt_iff (a b : (ℝ × ℝ) × β) :
    keyLt a b = true ↔ a.1.1 < b.1.1 ∨ (a.1.1 = b.1.1 ∧ a.1.2 < b.1.2) := by
  unfold keyLt
  rw [Bool.or_eq_true, Bool.and_eq_true, eqb_iff]
  simp only [decide_eq_true_eq]

theorem keyLe_iff (a b : (ℝ × ℝ) × β) :
    keyLe a b ↔ a.1.1 < b.1.1 ∨ (a.1.1 = b.1.1 ∧ a.1.2 ≤ b.1.2) := by
  unfold keyLe
  rw [← Bool.not_eq_true, keyLt_iff]
  constructor
  · intro h
    rcases lt_trichotomy a.1.1 b.1.1 with h1 | h1 | h1
    · exact Or.inl h1
    · refine Or.inr ⟨h1, ?_⟩
      by_contra h2; exact h (Or.inr ⟨h1.symm, not_le.1 h2⟩)
    · exact absurd (Or.inl h1) h
  · rintro (h | ⟨h1, h2⟩) (h3 | ⟨h3, h4⟩)
    · exact lt_asymm h h3
    · rw [h3] at h; exact lt_irrefl _ h
    · rw [h1] at h3; exact lt_irrefl _ h3
    · exact not_lt.2 h2 h4

instance : Std.Total (keyLe (β := β)) := ⟨fun a b => by
  rw [keyLe_iff, keyLe_iff]
  rcases lt_trichotomy a.1.1 b.1.1 with h | h | h
  · exact Or.inl (Or.inl h)
  · rcases le_total a.1.2 b.1.2 with h2 | h2
    · exact Or.inl (Or.inr ⟨h, h2⟩)
    · exact Or.inr (Or.inr ⟨h.symm, h2⟩)
  · exact Or.inr (Or.inl h)⟩

instance : IsTrans ((ℝ × ℝ) × β) keyLe := ⟨fun a b c => by
  rw [keyLe_iff, keyLe_iff, keyLe_iff]
  rintro (h | ⟨h1, h2⟩) (h' | ⟨h1', h2'⟩)
  · exact Or.inl (lt_trans h h')
  · exact Or.inl (h1' ▸ h)
  · exact Or.inl (h1 ▸ h')
  · exact Or.inr ⟨h1.trans h1', h2.trans h2'⟩⟩

theorem insertBy_eq (x : (ℝ × ℝ) × β) (l : List ((ℝ × ℝ) × β)) :
    insertBy keyLt x l = List.orderedInsert keyLe x l := by
  induction l with
  | nil => rfl
  | cons y ys ih =>
    simp only [insertBy, List.orderedInsert_cons, ih]
    by_cases h : keyLt y x = true
    · have h' : ¬ keyLe x y := by unfold keyLe; simp [h]
      rw [if_pos h, if_neg h']
    · have h' : keyLe x y := by unfold keyLe; simpa using h
      rw [if_neg h, if_pos h']

theorem isort_eq (l : List ((ℝ × ℝ) × β)) : isort keyLt l = List.insertionSort keyLe l := by
  induction l with
  | nil => rfl
  | cons x xs ih => simp only [isort, List.insertionSort_cons, ih, insertBy_eq]

theorem isort_perm (l : List ((ℝ × ℝ) × β)) : (isort keyLt l).Perm l := by
  rw [isort_eq]; exact List.perm_insertionSort _ _

theorem isort_sorted (l : List ((ℝ × ℝ) × β)) : (isort keyLt l).Pairwise keyLe := by
  rw [isort_eq]; exact List.pairwise_insertionSort _ _

/-- the head stays in front if nothing is strictly smaller -/
theorem isort_head (x : (ℝ × ℝ) × β) (xs : List ((ℝ × ℝ) × β)) (h : ∀ y ∈ xs, keyLe x y) :
    (isort keyLt (x :: xs)).head? = some x := by
  rw [isort_eq, List.insertionSort_cons]
  have h' : ∀ y ∈ List.insertionSort keyLe xs, keyLe x y := fun y hy =>
    h y ((List.perm_insertionSort keyLe xs).mem_iff.1 hy)
  cases hs : List.insertionSort keyLe xs with
  | nil => simp
  | cons y ys =>
    have : keyLe x y := h' y (by rw [hs]; exact List.mem_cons_self)
    rw [List.orderedInsert_cons, if_pos this]; rfl

end sort

/-! ### `np.mod` -/

theorem pmod_nonneg (x : ℝ) {m : ℝ} (hm : 0 < m) : 0 ≤ pmod x m := by
  unfold pmod
  have h1 : (⌊x / m⌋ : ℝ) ≤ x / m := Int.floor_le _
  have h2 : (⌊x / m⌋ : ℝ) * m ≤ x / m * m := mul_le_mul_of_nonneg_right h1 hm.le
  have h3 : x / m * m = x := div_mul_cancel₀ x hm.ne'
  show 0 ≤ x - (⌊x / m⌋ : ℝ) * m
  linarith

theorem pmod_lt (x : ℝ) {m : ℝ} (hm : 0 < m) : pmod x m < m := by
  unfold pmod
  have h1 : x / m < (⌊x / m⌋ : ℝ) + 1 := Int.lt_floor_add_one _
  have h2 : x / m * m < ((⌊x / m⌋ : ℝ) + 1) * m := mul_lt_mul_of_pos_right h1 hm
  have h3 : x / m * m = x := div_mul_cancel₀ x hm.ne'
  show x - (⌊x / m⌋ : ℝ) * m < m
  nlinarith

theorem pmod_zero (m : ℝ) : pmod 0 m = 0 := by
  unfold pmod
  show (0:ℝ) - (⌊(0:ℝ) / m⌋ : ℝ) * m = 0
  simp

/-! ### `segMeet` decides `SegMeetProp` (two closed segments share a point) -/

theorem param_onSeg (a b p : P2 ℝ) (s : ℝ) (h0 : 0 ≤ s) (h1 : s ≤ 1)
    (hx : p.x = a.x + s * (b.x - a.x)) (hy : p.y = a.y + s * (b.y - a.y)) : onSeg a b p = true := by
  rw [onSeg_iff]
  have h1' : 0 ≤ 1 - s := sub_nonneg.2 h1
  refine ⟨?_, ?_, ?_⟩
  · unfold orient; rw [hx, hy]; ring
  · rcases le_total a.x b.x with h | h
    · left; constructor <;> nlinarith [mul_nonneg h0 (sub_nonneg.2 h), mul_nonneg h1' (sub_nonneg.2 h)]
    · right; constructor <;> nlinarith [mul_nonneg h0 (sub_nonneg.2 h), mul_nonneg h1' (sub_nonneg.2 h)]
  · rcases le_total a.y b.y with h | h
    · left; constructor <;> nlinarith [mul_nonneg h0 (sub_nonneg.2 h), mul_nonneg h1' (sub_nonneg.2 h)]
    · right; constructor <;> nlinarith [mul_nonneg h0 (sub_nonneg.2 h), mul_nonneg h1' (sub_nonneg.2 h)]

theorem frac_between (u v w : ℝ) (hne : v - u ≠ 0) (hb : (u ≤ w ∧ w ≤ v) ∨ (v ≤ w ∧ w ≤ u)) :
    0 ≤ (w - u) / (v - u) ∧ (w - u) / (v - u) ≤ 1 := by
  rcases lt_or_gt_of_ne hne with h | h
  · -- v - u < 0
    have hb' : v ≤ w ∧ w ≤ u := by
      rcases hb with hb | hb
      · exact ⟨by linarith, by linarith⟩
      · exact hb
    exact ⟨div_nonneg_of_nonpos (by linarith) h.le, (div_le_one_of_neg h).2 (by linarith)⟩
  · have hb' : u ≤ w ∧ w ≤ v := by
      rcases hb with hb | hb
      · exact hb
      · exact ⟨by linarith, by linarith⟩
    exact ⟨div_nonneg (by linarith) h.le, (div_le_one h).2 (by linarith)⟩

theorem onSeg_param (a b p : P2 ℝ) (h : onSeg a b p = true) :
    ∃ s, 0 ≤ s ∧ s ≤ 1 ∧ p.x = a.x + s * (b.x - a.x) ∧ p.y = a.y + s * (b.y - a.y) := by
  rw [onSeg_iff] at h; obtain ⟨ho, hx, hy⟩ := h
  unfold orient at ho
  by_cases hxne : b.x - a.x = 0
  · by_cases hyne : b.y - a.y = 0
    · refine ⟨0, le_refl _, zero_le_one, ?_, ?_⟩
      · rcases hx with hx | hx <;> linarith [hx.1, hx.2]
      · rcases hy with hy | hy <;> linarith [hy.1, hy.2]
    · obtain ⟨h0, h1⟩ := frac_between a.y b.y p.y hyne hy
      refine ⟨_, h0, h1, ?_, ?_⟩
      · rw [hxne, mul_zero, add_zero]
        rw [hxne, zero_mul, zero_sub, neg_eq_zero, mul_eq_zero] at ho
        rcases ho with ho | ho
        · exact absurd ho hyne
        · linarith
      · field_simp; ring
  · obtain ⟨h0, h1⟩ := frac_between a.x b.x p.x hxne hx
    refine ⟨_, h0, h1, ?_, ?_⟩
    · field_simp; ring
    · field_simp; linarith

theorem frac_opp (u v : ℝ) (h : oppositeSigns u v = true) :
    u - v ≠ 0 ∧ 0 ≤ u / (u - v) ∧ u / (u - v) ≤ 1 := by
  rw [oppositeSigns_iff] at h
  rcases h with ⟨hu, hv⟩ | ⟨hu, hv⟩
  · have hd : 0 < u - v := by linarith
    exact ⟨hd.ne', div_nonneg hu.le hd.le, (div_le_one hd).2 (by linarith)⟩
  · have hd : u - v < 0 := by linarith
    exact ⟨hd.ne, div_nonneg_of_nonpos hu.le hd.le, (div_le_one_of_neg hd).2 (by linarith)⟩

theorem segMeet_imp_exists (a b c d : P2 ℝ) (h : segMeet a b c d = true) : SegMeetProp a b c d := by
  unfold SegMeetProp
  simp only [lit_zero, lit_one]
  rw [segMeet_iff] at h
  rcases h with ⟨h12, h34⟩ | h | h | h | h
  · obtain ⟨hD, ht0, ht1⟩ := frac_opp _ _ h12
    obtain ⟨hD', hs0, hs1⟩ := frac_opp _ _ h34
    refine ⟨_, _, hs0, hs1, ht0, ht1, ?_, ?_⟩
    · unfold orient at *; field_simp; ring
    · unfold orient at *; field_simp; ring
  · obtain ⟨s, h0, h1, hx, hy⟩ := onSeg_param _ _ _ h
    exact ⟨s, 0, h0, h1, le_refl _, zero_le_one, by linarith, by linarith⟩
  · obtain ⟨s, h0, h1, hx, hy⟩ := onSeg_param _ _ _ h
    exact ⟨s, 1, h0, h1, zero_le_one, le_refl _, by linarith, by linarith⟩
  · obtain ⟨t, h0, h1, hx, hy⟩ := onSeg_param _ _ _ h
    exact ⟨0, t, le_refl _, zero_le_one, h0, h1, by linarith, by linarith⟩
  · obtain ⟨t, h0, h1, hx, hy⟩ := onSeg_param _ _ _ h
    exact ⟨1, t, zero_le_one, le_refl _, h0, h1, by linarith, by linarith⟩

theorem collinear_param (a b q : P2 ℝ) (hab : ¬ (a.x = b.x ∧ a.y = b.y)) (ho : orient a b q = 0) :
    ∃ l : ℝ, q.x = a.x + l * (b.x - a.x) ∧ q.y = a.y + l * (b.y - a.y) := by
  unfold orient at ho
  by_cases hxne : b.x - a.x = 0
  · have hyne : b.y - a.y ≠ 0 := by
      intro hy; exact hab ⟨by linarith, by linarith⟩
    refine ⟨(q.y - a.y) / (b.y - a.y), ?_, ?_⟩
    · rw [hxne, mul_zero, add_zero]
      rw [hxne, zero_mul, zero_sub, neg_eq_zero, mul_eq_zero] at ho
      rcases ho with ho | ho
      · exact absurd ho hyne
      · linarith
    · field_simp; ring
  · refine ⟨(q.x - a.x) / (b.x - a.x), ?_, ?_⟩
    · field_simp; ring
    · field_simp; linarith

theorem opp_of_comb (u v t : ℝ) (ht0 : 0 < t) (ht1 : t < 1) (h : (1 - t) * u + t * v = 0) (hu : u ≠ 0) :
    oppositeSigns u v = true := by
  rw [oppositeSigns_iff]
  have h1t : 0 < 1 - t := sub_pos.2 ht1
  rcases lt_or_gt_of_ne hu with hu | hu
  · right; refine ⟨hu, ?_⟩
    by_contra hv
    have hv' : v ≤ 0 := not_lt.1 hv
    nlinarith [mul_neg_of_pos_of_neg h1t hu, mul_nonpos_of_nonneg_of_nonpos ht0.le hv']
  · left; refine ⟨hu, ?_⟩
    by_contra hv
    have hv' : 0 ≤ v := not_lt.1 hv
    nlinarith [mul_pos h1t hu, mul_nonneg ht0.le hv']

theorem exists_imp_segMeet (a b c d : P2 ℝ) (h : SegMeetProp a b c d) : segMeet a b c d = true := by
  unfold SegMeetProp at h
  simp only [lit_zero, lit_one] at h
  obtain ⟨s, t, hs0, hs1, ht0, ht1, hx, hy⟩ := h
  rw [segMeet_iff]
  rcases hs0.eq_or_lt with hs | hs0
  · right; right; right; left
    apply param_onSeg c d a t ht0 ht1 <;> [rw [← hs] at hx; rw [← hs] at hy] <;> linarith
  rcases hs1.eq_or_lt with hs | hs1
  · right; right; right; right
    apply param_onSeg c d b t ht0 ht1 <;> [rw [hs] at hx; rw [hs] at hy] <;> linarith
  rcases ht0.eq_or_lt with ht | ht0
  · right; left
    apply param_onSeg a b c s hs0.le hs1.le <;> [rw [← ht] at hx; rw [← ht] at hy] <;> linarith
  rcases ht1.eq_or_lt with ht | ht1
  · right; right; left
    apply param_onSeg a b d s hs0.le hs1.le <;> [rw [ht] at hx; rw [ht] at hy] <;> linarith
  -- interior parameters
  have E1 : (1 - t) * orient a b c + t * orient a b d = 0 := by
    unfold orient; linear_combination (-(b.x - a.x)) * hy + (b.y - a.y) * hx
  have E2 : (1 - s) * orient c d a + s * orient c d b = 0 := by
    unfold orient; linear_combination (d.x - c.x) * hy - (d.y - c.y) * hx
  have hD : orient c d a - orient c d b = -(orient a b c - orient a b d) := by unfold orient; ring
  by_cases h1 : orient a b c = 0
  · -- everything is collinear
    have h2 : orient a b d = 0 := by
      rw [h1, mul_zero, zero_add, mul_eq_zero] at E1
      rcases E1 with E1 | E1
      · exact absurd E1 ht0.ne'
      · exact E1
    have h34 : orient c d a = orient c d b := by rw [h1, h2] at hD; linarith
    by_cases hab : a.x = b.x ∧ a.y = b.y
    · right; right; right; left
      apply param_onSeg c d a t ht0.le ht1.le
      · rw [← hab.1] at hx; linarith
      · rw [← hab.2] at hy; linarith
    · obtain ⟨lc, hcx, hcy⟩ := collinear_param a b c hab h1
      obtain ⟨ld, hdx, hdy⟩ := collinear_param a b d hab h2
      have hs_eq : s = lc + t * (ld - lc) := by
        have ex : (s - (lc + t * (ld - lc))) * (b.x - a.x) = 0 := by
          rw [hcx, hdx] at hx; linarith
        have ey : (s - (lc + t * (ld - lc))) * (b.y - a.y) = 0 := by
          rw [hcy, hdy] at hy; linarith
        rcases mul_eq_zero.1 ex with h | h
        · linarith
        · rcases mul_eq_zero.1 ey with h' | h'
          · linarith
          · exact absurd ⟨by linarith, by linarith⟩ hab
      by_cases hc01 : 0 ≤ lc ∧ lc ≤ 1
      · right; left; exact param_onSeg a b c lc hc01.1 hc01.2 hcx hcy
      by_cases hd01 : 0 ≤ ld ∧ ld ≤ 1
      · right; right; left; exact param_onSeg a b d ld hd01.1 hd01.2 hdx hdy
      -- lc and ld are outside [0,1], on different sides (s is strictly between them and in (0,1))
      have hsides : (lc ≤ 0 ∧ 0 ≤ ld) ∨ (ld ≤ 0 ∧ 0 ≤ lc) := by
        rcases lt_or_ge lc 0 with hc | hc
        · left; refine ⟨hc.le, ?_⟩
          by_contra hd; have hd := not_le.1 hd
          nlinarith [mul_pos ht0 (neg_pos.2 hd), mul_pos (sub_pos.2 ht1) (neg_pos.2 hc)]
        · have hc1 : 1 < lc := by
            by_contra hh; exact hc01 ⟨hc, not_lt.1 hh⟩
          right; refine ⟨?_, hc⟩
          by_contra hd; have hd := not_le.1 hd
          have hd1 : 1 < ld := by
            by_contra hh; exact hd01 ⟨hd.le, not_lt.1 hh⟩
          nlinarith [mul_pos ht0 (sub_pos.2 hd1), mul_pos (sub_pos.2 ht1) (sub_pos.2 hc1)]
      have hne : ld - lc ≠ 0 := by
        intro h
        have : ld = lc := by linarith
        rcases hsides with ⟨h1', h2'⟩ | ⟨h1', h2'⟩
        · exact hc01 ⟨by linarith, by linarith⟩
        · exact hc01 ⟨by linarith, by linarith⟩
      obtain ⟨m0, m1⟩ := frac_between lc ld 0 hne hsides
      right; right; right; left
      apply param_onSeg c d a _ m0 m1
      · rw [hcx, hdx]; field_simp; ring
      · rw [hcy, hdy]; field_simp; ring
  · left
    have hopp := opp_of_comb _ _ t ht0 ht1 E1 h1
    refine ⟨hopp, ?_⟩
    have h3 : orient c d a ≠ 0 := by
      intro h3
      have h4 : orient c d b = 0 := by
        rw [h3, mul_zero, zero_add, mul_eq_zero] at E2
        rcases E2 with E2 | E2
        · exact absurd E2 hs0.ne'
        · exact E2
      rw [h3, h4, sub_self] at hD
      have : orient a b c = orient a b d := by linarith
      rw [oppositeSigns_iff, ← this] at hopp
      rcases hopp with ⟨h, h'⟩ | ⟨h, h'⟩ <;> linarith
    exact opp_of_comb _ _ s hs0 hs1 E2 h3

/-- **the decision procedure means what it should**: `segMeet` holds iff the two closed segments share a point -/
theorem segMeet_iff_exists (a b c d : P2 ℝ) : segMeet a b c d = true ↔ SegMeetProp a b c d :=
  ⟨segMeet_imp_exists a b c d, exists_imp_segMeet a b c d⟩

end C15
end
