import CoxeterVerif.Lemmas.Inside2DConvex
/-!
  C06 — what the model of `Polygon.is_inside` does for points exactly ON the boundary (the
  property is silent there; the docstring says "points on the boundary return False").

  * an edge whose line passes through the point contributes `0` (`halfTurn_on_line`), in
    particular both edges at a vertex when the point IS that vertex;
  * a point in the open part of an edge sees the edge's end points in opposite classes, so the
    half-turn sum loses exactly one crossing and becomes ODD;
  * round a positively oriented triangle the sum is then `+1` → `1 // 2 = 0` → `False`,
    round a negatively oriented one `−1` → `−1 // 2 = −1` → `True` (floor division):
    the answer on an open boundary edge depends on the orientation of the vertices IN THE ROTATED
    FRAME.
-/
open Inside2D Inside2D.Polygon Spec.In2D Scalar
set_option maxRecDepth 4000
noncomputable section
namespace Inside2D

/-- an edge whose line passes through the query point contributes nothing -/
theorem halfTurn_on_line {p a b : P2 ℝ} (h : orient a b p = 0) : halfTurn p a b = 0 := by
  rw [halfTurn_eq_ht]; unfold ht
  rw [← orient_eq_crossR, h, sgn_zero, zero_mul]

/-- the two edges at a vertex contribute nothing when the query point is that vertex -/
theorem halfTurn_vertex_start (p b : P2 ℝ) : halfTurn p p b = 0 :=
  halfTurn_on_line (by unfold orient; ring)
theorem halfTurn_vertex_end (p a : P2 ℝ) : halfTurn p a p = 0 :=
  halfTurn_on_line (by unfold orient; ring)

theorem cls_neg (u : P2 ℝ) : cls (negP u) = -cls u := by
  unfold cls vertexSign negP
  simp only [sgn_neg]
  by_cases h : sgn u.x = 0
  · simp [h]
  · have : -sgn u.x ≠ 0 := by omega
    simp [h]

theorem dot_self_nonneg (u : P2 ℝ) : 0 ≤ dotR u u := by
  unfold dotR; nlinarith [mul_self_nonneg u.x, mul_self_nonneg u.y]

/-- a point in the open segment `(a, b)` sees `a` and `b` in opposite (non-zero) classes -/
theorem cls_opposite_of_between {a b p : P2 ℝ} (hcol : orient a b p = 0) (hin : dot2 a b p < 0) :
    cls (rel b p) = -cls (rel a p) ∧ cls (rel a p) ≠ 0 := by
  have hc : crossR (rel a p) (negP (rel b p)) = 0 := by
    have := orient_eq_crossR a b p
    rw [hcol] at this
    unfold crossR negP at *; simp only; linarith
  have hd : 0 < dotR (rel a p) (negP (rel b p)) := by
    have e : dot2 a b p = dotR (rel a p) (rel b p) := rfl
    rw [e] at hin
    unfold dotR negP at *; simp only; linarith
  have h1 := cls_eq_of_parallel hc hd
  rw [cls_neg] at h1
  refine ⟨by omega, ?_⟩
  intro h0
  rcases cls_cases (rel a p) with ⟨hx, hy, _⟩ | ⟨_, e⟩ | ⟨_, e⟩
  · unfold dotR at hd; rw [hx, hy] at hd; simp at hd
  · rw [e] at h0; exact absurd h0 (by decide)
  · rw [e] at h0; exact absurd h0 (by decide)

theorem between_dots {a b p : P2 ℝ} (hin : dot2 a b p < 0) :
    0 < (b.x - a.x) * (p.x - a.x) + (b.y - a.y) * (p.y - a.y) ∧
    0 < (b.x - a.x) * (b.x - p.x) + (b.y - a.y) * (b.y - p.y) := by
  unfold dot2 at hin
  constructor
  · nlinarith [mul_self_nonneg (a.x - p.x), mul_self_nonneg (a.y - p.y)]
  · nlinarith [mul_self_nonneg (b.x - p.x), mul_self_nonneg (b.y - p.y)]

/-- for `p` in the open edge `(a, b)` of a positively oriented triangle, `p` is strictly left of
    the other two edges -/
theorem between_other_edges {a b c p : P2 ℝ} (hpos : 0 < orient a b c) (hcol : orient a b p = 0)
    (hin : dot2 a b p < 0) : 0 < orient b c p ∧ 0 < orient c a p := by
  have hE := edge_normSq_pos hpos
  obtain ⟨d1, d2⟩ := between_dots hin
  have id1 : orient b c p * ((b.x - a.x) * (b.x - a.x) + (b.y - a.y) * (b.y - a.y)) =
      orient a b c * ((b.x - a.x) * (b.x - p.x) + (b.y - a.y) * (b.y - p.y)) +
        orient a b p * ((c.x - b.x) * (b.x - a.x) + (c.y - b.y) * (b.y - a.y)) := by
    unfold orient; ring
  have id2 : orient c a p * ((b.x - a.x) * (b.x - a.x) + (b.y - a.y) * (b.y - a.y)) =
      orient a b c * ((b.x - a.x) * (p.x - a.x) + (b.y - a.y) * (p.y - a.y)) +
        orient a b p * ((a.x - c.x) * (b.x - a.x) + (a.y - c.y) * (b.y - a.y)) := by
    unfold orient; ring
  rw [hcol, zero_mul, add_zero] at id1 id2
  constructor
  · by_contra h
    have := mul_nonpos_of_nonpos_of_nonneg (not_lt.mp h) hE.le
    have := mul_pos hpos d2
    linarith
  · by_contra h
    have := mul_nonpos_of_nonpos_of_nonneg (not_lt.mp h) hE.le
    have := mul_pos hpos d1
    linarith

/-- **Half-turn sum round a positively oriented triangle for a point in the open edge `(a,b)`:
    exactly `1`** (one crossing lost). -/
theorem triangle_on_edge_sum {a b c p : P2 ℝ} (hpos : 0 < orient a b c) (hcol : orient a b p = 0)
    (hin : dot2 a b p < 0) : halfTurn p a b + halfTurn p b c + halfTurn p c a = 1 := by
  obtain ⟨o1, o2⟩ := between_other_edges hpos hcol hin
  obtain ⟨hopp, hne⟩ := cls_opposite_of_between hcol hin
  rw [halfTurn_on_line hcol, halfTurn_eq_ht p b c, halfTurn_eq_ht p c a]
  rw [orient_eq_crossR] at o1 o2
  unfold ht
  rw [sgn_of_pos o1, sgn_of_pos o2, hopp]
  have hc0 : cls (rel c p) ≠ 0 := cls_ne_zero_of_cross_pos o2
  rcases inR_or_inL_of_cls_ne_zero hne with ⟨_, ea⟩ | ⟨_, ea⟩ <;>
  rcases inR_or_inL_of_cls_ne_zero hc0 with ⟨_, ec⟩ | ⟨_, ec⟩ <;>
  rw [ea, ec] <;> decide

/-- the same for a negatively oriented triangle `(a, c, b)` traversed `a → c → b → a`: `−1` -/
theorem triangle_on_edge_sum_neg {a b c p : P2 ℝ} (hpos : 0 < orient a b c) (hcol : orient a b p = 0)
    (hin : dot2 a b p < 0) : halfTurn p a c + halfTurn p c b + halfTurn p b a = -1 := by
  have := triangle_on_edge_sum hpos hcol hin
  rw [halfTurn_swap p c a, halfTurn_swap p b c, halfTurn_swap p a b]
  omega

end Inside2D
