import CoxeterVerif.Lemmas.SteinerHistory
import Mathlib.Analysis.SpecialFunctions.Trigonometric.Bounds
/-!
  C11 (deepening round) — descriptors: invariance of `tau`, `asphericity`, `iq` under similarity;
  the isoperimetric inequality `iq ≤ 1` for the classes where it is elementary (boxes by AM–GM,
  rectangles, regular polygons via `x ≤ tan x`), the invariance of the planar isoperimetric deficit
  under rounding; the `atan2` form of the dihedral angle.

  `iq ≤ 1` for EVERY convex body is the isoperimetric inequality (Brunn–Minkowski); it is not in
  Mathlib and is NOT proved here — the harness checks `0 < iq ≤ 1` per case.
-/
open Scalar
namespace Steiner
noncomputable section

/-! ### similarity invariance (arguments scaled as a uniform rescaling by `k ≠ 0` scales them) -/

theorem tauOf_scale (M S k : ℝ) (hk : k ≠ 0) : CP.tauOf (k * M) (S * k ^ 2) = CP.tauOf M S := by
  unfold CP.tauOf
  simp only [Scalar.lit, Scalar.ofNat_real, Scalar.pi_real]
  by_cases hS : S = 0
  · subst hS; simp
  · field_simp

theorem asphericityOf_scale (M S V k : ℝ) (hk : k ≠ 0) :
    CP.asphericityOf (k * M) (S * k ^ 2) (V * k ^ 3) = CP.asphericityOf M S V := by
  unfold CP.asphericityOf
  simp only [Scalar.lit, Scalar.ofNat_real]
  by_cases hV : V = 0
  · subst hV; simp
  · field_simp

theorem iq3_scale (V S k : ℝ) (hk : k ≠ 0) : Shape3D.iq (V * k ^ 3) (S * k ^ 2) = Shape3D.iq V S := by
  unfold Shape3D.iq
  simp only [Scalar.lit, Scalar.sqr, Scalar.cube, Scalar.ofNat_real, Scalar.pi_real]
  by_cases hS : S = 0
  · subst hS; simp
  · field_simp

theorem iq2_scale (A P k : ℝ) (hk : k ≠ 0) : Shape2D.iq (A * k ^ 2) (P * k) = Shape2D.iq A P := by
  unfold Shape2D.iq
  simp only [Scalar.lit, Scalar.sqr, Scalar.ofNat_real, Scalar.pi_real]
  by_cases hP : P = 0
  · subst hP; simp
  · field_simp

/-- the descriptors of a rescaled core (through the `Except` wrappers): `mean_curvature × k`,
`tau`, `asphericity`, `iq` unchanged -/
theorem descriptors_rescale (c : Core ℝ) (k : ℝ) (hk : 0 < k) :
    CP.meanCurvature (c.rescale k) = (CP.meanCurvature c).map (k * ·) ∧
    CP.tau (c.rescale k) = CP.tau c ∧
    CP.asphericity (c.rescale k) = CP.asphericity c ∧
    CP.iq (c.rescale k) = CP.iq c := by
  have hM : CP.meanCurvature (c.rescale k) = (CP.meanCurvature c).map (k * ·) := by
    unfold CP.meanCurvature
    rw [edgeTerms_rescale, abs_of_pos hk]
    cases CP.edgeTerms c with
    | error e => rfl
    | ok es =>
      show Except.ok (CP.meanCurvatureOf (SteinerSpec.scaleEdges k es)) = Except.ok (k * CP.meanCurvatureOf es)
      rw [cp_meanCurvatureOf_scale]
  refine ⟨hM, ?_, ?_, ?_⟩
  · unfold CP.tau
    rw [hM]
    cases CP.meanCurvature c with
    | error e => rfl
    | ok M =>
      show Except.ok (CP.tauOf (k * M) (c.area * sqr k)) = Except.ok (CP.tauOf M c.area)
      rw [show c.area * sqr k = c.area * k ^ 2 by simp only [Scalar.sqr]; ring, tauOf_scale _ _ _ hk.ne']
  · unfold CP.asphericity
    rw [hM]
    cases CP.meanCurvature c with
    | error e => rfl
    | ok M =>
      show Except.ok (CP.asphericityOf (k * M) (c.area * sqr k) (c.volume * cube k))
        = Except.ok (CP.asphericityOf M c.area c.volume)
      rw [show c.area * sqr k = c.area * k ^ 2 by simp only [Scalar.sqr]; ring,
        show c.volume * cube k = c.volume * k ^ 3 by simp only [Scalar.cube]; ring,
        asphericityOf_scale _ _ _ _ hk.ne']
  · show Shape3D.iq (c.volume * cube k) (c.area * sqr k) = Shape3D.iq c.volume c.area
    rw [show c.area * sqr k = c.area * k ^ 2 by simp only [Scalar.sqr]; ring,
      show c.volume * cube k = c.volume * k ^ 3 by simp only [Scalar.cube]; ring, iq3_scale _ _ _ hk.ne']

/-! ### `iq ≤ 1` where it is elementary -/

theorem amgm3 (x y z : ℝ) (hx : 0 ≤ x) (hy : 0 ≤ y) (hz : 0 ≤ z) : 27 * (x * y * z) ≤ (x + y + z) ^ 3 := by
  nlinarith [mul_nonneg hx (sq_nonneg (y - z)), mul_nonneg hy (sq_nonneg (z - x)), mul_nonneg hz (sq_nonneg (x - y)),
    mul_nonneg (add_nonneg (add_nonneg hx hy) hz) (sq_nonneg (x - y)),
    mul_nonneg (add_nonneg (add_nonneg hx hy) hz) (sq_nonneg (y - z)),
    mul_nonneg (add_nonneg (add_nonneg hx hy) hz) (sq_nonneg (z - x))]

/-- **box** `a × b × c`: `IQ = 36π (abc)² / (2(ab+bc+ca))³ ≤ π/6 < 1` (AM–GM on `ab, bc, ca`) -/
theorem iq_box_le (a b c : ℝ) (ha : 0 < a) (hb : 0 < b) (hc : 0 < c) :
    Shape3D.iq (a * b * c) (2 * (a * b + b * c + c * a)) ≤ Real.pi / 6 := by
  unfold Shape3D.iq
  simp only [Scalar.lit, Scalar.sqr, Scalar.cube, Scalar.ofNat_real, Scalar.pi_real]
  have hpi := Real.pi_pos
  have hs : 0 < a * b + b * c + c * a := by positivity
  have hag := amgm3 (a * b) (b * c) (c * a) (by positivity) (by positivity) (by positivity)
  rw [div_le_div_iff₀ (by positivity) (by norm_num)]
  have h1 : (a * b * c) * (a * b * c) = (a * b) * (b * c) * (c * a) := by ring
  push_cast
  nlinarith [mul_le_mul_of_nonneg_left hag hpi.le]

theorem iq_box_lt_one (a b c : ℝ) (ha : 0 < a) (hb : 0 < b) (hc : 0 < c) :
    Shape3D.iq (a * b * c) (2 * (a * b + b * c + c * a)) < 1 := by
  have := iq_box_le a b c ha hb hc
  have := Real.pi_le_four
  linarith

/-- **rectangle** `a × b`: `IQ = 4π ab / (2(a+b))² ≤ π/4 < 1` -/
theorem iq2_rect_le (a b : ℝ) (ha : 0 < a) (hb : 0 < b) :
    Shape2D.iq (a * b) (2 * (a + b)) ≤ Real.pi / 4 := by
  unfold Shape2D.iq
  simp only [Scalar.lit, Scalar.sqr, Scalar.ofNat_real, Scalar.pi_real]
  have hpi := Real.pi_pos
  rw [div_le_div_iff₀ (by positivity) (by norm_num)]
  push_cast
  nlinarith [mul_nonneg hpi.le (sq_nonneg (a - b))]

/-- **regular `n`-gon** with circumradius `R` (`x = π/n`): area `n/2 · R² sin 2x`, perimeter
`2 n R sin x`; `IQ = x / tan x ≤ 1` because `x ≤ tan x` on `(0, π/2)` -/
theorem iq2_regular_le_one (n R x : ℝ) (hn : 0 < n) (hR : 0 < R) (hx0 : 0 < x) (hx1 : x < Real.pi / 2)
    (hnx : n * x = Real.pi) :
    Shape2D.iq (n / 2 * R ^ 2 * Real.sin (2 * x)) (2 * n * R * Real.sin x) ≤ 1 := by
  unfold Shape2D.iq
  simp only [Scalar.lit, Scalar.sqr, Scalar.ofNat_real, Scalar.pi_real]
  have hs : 0 < Real.sin x := Real.sin_pos_of_pos_of_lt_pi hx0 (by linarith [Real.pi_pos])
  have hc : 0 < Real.cos x := Real.cos_pos_of_mem_Ioo ⟨by linarith, hx1⟩
  have ht : x < Real.tan x := Real.lt_tan hx0 hx1
  rw [Real.tan_eq_sin_div_cos, lt_div_iff₀ hc] at ht
  rw [Real.sin_two_mul, div_le_one (by positivity), ← hnx]
  push_cast
  have : 4 * (n * x) * (n / 2 * R ^ 2 * (2 * Real.sin x * Real.cos x))
      = (4 * n ^ 2 * R ^ 2 * Real.sin x) * (x * Real.cos x) := by ring
  rw [this]
  have : 2 * n * R * Real.sin x * (2 * n * R * Real.sin x)
      = (4 * n ^ 2 * R ^ 2 * Real.sin x) * Real.sin x := by ring
  rw [this]
  exact mul_le_mul_of_nonneg_left ht.le (by positivity)

/-- **rounding keeps the planar isoperimetric deficit**: `P_r² − 4π A_r = P² − 4π A` -/
theorem isoperimetric_deficit_rounding (A P r : ℝ) :
    (SteinerSpec.steinerPerimeter2 P r) ^ 2 - 4 * Real.pi * SteinerSpec.steinerArea2 A P r
      = P ^ 2 - 4 * Real.pi * A := by
  unfold SteinerSpec.steinerPerimeter2 SteinerSpec.steinerArea2
  simp only [Scalar.lit, Scalar.ofNat_real, Scalar.pi_real]
  push_cast; ring

/-- `iq` of the rounded polygon in closed form: `1 − (P² − 4πA) / P_r²` (the deficit is constant) -/
theorem iq2_rounded_eq (A P r : ℝ) (hP : 0 < P) (hr : 0 ≤ r) :
    Shape2D.iq (SteinerSpec.steinerArea2 A P r) (SteinerSpec.steinerPerimeter2 P r)
      = 1 - (P ^ 2 - 4 * Real.pi * A) / (SteinerSpec.steinerPerimeter2 P r) ^ 2 := by
  have hd := isoperimetric_deficit_rounding A P r
  have hPr : 0 < SteinerSpec.steinerPerimeter2 P r := by
    unfold SteinerSpec.steinerPerimeter2
    simp only [Scalar.lit, Scalar.ofNat_real, Scalar.pi_real]
    have : 0 ≤ ((2 : ℕ) : ℝ) * Real.pi * r := by have := Real.pi_pos; positivity
    linarith
  unfold Shape2D.iq
  simp only [Scalar.lit, Scalar.sqr, Scalar.ofNat_real]
  rw [← hd]
  have hne : SteinerSpec.steinerPerimeter2 P r ≠ 0 := ne_of_gt hPr
  simp only [Scalar.pi_real]
  field_simp
  push_cast
  ring

/-- **rounding is monotone for the isoperimetric quotient**: when the core satisfies `4πA ≤ P²`, a larger
rounding radius never gives a smaller `iq` (and `r = 0` gives the core's own) -/
theorem iq2_rounded_mono (A P r r' : ℝ) (hP : 0 < P) (hr : 0 ≤ r) (hrr : r ≤ r')
    (hiso : 4 * Real.pi * A ≤ P ^ 2) :
    Shape2D.iq (SteinerSpec.steinerArea2 A P r) (SteinerSpec.steinerPerimeter2 P r) ≤
      Shape2D.iq (SteinerSpec.steinerArea2 A P r') (SteinerSpec.steinerPerimeter2 P r') := by
  rw [iq2_rounded_eq A P r hP hr, iq2_rounded_eq A P r' hP (le_trans hr hrr)]
  have hpi := Real.pi_pos
  have h1 : 0 < SteinerSpec.steinerPerimeter2 P r := by
    unfold SteinerSpec.steinerPerimeter2
    simp only [Scalar.lit, Scalar.ofNat_real, Scalar.pi_real]
    have : 0 ≤ ((2 : ℕ) : ℝ) * Real.pi * r := by positivity
    linarith
  have h2 : SteinerSpec.steinerPerimeter2 P r ≤ SteinerSpec.steinerPerimeter2 P r' := by
    unfold SteinerSpec.steinerPerimeter2
    simp only [Scalar.lit, Scalar.ofNat_real, Scalar.pi_real]
    have : ((2 : ℕ) : ℝ) * Real.pi * r ≤ ((2 : ℕ) : ℝ) * Real.pi * r' :=
      mul_le_mul_of_nonneg_left hrr (by positivity)
    linarith
  have hD : 0 ≤ P ^ 2 - 4 * Real.pi * A := by linarith
  have : (P ^ 2 - 4 * Real.pi * A) / (SteinerSpec.steinerPerimeter2 P r') ^ 2 ≤
      (P ^ 2 - 4 * Real.pi * A) / (SteinerSpec.steinerPerimeter2 P r) ^ 2 :=
    div_le_div_of_nonneg_left hD (by positivity) (pow_le_pow_left₀ h1.le h2 2)
  linarith

/-- `r = 0` is the core itself -/
theorem steiner2_zero (A P : ℝ) :
    SteinerSpec.steinerArea2 A P 0 = A ∧ SteinerSpec.steinerPerimeter2 P 0 = P := by
  unfold SteinerSpec.steinerArea2 SteinerSpec.steinerPerimeter2
  simp

/-- hence the rounded polygon satisfies the isoperimetric inequality iff its core does -/
theorem iq2_rounded_le_one_iff (A P r : ℝ) (hP : 0 < P) (hr : 0 ≤ r) :
    Shape2D.iq (SteinerSpec.steinerArea2 A P r) (SteinerSpec.steinerPerimeter2 P r) ≤ 1 ↔
      Shape2D.iq A P ≤ 1 := by
  have hd := isoperimetric_deficit_rounding A P r
  have hpi := Real.pi_pos
  have hPr : 0 < SteinerSpec.steinerPerimeter2 P r := by
    unfold SteinerSpec.steinerPerimeter2
    simp only [Scalar.lit, Scalar.ofNat_real, Scalar.pi_real]
    have : 0 ≤ ((2 : ℕ) : ℝ) * Real.pi * r := by positivity
    linarith
  unfold Shape2D.iq
  simp only [Scalar.lit, Scalar.sqr, Scalar.ofNat_real, Scalar.pi_real]
  rw [div_le_one (by positivity), div_le_one (by positivity)]
  push_cast
  constructor <;> intro h <;> nlinarith

/-! ### the `atan2` form of the dihedral angle -/

theorem lagrange (u v : V3 ℝ) :
    V3.normSq (V3.cross u v) + (V3.dot u v) ^ 2 = V3.normSq u * V3.normSq v := by
  simp only [V3.normSq, V3.dot, V3.cross]; ring

/-- `atan2(|n₁×n₂|, −n₁·n₂) = π − ∠(n₁, n₂)` for all non-zero normals (no unit hypothesis):
the oracle's formula is the spec's angle -/
theorem dihedralAtan2_eq (n1 n2 : V3 ℝ) (h1 : V3.norm n1 ≠ 0) (h2 : V3.norm n2 ≠ 0) :
    SteinerSpec.dihedralAtan2 n1 n2 = SteinerSpec.dihedral n1 n2 := by
  unfold SteinerSpec.dihedralAtan2 SteinerSpec.dihedral SteinerSpec.angle
  show Complex.arg ⟨-(V3.dot n1 n2), V3.norm (V3.cross n1 n2)⟩ = _
  set s := V3.norm (V3.cross n1 n2) with hs
  set d := V3.dot n1 n2 with hd
  have hs0 : 0 ≤ s := norm_nonneg _
  have hn1 : 0 < V3.norm n1 := lt_of_le_of_ne (norm_nonneg _) (Ne.symm h1)
  have hn2 : 0 < V3.norm n2 := lt_of_le_of_ne (norm_nonneg _) (Ne.symm h2)
  have hsq : s ^ 2 = V3.normSq (V3.cross n1 n2) := by
    rw [hs]; unfold V3.norm; rw [Scalar.sqrt_real, Real.sq_sqrt]
    simp only [V3.normSq, V3.dot]; exact add_nonneg (add_nonneg (mul_self_nonneg _) (mul_self_nonneg _)) (mul_self_nonneg _)
  have hq1 : V3.norm n1 ^ 2 = V3.normSq n1 := by
    unfold V3.norm; rw [Scalar.sqrt_real, Real.sq_sqrt]; simp only [V3.normSq, V3.dot]; exact add_nonneg (add_nonneg (mul_self_nonneg _) (mul_self_nonneg _)) (mul_self_nonneg _)
  have hq2 : V3.norm n2 ^ 2 = V3.normSq n2 := by
    unfold V3.norm; rw [Scalar.sqrt_real, Real.sq_sqrt]; simp only [V3.normSq, V3.dot]; exact add_nonneg (add_nonneg (mul_self_nonneg _) (mul_self_nonneg _)) (mul_self_nonneg _)
  have hlag : s ^ 2 + d ^ 2 = (V3.norm n1 * V3.norm n2) ^ 2 := by
    rw [hsq, mul_pow, hq1, hq2]; exact lagrange n1 n2
  have hz : (⟨-d, s⟩ : ℂ) ≠ 0 := by
    intro h0
    have hre : -d = 0 := by simpa using congrArg Complex.re h0
    have him : s = 0 := by simpa using congrArg Complex.im h0
    have : (V3.norm n1 * V3.norm n2) ^ 2 = 0 := by rw [← hlag, him]; nlinarith
    have := pow_eq_zero_iff (two_ne_zero) |>.mp this
    exact (mul_pos hn1 hn2).ne' this
  rw [Complex.arg_of_im_nonneg_of_ne_zero (by simpa using hs0) hz]
  have hnorm : ‖(⟨-d, s⟩ : ℂ)‖ = V3.norm n1 * V3.norm n2 := by
    rw [Complex.norm_def, Complex.normSq_mk]
    rw [show -d * -d + s * s = (V3.norm n1 * V3.norm n2) ^ 2 by rw [← hlag]; ring]
    exact Real.sqrt_sq (mul_pos hn1 hn2).le
  rw [hnorm]
  simp only [Scalar.pi_real, Scalar.acos_real]
  rw [neg_div, Real.arccos_neg]

end
end Steiner
