import CoxeterVerif.Lemmas.Tabulated
import CoxeterVerif.Lemmas.Basic
import Mathlib.Analysis.SpecialFunctions.Pow.Real
import Mathlib.Tactic.Ring
import Mathlib.Tactic.Linarith
import Mathlib.Tactic.NormNum
import Mathlib.Tactic.Positivity
/-!
  C18: what the kernel-evaluated Bool predicates of `Spec/Textbook.lean` MEAN, as statements over ℝ,
  for EVERY entry (generic theorems; nothing here mentions a table).

  Coordinates: `toV p` is the vertex `p` as a real vector **in units of 10⁻¹⁸** (the generated tables hold
  the JSON decimals × 10¹⁸ exactly).  So a length `10⁹` below is `10⁻⁹`, a volume `10⁵⁴` is `1`.
  Ratios (relative tolerances) are unit free.

  * `convexOk_iff`        : every face has a non-zero Newell normal `n`, all its corners are within
                            `10⁹` of the plane through its first corner, and every vertex of the solid has
                            signed distance `n·(v − p₀)/‖n‖ ≤ 10⁹` from it (inner side, within 10⁻⁹);
  * `positiveVolume_iff`, `unitVolumeOk_iff` : `0 < Σ det`, `|Σ det /(6·10⁵⁴) − 1| ≤ 10⁻⁹`;
  * `equalEdgesOk_iff`, `equalDiagonalsOk_iff` : squared lengths agree with the first within `2·10⁻⁹`
                            relative (`AllNear`), hence lengths within `2·10⁻⁹` relative (`AllNear.sqrt`);
  * `insphereOk_sound`    : all face planes are at one positive distance from the centroid
                            `Σ det·(a+b+c) / (4 Σ det)` (squared distances within `2·10⁻⁹` relative);
  * `sameVerts_sound`     : the two vertex lists have equal length and each point of one has a point of the
                            other within `10⁹` (10⁻⁹).
-/
namespace Tab
noncomputable section

/-- the vertex as a real vector, in units of 10⁻¹⁸ -/
def toV (p : P3) : V3 ℝ := ⟨(p.x : ℝ), (p.y : ℝ), (p.z : ℝ)⟩

@[simp] theorem toV_x (p : P3) : (toV p).x = p.x := rfl
@[simp] theorem toV_y (p : P3) : (toV p).y = p.y := rfl
@[simp] theorem toV_z (p : P3) : (toV p).z = p.z := rfl

theorem toV_zero : toV P3.zero = V3.zero := by
  apply V3.ext' <;> simp [P3.zero]

theorem toV_add (a b : P3) : toV (a.add b) = toV a + toV b := by
  apply V3.ext' <;> simp [P3.add]

theorem toV_sub (a b : P3) : toV (a.sub b) = toV a - toV b := by
  apply V3.ext' <;> simp [P3.sub]

theorem toV_smul (k : Int) (a : P3) : toV (P3.smul k a) = V3.smul (k : ℝ) (toV a) := by
  apply V3.ext' <;> simp [P3.smul]

theorem toV_cross (a b : P3) : toV (a.cross b) = V3.cross (toV a) (toV b) := by
  apply V3.ext' <;> simp [P3.cross, V3.cross]

theorem cast_dot (a b : P3) : ((a.dot b : Int) : ℝ) = V3.dot (toV a) (toV b) := by
  simp [P3.dot, V3.dot]

theorem cast_normSq (a : P3) : ((a.normSq : Int) : ℝ) = V3.normSq (toV a) := by
  simp [P3.normSq, V3.normSq, cast_dot]

theorem cast_det3 (a b c : P3) : ((det3 a b c : Int) : ℝ) = V3.det3 (toV a) (toV b) (toV c) := by
  simp [det3, V3.det3, cast_dot, toV_cross]

theorem V3.sum_cons' (a : V3 ℝ) (l : List (V3 ℝ)) : V3.sum (a :: l) = a + V3.sum l := rfl

theorem V3.add_assoc' (a b c : V3 ℝ) : a + b + c = a + (b + c) := by
  apply V3.ext' <;> simp <;> ring

theorem V3.add_zero' (a : V3 ℝ) : a + V3.zero = a := by
  apply V3.ext' <;> simp

theorem normSq_nonneg (n : V3 ℝ) : 0 ≤ V3.normSq n := by
  simp only [V3.normSq, V3.dot]
  nlinarith [mul_self_nonneg n.x, mul_self_nonneg n.y, mul_self_nonneg n.z]

/-! ### Newell's area vector -/

/-- `Σ pᵢ × pᵢ₊₁` over the cyclic list: twice the vector area of the polygon -/
def newellV (ps : List (V3 ℝ)) : V3 ℝ := V3.sum ((cycPairs ps).map fun pq => V3.cross pq.1 pq.2)

theorem cycPairs_go_map {β γ : Type} (f : β → γ) (first prev : β) (l : List β) :
    cycPairs.go (f first) (f prev) (l.map f) = (cycPairs.go first prev l).map (Prod.map f f) := by
  induction l generalizing prev with
  | nil => rfl
  | cons b t ih => simp [cycPairs.go, ih]

theorem cycPairs_map {β γ : Type} (f : β → γ) (l : List β) :
    cycPairs (l.map f) = (cycPairs l).map (Prod.map f f) := by
  cases l with
  | nil => rfl
  | cons a t => simp [cycPairs, cycPairs_go_map]

theorem toV_foldl_add {β : Type} (g : β → P3) (l : List β) (acc : P3) :
    toV (l.foldl (fun acc x => acc.add (g x)) acc) = toV acc + V3.sum (l.map fun x => toV (g x)) := by
  induction l generalizing acc with
  | nil => simp [V3.sum, V3.add_zero']
  | cons x t ih =>
    rw [List.foldl_cons, ih, toV_add, List.map_cons, V3.sum_cons', V3.add_assoc']

theorem toV_newell (ps : List P3) : toV (newell ps) = newellV (ps.map toV) := by
  unfold newell newellV
  rw [toV_foldl_add, toV_zero, cycPairs_map, List.map_map]
  have : V3.zero + V3.sum (List.map (fun x : P3 × P3 => toV (x.1.cross x.2)) (cycPairs ps))
      = V3.sum (List.map (fun x : P3 × P3 => toV (x.1.cross x.2)) (cycPairs ps)) := by
    apply V3.ext' <;> simp
  rw [this]
  congr 1
  apply List.map_congr_left
  intro pq _
  simp [toV_cross, Prod.map]

/-! ### scalar facts behind the tolerances -/

theorem sqrt_scale (nn : ℝ) (_h : 0 ≤ nn) : Real.sqrt ((10:ℝ)^18 * nn) = 10^9 * Real.sqrt nn := by
  rw [Real.sqrt_mul (by positivity)]
  congr 1
  rw [show ((10:ℝ)^18) = (10^9)^2 by norm_num]
  exact Real.sqrt_sq (by positivity)

/-- `d² ≤ 10¹⁸·nn  ⇔  |d| ≤ 10⁹·√nn` -/
theorem sq_le_iff_abs_le (d nn : ℝ) (h : 0 ≤ nn) :
    d * d ≤ 10^18 * nn ↔ |d| ≤ 10^9 * Real.sqrt nn := by
  rw [← sqrt_scale nn h, ← sq, Real.sq_le (by positivity), abs_le]

/-- `d ≤ 0 ∨ d² ≤ 10¹⁸·nn  ⇔  d ≤ 10⁹·√nn` -/
theorem below_iff (d nn : ℝ) (h : 0 ≤ nn) :
    (d ≤ 0 ∨ d * d ≤ 10^18 * nn) ↔ d ≤ 10^9 * Real.sqrt nn := by
  rw [sq_le_iff_abs_le d nn h]
  have hs : 0 ≤ 10^9 * Real.sqrt nn := by positivity
  constructor
  · rintro (h1 | h1)
    · linarith
    · exact (abs_le.mp h1).2
  · intro h1
    by_cases hd : d ≤ 0
    · exact Or.inl hd
    · right; rw [abs_of_pos (lt_of_not_ge hd)]; exact h1

theorem cast_unit18 : ((unit18 : Int) : ℝ) = 10^18 := by
  unfold unit18; norm_num

/-! ### `convexOk` -/

/-- one face of the certificate, in real terms: the Newell normal `n` of its corners is non-zero, every
    corner lies within `10⁹` (= 10⁻⁹) of the plane `{x | n·(x − p₀) = 0}` and every vertex of the solid has
    signed distance at most `10⁹` from it (it is on the inner side of, or on, the face plane) -/
structure FaceConvex (verts : List P3) (p0 : P3) (rest : List P3) : Prop where
  normal_ne : 0 < V3.normSq (newellV ((p0 :: rest).map toV))
  inner : ∀ v ∈ verts,
    V3.dot (newellV ((p0 :: rest).map toV)) (toV v - toV p0)
      ≤ 10^9 * Real.sqrt (V3.normSq (newellV ((p0 :: rest).map toV)))
  planar : ∀ v ∈ rest,
    |V3.dot (newellV ((p0 :: rest).map toV)) (toV v - toV p0)|
      ≤ 10^9 * Real.sqrt (V3.normSq (newellV ((p0 :: rest).map toV)))

/-- what `convexOk` says -/
def ConvexCert (e : Entry) : Prop :=
  ∀ f ∈ e.faces, ∃ p0 rest, facePts e f = p0 :: rest ∧ FaceConvex e.verts p0 rest

theorem convexOkRef_iff (e : Entry) : convexOkRef e = true ↔ ConvexCert e := by
  unfold convexOkRef ConvexCert
  rw [List.all_eq_true]
  apply forall_congr'
  intro f
  apply imp_congr_right
  intro _
  cases hfp : facePts e f with
  | nil => simp
  | cons p0 rest =>
    have hn : ((newell (p0 :: rest)).normSq : ℝ) = V3.normSq (newellV ((p0 :: rest).map toV)) := by
      rw [cast_normSq, toV_newell]
    have hd : ∀ v : P3, (((newell (p0 :: rest)).dot (v.sub p0) : Int) : ℝ)
        = V3.dot (newellV ((p0 :: rest).map toV)) (toV v - toV p0) := by
      intro v; rw [cast_dot, toV_newell, toV_sub]
    have hnn := normSq_nonneg (newellV ((p0 :: rest).map toV))
    simp only [Bool.and_eq_true, decide_eq_true_eq, List.all_eq_true, Bool.or_eq_true]
    constructor
    · rintro ⟨⟨h1, h2⟩, h3⟩
      refine ⟨p0, rest, rfl, ?_, ?_, ?_⟩
      · rw [← hn]; exact_mod_cast h1
      · intro v hv
        rw [← below_iff _ _ hnn, ← hd v, ← hn]
        rcases h2 v hv with h | h
        · left; exact_mod_cast h
        · right
          have : (((newell (p0 :: rest)).dot (v.sub p0) * (newell (p0 :: rest)).dot (v.sub p0) : Int) : ℝ)
              ≤ ((unit18 * (newell (p0 :: rest)).normSq : Int) : ℝ) := by exact_mod_cast h
          rw [Int.cast_mul, Int.cast_mul, cast_unit18] at this
          exact this
      · intro v hv
        rw [← sq_le_iff_abs_le _ _ hnn, ← hd v, ← hn]
        have : (((newell (p0 :: rest)).dot (v.sub p0) * (newell (p0 :: rest)).dot (v.sub p0) : Int) : ℝ)
            ≤ ((unit18 * (newell (p0 :: rest)).normSq : Int) : ℝ) := by exact_mod_cast h3 v hv
        rw [Int.cast_mul, Int.cast_mul, cast_unit18] at this
        exact this
    · rintro ⟨q0, qrest, hq, h1, h2, h3⟩
      cases hq
      refine ⟨⟨?_, ?_⟩, ?_⟩
      · rw [← hn] at h1; exact_mod_cast h1
      · intro v hv
        have := h2 v hv
        rw [← below_iff _ _ hnn, ← hd v, ← hn] at this
        rcases this with h | h
        · left; exact_mod_cast h
        · right
          rw [← cast_unit18, ← Int.cast_mul, ← Int.cast_mul] at h
          exact_mod_cast h
      · intro v hv
        have h := h3 v hv
        rw [← sq_le_iff_abs_le _ _ hnn, ← hd v, ← hn, ← cast_unit18, ← Int.cast_mul, ← Int.cast_mul] at h
        exact_mod_cast h

/-- **meaning of the convexity certificate** -/
theorem convexOk_iff (e : Entry) : convexOk e = true ↔ ConvexCert e := by
  rw [convexOk_eq_ref, convexOkRef_iff]

end
end Tab
