import CoxeterVerif.Lemmas.Chain
import CoxeterVerif.Spec.Solid
import CoxeterVerif.Model.ConvexPolyhedron
/-! Helper lemmas for C01/C02: per-tetrahedron identities and spec-level translation laws. -/
open Scalar

/-- simp set that turns model/spec expressions at ℝ into plain real polynomial expressions -/
macro "unfold_model" : tactic => `(tactic|
  simp only [Scalar.sum_real, List.map_cons, List.map_nil, List.sum_cons, List.sum_nil,
    List.zipWith_cons_cons, List.zipWith_nil_right, List.zipWith_nil_left,
    V3.det3, V3.dot, V3.cross, V3.normSq, Scalar.lit, Scalar.q, Scalar.sqr, Scalar.cube, Scalar.ofNat_real,
    V3.add_x, V3.add_y, V3.add_z, V3.sub_x, V3.sub_y, V3.sub_z, V3.smul_x, V3.smul_y, V3.smul_z,
    V3.sdiv_x, V3.sdiv_y, V3.sdiv_z, V3.had_x, V3.had_y, V3.had_z, V3.neg_x, V3.neg_y, V3.neg_z,
    V3.get_zero, V3.get_one, V3.get_two, Tri.rot, Tri.rev, Tri.map, Tri.nvec, Tet.bdry, Tet.map,
    Nat.cast_ofNat, Nat.cast_one, Nat.cast_zero])

namespace Spec

theorem vol_eq (Ts : List (Tet ℝ)) : vol Ts = (Ts.map tetVol).sum := by simp [vol]
theorem second_eq (Ts : List (Tet ℝ)) (i j : Nat) : second Ts i j = (Ts.map (tetSecond · i j)).sum := by
  simp [second]
theorem first_x (Ts : List (Tet ℝ)) : (first Ts).x = (Ts.map fun T => (tetFirst T).x).sum := by
  simp [first, V3.sum_x, List.map_map, Function.comp_def]
theorem first_y (Ts : List (Tet ℝ)) : (first Ts).y = (Ts.map fun T => (tetFirst T).y).sum := by
  simp [first, V3.sum_y, List.map_map, Function.comp_def]
theorem first_z (Ts : List (Tet ℝ)) : (first Ts).z = (Ts.map fun T => (tetFirst T).z).sum := by
  simp [first, V3.sum_z, List.map_map, Function.comp_def]

end Spec

set_option maxRecDepth 4000
noncomputable section


/-! volume -/
def volPhi (t : Tri ℝ) : ℝ := V3.det3 t.a t.b t.c / lit 6

theorem volPhi_oddCyclic : OddCyclic volPhi := by
  constructor <;> intro ⟨⟨ax,ay,az⟩,⟨bx,b_y,bz⟩,⟨cx,cy,cz⟩⟩ <;> unfold volPhi <;> unfold_model <;> ring

theorem volPhi_tet (T : Tet ℝ) : sumOver volPhi T.bdry = Spec.tetVol T := by
  obtain ⟨⟨ax,ay,az⟩,⟨bx,b_y,bz⟩,⟨cx,cy,cz⟩,⟨dx,dy,dz⟩⟩ := T
  unfold sumOver volPhi Spec.tetVol; unfold_model; ring

theorem signedVolume_eq_sumOver (S : List (Tri ℝ)) : CP.signedVolume S = sumOver volPhi S := by
  simp only [CP.signedVolume, sumOver, Scalar.sum_real]; rfl

theorem signedVolume_chain {S : List (Tri ℝ)} {Ts : List (Tet ℝ)}
    (h : ChainEq S (Ts.flatMap Tet.bdry)) : CP.signedVolume S = Spec.vol Ts := by
  rw [signedVolume_eq_sumOver, sumOver_bdry volPhi_oddCyclic volPhi_tet h, Spec.vol_eq]

/-! centroid -/
def cenPhi (i : Nat) (t : Tri ℝ) : ℝ := (CP.centroidTerm t).get i

macro "cases3" i:ident : tactic => `(tactic|
  (have h3 : $i = 0 ∨ $i = 1 ∨ $i = 2 := by omega
   rcases h3 with h3 | h3 | h3 <;> subst h3))

theorem cenPhi_oddCyclic (i : Nat) (hi : i < 3) : OddCyclic (cenPhi i) := by
  cases3 i <;> constructor <;> intro ⟨⟨ax,ay,az⟩,⟨bx,b_y,bz⟩,⟨cx,cy,cz⟩⟩ <;>
    unfold cenPhi CP.centroidTerm <;> unfold_model <;> ring

theorem cenPhi_tet (i : Nat) (hi : i < 3) (T : Tet ℝ) :
    sumOver (cenPhi i) T.bdry = 48 * (Spec.tetFirst T).get i := by
  obtain ⟨⟨ax,ay,az⟩,⟨bx,b_y,bz⟩,⟨cx,cy,cz⟩,⟨dx,dy,dz⟩⟩ := T
  cases3 i <;> unfold sumOver cenPhi CP.centroidTerm Spec.tetFirst Spec.tetVol Spec.tetSum <;>
    unfold_model <;> ring


macro "casespair" i:ident j:ident : tactic => `(tactic|
  (have h3 : ($i = 0 ∧ $j = 1) ∨ ($i = 0 ∧ $j = 2) ∨ ($i = 1 ∧ $j = 2) := by omega
   rcases h3 with ⟨h3, h4⟩ | ⟨h3, h4⟩ | ⟨h3, h4⟩ <;> subst h3 <;> subst h4))

/-- polynomial form of `innTerm` (unit normal × doubled area replaced by the normal vector) -/
def innPhi (s0 s1 : Nat) (t : Tri ℝ) : ℝ :=
  t.nvec.get s0 * CP.quad t (fun p => cube (p.get s0)) + t.nvec.get s1 * CP.quad t (fun p => cube (p.get s1))

def inmPhi (s0 s1 : Nat) (t : Tri ℝ) : ℝ :=
  CP.quad t (fun p => sqr (p.get s0) * p.get s1) * t.nvec.get s0 +
  CP.quad t (fun p => p.get s0 * sqr (p.get s1)) * t.nvec.get s1

theorem innPhi_oddCyclic (s0 s1 : Nat) (h0 : s0 < s1) (h1 : s1 < 3) : OddCyclic (innPhi s0 s1) := by
  casespair s0 s1 <;> constructor <;> intro ⟨⟨ax,ay,az⟩,⟨bx,b_y,bz⟩,⟨cx,cy,cz⟩⟩ <;>
    unfold innPhi CP.quad CP.quadWeights CP.quadPoints <;> unfold_model <;> ring

theorem inmPhi_oddCyclic (s0 s1 : Nat) (h0 : s0 < s1) (h1 : s1 < 3) : OddCyclic (inmPhi s0 s1) := by
  casespair s0 s1 <;> constructor <;> intro ⟨⟨ax,ay,az⟩,⟨bx,b_y,bz⟩,⟨cx,cy,cz⟩⟩ <;>
    unfold inmPhi CP.quad CP.quadWeights CP.quadPoints <;> unfold_model <;> ring

theorem innPhi_tet (s0 s1 : Nat) (h0 : s0 < s1) (h1 : s1 < 3) (T : Tet ℝ) :
    sumOver (innPhi s0 s1) T.bdry = 6 * (Spec.tetSecond T s0 s0 + Spec.tetSecond T s1 s1) := by
  obtain ⟨⟨ax,ay,az⟩,⟨bx,b_y,bz⟩,⟨cx,cy,cz⟩,⟨dx,dy,dz⟩⟩ := T
  casespair s0 s1 <;>
    unfold sumOver innPhi CP.quad CP.quadWeights CP.quadPoints Spec.tetSecond Spec.tetVol Spec.tetSum <;>
    unfold_model <;> ring

theorem inmPhi_tet (s0 s1 : Nat) (h0 : s0 < s1) (h1 : s1 < 3) (T : Tet ℝ) :
    sumOver (inmPhi s0 s1) T.bdry = 8 * Spec.tetSecond T s0 s1 := by
  obtain ⟨⟨ax,ay,az⟩,⟨bx,b_y,bz⟩,⟨cx,cy,cz⟩,⟨dx,dy,dz⟩⟩ := T
  casespair s0 s1 <;>
    unfold sumOver inmPhi CP.quad CP.quadWeights CP.quadPoints Spec.tetSecond Spec.tetVol Spec.tetSum <;>
    unfold_model <;> ring



theorem nvec_map_sub (t : Tri ℝ) (c : V3 ℝ) : (t.map (· - c)).nvec = t.nvec := by
  obtain ⟨⟨ax,ay,az⟩,⟨bx,b_y,bz⟩,⟨cx,cy,cz⟩⟩ := t
  ext <;> unfold_model <;> ring

theorem triArea_two (t : Tri ℝ) : CP.triArea t * lit 2 = V3.norm t.nvec := by
  obtain ⟨⟨ax,ay,az⟩,⟨bx,b_y,bz⟩,⟨cx,cy,cz⟩⟩ := t
  unfold CP.triArea V3.norm
  have : V3.normSq (V3.cross ((⟨cx,cy,cz⟩ : V3 ℝ) - ⟨bx,b_y,bz⟩) (⟨ax,ay,az⟩ - ⟨bx,b_y,bz⟩)) =
      V3.normSq (Tri.nvec ⟨⟨ax,ay,az⟩,⟨bx,b_y,bz⟩,⟨cx,cy,cz⟩⟩) := by unfold_model; ring
  rw [this]; simp only [Scalar.lit, Scalar.ofNat_real]; push_cast; ring

theorem simplexNormal_get (t : Tri ℝ) (h : V3.norm t.nvec ≠ 0) (i : Nat) :
    (CP.simplexNormal t).get i * V3.norm t.nvec = t.nvec.get i := by
  unfold CP.simplexNormal
  change (V3.sdiv t.nvec (V3.norm t.nvec)).get i * V3.norm t.nvec = t.nvec.get i
  unfold V3.get V3.sdiv
  split_ifs <;> field_simp

/-- spec-level translation law for second moments -/
theorem tetSecond_translate (T : Tet ℝ) (c : V3 ℝ) (i j : Nat) (hi : i < 3) (hj : j < 3) :
    Spec.tetSecond (T.map (· - c)) i j =
      Spec.tetSecond T i j - c.get i * (Spec.tetFirst T).get j - c.get j * (Spec.tetFirst T).get i
        + c.get i * c.get j * Spec.tetVol T := by
  obtain ⟨⟨ax,ay,az⟩,⟨bx,b_y,bz⟩,⟨cx,cy,cz⟩,⟨dx,dy,dz⟩⟩ := T
  obtain ⟨c1,c2,c3⟩ := c
  cases3 i <;> cases3 j <;> unfold Spec.tetSecond Spec.tetFirst Spec.tetVol Spec.tetSum <;>
    unfold_model <;> ring


theorem first_get (Ts : List (Tet ℝ)) (i : Nat) (hi : i < 3) :
    (Spec.first Ts).get i = (Ts.map fun T => (Spec.tetFirst T).get i).sum := by
  cases3 i
  · simpa using Spec.first_x Ts
  · simpa using Spec.first_y Ts
  · simpa using Spec.first_z Ts

theorem V3.ext_get {u v : V3 ℝ} (h : ∀ i, i < 3 → u.get i = v.get i) : u = v := by
  have h0 := h 0 (by omega); have h1 := h 1 (by omega); have h2 := h 2 (by omega)
  simp only [V3.get_zero, V3.get_one, V3.get_two] at h0 h1 h2
  exact V3.ext' h0 h1 h2

theorem second_translate (Ts : List (Tet ℝ)) (c : V3 ℝ) (i j : Nat) (hi : i < 3) (hj : j < 3) :
    Spec.second (Ts.map (Tet.map (· - c))) i j =
      Spec.second Ts i j - c.get i * (Spec.first Ts).get j - c.get j * (Spec.first Ts).get i
        + c.get i * c.get j * Spec.vol Ts := by
  rw [Spec.second_eq, Spec.second_eq, first_get Ts j hj, first_get Ts i hi, Spec.vol_eq]
  induction Ts with
  | nil => simp
  | cons T Ts ih =>
    simp only [List.map_cons, List.sum_cons, List.map_map] at ih ⊢
    rw [tetSecond_translate T c i j hi hj]
    have := ih
    simp only [Function.comp_def] at this ⊢
    linarith

/-- centred second moments: with `c` the centroid, `M(Ts − c) = M(Ts) − vol · c cᵀ` -/
theorem second_centred (Ts : List (Tet ℝ)) (i j : Nat) (hi : i < 3) (hj : j < 3)
    (hv : Spec.vol Ts ≠ 0) :
    Spec.second (Ts.map (Tet.map (· - Spec.centroid Ts))) i j =
      Spec.second Ts i j - Spec.vol Ts * (Spec.centroid Ts).get i * (Spec.centroid Ts).get j := by
  rw [second_translate Ts _ i j hi hj]
  have hc : ∀ k, k < 3 → (Spec.first Ts).get k = Spec.vol Ts * (Spec.centroid Ts).get k := by
    intro k hk; unfold Spec.centroid
    cases3 k <;> simp only [V3.get_zero, V3.get_one, V3.get_two, V3.sdiv_x, V3.sdiv_y, V3.sdiv_z] <;>
      field_simp
  rw [hc i hi, hc j hj]; ring

theorem M3.ext' {A B : M3 ℝ} (h1 : A.xx = B.xx) (h2 : A.xy = B.xy) (h3 : A.xz = B.xz)
    (h4 : A.yx = B.yx) (h5 : A.yy = B.yy) (h6 : A.yz = B.yz) (h7 : A.zx = B.zx)
    (h8 : A.zy = B.zy) (h9 : A.zz = B.zz) : A = B := by
  cases A; cases B; simp_all



theorem vol_translate (Ts : List (Tet ℝ)) (c : V3 ℝ) :
    Spec.vol (Ts.map (Tet.map (· - c))) = Spec.vol Ts := by
  rw [Spec.vol_eq, Spec.vol_eq, List.map_map]
  congr 1
  apply List.map_congr_left
  intro T _
  obtain ⟨⟨ax,ay,az⟩,⟨bx,b_y,bz⟩,⟨cx,cy,cz⟩,⟨dx,dy,dz⟩⟩ := T
  obtain ⟨c1,c2,c3⟩ := c
  simp only [Function.comp, Spec.tetVol]; unfold_model; ring


end
