import CoxeterVerif.Lemmas.Inside3DCheck
/-!
  Axis-aligned boxes over ℚ with all the certificate data of `exactFacetsCheck` / `spheroExactCheck`,
  and the kernel-evaluated instance: the unit cube with rounding radius 1/2.
-/
open Scalar Inside3D Spec.In3D

namespace Inside3D

/-- axis-aligned box `[lo, hi]`: vertices, planes, outward triangles with planes, faces -/
def boxC (lo hi : V3 ℚ) (i j k : Bool) : V3 ℚ :=
  ⟨if i then hi.x else lo.x, if j then hi.y else lo.y, if k then hi.z else lo.z⟩
def boxV (lo hi : V3 ℚ) : List (V3 ℚ) :=
  [boxC lo hi false false false, boxC lo hi true false false, boxC lo hi false true false, boxC lo hi true true false,
   boxC lo hi false false true, boxC lo hi true false true, boxC lo hi false true true, boxC lo hi true true true]
def boxPlanes (lo hi : V3 ℚ) : List (V3 ℚ × ℚ) :=
  [(⟨-1, 0, 0⟩, lo.x), (⟨1, 0, 0⟩, -hi.x), (⟨0, -1, 0⟩, lo.y), (⟨0, 1, 0⟩, -hi.y), (⟨0, 0, -1⟩, lo.z), (⟨0, 0, 1⟩, -hi.z)]
/-- the six faces as outward counter-clockwise vertex cycles, in the order of `boxPlanes` -/
def boxCycles (lo hi : V3 ℚ) : List (List (V3 ℚ)) :=
  let c := boxC lo hi
  [[c false false false, c false false true, c false true true, c false true false],
   [c true false false, c true true false, c true true true, c true false true],
   [c false false false, c true false false, c true false true, c false false true],
   [c false true false, c false true true, c true true true, c true true false],
   [c false false false, c false true false, c true true false, c true false false],
   [c false false true, c true false true, c true true true, c false true true]]
def fanQ (e : V3 ℚ × ℚ) : List (V3 ℚ) → List (Tri ℚ × V3 ℚ × ℚ)
  | a :: b :: c :: d :: _ => [(⟨a, b, c⟩, e), (⟨a, c, d⟩, e)]
  | _ => []
def boxF (lo hi : V3 ℚ) : List (Tri ℚ × V3 ℚ × ℚ) :=
  (List.zipWith fanQ (boxPlanes lo hi) (boxCycles lo hi)).flatten
def w8 : List ℚ := List.replicate 8 (1/8)
/-- face data of the box as the core of a spheropolyhedron of radius `r`: the extruded prism of a face
is the box thickened by `r` on both sides of the face plane -/
def boxFaces (lo hi : V3 ℚ) (r : ℚ) : List (FaceC ℚ) :=
  let slab (ax : Nat) (c : ℚ) : V3 ℚ × V3 ℚ :=
    if ax = 0 then (⟨c - r, lo.y, lo.z⟩, ⟨c + r, hi.y, hi.z⟩)
    else if ax = 1 then (⟨lo.x, c - r, lo.z⟩, ⟨hi.x, c + r, hi.z⟩)
    else (⟨lo.x, lo.y, c - r⟩, ⟨hi.x, hi.y, c + r⟩)
  let coords : List (Nat × ℚ) := [(0, lo.x), (0, hi.x), (1, lo.y), (1, hi.y), (2, lo.z), (2, hi.z)]
  List.zipWith (fun (ec : (V3 ℚ × ℚ) × List (V3 ℚ)) (ac : Nat × ℚ) =>
      let s := slab ac.1 ac.2
      (⟨ec.1.1, ec.1.2, boxPlanes s.1 s.2, ec.2, w8, boxF s.1 s.2⟩ : FaceC ℚ))
    ((boxPlanes lo hi).zip (boxCycles lo hi)) coords

def cube0 : V3 ℚ := ⟨0, 0, 0⟩
def cube1 : V3 ℚ := ⟨1, 1, 1⟩

theorem cube_exact : exactFacetsCheck (boxV cube0 cube1) (boxPlanes cube0 cube1) w8 (boxF cube0 cube1) = true := by
  decide +kernel

theorem cube_sphero_check :
    spheroExactCheck (boxV cube0 cube1) (1/2) (boxFaces cube0 cube1 (1/2)) w8 (boxF cube0 cube1) = true := by
  decide +kernel

end Inside3D
