import CoxeterVerif.Lemmas.DistToSurfaceSpheroExact
/-!
  C14, spheropolygon: the offset polygon `new_verts` of a strictly convex counter-clockwise core
  around the centre is itself strictly convex counter-clockwise around the centre (hypothesis `HP`
  of `spg_dts_correct_partial`, derived).
-/
open Scalar
set_option maxRecDepth 4000
noncomputable section
namespace DTS

/-- `n1·x = n2·x = r`: the two cross products agree, `κ (1 + c) = s r` -/
theorem offset_vec_kappa (n1 n2 x : P2 ℝ) (r : ℝ) (hr : 0 ≤ r)
    (a1 : n1.x * n1.x + n1.y * n1.y = 1) (b1 : n2.x * n2.x + n2.y * n2.y = 1)
    (hs : 0 < n1.x * n2.y - n1.y * n2.x)
    (h1 : n1.x * x.x + n1.y * x.y = r) (h2 : n2.x * x.x + n2.y * x.y = r) :
    ∃ κ : ℝ, 0 ≤ κ ∧ n1.x * x.y - n1.y * x.x = κ ∧ x.x * n2.y - x.y * n2.x = κ ∧
      κ * (1 + (n1.x * n2.x + n1.y * n2.y)) = (n1.x * n2.y - n1.y * n2.x) * r := by
  set c := n1.x * n2.x + n1.y * n2.y with hc
  set s := n1.x * n2.y - n1.y * n2.x with hsdef
  set P := x.x * n2.y - x.y * n2.x with hP
  set Q := n1.x * x.y - n1.y * x.x with hQ
  have hcs : c ^ 2 + s ^ 2 = 1 := by
    have : c ^ 2 + s ^ 2 = (n1.x * n1.x + n1.y * n1.y) * (n2.x * n2.x + n2.y * n2.y) := by
      rw [hc, hsdef]; ring
    rw [this, a1, b1]; ring
  have hc1 : 0 < 1 - c := by nlinarith [sq_nonneg (c - 1)]
  have e1 : s * r = P + Q * c := by
    rw [← h1, hsdef, hP, hQ, hc]; linear_combination (x.x * n2.y - x.y * n2.x) * a1
  have e2 : s * r = P * c + Q := by
    rw [← h2, hsdef, hP, hQ, hc]; linear_combination (n1.x * x.y - n1.y * x.x) * b1
  have hPQ : P = Q := by
    have : (P - Q) * (1 - c) = 0 := by linarith
    rcases mul_eq_zero.mp this with h | h
    · linarith
    · linarith
  obtain ⟨hq0, _⟩ := offset_vec_cross n1 n2 x r hr a1 b1 hs h1 h2
  refine ⟨Q, hq0, rfl, hPQ, ?_⟩
  rw [e2, hPQ]; ring

/-- **edge normals in cyclic order**: a unit vector `n` that is NOT a non-negative combination of
the unit vectors `n1`, `n2` (`cross(n1,n2) > 0`) satisfies `n·n1 + n·n2 ≤ 1 + n1·n2` -/
theorem normal_cone_excl (n n1 n2 : P2 ℝ)
    (an : n.x * n.x + n.y * n.y = 1) (a1 : n1.x * n1.x + n1.y * n1.y = 1) (b1 : n2.x * n2.x + n2.y * n2.y = 1)
    (hs : 0 < n1.x * n2.y - n1.y * n2.x)
    (hnot : ¬ (0 ≤ n.x * n2.y - n.y * n2.x ∧ 0 ≤ n1.x * n.y - n1.y * n.x)) :
    (n1.x * n2.y - n1.y * n2.x) * ((n.x * n1.x + n.y * n1.y) + (n.x * n2.x + n.y * n2.y)) ≤
      (n1.x * n2.y - n1.y * n2.x) * (1 + (n1.x * n2.x + n1.y * n2.y)) := by
  set c := n1.x * n2.x + n1.y * n2.y with hc
  set s := n1.x * n2.y - n1.y * n2.x with hsdef
  set A := n.x * n2.y - n.y * n2.x with hA
  set B := n1.x * n.y - n1.y * n.x with hB
  have hcs : c ^ 2 + s ^ 2 = 1 := by
    have : c ^ 2 + s ^ 2 = (n1.x * n1.x + n1.y * n1.y) * (n2.x * n2.x + n2.y * n2.y) := by
      rw [hc, hsdef]; ring
    rw [this, a1, b1]; ring
  have h1c : 0 < 1 + c := by nlinarith [sq_nonneg (c + 1)]
  have hc1 : 0 < 1 - c := by nlinarith [sq_nonneg (c - 1)]
  have e1 : s * (n.x * n1.x + n.y * n1.y) = A + B * c := by
    rw [hsdef, hA, hB, hc]; linear_combination (n.x * n2.y - n.y * n2.x) * a1
  have e2 : s * (n.x * n2.x + n.y * n2.y) = A * c + B := by
    rw [hsdef, hA, hB, hc]; linear_combination (n1.x * n.y - n1.y * n.x) * b1
  have e3 : s ^ 2 = A ^ 2 + B ^ 2 + 2 * A * B * c := by
    have : s ^ 2 * (n.x * n.x + n.y * n.y) =
        A ^ 2 * (n1.x * n1.x + n1.y * n1.y) + B ^ 2 * (n2.x * n2.x + n2.y * n2.y) + 2 * A * B * c := by
      rw [hsdef, hA, hB, hc]; ring
    rw [an, a1, b1] at this; linarith
  have hsum : s * ((n.x * n1.x + n.y * n1.y) + (n.x * n2.x + n.y * n2.y)) = (A + B) * (1 + c) := by
    rw [mul_add, e1, e2]; ring
  rw [hsum]
  have hAB : A + B ≤ s := by
    have hsq : (A + B) ^ 2 = s ^ 2 + 2 * A * B * (1 - c) := by rw [e3]; ring
    rw [not_and_or, not_le, not_le] at hnot
    by_contra hgt
    have hgt : s < A + B := not_le.mp hgt
    have h1 : s ^ 2 < (A + B) ^ 2 := by nlinarith
    have hABpos : 0 < A * B := by
      have : 0 < 2 * A * B * (1 - c) := by linarith
      have : 0 < (A * B) * (2 * (1 - c)) := by linarith
      exact (pos_iff_pos_of_mul_pos this).mpr (by linarith)
    rcases hnot with hA' | hB'
    · have hB' : B < 0 := by
        by_contra h; have := mul_nonpos_of_nonpos_of_nonneg hA'.le (not_lt.mp h); linarith
      linarith
    · have hA' : A < 0 := by
        by_contra h; have := mul_nonpos_of_nonneg_of_nonpos (not_lt.mp h) hB'.le; linarith
      linarith
  exact mul_le_mul_of_nonneg_right hAB h1c.le |>.trans_eq (by ring)

/-- in a list without repeated vertices every vertex has ONE successor … -/
theorem edge_unique_succ (W : List (P2 ℝ)) (hnd : W.Nodup) (x y y' : P2 ℝ)
    (h : (x, y) ∈ Spec.edgesOf W) (h' : (x, y') ∈ Spec.edgesOf W) : y = y' := by
  rw [edgesOf_eq_zip_rotate] at h h'
  have hm : ((W.zip (W.rotate 1)).map Prod.fst).Nodup := by
    rw [List.map_fst_zip (by simp)]; exact hnd
  have := List.inj_on_of_nodup_map hm h h' rfl
  exact congrArg Prod.snd this

/-- … and ONE predecessor -/
theorem edge_unique_pred (W : List (P2 ℝ)) (hnd : W.Nodup) (x x' y : P2 ℝ)
    (h : (x, y) ∈ Spec.edgesOf W) (h' : (x', y) ∈ Spec.edgesOf W) : x = x' := by
  rw [edgesOf_eq_zip_rotate] at h h'
  have hm : ((W.zip (W.rotate 1)).map Prod.snd).Nodup := by
    rw [List.map_snd_zip (by simp)]; exact List.nodup_rotate.mpr hnd
  have := List.inj_on_of_nodup_map hm h h' rfl
  exact congrArg Prod.fst this

theorem zip3With_map_v (r : ℝ) : ∀ (A B C : List (P2 ℝ)), A.length = B.length → A.length = C.length →
    (zip3With (corner r) A B C).map (·.v) = B := by
  intro A
  induction A with
  | nil => intro B C hB _; cases B with
    | nil => simp [zip3With]
    | cons b B => simp at hB
  | cons a A ih =>
    intro B C hB hC
    cases B with
    | nil => simp at hB
    | cons b B =>
      cases C with
      | nil => simp at hC
      | cons c C =>
        simp only [List.length_cons, Nat.add_right_cancel_iff] at hB hC
        simp only [zip3With, List.map_cons, ih B C hB hC]
        rfl

theorem corners_map_v (r : ℝ) (W : List (P2 ℝ)) : (corners r W).map (·.v) = W := by
  unfold corners
  have h1 : (rollR1 W).length = W.length := by
    simp only [rollR1, List.length_append, List.length_drop, List.length_take]; omega
  have h2 : (rollL 1 W).length = W.length := by
    simp only [rollL, List.length_append, List.length_drop, List.length_take]; omega
  exact zip3With_map_v r _ _ _ h1 (by rw [h1, h2])

theorem corners_nodup (r : ℝ) (W : List (P2 ℝ)) (hnd : W.Nodup) : (corners r W).Nodup := by
  apply List.Nodup.of_map (·.v)
  rw [corners_map_v]; exact hnd

theorem edge_norm_pos (p q : P2 ℝ) (hC : 0 < Spec.cross p q) : 0 < P2.norm (q - p) := by
  apply norm_pos_of_ne
  by_contra h
  rw [not_or, not_not, not_not] at h
  simp only [P2.sub_x, P2.sub_y] at h
  simp only [Spec.cross] at hC
  have e1 : q.x = p.x := by linarith [h.1]
  have e2 : q.y = p.y := by linarith [h.2]
  rw [e1, e2] at hC; linarith

/-- strict version of `rightNormal_dot_le` -/
theorem rightNormal_dot_lt (p q y : P2 ℝ) (hL : 0 < P2.norm (q - p))
    (h : 0 < Spec.cross (q - p) (y - p)) :
    (rightNormal p q).x * (y.x - p.x) + (rightNormal p q).y * (y.y - p.y) < 0 := by
  have : (rightNormal p q).x * (y.x - p.x) + (rightNormal p q).y * (y.y - p.y) =
      -Spec.cross (q - p) (y - p) / P2.norm (q - p) := by
    simp only [rightNormal, Spec.cross, P2.sub_x, P2.sub_y]; field_simp; ring
  rw [this]; exact div_neg_of_neg_of_pos (by linarith) hL

/-- the two edges at a vertex of a strictly convex counter-clockwise list around the origin -/
theorem convex_corner_W (W : List (P2 ℝ)) (hconv : Spec.strictConvexCCW W)
    (hin : ∀ e ∈ Spec.edgesOf W, 0 < Spec.cross e.1 e.2)
    (v1 v2 v3 : P2 ℝ) (h12 : (v1, v2) ∈ Spec.edgesOf W) (h23 : (v2, v3) ∈ Spec.edgesOf W) :
    0 < Spec.cross v1 v2 ∧ 0 < Spec.cross v2 v3 ∧ 0 < Spec.cross (v2 - v1) (v3 - v2) ∧ v3 ≠ v1 := by
  have c12 := hin _ h12
  have c23 := hin _ h23
  simp only at c12 c23
  obtain ⟨_, hv3⟩ := edgesOf_mem W _ h23
  simp only at hv3
  have hne2 : v3 ≠ v2 := by
    intro h; rw [h] at c23; simp only [Spec.cross] at c23; linarith
  have hne1 : v3 ≠ v1 := by
    intro h; rw [h] at c23
    simp only [Spec.cross] at c12 c23; linarith
  have hturn := hconv.2 (v1, v2) h12 v3 hv3 hne1 hne2
  simp only [Scalar.lit, Scalar.ofNat_real, Nat.cast_zero] at hturn
  refine ⟨c12, c23, ?_, hne1⟩
  simp only [Spec.cross, P2.sub_x, P2.sub_y] at hturn ⊢; linarith

set_option maxHeartbeats 1000000 in
/-- **an expanded vertex of another corner is strictly inside the offset line of an edge** -/
theorem offset_vertex_strict (W : List (P2 ℝ)) (hconv : Spec.strictConvexCCW W)
    (hin : ∀ e ∈ Spec.edgesOf W, 0 < Spec.cross e.1 e.2) (r : ℝ) (hr : 0 < r)
    (p q : P2 ℝ) (hpq : (p, q) ∈ Spec.edgesOf W)
    (v1 v2 v3 : P2 ℝ) (h12 : (v1, v2) ∈ Spec.edgesOf W) (h23 : (v2, v3) ∈ Spec.edgesOf W)
    (hvp : v2 ≠ p) (hvq : v2 ≠ q) :
    (rightNormal p q).x * (corner r v1 v2 v3).newVert.x + (rightNormal p q).y * (corner r v1 v2 v3).newVert.y <
      (rightNormal p q).x * p.x + (rightNormal p q).y * p.y + r := by
  obtain ⟨c12, c23, turn, _⟩ := convex_corner_W W hconv hin v1 v2 v3 h12 h23
  have cpq : 0 < Spec.cross p q := hin _ hpq
  obtain ⟨hw1, hw2, _⟩ := corner_newVert_on_lines r v1 v2 v3 c12 c23 turn
  obtain ⟨a1, _, _, _, _, _⟩ := rightNormal_props v1 v2 c12
  obtain ⟨b1, hperp2, _, _, _, _⟩ := rightNormal_props v2 v3 c23
  obtain ⟨an, _, _, _, _, _⟩ := rightNormal_props p q cpq
  have hs := rightNormal_cross_pos v1 v2 v3 turn
  have hL1 := edge_norm_pos v1 v2 c12
  have hL2 := edge_norm_pos v2 v3 c23
  have hLn := edge_norm_pos p q cpq
  obtain ⟨hpW, _⟩ := edgesOf_mem W _ hpq
  obtain ⟨_, hv2W⟩ := edgesOf_mem W _ h12
  simp only at hpW hv2W
  -- p weakly left of the two edges at v2
  have w1 := weakLeft_of_convex W hconv (v1, v2) h12 p hpW
  have w2 := weakLeft_of_convex W hconv (v2, v3) h23 p hpW
  simp only [leftOf] at w1 w2
  have d1 := rightNormal_dot_le v1 v2 p hL1 w1
  have d2' := rightNormal_dot_le v2 v3 p hL2 w2
  -- v2 strictly left of p → q
  have hstrict := hconv.2 (p, q) hpq v2 hv2W hvp hvq
  simp only [Scalar.lit, Scalar.ofNat_real, Nat.cast_zero] at hstrict
  have d3 := rightNormal_dot_lt p q v2 hLn hstrict
  generalize hwv : (corner r v1 v2 v3).newVert = w at *
  generalize hn1 : rightNormal v1 v2 = n1 at *
  generalize hn2 : rightNormal v2 v3 = n2 at *
  generalize hn : rightNormal p q = n at *
  have d2 : n2.x * (p.x - v2.x) + n2.y * (p.y - v2.y) ≤ 0 := by
    linarith
  set s := n1.x * n2.y - n1.y * n2.x with hsdef
  obtain ⟨κ, hκ0, hQ, hP, hκ⟩ := offset_vec_kappa n1 n2 ⟨w.x - v2.x, w.y - v2.y⟩ r hr.le a1 b1 hs hw1 hw2
  simp only at hQ hP
  -- n is not a non-negative combination of n1, n2
  have hnot : ¬ (0 ≤ n.x * n2.y - n.y * n2.x ∧ 0 ≤ n1.x * n.y - n1.y * n.x) := by
    rintro ⟨hA, hB⟩
    have e : s * (n.x * (p.x - v2.x) + n.y * (p.y - v2.y)) =
        (n.x * n2.y - n.y * n2.x) * (n1.x * (p.x - v2.x) + n1.y * (p.y - v2.y)) +
        (n1.x * n.y - n1.y * n.x) * (n2.x * (p.x - v2.x) + n2.y * (p.y - v2.y)) := by
      rw [hsdef]; ring
    have h1 := mul_nonpos_of_nonneg_of_nonpos hA d1
    have h2 := mul_nonpos_of_nonneg_of_nonpos hB d2
    have h3 : 0 < s * (n.x * (p.x - v2.x) + n.y * (p.y - v2.y)) := by
      apply mul_pos hs
      have : n.x * (p.x - v2.x) + n.y * (p.y - v2.y) = -(n.x * (v2.x - p.x) + n.y * (v2.y - p.y)) := by ring
      rw [this]; linarith
    linarith
  have hex := normal_cone_excl n n1 n2 an a1 b1 hs hnot
  -- s (n·x) = κ (n·n1 + n·n2)
  have hnx : s * (n.x * (w.x - v2.x) + n.y * (w.y - v2.y)) =
      κ * ((n.x * n1.x + n.y * n1.y) + (n.x * n2.x + n.y * n2.y)) := by
    have : s * (n.x * (w.x - v2.x) + n.y * (w.y - v2.y)) =
        ((w.x - v2.x) * n2.y - (w.y - v2.y) * n2.x) * (n.x * n1.x + n.y * n1.y) +
        (n1.x * (w.y - v2.y) - n1.y * (w.x - v2.x)) * (n.x * n2.x + n.y * n2.y) := by rw [hsdef]; ring
    rw [this, hP, hQ]; ring
  have hle : n.x * (w.x - v2.x) + n.y * (w.y - v2.y) ≤ r := by
    have h1 : s * (s * (n.x * (w.x - v2.x) + n.y * (w.y - v2.y))) ≤ s * (s * r) := by
      rw [hnx]
      have := mul_le_mul_of_nonneg_left hex hκ0
      calc s * (κ * ((n.x * n1.x + n.y * n1.y) + (n.x * n2.x + n.y * n2.y)))
          = κ * (s * ((n.x * n1.x + n.y * n1.y) + (n.x * n2.x + n.y * n2.y))) := by ring
        _ ≤ κ * (s * (1 + (n1.x * n2.x + n1.y * n2.y))) := this
        _ = s * (κ * (1 + (n1.x * n2.x + n1.y * n2.y))) := by ring
        _ = s * (s * r) := by rw [hκ]
    have h2 := le_of_mul_le_mul_left h1 hs
    exact le_of_mul_le_mul_left h2 hs
  linarith


set_option maxHeartbeats 1000000 in
/-- an edge `(A, B)` of the offset polygon: both ends on the offset line `n·Z = n·p + r` of a core
edge `p → q`, `B` strictly further along the edge direction -/
theorem offset_edge_data (W : List (P2 ℝ)) (hconv : Spec.strictConvexCCW W)
    (hin : ∀ e ∈ Spec.edgesOf W, 0 < Spec.cross e.1 e.2) (r : ℝ) (hr : 0 < r) (h2 : 2 ≤ W.length)
    (A B : P2 ℝ) (hAB : (A, B) ∈ Spec.edgesOf ((corners r W).map (·.newVert))) :
    ∃ a0 p q d0, A = (corner r a0 p q).newVert ∧ B = (corner r p q d0).newVert ∧
      (a0, p) ∈ Spec.edgesOf W ∧ (p, q) ∈ Spec.edgesOf W ∧ (q, d0) ∈ Spec.edgesOf W ∧
      (rightNormal p q).x * (rightNormal p q).x + (rightNormal p q).y * (rightNormal p q).y = 1 ∧
      0 < (rightNormal p q).x * p.x + (rightNormal p q).y * p.y ∧
      (rightNormal p q).x * A.x + (rightNormal p q).y * A.y = (rightNormal p q).x * p.x + (rightNormal p q).y * p.y + r ∧
      (rightNormal p q).x * B.x + (rightNormal p q).y * B.y = (rightNormal p q).x * p.x + (rightNormal p q).y * p.y + r ∧
      0 < (rightNormal p q).x * (B.y - A.y) - (rightNormal p q).y * (B.x - A.x) := by
  obtain ⟨a0, p, q, d0, hA, hB, e1, e2, e3, _, _⟩ := newVerts_edges r W h2 A B hAB
  obtain ⟨c1, c2, t1, _⟩ := convex_corner_W W hconv hin a0 p q e1 e2
  obtain ⟨_, c3, t2, _⟩ := convex_corner_W W hconv hin p q d0 e2 e3
  obtain ⟨hA1, hA2, _⟩ := corner_newVert_on_lines r a0 p q c1 c2 t1
  obtain ⟨hB1, hB2, _⟩ := corner_newVert_on_lines r p q d0 c2 c3 t2
  rw [← hA] at hA1 hA2
  rw [← hB] at hB1 hB2
  obtain ⟨anp, _, _, _, _, _⟩ := rightNormal_props a0 p c1
  obtain ⟨an, hperp, hhP, _, _, _⟩ := rightNormal_props p q c2
  obtain ⟨ann, _, _, _, _, _⟩ := rightNormal_props q d0 c3
  have hsp := rightNormal_cross_pos a0 p q t1
  have hsn := rightNormal_cross_pos p q d0 t2
  have hL := edge_norm_pos p q c2
  obtain ⟨hLc, _, _⟩ := rightNormal_cross_edge p q hL
  obtain ⟨_, κA⟩ := offset_vec_cross (rightNormal a0 p) (rightNormal p q) ⟨A.x - p.x, A.y - p.y⟩ r hr.le anp an hsp hA1 hA2
  obtain ⟨κB, _⟩ := offset_vec_cross (rightNormal p q) (rightNormal q d0) ⟨B.x - q.x, B.y - q.y⟩ r hr.le an ann hsn hB1 hB2
  simp only at κA κB
  refine ⟨a0, p, q, d0, hA, hB, e1, e2, e3, an, hhP, ?_, ?_, ?_⟩
  · linarith
  · generalize rightNormal p q = n at *
    linarith
  · generalize rightNormal p q = n at *
    have : n.x * (B.y - A.y) - n.y * (B.x - A.x) =
        (n.x * (q.y - p.y) - n.y * (q.x - p.x)) + (n.x * (B.y - q.y) - n.y * (B.x - q.x)) +
        ((A.x - p.x) * n.y - (A.y - p.y) * n.x) := by ring
    rw [this, hLc]; linarith


/-- distinct corners have distinct expanded vertices -/
theorem newVert_inj (W : List (P2 ℝ)) (hconv : Spec.strictConvexCCW W)
    (hin : ∀ e ∈ Spec.edgesOf W, 0 < Spec.cross e.1 e.2) (r : ℝ) (hr : 0 < r) (h2 : 2 ≤ W.length)
    (k k' : Corner ℝ) (hk : k ∈ corners r W) (hk' : k' ∈ corners r W)
    (heq : k.newVert = k'.newVert) : k = k' := by
  obtain ⟨v1, v2, v3, rfl, h12, h23⟩ := corners_mem r W h2 k hk
  obtain ⟨u1, u2, u3, rfl, g12, g23⟩ := corners_mem r W h2 k' hk'
  by_cases hv : u2 = v2
  · subst hv
    have e1 := edge_unique_pred W hconv.1 _ _ _ h12 g12
    have e3 := edge_unique_succ W hconv.1 _ _ _ h23 g23
    rw [e1, e3]
  · exfalso
    obtain ⟨c12, c23, turn, hne1⟩ := convex_corner_W W hconv hin v1 v2 v3 h12 h23
    obtain ⟨hw1, hw2, _⟩ := corner_newVert_on_lines r v1 v2 v3 c12 c23 turn
    by_cases h3 : u2 = v3
    · -- use the edge v1 → v2
      have hs := offset_vertex_strict W hconv hin r hr v1 v2 h12 u1 u2 u3 g12 g23
        (by rw [h3]; exact hne1) hv
      obtain ⟨_, hperp, _⟩ := rightNormal_props v1 v2 c12
      rw [← heq] at hs
      linarith
    · have hs := offset_vertex_strict W hconv hin r hr v2 v3 h23 u1 u2 u3 g12 g23 hv h3
      rw [← heq] at hs
      linarith

set_option maxHeartbeats 1000000 in
/-- **`HP` derived.**  The offset polygon of a strictly convex counter-clockwise core around the
origin (`r > 0`, at least two vertices) is strictly convex counter-clockwise, with the origin
strictly inside. -/
theorem offset_polygon_convex (W : List (P2 ℝ)) (hconv : Spec.strictConvexCCW W)
    (hin : ∀ e ∈ Spec.edgesOf W, 0 < Spec.cross e.1 e.2) (r : ℝ) (hr : 0 < r) (h2 : 2 ≤ W.length) :
    Spec.strictConvexCCW ((corners r W).map (·.newVert)) ∧
    ∀ e ∈ Spec.edgesOf ((corners r W).map (·.newVert)), 0 < Spec.cross e.1 e.2 := by
  refine ⟨⟨?_, ?_⟩, ?_⟩
  · exact List.Nodup.map_on (fun k hk k' hk' h => newVert_inj W hconv hin r hr h2 k k' hk hk' h)
      (corners_nodup r W hconv.1)
  · rintro ⟨A, B⟩ hAB w hw hwA hwB
    simp only at hwA hwB ⊢
    obtain ⟨a0, p, q, d0, hA, hB, e1, e2, e3, an, hH, hnA, hnB, hm⟩ := offset_edge_data W hconv hin r hr h2 A B hAB
    obtain ⟨k, hk, rfl⟩ := List.mem_map.mp hw
    obtain ⟨v1, v2, v3, rfl, h12, h23⟩ := corners_mem r W h2 k hk
    have hvp : v2 ≠ p := by
      intro h; subst h
      have e1' := edge_unique_pred W hconv.1 _ _ _ h12 e1
      have e3' := edge_unique_succ W hconv.1 _ _ _ h23 e2
      apply hwA; rw [hA, e1', e3']
    have hvq : v2 ≠ q := by
      intro h; subst h
      have e1' := edge_unique_pred W hconv.1 _ _ _ h12 e2
      have e3' := edge_unique_succ W hconv.1 _ _ _ h23 e3
      apply hwB; rw [hB, e1', e3']
    have hs := offset_vertex_strict W hconv hin r hr p q e2 v1 v2 v3 h12 h23 hvp hvq
    generalize (corner r v1 v2 v3).newVert = w at *
    generalize rightNormal p q = n at *
    simp only [Scalar.lit, Scalar.ofNat_real, Nat.cast_zero, Spec.cross, P2.sub_x, P2.sub_y]
    -- B − A = m d̂
    have hBAn : n.x * (B.x - A.x) + n.y * (B.y - A.y) = 0 := by linarith
    set m := n.x * (B.y - A.y) - n.y * (B.x - A.x) with hmdef
    have ex : B.x - A.x = m * (-n.y) := by
      rw [hmdef]; linear_combination (-(B.x - A.x)) * an + n.x * hBAn
    have ey : B.y - A.y = m * n.x := by
      rw [hmdef]; linear_combination (-(B.y - A.y)) * an + n.y * hBAn
    rw [ex, ey]
    have : m * -n.y * (w.y - A.y) - m * n.x * (w.x - A.x) =
        m * ((n.x * A.x + n.y * A.y) - (n.x * w.x + n.y * w.y)) := by ring
    rw [this]
    exact mul_pos hm (by linarith)
  · rintro ⟨A, B⟩ hAB
    obtain ⟨a0, p, q, d0, _, _, _, _, _, an, hH, hnA, hnB, hm⟩ := offset_edge_data W hconv hin r hr h2 A B hAB
    simp only [Spec.cross]
    rw [line_cross (rightNormal p q) A B _ an hnA hnB]
    exact mul_pos (by linarith) hm


/-- translation invariance of strict convexity -/
theorem strictConvexCCW_translate (V : List (P2 ℝ)) (c : P2 ℝ) (hconv : Spec.strictConvexCCW V) :
    Spec.strictConvexCCW (V.map (· - c)) := by
  refine ⟨hconv.1.map (fun u v h => P2.sub_inj' c h), ?_⟩
  intro e he w hw hw1 hw2
  obtain ⟨e0, h0, rfl⟩ := (mem_edgesOf_translate V c e).mp he
  obtain ⟨w0, hw0, rfl⟩ := List.mem_map.mp hw
  have := hconv.2 e0 h0 w0 hw0 (by rintro rfl; exact hw1 rfl) (by rintro rfl; exact hw2 rfl)
  simp only [Spec.cross, P2.sub_x, P2.sub_y, Scalar.lit, Scalar.ofNat_real, Nat.cast_zero] at this ⊢
  linarith

theorem inside_translate (V : List (P2 ℝ)) (c : P2 ℝ) (hin : Spec.strictlyInsideCCW V c) :
    ∀ e ∈ Spec.edgesOf (V.map (· - c)), 0 < Spec.cross e.1 e.2 := by
  intro e he
  obtain ⟨e0, h0, rfl⟩ := (mem_edgesOf_translate V c e).mp he
  have := hin e0 h0
  simp only [Spec.cross, P2.sub_x, P2.sub_y, Scalar.lit, Scalar.ofNat_real, Nat.cast_zero] at this ⊢
  linarith

/-- **the hypothesis `HP` of `spg_dts_correct_partial`, derived**: for every strictly convex
counter-clockwise core with at least two vertices, every centre strictly inside and every `r > 0`
the offset polygon `new_verts` is strictly convex counter-clockwise with the centre (the origin of
its coordinates) strictly inside. -/
theorem spg_offset_polygon_convex (V : List (P2 ℝ)) (c : P2 ℝ) (r : ℝ) (hr : 0 < r) (h2 : 2 ≤ V.length)
    (hconv : Spec.strictConvexCCW V) (hin : Spec.strictlyInsideCCW V c) :
    Spec.strictConvexCCW (spgNewVerts false V c r) ∧
    Spec.strictlyInsideCCW (spgNewVerts false V c r) P2.zero := by
  have hW : spgVerts false V c = V.map (· - c) := by simp [spgVerts]
  unfold spgNewVerts
  rw [hW]
  obtain ⟨h1, h2'⟩ := offset_polygon_convex (V.map (· - c)) (strictConvexCCW_translate V c hconv)
    (inside_translate V c hin) r hr (by simpa using h2)
  refine ⟨h1, ?_⟩
  intro e he
  have := h2' e he
  simp only [Spec.cross, P2.sub_x, P2.sub_y, P2.zero, Scalar.lit, Scalar.ofNat_real, Nat.cast_zero] at this ⊢
  linarith

/-- an edge of the offset polygon is parallel to a core edge: it is horizontal / vertical exactly
when that core edge is -/
theorem offset_edge_parallel (V : List (P2 ℝ)) (c : P2 ℝ) (r : ℝ) (hr : 0 < r) (h2 : 2 ≤ V.length)
    (hconv : Spec.strictConvexCCW V) (hin : Spec.strictlyInsideCCW V c)
    (e : P2 ℝ × P2 ℝ) (he : e ∈ Spec.edgesOf (spgNewVerts false V c r)) :
    ∃ e0 ∈ Spec.edgesOf V, (e.1.x ≠ e.2.x → e0.1.x ≠ e0.2.x) ∧ (e.1.y ≠ e.2.y → e0.1.y ≠ e0.2.y) := by
  have hW : spgVerts false V c = V.map (· - c) := by simp [spgVerts]
  unfold spgNewVerts at he
  rw [hW] at he
  obtain ⟨A, B⟩ := e
  obtain ⟨a0, p, q, d0, _, _, _, e2, _, an, _, hnA, hnB, hm⟩ :=
    offset_edge_data (V.map (· - c)) (strictConvexCCW_translate V c hconv) (inside_translate V c hin) r hr
      (by simpa using h2) A B he
  have cpq := inside_translate V c hin _ e2
  obtain ⟨_, hqx, hqy⟩ := rightNormal_cross_edge p q (edge_norm_pos p q cpq)
  have hL := edge_norm_pos p q cpq
  obtain ⟨e0, he0, hee⟩ := (mem_edgesOf_translate V c _).mp e2
  have hp : p = e0.1 - c := congrArg Prod.fst hee
  have hq : q = e0.2 - c := congrArg Prod.snd hee
  have hx0 : q.x - p.x = e0.2.x - e0.1.x := by rw [hp, hq]; simp
  have hy0 : q.y - p.y = e0.2.y - e0.1.y := by rw [hp, hq]; simp
  generalize rightNormal p q = n at *
  have hBAn : n.x * (B.x - A.x) + n.y * (B.y - A.y) = 0 := by linarith
  have ex : B.x - A.x = (n.x * (B.y - A.y) - n.y * (B.x - A.x)) * (-n.y) := by
    linear_combination (-(B.x - A.x)) * an + n.x * hBAn
  have ey : B.y - A.y = (n.x * (B.y - A.y) - n.y * (B.x - A.x)) * n.x := by
    linear_combination (-(B.y - A.y)) * an + n.y * hBAn
  refine ⟨e0, he0, ?_, ?_⟩
  · intro hne heq
    simp only at hne
    apply hne
    have h0 : P2.norm (q - p) * (-n.y) = 0 := by rw [← hqx, hx0, heq]; ring
    have hny : -n.y = 0 := (mul_eq_zero.mp h0).resolve_left hL.ne'
    have : B.x - A.x = 0 := by rw [ex, hny]; ring
    linarith
  · intro hne heq
    simp only at hne
    apply hne
    have h0 : P2.norm (q - p) * n.x = 0 := by rw [← hqy, hy0, heq]; ring
    have hnx : n.x = 0 := (mul_eq_zero.mp h0).resolve_left hL.ne'
    have : B.y - A.y = 0 := by rw [ey, hnx]; ring
    linarith

/-- clockwise storage: the code reverses the centred list first -/
theorem spgDts_flip (Rk : M2 ℝ) (fk : Bool) (V : List (P2 ℝ)) (c : P2 ℝ) (r θ : ℝ) :
    spgDts Rk fk true V c r θ = spgDts Rk fk false V.reverse c r θ := by
  unfold spgDts spgVerts
  simp only [if_true, Bool.false_eq_true, if_false, List.map_reverse]

end DTS
end
