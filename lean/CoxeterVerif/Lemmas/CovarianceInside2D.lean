import CoxeterVerif.Lemmas.CovarianceSim
import CoxeterVerif.Props.C06
/-!
  Helper lemmas for C09, part 6: the 2-D containment models of C06 (`Model/Inside2D.lean`, imported
  unchanged) under a proper similarity of 3-space.

  * the half-turn summand of `Polygon.is_inside` (coordinate signs with the `x = 0` tie rule) is invariant
    term-wise under in-plane translations and positive scalings, NOT under rotations
    (`Polygon.halfTurn_rot_fails`);
  * the DECISION of `Polygon.is_inside` is invariant under every proper similarity of SPACE — the polygon
    may leave its plane, the stored normal becomes `R n`, Kabsch returns whatever frame it likes for the new
    normal — for every triangulated simple polygon and every point off the triangle edges
    (through `polygon_inside3_iff` of C06 and the invariance of `orient3`, `dot3`);
  (Circle / Ellipse: `Lemmas/CovarianceCircle.lean`.)  Imported by `Props/C09.lean` since the lead renamed C06's chain
  framework (`EdgeChainEq2`, `OddEdge2`): it no longer clashes with C04's `EdgeChainEq`.
-/
open Scalar Inside2D Inside2D.Polygon Spec.In2D
set_option maxRecDepth 4000
noncomputable section

namespace Inside2D.Polygon

/-- **the half-turn summand is invariant under `x ↦ k x + t` (`k > 0`) of the plane** -/
theorem halfTurn_trans_scale {k : ℝ} (hk : 0 < k) (t p a b : P2 ℝ) :
    halfTurn ⟨k * p.x + t.x, k * p.y + t.y⟩ ⟨k * a.x + t.x, k * a.y + t.y⟩ ⟨k * b.x + t.x, k * b.y + t.y⟩
      = halfTurn p a b := by
  unfold halfTurn vertexSign edgeSign
  have e : ∀ u v w : ℝ, k * u + w - (k * v + w) = k * (u - v) := by intros; ring
  have e2 : ∀ x1 y1 x2 y2 : ℝ, k * x1 * (k * y2) - k * y1 * (k * x2) = (k * k) * (x1 * y2 - y1 * x2) := by
    intros; ring
  simp only [e, sgn_pos_mul hk, e2, sgn_pos_mul (mul_pos hk hk)]

theorem isInsideRot_trans_scale {k : ℝ} (hk : 0 < k) (t : P2 ℝ) (vs : List (P2 ℝ)) (p : P2 ℝ) :
    isInsideRot (vs.map fun v => (⟨k * v.x + t.x, k * v.y + t.y⟩ : P2 ℝ)) ⟨k * p.x + t.x, k * p.y + t.y⟩
      = isInsideRot vs p := by
  unfold isInsideRot windingNumber halfTurnSum
  rw [In2DCert.edges_map, List.map_map]
  congr 3
  apply List.map_congr_left
  intro e _
  exact halfTurn_trans_scale hk t p e.1 e.2

/-- **…but NOT under rotations of the plane** (quarter turn, one edge) -/
theorem halfTurn_rot_fails :
    ¬ (∀ p a b : P2 ℝ, halfTurn ⟨-p.y, p.x⟩ ⟨-a.y, a.x⟩ ⟨-b.y, b.x⟩ = halfTurn p a b) := by
  intro h
  have := h ⟨0, 0⟩ ⟨-1, -1⟩ ⟨-1, 0⟩
  revert this
  simp only [halfTurn, vertexSign, edgeSign, crossing, sgn, Scalar.lit, Scalar.ofNat_real, Nat.cast_zero]
  norm_num

end Inside2D.Polygon

namespace Sim
variable (g : Sim)

def tri3 (t : Tri3 ℝ) : Tri3 ℝ := ⟨g.pt t.a, g.pt t.b, g.pt t.c⟩

variable {g} (hg : g.Proper)
include hg

theorem k2pos : 0 < g.k ^ 2 := pow_pos hg.kpos 2

theorem orient3_sim (n a b p : V3 ℝ) :
    orient3 (g.dir n) (g.pt a) (g.pt b) (g.pt p) = g.k ^ 2 * orient3 n a b p := by
  unfold orient3
  rw [pt_sub, pt_sub, vec_cross hg]
  have := V3.dot_smul 1 (g.k ^ 2) (g.dir n) (g.dir (V3.cross (b - a) (p - a)))
  have e : V3.smul 1 (g.dir n) = g.dir n := by
    ext <;> simp only [V3.smul_x, V3.smul_y, V3.smul_z, one_mul]
  rw [e] at this
  rw [this, dir_dot hg]; ring

theorem dot3_sim (n a b p : V3 ℝ) :
    dot3 (g.dir n) (g.pt a) (g.pt b) (g.pt p) = g.k ^ 2 * dot3 n a b p := by
  unfold dot3
  rw [pt_sub, pt_sub, vec_dot hg]
  have h1 : ∀ u : V3 ℝ, V3.dot (g.dir n) (g.vec u) = g.k * V3.dot n u := by
    intro u
    have := vec_dot_dir hg u n
    have c : ∀ x y : V3 ℝ, V3.dot x y = V3.dot y x := by intro x y; unfold V3.dot; ring
    rw [c, this, c]
  rw [h1, h1]; ring

theorem inTriangle3_sim (n : V3 ℝ) (t : Tri3 ℝ) (p : V3 ℝ) :
    inTriangle3 (g.dir n) (g.tri3 t) (g.pt p) = inTriangle3 n t p := by
  unfold inTriangle3 tri3
  simp only [orient3_sim hg, Scalar.lit, Scalar.ofNat_real, Nat.cast_zero]
  have h2 := k2pos hg
  have e1 : ∀ x : ℝ, decide (0 < g.k ^ 2 * x) = decide (0 < x) := fun x => by
    rw [decide_eq_decide]; exact pos_mul_pos_iff h2 x
  have e2 : ∀ x : ℝ, decide (g.k ^ 2 * x < 0) = decide (x < 0) := fun x => by
    rw [decide_eq_decide]; exact pos_mul_lt_zero h2 x
  simp only [e1, e2]

theorem inRegion3_sim (n : V3 ℝ) (Ts : List (Tri3 ℝ)) (p : V3 ℝ) :
    inRegion3 (g.dir n) (Ts.map g.tri3) (g.pt p) = inRegion3 n Ts p := by
  unfold inRegion3
  rw [List.any_map]
  congr 1
  funext t
  exact inTriangle3_sim hg n t p

theorem onSegment3_sim (n a b p : V3 ℝ) :
    onSegment3 (g.dir n) (g.pt a) (g.pt b) (g.pt p) = onSegment3 n a b p := by
  unfold onSegment3
  rw [orient3_sim hg, dot3_sim hg]
  have h2 := k2pos hg
  congr 1
  · show decide (g.k ^ 2 * orient3 n a b p = ((0 : Nat) : ℝ)) = decide (orient3 n a b p = ((0 : Nat) : ℝ))
    rw [decide_eq_decide]; simp only [Nat.cast_zero]
    exact pos_mul_eq_zero h2 _
  · simp only [Scalar.lit, Scalar.ofNat_real, Nat.cast_zero]
    rw [decide_eq_decide]; exact pos_mul_le_zero h2 _

theorem onBoundary3_sim (n : V3 ℝ) (t : Tri3 ℝ) (p : V3 ℝ) :
    onBoundary3 (g.dir n) (g.tri3 t) (g.pt p) = onBoundary3 n t p := by
  unfold onBoundary3 tri3
  simp only [onSegment3_sim hg]

omit hg in
theorem edgeChain_map {E F : List Edge3} (h : EdgeChainEq3 E F) (f : V3 ℝ → V3 ℝ) :
    EdgeChainEq3 (E.map fun e => (f e.1, f e.2)) (F.map fun e => (f e.1, f e.2)) := by
  intro G _ φ hφ
  have := h G (fun e => φ (f e.1, f e.2)) (fun a b => hφ (f a) (f b))
  simpa [esum, List.map_map, Function.comp_def] using this

omit hg in
theorem flatMap_bdry3_map (g : Sim) (Ts : List (Tri3 ℝ)) :
    (Ts.flatMap Tri3.bdry).map (fun e => (g.pt e.1, g.pt e.2)) = (Ts.map g.tri3).flatMap Tri3.bdry := by
  induction Ts with
  | nil => rfl
  | cons T Ts ih =>
    simp only [List.flatMap_cons, List.map_append, List.map_cons, ih]
    rfl

/-- **`Polygon.is_inside` is invariant under every proper similarity of space.**  `K` is any Kabsch frame
of the stored normal `n` of `x`, `K'` any Kabsch frame of the normal `R n` of `g(x)`; the hypotheses are
those of `polygon_inside3_iff`, for `x` only. -/
theorem polygon_isInside {K K' : M3 ℝ} {n : V3 ℝ} (hK : IsFrame K n) (hK' : IsFrame K' (g.dir n))
    {verts : List (V3 ℝ)} {Ts : List (Tri3 ℝ)} {p : V3 ℝ}
    (hchain : EdgeChainEq3 (edges verts) (Ts.flatMap Tri3.bdry))
    (hor : (∀ t ∈ Ts, 0 < orient3 n t.a t.b t.c) ∨ (∀ t ∈ Ts, orient3 n t.a t.b t.c < 0))
    (hoff : ∀ t ∈ Ts, onBoundary3 n t p = false) :
    Polygon.isInside K' (verts.map g.pt) [g.pt p] = Polygon.isInside K verts [p] := by
  have hchain' : EdgeChainEq3 (edges (verts.map g.pt)) ((Ts.map g.tri3).flatMap Tri3.bdry) := by
    rw [In2DCert.edges_map, ← flatMap_bdry3_map]
    exact edgeChain_map hchain g.pt
  have h2 := k2pos hg
  have hor' : (∀ t ∈ Ts.map g.tri3, 0 < orient3 (g.dir n) t.a t.b t.c) ∨
      (∀ t ∈ Ts.map g.tri3, orient3 (g.dir n) t.a t.b t.c < 0) := by
    rcases hor with h | h
    · left; intro t ht
      obtain ⟨s, hs, rfl⟩ := List.mem_map.mp ht
      show 0 < orient3 (g.dir n) (g.pt s.a) (g.pt s.b) (g.pt s.c)
      rw [orient3_sim hg]; exact mul_pos h2 (h s hs)
    · right; intro t ht
      obtain ⟨s, hs, rfl⟩ := List.mem_map.mp ht
      show orient3 (g.dir n) (g.pt s.a) (g.pt s.b) (g.pt s.c) < 0
      rw [orient3_sim hg]; exact mul_neg_of_pos_of_neg h2 (h s hs)
  have hoff' : ∀ t ∈ Ts.map g.tri3, onBoundary3 (g.dir n) t (g.pt p) = false := by
    intro t ht
    obtain ⟨s, hs, rfl⟩ := List.mem_map.mp ht
    rw [onBoundary3_sim hg]; exact hoff s hs
  rw [polygon_inside3_iff hK' hchain' hor' hoff', polygon_inside3_iff hK hchain hor hoff, inRegion3_sim hg]

end Sim

end
