import CoxeterVerif.Lemmas.Basic
import CoxeterVerif.Model.Constructors
/-!
  C15, deepening round: the allocation model of the constructors (`Model/Constructors.lean`, `Alloc`).
  `Fresh s0 b`  — block `b` was handed out after state `s0` (every block the caller owns is `< s0.next`);
  `WritesOnlyFresh s0 s1` — every in-place write between `s0` and `s1` went to such a block.
-/
open C15
set_option linter.unusedSimpArgs false
set_option linter.unusedVariables false

namespace C15

/-- the block did not exist when the constructor started -/
def Fresh (s0 : Alloc) (b : Nat) : Prop := s0.next ≤ b

/-- every block written in place since `s0` was allocated since `s0` -/
def WritesOnlyFresh (s0 s1 : Alloc) : Prop := ∀ b ∈ s1.writes, b ∈ s0.writes ∨ s0.next ≤ b

/-- the caller's argument lives below the allocation pointer -/
def ArgKind.Below (n : Nat) : ArgKind → Prop
  | .seq => True
  | .nd _ blk => blk < n

theorem convert_array (w : Bool) (a : ArgKind) (s : Alloc) : convert .array w a s = s.fresh := by
  unfold convert; cases a <;> rfl

theorem convert_asarray_seq (w : Bool) (s : Alloc) : convert .asarray w .seq s = s.fresh := rfl

/-- `np.asarray(x, dtype=float64)` of a float64 ndarray, and `np.asarray(x)` of any ndarray, IS `x` -/
theorem convert_asarray_same (w f : Bool) (blk : Nat) (s : Alloc) (h : w = false ∨ f = true) :
    convert .asarray w (.nd f blk) s = (blk, s) := by
  unfold convert
  rcases h with h | h <;> subst h <;> simp

/-- `np.asarray(x, dtype=float64)` of an ndarray of another element type converts (copies) -/
theorem convert_asarray_other (blk : Nat) (s : Alloc) : convert .asarray true (.nd false blk) s = s.fresh := by
  unfold convert; simp

theorem freshN_spec (n : Nat) (s : Alloc) :
    (Alloc.freshN n s).1 = (List.range n).map (s.next + ·) ∧ (Alloc.freshN n s).2.next = s.next + n ∧
      (Alloc.freshN n s).2.writes = s.writes := by
  induction n generalizing s with
  | zero => simp [Alloc.freshN]
  | succ n ih =>
    obtain ⟨h1, h2, h3⟩ := ih (s.fresh).2
    simp only [Alloc.freshN]
    refine ⟨?_, ?_, ?_⟩
    · rw [h1, List.range_succ_eq_map]
      simp only [Alloc.fresh, List.map_cons, List.map_map, Nat.add_zero, List.cons.injEq, true_and]
      apply List.map_congr_left; intro i _; simp only [Function.comp]; omega
    · rw [h2]; simp only [Alloc.fresh]; omega
    · rw [h3]; rfl

theorem freshN_fresh (n : Nat) (s : Alloc) : ∀ b ∈ (Alloc.freshN n s).1, s.next ≤ b := by
  rw [(freshN_spec n s).1]
  intro b hb
  rw [List.mem_map] at hb
  obtain ⟨i, _, rfl⟩ := hb
  omega

/-! ### /repo's table: everything stored is fresh, only fresh blocks are written -/

theorem polygon_alloc_repo (ncols : Nat) (verts : ArgKind) (normal : Option ArgKind) (s0 : Alloc) :
    Fresh s0 (Polygon.alloc repoSites ncols verts normal s0).1.vertices ∧
    Fresh s0 (Polygon.alloc repoSites ncols verts normal s0).1.normal ∧
    WritesOnlyFresh s0 (Polygon.alloc repoSites ncols verts normal s0).2 ∧
    s0.next ≤ (Polygon.alloc repoSites ncols verts normal s0).2.next := by
  unfold Polygon.alloc Fresh WritesOnlyFresh repoSites
  simp only [convert_array]
  cases normal with
  | none =>
    by_cases h : ncols = 2
    · simp only [h, if_true, Alloc.fresh, Alloc.write, List.mem_cons]
      refine ⟨by omega, by omega, ?_, by omega⟩
      rintro b (hb | hb)
      · right; omega
      · left; exact hb
    · simp only [h, if_false, Alloc.fresh, Alloc.write, List.mem_cons]
      refine ⟨by omega, by omega, ?_, by omega⟩
      rintro b (hb | hb)
      · right; omega
      · left; exact hb
  | some na =>
    by_cases h : ncols = 2
    · simp only [h, if_true, Alloc.fresh, Alloc.write, List.mem_cons]
      refine ⟨by omega, by omega, ?_, by omega⟩
      rintro b (hb | hb | hb)
      · right; omega
      · right; omega
      · left; exact hb
    · simp only [h, if_false, Alloc.fresh, Alloc.write, List.mem_cons]
      refine ⟨by omega, by omega, ?_, by omega⟩
      rintro b (hb | hb | hb)
      · right; omega
      · right; omega
      · left; exact hb

theorem convexpolygon_alloc_repo (ncols : Nat) (verts : ArgKind) (normal : Option ArgKind) (s0 : Alloc) :
    Fresh s0 (ConvexPolygon.alloc repoSites ncols verts normal s0).1.vertices ∧
    Fresh s0 (ConvexPolygon.alloc repoSites ncols verts normal s0).1.normal ∧
    WritesOnlyFresh s0 (ConvexPolygon.alloc repoSites ncols verts normal s0).2 := by
  obtain ⟨_, h2, h3, h4⟩ := polygon_alloc_repo ncols verts normal s0
  unfold ConvexPolygon.alloc
  simp only [Alloc.fresh]
  exact ⟨h4, h2, h3⟩

theorem convexpolyhedron_alloc_repo (verts : ArgKind) (nfaces : Nat) (s0 : Alloc) :
    Fresh s0 (ConvexPolyhedron.alloc repoSites verts nfaces s0).1.vertices ∧
    (∀ b ∈ (ConvexPolyhedron.alloc repoSites verts nfaces s0).1.faces, Fresh s0 b) ∧
    Fresh s0 (ConvexPolyhedron.alloc repoSites verts nfaces s0).1.equations ∧
    WritesOnlyFresh s0 (ConvexPolyhedron.alloc repoSites verts nfaces s0).2 := by
  unfold ConvexPolyhedron.alloc Fresh WritesOnlyFresh repoSites
  simp only [convert_array]
  obtain ⟨h1, h2, h3⟩ := freshN_spec nfaces (s0.fresh).2
  have hf := freshN_fresh nfaces (s0.fresh).2
  simp only [Alloc.fresh, Alloc.write, List.mem_cons] at *
  refine ⟨le_refl _, ?_, by rw [h2]; omega, ?_⟩
  · intro b hb; have := hf b hb; omega
  · rintro b (hb | hb)
    · right; rw [hb, h2]; omega
    · left; rw [h3] at hb; exact hb

theorem curved_alloc_repo (cls : Curved) (centre : ArgKind) (s0 : Alloc) :
    Fresh s0 (Curved.alloc repoSites cls centre s0).1 ∧ WritesOnlyFresh s0 (Curved.alloc repoSites cls centre s0).2 := by
  unfold Curved.alloc Fresh WritesOnlyFresh repoSites
  simp only [convert_array, Alloc.fresh]
  exact ⟨le_refl _, fun b hb => Or.inl hb⟩

/-- `Polyhedron` (after b62a6dc): vertices, EVERY stored face array and the equations are new, nothing of the caller is
written — whatever the container of `faces` (nested lists put no array into the object at all) -/
theorem polyhedron_alloc_repo (verts : ArgKind) (faces : FacesKind) (nfaces : Nat) (s0 : Alloc) :
    Fresh s0 (Polyhedron.alloc repoSites verts faces nfaces s0).1.vertices ∧
    (∀ b ∈ (Polyhedron.alloc repoSites verts faces nfaces s0).1.faces, Fresh s0 b) ∧
    Fresh s0 (Polyhedron.alloc repoSites verts faces nfaces s0).1.equations ∧
    WritesOnlyFresh s0 (Polyhedron.alloc repoSites verts faces nfaces s0).2 := by
  unfold Polyhedron.alloc Fresh WritesOnlyFresh repoSites
  simp only [convert_array, if_true]
  cases faces with
  | nested =>
    simp only [Alloc.fresh, Alloc.write, List.mem_cons, List.not_mem_nil]
    refine ⟨le_refl _, fun b hb => absurd hb (by simp), by omega, ?_⟩
    rintro b (hb | hb)
    · right; omega
    · left; exact hb
  | arrays blks =>
    obtain ⟨h1, h2, h3⟩ := freshN_spec blks.length (s0.fresh).2
    have hf := freshN_fresh blks.length (s0.fresh).2
    simp only [Alloc.fresh, Alloc.write, List.mem_cons] at *
    refine ⟨le_refl _, ?_, by rw [h2]; omega, ?_⟩
    · intro b hb; have := hf b hb; omega
    · rintro b (hb | hb)
      · right; rw [hb, h2]; omega
      · left; rw [h3] at hb; exact hb
  | array2d blk =>
    obtain ⟨h1, h2, h3⟩ := freshN_spec nfaces (s0.fresh).2
    have hf := freshN_fresh nfaces (s0.fresh).2
    simp only [Alloc.fresh, Alloc.write, List.mem_cons] at *
    refine ⟨le_refl _, ?_, by rw [h2]; omega, ?_⟩
    · intro b hb; have := hf b hb; omega
    · rintro b (hb | hb)
      · right; rw [hb, h2]; omega
      · left; rw [h3] at hb; exact hb

/-- the code BEFORE b62a6dc (`[face for face in faces]`): the stored faces are exactly the caller's blocks -/
theorem polyhedron_alloc_before_fix (verts : ArgKind) (faces : FacesKind) (nfaces : Nat) (s0 : Alloc) :
    (Polyhedron.alloc sitesBeforeFacesFix verts faces nfaces s0).1.faces =
      (match faces with
        | .nested => []
        | .arrays blks => blks
        | .array2d blk => List.replicate nfaces blk) := by
  unfold Polyhedron.alloc sitesBeforeFacesFix repoSites
  cases faces <;> simp

end C15
