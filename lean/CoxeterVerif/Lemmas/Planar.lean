import CoxeterVerif.Lemmas.Solid
import CoxeterVerif.Model.Polygon
import CoxeterVerif.Spec.Planar
import Mathlib.Data.List.Rotate
/-!
  2-D chain framework (directed edges / triangles) and the per-triangle identities behind C04.
-/
open Scalar
set_option maxRecDepth 4000
noncomputable section

abbrev Edge := V3 ℝ × V3 ℝ

def sumEdges (φ : Edge → ℝ) (E : List Edge) : ℝ := (E.map φ).sum

/-- odd functional on directed edges -/
def OddEdge (φ : Edge → ℝ) : Prop := ∀ p q, φ (q, p) = -φ (p, q)

/-- two lists of directed edges are equal as 1-chains -/
def EdgeChainEq (E F : List Edge) : Prop := ∀ φ, OddEdge φ → sumEdges φ E = sumEdges φ F

def triEdges (t : Tri ℝ) : List Edge := [(t.a, t.b), (t.b, t.c), (t.c, t.a)]

namespace EdgeChainEq
theorem refl (E) : EdgeChainEq E E := fun _ _ => rfl
theorem symm {E F} (h : EdgeChainEq E F) : EdgeChainEq F E := fun φ hφ => (h φ hφ).symm
theorem trans {E F G} (h₁ : EdgeChainEq E F) (h₂ : EdgeChainEq F G) : EdgeChainEq E G :=
  fun φ hφ => (h₁ φ hφ).trans (h₂ φ hφ)
theorem perm {E F : List Edge} (h : E.Perm F) : EdgeChainEq E F :=
  fun φ _ => by unfold sumEdges; exact (h.map φ).sum_eq
theorem cancel (p q : V3 ℝ) (E) : EdgeChainEq ((p, q) :: (q, p) :: E) E :=
  fun φ hφ => by simp [sumEdges, hφ p q]
end EdgeChainEq

theorem sumEdges_flatMap (φ : Edge → ℝ) (Ts : List (Tri ℝ)) :
    sumEdges φ (Ts.flatMap triEdges) = (Ts.map fun T => sumEdges φ (triEdges T)).sum := by
  induction Ts with
  | nil => simp [sumEdges]
  | cons T Ts ih => simp only [sumEdges, List.flatMap_cons, List.map_append, List.sum_append,
      List.map_cons, List.sum_cons] at *; rw [ih]

/-- **2-D backbone**: an odd edge functional whose sum round any triangle is `Φ` sums, over any
closed edge chain that bounds the triangulation `Ts`, to `Σ Φ`. -/
theorem sumEdges_bdry {φ : Edge → ℝ} {Φ : Tri ℝ → ℝ} (hφ : OddEdge φ)
    (hT : ∀ T, sumEdges φ (triEdges T) = Φ T) {E : List Edge} {Ts : List (Tri ℝ)}
    (h : EdgeChainEq E (Ts.flatMap triEdges)) : sumEdges φ E = (Ts.map Φ).sum := by
  rw [h φ hφ, sumEdges_flatMap]; congr 1; exact List.map_congr_left (fun T _ => hT T)

/-! ### the polygon's cycle of directed edges -/

theorem rotl_eq_rotate {β : Type} (k : Nat) (l : List β) : Poly2.rotl k l = l.rotate k := by
  unfold Poly2.rotl; rw [List.rotate_eq_drop_append_take_mod]

/-- directed edges `(v_i, v_{i+1})` of the closed polygon -/
def cycleEdges (w : List (V3 ℝ)) : List Edge := w.zip (Poly2.rotl 1 w)

theorem zipWith_rotl_eq (f : V3 ℝ → V3 ℝ → ℝ) (w : List (V3 ℝ)) :
    Scalar.sum (List.zipWith f w (Poly2.rotl 1 w)) = sumEdges (fun e => f e.1 e.2) (cycleEdges w) := by
  simp only [Scalar.sum_real, sumEdges, cycleEdges, List.map_zip_eq_zipWith]
  rfl

/-- sum over consecutive pairs is invariant under rotating the list -/
theorem sum_zipWith_rotate (f : V3 ℝ → V3 ℝ → ℝ) (w : List (V3 ℝ)) :
    (List.zipWith f (w.rotate 1) (w.rotate 2)).sum = (List.zipWith f w (w.rotate 1)).sum := by
  have h : w.rotate 2 = (w.rotate 1).rotate 1 := by rw [List.rotate_rotate]
  rw [h, ← List.zipWith_rotate_distrib f w (w.rotate 1) 1 (by simp)]
  exact (List.rotate_perm _ 1).sum_eq

/-- splitting the `x_{i+1}(y_{i+2} − y_i)` sum -/
theorem sum_zip3_split (l v1 v2 : List (V3 ℝ)) (h1 : v1.length = l.length) (h2 : v2.length = l.length) :
    (List.zipWith (fun (ab : V3 ℝ × V3 ℝ) c => ab.2.x * (c.y - ab.1.y)) (l.zip v1) v2).sum
      = (List.zipWith (fun p q => p.x * q.y) v1 v2).sum
        - (List.zipWith (fun p q => q.x * p.y) l v1).sum := by
  induction l generalizing v1 v2 with
  | nil =>
    have : v1 = [] := List.length_eq_zero_iff.mp (by simpa using h1)
    subst this
    simp only [List.zip_nil_left, List.zipWith_nil_left, List.sum_nil, sub_self]
  | cons a t ih =>
    match v1, v2, h1, h2 with
    | b :: t1, c :: t2, h1, h2 =>
      simp only [List.zip_cons_cons, List.zipWith_cons_cons, List.sum_cons]
      rw [ih t1 t2 (by simpa using h1) (by simpa using h2)]
      ring

theorem sum_zipWith_delta (l v1 : List (V3 ℝ)) (h1 : v1.length = l.length) :
    (List.zipWith (fun p q => p.x * q.y) l v1).sum - (List.zipWith (fun p q => q.x * p.y) l v1).sum
      = (List.zipWith Poly2.delta l v1).sum := by
  induction l generalizing v1 with
  | nil => simp
  | cons a t ih =>
    match v1, h1 with
    | b :: t1, h1 =>
      have := ih t1 (by simpa using h1)
      simp only [List.zipWith_cons_cons, List.sum_cons, Poly2.delta] at this ⊢
      linarith

/-- `Σ x_{i+1}(y_{i+2} − y_i) = Σ (x_i y_{i+1} − x_{i+1} y_i)` over the closed polygon -/
theorem shoelace_reindex (vs : List (V3 ℝ)) :
    (List.zipWith (fun (ab : V3 ℝ × V3 ℝ) c => ab.2.x * (c.y - ab.1.y))
        (vs.zip (Poly2.rotl 1 vs)) (Poly2.rotl 2 vs)).sum
      = (List.zipWith Poly2.delta vs (Poly2.rotl 1 vs)).sum := by
  simp only [rotl_eq_rotate]
  rw [sum_zip3_split vs _ _ (List.length_rotate _ _) (List.length_rotate _ _),
    sum_zipWith_rotate (fun p q => p.x * q.y) vs,
    sum_zipWith_delta vs _ (List.length_rotate _ _)]

/-! ### per-edge functionals and per-triangle identities -/

def dPhi : Edge → ℝ := fun e => Poly2.delta e.1 e.2
def cxPhi : Edge → ℝ := fun e => (e.1.x + e.2.x) * Poly2.delta e.1 e.2
def cyPhi : Edge → ℝ := fun e => (e.1.y + e.2.y) * Poly2.delta e.1 e.2
def ixxPhi : Edge → ℝ := fun e => Poly2.delta e.1 e.2 * (e.1.x * e.1.x + e.1.x * e.2.x + e.2.x * e.2.x)
def iyyPhi : Edge → ℝ := fun e => Poly2.delta e.1 e.2 * (e.1.y * e.1.y + e.1.y * e.2.y + e.2.y * e.2.y)
def ixyPhi : Edge → ℝ := fun e => Poly2.delta e.1 e.2 *
  (e.1.x * e.2.y + lit 2 * (e.1.x * e.1.y + e.2.x * e.2.y) + e.1.y * e.2.x)

macro "odd_edge" d:ident : tactic => `(tactic|
  (intro ⟨px, py, pz⟩ ⟨qx, qy, qz⟩; simp only [$d:ident, Poly2.delta, Scalar.lit, Scalar.ofNat_real]; push_cast; ring))

theorem dPhi_odd : OddEdge dPhi := by odd_edge dPhi
theorem cxPhi_odd : OddEdge cxPhi := by odd_edge cxPhi
theorem cyPhi_odd : OddEdge cyPhi := by odd_edge cyPhi
theorem ixxPhi_odd : OddEdge ixxPhi := by odd_edge ixxPhi
theorem iyyPhi_odd : OddEdge iyyPhi := by odd_edge iyyPhi
theorem ixyPhi_odd : OddEdge ixyPhi := by odd_edge ixyPhi

macro "tri_identity" d:ident s:ident : tactic => `(tactic|
  (intro ⟨⟨ax, ay, az⟩, ⟨bx, b_y, bz⟩, ⟨cx, cy, cz⟩⟩
   simp only [sumEdges, triEdges, $d:ident, $s:ident, Spec2.triArea, Poly2.delta, List.map_cons, List.map_nil,
     List.sum_cons, List.sum_nil, Scalar.lit, Scalar.ofNat_real, V3.get_zero, V3.get_one]
   push_cast; ring))

theorem dPhi_tri : ∀ T, sumEdges dPhi (triEdges T) = 2 * Spec2.triArea T := by
  tri_identity dPhi dPhi
theorem cxPhi_tri : ∀ T, sumEdges cxPhi (triEdges T) = 6 * Spec2.triFirst T 0 := by
  tri_identity cxPhi Spec2.triFirst
theorem cyPhi_tri : ∀ T, sumEdges cyPhi (triEdges T) = 6 * Spec2.triFirst T 1 := by
  tri_identity cyPhi Spec2.triFirst
theorem ixxPhi_tri : ∀ T, sumEdges ixxPhi (triEdges T) = 12 * Spec2.triSecond T 0 0 := by
  tri_identity ixxPhi Spec2.triSecond
theorem iyyPhi_tri : ∀ T, sumEdges iyyPhi (triEdges T) = 12 * Spec2.triSecond T 1 1 := by
  tri_identity iyyPhi Spec2.triSecond
theorem ixyPhi_tri : ∀ T, sumEdges ixyPhi (triEdges T) = 24 * Spec2.triSecond T 0 1 := by
  tri_identity ixyPhi Spec2.triSecond

end
