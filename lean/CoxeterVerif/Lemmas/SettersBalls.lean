import CoxeterVerif.Lemmas.Setters
import CoxeterVerif.Lemmas.Balls
import CoxeterVerif.Lemmas.CovarianceScale
/-!
  C08 — the two centred ball radii of `ConvexPolyhedron` that are closed forms of the model state
  (`minimal_centered_bounding_sphere_radius` = largest vertex distance from the centroid,
  `maximal_centered_bounded_sphere_radius` = smallest face distance from the centroid) are
  homogeneous of degree one under `_rescale` when the cached centroid is coherent — so their
  generic `Shape3D` setters read back with no hypothesis on the getter.
-/
open Scalar Mut Setters Balls
set_option maxRecDepth 4000
noncomputable section

namespace Setters
namespace ConvexPolyhedron

theorem foldl_max_scale {k : ℝ} (hk : 0 ≤ k) (xs : List ℝ) (x : ℝ) :
    (xs.map (k * ·)).foldl Scalar.max (k * x) = k * xs.foldl Scalar.max x := by
  induction xs generalizing x with
  | nil => rfl
  | cons y ys ih =>
    simp only [List.map_cons, List.foldl_cons]
    rw [show Scalar.max (k * x) (k * y) = k * Scalar.max x y by
      simp only [Scalar.max_real]; exact (mul_max_of_nonneg x y hk).symm]
    exact ih _

theorem listMax_scale {k : ℝ} (hk : 0 ≤ k) (l : List ℝ) : listMax (l.map (k * ·)) = k * listMax l := by
  cases l with
  | nil => simp [listMax, Scalar.lit]
  | cons x xs => exact foldl_max_scale hk xs x

/-- the radius read from a freshly built ball -/
def radiusOf (b : Except String (Ball ℝ)) : Except String ℝ := do let x ← b; pure x.radius

theorem radiusOf_mkBall_scale {k : ℝ} (hk : 0 < k) (r : ℝ) (c c' : V3 ℝ) :
    radiusOf (mkBall (k * r) c') = Except.map (· * k) (radiusOf (mkBall r c)) := by
  unfold mkBall radiusOf
  by_cases hr : 0 < r
  · rw [if_pos (lit0_lt.mpr (mul_pos hk hr)), if_pos (lit0_lt.mpr hr)]
    show Except.ok (k * r) = Except.ok (r * k)
    rw [mul_comm]
  · have hkr : ¬ 0 < k * r := fun h => hr (pos_of_mul_pos_of_pos_left' h hk)
    rw [if_neg (fun h => hkr (lit0_lt.mp h)), if_neg (fun h => hr (lit0_lt.mp h))]
    rfl
where
  pos_of_mul_pos_of_pos_left' {a b : ℝ} (h : 0 < a * b) (ha : 0 < a) : 0 < b := by
    by_contra hb
    have hb' : b ≤ 0 := not_lt.mp hb
    nlinarith [mul_nonneg ha.le (neg_nonneg.mpr hb')]

/-- the cached centroid after `_rescale(k)` is `k` times the old one, when the old one was coherent -/
theorem centroid_rescale (s : CPState ℝ) {k : ℝ} (hk : k ≠ 0) (hcen : s.centroid = CP.centroid s.tris s.volume) :
    (s.rescale k).centroid = V3.smul k s.centroid := by
  show CP.centroid (trisOf (s.verts.map (V3.smul k)) s.simplices) (s.volume * (k * k * k)) = _
  rw [trisOf_map_smul, hcen, show s.volume * (k * k * k) = k ^ 3 * s.volume by ring]
  exact CP.centroid_scale hk _ _

theorem get_minCentered_rescale (ball : P3Prop → CPState ℝ → Except String ℝ) (s : CPState ℝ) {k : ℝ} (hk : 0 < k)
    (hcen : s.centroid = CP.centroid s.tris s.volume) :
    get ball (.ball .minCentered) (s.rescale k) = Except.map (· * k ^ (P3Prop.ball .minCentered).deg)
      (get ball (.ball .minCentered) s) := by
  show radiusOf (minimalCenteredBounding (s.rescale k).verts (s.rescale k).centroid)
    = Except.map (· * k ^ 1) (radiusOf (minimalCenteredBounding s.verts s.centroid))
  rw [centroid_rescale s hk.ne' hcen, pow_one]
  unfold minimalCenteredBounding
  have hl : ((s.rescale k).verts.map fun v => V3.norm (v - V3.smul k s.centroid))
      = (s.verts.map fun v => V3.norm (v - s.centroid)).map (k * ·) := by
    show ((s.verts.map (V3.smul k)).map fun v => V3.norm (v - V3.smul k s.centroid)) = _
    rw [List.map_map, List.map_map]
    apply List.map_congr_left
    intro v _
    simp only [Function.comp, v3smul_sub, v3norm_smul hk.le]
  rw [hl, listMax_scale hk.le]
  exact radiusOf_mkBall_scale hk _ _ _

theorem pointPlaneDistances_rescale (s : CPState ℝ) (k : ℝ) (c : V3 ℝ) :
    pointPlaneDistances (eqs (s.rescale k)) (V3.smul k c) = (pointPlaneDistances (eqs s) c).map (k * ·) := by
  unfold pointPlaneDistances eqs
  show ((s.eqN.zip (s.eqD.map (· * k))).map fun e => V3.dot (V3.smul k c) e.1 + e.2) = _
  rw [List.zip_map_right, List.map_map, List.map_map]
  apply List.map_congr_left
  intro e _
  simp only [Function.comp, Prod.map, id, V3.dot, V3.smul_x, V3.smul_y, V3.smul_z]; ring

theorem any_pos_scale {k : ℝ} (hk : 0 < k) (l : List ℝ) :
    (l.map (k * ·)).any (fun d => decide ((lit 0 : ℝ) < d)) = l.any (fun d => decide ((lit 0 : ℝ) < d)) := by
  rw [List.any_map]
  congr 1
  funext d
  simp only [Function.comp]
  apply decide_eq_decide.mpr
  rw [lit0_lt, lit0_lt]
  constructor
  · intro h
    by_contra hd
    have hd' : d ≤ 0 := not_lt.mp hd
    nlinarith [mul_nonneg hk.le (neg_nonneg.mpr hd')]
  · intro h; exact mul_pos hk h

theorem get_maxCentered_rescale (ball : P3Prop → CPState ℝ → Except String ℝ) (s : CPState ℝ) {k : ℝ} (hk : 0 < k)
    (hcen : s.centroid = CP.centroid s.tris s.volume) :
    get ball (.ball .maxCentered) (s.rescale k) = Except.map (· * k ^ (P3Prop.ball .maxCentered).deg)
      (get ball (.ball .maxCentered) s) := by
  show radiusOf (maximalCenteredBoundedSphere (eqs (s.rescale k)) (s.rescale k).centroid)
    = Except.map (· * k ^ 1) (radiusOf (maximalCenteredBoundedSphere (eqs s) s.centroid))
  rw [centroid_rescale s hk.ne' hcen, pow_one]
  unfold maximalCenteredBoundedSphere
  simp only [pointPlaneDistances_rescale, any_pos_scale hk, listMax_scale hk.le]
  by_cases hany : (pointPlaneDistances (eqs s) s.centroid).any (fun d => decide ((lit 0 : ℝ) < d)) = true
  · rw [if_pos hany, if_pos hany]; rfl
  · rw [if_neg hany, if_neg hany]
    rw [show -(k * listMax (pointPlaneDistances (eqs s) s.centroid))
      = k * (-(listMax (pointPlaneDistances (eqs s) s.centroid))) by ring]
    exact radiusOf_mkBall_scale hk _ _ _

/-- the getters of `ConvexPolyhedron` that are closed forms of the model state -/
def IsClosedForm (p : P3Prop) : Prop :=
  p = .volume ∨ p = .surfaceArea ∨ p = .ball .minCentered ∨ p = .ball .maxCentered

/-- **all four closed-form getters of `ConvexPolyhedron` are homogeneous under `_rescale`** -/
theorem get_rescale_closed (ball : P3Prop → CPState ℝ → Except String ℝ) (p : P3Prop) (hp : IsClosedForm p)
    (s : CPState ℝ) {k : ℝ} (hk : 0 < k) (hcen : s.centroid = CP.centroid s.tris s.volume) :
    get ball p (s.rescale k) = Except.map (· * k ^ p.deg) (get ball p s) := by
  rcases hp with rfl | rfl | rfl | rfl
  · show Except.ok (s.volume * (k * k * k)) = Except.ok (s.volume * k ^ 3); congr 1; ring
  · show Except.ok (s.area * (k * k)) = Except.ok (s.area * k ^ 2); congr 1; ring
  · exact get_minCentered_rescale ball s hk hcen
  · exact get_maxCentered_rescale ball s hk hcen

end ConvexPolyhedron
end Setters
end
