import CoxeterVerif.Lemmas.SteinerBoxMeasure
/-!
  C11 (deepening round) — **right prisms**: the spatial Steiner formula for the prism `[0,h] × K`
  follows (as a theorem about Lebesgue measure, by the slicing lemma of `SteinerBoxMeasure.lean`) from
  the PLANAR Steiner formula of its base `K`:

    vol₃((([0,h] × K) ⊕ rB³) = hA + (2A + hP) r + (πh + πP/2) r² + 4/3 π r³

  whenever `area(K ⊕ ρB²) = A + Pρ + πρ²` for all `ρ ≥ 0`.  The `r²` coefficient is the trusted
  `H = ½ Σ L θ` of the prism: the vertical edges contribute `½ h Σθ_i = πh` (exterior angles of the
  base, `Σ θ_i = 2π`) and the `2n` base edges `½ · 2 · Σ L_i · π/2 = πP/2`.
-/
namespace Steiner.BoxMeasure
noncomputable section
open MeasureTheory Set

/-- sublevel form: if `g ≥ 0` on the plane has sublevel sets of area `A + P√s + πs`, the sublevel
sets of `dist1 h x ² + g` in space have the prism's Steiner volume -/
theorem volume_sublevel_prism (g : ℝ × ℝ → ℝ) (hg : Measurable g) (hg0 : ∀ q, 0 ≤ g q)
    (A P : ℝ) (hA : 0 ≤ A) (hP : 0 ≤ P)
    (hG : ∀ s, 0 ≤ s → volume {q | g q ≤ s} = ENNReal.ofReal (A + P * √s + Real.pi * s))
    (h s : ℝ) (hh : 0 ≤ h) (hs : 0 ≤ s) :
    volume {p : ℝ × ℝ × ℝ | dist1 h p.1 ^ 2 + g p.2 ≤ s}
      = ENNReal.ofReal (h * A + (2 * A + h * P) * √s + (Real.pi * h + Real.pi * P / 2) * s
          + 4 / 3 * Real.pi * (s * √s)) := by
  rw [Measure.volume_eq_prod]
  have hsl := volume_slice (volume : Measure (ℝ × ℝ)) g hg hg0
    (fun s => A + P * √s + Real.pi * s) (by fun_prop)
    (fun s hs => by have := Real.sqrt_nonneg s; have := Real.pi_pos; positivity)
    hG h s hh hs
  rw [hsl]
  congr 1
  have hρ : 0 ≤ √s := Real.sqrt_nonneg s
  have h1 : Continuous fun t : ℝ => A + P * √(s - t ^ 2) := by fun_prop
  have h2 : Continuous fun t : ℝ => P * √(s - t ^ 2) := by fun_prop
  have h3 : Continuous fun t : ℝ => Real.pi * (s - t ^ 2) := by fun_prop
  have h4 : Continuous fun t : ℝ => t ^ 2 := by fun_prop
  have hcube : √s ^ 3 = s * √s := by
    rw [pow_succ, Real.sq_sqrt hs]
  have e : ∫ t in (0:ℝ)..√s, (A + P * √(s - t ^ 2) + Real.pi * (s - t ^ 2))
      = A * √s + P * (Real.pi * s / 4) + Real.pi * (s * √s - s * √s / 3) := by
    rw [intervalIntegral.integral_add (h1.intervalIntegrable _ _) (h3.intervalIntegrable _ _),
      intervalIntegral.integral_add (continuous_const.intervalIntegrable _ _)
        (h2.intervalIntegrable _ _),
      intervalIntegral.integral_const, intervalIntegral.integral_const_mul,
      intervalIntegral.integral_const_mul, integral_sqrt_sub_sq s hs,
      intervalIntegral.integral_sub (continuous_const.intervalIntegrable _ _)
        (h4.intervalIntegrable _ _),
      intervalIntegral.integral_const, integral_pow]
    simp only [sub_zero, smul_eq_mul]
    norm_num
    rw [hcube]
    ring
  rw [e]
  ring

/-- the right prism over `K` of height `h` -/
def prism (h : ℝ) (K : Set (ℝ × ℝ)) : Set (ℝ × ℝ × ℝ) := Icc 0 h ×ˢ K

/-- if the planar parallel bodies of `K` are the sublevel sets of `g` (= squared distance to `K`),
the spatial parallel bodies of the prism are the sublevel sets of `dist1 h x ² + g` -/
theorem parallel3_prism (K : Set (ℝ × ℝ)) (g : ℝ × ℝ → ℝ) (hg0 : ∀ q, 0 ≤ g q)
    (hK : ∀ ρ, 0 ≤ ρ → parallel2 K ρ = {q | g q ≤ ρ ^ 2}) (h r : ℝ) (hh : 0 ≤ h) :
    parallel3 (prism h K) r = {p | dist1 h p.1 ^ 2 + g p.2 ≤ r ^ 2} := by
  ext p
  simp only [parallel3, prism, mem_ofPred_eq]
  constructor
  · rintro ⟨q, hq, hle⟩
    obtain ⟨hq1, hq2⟩ := mem_prod.1 hq
    have h1 := dist1_sq_le hq1 p.1
    set ρ := √((p.2.1 - q.2.1) ^ 2 + (p.2.2 - q.2.2) ^ 2) with hρ
    have hρ0 : 0 ≤ ρ := Real.sqrt_nonneg _
    have hρ2 : ρ ^ 2 = (p.2.1 - q.2.1) ^ 2 + (p.2.2 - q.2.2) ^ 2 := Real.sq_sqrt (by positivity)
    have hmem : p.2 ∈ parallel2 K ρ := ⟨q.2, hq2, by rw [hρ2]⟩
    rw [hK ρ hρ0] at hmem
    have : g p.2 ≤ ρ ^ 2 := hmem
    linarith
  · intro hle
    have hgp := hg0 p.2
    set ρ := √(r ^ 2 - dist1 h p.1 ^ 2) with hρ
    have hρ2 : ρ ^ 2 = r ^ 2 - dist1 h p.1 ^ 2 := Real.sq_sqrt (by linarith)
    have hmem : p.2 ∈ parallel2 K ρ := by
      rw [hK ρ (Real.sqrt_nonneg _)]
      simp only [mem_ofPred_eq]; rw [hρ2]; linarith
    obtain ⟨q2, hq2, hle2⟩ := hmem
    obtain ⟨q1, hq1, e1⟩ := exists_dist1 hh p.1
    refine ⟨(q1, q2), mem_prod.2 ⟨hq1, hq2⟩, ?_⟩
    simp only
    rw [hρ2] at hle2
    have : (p.1 - q1) ^ 2 = dist1 h p.1 ^ 2 := e1
    linarith

/-- **Steiner, right prism, relative to the planar Steiner formula of the base** -/
theorem volume_parallel_prism (K : Set (ℝ × ℝ)) (g : ℝ × ℝ → ℝ) (hg : Measurable g) (hg0 : ∀ q, 0 ≤ g q)
    (hK : ∀ ρ, 0 ≤ ρ → parallel2 K ρ = {q | g q ≤ ρ ^ 2})
    (A P : ℝ) (hA : 0 ≤ A) (hP : 0 ≤ P)
    (hSt : ∀ ρ, 0 ≤ ρ → volume (parallel2 K ρ) = ENNReal.ofReal (A + P * ρ + Real.pi * ρ ^ 2))
    (h r : ℝ) (hh : 0 ≤ h) (hr : 0 ≤ r) :
    volume (parallel3 (prism h K) r)
      = ENNReal.ofReal (h * A + (2 * A + h * P) * r + (Real.pi * h + Real.pi * P / 2) * r ^ 2
          + 4 / 3 * Real.pi * r ^ 3) := by
  have hG : ∀ s, 0 ≤ s → volume {q | g q ≤ s} = ENNReal.ofReal (A + P * √s + Real.pi * s) := by
    intro s hs
    have := hSt (√s) (Real.sqrt_nonneg s)
    rw [hK _ (Real.sqrt_nonneg s), Real.sq_sqrt hs] at this
    exact this
  rw [parallel3_prism K g hg0 hK h r hh, volume_sublevel_prism g hg hg0 A P hA hP hG h (r ^ 2) hh (sq_nonneg r),
    Real.sqrt_sq hr, (by ring : r ^ 2 * r = r ^ 3)]

end
end Steiner.BoxMeasure
