import CoxeterVerif.RealInst
import CoxeterVerif.Vec
/-! Bridging lemmas: the generic folds at ℝ are `List.sum`; component lemmas for `V3`. -/
open Scalar

@[simp] theorem Scalar.sum_real (l : List ℝ) : Scalar.sum l = l.sum := by
  induction l with
  | nil => simp [Scalar.sum]
  | cons a l ih => simpa [Scalar.sum] using ih

namespace V3
@[ext] theorem ext' {u v : V3 ℝ} (hx : u.x = v.x) (hy : u.y = v.y) (hz : u.z = v.z) : u = v := by
  cases u; cases v; simp_all

@[simp] theorem add_x (u v : V3 ℝ) : (u + v).x = u.x + v.x := rfl
@[simp] theorem add_y (u v : V3 ℝ) : (u + v).y = u.y + v.y := rfl
@[simp] theorem add_z (u v : V3 ℝ) : (u + v).z = u.z + v.z := rfl
@[simp] theorem sub_x (u v : V3 ℝ) : (u - v).x = u.x - v.x := rfl
@[simp] theorem sub_y (u v : V3 ℝ) : (u - v).y = u.y - v.y := rfl
@[simp] theorem sub_z (u v : V3 ℝ) : (u - v).z = u.z - v.z := rfl
@[simp] theorem neg_x (u : V3 ℝ) : (-u).x = -u.x := rfl
@[simp] theorem neg_y (u : V3 ℝ) : (-u).y = -u.y := rfl
@[simp] theorem neg_z (u : V3 ℝ) : (-u).z = -u.z := rfl
@[simp] theorem smul_x (k : ℝ) (u : V3 ℝ) : (smul k u).x = k * u.x := rfl
@[simp] theorem smul_y (k : ℝ) (u : V3 ℝ) : (smul k u).y = k * u.y := rfl
@[simp] theorem smul_z (k : ℝ) (u : V3 ℝ) : (smul k u).z = k * u.z := rfl
@[simp] theorem sdiv_x (k : ℝ) (u : V3 ℝ) : (sdiv u k).x = u.x / k := rfl
@[simp] theorem sdiv_y (k : ℝ) (u : V3 ℝ) : (sdiv u k).y = u.y / k := rfl
@[simp] theorem sdiv_z (k : ℝ) (u : V3 ℝ) : (sdiv u k).z = u.z / k := rfl
@[simp] theorem had_x (u v : V3 ℝ) : (had u v).x = u.x * v.x := rfl
@[simp] theorem had_y (u v : V3 ℝ) : (had u v).y = u.y * v.y := rfl
@[simp] theorem had_z (u v : V3 ℝ) : (had u v).z = u.z * v.z := rfl
@[simp] theorem get_zero (u : V3 ℝ) : u.get 0 = u.x := rfl
@[simp] theorem get_one (u : V3 ℝ) : u.get 1 = u.y := rfl
@[simp] theorem get_two (u : V3 ℝ) : u.get 2 = u.z := rfl

@[simp] theorem zero_x : (zero : V3 ℝ).x = 0 := by simp [zero]
@[simp] theorem zero_y : (zero : V3 ℝ).y = 0 := by simp [zero]
@[simp] theorem zero_z : (zero : V3 ℝ).z = 0 := by simp [zero]

theorem sum_x (l : List (V3 ℝ)) : (sum l).x = (l.map (·.x)).sum := by
  induction l with
  | nil => simp [sum]
  | cons a l ih => simp [sum] at ih ⊢; rw [← ih]; rfl
theorem sum_y (l : List (V3 ℝ)) : (sum l).y = (l.map (·.y)).sum := by
  induction l with
  | nil => simp [sum]
  | cons a l ih => simp [sum] at ih ⊢; rw [← ih]; rfl
theorem sum_z (l : List (V3 ℝ)) : (sum l).z = (l.map (·.z)).sum := by
  induction l with
  | nil => simp [sum]
  | cons a l ih => simp [sum] at ih ⊢; rw [← ih]; rfl
end V3

theorem list_sum_map_mul (c : ℝ) {β : Type} (f : β → ℝ) (l : List β) :
    (l.map fun x => c * f x).sum = c * (l.map f).sum := by
  induction l with
  | nil => simp
  | cons a l ih => simp [ih, mul_add]

theorem list_sum_map_lin (k : ℝ) {β : Type} (f g : β → ℝ) (l : List β) :
    (l.map fun x => k * (f x + g x)).sum = k * ((l.map f).sum + (l.map g).sum) := by
  induction l with
  | nil => simp
  | cons a l ih => simp only [List.map_cons, List.sum_cons, ih]; ring


/-- `np.clip(x, -1, 1)` before `arccos` changes nothing over ℝ (`Real.arccos` already clamps) -/
theorem arccos_clip (x : ℝ) :
    Real.arccos (Scalar.min (Scalar.max x (-(Scalar.lit 1))) (Scalar.lit 1)) = Real.arccos x := by
  simp only [Scalar.min, Scalar.max, Scalar.lit, Scalar.ofNat_real, Nat.cast_one]
  by_cases h1 : x < -1
  · have e : Real.arccos x = Real.pi := Real.arccos_of_le_neg_one h1.le
    simp only [h1, if_true]
    rw [if_neg (by norm_num), e, Real.arccos_neg_one]
  · simp only [h1, if_false]
    by_cases h2 : (1:ℝ) < x
    · rw [if_pos h2, Real.arccos_one, Real.arccos_of_one_le h2.le]
    · rw [if_neg h2]
