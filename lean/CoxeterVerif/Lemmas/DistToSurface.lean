import CoxeterVerif.Lemmas.Basic
import CoxeterVerif.Model.DistToSurface
import CoxeterVerif.Spec.DistToSurface
/-! Helper lemmas for C14 (distance_to_surface): bridging, trigonometry, plane geometry. -/
open Scalar
noncomputable section

namespace P2
@[simp] theorem add_x (u v : P2 ℝ) : (u + v).x = u.x + v.x := rfl
@[simp] theorem add_y (u v : P2 ℝ) : (u + v).y = u.y + v.y := rfl
@[simp] theorem sub_x (u v : P2 ℝ) : (u - v).x = u.x - v.x := rfl
@[simp] theorem sub_y (u v : P2 ℝ) : (u - v).y = u.y - v.y := rfl
theorem norm_real (u : P2 ℝ) : P2.norm u = Real.sqrt (u.x * u.x + u.y * u.y) := rfl
theorem norm_nonneg (u : P2 ℝ) : 0 ≤ P2.norm u := Real.sqrt_nonneg _
theorem norm_mul_self (u : P2 ℝ) : P2.norm u * P2.norm u = u.x * u.x + u.y * u.y :=
  Real.mul_self_sqrt (by nlinarith [mul_self_nonneg u.x, mul_self_nonneg u.y])
end P2

@[simp] theorem Scalar.eqb_real (a b : ℝ) : Scalar.eqb a b = decide (a = b) := rfl
@[simp] theorem Scalar.atan2_real (y x : ℝ) : Scalar.atan2 y x = Complex.arg ⟨x, y⟩ := rfl
@[simp] theorem Scalar.floor_real (x : ℝ) : Scalar.floor x = (⌊x⌋ : ℝ) := rfl

theorem DTS.twoPi_real : (DTS.twoPi : ℝ) = 2 * Real.pi := by
  simp [DTS.twoPi, Scalar.lit]

theorem DTS.twoPi_pos : (0 : ℝ) < DTS.twoPi := by
  rw [DTS.twoPi_real]; positivity

theorem sin_mul_self_add_cos_mul_self (θ : ℝ) :
    Real.sin θ * Real.sin θ + Real.cos θ * Real.cos θ = 1 := by
  have := Real.sin_sq_add_cos_sq θ; nlinarith

/-! ### `np.mod(·, 2π)` -/

/-- `fmod (x + k·2π) 2π = fmod x 2π` -/
theorem DTS.fmod_add_int_mul (x : ℝ) (k : ℤ) :
    DTS.fmod (x + k * DTS.twoPi) DTS.twoPi = DTS.fmod x DTS.twoPi := by
  have hp : (DTS.twoPi : ℝ) ≠ 0 := DTS.twoPi_pos.ne'
  unfold DTS.fmod
  simp only [Scalar.floor_real]
  have h : (x + k * DTS.twoPi) / DTS.twoPi = x / DTS.twoPi + k := by
    field_simp
  rw [h, Int.floor_add_intCast]
  push_cast
  ring

/-- `0 ≤ fmod x 2π < 2π` -/
theorem DTS.fmod_range (x : ℝ) :
    0 ≤ DTS.fmod x DTS.twoPi ∧ DTS.fmod x DTS.twoPi < DTS.twoPi := by
  have hp : (0 : ℝ) < DTS.twoPi := DTS.twoPi_pos
  unfold DTS.fmod
  simp only [Scalar.floor_real]
  have h1 := Int.floor_le (x / DTS.twoPi)
  have h2 := Int.lt_floor_add_one (x / DTS.twoPi)
  have e : x = x / DTS.twoPi * DTS.twoPi := by field_simp
  constructor
  · have := mul_le_mul_of_nonneg_right h1 hp.le
    linarith
  · have := mul_lt_mul_of_pos_right h2 hp
    linarith

/-- `fmod x 2π = x + k·2π` for an integer `k` -/
theorem DTS.fmod_eq_add_int_mul (x : ℝ) :
    ∃ k : ℤ, DTS.fmod x DTS.twoPi = x + k * (2 * Real.pi) := by
  refine ⟨-⌊x / DTS.twoPi⌋, ?_⟩
  unfold DTS.fmod
  simp only [Scalar.floor_real, DTS.twoPi_real]
  push_cast
  ring

theorem DTS.cos_fmod (x : ℝ) : Real.cos (DTS.fmod x DTS.twoPi) = Real.cos x := by
  obtain ⟨k, hk⟩ := DTS.fmod_eq_add_int_mul x
  rw [hk, Real.cos_add_int_mul_two_pi]

theorem DTS.sin_fmod (x : ℝ) : Real.sin (DTS.fmod x DTS.twoPi) = Real.sin x := by
  obtain ⟨k, hk⟩ := DTS.fmod_eq_add_int_mul x
  rw [hk, Real.sin_add_int_mul_two_pi]

/-! ### polar representation of a vertex by the angle the code computes -/

theorem polar_arg (v : P2 ℝ) :
    P2.norm v * Real.cos (Complex.arg ⟨v.x, v.y⟩) = v.x ∧
    P2.norm v * Real.sin (Complex.arg ⟨v.x, v.y⟩) = v.y := by
  have hn : P2.norm v = ‖(⟨v.x, v.y⟩ : ℂ)‖ := by
    rw [Complex.norm_eq_sqrt_sq_add_sq, P2.norm_real]
    simp only [pow_two]
  rw [hn]
  exact ⟨Complex.norm_mul_cos_arg _, Complex.norm_mul_sin_arg _⟩

/-- with `α = np.mod(np.arctan2(y, x), 2π)`:  `v = |v| (cos α, sin α)` -/
theorem polar_vertexAngle (v : P2 ℝ) :
    P2.norm v * Real.cos (DTS.fmod (Scalar.atan2 v.y v.x) DTS.twoPi) = v.x ∧
    P2.norm v * Real.sin (DTS.fmod (Scalar.atan2 v.y v.x) DTS.twoPi) = v.y := by
  rw [DTS.cos_fmod, DTS.sin_fmod]
  exact polar_arg v

/-- same for the spheropolygon's `if phi < 0: phi += 2π` -/
theorem polar_atan2Pos (v : P2 ℝ) :
    P2.norm v * Real.cos (DTS.atan2Pos v.y v.x) = v.x ∧
    P2.norm v * Real.sin (DTS.atan2Pos v.y v.x) = v.y := by
  unfold DTS.atan2Pos
  simp only [Scalar.atan2_real, Scalar.lit, Scalar.ofNat_real, Nat.cast_zero]
  split_ifs
  · rw [DTS.twoPi_real]
    have hc := Real.cos_add_int_mul_two_pi (Complex.arg ⟨v.x, v.y⟩) 1
    have hs := Real.sin_add_int_mul_two_pi (Complex.arg ⟨v.x, v.y⟩) 1
    simp only [Int.cast_one, one_mul] at hc hs
    rw [hc, hs]
    exact polar_arg v
  · exact polar_arg v

/-! ### ellipse -/

theorem ellipse_den_pos (a b s c : ℝ) (ha : 0 < a) (hb : 0 < b) (h : s * s + c * c = 1) :
    0 < a * a * (s * s) + b * b * (c * c) := by
  have : 0 < s * s ∨ 0 < c * c := by
    by_contra hh
    rw [not_or, not_lt, not_lt] at hh
    nlinarith [mul_self_nonneg s, mul_self_nonneg c]
  rcases this with h1 | h1
  · have := mul_pos (mul_pos ha ha) h1; nlinarith [mul_self_nonneg (b * c)]
  · have := mul_pos (mul_pos hb hb) h1; nlinarith [mul_self_nonneg (a * s)]

/-- the coded quotient is `(ab)² / (a² sin² + b² cos²)` in disguise -/
theorem ellipse_core (a b s c : ℝ) (ha : 0 < a) (hb : 0 < b) (h : s * s + c * c = 1) :
    (a * a + b * b) / (1 + (a * a) / (b * b) * s * s + (b * b) / (a * a) * c * c)
      = (a * b) * (a * b) / (a * a * (s * s) + b * b * (c * c)) := by
  have hD := ellipse_den_pos a b s c ha hb h
  have ha' : a ≠ 0 := ha.ne'
  have hb' : b ≠ 0 := hb.ne'
  have hden : 0 < 1 + (a * a) / (b * b) * s * s + (b * b) / (a * a) * c * c := by
    have h1 : 0 ≤ (a * a) / (b * b) * s * s := by
      rw [mul_assoc]; exact mul_nonneg (by positivity) (mul_self_nonneg s)
    have h2 : 0 ≤ (b * b) / (a * a) * c * c := by
      rw [mul_assoc]; exact mul_nonneg (by positivity) (mul_self_nonneg c)
    linarith
  rw [div_eq_div_iff hden.ne' hD.ne']
  field_simp
  linear_combination (a^2 * b^2) * h

/-! ### plane geometry -/

/-- Cramer in the plane: `cross(p,q) u = cross(u,q) p + cross(p,u) q` -/
theorem cramer2 (p q u : P2 ℝ) :
    Spec.cross p q * u.x = Spec.cross u q * p.x + Spec.cross p u * q.x ∧
    Spec.cross p q * u.y = Spec.cross u q * p.y + Spec.cross p u * q.y := by
  unfold Spec.cross; constructor <;> ring

/-- a ray inside the angular sector of the edge `p → q` (origin strictly to its left) meets the
    segment `[p, q]` at a positive parameter -/
theorem ray_hits_segment_of_sector (p q u : P2 ℝ) (hu : u.x ≠ 0 ∨ u.y ≠ 0)
    (hC : 0 < Spec.cross p q) (hA : 0 ≤ Spec.cross p u) (hB : 0 ≤ Spec.cross u q) :
    ∃ d s : ℝ, 0 < d ∧ 0 ≤ s ∧ s ≤ 1 ∧
      d * u.x = p.x + s * (q.x - p.x) ∧ d * u.y = p.y + s * (q.y - p.y) := by
  obtain ⟨hx, hy⟩ := cramer2 p q u
  have hAB : 0 < Spec.cross p u + Spec.cross u q := by
    rcases hA.lt_or_eq with h | h
    · linarith
    · rcases hB.lt_or_eq with h' | h'
      · linarith
      · exfalso
        rw [← h, ← h'] at hx hy
        simp only [zero_mul, add_zero] at hx hy
        rcases hu with hu | hu
        · exact hu ((mul_eq_zero.mp hx).resolve_left hC.ne')
        · exact hu ((mul_eq_zero.mp hy).resolve_left hC.ne')
  refine ⟨Spec.cross p q / (Spec.cross p u + Spec.cross u q),
    Spec.cross p u / (Spec.cross p u + Spec.cross u q), div_pos hC hAB, div_nonneg hA hAB.le, ?_, ?_, ?_⟩
  · rw [div_le_one hAB]; linarith
  · field_simp; linear_combination hx
  · field_simp; linear_combination hy

/-- angles `a1 ≤ a ≤ a2`, `0 < a2 − a1 < π` put the direction `a` in the sector of the edge -/
theorem sector_of_angles (ρ1 ρ2 a1 a2 a : ℝ) (h1 : 0 < ρ1) (h2 : 0 < ρ2)
    (hlo : a1 ≤ a) (hhi : a ≤ a2) (hlt : a1 < a2) (hpi : a2 - a1 < Real.pi) :
    let p : P2 ℝ := ⟨ρ1 * Real.cos a1, ρ1 * Real.sin a1⟩
    let q : P2 ℝ := ⟨ρ2 * Real.cos a2, ρ2 * Real.sin a2⟩
    let u : P2 ℝ := ⟨Real.cos a, Real.sin a⟩
    0 < Spec.cross p q ∧ 0 ≤ Spec.cross p u ∧ 0 ≤ Spec.cross u q := by
  intro p q u
  have e1 : Spec.cross p q = ρ1 * ρ2 * Real.sin (a2 - a1) := by
    simp only [Spec.cross, p, q, Real.sin_sub]; ring
  have e2 : Spec.cross p u = ρ1 * Real.sin (a - a1) := by
    simp only [Spec.cross, p, u, Real.sin_sub]; ring
  have e3 : Spec.cross u q = ρ2 * Real.sin (a2 - a) := by
    simp only [Spec.cross, q, u, Real.sin_sub]; ring
  rw [e1, e2, e3]
  refine ⟨mul_pos (mul_pos h1 h2) (Real.sin_pos_of_pos_of_lt_pi (by linarith) hpi),
    mul_nonneg h1.le (Real.sin_nonneg_of_nonneg_of_le_pi (by linarith) (by linarith)),
    mul_nonneg h2.le (Real.sin_nonneg_of_nonneg_of_le_pi (by linarith) (by linarith))⟩

/-! ### `np.sign` -/

theorem sign_mul_self_pos (x : ℝ) (hx : x ≠ 0) : 0 < DTS.sign x * x ∧ DTS.sign x * DTS.sign x = 1 := by
  unfold DTS.sign
  simp only [Scalar.lit, Scalar.ofNat_real, Nat.cast_zero, Nat.cast_one]
  rcases lt_or_gt_of_ne hx with h | h
  · rw [if_pos h]; constructor <;> nlinarith
  · rw [if_neg (not_lt.mpr h.le), if_pos h]; constructor <;> nlinarith

/-! ### the bin loop of `_distance_to_surface_from` -/

namespace DTS

/-- `_distance_to_surface_from` after the `np.mod`: the loop for an angle `a` that is already
reduced.  In exact arithmetic `a ∈ [0, 2π)`; `np.mod` in floating point can also return `2π`
itself (e.g. for `θ = -1e-17`), which is why the last bin is closed by `2π + eps`. -/
def cpolyAt (R : M2 ℝ) (flip : Bool) (V : List (P2 ℝ)) (center : P2 ℝ) (a : ℝ) : Option ℝ :=
  match binRows (alignedVerts R flip V center) with
  | [] => none
  | (first, x) :: rest => binsFold a first ((first, x) :: rest) none

theorem cpolyDtsFrom_eq (R : M2 ℝ) (flip : Bool) (V : List (P2 ℝ)) (center : P2 ℝ) (θ : ℝ) :
    cpolyDtsFrom R flip V center θ = cpolyAt R flip V center (fmod θ twoPi) := by
  unfold cpolyDtsFrom cpolyAt
  cases binRows (alignedVerts R flip V center) with
  | nil => rfl
  | cons r rest => rfl

/-- the vertex angle the code computes -/
def vang (p : P2 ℝ) : ℝ := fmod (Scalar.atan2 p.y p.x) twoPi

/-- loop rows of an already rolled vertex list `W`; `f` is the successor of its last vertex -/
def rowsAux (f : P2 ℝ) : List (P2 ℝ) → List (ℝ × ℝ × Edge ℝ)
  | [] => []
  | [p] => [(vang p, twoPi + eps, mkEdge p f)]
  | p :: q :: rest => (vang p, vang q, mkEdge p q) :: rowsAux f (q :: rest)

/-- consecutive pairs of `W`, the last one closed with `f` -/
def cycPairs (f : P2 ℝ) : List (P2 ℝ) → List (P2 ℝ × P2 ℝ)
  | [] => []
  | [p] => [(p, f)]
  | p :: q :: rest => (p, q) :: cycPairs f (q :: rest)

/-- the vertex angles increase along the rolled list with gaps `< π`, the wrap gap included -/
def ChainOK (f : P2 ℝ) : List (P2 ℝ) → Prop
  | [] => True
  | [p] => P2.norm p ≠ 0 ∧ P2.norm f ≠ 0 ∧ vang p < vang f + twoPi ∧ vang f + twoPi - vang p < Real.pi
  | p :: q :: rest =>
    P2.norm p ≠ 0 ∧ P2.norm q ≠ 0 ∧ vang p < vang q ∧ vang q - vang p < Real.pi ∧ ChainOK f (q :: rest)

theorem rowsAux_ne_nil (f q : P2 ℝ) (rest : List (P2 ℝ)) : rowsAux f (q :: rest) ≠ [] := by
  cases rest <;> simp [rowsAux]

theorem rows_eq_aux (f : P2 ℝ) : ∀ W : List (P2 ℝ),
    List.zipWith (fun lo he => (lo, he)) (W.map vang)
      (List.zipWith (fun hi e => (hi, e)) ((W.map vang).drop 1 ++ [twoPi + eps])
        (List.zipWith mkEdge W (W.drop 1 ++ [f]))) = rowsAux f W := by
  intro W
  induction W with
  | nil => simp [rowsAux]
  | cons p W' ih =>
    cases W' with
    | nil => simp [rowsAux]
    | cons q rest =>
      simp only [List.map_cons, List.drop_one, List.tail_cons, List.cons_append,
        List.zipWith_cons_cons, rowsAux] at ih ⊢
      rw [ih]

theorem pairs_eq_aux (f : P2 ℝ) : ∀ W : List (P2 ℝ), W.zip (W.drop 1 ++ [f]) = cycPairs f W := by
  intro W
  induction W with
  | nil => simp [cycPairs]
  | cons p W' ih =>
    cases W' with
    | nil => simp [cycPairs]
    | cons q rest =>
      simp only [List.drop_one, List.tail_cons, List.cons_append, List.zip_cons_cons, cycPairs] at ih ⊢
      rw [ih]

theorem edgesOf_cons (p0 : P2 ℝ) (T : List (P2 ℝ)) : Spec.edgesOf (p0 :: T) = cycPairs p0 (p0 :: T) := by
  rw [← pairs_eq_aux]
  simp [Spec.edgesOf]

theorem vertexAngles_rollL (k : Nat) (A : List (P2 ℝ)) :
    rollL k (vertexAngles A) = (rollL k A).map vang := by
  have h : vertexAngles A = A.map vang := rfl
  rw [h]
  simp only [rollL, List.map_append, List.map_drop, List.map_take]

/-- the loop rows the code builds are `rowsAux` of the rolled vertex list -/
theorem binRows_eq (A : List (P2 ℝ)) (p0 : P2 ℝ) (T : List (P2 ℝ))
    (hW : rollL (argmin (vertexAngles A)) A = p0 :: T) :
    binRows A = rowsAux p0 (p0 :: T) := by
  unfold binRows
  simp only [vertexAngles_rollL, hW]
  rw [← rows_eq_aux]
  simp [rollL]


theorem binsFold_cons (a first : ℝ) (lo hi : ℝ) (e : Edge ℝ) (rest : List (ℝ × ℝ × Edge ℝ))
    (hne : rest ≠ []) (acc : Option ℝ) :
    binsFold a first ((lo, hi, e) :: rest) acc =
      binsFold a first rest
        (if (decide (lo ≤ a) && decide (a < hi)) = true then some (edgeDist e a) else acc) := by
  cases rest with
  | nil => exact absurd rfl hne
  | cons r rs => simp only [binsFold]

theorem binsFold_single (a first : ℝ) (lo hi : ℝ) (e : Edge ℝ) (acc : Option ℝ) :
    binsFold a first [(lo, hi, e)] acc =
      if ((decide (lo ≤ a) && decide (a < hi)) || (decide (lo - twoPi ≤ a) && decide (a < first))) = true
      then some (edgeDist e a) else acc := by
  simp only [binsFold]

theorem binsFold_isSome (a first : ℝ) : ∀ (rows : List (ℝ × ℝ × Edge ℝ)) (acc : Option ℝ),
    acc.isSome = true → (binsFold a first rows acc).isSome = true := by
  intro rows
  induction rows with
  | nil => intro acc h; simpa [binsFold] using h
  | cons r rest ih =>
    intro acc h
    obtain ⟨lo, hi, e⟩ := r
    by_cases hne : rest = []
    · subst hne
      rw [binsFold_single]
      split_ifs <;> simp [h]
    · rw [binsFold_cons _ _ _ _ _ _ hne]
      apply ih
      split_ifs <;> simp [h]

theorem eps_pos : (0 : ℝ) < eps := by
  simp only [eps, Scalar.q, Scalar.ofNat_real]; norm_num

theorem vang_range (p : P2 ℝ) : 0 ≤ vang p ∧ vang p < twoPi := fmod_range _

/-- an angle below the smallest vertex angle is caught by the wrap range of the last row -/
theorem binsFold_cover_lt (a : ℝ) (ha0 : 0 ≤ a) (f : P2 ℝ) (hlt : a < vang f) :
    ∀ (W : List (P2 ℝ)) (acc : Option ℝ), W ≠ [] →
      (binsFold a (vang f) (rowsAux f W) acc).isSome = true := by
  intro W
  induction W with
  | nil => intro _ h; exact absurd rfl h
  | cons p W' ih =>
    intro acc _
    cases W' with
    | nil =>
      simp only [rowsAux]
      rw [binsFold_single]
      have h1 : vang p - twoPi ≤ a := by have := (vang_range p).2; linarith
      simp [h1, hlt]
    | cons q rest =>
      simp only [rowsAux]
      rw [binsFold_cons _ _ _ _ _ _ (rowsAux_ne_nil f q rest)]
      exact ih _ (by simp)

/-- an angle at or above the first vertex angle of the chain falls into one of its bins -/
theorem binsFold_cover_ge (a : ℝ) (ha2 : a ≤ twoPi) (f : P2 ℝ) :
    ∀ (W : List (P2 ℝ)) (acc : Option ℝ) (p : P2 ℝ) (T : List (P2 ℝ)), W = p :: T → vang p ≤ a →
      (binsFold a (vang f) (rowsAux f W) acc).isSome = true := by
  intro W
  induction W with
  | nil => intro _ _ _ h; exact absurd h (by simp)
  | cons p' W' ih =>
    intro acc p T hW hge
    have hp : p' = p := by injection hW
    subst hp
    cases W' with
    | nil =>
      simp only [rowsAux]
      rw [binsFold_single]
      have : a < twoPi + eps := by have := eps_pos; linarith
      simp [hge, this]
    | cons q rest =>
      simp only [rowsAux]
      rw [binsFold_cons _ _ _ _ _ _ (rowsAux_ne_nil f q rest)]
      by_cases hq : a < vang q
      · apply binsFold_isSome
        simp [hge, hq]
      · exact ih _ q rest rfl (not_lt.mp hq)

theorem fmod_id (x : ℝ) (h0 : 0 ≤ x) (h2 : x < twoPi) : fmod x twoPi = x := by
  have hp := twoPi_pos
  have : ⌊x / twoPi⌋ = 0 := by
    rw [Int.floor_eq_iff]
    constructor
    · simp only [Int.cast_zero]; exact div_nonneg h0 hp.le
    · simp only [Int.cast_zero, zero_add]; rw [div_lt_one hp]; exact h2
  simp [fmod, this]

theorem fmod_neg (x : ℝ) (h0 : -twoPi ≤ x) (h2 : x < 0) : fmod x twoPi = x + twoPi := by
  have hp := twoPi_pos
  have : ⌊x / twoPi⌋ = -1 := by
    rw [Int.floor_eq_iff]
    constructor
    · simp only [Int.cast_neg, Int.cast_one]; rw [le_div_iff₀ hp]; linarith
    · simp only [Int.cast_neg, Int.cast_one]; rw [div_lt_iff₀ hp]; linarith
  simp [fmod, this]

theorem vang_e1 : vang ⟨1, 0⟩ = 0 := by
  have h : (⟨1, 0⟩ : ℂ) = 1 := by apply Complex.ext <;> simp
  simp only [vang, Scalar.atan2_real, h, Complex.arg_one]
  exact fmod_id 0 le_rfl twoPi_pos

theorem vang_e2 : vang ⟨0, 1⟩ = Real.pi / 2 := by
  have h : (⟨0, 1⟩ : ℂ) = Complex.I := by apply Complex.ext <;> simp
  simp only [vang, Scalar.atan2_real, h, Complex.arg_I]
  exact fmod_id _ (by positivity) (by rw [twoPi_real]; linarith [Real.pi_pos])

theorem vang_e3 : vang ⟨-1, 0⟩ = Real.pi := by
  have h : (⟨-1, 0⟩ : ℂ) = -1 := by apply Complex.ext <;> simp
  simp only [vang, Scalar.atan2_real, h, Complex.arg_neg_one]
  exact fmod_id _ Real.pi_pos.le (by rw [twoPi_real]; linarith [Real.pi_pos])

theorem vang_e4 : vang ⟨0, -1⟩ = 3 * Real.pi / 2 := by
  have h : (⟨0, -1⟩ : ℂ) = -Complex.I := by apply Complex.ext <;> simp
  simp only [vang, Scalar.atan2_real, h, Complex.arg_neg_I]
  rw [fmod_neg _ (by rw [twoPi_real]; linarith [Real.pi_pos]) (by linarith [Real.pi_pos]), twoPi_real]
  ring

end DTS

end
