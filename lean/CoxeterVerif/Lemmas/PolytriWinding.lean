import CoxeterVerif.Lemmas.PolytriBoundary
import CoxeterVerif.Model.Inside2D
/-!
  C02 (deepening): the winding (half-turn) sum of `Polygon.is_inside` is an odd functional of directed
  edges, hence additive over every triangulation in the chain sense — in particular over the ear
  clipping's output.  (The model of the half-turn term is C06's `Inside2D.Polygon.halfTurn`; only the
  Mathlib-free model file is imported: `Lemmas/Winding2D.lean` declares root-level `OddEdge` /
  `EdgeChainEq` of its own, which clash with those of `Lemmas/Planar.lean`.)
-/
open Scalar Inside2D Inside2D.Polygon
set_option maxRecDepth 4000
noncomputable section

namespace Polytri

theorem sgn_neg' (x : ℝ) : sgn (-x) = -sgn x := by
  unfold sgn
  simp only [Scalar.lit, Scalar.ofNat_real, Nat.cast_zero]
  rcases lt_trichotomy x 0 with h | h | h
  · have h1 : ¬ (-x < 0) := by linarith
    have h2 : (0:ℝ) < -x := by linarith
    simp [h, h1, h2]
  · subst h; simp
  · have h1 : -x < 0 := by linarith
    have h2 : ¬ (x < 0) := by linarith
    simp [h, h1, h2]

theorem crossing_symm' (s t : Int) : crossing t s = crossing s t := by
  unfold crossing
  by_cases h : s = t
  · subst h; simp
  · have h1 : t - s ≠ 0 := by omega
    have h2 : s - t ≠ 0 := by omega
    simp [h1, h2]

theorem halfTurn_swap' (p a b : P2 ℝ) : halfTurn p b a = -halfTurn p a b := by
  unfold halfTurn edgeSign
  simp only []
  rw [crossing_symm' (vertexSign (a.x - p.x) (a.y - p.y)) (vertexSign (b.x - p.x) (b.y - p.y))]
  have : (b.x - p.x) * (a.y - p.y) - (b.y - p.y) * (a.x - p.x)
      = -((a.x - p.x) * (b.y - p.y) - (a.y - p.y) * (b.x - p.x)) := by ring
  rw [this, sgn_neg']; ring

/-- the half-turn term of `Polygon.is_inside` for the query point `p`, seen through any map `g` of
space to the plane (e.g. rotation into the face's frame followed by dropping `z`) -/
def htPhi3 (g : V3 ℝ → P2 ℝ) (p : P2 ℝ) : Edge → ℝ := fun e => ((halfTurn p (g e.1) (g e.2) : Int) : ℝ)

theorem htPhi3_odd (g : V3 ℝ → P2 ℝ) (p : P2 ℝ) : OddEdge (htPhi3 g p) := by
  intro a b
  show ((halfTurn p (g b) (g a) : Int) : ℝ) = -((halfTurn p (g a) (g b) : Int) : ℝ)
  rw [halfTurn_swap']; push_cast; ring

theorem edges_eq_cycle (w : List (V3 ℝ)) : edges w = cycleEdges w := by
  cases w with
  | nil => simp [edges, roll, cycleEdges_nil]
  | cons a l => simp [edges, roll, cycleEdges_eq]

/-- the half-turn sum of the projected polygon as a cycle sum of `htPhi3` -/
theorem halfTurnSum_eq (g : V3 ℝ → P2 ℝ) (p : P2 ℝ) (w : List (V3 ℝ)) :
    ((halfTurnSum (w.map g) p : Int) : ℝ) = sumEdges (htPhi3 g p) (cycleEdges w) := by
  unfold halfTurnSum sumEdges
  have : edges (w.map g) = (edges w).map fun e => (g e.1, g e.2) := by
    cases w with
    | nil => rfl
    | cons a l =>
      show (g a :: l.map g).zip (l.map g ++ [g a]) = _
      rw [← List.map_cons, show l.map g ++ [g a] = (l ++ [a]).map g by simp, List.zip_map]
      rfl
  rw [this, edges_eq_cycle, List.map_map]
  induction cycleEdges w with
  | nil => simp
  | cons e E ih => simp only [List.map_cons, List.sum_cons, Int.cast_add, ih]; rfl

theorem sum_tri_cast (g : V3 ℝ → P2 ℝ) (p : P2 ℝ) (Ts : List (Tri ℝ)) :
    (((Ts.map fun t => halfTurn p (g t.a) (g t.b) + halfTurn p (g t.b) (g t.c)
          + halfTurn p (g t.c) (g t.a)).sum : Int) : ℝ)
      = (Ts.map fun t => sumEdges (htPhi3 g p) (triEdges t)).sum := by
  induction Ts with
  | nil => simp
  | cons t Ts ih =>
    simp only [List.map_cons, List.sum_cons, Int.cast_add, ih]
    simp [sumEdges, triEdges, htPhi3, add_assoc]

/-- **additivity of the winding sum**: whenever triangles bound the polygon as a chain, the polygon's
half-turn sum about any point is the sum of the triangles' half-turn sums -/
theorem halfTurnSum_additive (g : V3 ℝ → P2 ℝ) (p : P2 ℝ) (w : List (V3 ℝ)) (Ts : List (Tri ℝ))
    (h : EdgeChainEq (cycleEdges w) (Ts.flatMap triEdges)) :
    halfTurnSum (w.map g) p
      = (Ts.map fun t => halfTurn p (g t.a) (g t.b) + halfTurn p (g t.b) (g t.c)
          + halfTurn p (g t.c) (g t.a)).sum := by
  have h1 := halfTurnSum_eq g p w
  rw [h _ (htPhi3_odd g p), sumEdges_flatMap, ← sum_tri_cast] at h1
  exact_mod_cast h1

end Polytri

end
