import CoxeterVerif.Lemmas.HeapCtor
/-!
  # C16 — what a constructor computes, as values

  `constructObs`: the observables of a freshly constructed object as a function of the CONTENTS of the caller's
  arrays (no heap, no identities). `observe_construct`: the heap program `construct` computes it, for every class,
  `(N,2)`/`(N,3)` input, with/without a normal, in any scalar arithmetic. With `CtorAgrees` (what the external
  routines returned at construction is what the code would recompute) the new object satisfies `Spec.Coherent`,
  so every theorem about queries applies to every object a constructor can build.
-/
set_option linter.unusedSimpArgs false
namespace C16
open Scalar
variable {α : Type} [Scalar α]

omit [Scalar α] in
theorem Heap.get_set (h : Heap α) (i k : Id) (a : Arr α) :
    Heap.get (Heap.set h i a) k = if k = i then a else Heap.get h k := by
  by_cases hk : k = i
  · subst hk; simp [Heap.get_set_same]
  · simp [hk, Heap.get_set_other _ _ _ _ hk]

def ctorVertsVal (c : CtorIn α) (h : Heap α) : Arr α :=
  if c.twoCols then pad2 (Heap.get h c.verts) else Heap.get h c.verts

def ctorNormalVal (c : CtorIn α) (h : Heap α) : Arr α :=
  match c.normal with
  | none => c.computedNormal
  | some n => normalise (Heap.get h n)

def constructObs (cls : Cls) (c : CtorIn α) (h : Heap α) : Obs α :=
  match cls.kind with
  | .curved => { verts := [], normal := [], cen := Heap.get h c.center, eqs := [], seqs := [], volume := lit 0, consts := c.consts }
  | .planar =>
      { verts := if cls = .polygon then ctorVertsVal c h else c.order (ctorVertsVal c h), normal := ctorNormalVal c h,
        cen := [], eqs := [], seqs := [], volume := lit 0, consts := c.consts }
  | .poly => { verts := Heap.get h c.verts, normal := [], cen := [], eqs := c.eqs, seqs := [], volume := lit 0, consts := c.consts }
  | .convex => { verts := Heap.get h c.verts, normal := [], cen := c.cen, eqs := c.eqs, seqs := c.seqs, volume := c.volume, consts := c.consts }


private theorem ne_of_lt_add {a b : Nat} (k : Nat) (h : a < b) : a ≠ b + k := by omega

theorem observe_construct (cls : Cls) (c : CtorIn α) (h : Heap α) (next : Id) (hc : c.Ok cls next) :
    observe (construct cls c h next) = constructObs cls c h := by
  cases cls
  case circle | ellipse | sphere | ellipsoid =>
    all_goals
      have hv : c.center < next := hc _ (by simp [CtorIn.callerIds, Cls.kind])
      have n0 := ne_of_lt_add 0 hv; have n1 := ne_of_lt_add 1 hv; have n2 := ne_of_lt_add 2 hv
      have n3 := ne_of_lt_add 3 hv; have n4 := ne_of_lt_add 4 hv
      simp only [Nat.add_zero] at n0
      simp [observe, construct, constructObs, Cls.kind, blank, St.alloc, St.setCen, St.get, Heap.get_set, n0, n1, n2, n3, n4]
  case polygon | convexPolygon | spheropolygon =>
    all_goals
      have hv : c.verts < next := hc _ (by simp [CtorIn.callerIds, Cls.kind])
      have n0 := ne_of_lt_add 0 hv; have n1 := ne_of_lt_add 1 hv; have n2 := ne_of_lt_add 2 hv
      have n3 := ne_of_lt_add 3 hv; have n4 := ne_of_lt_add 4 hv; have n5 := ne_of_lt_add 5 hv
      have n6 := ne_of_lt_add 6 hv; have n7 := ne_of_lt_add 7 hv; have n8 := ne_of_lt_add 8 hv
      simp only [Nat.add_zero] at n0
      cases htc : c.twoCols <;> cases hn : c.normal
      all_goals
        first
        | (simp [observe, construct, constructObs, constructPlanar, ctorVerts, ctorNormal, ctorVertsVal, ctorNormalVal,
            Cls.kind, blank, St.alloc, St.setVerts, St.setNormal, St.write, St.get, Heap.get_set, htc, hn,
            n0, n1, n2, n3, n4, n5, n6, n7, n8]; done)
        | (rename_i n
           have hm : n < next := hc _ (by simp [CtorIn.callerIds, Cls.kind, hn])
           have m0 := ne_of_lt_add 0 hm; have m1 := ne_of_lt_add 1 hm; have m2 := ne_of_lt_add 2 hm
           have m3 := ne_of_lt_add 3 hm; have m4 := ne_of_lt_add 4 hm; have m5 := ne_of_lt_add 5 hm
           have m6 := ne_of_lt_add 6 hm; have m7 := ne_of_lt_add 7 hm; have m8 := ne_of_lt_add 8 hm
           simp only [Nat.add_zero] at m0
           simp [observe, construct, constructObs, constructPlanar, ctorVerts, ctorNormal, ctorVertsVal, ctorNormalVal,
             Cls.kind, blank, St.alloc, St.setVerts, St.setNormal, St.write, St.get, Heap.get_set, htc, hn,
             n0, n1, n2, n3, n4, n5, n6, n7, n8, m0, m1, m2, m3, m4, m5, m6, m7, m8])
  case polyhedron | convexPolyhedron | spheropolyhedron =>
    all_goals
      have hv : c.verts < next := hc _ (by simp [CtorIn.callerIds, Cls.kind])
      have n0 := ne_of_lt_add 0 hv; have n1 := ne_of_lt_add 1 hv; have n2 := ne_of_lt_add 2 hv
      have n3 := ne_of_lt_add 3 hv; have n4 := ne_of_lt_add 4 hv; have n5 := ne_of_lt_add 5 hv
      have n6 := ne_of_lt_add 6 hv; have n7 := ne_of_lt_add 7 hv; have n8 := ne_of_lt_add 8 hv
      simp only [Nat.add_zero] at n0
      simp [observe, construct, constructObs, Cls.kind, blank, St.alloc, St.setVerts, St.setEqs, St.setSeqs, St.setCen,
        St.setVolume, St.get, Heap.get_set, n0, n1, n2, n3, n4, n5, n6, n7, n8]

theorem construct_cls (cls : Cls) (c : CtorIn α) (h : Heap α) (next : Id) : (construct cls c h next).cls = cls := by
  cases cls <;> cases htc : c.twoCols <;> cases hn : c.normal <;>
    simp [construct, constructPlanar, ctorVerts, ctorNormal, blank, St.alloc, St.setVerts, St.setNormal, St.setCen,
      St.setEqs, St.setSeqs, St.setVolume, St.write, htc, hn]

theorem construct_cEdges (cls : Cls) (c : CtorIn α) (h : Heap α) (next : Id) : (construct cls c h next).cEdges = none := by
  cases cls <;> cases htc : c.twoCols <;> cases hn : c.normal <;>
    simp [construct, constructPlanar, ctorVerts, ctorNormal, blank, St.alloc, St.setVerts, St.setNormal, St.setCen,
      St.setEqs, St.setSeqs, St.setVolume, St.write, htc, hn]

/-- what the external routines returned during construction is what the code would recompute from the
vertices (Qhull's equations / volume against `_find_equations` / `_calculate_signed_volume`, … : property
C03's coherence at birth), and the input has at least one row -/
structure CtorAgrees (M : Meas α) (cls : Cls) (c : CtorIn α) (h : Heap α) : Prop where
  verts : cls.kind ≠ .curved → 3 ≤ (constructObs cls c h).verts.length
  eqs : cls.kind = .poly ∨ cls.kind = .convex → c.eqs = M.eqs (Heap.get h c.verts)
  seqs : cls.kind = .convex → c.seqs = M.seqs (Heap.get h c.verts)
  volume : cls.kind = .convex → c.volume = M.vol (Heap.get h c.verts)
  cen : cls.kind = .convex → c.cen = v3l (M.cenV c.volume (Heap.get h c.verts))
  centre : cls.kind = .curved → ∃ p : V3 α, Heap.get h c.center = v3l p

theorem construct_coherent (M : Meas α) (cls : Cls) (c : CtorIn α) (h : Heap α) (next : Id) (hc : c.Ok cls next)
    (ha : CtorAgrees M cls c h) : Spec.Coherent M (construct cls c h next) := by
  have ho := observe_construct cls c h next hc
  have hcl := construct_cls cls c h next
  have hv : (construct cls c h next).get (construct cls c h next).fVerts = (constructObs cls c h).verts :=
    congrArg Obs.verts ho
  have he : (construct cls c h next).get (construct cls c h next).fEqs = (constructObs cls c h).eqs :=
    congrArg Obs.eqs ho
  have hs : (construct cls c h next).get (construct cls c h next).fSeqs = (constructObs cls c h).seqs :=
    congrArg Obs.seqs ho
  have hcn : (construct cls c h next).get (construct cls c h next).fCen = (constructObs cls c h).cen :=
    congrArg Obs.cen ho
  have hvol : (construct cls c h next).volume = (constructObs cls c h).volume := congrArg Obs.volume ho
  refine ⟨?_, ?_, ?_, ?_, ?_, ?_, ?_⟩
  · intro hk; rw [hcl] at hk; rw [hv]; exact ha.verts hk
  · intro hk; rw [hcl] at hk; rw [hv, he]
    rcases hk with hk | hk <;> simp only [constructObs, hk] <;> exact ha.eqs (by simp [hk])
  · intro hk; rw [hcl] at hk; rw [hv, hs]; simp only [constructObs, hk]; exact ha.seqs hk
  · intro hk; rw [hcl] at hk; rw [hv, hvol]; simp only [constructObs, hk]; exact ha.volume hk
  · intro hk; rw [hcl] at hk; rw [hv, hcn, hvol]; simp only [constructObs, hk]; exact ha.cen hk
  · intro hk; rw [hcl] at hk; rw [hcn]; simp only [constructObs, hk]; exact ha.centre hk
  · intro i hi; rw [construct_cEdges] at hi; cases hi

end C16
