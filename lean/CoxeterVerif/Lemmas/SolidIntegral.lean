import CoxeterVerif.Lemmas.Solid
import Mathlib.Analysis.SpecialFunctions.Integrals.Basic
/-!
  The tetrahedron closed forms of `Spec/Solid.lean` PROVED from Mathlib's integral.

  A tetrahedron `T = (A, B, C, D)` is parametrised by the standard simplex
  `{0 ≤ s, 0 ≤ t, 0 ≤ u, s + t + u ≤ 1}` through the affine map
  `r(s,t,u) = A + s (B−A) + t (C−A) + u (D−A)` with Jacobian determinant `det(B−A, C−A, D−A)`; the integral over
  the standard simplex is written as the iterated interval integral
  `∫ s in 0..1, ∫ t in 0..(1−s), ∫ u in 0..(1−s−t), ·` (the same parametrisation as `Lemmas/FormFactorTet.lean`).

      tetInt T f = det(B−A, C−A, D−A) · ∫₀¹ ∫₀^{1−s} ∫₀^{1−s−t} f (r(s,t,u)) du dt ds

  (signed: for a positively oriented tetrahedron the determinant is the absolute Jacobian and `tetInt T f = ∫_T f dV`;
  for a negatively oriented one it is `−∫_T f dV`, exactly like `Spec.tetVol`).

  Main results: `tetInt_one`, `tetInt_coord`, `tetInt_coord_mul` — the integrals of `1`, `x_i`, `x_i x_j` ARE the
  closed forms `Spec.tetVol`, `Spec.tetFirst`, `Spec.tetSecond`; `tetInt_quadratic` for any integrand that is a
  polynomial of degree ≤ 2 along the parametrisation.
-/
open MeasureTheory intervalIntegral Scalar
set_option maxRecDepth 4000
namespace SolidInt
noncomputable section

/-- one-variable polynomial of degree ≤ 5 over `0..L` -/
theorem int_poly5 (a0 a1 a2 a3 a4 a5 L : ℝ) :
    ∫ x in (0:ℝ)..L, (a0 + a1*x + a2*x^2 + a3*x^3 + a4*x^4 + a5*x^5)
      = a0*L + a1*L^2/2 + a2*L^3/3 + a3*L^4/4 + a4*L^5/5 + a5*L^6/6 := by
  have hc : ∀ (c : ℝ) (n : ℕ), IntervalIntegrable (fun x : ℝ => c * x ^ n) volume 0 L :=
    fun c n => (continuous_const.mul (continuous_pow n)).intervalIntegrable _ _
  have h1 : IntervalIntegrable (fun x : ℝ => a1 * x) volume 0 L := by simpa using hc a1 1
  have h0 : IntervalIntegrable (fun _ : ℝ => a0) volume 0 L := continuous_const.intervalIntegrable _ _
  rw [integral_add (((((h0.add h1).add (hc a2 2)).add (hc a3 3)).add (hc a4 4))) (hc a5 5),
    integral_add ((((h0.add h1).add (hc a2 2)).add (hc a3 3))) (hc a4 4),
    integral_add (((h0.add h1).add (hc a2 2))) (hc a3 3),
    integral_add ((h0.add h1)) (hc a2 2),
    integral_add h0 h1]
  simp only [intervalIntegral.integral_const_mul, integral_pow, intervalIntegral.integral_const]
  have e1 : ∫ x in (0:ℝ)..L, a1 * x = a1 * (L^2/2) := by
    rw [intervalIntegral.integral_const_mul, integral_id]; ring
  rw [e1]
  simp
  ring

/-- the integral over the standard simplex `{0 ≤ s,t,u, s+t+u ≤ 1}` as an iterated interval integral -/
def simplexInt (g : ℝ → ℝ → ℝ → ℝ) : ℝ :=
  ∫ s in (0:ℝ)..1, ∫ t in (0:ℝ)..(1 - s), ∫ u in (0:ℝ)..(1 - s - t), g s t u

/-- innermost integral of a quadratic -/
theorem inner_quad (c0 c1 c2 c3 c4 c5 c6 c7 c8 c9 s t : ℝ) :
    (∫ u in (0:ℝ)..(1 - s - t),
        (c0 + c1*s + c2*t + c3*u + c4*s^2 + c5*t^2 + c6*u^2 + c7*(s*t) + c8*(s*u) + c9*(t*u)))
      = (-s^3*c4 + (-1/3)*s^3*c6 + (1/2)*s^3*c8 + -s^2*c1 + (1/2)*s^2*c3 + s^2*c4 + s^2*c6 + -s^2*c8 + -s*c0
            + s*c1 + -s*c3 + -s*c6 + (1/2)*s*c8 + c0 + (1/2)*c3 + (1/3)*c6)
        + (-s^2*c4 + -s^2*c6 + -s^2*c7 + s^2*c8 + (1/2)*s^2*c9 + -s*c1 + -s*c2 + s*c3 + 2*s*c6 + s*c7 + -s*c8
            + -s*c9 + -c0 + c2 + -c3 + -c6 + (1/2)*c9) * t
        + (-s*c5 + -s*c6 + -s*c7 + (1/2)*s*c8 + s*c9 + -c2 + (1/2)*c3 + c5 + c6 + -c9) * t^2
        + (-c5 + (-1/3)*c6 + (1/2)*c9) * t^3 + 0 * t^4 + 0 * t^5 := by
  have e : (fun u : ℝ => c0 + c1*s + c2*t + c3*u + c4*s^2 + c5*t^2 + c6*u^2 + c7*(s*t) + c8*(s*u) + c9*(t*u))
      = fun u : ℝ => (s^2*c4 + s*t*c7 + s*c1 + t^2*c5 + t*c2 + c0) + (s*c8 + t*c9 + c3)*u + c6*u^2
          + 0*u^3 + 0*u^4 + 0*u^5 := by
    funext u; ring
  rw [e, int_poly5]; ring

/-- middle integral -/
theorem middle_quad (c0 c1 c2 c3 c4 c5 c6 c7 c8 c9 s : ℝ) :
    (∫ t in (0:ℝ)..(1 - s), ∫ u in (0:ℝ)..(1 - s - t),
        (c0 + c1*s + c2*t + c3*u + c4*s^2 + c5*t^2 + c6*u^2 + c7*(s*t) + c8*(s*u) + c9*(t*u)))
      = ((1/2)*c0 + (1/6)*c2 + (1/6)*c3 + (1/12)*c5 + (1/12)*c6 + (1/24)*c9)
        + (-c0 + (1/2)*c1 + (-1/2)*c2 + (-1/2)*c3 + (-1/3)*c5 + (-1/3)*c6 + (1/6)*c7 + (1/6)*c8 + (-1/6)*c9) * s
        + ((1/2)*c0 + -c1 + (1/2)*c2 + (1/2)*c3 + (1/2)*c4 + (1/2)*c5 + (1/2)*c6 + (-1/2)*c7 + (-1/2)*c8
            + (1/4)*c9) * s^2
        + ((1/2)*c1 + (-1/6)*c2 + (-1/6)*c3 + -c4 + (-1/3)*c5 + (-1/3)*c6 + (1/2)*c7 + (1/2)*c8 + (-1/6)*c9) * s^3
        + ((1/2)*c4 + (1/12)*c5 + (1/12)*c6 + (-1/6)*c7 + (-1/6)*c8 + (1/24)*c9) * s^4 + 0 * s^5 := by
  simp_rw [inner_quad]
  rw [int_poly5]; ring

/-- **a quadratic polynomial over the standard simplex**:
`∫ 1 = 1/6`, `∫ s = 1/24`, `∫ s² = 1/60`, `∫ s t = 1/120` (and the same for the other variables). -/
theorem simplexInt_quad (c0 c1 c2 c3 c4 c5 c6 c7 c8 c9 : ℝ) :
    simplexInt (fun s t u =>
        c0 + c1*s + c2*t + c3*u + c4*s^2 + c5*t^2 + c6*u^2 + c7*(s*t) + c8*(s*u) + c9*(t*u))
      = c0/6 + (c1 + c2 + c3)/24 + (c4 + c5 + c6)/60 + (c7 + c8 + c9)/120 := by
  unfold simplexInt
  simp_rw [middle_quad]
  rw [int_poly5]; ring

/-! ### the tetrahedron -/

/-- the point of `T` with parameters `(s, t, u)` -/
def tetPoint (T : Tet ℝ) (s t u : ℝ) : V3 ℝ :=
  T.a + V3.smul s (T.b - T.a) + V3.smul t (T.c - T.a) + V3.smul u (T.d - T.a)

/-- Jacobian determinant of the parametrisation (`6 ×` the signed volume) -/
def tetJac (T : Tet ℝ) : ℝ := V3.det3 (T.b - T.a) (T.c - T.a) (T.d - T.a)

/-- **(signed) integral of `f` over the tetrahedron `T`** — see the header. -/
def tetInt (T : Tet ℝ) (f : V3 ℝ → ℝ) : ℝ :=
  tetJac T * simplexInt (fun s t u => f (tetPoint T s t u))

/-- any integrand that is a quadratic polynomial along the parametrisation -/
theorem tetInt_quadratic (T : Tet ℝ) (f : V3 ℝ → ℝ) (c0 c1 c2 c3 c4 c5 c6 c7 c8 c9 : ℝ)
    (h : ∀ s t u, f (tetPoint T s t u)
      = c0 + c1*s + c2*t + c3*u + c4*s^2 + c5*t^2 + c6*u^2 + c7*(s*t) + c8*(s*u) + c9*(t*u)) :
    tetInt T f = tetJac T * (c0/6 + (c1 + c2 + c3)/24 + (c4 + c5 + c6)/60 + (c7 + c8 + c9)/120) := by
  unfold tetInt
  have : (fun s t u => f (tetPoint T s t u)) = fun s t u =>
      c0 + c1*s + c2*t + c3*u + c4*s^2 + c5*t^2 + c6*u^2 + c7*(s*t) + c8*(s*u) + c9*(t*u) := by
    funext s t u; exact h s t u
  rw [this, simplexInt_quad]

theorem tetPoint_get (T : Tet ℝ) (s t u : ℝ) (i : Nat) :
    (tetPoint T s t u).get i
      = T.a.get i + s * (T.b.get i - T.a.get i) + t * (T.c.get i - T.a.get i) + u * (T.d.get i - T.a.get i) := by
  unfold tetPoint V3.get
  split_ifs <;> simp only [V3.add_x, V3.add_y, V3.add_z, V3.smul_x, V3.smul_y, V3.smul_z, V3.sub_x, V3.sub_y, V3.sub_z]

theorem tetVol_eq_jac (T : Tet ℝ) : Spec.tetVol T = tetJac T / 6 := by
  unfold Spec.tetVol tetJac; simp only [Scalar.lit, Scalar.ofNat_real]; push_cast; ring

/-- **∫_T 1 dV = volume** -/
theorem tetInt_one (T : Tet ℝ) : tetInt T (fun _ => 1) = Spec.tetVol T := by
  rw [tetInt_quadratic T _ 1 0 0 0 0 0 0 0 0 0 (by intro s t u; ring), tetVol_eq_jac]; ring

/-- the product of two affine forms over the tetrahedron -/
theorem tetInt_affine_mul (T : Tet ℝ) (f : V3 ℝ → ℝ) (p0 p1 p2 p3 q0 q1 q2 q3 : ℝ)
    (h : ∀ s t u, f (tetPoint T s t u) = (p0 + s * p1 + t * p2 + u * p3) * (q0 + s * q1 + t * q2 + u * q3)) :
    tetInt T f = tetJac T *
      ((p0*q0)/6 + ((p0*q1 + p1*q0) + (p0*q2 + p2*q0) + (p0*q3 + p3*q0))/24 + (p1*q1 + p2*q2 + p3*q3)/60
        + ((p1*q2 + p2*q1) + (p1*q3 + p3*q1) + (p2*q3 + p3*q2))/120) :=
  tetInt_quadratic T f _ _ _ _ _ _ _ _ _ _ (by intro s t u; rw [h]; ring)

/-- **∫_T x_i dV = vol · (A+B+C+D)_i / 4** -/
theorem tetInt_coord (T : Tet ℝ) (i : Nat) :
    tetInt T (fun x => x.get i) = (Spec.tetFirst T).get i := by
  rw [tetInt_affine_mul T _ (T.a.get i) (T.b.get i - T.a.get i) (T.c.get i - T.a.get i) (T.d.get i - T.a.get i)
    1 0 0 0 (by intro s t u; rw [tetPoint_get]; ring)]
  have hF : (Spec.tetFirst T).get i = Spec.tetVol T / 4 * (T.a.get i + T.b.get i + T.c.get i + T.d.get i) := by
    unfold Spec.tetFirst Spec.tetSum V3.get
    split_ifs <;> simp only [V3.smul_x, V3.smul_y, V3.smul_z, V3.add_x, V3.add_y, V3.add_z, Scalar.lit,
      Scalar.ofNat_real] <;> push_cast <;> ring
  rw [hF, tetVol_eq_jac]; ring

/-- **∫_T x_i x_j dV = vol/20 · (Σ_v v_i v_j + s_i s_j)** -/
theorem tetInt_coord_mul (T : Tet ℝ) (i j : Nat) :
    tetInt T (fun x => x.get i * x.get j) = Spec.tetSecond T i j := by
  rw [tetInt_affine_mul T _ (T.a.get i) (T.b.get i - T.a.get i) (T.c.get i - T.a.get i) (T.d.get i - T.a.get i)
    (T.a.get j) (T.b.get j - T.a.get j) (T.c.get j - T.a.get j) (T.d.get j - T.a.get j)
    (by intro s t u; rw [tetPoint_get, tetPoint_get])]
  have hs : ∀ k, (Spec.tetSum T).get k = T.a.get k + T.b.get k + T.c.get k + T.d.get k := by
    intro k; unfold Spec.tetSum V3.get
    split_ifs <;> simp only [V3.add_x, V3.add_y, V3.add_z]
  unfold Spec.tetSecond
  rw [hs i, hs j, tetVol_eq_jac]
  simp only [Scalar.lit, Scalar.ofNat_real]; push_cast; ring

/-- additivity for two integrands that are quadratic along the parametrisation (no integrability side condition) -/
theorem tetInt_add_quadratic (T : Tet ℝ) (f g : V3 ℝ → ℝ) (c0 c1 c2 c3 c4 c5 c6 c7 c8 c9 d0 d1 d2 d3 d4 d5 d6 d7 d8 d9 : ℝ)
    (hf : ∀ s t u, f (tetPoint T s t u)
      = c0 + c1*s + c2*t + c3*u + c4*s^2 + c5*t^2 + c6*u^2 + c7*(s*t) + c8*(s*u) + c9*(t*u))
    (hg : ∀ s t u, g (tetPoint T s t u)
      = d0 + d1*s + d2*t + d3*u + d4*s^2 + d5*t^2 + d6*u^2 + d7*(s*t) + d8*(s*u) + d9*(t*u)) :
    tetInt T (fun x => f x + g x) = tetInt T f + tetInt T g := by
  rw [tetInt_quadratic T f _ _ _ _ _ _ _ _ _ _ hf, tetInt_quadratic T g _ _ _ _ _ _ _ _ _ _ hg,
    tetInt_quadratic T (fun x => f x + g x) (c0 + d0) (c1 + d1) (c2 + d2) (c3 + d3) (c4 + d4) (c5 + d5) (c6 + d6)
      (c7 + d7) (c8 + d8) (c9 + d9) (by intro s t u; simp only [hf, hg]; ring)]
  ring

theorem coord_mul_quadratic (T : Tet ℝ) (a b : Nat) (s t u : ℝ) :
    (tetPoint T s t u).get a * (tetPoint T s t u).get b
      = T.a.get a * T.a.get b
        + (T.a.get a * (T.b.get b - T.a.get b) + (T.b.get a - T.a.get a) * T.a.get b) * s
        + (T.a.get a * (T.c.get b - T.a.get b) + (T.c.get a - T.a.get a) * T.a.get b) * t
        + (T.a.get a * (T.d.get b - T.a.get b) + (T.d.get a - T.a.get a) * T.a.get b) * u
        + ((T.b.get a - T.a.get a) * (T.b.get b - T.a.get b)) * s^2
        + ((T.c.get a - T.a.get a) * (T.c.get b - T.a.get b)) * t^2
        + ((T.d.get a - T.a.get a) * (T.d.get b - T.a.get b)) * u^2
        + ((T.b.get a - T.a.get a) * (T.c.get b - T.a.get b) + (T.c.get a - T.a.get a) * (T.b.get b - T.a.get b)) * (s*t)
        + ((T.b.get a - T.a.get a) * (T.d.get b - T.a.get b) + (T.d.get a - T.a.get a) * (T.b.get b - T.a.get b)) * (s*u)
        + ((T.c.get a - T.a.get a) * (T.d.get b - T.a.get b) + (T.d.get a - T.a.get a) * (T.c.get b - T.a.get b)) * (t*u) := by
  rw [tetPoint_get, tetPoint_get]; ring

/-- **∫_T (x_i x_j + x_k x_l) dV** (the diagonal of the inertia tensor needs `y² + z²`) -/
theorem tetInt_coord_mul_add (T : Tet ℝ) (i j k l : Nat) :
    tetInt T (fun x => x.get i * x.get j + x.get k * x.get l) = Spec.tetSecond T i j + Spec.tetSecond T k l := by
  rw [← tetInt_coord_mul, ← tetInt_coord_mul]
  exact tetInt_add_quadratic T (fun x => x.get i * x.get j) (fun x => x.get k * x.get l) _ _ _ _ _ _ _ _ _ _
    _ _ _ _ _ _ _ _ _ _ (coord_mul_quadratic T i j) (coord_mul_quadratic T k l)

/-! ### a tetrahedralised solid -/

/-- `Σ_T ∫_T f dV` over the tetrahedra of a tetrahedralisation (signed, see `tetInt`) -/
def solidInt (Ts : List (Tet ℝ)) (f : V3 ℝ → ℝ) : ℝ := (Ts.map fun T => tetInt T f).sum

theorem vol_eq_solidInt (Ts : List (Tet ℝ)) : Spec.vol Ts = solidInt Ts (fun _ => 1) := by
  rw [Spec.vol_eq]; unfold solidInt
  congr 1; apply List.map_congr_left; intro T _; exact (tetInt_one T).symm

theorem first_eq_solidInt (Ts : List (Tet ℝ)) (i : Nat) (hi : i < 3) :
    (Spec.first Ts).get i = solidInt Ts (fun x => x.get i) := by
  rw [first_get Ts i hi]; unfold solidInt
  congr 1; apply List.map_congr_left; intro T _; exact (tetInt_coord T i).symm

theorem second_eq_solidInt (Ts : List (Tet ℝ)) (i j : Nat) :
    Spec.second Ts i j = solidInt Ts (fun x => x.get i * x.get j) := by
  rw [Spec.second_eq]; unfold solidInt
  congr 1; apply List.map_congr_left; intro T _; exact (tetInt_coord_mul T i j).symm

theorem second_add_eq_solidInt (Ts : List (Tet ℝ)) (i j k l : Nat) :
    Spec.second Ts i j + Spec.second Ts k l = solidInt Ts (fun x => x.get i * x.get j + x.get k * x.get l) := by
  rw [Spec.second_eq, Spec.second_eq]; unfold solidInt
  induction Ts with
  | nil => simp
  | cons T Ts ih =>
    simp only [List.map_cons, List.sum_cons]
    rw [tetInt_coord_mul_add, ← ih]; ring

/-- the exact centroid: `∫ x dV / ∫ 1 dV` -/
def centroidInt (Ts : List (Tet ℝ)) : V3 ℝ :=
  ⟨solidInt Ts (fun x => x.x) / solidInt Ts (fun _ => 1), solidInt Ts (fun x => x.y) / solidInt Ts (fun _ => 1),
   solidInt Ts (fun x => x.z) / solidInt Ts (fun _ => 1)⟩

/-- the exact inertia tensor about the origin, unit density: `I_ij = ∫ (|x|² δ_ij − x_i x_j) dV` -/
def inertiaInt (Ts : List (Tet ℝ)) : M3 ℝ :=
  ⟨solidInt Ts (fun x => x.y * x.y + x.z * x.z), -solidInt Ts (fun x => x.x * x.y), -solidInt Ts (fun x => x.x * x.z),
   -solidInt Ts (fun x => x.x * x.y), solidInt Ts (fun x => x.x * x.x + x.z * x.z), -solidInt Ts (fun x => x.y * x.z),
   -solidInt Ts (fun x => x.x * x.z), -solidInt Ts (fun x => x.y * x.z), solidInt Ts (fun x => x.x * x.x + x.y * x.y)⟩

theorem centroid_eq_centroidInt (Ts : List (Tet ℝ)) : Spec.centroid Ts = centroidInt Ts := by
  have h0 := first_eq_solidInt Ts 0 (by omega)
  have h1 := first_eq_solidInt Ts 1 (by omega)
  have h2 := first_eq_solidInt Ts 2 (by omega)
  simp only [V3.get_zero, V3.get_one, V3.get_two] at h0 h1 h2
  unfold Spec.centroid centroidInt
  rw [← vol_eq_solidInt]
  ext
  · simp only [V3.sdiv_x, h0]
  · simp only [V3.sdiv_y, h1]
  · simp only [V3.sdiv_z, h2]

theorem inertia_eq_inertiaInt (Ts : List (Tet ℝ)) : Spec.inertia Ts = inertiaInt Ts := by
  unfold Spec.inertia inertiaInt
  simp only [second_add_eq_solidInt]
  simp only [second_eq_solidInt]
  rfl

end
end SolidInt
