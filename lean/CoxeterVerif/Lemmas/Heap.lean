import CoxeterVerif.Lemmas.Basic
import CoxeterVerif.Spec.Heap
/-!
  Lemmas for C16: the heap (`get`/`set`), the frame of every step of the machine (what it may write,
  which ids it may create), translation of rows over ℝ.
-/
namespace C16
open Scalar

/-! ## heap -/
namespace Heap
variable {α : Type}
theorem get_set_same (h : Heap α) (i : Id) (a : Arr α) : get (set h i a) i = a := by
  induction h with
  | nil => simp [set, get]
  | cons p r ih =>
    obtain ⟨j, b⟩ := p
    by_cases hj : j = i
    · simp [set, get, hj]
    · simp [set, get, hj, ih]

theorem get_set_other (h : Heap α) (i k : Id) (a : Arr α) (hk : k ≠ i) : get (set h i a) k = get h k := by
  induction h with
  | nil => simp [set, get, Ne.symm hk]
  | cons p r ih =>
    obtain ⟨j, b⟩ := p
    by_cases hj : j = i
    · subst hj; simp [set, get, Ne.symm hk]
    · by_cases hjk : j = k
      · subst hjk; simp [set, get, hj]
      · simp [set, get, hj, hjk, ih]
end Heap

/-! ## state primitives -/
section prim
variable {α : Type}

@[simp] theorem St.get_alloc_self (s : St α) (a : Arr α) : (s.alloc a).get s.next = a :=
  Heap.get_set_same _ _ _
theorem St.get_alloc_of_ne (s : St α) (a : Arr α) (i : Id) (h : i ≠ s.next) : (s.alloc a).get i = s.get i :=
  Heap.get_set_other _ _ _ _ h
theorem St.get_alloc_of_lt (s : St α) (a : Arr α) (i : Id) (h : i < s.next) : (s.alloc a).get i = s.get i :=
  St.get_alloc_of_ne s a i (Nat.ne_of_lt h)
@[simp] theorem St.get_write_self (s : St α) (i : Id) (a : Arr α) : (s.write i a).get i = a :=
  Heap.get_set_same _ _ _
theorem St.get_write_of_ne (s : St α) (i k : Id) (a : Arr α) (h : k ≠ i) : (s.write i a).get k = s.get k :=
  Heap.get_set_other _ _ _ _ h

@[simp] theorem St.next_alloc (s : St α) (a : Arr α) : (s.alloc a).next = s.next + 1 := rfl
@[simp] theorem St.next_write (s : St α) (i : Id) (a : Arr α) : (s.write i a).next = s.next := rfl
@[simp] theorem St.next_setVerts (s : St α) (i : Id) : (s.setVerts i).next = s.next := rfl
@[simp] theorem St.next_setNormal (s : St α) (i : Id) : (s.setNormal i).next = s.next := rfl
@[simp] theorem St.next_setCen (s : St α) (i : Id) : (s.setCen i).next = s.next := rfl
@[simp] theorem St.next_setEqs (s : St α) (i : Id) : (s.setEqs i).next = s.next := rfl
@[simp] theorem St.next_setSeqs (s : St α) (i : Id) : (s.setSeqs i).next = s.next := rfl
@[simp] theorem St.next_setVolume (s : St α) (v : α) : (s.setVolume v).next = s.next := rfl
@[simp] theorem St.get_setVerts (s : St α) (i k : Id) : (s.setVerts i).get k = s.get k := rfl
@[simp] theorem St.get_setNormal (s : St α) (i k : Id) : (s.setNormal i).get k = s.get k := rfl
@[simp] theorem St.get_setCen (s : St α) (i k : Id) : (s.setCen i).get k = s.get k := rfl
@[simp] theorem St.get_setEqs (s : St α) (i k : Id) : (s.setEqs i).get k = s.get k := rfl
@[simp] theorem St.get_setSeqs (s : St α) (i k : Id) : (s.setSeqs i).get k = s.get k := rfl
@[simp] theorem St.get_setVolume (s : St α) (v : α) (k : Id) : (s.setVolume v).get k = s.get k := rfl
end prim

/-! ## frame

`Frame s s'`: `s'` was reached from `s` by allocating new arrays, writing the vertex array in place
and binding attributes other than `_vertices` to NEW arrays. This is what every query does — for
any scalar type, bit for bit. -/
section frame
variable {α : Type}

/-- an attribute keeps its array or is bound to one allocated since `s` -/
def KeptOrNew (s s' : St α) (f : St α → Id) : Prop := f s' = f s ∨ (s.next ≤ f s' ∧ f s' < s'.next)
def KeptOrNewC (s s' : St α) (f : St α → Option Id) : Prop :=
  f s' = f s ∨ ∃ i, f s' = some i ∧ s.next ≤ i ∧ i < s'.next

structure Frame (s s' : St α) : Prop where
  next_le : s.next ≤ s'.next
  get_eq : ∀ i, i < s.next → i ≠ s.fVerts → s'.get i = s.get i
  fVerts : s'.fVerts = s.fVerts
  cls : s'.cls = s.cls
  consts : s'.consts = s.consts
  handed : s'.handed = s.handed
  args : s'.args = s.args
  fNormal : KeptOrNew s s' St.fNormal
  fCen : KeptOrNew s s' St.fCen
  fEqs : KeptOrNew s s' St.fEqs
  fSeqs : KeptOrNew s s' St.fSeqs
  cAreas : KeptOrNewC s s' St.cAreas
  cFaceCen : KeptOrNewC s s' St.cFaceCen
  cEdges : KeptOrNewC s s' St.cEdges

theorem KeptOrNew.refl (s : St α) (f : St α → Id) : KeptOrNew s s f := Or.inl rfl
theorem KeptOrNewC.refl (s : St α) (f : St α → Option Id) : KeptOrNewC s s f := Or.inl rfl

theorem KeptOrNew.trans {s t u : St α} {f : St α → Id} (hst : s.next ≤ t.next) (htu : t.next ≤ u.next)
    (h1 : KeptOrNew s t f) (h2 : KeptOrNew t u f) : KeptOrNew s u f := by
  rcases h2 with h2 | ⟨h2, h3⟩
  · rcases h1 with h1 | ⟨h1, h4⟩
    · exact Or.inl (h2.trans h1)
    · exact Or.inr ⟨h2 ▸ h1, h2 ▸ (Nat.lt_of_lt_of_le h4 htu)⟩
  · exact Or.inr ⟨Nat.le_trans hst h2, h3⟩

theorem KeptOrNewC.trans {s t u : St α} {f : St α → Option Id} (hst : s.next ≤ t.next)
    (htu : t.next ≤ u.next) (h1 : KeptOrNewC s t f) (h2 : KeptOrNewC t u f) : KeptOrNewC s u f := by
  rcases h2 with h2 | ⟨i, h2, h3, h4⟩
  · rcases h1 with h1 | ⟨i, h1, h5, h6⟩
    · exact Or.inl (h2.trans h1)
    · exact Or.inr ⟨i, h2 ▸ h1, h5, Nat.lt_of_lt_of_le h6 htu⟩
  · exact Or.inr ⟨i, h2, Nat.le_trans hst h3, h4⟩

theorem Frame.refl (s : St α) : Frame s s :=
  ⟨Nat.le_refl _, fun _ _ _ => rfl, rfl, rfl, rfl, rfl, rfl, .refl _ _, .refl _ _, .refl _ _, .refl _ _,
    .refl _ _, .refl _ _, .refl _ _⟩

theorem Frame.trans {s t u : St α} (h1 : Frame s t) (h2 : Frame t u) : Frame s u where
  next_le := Nat.le_trans h1.next_le h2.next_le
  get_eq := fun i hi hv => by
    rw [h2.get_eq i (Nat.lt_of_lt_of_le hi h1.next_le) (h1.fVerts ▸ hv), h1.get_eq i hi hv]
  fVerts := h2.fVerts.trans h1.fVerts
  cls := h2.cls.trans h1.cls
  consts := h2.consts.trans h1.consts
  handed := h2.handed.trans h1.handed
  args := h2.args.trans h1.args
  fNormal := .trans h1.next_le h2.next_le h1.fNormal h2.fNormal
  fCen := .trans h1.next_le h2.next_le h1.fCen h2.fCen
  fEqs := .trans h1.next_le h2.next_le h1.fEqs h2.fEqs
  fSeqs := .trans h1.next_le h2.next_le h1.fSeqs h2.fSeqs
  cAreas := .trans h1.next_le h2.next_le h1.cAreas h2.cAreas
  cFaceCen := .trans h1.next_le h2.next_le h1.cFaceCen h2.cFaceCen
  cEdges := .trans h1.next_le h2.next_le h1.cEdges h2.cEdges

theorem Frame.alloc (s : St α) (a : Arr α) : Frame s (s.alloc a) :=
  ⟨Nat.le_succ _, fun i hi _ => St.get_alloc_of_lt s a i hi, rfl, rfl, rfl, rfl, rfl, Or.inl rfl, Or.inl rfl,
    Or.inl rfl, Or.inl rfl, Or.inl rfl, Or.inl rfl, Or.inl rfl⟩

theorem Frame.writeVerts (s : St α) (a : Arr α) : Frame s (s.write s.fVerts a) :=
  ⟨Nat.le_refl _, fun i _ hv => St.get_write_of_ne s _ i a hv, rfl, rfl, rfl, rfl, rfl, Or.inl rfl, Or.inl rfl,
    Or.inl rfl, Or.inl rfl, Or.inl rfl, Or.inl rfl, Or.inl rfl⟩

/-- writing a cell allocated since `s` -/
theorem Frame.writeNew (s : St α) (k : Id) (a : Arr α) (hk : s.next ≤ k) : Frame s (s.write k a) :=
  ⟨Nat.le_refl _, fun i hi _ => St.get_write_of_ne s _ i a (Nat.ne_of_lt (Nat.lt_of_lt_of_le hi hk)), rfl, rfl, rfl, rfl, rfl, Or.inl rfl,
    Or.inl rfl, Or.inl rfl, Or.inl rfl, Or.inl rfl, Or.inl rfl, Or.inl rfl⟩

theorem Frame.setVolume (s : St α) (v : α) : Frame s (s.setVolume v) :=
  ⟨Nat.le_refl _, fun _ _ _ => rfl, rfl, rfl, rfl, rfl, rfl, Or.inl rfl, Or.inl rfl, Or.inl rfl, Or.inl rfl,
    Or.inl rfl, Or.inl rfl, Or.inl rfl⟩

theorem Frame.allocNormal (s : St α) (a : Arr α) : Frame s ((s.alloc a).setNormal s.next) :=
  ⟨Nat.le_succ _, fun i hi _ => St.get_alloc_of_lt s a i hi, rfl, rfl, rfl, rfl, rfl,
    Or.inr ⟨Nat.le_refl _, Nat.lt_succ_self _⟩, Or.inl rfl, Or.inl rfl, Or.inl rfl, Or.inl rfl, Or.inl rfl, Or.inl rfl⟩
theorem Frame.allocCen (s : St α) (a : Arr α) : Frame s ((s.alloc a).setCen s.next) :=
  ⟨Nat.le_succ _, fun i hi _ => St.get_alloc_of_lt s a i hi, rfl, rfl, rfl, rfl, rfl, Or.inl rfl,
    Or.inr ⟨Nat.le_refl _, Nat.lt_succ_self _⟩, Or.inl rfl, Or.inl rfl, Or.inl rfl, Or.inl rfl, Or.inl rfl⟩
theorem Frame.allocEqs (s : St α) (a : Arr α) : Frame s ((s.alloc a).setEqs s.next) :=
  ⟨Nat.le_succ _, fun i hi _ => St.get_alloc_of_lt s a i hi, rfl, rfl, rfl, rfl, rfl, Or.inl rfl, Or.inl rfl,
    Or.inr ⟨Nat.le_refl _, Nat.lt_succ_self _⟩, Or.inl rfl, Or.inl rfl, Or.inl rfl, Or.inl rfl⟩
theorem Frame.allocSeqs (s : St α) (a : Arr α) : Frame s ((s.alloc a).setSeqs s.next) :=
  ⟨Nat.le_succ _, fun i hi _ => St.get_alloc_of_lt s a i hi, rfl, rfl, rfl, rfl, rfl, Or.inl rfl, Or.inl rfl,
    Or.inl rfl, Or.inr ⟨Nat.le_refl _, Nat.lt_succ_self _⟩, Or.inl rfl, Or.inl rfl, Or.inl rfl⟩
theorem Frame.allocAreas (s : St α) (a : Arr α) : Frame s { s.alloc a with cAreas := some s.next } :=
  ⟨Nat.le_succ _, fun i hi _ => St.get_alloc_of_lt s a i hi, rfl, rfl, rfl, rfl, rfl, Or.inl rfl, Or.inl rfl,
    Or.inl rfl, Or.inl rfl, Or.inr ⟨_, rfl, Nat.le_refl _, Nat.lt_succ_self _⟩, Or.inl rfl, Or.inl rfl⟩
theorem Frame.allocFaceCen (s : St α) (a : Arr α) : Frame s { s.alloc a with cFaceCen := some s.next } :=
  ⟨Nat.le_succ _, fun i hi _ => St.get_alloc_of_lt s a i hi, rfl, rfl, rfl, rfl, rfl, Or.inl rfl, Or.inl rfl,
    Or.inl rfl, Or.inl rfl, Or.inl rfl, Or.inr ⟨_, rfl, Nat.le_refl _, Nat.lt_succ_self _⟩, Or.inl rfl⟩
theorem Frame.allocEdges (s : St α) (a : Arr α) : Frame s { s.alloc a with cEdges := some s.next } :=
  ⟨Nat.le_succ _, fun i hi _ => St.get_alloc_of_lt s a i hi, rfl, rfl, rfl, rfl, rfl, Or.inl rfl, Or.inl rfl,
    Or.inl rfl, Or.inl rfl, Or.inl rfl, Or.inl rfl, Or.inr ⟨_, rfl, Nat.le_refl _, Nat.lt_succ_self _⟩⟩

variable [Scalar α]

theorem setCentroid_frame (M : Meas α) (s : St α) (v : V3 α) : Frame s (setCentroid M s v) := by
  unfold setCentroid
  split
  · exact Frame.allocCen s _
  · exact Frame.writeVerts s _
  · exact (Frame.writeVerts s _).trans (Frame.allocEqs _ _)
  · exact ((((Frame.writeVerts s _).trans (Frame.allocEqs _ _)).trans (Frame.allocSeqs _ _)).trans
      (Frame.allocCen _ _)).trans (Frame.setVolume _ _)

omit [Scalar α] in
theorem KeptOrNew.mono {s t u : St α} {f : St α → Id} (h : KeptOrNew s t f) (hn : t.next ≤ u.next)
    (hf : f u = f t) : KeptOrNew s u f := by
  rcases h with h | ⟨h1, h2⟩
  · exact Or.inl (hf.trans h)
  · exact Or.inr ⟨hf ▸ h1, hf ▸ Nat.lt_of_lt_of_le h2 hn⟩
omit [Scalar α] in
theorem KeptOrNewC.mono {s t u : St α} {f : St α → Option Id} (h : KeptOrNewC s t f)
    (hn : t.next ≤ u.next) (hf : f u = f t) : KeptOrNewC s u f := by
  rcases h with h | ⟨i, h0, h1, h2⟩
  · exact Or.inl (hf.trans h)
  · exact Or.inr ⟨i, hf ▸ h0, h1, Nat.lt_of_lt_of_le h2 hn⟩

/-- the first part of `Polygon.inertia_tensor`: the two copies and `self.center = (0,0,0)` -/
def polygonInertiaHead (M : Meas α) (s : St α) : St α :=
  setCentroid M ((s.alloc (s.get s.fVerts)).alloc ((s.alloc (s.get s.fVerts)).get s.fNormal)) V3.zero

theorem polygonInertiaHead_frame (M : Meas α) (s : St α) : Frame s (polygonInertiaHead M s) :=
  ((Frame.alloc s _).trans (Frame.alloc _ _)).trans (setCentroid_frame M _ _)

theorem polygonInertia_next (M : Meas α) (s : St α) :
    (polygonInertia M s).1.next = (polygonInertiaHead M s).next + 3 := rfl
theorem polygonInertia_ret (M : Meas α) (s : St α) :
    (polygonInertia M s).2 = (polygonInertiaHead M s).next + 2 := rfl
theorem polygonInertia_fVerts (M : Meas α) (s : St α) : (polygonInertia M s).1.fVerts = s.fVerts := rfl
theorem polygonInertia_fNormal (M : Meas α) (s : St α) : (polygonInertia M s).1.fNormal = s.next + 1 := rfl

theorem polygonInertia_get (M : Meas α) (s : St α) (i : Id) (hi : i < (polygonInertiaHead M s).next)
    (hv : i ≠ s.fVerts) : (polygonInertia M s).1.get i = (polygonInertiaHead M s).get i := by
  have e : (polygonInertia M s).1.get i =
      ((((((polygonInertiaHead M s).alloc (M.rot ((polygonInertiaHead M s).get (polygonInertiaHead M s).fNormal)
        ((polygonInertiaHead M s).get (polygonInertiaHead M s).fVerts))).setVerts (polygonInertiaHead M s).next).alloc
          [lit 0, lit 0, lit 1]).setNormal ((polygonInertiaHead M s).next + 1)).alloc
            (M.tensor2 (pubCentroid M s) (observe (((((polygonInertiaHead M s).alloc (M.rot ((polygonInertiaHead M s).get (polygonInertiaHead M s).fNormal)
        ((polygonInertiaHead M s).get (polygonInertiaHead M s).fVerts))).setVerts (polygonInertiaHead M s).next).alloc
          [lit 0, lit 0, lit 1]).setNormal ((polygonInertiaHead M s).next + 1)))
              ((polygonInertiaHead M s).get (polygonInertiaHead M s).fNormal))).get i := by
    show (St.write _ s.fVerts _).get i = _
    rw [St.get_write_of_ne _ _ _ _ hv]
    rfl
  rw [e, St.get_alloc_of_lt _ _ _ (by simp only [St.next_setNormal, St.next_alloc, St.next_setVerts]; omega),
    St.get_setNormal, St.get_alloc_of_lt _ _ _ (by simp only [St.next_alloc, St.next_setVerts]; omega),
    St.get_setVerts, St.get_alloc_of_lt _ _ _ hi]

theorem polygonInertia_frame (M : Meas α) (s : St α) : Frame s (polygonInertia M s).1 := by
  have h := polygonInertiaHead_frame M s
  have hn : (polygonInertiaHead M s).next ≤ (polygonInertia M s).1.next := by
    rw [polygonInertia_next]; omega
  refine ⟨Nat.le_trans h.next_le hn, fun i hi hv => ?_, rfl, h.cls, h.consts, h.handed, h.args, ?_,
    h.fCen.mono hn rfl, h.fEqs.mono hn rfl, h.fSeqs.mono hn rfl, h.cAreas.mono hn rfl,
    h.cFaceCen.mono hn rfl, h.cEdges.mono hn rfl⟩
  · rw [polygonInertia_get M s i (Nat.lt_of_lt_of_le hi h.next_le) hv, h.get_eq i hi hv]
  · refine Or.inr ⟨?_, ?_⟩
    · show s.next ≤ s.next + 1; omega
    · show s.next + 1 < (polygonInertia M s).1.next
      have : s.next + 2 ≤ (polygonInertiaHead M s).next :=
        (setCentroid_frame M ((s.alloc (s.get s.fVerts)).alloc ((s.alloc (s.get s.fVerts)).get s.fNormal)) V3.zero).next_le
      rw [polygonInertia_next]; omega

omit [Scalar α] in
theorem Frame.writeSince {s t : St α} (h : Frame s t) (k : Id) (a : Arr α) (hk : s.next ≤ k) :
    Frame s (t.write k a) :=
  ⟨h.next_le, fun i hi hv => by
      rw [St.get_write_of_ne _ _ _ _ (Nat.ne_of_lt (Nat.lt_of_lt_of_le hi hk)), h.get_eq i hi hv],
    h.fVerts, h.cls, h.consts, h.handed, h.args, h.fNormal, h.fCen, h.fEqs, h.fSeqs, h.cAreas, h.cFaceCen,
    h.cEdges⟩

theorem polyhedronInertia_frame (M : Meas α) (s : St α) : Frame s (polyhedronInertia M s).1 :=
  ((Frame.alloc s _).writeSince s.next _ (Nat.le_refl _)).trans (Frame.alloc _ _)

theorem polyhedronInertia_next (M : Meas α) (s : St α) : (polyhedronInertia M s).1.next = s.next + 2 := rfl
theorem polyhedronInertia_ret (M : Meas α) (s : St α) : (polyhedronInertia M s).2 = s.next + 1 := rfl

/-- every returned id exists in the final state -/
def RetsLt (p : St α × Out α) : Prop := ∀ r, r ∈ p.2.rets → r.id < p.1.next

theorem getter_frame (M : Meas α) (g : Getter) (s : St α) : Frame s (getter M g s).1 := by
  cases g with
  | vertices => simp only [getter]; split <;> exact Frame.refl s
  | normal => simp only [getter]; split <;> exact Frame.refl s
  | centroid =>
    simp only [getter]
    split
    · exact Frame.refl s
    · split
      · exact Frame.alloc s _
      · exact Frame.alloc s _
      · exact Frame.refl s
      · exact Frame.refl s
  | equations => simp only [getter]; split <;> exact Frame.refl s
  | normals => simp only [getter]; split <;> exact Frame.refl s
  | faceCentroids =>
    simp only [getter]
    split
    · exact (Frame.allocAreas s _).trans (Frame.allocFaceCen _ _)
    · exact Frame.refl s
  | edges =>
    simp only [getter]
    split
    · split
      · exact Frame.refl s
      · exact Frame.allocEdges s _
    · exact Frame.refl s
  | inertiaTensor =>
    simp only [getter]
    split
    · exact polygonInertia_frame M s
    · exact polygonInertia_frame M s
    · exact polyhedronInertia_frame M s
    · exact polyhedronInertia_frame M s
    · exact Frame.refl s
    · exact Frame.refl s
    · exact Frame.alloc s _
  | value name => exact Frame.alloc s _

theorem getter_rets (M : Meas α) (g : Getter) (s : St α) (hw : Spec.WF s) : RetsLt (getter M g s) := by
  intro r hr
  cases g with
  | vertices =>
    simp only [getter] at hr ⊢; split at hr <;> simp [raise, ret1] at hr
    subst hr; simpa [*] using hw.verts
  | normal =>
    simp only [getter] at hr ⊢; split at hr <;> simp [raise, ret1] at hr
    subst hr; simpa [*] using hw.normal.1
  | centroid =>
    simp only [getter] at hr ⊢
    split at hr
    · simp [raise] at hr
    · split at hr <;> simp [ret1] at hr <;> subst hr <;> simp [*]
      · exact hw.cen.1
      · exact hw.cen.1
  | equations =>
    simp only [getter] at hr ⊢; split at hr <;> simp [raise, ret1] at hr
    subst hr; simpa [*] using hw.eqs.1
  | normals =>
    simp only [getter] at hr ⊢; split at hr <;> simp [raise, ret1] at hr
    subst hr; simpa [*] using hw.eqs.1
  | faceCentroids =>
    simp only [getter] at hr ⊢; split at hr <;> simp [raise, ret1] at hr
    subst hr; simp [*]
  | edges =>
    simp only [getter] at hr ⊢
    split at hr
    · split at hr <;> simp [ret1] at hr <;> subst hr <;> simp [*]
      next i hi => exact (hw.edges i hi).1
    · simp [raise] at hr
  | inertiaTensor =>
    simp only [getter] at hr ⊢
    split at hr <;> simp [raise, ret1] at hr <;> subst hr <;>
      simp [*, polygonInertia_next, polygonInertia_ret, polyhedronInertia_next, polyhedronInertia_ret]
  | value name =>
    simp [getter, ret1] at hr; subst hr; simp [getter]

omit [Scalar α] in
/-- well-formedness survives a frame step -/
theorem WF.of_frame {s t : St α} (hw : Spec.WF s) (h : Frame s t) : Spec.WF t := by
  have kn : ∀ f : St α → Id, KeptOrNew s t f → f s < s.next ∧ f s ≠ s.fVerts → f t < t.next ∧ f t ≠ t.fVerts := by
    intro f hf ⟨h1, h2⟩
    rcases hf with hf | ⟨h3, h4⟩
    · rw [hf, h.fVerts]; exact ⟨Nat.lt_of_lt_of_le h1 h.next_le, h2⟩
    · rw [h.fVerts]; exact ⟨h4, by have := hw.verts; omega⟩
  have kc : ∀ f : St α → Option Id, KeptOrNewC s t f → (∀ i, f s = some i → i < s.next ∧ i ≠ s.fVerts) →
      ∀ i, f t = some i → i < t.next ∧ i ≠ t.fVerts := by
    intro f hf h0 i hi
    rcases hf with hf | ⟨j, h3, h4, h5⟩
    · rw [hf] at hi; rw [h.fVerts]; exact ⟨Nat.lt_of_lt_of_le (h0 i hi).1 h.next_le, (h0 i hi).2⟩
    · rw [h3] at hi; cases hi; rw [h.fVerts]; exact ⟨h5, by have := hw.verts; omega⟩
  exact
    { verts := by rw [h.fVerts]; exact Nat.lt_of_lt_of_le hw.verts h.next_le
      normal := kn _ h.fNormal hw.normal
      cen := kn _ h.fCen hw.cen
      eqs := kn _ h.fEqs hw.eqs
      seqs := kn _ h.fSeqs hw.seqs
      areas := kc _ h.cAreas hw.areas
      faceCen := kc _ h.cFaceCen hw.faceCen
      edges := kc _ h.cEdges hw.edges
      handed := fun i hi => Nat.lt_of_lt_of_le (hw.handed i (h.handed ▸ hi)) h.next_le
      args := fun i hi => Nat.lt_of_lt_of_le (hw.args i (h.args ▸ hi)) h.next_le }

theorem toJson_frame (M : Meas α) (gs : List Getter) : ∀ s : St α, Frame s (toJson M gs s).1 := by
  induction gs with
  | nil => intro s; exact Frame.refl s
  | cons g gs ih =>
    intro s
    simp only [toJson]
    split
    · exact getter_frame M g s
    · split
      · exact (getter_frame M g s).trans (ih _)
      · exact (getter_frame M g s).trans (ih _)

theorem toJson_rets (M : Meas α) (gs : List Getter) :
    ∀ s : St α, Spec.WF s → RetsLt (toJson M gs s) := by
  induction gs with
  | nil => intro s _ r hr; simp [toJson] at hr
  | cons g gs ih =>
    intro s hw r hr
    simp only [toJson] at hr ⊢
    split at hr
    · simp [raise] at hr
    · split at hr
      · simp [raise] at hr
      · have h1 := getter_frame M g s
        have h2 := toJson_frame M gs (getter M g s).1
        have hw1 := WF.of_frame hw h1
        simp only [List.mem_append] at hr
        rcases hr with hr | hr
        · exact Nat.lt_of_lt_of_le (getter_rets M g s hw r hr) h2.next_le
        · exact ih _ hw1 r hr

theorem polygonToHoomd_frame (M : Meas α) (s : St α) :
    Frame s (polygonToHoomd M s).1 ∧ RetsLt (polygonToHoomd M s) := by
  have f1 := setCentroid_frame M s V3.zero
  have f2 := Frame.alloc (setCentroid M s V3.zero) (v3l (pubCentroid M (setCentroid M s V3.zero)))
  have f3 := polygonInertia_frame M ((setCentroid M s V3.zero).alloc (v3l (pubCentroid M (setCentroid M s V3.zero))))
  have f4 := Frame.alloc (polygonInertia M ((setCentroid M s V3.zero).alloc
    (v3l (pubCentroid M (setCentroid M s V3.zero))))).1 (cols2 ((polygonInertia M ((setCentroid M s V3.zero).alloc
    (v3l (pubCentroid M (setCentroid M s V3.zero))))).1.get (polygonInertia M ((setCentroid M s V3.zero).alloc
    (v3l (pubCentroid M (setCentroid M s V3.zero))))).1.fVerts))
  have f5 := setCentroid_frame M ((polygonInertia M ((setCentroid M s V3.zero).alloc
    (v3l (pubCentroid M (setCentroid M s V3.zero))))).1.alloc (cols2 ((polygonInertia M ((setCentroid M s V3.zero).alloc
    (v3l (pubCentroid M (setCentroid M s V3.zero))))).1.get (polygonInertia M ((setCentroid M s V3.zero).alloc
    (v3l (pubCentroid M (setCentroid M s V3.zero))))).1.fVerts))) (pubCentroid M s)
  refine ⟨(((f1.trans f2).trans f3).trans f4).trans f5, ?_⟩
  intro r hr
  have n5 := f5.next_le
  have n3 := polygonInertia_next M ((setCentroid M s V3.zero).alloc (v3l (pubCentroid M (setCentroid M s V3.zero))))
  have r3 := polygonInertia_ret M ((setCentroid M s V3.zero).alloc (v3l (pubCentroid M (setCentroid M s V3.zero))))
  have h3 := (polygonInertiaHead_frame M ((setCentroid M s V3.zero).alloc (v3l (pubCentroid M (setCentroid M s V3.zero))))).next_le
  simp only [polygonToHoomd, List.mem_cons, List.not_mem_nil, or_false] at hr
  simp only [polygonToHoomd]
  simp only [St.next_alloc] at n5 h3
  rcases hr with rfl | rfl | rfl
  · show (polygonInertia M _).1.next < _; omega
  · show (setCentroid M s V3.zero).next < _; omega
  · show (polygonInertia M _).2 < _; omega

theorem polyhedronToHoomd_frame (M : Meas α) (s : St α) (hw : Spec.WF s) :
    Frame s (polyhedronToHoomd M s).1 ∧ RetsLt (polyhedronToHoomd M s) := by
  have f1 := setCentroid_frame M s V3.zero
  by_cases hk : s.cls.kind = .poly
  · have f2 := Frame.alloc (setCentroid M s V3.zero) (v3l (pubCentroid M (setCentroid M s V3.zero)))
    have f3 := polyhedronInertia_frame M ((setCentroid M s V3.zero).alloc (v3l (pubCentroid M (setCentroid M s V3.zero))))
    simp only [polyhedronToHoomd, hk, if_true]
    refine ⟨(((f1.trans f2).trans f3).trans (Frame.alloc _ _)).trans (setCentroid_frame M _ _), ?_⟩
    intro r hr
    have n5 := (setCentroid_frame M ((polyhedronInertia M ((setCentroid M s V3.zero).alloc
      (v3l (pubCentroid M (setCentroid M s V3.zero))))).1.alloc ((polyhedronInertia M ((setCentroid M s V3.zero).alloc
      (v3l (pubCentroid M (setCentroid M s V3.zero))))).1.get (polyhedronInertia M ((setCentroid M s V3.zero).alloc
      (v3l (pubCentroid M (setCentroid M s V3.zero))))).1.fVerts)) (pubCentroid M s)).next_le
    simp only [List.mem_cons, List.not_mem_nil, or_false] at hr
    simp only [St.next_alloc, polyhedronInertia_next] at n5
    rcases hr with rfl | rfl | rfl
    · show (polyhedronInertia M _).1.next < _; simp only [polyhedronInertia_next, St.next_alloc]; omega
    · show (setCentroid M s V3.zero).next < (setCentroid M _ _).next; omega
    · show (polyhedronInertia M _).2 < _; simp only [polyhedronInertia_ret, St.next_alloc]; omega
  · have f3 := polyhedronInertia_frame M (setCentroid M s V3.zero)
    simp only [polyhedronToHoomd, hk, if_false]
    refine ⟨((f1.trans f3).trans (Frame.alloc _ _)).trans (setCentroid_frame M _ _), ?_⟩
    intro r hr
    have n5 := (setCentroid_frame M ((polyhedronInertia M (setCentroid M s V3.zero)).1.alloc
      ((polyhedronInertia M (setCentroid M s V3.zero)).1.get (polyhedronInertia M (setCentroid M s V3.zero)).1.fVerts))
      (l3v (((polyhedronInertia M (setCentroid M s V3.zero)).1.alloc
      ((polyhedronInertia M (setCentroid M s V3.zero)).1.get (polyhedronInertia M (setCentroid M s V3.zero)).1.fVerts)).get s.fCen))).next_le
    simp only [List.mem_cons, List.not_mem_nil, or_false] at hr
    simp only [St.next_alloc, polyhedronInertia_next] at n5
    have hc := (WF.of_frame hw f1).cen.1
    rcases hr with rfl | rfl | rfl
    · show (polyhedronInertia M _).1.next < _; simp only [polyhedronInertia_next]; omega
    · show (setCentroid M s V3.zero).fCen < (setCentroid M _ _).next; omega
    · show (polyhedronInertia M _).2 < _; simp only [polyhedronInertia_ret]; omega

theorem spheropolyhedronToHoomd_frame (M : Meas α) (s : St α) :
    Frame s (spheropolyhedronToHoomd M s).1 ∧ RetsLt (spheropolyhedronToHoomd M s) := by
  have f1 := setCentroid_frame M s V3.zero
  refine ⟨(f1.trans (Frame.alloc _ _)).trans (setCentroid_frame M _ _), ?_⟩
  intro r hr
  have n5 := (setCentroid_frame M ((setCentroid M s V3.zero).alloc ((setCentroid M s V3.zero).get
    (setCentroid M s V3.zero).fVerts)) (l3v (((setCentroid M s V3.zero).alloc ((setCentroid M s V3.zero).get
    (setCentroid M s V3.zero).fVerts)).get s.fCen))).next_le
  simp only [spheropolyhedronToHoomd, List.mem_cons, List.not_mem_nil, or_false] at hr
  simp only [St.next_alloc] at n5
  subst hr
  show (setCentroid M s V3.zero).next < (setCentroid M _ _).next; omega

theorem spheropolygonToHoomd_frame (M : Meas α) (s : St α) (hw : Spec.WF s) :
    Frame s (spheropolygonToHoomd M s).1 ∧ RetsLt (spheropolygonToHoomd M s) := by
  have f1 := setCentroid_frame M s (pubCentroid M s)
  refine ⟨f1, ?_⟩
  intro r hr
  simp only [spheropolygonToHoomd, List.mem_cons, List.not_mem_nil, or_false] at hr
  subst hr
  show s.fVerts < (setCentroid M _ _).next
  have := hw.verts; have := f1.next_le; omega

theorem curvedToHoomd_frame (M : Meas α) (s : St α) (hw : Spec.WF s) :
    Frame s (curvedToHoomd M s).1 ∧ RetsLt (curvedToHoomd M s) := by
  have f1 := setCentroid_frame M s V3.zero
  refine ⟨(f1.trans (Frame.alloc _ _)).trans (setCentroid_frame M _ _), ?_⟩
  intro r hr
  have n5 := (setCentroid_frame M ((setCentroid M s V3.zero).alloc (M.value "inertia_tensor"
    (observe (setCentroid M s V3.zero)))) (l3v (((setCentroid M s V3.zero).alloc (M.value "inertia_tensor"
    (observe (setCentroid M s V3.zero)))).get s.fCen))).next_le
  simp only [curvedToHoomd, List.mem_cons, List.not_mem_nil, or_false] at hr
  simp only [St.next_alloc] at n5
  have hc := (WF.of_frame hw f1).cen.1
  rcases hr with rfl | rfl
  · show (setCentroid M s V3.zero).fCen < (setCentroid M _ _).next; omega
  · show (setCentroid M s V3.zero).next < (setCentroid M _ _).next; omega

theorem toHoomd_frame (M : Meas α) (s : St α) (hw : Spec.WF s) :
    Frame s (toHoomd M s).1 ∧ RetsLt (toHoomd M s) := by
  unfold toHoomd
  split
  · exact ⟨Frame.refl s, fun r hr => by simp [raise] at hr⟩
  · exact ⟨Frame.refl s, fun r hr => by simp [raise] at hr⟩
  · exact curvedToHoomd_frame M s hw
  · exact curvedToHoomd_frame M s hw
  · exact polygonToHoomd_frame M s
  · exact polygonToHoomd_frame M s
  · exact spheropolygonToHoomd_frame M s hw
  · exact polyhedronToHoomd_frame M s hw
  · exact polyhedronToHoomd_frame M s hw
  · exact spheropolyhedronToHoomd_frame M s

omit [Scalar α] in
theorem getFaceArea_frame (M : Meas α) (s : St α) :
    Frame s (getFaceArea M s).1 ∧ RetsLt (getFaceArea M s) := by
  unfold getFaceArea
  split
  · refine ⟨(Frame.allocAreas s _).trans (Frame.alloc _ _), fun r hr => ?_⟩
    simp [ret1] at hr; subst hr; simp
  · refine ⟨Frame.alloc s _, fun r hr => ?_⟩
    simp [ret1] at hr; subst hr; simp
  · exact ⟨Frame.refl s, fun r hr => by simp [raise] at hr⟩

theorem save_frame (M : Meas α) (fmt : Nat) (s : St α) :
    Frame s (save M fmt s).1 ∧ RetsLt (save M fmt s) := by
  unfold save
  split
  · split
    · split
      · refine ⟨((((Frame.alloc s _).trans (Frame.alloc _ _)).trans (Frame.alloc _ _)).trans
          (Frame.alloc _ _)).writeSince _ _ ?_, fun r hr => by simp at hr⟩
        simp
      · exact ⟨((((Frame.alloc s _).trans (Frame.alloc _ _)).trans (Frame.alloc _ _)).trans
          (Frame.alloc _ _)).trans (Frame.alloc _ _), fun r hr => by simp at hr⟩
    · split
      · exact ⟨getter_frame M .edges s, fun r hr => by simp at hr⟩
      · exact ⟨Frame.refl s, fun r hr => by simp at hr⟩
  · exact ⟨Frame.refl s, fun r hr => by simp [raise] at hr⟩

theorem step_frame (M : Meas α) (q : Query) (s : St α) (hw : Spec.WF s) :
    Frame s (step M q s).1 ∧ RetsLt (step M q s) := by
  cases q with
  | get g => exact ⟨getter_frame M g s, getter_rets M g s hw⟩
  | toJson gs => exact ⟨toJson_frame M gs s, toJson_rets M gs s hw⟩
  | getFaceArea => exact getFaceArea_frame M s
  | toHoomd => exact toHoomd_frame M s hw
  | save fmt => exact save_frame M fmt s
  | withArg name arg =>
    refine ⟨(Frame.alloc s _).trans (Frame.alloc _ _), fun r hr => ?_⟩
    simp [step, ret1] at hr; subst hr; simp [step]

end frame

/-! ## `run` = `step` + what the caller now holds -/
section run
variable {α : Type} [Scalar α]

@[simp] theorem run_get (M : Meas α) (q : Query) (s : St α) (i : Id) :
    (run M q s).1.get i = (step M q s).1.get i := rfl
@[simp] theorem run_out (M : Meas α) (q : Query) (s : St α) : (run M q s).2 = (step M q s).2 := rfl
@[simp] theorem run_observe (M : Meas α) (q : Query) (s : St α) :
    observe (run M q s).1 = observe (step M q s).1 := rfl
@[simp] theorem run_next (M : Meas α) (q : Query) (s : St α) : (run M q s).1.next = (step M q s).1.next := rfl
@[simp] theorem run_cls (M : Meas α) (q : Query) (s : St α) : (run M q s).1.cls = (step M q s).1.cls := rfl
@[simp] theorem run_fVerts (M : Meas α) (q : Query) (s : St α) : (run M q s).1.fVerts = (step M q s).1.fVerts := rfl
@[simp] theorem run_cEdges (M : Meas α) (q : Query) (s : St α) : (run M q s).1.cEdges = (step M q s).1.cEdges := rfl

/-- the caller's argument arrays exist -/
def ArgsOk (s : St α) (q : Query) : Prop := ∀ a, a ∈ q.argIds → a < s.next

theorem run_wf (M : Meas α) (q : Query) (s : St α) (hw : Spec.WF s) (ha : ArgsOk s q) :
    Spec.WF (run M q s).1 := by
  obtain ⟨hf, hr⟩ := step_frame M q s hw
  have h := WF.of_frame hw hf
  exact
    { verts := h.verts, normal := h.normal, cen := h.cen, eqs := h.eqs, seqs := h.seqs, areas := h.areas,
      faceCen := h.faceCen, edges := h.edges
      handed := fun i hi => by
        simp only [run, List.mem_append, List.mem_map] at hi
        rcases hi with ⟨r, hr1, rfl⟩ | hi
        · exact hr r hr1
        · exact h.handed i hi
      args := fun i hi => by
        simp only [run, List.mem_append] at hi
        rcases hi with hi | hi
        · exact Nat.lt_of_lt_of_le (ha i hi) hf.next_le
        · exact h.args i hi }

end run

end C16
