import CoxeterVerif.Lemmas.DistToSurfaceChain
/-!
  C14: the area centroid (`Spec.polyCentroid`, triangle fan) of a strictly convex
  counter-clockwise polygon with at least three vertices lies STRICTLY inside it — so the centre
  `distance_to_surface` measures from satisfies the hypothesis of `cpoly_dts_correct`.
-/
open Scalar
noncomputable section
namespace DTS

/-- the affine function "signed distance to the left of the directed line `p → q`" -/
def leftOf (p q x : P2 ℝ) : ℝ := Spec.cross (q - p) (x - p)

/-- an affine function of a weighted mean is the weighted mean of its values -/
theorem leftOf_weighted (p q : P2 ℝ) : ∀ ts : List (ℝ × P2 ℝ),
    (ts.map fun t => t.1 * leftOf p q t.2).sum =
      (q.x - p.x) * ((ts.map fun t => t.1 * t.2.y).sum - (ts.map (·.1)).sum * p.y) -
      (q.y - p.y) * ((ts.map fun t => t.1 * t.2.x).sum - (ts.map (·.1)).sum * p.x) := by
  intro ts
  induction ts with
  | nil => simp
  | cons t ts ih =>
    simp only [List.map_cons, List.sum_cons]
    rw [ih]
    simp only [leftOf, Spec.cross, P2.sub_x, P2.sub_y]
    ring

theorem sum_pos_of_pos : ∀ l : List ℝ, l ≠ [] → (∀ x ∈ l, 0 < x) → 0 < l.sum := by
  intro l
  induction l with
  | nil => intro h; exact absurd rfl h
  | cons a l ih =>
    intro _ hpos
    rw [List.sum_cons]
    by_cases hl : l = []
    · subst hl; simpa using hpos a (by simp)
    · have := ih hl (fun x hx => hpos x (List.mem_cons_of_mem _ hx))
      have := hpos a (by simp)
      linarith

/-- every fan term comes from two consecutive vertices `a, b` of the list -/
theorem fanTerms_mem (v0 f : P2 ℝ) : ∀ (L : List (P2 ℝ)) (t : ℝ × P2 ℝ), t ∈ Spec.fanTerms v0 L →
    ∃ a b, t = (Spec.cross (a - v0) (b - v0), ⟨(v0.x + a.x + b.x) / 3, (v0.y + a.y + b.y) / 3⟩) ∧
      (a, b) ∈ cycPairs f L ∧ a ∈ L ∧ b ∈ L ∧ (L.Nodup → a ≠ b) := by
  intro L
  induction L with
  | nil => intro t ht; simp [Spec.fanTerms] at ht
  | cons a L' ih =>
    intro t ht
    cases L' with
    | nil => simp [Spec.fanTerms] at ht
    | cons b rest =>
      simp only [Spec.fanTerms, List.mem_cons] at ht
      rcases ht with ht | ht
      · refine ⟨a, b, ?_, by simp [cycPairs], by simp, by simp, ?_⟩
        · rw [ht]; simp [Scalar.lit]
        · intro hnd heq
          have := (List.nodup_cons.mp hnd).1
          exact this (by rw [heq]; simp)
      · obtain ⟨a', b', h1, h2, h3, h4, h5⟩ := ih t ht
        refine ⟨a', b', h1, ?_, List.mem_cons_of_mem _ h3, List.mem_cons_of_mem _ h4, ?_⟩
        · simp only [cycPairs, List.mem_cons]; exact Or.inr h2
        · intro hnd; exact h5 (List.nodup_cons.mp hnd).2

theorem fanTerms_ne_nil (v0 a b : P2 ℝ) (rest : List (P2 ℝ)) :
    Spec.fanTerms v0 (a :: b :: rest) ≠ [] := by simp [Spec.fanTerms]

/-- **the centroid is strictly inside.** -/
theorem polyCentroid_strictlyInside (V : List (P2 ℝ)) (h3 : 3 ≤ V.length)
    (hconv : Spec.strictConvexCCW V) : Spec.strictlyInsideCCW V (Spec.polyCentroid V) := by
  obtain ⟨hnd, hcv⟩ := hconv
  match V, h3 with
  | v0 :: a0 :: b0 :: rest0, _ =>
  set V := v0 :: a0 :: b0 :: rest0 with hV
  -- weak / strict position of the vertices with respect to an edge
  have hcv' : ∀ e ∈ Spec.edgesOf V, ∀ w ∈ V, w ≠ e.1 → w ≠ e.2 → 0 < leftOf e.1 e.2 w := by
    intro e he w hw h1 h2
    have := hcv e he w hw h1 h2
    simpa [leftOf, Scalar.lit] using this
  have hweak : ∀ e ∈ Spec.edgesOf V, ∀ w ∈ V, 0 ≤ leftOf e.1 e.2 w := by
    intro e he w hw
    by_cases h1 : w = e.1
    · rw [h1]; simp [leftOf, Spec.cross]
    · by_cases h2 : w = e.2
      · rw [h2]; simp only [leftOf, Spec.cross]; nlinarith
      · exact (hcv' e he w hw h1 h2).le
  have hv0 : v0 ∈ V := by simp [hV]
  have hv0n : v0 ∉ a0 :: b0 :: rest0 := (List.nodup_cons.mp hnd).1
  have hndr : (a0 :: b0 :: rest0).Nodup := (List.nodup_cons.mp hnd).2
  set ts := Spec.fanTerms v0 (a0 :: b0 :: rest0) with hts
  have hne : ts ≠ [] := fanTerms_ne_nil v0 a0 b0 rest0
  -- every fan triangle is counter-clockwise, with its vertices in `V`
  have hterm : ∀ t ∈ ts, ∃ a b, t = (Spec.cross (a - v0) (b - v0),
      (⟨(v0.x + a.x + b.x) / 3, (v0.y + a.y + b.y) / 3⟩ : P2 ℝ)) ∧ 0 < t.1 ∧ a ∈ V ∧ b ∈ V ∧
      a ≠ v0 ∧ b ≠ v0 ∧ a ≠ b := by
    intro t ht
    obtain ⟨a, b, h1, h2, ha, hb, hab⟩ := fanTerms_mem v0 v0 _ t ht
    have hav : a ≠ v0 := fun h => hv0n (h ▸ ha)
    have hbv : b ≠ v0 := fun h => hv0n (h ▸ hb)
    have hedge : (a, b) ∈ Spec.edgesOf V := by
      rw [hV, edgesOf_cons]
      simp only [cycPairs, List.mem_cons] at h2 ⊢
      exact Or.inr h2
    have hpos := hcv' (a, b) hedge v0 hv0 (Ne.symm hav) (Ne.symm hbv)
    refine ⟨a, b, h1, ?_, List.mem_cons_of_mem _ ha, List.mem_cons_of_mem _ hb, hav, hbv, hab hndr⟩
    rw [h1]
    simp only [leftOf, Spec.cross, P2.sub_x, P2.sub_y] at hpos ⊢
    linarith
  have hApos : 0 < (ts.map (·.1)).sum := by
    apply sum_pos_of_pos _ (by simpa using hne)
    intro x hx
    obtain ⟨t, ht, rfl⟩ := List.mem_map.mp hx
    obtain ⟨_, _, _, h, _⟩ := hterm t ht
    exact h
  intro e he
  have hsum : 0 < (ts.map fun t => t.1 * leftOf e.1 e.2 t.2).sum := by
    apply sum_pos_of_pos _ (by simpa using hne)
    intro x hx
    obtain ⟨t, ht, rfl⟩ := List.mem_map.mp hx
    obtain ⟨a, b, h1, hA, ha, hb, hav, hbv, hab⟩ := hterm t ht
    apply mul_pos hA
    have e3 : leftOf e.1 e.2 t.2 = (leftOf e.1 e.2 v0 + leftOf e.1 e.2 a + leftOf e.1 e.2 b) / 3 := by
      rw [h1]; simp only [leftOf, Spec.cross, P2.sub_x, P2.sub_y]; ring
    rw [e3]
    have w0 := hweak e he v0 hv0
    have wa := hweak e he a ha
    have wb := hweak e he b hb
    -- one of the three distinct vertices is not an end point of the edge
    have : 0 < leftOf e.1 e.2 v0 ∨ 0 < leftOf e.1 e.2 a ∨ 0 < leftOf e.1 e.2 b := by
      by_cases c1 : v0 = e.1
      · by_cases c2 : a = e.2
        · right; right
          exact hcv' e he b hb (fun h => hbv (h.trans c1.symm)) (fun h => hab (c2.trans h.symm))
        · right; left
          exact hcv' e he a ha (fun h => hav (h.trans c1.symm)) c2
      · by_cases c2 : v0 = e.2
        · by_cases c3 : a = e.1
          · right; right
            exact hcv' e he b hb (fun h => hab (c3.trans h.symm)) (fun h => hbv (h.trans c2.symm))
          · right; left
            exact hcv' e he a ha c3 (fun h => hav (h.trans c2.symm))
        · left; exact hcv' e he v0 hv0 c1 c2
    rcases this with h | h | h <;> linarith
  rw [leftOf_weighted] at hsum
  -- the centroid
  have hc : Spec.polyCentroid V =
      ⟨(ts.map fun t => t.1 * t.2.x).sum / (ts.map (·.1)).sum,
       (ts.map fun t => t.1 * t.2.y).sum / (ts.map (·.1)).sum⟩ := by
    simp only [hV, Spec.polyCentroid, Scalar.sum_real, ← hts]
  rw [hc]
  simp only [Spec.cross, P2.sub_x, P2.sub_y, Scalar.lit, Scalar.ofNat_real, Nat.cast_zero]
  set A := (ts.map (·.1)).sum with hA
  set Sx := (ts.map fun t => t.1 * t.2.x).sum
  set Sy := (ts.map fun t => t.1 * t.2.y).sum
  have hA' : A ≠ 0 := hApos.ne'
  have : (e.2.x - e.1.x) * (Sy / A - e.1.y) - (e.2.y - e.1.y) * (Sx / A - e.1.x) =
      ((e.2.x - e.1.x) * (Sy - A * e.1.y) - (e.2.y - e.1.y) * (Sx - A * e.1.x)) / A := by
    field_simp
  rw [this]
  exact div_pos hsum hApos

end DTS
end
