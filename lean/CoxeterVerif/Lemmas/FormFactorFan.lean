import CoxeterVerif.Lemmas.FormFactorTriangle
import CoxeterVerif.Lemmas.FormFactorRect
import CoxeterVerif.Lemmas.PolytriBoundary
import CoxeterVerif.Lemmas.ChainCheck
/-!
  From triangles to polygons, with no Green/Stokes step assumed:

  * `triangle_boundary_form` : for EVERY triangle `A B C`, normal `n` and in-plane `q ≠ 0`
      `toC (Spec.boundaryForm [A,B,C] n q) = ((B−A)×(C−A))·n · triFT A B C q`
    where `triFT` is the iterated interval integral of `e^{-i q·r}` over the affine parametrisation
    of the triangle (`Lemmas/FormFactorTriangle.lean`);
  * the per-edge term of the boundary form is odd under reversal of the edge, hence the boundary
    form is additive over every triangulation whose boundary chain is the polygon's edge cycle
    (`boundaryForm_triangulation`, certificate = `EdgeChainEq`), in particular over the triangle
    fan from the first vertex for EVERY vertex list (`boundaryForm_fan`, no certificate).
-/
open Scalar
set_option maxRecDepth 4000
namespace FF
noncomputable section

/-! ### `toC` is a ring homomorphism on the pair operations -/

theorem toC_add (z w : Cx ℝ) : toC (Cx.add z w) = toC z + toC w := by
  apply Complex.ext <;> simp [toC]
theorem toC_mul (z w : Cx ℝ) : toC (Cx.mul z w) = toC z * toC w := by
  apply Complex.ext <;> simp [toC]
theorem toC_neg (z : Cx ℝ) : toC (Cx.neg z) = -toC z := by
  apply Complex.ext <;> simp [toC]
theorem toC_sdiv (z : Cx ℝ) (k : ℝ) : toC (Cx.sdiv z k) = toC z / (k : ℂ) := by
  rw [div_eq_mul_inv, ← Complex.ofReal_inv]
  apply Complex.ext <;>
    simp only [toC, Cx.sdiv_re, Cx.sdiv_im, Complex.mul_re, Complex.mul_im, Complex.ofReal_re,
      Complex.ofReal_im] <;> ring
theorem toC_I : toC (Cx.I : Cx ℝ) = Complex.I := by
  apply Complex.ext <;> simp [toC]
theorem toC_zero : toC (Cx.zero : Cx ℝ) = 0 := by
  apply Complex.ext <;> simp [toC]
theorem toC_ofReal (x : ℝ) : toC (Cx.ofReal x) = (x : ℂ) := by
  apply Complex.ext <;> simp [toC]
theorem toC_expNegI (x : ℝ) : toC (Cx.expNegI x) = cexp x := toC_cis x
theorem toC_sum (l : List (Cx ℝ)) : toC (Cx.sum l) = (l.map toC).sum := by
  induction l with
  | nil => simp [toC_zero]
  | cons a l ih => simp only [Cx.sum_cons, toC_add, ih, List.map_cons, List.sum_cons]
theorem toC_inj {z w : Cx ℝ} (h : toC z = toC w) : z = w := by
  have h1 := congrArg Complex.re h
  have h2 := congrArg Complex.im h
  simp only [toC] at h1 h2
  exact Cx.ext' h1 h2

/-! ### the per-edge term of the boundary form -/

/-- `q·(e × n) ∫₀¹ e^{-i q·(v + s e)} ds`, `e = w − v` -/
def bfTerm (n qp : V3 ℝ) (p : V3 ℝ × V3 ℝ) : Cx ℝ :=
  Cx.smul (V3.dot qp (V3.cross (p.2 - p.1) n))
    (Spec.edgeIntegral (V3.dot qp p.1) (V3.dot qp (p.2 - p.1)))

theorem boundaryForm_eq (vs : List (V3 ℝ)) (n qp : V3 ℝ) :
    Spec.boundaryForm vs n qp =
      Cx.mul (Cx.sdiv Cx.I (V3.dot qp qp)) (Cx.sum ((Spec.cyclicPairs vs).map (bfTerm n qp))) := rfl

theorem edgeIntegral_reverse (a b : ℝ) : Spec.edgeIntegral (a + b) (-b) = Spec.edgeIntegral a b := by
  unfold Spec.edgeIntegral
  simp only [Scalar.lit, Scalar.ofNat_real, Nat.cast_ofNat]
  rw [show -b / 2 = -(b / 2) by ring, sinc_neg, show a + b + -(b / 2) = a + b / 2 by ring]

theorem cross_sub_swap (v w n : V3 ℝ) : V3.cross (v - w) n = -(V3.cross (w - v) n) := by
  obtain ⟨a, b, c⟩ := v; obtain ⟨d, e, f⟩ := w; obtain ⟨x, y, z⟩ := n
  ext <;> simp [V3.cross] <;> ring

theorem bfTerm_swap (n qp v w : V3 ℝ) : bfTerm n qp (w, v) = Cx.neg (bfTerm n qp (v, w)) := by
  unfold bfTerm
  simp only
  have h := edgeIntegral_reverse (V3.dot qp v) (V3.dot qp (w - v))
  have e1 : V3.dot qp v + V3.dot qp (w - v) = V3.dot qp w := by rw [dot_sub_right]; ring
  have e2 : -V3.dot qp (w - v) = V3.dot qp (v - w) := by rw [dot_sub_right, dot_sub_right]; ring
  rw [e1, e2] at h
  rw [h, cross_sub_swap v w n, dot_neg_right]
  ext <;> simp

theorem toC_bfTerm (n qp v w : V3 ℝ) :
    toC (bfTerm n qp (v, w)) =
      ((V3.dot qp (V3.cross (w - v) n) : ℝ) : ℂ) * I1 (V3.dot qp v) (V3.dot qp w - V3.dot qp v) := by
  unfold bfTerm
  rw [toC_smul, I1_eq_closed, dot_sub_right]

/-! ### Lagrange identity for the edge coefficients -/

/-- for `q ⟂ n`:  `(q·a)(q·(b×n)) − (q·b)(q·(a×n)) = |q|² (a×b)·n`  (no assumption on `a`, `b`, `|n|`) -/
theorem lagrange_inplane (q a b n : V3 ℝ) (hq : V3.dot q n = 0) :
    V3.dot q a * V3.dot q (V3.cross b n) - V3.dot q b * V3.dot q (V3.cross a n) =
      V3.dot q q * V3.dot (V3.cross a b) n := by
  obtain ⟨qx, qy, qz⟩ := q; obtain ⟨ax, ay, az⟩ := a; obtain ⟨bx, b_y, bz⟩ := b; obtain ⟨nx, ny, nz⟩ := n
  simp only [V3.dot, V3.cross] at hq ⊢
  linear_combination
    (-(qx * (ay * bz - az * b_y) + qy * (az * bx - ax * bz) + qz * (ax * b_y - ay * bx))) * hq

/-- signed double area of the triangle `A B C` seen from the side `n` points to -/
def tri2 (A B C n : V3 ℝ) : ℝ := V3.dot (V3.cross (B - A) (C - A)) n

/-- **the Fourier integral over a triangle**, as an iterated interval integral over the affine
parametrisation `r(s,t) = A + s (B − A) + t (C − A)` of the triangle (`0 ≤ s`, `0 ≤ t`, `s + t ≤ 1`);
`∫∫_T e^{-i q·r} dA = 2·area(T) · triFT A B C q`. -/
def triFT (A B C qv : V3 ℝ) : ℂ :=
  ∫ s in (0:ℝ)..1, ∫ t in (0:ℝ)..(1 - s),
    cexp (V3.dot qv (A + V3.smul s (B - A) + V3.smul t (C - A)))

theorem triFT_eq_Jtri (A B C qv : V3 ℝ) :
    triFT A B C qv = Jtri (V3.dot qv A) (V3.dot qv B - V3.dot qv A) (V3.dot qv C - V3.dot qv A) := by
  unfold triFT Jtri
  congr 1; funext s; congr 1; funext t; congr 1
  obtain ⟨ax, ay, az⟩ := A; obtain ⟨bx, b_y, bz⟩ := B; obtain ⟨cx, cy, cz⟩ := C; obtain ⟨x, y, z⟩ := qv
  simp [V3.dot, V3.smul]
  ring

theorem cyclicPairs_tri (A B C : V3 ℝ) : Spec.cyclicPairs [A, B, C] = [(A, B), (B, C), (C, A)] := by
  simp [Spec.cyclicPairs, Spec.cyclicPairs.go]

/-- **triangle: boundary form = signed double area × iterated Fourier integral.**
Every triangle, every `n`, every `q` with `q·n = 0`, `q ≠ 0` (also `q` perpendicular to an edge). Proved from
the fundamental theorem of calculus (`tri_boundary_eq`); no Green/Stokes theorem is used. -/
theorem triangle_boundary_form (A B C n qp : V3 ℝ) (hq : V3.dot qp n = 0) (hQ : V3.dot qp qp ≠ 0) :
    toC (Spec.boundaryForm [A, B, C] n qp) = (tri2 A B C n : ℂ) * triFT A B C qp := by
  rw [boundaryForm_eq, cyclicPairs_tri, triFT_eq_Jtri]
  simp only [List.map_cons, List.map_nil, Cx.sum_cons, Cx.sum_nil, toC_mul, toC_sdiv, toC_I, toC_add,
    toC_zero, toC_bfTerm, add_zero]
  have key := tri_boundary_eq (V3.dot qp A) (V3.dot qp B) (V3.dot qp C)
    (V3.dot qp (V3.cross (B - A) n)) (V3.dot qp (V3.cross (C - B) n)) (V3.dot qp (V3.cross (A - C) n))
    (V3.dot qp qp) (tri2 A B C n) hQ ?_ ?_ ?_
  · rw [← key]; ring
  · have h := lagrange_inplane qp (B - A) (A - C) n hq
    have e : V3.dot (V3.cross (B - A) (A - C)) n = -tri2 A B C n := by
      unfold tri2
      obtain ⟨ax, ay, az⟩ := A; obtain ⟨bx, b_y, bz⟩ := B; obtain ⟨cx, cy, cz⟩ := C
      simp [V3.dot, V3.cross]; ring
    rw [e, dot_sub_right, dot_sub_right qp A C] at h
    linarith
  · have h := lagrange_inplane qp (C - B) (A - C) n hq
    have e : V3.dot (V3.cross (C - B) (A - C)) n = tri2 A B C n := by
      unfold tri2
      obtain ⟨ax, ay, az⟩ := A; obtain ⟨bx, b_y, bz⟩ := B; obtain ⟨cx, cy, cz⟩ := C
      simp [V3.dot, V3.cross]; ring
    rw [e, dot_sub_right, dot_sub_right qp A C] at h
    linarith
  · obtain ⟨ax, ay, az⟩ := A; obtain ⟨bx, b_y, bz⟩ := B; obtain ⟨cx, cy, cz⟩ := C
    obtain ⟨x, y, z⟩ := qp; obtain ⟨nx, ny, nz⟩ := n
    simp [V3.dot, V3.cross]; ring

/-! ### additivity over triangulations (edge-chain cancellation) -/

theorem bfTerm_re_odd (n qp : V3 ℝ) : OddEdge fun e => (bfTerm n qp e).re := by
  intro p q
  show (bfTerm n qp (q, p)).re = -(bfTerm n qp (p, q)).re
  rw [bfTerm_swap]; rfl

theorem bfTerm_im_odd (n qp : V3 ℝ) : OddEdge fun e => (bfTerm n qp e).im := by
  intro p q
  show (bfTerm n qp (q, p)).im = -(bfTerm n qp (p, q)).im
  rw [bfTerm_swap]; rfl

/-- the sum of the edge terms only depends on the edge list as a 1-chain -/
theorem sum_bfTerm_chain (n qp : V3 ℝ) {E F : List Edge} (h : EdgeChainEq E F) :
    Cx.sum (E.map (bfTerm n qp)) = Cx.sum (F.map (bfTerm n qp)) := by
  ext
  · rw [Cx.sum_re, Cx.sum_re, List.map_map, List.map_map]
    exact h _ (bfTerm_re_odd n qp)
  · rw [Cx.sum_im, Cx.sum_im, List.map_map, List.map_map]
    exact h _ (bfTerm_im_odd n qp)

theorem sum_flatMap_tri (n qp : V3 ℝ) (Ts : List (Tri ℝ)) :
    Cx.sum ((Ts.flatMap triEdges).map (bfTerm n qp)) =
      Cx.sum (Ts.map fun T => Cx.sum ((triEdges T).map (bfTerm n qp))) := by
  induction Ts with
  | nil => rfl
  | cons T Ts ih =>
    simp only [List.flatMap_cons, List.map_append, Cx.sum_append, List.map_cons, Cx.sum_cons, ih]

/-- **additivity**: if the polygon's edge cycle equals, as a 1-chain, the sum of the boundaries of the
triangles `Ts` (interior edges cancel in pairs), the boundary form of the polygon is the sum of the
boundary forms of the triangles. -/
theorem boundaryForm_triangulation (vs : List (V3 ℝ)) (n qp : V3 ℝ) (Ts : List (Tri ℝ))
    (h : EdgeChainEq (Spec.cyclicPairs vs) (Ts.flatMap triEdges)) :
    Spec.boundaryForm vs n qp = Cx.sum (Ts.map fun T => Spec.boundaryForm [T.a, T.b, T.c] n qp) := by
  rw [boundaryForm_eq, sum_bfTerm_chain n qp h, sum_flatMap_tri]
  have : (fun T : Tri ℝ => Spec.boundaryForm [T.a, T.b, T.c] n qp) =
      fun T => Cx.mul (Cx.sdiv Cx.I (V3.dot qp qp)) (Cx.sum ((triEdges T).map (bfTerm n qp))) := by
    funext T
    rw [boundaryForm_eq, cyclicPairs_tri]; rfl
  rw [this, sum_map_mul_left]

theorem fan_chain (v0 : V3 ℝ) : ∀ (a : V3 ℝ) (l : List (V3 ℝ)),
    EdgeChainEq ((v0, a) :: Spec.cyclicPairs.go v0 a l) ((fanTris v0 (a :: l)).flatMap triEdges)
  | a, [] => by
    simp only [Spec.cyclicPairs.go, fanTris, List.flatMap_nil]
    exact EdgeChainEq.cancel v0 a []
  | a, b :: l => by
    have ih := fan_chain v0 b l
    simp only [Spec.cyclicPairs.go, fanTris, List.flatMap_cons, triEdges]
    -- [(v0,a),(a,b),(b,v0)] ++ fan ≡ [(v0,a),(a,b),(b,v0)] ++ (v0,b) :: go  ≡ (v0,a) :: (a,b) :: go
    refine EdgeChainEq.symm (EdgeChainEq.trans
      (EdgeChainEq.append_left [(v0, a), (a, b), (b, v0)] ih.symm) ?_)
    intro φ hφ
    simp only [sumEdges, List.cons_append, List.nil_append, List.map_cons, List.sum_cons, hφ b v0]
    ring

/-- the edge cycle of EVERY vertex list is, as a 1-chain, the boundary of its triangle fan -/
theorem cyclicPairs_fan (v0 : V3 ℝ) (rest : List (V3 ℝ)) :
    EdgeChainEq (Spec.cyclicPairs (v0 :: rest)) ((fanTris v0 rest).flatMap triEdges) := by
  cases rest with
  | nil =>
    intro φ hφ
    simp [Spec.cyclicPairs, Spec.cyclicPairs.go, fanTris, sumEdges, hφ.self_zero]
  | cons a l =>
    exact fan_chain v0 a l

/-- **fan additivity, every vertex list** -/
theorem boundaryForm_fan (v0 : V3 ℝ) (rest : List (V3 ℝ)) (n qp : V3 ℝ) :
    Spec.boundaryForm (v0 :: rest) n qp =
      Cx.sum ((fanTris v0 rest).map fun T => Spec.boundaryForm [T.a, T.b, T.c] n qp) :=
  boundaryForm_triangulation _ n qp _ (cyclicPairs_fan v0 rest)

/-- Σ over a triangle list of `signed double area × iterated Fourier integral` -/
def trisFT (Ts : List (Tri ℝ)) (n qp : V3 ℝ) : ℂ :=
  (Ts.map fun T => (tri2 T.a T.b T.c n : ℂ) * triFT T.a T.b T.c qp).sum

theorem toC_sum_boundaryForm_tris (Ts : List (Tri ℝ)) (n qp : V3 ℝ)
    (hq : V3.dot qp n = 0) (hQ : V3.dot qp qp ≠ 0) :
    toC (Cx.sum (Ts.map fun T => Spec.boundaryForm [T.a, T.b, T.c] n qp)) = trisFT Ts n qp := by
  rw [toC_sum, List.map_map]
  unfold trisFT
  congr 1
  apply List.map_congr_left
  intro T _
  exact triangle_boundary_form T.a T.b T.c n qp hq hQ

/-- the fan's signed double areas add up to the specification's `fanArea2` -/
theorem fanArea2_eq_sum (v0 : V3 ℝ) (rest : List (V3 ℝ)) (n : V3 ℝ) :
    Spec.fanArea2 (v0 :: rest) n = ((fanTris v0 rest).map fun T => tri2 T.a T.b T.c n).sum := by
  have hz : ∀ a : V3 ℝ, V3.dot (V3.cross (a - v0) (v0 - v0)) n = 0 := by
    intro a; obtain ⟨ax, ay, az⟩ := a; obtain ⟨x, y, z⟩ := v0; simp [V3.dot, V3.cross]
  have hz' : ∀ a : V3 ℝ, V3.dot (V3.cross (v0 - v0) (a - v0)) n = 0 := by
    intro a; obtain ⟨ax, ay, az⟩ := a; obtain ⟨x, y, z⟩ := v0; simp [V3.dot, V3.cross]
  have go : ∀ (a : V3 ℝ) (l : List (V3 ℝ)),
      ((Spec.cyclicPairs.go v0 a l).map fun p => V3.dot (V3.cross (p.1 - v0) (p.2 - v0)) n).sum =
        ((fanTris v0 (a :: l)).map fun T => tri2 T.a T.b T.c n).sum := by
    intro a l
    induction l generalizing a with
    | nil => simp [Spec.cyclicPairs.go, fanTris, hz]
    | cons b l ih =>
      simp only [Spec.cyclicPairs.go, fanTris, List.map_cons, List.sum_cons, ih b]
      rfl
  unfold Spec.fanArea2
  simp only [Scalar.sum_real]
  cases rest with
  | nil => simp [Spec.cyclicPairs, Spec.cyclicPairs.go, fanTris, hz]
  | cons a l =>
    simp only [Spec.cyclicPairs, Spec.cyclicPairs.go, List.map_cons, List.sum_cons, hz', zero_add]
    exact go a l

end
end FF

/-! ### soundness of the computable triangulation certificate `FF.triangulationCheck` -/
namespace FF
noncomputable section
open CCk

theorem sumEdges_map_swap {φ : Edge → ℝ} (hφ : OddEdge φ) (B : List Edge) :
    sumEdges φ (B.map Prod.swap) = -sumEdges φ B := by
  induction B with
  | nil => simp [sumEdges]
  | cons e B ih =>
    obtain ⟨p, q⟩ := e
    simp only [sumEdges, List.map_cons, List.sum_cons, Prod.swap] at ih ⊢
    rw [ih, hφ p q]; ring

theorem edgeChainEq_of_sub_nil {A B : List Edge} (h : EdgeChainEq (A ++ B.map Prod.swap) []) :
    EdgeChainEq A B := by
  intro φ hφ
  have := h φ hφ
  rw [sumEdges_append, sumEdges_map_swap hφ] at this
  simp only [sumEdges, List.map_nil, List.sum_nil] at this ⊢
  linarith

theorem edgesOf_map_gen {α : Type} [Scalar α] (f : V3 α → V3 ℝ) (vs : List (V3 α)) :
    (edgesOf vs).map (edgeTo f) = edgesOf (vs.map f) := by
  unfold edgesOf
  rw [roll1_map, List.zip_map]
  rfl

/-- **soundness of the triangulation certificate** (generic scalar with a sound `eqb`, transported to `ℝ`) -/
theorem triangulationCheck_sound_gen {α : Type} [Scalar α]
    (heq : ∀ a b : α, Scalar.eqb a b = true → a = b) (f : V3 α → V3 ℝ)
    (vs : List (V3 α)) (Ts : List (Tri α)) (h : triangulationCheck vs Ts = true) :
    EdgeChainEq (Spec.cyclicPairs (vs.map f)) ((Ts.map (triTo f)).flatMap triEdges) := by
  unfold triangulationCheck at h
  have h1 := cancelEdges_sound heq f _ _ h
  rw [List.map_append, edgesOf_map_gen, ← cyclicPairs_eq_edgesOf] at h1
  have e : ((Ts.flatMap triEdgesOf).map Prod.swap).map (edgeTo f) =
      ((Ts.map (triTo f)).flatMap triEdges).map Prod.swap := by
    rw [← flatMap_edgesOf_triTo f Ts, List.map_map, List.map_map]
    rfl
  rw [e] at h1
  exact edgeChainEq_of_sub_nil h1

/-- the driver's instance: exact rationals (what the doubles of the implementation are) -/
theorem triangulationCheck_sound_rat (vs : List (V3 ℚ)) (Ts : List (Tri ℚ))
    (h : triangulationCheck vs Ts = true) :
    EdgeChainEq (Spec.cyclicPairs (vs.map v3OfRat)) ((Ts.map triOfRat).flatMap triEdges) :=
  triangulationCheck_sound_gen eqb_rat_sound v3OfRat vs Ts h

theorem triangulationCheck_sound_real (vs : List (V3 ℝ)) (Ts : List (Tri ℝ))
    (h : triangulationCheck vs Ts = true) :
    EdgeChainEq (Spec.cyclicPairs vs) (Ts.flatMap triEdges) := by
  have := triangulationCheck_sound_gen eqb_real_sound id vs Ts h
  simpa [triTo_id] using this

end
end FF
