import CoxeterVerif.Lemmas.Solid
import CoxeterVerif.Model.Inside3D
import CoxeterVerif.Spec.Inside3D
import Mathlib.Tactic.Positivity
/-!
  Helper lemmas for C05: algebra of explicit convex combinations (`Spec.In3D.comb`, `MemHull`),
  sign calculus of the winding code, list lemmas for the batch forms.
-/
open Scalar
set_option maxRecDepth 4000
noncomputable section

namespace Inside3D
open Spec.In3D

/-! ### convex combinations -/

theorem comb_nil_left (V : List (V3 ℝ)) : comb ([] : List ℝ) V = V3.zero := by
  cases V <;> rfl

theorem comb_nil_right (ws : List ℝ) : comb ws ([] : List (V3 ℝ)) = V3.zero := by
  cases ws <;> rfl

theorem comb_cons (w : ℝ) (ws : List ℝ) (v : V3 ℝ) (V : List (V3 ℝ)) :
    comb (w :: ws) (v :: V) = V3.smul w v + comb ws V := rfl

/-- weights summing to `s` (sub-convex combination) -/
def SubHull (V : List (V3 ℝ)) (s : ℝ) (p : V3 ℝ) : Prop :=
  ∃ ws : List ℝ, ws.length = V.length ∧ (∀ w ∈ ws, 0 ≤ w) ∧ ws.sum = s ∧ comb ws V = p

theorem memHull_iff_subHull (V : List (V3 ℝ)) (p : V3 ℝ) : MemHull V p ↔ SubHull V 1 p := by
  unfold MemHull SubHull IsWeights
  simp only [Scalar.lit, Scalar.ofNat_real, Scalar.sum_real, Nat.cast_zero, Nat.cast_one]
  constructor
  · rintro ⟨ws, h1, ⟨h2, h3⟩, h4⟩; exact ⟨ws, h1, h2, h3, h4⟩
  · rintro ⟨ws, h1, h2, h3, h4⟩; exact ⟨ws, h1, ⟨h2, h3⟩, h4⟩

theorem comb_replicate_zero (V : List (V3 ℝ)) : comb (List.replicate V.length (0 : ℝ)) V = V3.zero := by
  induction V with
  | nil => rfl
  | cons v V ih =>
    simp only [List.length_cons, List.replicate_succ, comb_cons, ih]
    ext <;> simp

theorem subHull_zero (V : List (V3 ℝ)) : SubHull V 0 V3.zero :=
  ⟨List.replicate V.length 0, by simp, by simp, by simp, comb_replicate_zero V⟩

theorem comb_map_mul (u : ℝ) : ∀ (ws : List ℝ) (V : List (V3 ℝ)),
    comb (ws.map (u * ·)) V = V3.smul u (comb ws V)
  | [], V => by simp only [List.map_nil, comb_nil_left]; ext <;> simp
  | w :: ws, [] => by simp only [List.map_cons, comb_nil_right]; ext <;> simp
  | w :: ws, v :: V => by
    simp only [List.map_cons, comb_cons, comb_map_mul u ws V]
    ext <;> simp <;> ring

theorem comb_zipWith_add : ∀ (ws us : List ℝ) (V : List (V3 ℝ)),
    ws.length = V.length → us.length = V.length →
    comb (List.zipWith (· + ·) ws us) V = comb ws V + comb us V
  | [], [], [], _, _ => by simp only [List.zipWith_nil_left, comb_nil_left]; ext <;> simp
  | w :: ws, u :: us, v :: V, h1, h2 => by
    simp only [List.length_cons, Nat.add_right_cancel_iff] at h1 h2
    simp only [List.zipWith_cons_cons, comb_cons, comb_zipWith_add ws us V h1 h2]
    ext <;> simp <;> ring
  | [], _ :: _, [], _, h2 => by simp at h2
  | [], _, _ :: _, h1, _ => by simp at h1
  | _ :: _, _, [], h1, _ => by simp at h1
  | _ :: _, [], _ :: _, _, h2 => by simp at h2

theorem sum_zipWith_add : ∀ (ws us : List ℝ), ws.length = us.length →
    (List.zipWith (· + ·) ws us).sum = ws.sum + us.sum
  | [], [], _ => by simp
  | w :: ws, u :: us, h => by
    simp only [List.length_cons, Nat.add_right_cancel_iff] at h
    simp only [List.zipWith_cons_cons, List.sum_cons, sum_zipWith_add ws us h]; ring
  | [], _ :: _, h => by simp at h
  | _ :: _, [], h => by simp at h

theorem subHull_add {V : List (V3 ℝ)} {s t : ℝ} {p q : V3 ℝ}
    (hp : SubHull V s p) (hq : SubHull V t q) : SubHull V (s + t) (p + q) := by
  obtain ⟨ws, h1, h2, h3, h4⟩ := hp
  obtain ⟨us, g1, g2, g3, g4⟩ := hq
  refine ⟨List.zipWith (· + ·) ws us, ?_, ?_, ?_, ?_⟩
  · simp [h1, g1]
  · intro x hx
    obtain ⟨i, hi, rfl⟩ := List.getElem_of_mem hx
    simp only [List.getElem_zipWith]
    have hi' := hi
    simp only [List.length_zipWith] at hi'
    exact add_nonneg (h2 _ (List.getElem_mem _)) (g2 _ (List.getElem_mem _))
  · rw [sum_zipWith_add ws us (h1.trans g1.symm), h3, g3]
  · rw [comb_zipWith_add ws us V h1 g1, h4, g4]

theorem subHull_smul {V : List (V3 ℝ)} {s : ℝ} {p : V3 ℝ} (u : ℝ) (hu : 0 ≤ u)
    (hp : SubHull V s p) : SubHull V (u * s) (V3.smul u p) := by
  obtain ⟨ws, h1, h2, h3, h4⟩ := hp
  refine ⟨ws.map (u * ·), by simp [h1], ?_, ?_, ?_⟩
  · intro x hx
    obtain ⟨w, hw, rfl⟩ := List.mem_map.mp hx
    exact mul_nonneg hu (h2 w hw)
  · rw [← h3]; clear h1 h2 h3 h4
    induction ws with
    | nil => simp
    | cons a l ih => simp only [List.map_cons, List.sum_cons, ih]; ring
  · rw [comb_map_mul, h4]

/-- every listed vertex is in the hull (indicator weights) -/
theorem memHull_of_mem {V : List (V3 ℝ)} {v : V3 ℝ} (hv : v ∈ V) : MemHull V v := by
  rw [memHull_iff_subHull]
  induction V with
  | nil => simp at hv
  | cons a V ih =>
    rcases List.mem_cons.mp hv with rfl | h
    · refine ⟨1 :: List.replicate V.length 0, by simp, ?_, by simp, ?_⟩
      · intro w hw
        rcases List.mem_cons.mp hw with rfl | hw
        · norm_num
        · rw [List.eq_of_mem_replicate hw]
      · rw [comb_cons, comb_replicate_zero]; ext <;> simp
    · obtain ⟨ws, h1, h2, h3, h4⟩ := ih h
      refine ⟨0 :: ws, by simp [h1], ?_, by simp [h3], ?_⟩
      · intro w hw
        rcases List.mem_cons.mp hw with rfl | hw
        · exact le_refl _
        · exact h2 w hw
      · rw [comb_cons, h4]; ext <;> simp

/-- **the hull is convex**: a convex combination of hull points is a hull point -/
theorem subHull_comb {V : List (V3 ℝ)} : ∀ (us : List ℝ) (qs : List (V3 ℝ)),
    us.length = qs.length → (∀ u ∈ us, 0 ≤ u) → (∀ q ∈ qs, MemHull V q) →
    SubHull V us.sum (comb us qs)
  | [], [], _, _, _ => subHull_zero V
  | u :: us, q :: qs, h, hu, hq => by
    simp only [List.length_cons, Nat.add_right_cancel_iff] at h
    have ih := subHull_comb us qs h (fun x hx => hu x (List.mem_cons_of_mem _ hx))
      (fun x hx => hq x (List.mem_cons_of_mem _ hx))
    have h0 := subHull_smul u (hu u List.mem_cons_self)
      ((memHull_iff_subHull V q).mp (hq q List.mem_cons_self))
    have := subHull_add h0 ih
    simpa [comb_cons, List.sum_cons] using this
  | [], _ :: _, h, _, _ => by simp at h
  | _ :: _, [], h, _, _ => by simp at h

theorem memHull_comb {V : List (V3 ℝ)} (us : List ℝ) (qs : List (V3 ℝ))
    (h : us.length = qs.length) (hu : ∀ u ∈ us, 0 ≤ u) (hs : us.sum = 1)
    (hq : ∀ q ∈ qs, MemHull V q) : MemHull V (comb us qs) := by
  rw [memHull_iff_subHull, ← hs]; exact subHull_comb us qs h hu hq

/-- a point of the segment between two listed vertices is in the hull -/
theorem memHull_segment {V : List (V3 ℝ)} {s e : V3 ℝ} (hs : s ∈ V) (he : e ∈ V) (lam : ℝ)
    (h0 : 0 ≤ lam) (h1 : lam ≤ 1) :
    MemHull V (V3.smul (1 - lam) s + V3.smul lam e) := by
  have := memHull_comb (V := V) [1 - lam, lam] [s, e] rfl
    (by intro u hu; simp only [List.mem_cons, List.not_mem_nil, or_false] at hu
        rcases hu with rfl | rfl <;> linarith)
    (by simp) (by intro q hq; simp only [List.mem_cons, List.not_mem_nil, or_false] at hq
                  rcases hq with rfl | rfl
                  · exact memHull_of_mem hs
                  · exact memHull_of_mem he)
  have e2 : comb [1 - lam, lam] [s, e] = V3.smul (1 - lam) s + V3.smul lam e := by
    simp only [comb_cons, comb_nil_left]; ext <;> simp
  rwa [e2] at this

/-! ### affine functionals on convex combinations -/

/-- `n·(Σ wᵢ vᵢ) + d = Σ wᵢ (n·vᵢ + d) + (1 − Σ w)·d` -/
theorem planeDist_comb (e : Plane ℝ) : ∀ (ws : List ℝ) (V : List (V3 ℝ)), ws.length = V.length →
    CP.planeDist e (comb ws V) =
      (List.zipWith (fun w v => w * CP.planeDist e v) ws V).sum + (1 - ws.sum) * e.d
  | [], [], _ => by
    simp only [comb_nil_left, List.zipWith_nil_left, List.sum_nil, CP.planeDist, V3.dot]
    simp
  | w :: ws, v :: V, h => by
    simp only [List.length_cons, Nat.add_right_cancel_iff] at h
    have ih := planeDist_comb e ws V h
    simp only [comb_cons, List.zipWith_cons_cons, List.sum_cons]
    simp only [CP.planeDist, V3.dot, V3.add_x, V3.add_y, V3.add_z, V3.smul_x, V3.smul_y, V3.smul_z] at ih ⊢
    linarith [ih]
  | [], _ :: _, h => by simp at h
  | _ :: _, [], h => by simp at h

theorem sum_zipWith_nonpos (f : V3 ℝ → ℝ) : ∀ (ws : List ℝ) (V : List (V3 ℝ)),
    (∀ w ∈ ws, 0 ≤ w) → (∀ v ∈ V, f v ≤ 0) → (List.zipWith (fun w v => w * f v) ws V).sum ≤ 0
  | [], _, _, _ => by simp
  | _ :: _, [], _, _ => by simp
  | w :: ws, v :: V, hw, hv => by
    simp only [List.zipWith_cons_cons, List.sum_cons]
    have := sum_zipWith_nonpos f ws V (fun x hx => hw x (List.mem_cons_of_mem _ hx))
      (fun x hx => hv x (List.mem_cons_of_mem _ hx))
    have h1 := hw w List.mem_cons_self
    have h2 := hv v List.mem_cons_self
    nlinarith [mul_nonneg h1 (neg_nonneg.mpr h2)]

theorem sum_zipWith_le (f : V3 ℝ → ℝ) (c : ℝ) : ∀ (ws : List ℝ) (V : List (V3 ℝ)),
    ws.length = V.length → (∀ w ∈ ws, 0 ≤ w) → (∀ v ∈ V, f v ≤ c) →
    (List.zipWith (fun w v => w * f v) ws V).sum ≤ ws.sum * c
  | [], [], _, _, _ => by simp
  | w :: ws, v :: V, h, hw, hv => by
    simp only [List.length_cons, Nat.add_right_cancel_iff] at h
    simp only [List.zipWith_cons_cons, List.sum_cons]
    have := sum_zipWith_le f c ws V h (fun x hx => hw x (List.mem_cons_of_mem _ hx))
      (fun x hx => hv x (List.mem_cons_of_mem _ hx))
    have h1 := hw w List.mem_cons_self
    have h2 := hv v List.mem_cons_self
    nlinarith [mul_le_mul_of_nonneg_left h2 h1]
  | [], _ :: _, h, _, _ => by simp at h
  | _ :: _, [], h, _, _ => by simp at h

/-! ### sign calculus of the winding code -/

theorem sgn_neg (x : ℝ) : sgn (-x) = -sgn x := by
  unfold sgn
  simp only [Scalar.lit, Scalar.ofNat_real, Nat.cast_zero, Left.neg_neg_iff, Left.neg_pos_iff]
  split_ifs <;> first | rfl | (exfalso; linarith)

theorem signOr_neg (a b c : Int) : Poly.signOr (-a) (-b) (-c) = -Poly.signOr a b c := by
  unfold Poly.signOr
  simp only [ne_eq, neg_eq_zero]
  split_ifs <;> rfl

theorem mask_comm (s t : Int) : Poly.mask s t = Poly.mask t s := by
  unfold Poly.mask
  by_cases h : s = t
  · subst h; rfl
  · have h' : t ≠ s := fun e => h e.symm
    simp [h, h']

theorem edgeSign_swap (di dj : V3 ℝ) :
    Poly.edgeSign (Poly.computeCross dj di) = -Poly.edgeSign (Poly.computeCross di dj) := by
  unfold Poly.edgeSign Poly.computeCross
  simp only
  rw [← signOr_neg, ← sgn_neg, ← sgn_neg, ← sgn_neg]
  congr 2 <;> ring

/-- the per-triangle term as a function of the three difference vectors -/
def contribD (d0 d1 d2 : V3 ℝ) : Int :=
  let fb := Poly.mask (Poly.vertexSign d0) (Poly.vertexSign d1) * Poly.edgeSign (Poly.computeCross d0 d1)
    + Poly.mask (Poly.vertexSign d1) (Poly.vertexSign d2) * Poly.edgeSign (Poly.computeCross d1 d2)
    + Poly.mask (Poly.vertexSign d2) (Poly.vertexSign d0) * Poly.edgeSign (Poly.computeCross d2 d0)
  if fb ≠ 0 then
    sgn (-(Poly.computeCross d0 d1).1 * d2.z - (Poly.computeCross d1 d2).1 * d0.z
      - (Poly.computeCross d2 d0).1 * d1.z)
  else 0

theorem contribution_eq (p : V3 ℝ) (t : Tri ℝ) :
    Poly.contribution p t = contribD (t.a - p) (t.b - p) (t.c - p) := rfl

theorem contribD_rot (d0 d1 d2 : V3 ℝ) : contribD d1 d2 d0 = contribD d0 d1 d2 := by
  unfold contribD
  simp only
  have hfb : Poly.mask (Poly.vertexSign d1) (Poly.vertexSign d2) * Poly.edgeSign (Poly.computeCross d1 d2)
      + Poly.mask (Poly.vertexSign d2) (Poly.vertexSign d0) * Poly.edgeSign (Poly.computeCross d2 d0)
      + Poly.mask (Poly.vertexSign d0) (Poly.vertexSign d1) * Poly.edgeSign (Poly.computeCross d0 d1)
      = Poly.mask (Poly.vertexSign d0) (Poly.vertexSign d1) * Poly.edgeSign (Poly.computeCross d0 d1)
      + Poly.mask (Poly.vertexSign d1) (Poly.vertexSign d2) * Poly.edgeSign (Poly.computeCross d1 d2)
      + Poly.mask (Poly.vertexSign d2) (Poly.vertexSign d0) * Poly.edgeSign (Poly.computeCross d2 d0) := by ring
  have hts : -(Poly.computeCross d1 d2).1 * d0.z - (Poly.computeCross d2 d0).1 * d1.z
      - (Poly.computeCross d0 d1).1 * d2.z
      = -(Poly.computeCross d0 d1).1 * d2.z - (Poly.computeCross d1 d2).1 * d0.z
      - (Poly.computeCross d2 d0).1 * d1.z := by ring
  rw [hfb, hts]

theorem contribD_rev (d0 d1 d2 : V3 ℝ) : contribD d2 d1 d0 = -contribD d0 d1 d2 := by
  unfold contribD
  simp only
  have hfb : Poly.mask (Poly.vertexSign d2) (Poly.vertexSign d1) * Poly.edgeSign (Poly.computeCross d2 d1)
      + Poly.mask (Poly.vertexSign d1) (Poly.vertexSign d0) * Poly.edgeSign (Poly.computeCross d1 d0)
      + Poly.mask (Poly.vertexSign d0) (Poly.vertexSign d2) * Poly.edgeSign (Poly.computeCross d0 d2)
      = -(Poly.mask (Poly.vertexSign d0) (Poly.vertexSign d1) * Poly.edgeSign (Poly.computeCross d0 d1)
      + Poly.mask (Poly.vertexSign d1) (Poly.vertexSign d2) * Poly.edgeSign (Poly.computeCross d1 d2)
      + Poly.mask (Poly.vertexSign d2) (Poly.vertexSign d0) * Poly.edgeSign (Poly.computeCross d2 d0)) := by
    rw [edgeSign_swap d1 d2, edgeSign_swap d0 d1, edgeSign_swap d2 d0,
      mask_comm (Poly.vertexSign d2) (Poly.vertexSign d1), mask_comm (Poly.vertexSign d1) (Poly.vertexSign d0),
      mask_comm (Poly.vertexSign d0) (Poly.vertexSign d2)]
    ring
  have hts : -(Poly.computeCross d2 d1).1 * d0.z - (Poly.computeCross d1 d0).1 * d2.z
      - (Poly.computeCross d0 d2).1 * d1.z
      = -(-(Poly.computeCross d0 d1).1 * d2.z - (Poly.computeCross d1 d2).1 * d0.z
      - (Poly.computeCross d2 d0).1 * d1.z) := by
    unfold Poly.computeCross; simp only; ring
  rw [hfb, hts, sgn_neg]
  simp only [ne_eq, neg_eq_zero]
  split_ifs <;> simp

/-- the per-triangle term of the winding code, as a real functional (for the chain framework) -/
def windPhi (p : V3 ℝ) (t : Tri ℝ) : ℝ := ((Poly.contribution p t : Int) : ℝ)

theorem windPhi_oddCyclic (p : V3 ℝ) : OddCyclic (windPhi p) := by
  constructor
  · intro t; unfold windPhi; rw [contribution_eq, contribution_eq]
    simp only [Tri.rot]; rw [contribD_rot]
  · intro t; unfold windPhi; rw [contribution_eq, contribution_eq]
    simp only [Tri.rev]; rw [contribD_rev]; push_cast; ring

theorem windingSum_eq_sumOver (S : List (Tri ℝ)) (p : V3 ℝ) :
    ((Poly.windingSum S p : Int) : ℝ) = sumOver (windPhi p) S := by
  unfold Poly.windingSum sumOver windPhi
  induction S with
  | nil => simp
  | cons t S ih =>
    simp only [List.map_cons, List.sum_cons, Int.cast_add]
    rw [ih]

/-! ### list lemmas for the batch forms -/

theorem zipWith_add_map {β : Type} (f g : β → Int) (l : List β) :
    List.zipWith (· + ·) (l.map f) (l.map g) = l.map fun x => f x + g x := by
  induction l with
  | nil => rfl
  | cons a l ih => simp only [List.map_cons, List.zipWith_cons_cons, ih]

theorem columnSums_eq {β γ : Type} (f : γ → β → Int) (es : List γ) (pts : List β) :
    columnSums (es.map fun e => pts.map fun p => f e p) pts.length =
      pts.map fun p => (es.map fun e => f e p).sum := by
  unfold columnSums
  induction es with
  | nil =>
    simp only [List.map_nil, List.foldr_nil, List.sum_nil]
    induction pts with
    | nil => rfl
    | cons a l ih => simp only [List.length_cons, List.replicate_succ, List.map_cons, ih]
  | cons e es ih =>
    simp only [List.map_cons, List.foldr_cons, List.sum_cons]
    rw [ih, zipWith_add_map]

theorem spheroLoop_eq (r : ℝ) (p : V3 ℝ) :
    ∀ (l : List (Bool × List (Plane ℝ) × List (V3 ℝ))) (acc : Bool),
      Sphero.spheroLoop r p l acc = (acc || l.any fun c => c.1 && Sphero.checkFace r c.2.1 c.2.2 p)
  | [], acc => by simp [Sphero.spheroLoop]
  | (cand, prism, fp) :: rest, acc => by
    simp only [Sphero.spheroLoop, List.any_cons]
    rw [spheroLoop_eq r p rest]
    cases acc <;> cases cand <;> simp

theorem zipWith_or_map {β : Type} (f g : β → Bool) (l : List β) :
    List.zipWith (fun a b => a || b) (l.map f) (l.map g) = l.map fun x => f x || g x := by
  induction l with
  | nil => rfl
  | cons a l ih => simp only [List.map_cons, List.zipWith_cons_cons, ih]

theorem zip_map_right {β γ : Type} (g : β → γ) (l : List β) :
    l.zip (l.map g) = l.map fun x => (x, g x) := by
  induction l with
  | nil => rfl
  | cons a l ih => simp only [List.map_cons, List.zip_cons_cons, ih]

/-! ### generic-position meaning of the per-triangle term -/


theorem sgn_pos' {x : ℝ} (h : 0 < x) : sgn x = 1 := by
  unfold sgn; simp only [Scalar.lit, Scalar.ofNat_real, Nat.cast_zero]
  rw [if_neg (not_lt.mpr h.le), if_pos h]
theorem sgn_neg' {x : ℝ} (h : x < 0) : sgn x = -1 := by
  unfold sgn; simp only [Scalar.lit, Scalar.ofNat_real, Nat.cast_zero]
  rw [if_pos h]
theorem sgn_zero' : sgn (0:ℝ) = 0 := by
  unfold sgn; simp

theorem sgn_cases {x : ℝ} (h : x ≠ 0) : (sgn x = 1 ∧ 0 < x) ∨ (sgn x = -1 ∧ x < 0) := by
  rcases lt_or_gt_of_ne h with h | h
  · right; exact ⟨sgn_neg' h, h⟩
  · left; exact ⟨sgn_pos' h, h⟩

/-- the finite sign table behind the winding code: with vertex classes `σᵢ = ±1`, edge classes
`sᵢⱼ = ±1` (signs of the planar cross products) that are not excluded by the identity
`x₂c₀₁ + x₀c₁₂ + x₁c₂₀ = 0`, the face-boundary count is non-zero exactly when the three planar
cross products have one sign -/
theorem fb_table (σ0 σ1 σ2 s01 s12 s20 : Int)
    (h0 : σ0 = 1 ∨ σ0 = -1) (h1 : σ1 = 1 ∨ σ1 = -1) (h2 : σ2 = 1 ∨ σ2 = -1)
    (g0 : s01 = 1 ∨ s01 = -1) (g1 : s12 = 1 ∨ s12 = -1) (g2 : s20 = 1 ∨ s20 = -1)
    (hid : ¬ (σ2 * s01 = σ0 * s12 ∧ σ0 * s12 = σ1 * s20)) :
    (Poly.mask σ0 σ1 * (-s01) + Poly.mask σ1 σ2 * (-s12) + Poly.mask σ2 σ0 * (-s20) ≠ 0)
      ↔ (s01 = s12 ∧ s12 = s20) := by
  rcases h0 with rfl | rfl <;> rcases h1 with rfl | rfl <;> rcases h2 with rfl | rfl <;>
  rcases g0 with rfl | rfl <;> rcases g1 with rfl | rfl <;> rcases g2 with rfl | rfl <;>
  simp [Poly.mask] at hid ⊢


theorem sgn_eq_one_iff {x : ℝ} : sgn x = 1 ↔ 0 < x := by
  constructor
  · intro h
    rcases lt_trichotomy x 0 with hx | hx | hx
    · rw [sgn_neg' hx] at h; exact absurd h (by decide)
    · rw [hx, sgn_zero'] at h; exact absurd h (by decide)
    · exact hx
  · exact sgn_pos'

theorem sgn_eq_neg_one_iff {x : ℝ} : sgn x = -1 ↔ x < 0 := by
  constructor
  · intro h
    rcases lt_trichotomy x 0 with hx | hx | hx
    · exact hx
    · rw [hx, sgn_zero'] at h; exact absurd h (by decide)
    · rw [sgn_pos' hx] at h; exact absurd h (by decide)
  · exact sgn_neg'

theorem sgn_mul (a b : ℝ) : sgn (a * b) = sgn a * sgn b := by
  rcases lt_trichotomy a 0 with ha | ha | ha <;> rcases lt_trichotomy b 0 with hb | hb | hb
  · rw [sgn_neg' ha, sgn_neg' hb, sgn_pos' (mul_pos_of_neg_of_neg ha hb)]; rfl
  · rw [hb, mul_zero, sgn_zero', mul_zero]
  · rw [sgn_neg' ha, sgn_pos' hb, sgn_neg' (mul_neg_of_neg_of_pos ha hb)]; rfl
  · rw [ha, zero_mul, sgn_zero', zero_mul]
  · rw [ha, zero_mul, sgn_zero', zero_mul]
  · rw [ha, zero_mul, sgn_zero', zero_mul]
  · rw [sgn_pos' ha, sgn_neg' hb, sgn_neg' (mul_neg_of_pos_of_neg ha hb)]; rfl
  · rw [hb, mul_zero, sgn_zero', mul_zero]
  · rw [sgn_pos' ha, sgn_pos' hb, sgn_pos' (mul_pos ha hb)]; rfl

theorem sgn_pm {x : ℝ} (h : x ≠ 0) : sgn x = 1 ∨ sgn x = -1 := by
  rcases sgn_cases h with h | h
  · exact Or.inl h.1
  · exact Or.inr h.1

/-- planar cross product of the projections to the `xy` plane -/
def c2 (u v : V3 ℝ) : ℝ := u.x * v.y - u.y * v.x

theorem vertexSign_generic (d : V3 ℝ) (h : d.x ≠ 0) : Poly.vertexSign d = sgn d.x := by
  unfold Poly.vertexSign Poly.signOr
  rcases sgn_pm h with e | e <;> rw [e] <;> rfl

theorem edgeSign_generic (di dj : V3 ℝ) (h : c2 di dj ≠ 0) :
    Poly.edgeSign (Poly.computeCross di dj) = -sgn (c2 di dj) := by
  unfold Poly.edgeSign Poly.computeCross Poly.signOr
  simp only
  have e : di.y * dj.x - di.x * dj.y = -(c2 di dj) := by unfold c2; ring
  rw [e, sgn_neg]
  rcases sgn_pm h with e' | e' <;> rw [e'] <;> rfl

/-- **geometric meaning of the per-triangle term (generic position).** When no vertex shares its
`x` coordinate with the query point and no edge's projection passes through it, the term is the
orientation sign of the triangle as seen from the point if the vertical line through the point
pierces the triangle (same-side test on the three planar cross products), and 0 otherwise. -/
theorem contribD_generic (d0 d1 d2 : V3 ℝ)
    (hx0 : d0.x ≠ 0) (hx1 : d1.x ≠ 0) (hx2 : d2.x ≠ 0)
    (h01 : c2 d0 d1 ≠ 0) (h12 : c2 d1 d2 ≠ 0) (h20 : c2 d2 d0 ≠ 0) :
    contribD d0 d1 d2 =
      if (0 < c2 d0 d1 ∧ 0 < c2 d1 d2 ∧ 0 < c2 d2 d0) ∨ (c2 d0 d1 < 0 ∧ c2 d1 d2 < 0 ∧ c2 d2 d0 < 0)
      then sgn (V3.det3 d0 d1 d2) else 0 := by
  unfold contribD
  simp only
  rw [vertexSign_generic d0 hx0, vertexSign_generic d1 hx1, vertexSign_generic d2 hx2,
    edgeSign_generic d0 d1 h01, edgeSign_generic d1 d2 h12, edgeSign_generic d2 d0 h20]
  have hdet : -(Poly.computeCross d0 d1).1 * d2.z - (Poly.computeCross d1 d2).1 * d0.z
      - (Poly.computeCross d2 d0).1 * d1.z = V3.det3 d0 d1 d2 := by
    unfold Poly.computeCross V3.det3 V3.dot V3.cross; simp only; ring
  rw [hdet]
  -- the identity that excludes the impossible sign patterns
  have hid : ¬ (sgn d2.x * sgn (c2 d0 d1) = sgn d0.x * sgn (c2 d1 d2) ∧
      sgn d0.x * sgn (c2 d1 d2) = sgn d1.x * sgn (c2 d2 d0)) := by
    rintro ⟨e1, e2⟩
    rw [← sgn_mul, ← sgn_mul] at e1 e2
    have hsum : d2.x * c2 d0 d1 + d0.x * c2 d1 d2 + d1.x * c2 d2 d0 = 0 := by unfold c2; ring
    rcases sgn_pm (mul_ne_zero hx2 h01) with k | k
    · have a := sgn_eq_one_iff.mp k
      have b := sgn_eq_one_iff.mp (e1 ▸ k)
      have c := sgn_eq_one_iff.mp (e2 ▸ e1 ▸ k)
      linarith
    · have a := sgn_eq_neg_one_iff.mp k
      have b := sgn_eq_neg_one_iff.mp (e1 ▸ k)
      have c := sgn_eq_neg_one_iff.mp (e2 ▸ e1 ▸ k)
      linarith
  have tab := fb_table (sgn d0.x) (sgn d1.x) (sgn d2.x) (sgn (c2 d0 d1)) (sgn (c2 d1 d2)) (sgn (c2 d2 d0))
    (sgn_pm hx0) (sgn_pm hx1) (sgn_pm hx2) (sgn_pm h01) (sgn_pm h12) (sgn_pm h20) hid
  have hcond : (sgn (c2 d0 d1) = sgn (c2 d1 d2) ∧ sgn (c2 d1 d2) = sgn (c2 d2 d0)) ↔
      ((0 < c2 d0 d1 ∧ 0 < c2 d1 d2 ∧ 0 < c2 d2 d0) ∨ (c2 d0 d1 < 0 ∧ c2 d1 d2 < 0 ∧ c2 d2 d0 < 0)) := by
    rcases sgn_cases h01 with ⟨e1, p1⟩ | ⟨e1, p1⟩ <;> rcases sgn_cases h12 with ⟨e2, p2⟩ | ⟨e2, p2⟩ <;>
      rcases sgn_cases h20 with ⟨e3, p3⟩ | ⟨e3, p3⟩ <;> rw [e1, e2, e3] <;>
      constructor <;> intro h <;>
      first
        | exact Or.inl ⟨p1, p2, p3⟩
        | exact Or.inr ⟨p1, p2, p3⟩
        | exact ⟨rfl, rfl⟩
        | (exfalso; revert h; decide)
        | (exfalso; rcases h with ⟨q1, q2, q3⟩ | ⟨q1, q2, q3⟩ <;> linarith)
  by_cases hc : (0 < c2 d0 d1 ∧ 0 < c2 d1 d2 ∧ 0 < c2 d2 d0) ∨ (c2 d0 d1 < 0 ∧ c2 d1 d2 < 0 ∧ c2 d2 d0 < 0)
  · rw [if_pos hc, if_pos (tab.mpr (hcond.mpr hc))]
  · rw [if_neg hc, if_neg (fun h => hc (hcond.mp (tab.mp h)))]


/-! ### helpers moved out of Props/C05 -/

theorem mem_roll {β : Type} {x : β} {l : List β} (h : x ∈ roll l) : x ∈ l := by
  cases l with
  | nil => simpa [roll] using h
  | cons a l =>
    simp only [roll, List.mem_append, List.mem_singleton] at h
    rcases h with h | h
    · exact List.mem_cons_of_mem _ h
    · rw [h]; exact List.mem_cons_self

theorem maxOf_ge : ∀ (l : List ℝ) (x : ℝ), x ∈ l → x ≤ maxOf l
  | [], x, h => by simp at h
  | a :: l, x, h => by
    unfold maxOf
    have key : ∀ (l : List ℝ) (m : ℝ), m ≤ l.foldl Scalar.max m ∧ ∀ y ∈ l, y ≤ l.foldl Scalar.max m := by
      intro l
      induction l with
      | nil => intro m; simp
      | cons b l ih =>
        intro m
        simp only [List.foldl_cons]
        have hm : m ≤ Scalar.max m b ∧ b ≤ Scalar.max m b := by
          unfold Scalar.max; split_ifs with hlt
          · exact ⟨hlt.le, le_refl _⟩
          · exact ⟨le_refl _, not_lt.mp hlt⟩
        obtain ⟨i1, i2⟩ := ih (Scalar.max m b)
        refine ⟨hm.1.trans i1, ?_⟩
        intro y hy
        rcases List.mem_cons.mp hy with rfl | hy
        · exact hm.2.trans i1
        · exact i2 y hy
    rcases List.mem_cons.mp h with rfl | h
    · exact (key l x).1
    · exact (key l a).2 x h

/-- `(p − q)·(Σ wᵢ vᵢ − q) = Σ wᵢ (p − q)·(vᵢ − q)` for weights summing to one -/
theorem dot_comb_sub (u q : V3 ℝ) : ∀ (ws : List ℝ) (V : List (V3 ℝ)), ws.length = V.length →
    V3.dot u (comb ws V - q) =
      (List.zipWith (fun w v => w * V3.dot u (v - q)) ws V).sum - (1 - ws.sum) * V3.dot u q
  | [], [], _ => by
    simp only [comb_nil_left, List.zipWith_nil_left, List.sum_nil, V3.dot, V3.sub_x, V3.sub_y, V3.sub_z,
      V3.zero_x, V3.zero_y, V3.zero_z]; ring
  | w :: ws, v :: V, h => by
    simp only [List.length_cons, Nat.add_right_cancel_iff] at h
    have ih := dot_comb_sub u q ws V h
    simp only [comb_cons, List.zipWith_cons_cons, List.sum_cons]
    simp only [V3.dot, V3.sub_x, V3.sub_y, V3.sub_z, V3.add_x, V3.add_y, V3.add_z, V3.smul_x, V3.smul_y,
      V3.smul_z] at ih ⊢
    linarith [ih]
  | [], _ :: _, h => by simp at h
  | _ :: _, [], h => by simp at h

theorem sum_ite_count (Ts : List (Tet ℝ)) (p : V3 ℝ) :
    (Ts.map fun T => (2 : Int) * (if inTet T p = true then 1 else 0)).sum = 2 * (countTets Ts p : Int) := by
  unfold countTets
  induction Ts with
  | nil => simp
  | cons T Ts ih =>
    simp only [List.map_cons, List.sum_cons, ih, List.filter_cons]
    split_ifs <;> simp <;> ring


theorem comb_append : ∀ (ws1 ws2 : List ℝ) (V1 V2 : List (V3 ℝ)), ws1.length = V1.length →
    comb (ws1 ++ ws2) (V1 ++ V2) = comb ws1 V1 + comb ws2 V2
  | [], ws2, [], V2, _ => by simp only [List.nil_append, comb_nil_left]; ext <;> simp
  | w :: ws1, ws2, v :: V1, V2, h => by
    simp only [List.length_cons, Nat.add_right_cancel_iff] at h
    simp only [List.cons_append, comb_cons, comb_append ws1 ws2 V1 V2 h]
    ext <;> simp <;> ring
  | [], _, _ :: _, _, h => by simp at h
  | _ :: _, _, [], _, h => by simp at h

theorem comb_map_add (c : V3 ℝ) : ∀ (ws : List ℝ) (V : List (V3 ℝ)), ws.length = V.length →
    comb ws (V.map fun v => v + c) = comb ws V + V3.smul ws.sum c
  | [], [], _ => by simp only [List.map_nil, comb_nil_left, List.sum_nil]; ext <;> simp
  | w :: ws, v :: V, h => by
    simp only [List.length_cons, Nat.add_right_cancel_iff] at h
    simp only [List.map_cons, comb_cons, comb_map_add c ws V h, List.sum_cons]
    ext <;> simp <;> ring
  | [], _ :: _, h => by simp at h
  | _ :: _, [], h => by simp at h

theorem sum_nonneg_of_forall {l : List ℝ} (h : ∀ w ∈ l, 0 ≤ w) : 0 ≤ l.sum := by
  induction l with
  | nil => simp
  | cons a l ih =>
    simp only [List.sum_cons]
    exact add_nonneg (h a List.mem_cons_self) (ih fun w hw => h w (List.mem_cons_of_mem _ hw))

end Inside3D
end
