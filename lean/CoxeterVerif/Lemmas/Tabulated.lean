import CoxeterVerif.Spec.Textbook
import Mathlib.Tactic.Ring
/-!
  Helper lemmas of C18: what the kernel-friendly primitives of `Spec/Textbook.lean` mean, the
  dictionary lemmas behind the family model, and `namesNodup ↔ List.Nodup`.
-/
namespace Tab

/-! ### primitives -/

theorem forceInt_eq {β : Type} (x : Int) (k : Int → β) : forceInt x k = k x := by
  unfold forceInt
  cases x with
  | ofNat n => cases n <;> rfl
  | negSucc n => cases n <;> rfl

theorem isNonpos_iff (a : Int) : isNonpos a = true ↔ a ≤ 0 := by
  cases a with
  | ofNat n =>
    simp only [isNonpos]
    constructor
    · intro h
      have := Nat.eq_of_beq_eq_true h
      subst this; exact Int.le_refl 0
    · intro h
      have h' : (n : Int) ≤ 0 := h
      have : n = 0 := by omega
      subst this; rfl
  | negSucc n =>
    simp only [isNonpos, true_iff]
    exact Int.le_of_lt (Int.negSucc_lt_zero n)

theorem intLe_iff (a b : Int) : intLe a b = true ↔ a ≤ b := by
  unfold intLe
  rw [isNonpos_iff]
  show a - b ≤ 0 ↔ a ≤ b
  omega

theorem intLt_iff (a b : Int) : intLt a b = true ↔ a < b := by
  unfold intLt
  rw [Bool.not_eq_true', ← Bool.not_eq_true, isNonpos_iff]
  show ¬ (b - a ≤ 0) ↔ a < b
  omega

theorem intAbs_eq (a : Int) : intAbs a = |a| := by
  cases a with
  | ofNat n =>
    show ((n : Int)) = |(n : Int)|
    exact (abs_of_nonneg (Int.natCast_nonneg n)).symm
  | negSucc n =>
    simp only [intAbs]
    rw [abs_of_neg (Int.negSucc_lt_zero n)]
    rfl

/-- meaning of `nearSq`: `|b − a|·10⁹ ≤ 2a` -/
theorem nearSq_iff (a b : Int) : nearSq a b = true ↔ |b - a| * 1000000000 ≤ 2 * a := by
  unfold nearSq
  rw [intLe_iff, intAbs_eq]
  rfl

/-! ### the plane tests: the forced, pre-multiplied form is the plain vector form -/

theorem plane_expand (n p0 v : P3) :
    n.x * v.x + n.y * v.y + n.z * v.z - (n.x * p0.x + n.y * p0.y + n.z * p0.z) = n.dot (v.sub p0) := by
  simp only [P3.dot, P3.sub]; ring

theorem normSq_expand (n : P3) : n.x * n.x + n.y * n.y + n.z * n.z = n.normSq := rfl

theorem belowPlane_eq (n p0 v : P3) :
    belowPlane n.x n.y n.z (n.x * p0.x + n.y * p0.y + n.z * p0.z) (unit18 * n.normSq) v
      = (decide (n.dot (v.sub p0) ≤ 0)
          || decide (n.dot (v.sub p0) * n.dot (v.sub p0) ≤ unit18 * n.normSq)) := by
  unfold belowPlane
  rw [forceInt_eq]
  show (isNonpos (n.x * v.x + n.y * v.y + n.z * v.z - (n.x * p0.x + n.y * p0.y + n.z * p0.z))
      || intLe ((n.x * v.x + n.y * v.y + n.z * v.z - (n.x * p0.x + n.y * p0.y + n.z * p0.z))
          * (n.x * v.x + n.y * v.y + n.z * v.z - (n.x * p0.x + n.y * p0.y + n.z * p0.z))) (unit18 * n.normSq)) = _
  rw [plane_expand]
  rw [Bool.eq_iff_iff]
  simp only [Bool.or_eq_true, isNonpos_iff, intLe_iff, decide_eq_true_eq]

theorem onPlane_eq (n p0 v : P3) :
    onPlane n.x n.y n.z (n.x * p0.x + n.y * p0.y + n.z * p0.z) (unit18 * n.normSq) v
      = decide (n.dot (v.sub p0) * n.dot (v.sub p0) ≤ unit18 * n.normSq) := by
  unfold onPlane
  rw [forceInt_eq]
  show intLe ((n.x * v.x + n.y * v.y + n.z * v.z - (n.x * p0.x + n.y * p0.y + n.z * p0.z))
          * (n.x * v.x + n.y * v.y + n.z * v.z - (n.x * p0.x + n.y * p0.y + n.z * p0.z))) (unit18 * n.normSq) = _
  rw [plane_expand]
  rw [Bool.eq_iff_iff]
  simp only [intLe_iff, decide_eq_true_eq]

/-- the kernel-friendly convexity certificate IS the plain one -/
theorem convexOk_eq_ref (e : Entry) : convexOk e = convexOkRef e := by
  unfold convexOk convexOkRef
  congr 1
  funext f
  cases facePts e f with
  | nil => rfl
  | cons p0 rest =>
    simp only [forceInt_eq]
    have h1 : (e.verts.all (belowPlane (newell (p0 :: rest)).x (newell (p0 :: rest)).y (newell (p0 :: rest)).z
          ((newell (p0 :: rest)).x * p0.x + (newell (p0 :: rest)).y * p0.y + (newell (p0 :: rest)).z * p0.z)
          (unit18 * ((newell (p0 :: rest)).x * (newell (p0 :: rest)).x + (newell (p0 :: rest)).y * (newell (p0 :: rest)).y
            + (newell (p0 :: rest)).z * (newell (p0 :: rest)).z))))
        = e.verts.all (fun v =>
            decide ((newell (p0 :: rest)).dot (v.sub p0) ≤ 0)
              || decide ((newell (p0 :: rest)).dot (v.sub p0) * (newell (p0 :: rest)).dot (v.sub p0)
                  ≤ unit18 * (newell (p0 :: rest)).normSq)) := by
      congr 1; funext v; rw [normSq_expand, belowPlane_eq]
    have h2 : (rest.all (onPlane (newell (p0 :: rest)).x (newell (p0 :: rest)).y (newell (p0 :: rest)).z
          ((newell (p0 :: rest)).x * p0.x + (newell (p0 :: rest)).y * p0.y + (newell (p0 :: rest)).z * p0.z)
          (unit18 * ((newell (p0 :: rest)).x * (newell (p0 :: rest)).x + (newell (p0 :: rest)).y * (newell (p0 :: rest)).y
            + (newell (p0 :: rest)).z * (newell (p0 :: rest)).z))))
        = rest.all (fun v =>
            decide ((newell (p0 :: rest)).dot (v.sub p0) * (newell (p0 :: rest)).dot (v.sub p0)
                  ≤ unit18 * (newell (p0 :: rest)).normSq)) := by
      congr 1; funext v; rw [normSq_expand, onPlane_eq]
    rw [h1, h2, normSq_expand]
    congr 2
    rw [Bool.eq_iff_iff, intLt_iff, decide_eq_true_eq]

/-! ### dictionaries -/

theorem dictGet_of_not_mem {β : Type} (d : List (String × β)) (key : String)
    (h : key ∉ d.map Prod.fst) : dictGet d key = .error "KeyError" := by
  induction d with
  | nil => rfl
  | cons kv rest ih =>
    obtain ⟨k, v⟩ := kv
    simp only [List.map_cons, List.mem_cons, not_or] at h
    have hk : ¬ k = key := fun hh => h.1 hh.symm
    simp only [dictGet, hk, if_false]
    exact ih h.2

theorem dictGet_of_mem {β : Type} (d : List (String × β)) (hn : (d.map Prod.fst).Nodup)
    (k : String) (v : β) (h : (k, v) ∈ d) : dictGet d k = .ok v := by
  induction d with
  | nil => cases h
  | cons kv rest ih =>
    obtain ⟨k', v'⟩ := kv
    simp only [List.map_cons, List.nodup_cons] at hn
    rcases List.mem_cons.mp h with h | h
    · cases h
      simp [dictGet]
    · have hne : ¬ k' = k := by
        intro hh; subst hh
        exact hn.1 (List.mem_map.mpr ⟨(k', v), h, rfl⟩)
      simp only [dictGet, hne, if_false]
      exact ih hn.2 h

theorem dictGet_isOk_of_mem {β : Type} (d : List (String × β)) (key : String)
    (h : key ∈ d.map Prod.fst) : ∃ v, dictGet d key = .ok v ∧ (key, v) ∈ d := by
  induction d with
  | nil => cases h
  | cons kv rest ih =>
    obtain ⟨k, v⟩ := kv
    by_cases hk : k = key
    · subst hk
      exact ⟨v, by simp [dictGet], List.mem_cons_self⟩
    · simp only [List.map_cons, List.mem_cons] at h
      rcases h with h | h
      · exact absurd h.symm hk
      · obtain ⟨w, hw, hm⟩ := ih h
        exact ⟨w, by simp only [dictGet, hk, if_false]; exact hw, List.mem_cons_of_mem _ hm⟩

/-! ### `namesNodup` -/

theorem namesNodup_iff (l : List String) : namesNodup l = true ↔ l.Nodup := by
  induction l with
  | nil => simp [namesNodup]
  | cons a t ih =>
    simp only [namesNodup, Bool.and_eq_true, Bool.not_eq_true', List.nodup_cons, ih]
    constructor
    · rintro ⟨h1, h2⟩
      refine ⟨?_, h2⟩
      intro hm
      have : t.any (· == a) = true := List.any_eq_true.mpr ⟨a, hm, by simp⟩
      rw [h1] at this; cases this
    · rintro ⟨h1, h2⟩
      refine ⟨?_, h2⟩
      rw [Bool.eq_false_iff]
      intro hany
      obtain ⟨x, hx, hxa⟩ := List.any_eq_true.mp hany
      have : x = a := by simpa using hxa
      subst this
      exact h1 hx

end Tab
