import CoxeterVerif.Lemmas.PolytriFan
import CoxeterVerif.Lemmas.PlanarTilted
import CoxeterVerif.Lemmas.PlanarFrame
import CoxeterVerif.Lemmas.Solid
/-!
  C02 (deepening): the volume formula `Σ (−d_i) A_i / 3` from the faces themselves.

  A face is given by its vertex cycle `vs` (as `_find_equations` / `get_face_area` see it), the vertex
  order `vs'` that `ConvexPolygon._reorder_verts` leaves, and a triangulation `T` (the ear clipping's
  output).  The hypotheses are sign/equality conditions on rational expressions of the coordinates:

  * the face is planar, stated with the FIRST CORNER's own cross product `cc` (`cc · v = cc · v₀`);
  * the first corner is not reflex: `cc · areaVector vs > 0`;
  * `vs'` is a cyclic rotation of `vs`; `T` bounds `vs` (chain) and its vertices lie in the plane.

  Then `(−d) · A = v₀ · areaVector` … `= Σ_T det(a,b,c) / 2`, hence the face's term of the volume formula
  is the signed volume of the cones over its triangles (`face_volume_term`).  When the first corner IS
  reflex the stored normal is the opposite one and the term changes sign (`face_volume_term_reflex`).
-/
open Scalar
set_option maxRecDepth 4000
noncomputable section

namespace Poly3

theorem faceEq_eq (vs : List (V3 ℝ)) :
    faceEq vs = (V3.sdiv (cornerCross vs) (V3.norm (cornerCross vs)),
      -(V3.dot (V3.sdiv (cornerCross vs) (V3.norm (cornerCross vs))) (vs.getD 0 V3.zero))) := rfl

theorem norm_pos_of_dot_pos {c A : V3 ℝ} (h : V3.dot c A ≠ 0) : 0 < V3.norm c := by
  unfold V3.norm V3.normSq
  simp only [Scalar.sqrt_real]
  apply Real.sqrt_pos.mpr
  by_contra hn
  have h0 : V3.dot c c = 0 := le_antisymm (not_lt.mp hn) (by
    simp only [V3.dot]; nlinarith [mul_self_nonneg c.x, mul_self_nonneg c.y, mul_self_nonneg c.z])
  simp only [V3.dot] at h0 h
  have hx : c.x = 0 := by nlinarith [mul_self_nonneg c.x, mul_self_nonneg c.y, mul_self_nonneg c.z]
  have hy : c.y = 0 := by nlinarith [mul_self_nonneg c.x, mul_self_nonneg c.y, mul_self_nonneg c.z]
  have hz : c.z = 0 := by nlinarith [mul_self_nonneg c.x, mul_self_nonneg c.y, mul_self_nonneg c.z]
  apply h; rw [hx, hy, hz]; ring

theorem norm_mul_self (c : V3 ℝ) : V3.norm c * V3.norm c = V3.dot c c := by
  unfold V3.norm V3.normSq
  simp only [Scalar.sqrt_real]
  exact Real.mul_self_sqrt (by
    simp only [V3.dot]; nlinarith [mul_self_nonneg c.x, mul_self_nonneg c.y, mul_self_nonneg c.z])

theorem dot_sdiv (c v : V3 ℝ) (k : ℝ) : V3.dot (V3.sdiv c k) v = V3.dot c v / k := by
  simp only [V3.dot, V3.sdiv_x, V3.sdiv_y, V3.sdiv_z]; ring

theorem norm_unit {c : V3 ℝ} (h : 0 < V3.norm c) : V3.norm (V3.sdiv c (V3.norm c)) = 1 := by
  have hs := norm_mul_self c
  generalize V3.norm c = k at h hs
  have : V3.normSq (V3.sdiv c k) = 1 := by
    simp only [V3.normSq, V3.dot, V3.sdiv_x, V3.sdiv_y, V3.sdiv_z] at hs ⊢
    field_simp
    nlinarith [hs]
  unfold V3.norm; rw [this]; simp

theorem sum_map_div6 {β : Type} (g : β → ℝ) (l : List β) :
    (l.map fun t => g t / 6).sum = (l.map g).sum / 6 := by
  have := list_sum_map_mul (1 / 6) g l
  have e : (fun t => g t / 6) = fun t => 1 / 6 * g t := by funext t; ring
  rw [e, this]; ring

/-- one face as volume, area and the triangulation see it -/
structure FaceCert where
  /-- the face's vertices in the order of the `faces` entry -/
  vs : List (V3 ℝ)
  /-- the order `ConvexPolygon._reorder_verts` leaves -/
  vs' : List (V3 ℝ)
  /-- the triangles `polytri.triangulate` emits for the face -/
  T : List (Tri ℝ)
  /-- `len(ConvexHull(...).vertices)` inside `_is_convex` (external) -/
  hull : Nat := 0

/-- cross product of the first corner -/
def FaceCert.cc (f : FaceCert) : V3 ℝ := cornerCross f.vs
/-- first vertex -/
def FaceCert.v0 (f : FaceCert) : V3 ℝ := f.vs.getD 0 V3.zero

structure FaceCert.Valid (f : FaceCert) : Prop where
  plane : ∀ v ∈ f.vs, V3.dot f.cc v = V3.dot f.cc f.v0
  rot : f.vs' ~r f.vs
  tri : EdgeChainEq (cycleEdges f.vs) (f.T.flatMap triEdges)
  triPlane : ∀ t ∈ f.T, V3.dot f.cc t.a = V3.dot f.cc f.v0 ∧ V3.dot f.cc t.b = V3.dot f.cc f.v0 ∧
    V3.dot f.cc t.c = V3.dot f.cc f.v0

/-- unit normal stored for the face -/
def FaceCert.m (f : FaceCert) : V3 ℝ := (faceEq f.vs).1
/-- plane offset stored for the face -/
def FaceCert.d (f : FaceCert) : ℝ := (faceEq f.vs).2
/-- area `get_face_area` reports for the face -/
def FaceCert.A (f : FaceCert) : ℝ := Poly2.area f.vs' f.m

theorem dot_areaVector_rot {n : V3 ℝ} {l l' : List (V3 ℝ)} (h : l' ~r l) :
    V3.dot n (Spec3.areaVector l') = V3.dot n (Spec3.areaVector l) := by
  rw [dot_areaVector, dot_areaVector]
  apply cycleEdges_isRotated h
  intro p q
  obtain ⟨nx, ny, nz⟩ := n; obtain ⟨px, py, pz⟩ := p; obtain ⟨qx, qy, qz⟩ := q
  simp only [V3.dot, V3.cross]; ring

/-- for a planar face with non-degenerate first corner: `m` is a unit vector, the plane is
`m · v = −d`, and `A = |m · areaVector vs|` -/
theorem FaceCert.Valid.basics {f : FaceCert} (h : f.Valid) (hc : 0 < V3.norm f.cc) :
    V3.norm f.m = 1 ∧ (∀ v ∈ f.vs, V3.dot f.m v = -f.d) ∧
      f.A = |V3.dot f.m (Spec3.areaVector f.vs)| ∧
      V3.dot f.m (Spec3.areaVector f.vs) = V3.dot f.cc (Spec3.areaVector f.vs) / V3.norm f.cc := by
  have hm : f.m = V3.sdiv f.cc (V3.norm f.cc) := rfl
  have hd : f.d = -(V3.dot f.m f.v0) := rfl
  have hunit : V3.norm f.m = 1 := by rw [hm]; exact norm_unit hc
  have hpl : ∀ v ∈ f.vs, V3.dot f.m v = -f.d := by
    intro v hv
    rw [hd, neg_neg, hm, dot_sdiv, dot_sdiv, h.plane v hv]
  refine ⟨hunit, hpl, ?_, by rw [hm, dot_sdiv]⟩
  have hpl' : ∀ v ∈ f.vs', V3.dot f.m v = -f.d := fun v hv => hpl v (h.rot.mem_iff.mp hv)
  show Poly2.area f.vs' f.m = _
  unfold Poly2.area
  rw [signedArea_eq_dot_areaVector f.vs' f.m (-f.d) hpl' hunit, dot_areaVector_rot h.rot]
  rfl

/-- sum of the triangles' determinants: `Σ_T det(a,b,c) = 2 (m·v₀) (m · areaVector vs)` -/
theorem FaceCert.Valid.det_sum {f : FaceCert} (h : f.Valid) (hc : 0 < V3.norm f.cc) :
    (f.T.map fun t => V3.det3 t.a t.b t.c).sum
      = 2 * (-f.d) * V3.dot f.m (Spec3.areaVector f.vs) := by
  obtain ⟨hunit, hpl, _, _⟩ := h.basics hc
  have hm : f.m = V3.sdiv f.cc (V3.norm f.cc) := rfl
  have hd : f.d = -(V3.dot f.m f.v0) := rfl
  have hmm : V3.dot f.m f.m = 1 := normSq_of_norm_one hunit
  have htp : ∀ t ∈ f.T, V3.dot f.m t.a = -f.d ∧ V3.dot f.m t.b = -f.d ∧ V3.dot f.m t.c = -f.d := by
    intro t ht
    obtain ⟨ha, hb, hc'⟩ := h.triPlane t ht
    rw [hd, neg_neg, hm]
    simp only [dot_sdiv, ha, hb, hc', and_self]
  rw [dot_areaVector_tri f.m h.tri, Spec3.area_eq]
  have : ∀ t ∈ f.T, V3.det3 t.a t.b t.c = 2 * (-f.d) * Spec3.triArea f.m t := by
    intro t ht
    obtain ⟨ha, hb, hc'⟩ := htp t ht
    have hu : V3.dot f.m (t.b - t.a) = 0 := by
      simp only [V3.dot, V3.sub_x, V3.sub_y, V3.sub_z] at ha hb ⊢; linarith
    have hv : V3.dot f.m (t.c - t.a) = 0 := by
      simp only [V3.dot, V3.sub_x, V3.sub_y, V3.sub_z] at ha hc' ⊢; linarith
    have key := Polytri.planar_cross_dot f.m (t.b - t.a) (t.c - t.a) t.a hu hv
    rw [hmm, one_mul, ha] at key
    have hdet : V3.det3 t.a t.b t.c = V3.dot (V3.cross (t.b - t.a) (t.c - t.a)) t.a := by
      obtain ⟨⟨ax,ay,az⟩,⟨bx,b_y,bz⟩,⟨cx,cy,cz⟩⟩ := t
      simp only [V3.det3, V3.dot, V3.cross, V3.sub_x, V3.sub_y, V3.sub_z]; ring
    rw [hdet, key]
    simp only [Spec3.triArea, Scalar.lit, Scalar.ofNat_real]; push_cast; ring
  rw [List.map_congr_left this, list_sum_map_mul]

/-- **the face's term of the volume formula, first corner not reflex**:
`(−d) · A / 3 = Σ_T det(a,b,c) / 6` -/
theorem face_volume_term {f : FaceCert} (h : f.Valid)
    (hccw : 0 < V3.dot f.cc (Spec3.areaVector f.vs)) :
    (-f.d) * f.A / 3 = (f.T.map fun t => V3.det3 t.a t.b t.c / 6).sum := by
  have hc : 0 < V3.norm f.cc := norm_pos_of_dot_pos hccw.ne'
  obtain ⟨_, _, hA, hdot⟩ := h.basics hc
  have hpos : 0 < V3.dot f.m (Spec3.areaVector f.vs) := by rw [hdot]; exact div_pos hccw hc
  have hs := h.det_sum hc
  rw [hA, abs_of_pos hpos]
  rw [sum_map_div6, hs]; ring

/-- **reflex first corner**: the stored normal is the opposite of the polygon's, the area is the
same, and the face's term has the WRONG SIGN: `(−d) · A / 3 = − Σ_T det(a,b,c) / 6`. (In the Python
this is reachable only through `_equations`/`normals`: `get_face_area` rejects non-convex faces.) -/
theorem face_volume_term_reflex {f : FaceCert} (h : f.Valid)
    (hcw : V3.dot f.cc (Spec3.areaVector f.vs) < 0) :
    (-f.d) * f.A / 3 = -(f.T.map fun t => V3.det3 t.a t.b t.c / 6).sum := by
  have hc : 0 < V3.norm f.cc := norm_pos_of_dot_pos hcw.ne
  obtain ⟨_, _, hA, hdot⟩ := h.basics hc
  have hneg : V3.dot f.m (Spec3.areaVector f.vs) < 0 := by rw [hdot]; exact div_neg_of_neg_of_pos hcw hc
  have hs := h.det_sum hc
  rw [hA, abs_of_neg hneg]
  rw [sum_map_div6, hs]; ring

/-- `Σ (−d_i) A_i / 3` over faces that are planar with a non-reflex first corner is the signed volume
of the cones over all the triangles -/
theorem volume_faces (faces : List FaceCert) (hv : ∀ f ∈ faces, f.Valid)
    (hccw : ∀ f ∈ faces, 0 < V3.dot f.cc (Spec3.areaVector f.vs)) :
    Poly3.volume (faces.map fun f => (f.d, f.A)) = CP.signedVolume (faces.flatMap (·.T)) := by
  unfold Poly3.volume CP.signedVolume
  simp only [Scalar.sum_real, List.map_map, Scalar.lit, Scalar.ofNat_real]
  induction faces with
  | nil => simp
  | cons f fs ih =>
    have ih' := ih (fun g hg => hv g (List.mem_cons_of_mem _ hg))
      (fun g hg => hccw g (List.mem_cons_of_mem _ hg))
    have hf := face_volume_term (hv f List.mem_cons_self) (hccw f List.mem_cons_self)
    simp only [List.map_cons, List.sum_cons, List.flatMap_cons, List.map_append, List.sum_append,
      Function.comp] at ih' ⊢
    push_cast at ih' hf ⊢
    rw [← ih', ← hf]; ring

/-! ### the repaired coplanarity test (744f807) accepts every exactly planar face, wherever it is placed -/

theorem max_ge_left (a b : ℝ) : a ≤ Scalar.max a b := by
  unfold Scalar.max; split_ifs with h
  · exact h.le
  · exact le_refl _

theorem foldl_max_ge (f : V3 ℝ → ℝ) (l : List (V3 ℝ)) (m : ℝ) :
    m ≤ l.foldl (fun m v => Scalar.max m (f v)) m := by
  induction l generalizing m with
  | nil => exact le_refl _
  | cons a l ih => exact le_trans (max_ge_left m (f a)) (ih _)

theorem extent_nonneg (vs : List (V3 ℝ)) : 0 ≤ extent vs := by
  unfold extent
  simpa [Scalar.lit] using foldl_max_ge (fun v => V3.norm (v - vs.getD 0 V3.zero)) vs 0

/-- over the reals a face lying exactly in the plane through its first vertex passes the test for every
tolerance `≥ 0`, at every scale and position (the defect D2 was the absolute `atol` of `np.isclose`) -/
theorem coplanar_of_planar (n : V3 ℝ) (vs : List (V3 ℝ)) (ptol : ℝ) (hp : 0 ≤ ptol)
    (h : ∀ v ∈ vs, V3.dot (v - vs.getD 0 V3.zero) n = 0) : coplanar n vs ptol = true := by
  unfold coplanar
  simp only [List.all_eq_true, decide_eq_true_eq]
  intro v hv
  rw [h v hv]
  simpa using mul_nonneg hp (extent_nonneg vs)

/-! ### the object-level model functions on certified faces -/

/-- what the model's `get_face_area` loop is given for a certified face -/
def FaceCert.datum (f : FaceCert) : List (V3 ℝ) × Nat × List (V3 ℝ) := (f.vs, f.hull, f.vs')

/-- when the model's `get_face_area` does not raise, the value is `|signed_area|` of the reordered
vertices about the first corner's unit normal -/
theorem faceArea_ok {vs vs' : List (V3 ℝ)} {h : Nat} {a : ℝ} (hok : faceArea vs h vs' = .ok a) :
    a = Poly2.area vs' (faceEq vs).1 := by
  unfold faceArea at hok
  simp only [] at hok
  split_ifs at hok
  exact (Except.ok.inj hok).symm

theorem faceAreas_ok : ∀ {faces : List FaceCert} {areas : List ℝ},
    faceAreas (faces.map FaceCert.datum) = .ok areas → areas = faces.map FaceCert.A
  | [], areas, h => by simp only [List.map_nil, faceAreas] at h; exact (Except.ok.inj h).symm
  | f :: fs, areas, h => by
    simp only [List.map_cons, FaceCert.datum, faceAreas] at h
    split at h
    · cases h
    · rename_i a ha
      split at h
      · cases h
      · rename_i as has
        have := faceAreas_ok (faces := fs) (by simpa [FaceCert.datum] using has)
        have ha' := faceArea_ok ha
        rw [← Except.ok.inj h, this, ha']
        rfl

theorem surfaceTriangulation_ok : ∀ {faces : List FaceCert},
    (∀ f ∈ faces, Polytri.triangulate f.vs = .ok f.T) →
    surfaceTriangulation (faces.map (·.vs)) = .ok (faces.flatMap (·.T))
  | [], _ => rfl
  | f :: fs, h => by
    simp only [List.map_cons, surfaceTriangulation, h f List.mem_cons_self,
      surfaceTriangulation_ok (faces := fs) (fun g hg => h g (List.mem_cons_of_mem _ hg)),
      List.flatMap_cons]

theorem volumeOf_eq (faces : List FaceCert) :
    volumeOf (faces.map (·.vs)) (faces.map FaceCert.A) = volume (faces.map fun f => (f.d, f.A)) := by
  unfold volumeOf
  congr 1
  induction faces with
  | nil => rfl
  | cons f fs ih => simp only [List.map_cons, List.zipWith_cons_cons, ih]; rfl

end Poly3

end
