import CoxeterVerif.Lemmas.Inside3DHull
/-!
  C05, convex bodies — part 2: the geometric core (`windingSum_ge_two`, `memHull_of_inner_side`).
  See the header of `Inside3DHull.lean` for the plan of the proof.
-/
open Scalar
set_option maxRecDepth 4000
noncomputable section

namespace Inside3D
open Spec.In3D CCk

/-! ### barycentric coordinates: explicit weights -/

theorem orient_sum (o a b c p : V3 ℝ) :
    orient p a b c + orient o p b c + orient o a p c + orient o a b p = orient o a b c := by
  obtain ⟨ox, oy, oz⟩ := o; obtain ⟨ax, ay, az⟩ := a; obtain ⟨bx, b_y, bz⟩ := b
  obtain ⟨cx, cy, cz⟩ := c; obtain ⟨px, py, pz⟩ := p
  unfold orient V3.det3 V3.dot V3.cross
  simp only [V3.sub_x, V3.sub_y, V3.sub_z]; ring

/-- a point of a closed non-degenerate tetrahedron has explicit barycentric weights -/
theorem memHull_tet_of_inTet (T : Tet ℝ) (p : V3 ℝ) (h : inTet T p = true) :
    MemHull [T.a, T.b, T.c, T.d] p := by
  obtain ⟨⟨ax, ay, az⟩, ⟨bx, b_y, bz⟩, ⟨cx, cy, cz⟩, ⟨dx, dy, dz⟩⟩ := T
  obtain ⟨px, py, pz⟩ := p
  simp only [inTet, bary, List.all_cons, List.all_nil, Bool.and_true, Bool.or_eq_true,
    Bool.and_eq_true, decide_eq_true_iff, Scalar.lit, Scalar.ofNat_real, Nat.cast_zero] at h
  set D := orient (⟨ax, ay, az⟩ : V3 ℝ) ⟨bx, b_y, bz⟩ ⟨cx, cy, cz⟩ ⟨dx, dy, dz⟩ with hD
  set b0 := orient (⟨px, py, pz⟩ : V3 ℝ) ⟨bx, b_y, bz⟩ ⟨cx, cy, cz⟩ ⟨dx, dy, dz⟩ with hb0
  set b1 := orient (⟨ax, ay, az⟩ : V3 ℝ) ⟨px, py, pz⟩ ⟨cx, cy, cz⟩ ⟨dx, dy, dz⟩ with hb1
  set b2 := orient (⟨ax, ay, az⟩ : V3 ℝ) ⟨bx, b_y, bz⟩ ⟨px, py, pz⟩ ⟨dx, dy, dz⟩ with hb2
  set b3 := orient (⟨ax, ay, az⟩ : V3 ℝ) ⟨bx, b_y, bz⟩ ⟨cx, cy, cz⟩ ⟨px, py, pz⟩ with hb3
  have hsum : b0 + b1 + b2 + b3 = D := by
    simp only [hb0, hb1, hb2, hb3, hD, orient]; unfold_model; ring
  have hx : b0 * ax + b1 * bx + b2 * cx + b3 * dx = D * px := by
    simp only [hb0, hb1, hb2, hb3, hD, orient]; unfold_model; ring
  have hy : b0 * ay + b1 * b_y + b2 * cy + b3 * dy = D * py := by
    simp only [hb0, hb1, hb2, hb3, hD, orient]; unfold_model; ring
  have hz : b0 * az + b1 * bz + b2 * cz + b3 * dz = D * pz := by
    simp only [hb0, hb1, hb2, hb3, hD, orient]; unfold_model; ring
  have hD0 : D ≠ 0 := by rcases h with ⟨h, _⟩ | ⟨h, _⟩ <;> [exact h.ne'; exact h.ne]
  have hw : 0 ≤ b0 / D ∧ 0 ≤ b1 / D ∧ 0 ≤ b2 / D ∧ 0 ≤ b3 / D := by
    rcases h with ⟨hpos, h0, h1, h2, h3⟩ | ⟨hneg, h0, h1, h2, h3⟩
    · exact ⟨div_nonneg h0 hpos.le, div_nonneg h1 hpos.le, div_nonneg h2 hpos.le, div_nonneg h3 hpos.le⟩
    · exact ⟨div_nonneg_of_nonpos h0 hneg.le, div_nonneg_of_nonpos h1 hneg.le,
        div_nonneg_of_nonpos h2 hneg.le, div_nonneg_of_nonpos h3 hneg.le⟩
  refine ⟨[b0 / D, b1 / D, b2 / D, b3 / D], rfl, ⟨?_, ?_⟩, ?_⟩
  · intro w hw'
    simp only [List.mem_cons, List.not_mem_nil, or_false] at hw'
    simp only [Scalar.lit, Scalar.ofNat_real, Nat.cast_zero]
    rcases hw' with rfl | rfl | rfl | rfl
    exacts [hw.1, hw.2.1, hw.2.2.1, hw.2.2.2]
  · simp only [Scalar.sum_real, List.sum_cons, List.sum_nil, Scalar.lit, Scalar.ofNat_real, Nat.cast_one]
    field_simp; linarith
  · simp only [comb]
    ext <;> simp only [V3.add_x, V3.add_y, V3.add_z, V3.smul_x, V3.smul_y, V3.smul_z, V3.zero_x, V3.zero_y,
      V3.zero_z] <;> field_simp <;> linarith

/-! ### apex on a polynomial curve -/

/-- `X₀ + s X₁ + s² X₂ + s³ X₃` -/
def curve (X0 X1 X2 X3 : V3 ℝ) (s : ℝ) : V3 ℝ :=
  ⟨X0.x + s * X1.x + s * s * X2.x + s * s * s * X3.x,
   X0.y + s * X1.y + s * s * X2.y + s * s * s * X3.y,
   X0.z + s * X1.z + s * s * X2.z + s * s * s * X3.z⟩

theorem det3_curve1 (X0 X1 X2 X3 B C : V3 ℝ) (s : ℝ) : V3.det3 (curve X0 X1 X2 X3 s) B C =
    evalPoly [V3.det3 X0 B C, V3.det3 X1 B C, V3.det3 X2 B C, V3.det3 X3 B C] s := by
  unfold V3.det3 V3.dot V3.cross curve evalPoly evalPoly evalPoly evalPoly evalPoly; simp only; ring
theorem det3_curve2 (X0 X1 X2 X3 A C : V3 ℝ) (s : ℝ) : V3.det3 A (curve X0 X1 X2 X3 s) C =
    evalPoly [V3.det3 A X0 C, V3.det3 A X1 C, V3.det3 A X2 C, V3.det3 A X3 C] s := by
  unfold V3.det3 V3.dot V3.cross curve evalPoly evalPoly evalPoly evalPoly evalPoly; simp only; ring
theorem det3_curve3 (X0 X1 X2 X3 A B : V3 ℝ) (s : ℝ) : V3.det3 A B (curve X0 X1 X2 X3 s) =
    evalPoly [V3.det3 A B X0, V3.det3 A B X1, V3.det3 A B X2, V3.det3 A B X3] s := by
  unfold V3.det3 V3.dot V3.cross curve evalPoly evalPoly evalPoly evalPoly evalPoly; simp only; ring

theorem orient_apex0 (p a b c : V3 ℝ) : orient p a b c = V3.det3 (a - p) (b - p) (c - p) := rfl

theorem orient_apex1 (p x b c : V3 ℝ) : orient (p - x) p b c = V3.det3 x (b - p) (c - p) := by
  obtain ⟨px, py, pz⟩ := p; obtain ⟨xx, xy, xz⟩ := x; obtain ⟨bx, b_y, bz⟩ := b; obtain ⟨cx, cy, cz⟩ := c
  unfold orient V3.det3 V3.dot V3.cross
  simp only [V3.sub_x, V3.sub_y, V3.sub_z]; ring
theorem orient_apex2 (p x a c : V3 ℝ) : orient (p - x) a p c = V3.det3 (a - p) x (c - p) := by
  obtain ⟨px, py, pz⟩ := p; obtain ⟨xx, xy, xz⟩ := x; obtain ⟨ax, ay, az⟩ := a; obtain ⟨cx, cy, cz⟩ := c
  unfold orient V3.det3 V3.dot V3.cross
  simp only [V3.sub_x, V3.sub_y, V3.sub_z]; ring
theorem orient_apex3 (p x a b : V3 ℝ) : orient (p - x) a b p = V3.det3 (a - p) (b - p) x := by
  obtain ⟨px, py, pz⟩ := p; obtain ⟨xx, xy, xz⟩ := x; obtain ⟨ax, ay, az⟩ := a; obtain ⟨bx, b_y, bz⟩ := b
  unfold orient V3.det3 V3.dot V3.cross
  simp only [V3.sub_x, V3.sub_y, V3.sub_z]; ring

/-- the three face-plane polynomials of the cone tetrahedron over `t` -/
def apexPolys (p X0 X1 X2 X3 : V3 ℝ) (t : Tri ℝ) : List (List ℝ) :=
  [[V3.det3 X0 (t.b - p) (t.c - p), V3.det3 X1 (t.b - p) (t.c - p), V3.det3 X2 (t.b - p) (t.c - p),
      V3.det3 X3 (t.b - p) (t.c - p)],
   [V3.det3 (t.a - p) X0 (t.c - p), V3.det3 (t.a - p) X1 (t.c - p), V3.det3 (t.a - p) X2 (t.c - p),
      V3.det3 (t.a - p) X3 (t.c - p)],
   [V3.det3 (t.a - p) (t.b - p) X0, V3.det3 (t.a - p) (t.b - p) X1, V3.det3 (t.a - p) (t.b - p) X2,
      V3.det3 (t.a - p) (t.b - p) X3]]

theorem mem4_of_mem3_left {x a b c d : ℝ} (h : x ∈ [a, b, c]) : x ∈ [a, b, c, d] := by
  simp only [List.mem_cons, List.not_mem_nil, or_false] at h ⊢
  rcases h with h | h | h <;> simp [h]
theorem mem4_of_mem3_right {x a b c d : ℝ} (h : x ∈ [b, c, d]) : x ∈ [a, b, c, d] := by
  simp only [List.mem_cons, List.not_mem_nil, or_false] at h ⊢
  rcases h with h | h | h <;> simp [h]

/-- **generic apex.**  If `p` is on no triangle plane of `S` and the curve's coefficient vectors
span `ℝ³`, then for every small `s > 0` the point `p` is off all face planes of the cone over `S`
from the apex `p − curve s`. -/
theorem generic_apex (S : List (Tri ℝ)) (p : V3 ℝ) (hp : ∀ t ∈ S, orient p t.a t.b t.c ≠ 0)
    (X0 X1 X2 X3 : V3 ℝ) (hspan : V3.det3 X0 X1 X2 ≠ 0 ∨ V3.det3 X1 X2 X3 ≠ 0) :
    ∃ ε0 : ℝ, 0 < ε0 ∧ ∀ s, 0 < s → s ≤ ε0 →
      offPlanes (coneTets (p - curve X0 X1 X2 X3 s) S) p = true := by
  obtain ⟨ε0, h0, hk⟩ := polys_ne_zero_small (S.flatMap (apexPolys p X0 X1 X2 X3)) (by
    intro cs hcs
    obtain ⟨t, ht, hcs⟩ := List.mem_flatMap.mp hcs
    have hdet : V3.det3 (t.a - p) (t.b - p) (t.c - p) ≠ 0 := hp t ht
    simp only [apexPolys, List.mem_cons, List.not_mem_nil, or_false] at hcs
    rcases hspan with hs | hs
    · rcases hcs with rfl | rfl | rfl
      · obtain ⟨c, hc, hne⟩ := exists_ne_slot1 hs hdet; exact ⟨c, mem4_of_mem3_left hc, hne⟩
      · obtain ⟨c, hc, hne⟩ := exists_ne_slot2 hs hdet; exact ⟨c, mem4_of_mem3_left hc, hne⟩
      · obtain ⟨c, hc, hne⟩ := exists_ne_slot3 hs hdet; exact ⟨c, mem4_of_mem3_left hc, hne⟩
    · rcases hcs with rfl | rfl | rfl
      · obtain ⟨c, hc, hne⟩ := exists_ne_slot1 hs hdet; exact ⟨c, mem4_of_mem3_right hc, hne⟩
      · obtain ⟨c, hc, hne⟩ := exists_ne_slot2 hs hdet; exact ⟨c, mem4_of_mem3_right hc, hne⟩
      · obtain ⟨c, hc, hne⟩ := exists_ne_slot3 hs hdet; exact ⟨c, mem4_of_mem3_right hc, hne⟩)
  refine ⟨ε0, h0, fun s hs hle => ?_⟩
  rw [offPlanes_iff]
  intro T hT x hx
  obtain ⟨t, ht, rfl⟩ := List.mem_map.mp hT
  have hk' := hk s hs hle
  simp only [bary, List.mem_cons, List.not_mem_nil, or_false] at hx
  rcases hx with rfl | rfl | rfl | rfl
  · exact hp t ht
  · rw [orient_apex1, det3_curve1]
    exact hk' _ (List.mem_flatMap.mpr ⟨t, ht, by simp [apexPolys]⟩)
  · rw [orient_apex2, det3_curve2]
    exact hk' _ (List.mem_flatMap.mpr ⟨t, ht, by simp [apexPolys]⟩)
  · rw [orient_apex3, det3_curve3]
    exact hk' _ (List.mem_flatMap.mpr ⟨t, ht, by simp [apexPolys]⟩)

/-! ### all triangles seen with positive orientation -/

/-- one term of the signed count, for a triangle seen from `p` with positive orientation -/
theorem term_nonneg (o p a b c : V3 ℝ) (hp : 0 < orient p a b c) :
    (0 : Int) ≤ (if inTet ⟨o, a, b, c⟩ p = true then Spec.In3D.sign (orient o a b c) else 0) := by
  split_ifs with h
  · simp only [inTet, bary, List.all_cons, List.all_nil, Bool.and_true, Bool.or_eq_true,
      Bool.and_eq_true, decide_eq_true_iff, Scalar.lit, Scalar.ofNat_real, Nat.cast_zero] at h
    rcases h with ⟨hD, _⟩ | ⟨_, h0, _⟩
    · rw [sign_eq_sgn, sgn_pos' hD]; decide
    · exact absurd h0 (not_le.mpr hp)
  · exact le_refl _

theorem term_pos_inTet (o p a b c : V3 ℝ)
    (h : (0 : Int) < (if inTet ⟨o, a, b, c⟩ p = true then Spec.In3D.sign (orient o a b c) else 0)) :
    inTet ⟨o, a, b, c⟩ p = true := by
  by_contra hc
  rw [if_neg hc] at h
  exact absurd h (lt_irrefl _)

theorem signedCount_cone (o : V3 ℝ) (S : List (Tri ℝ)) (p : V3 ℝ) :
    signedCount (coneTets o S) p =
      (S.map fun t => if inTet ⟨o, t.a, t.b, t.c⟩ p = true then
        Spec.In3D.sign (orient o t.a t.b t.c) else 0).sum := by
  unfold signedCount coneTets
  rw [List.map_map]; rfl

/-- **Step 1.** A closed surface all of whose triangles are seen from `p` with positive
orientation winds round `p`: the model's winding sum is at least `2`. -/
theorem windingSum_ge_two {S : List (Tri ℝ)} (hcl : ClosedSurface S) {t0 : Tri ℝ} (ht0 : t0 ∈ S)
    (p : V3 ℝ) (hp : ∀ t ∈ S, 0 < orient p t.a t.b t.c) : 2 ≤ Poly.windingSum S p := by
  set U := t0.a - p with hU
  set V := t0.b - p with hV
  set W := t0.c - p with hW
  have hD0 : 0 < V3.det3 U V W := hp t0 ht0
  obtain ⟨ε0, h0, hk⟩ := generic_apex S p (fun t ht => (hp t ht).ne') U V W V3.zero (Or.inl hD0.ne')
  have hoff := hk ε0 h0 le_rfl
  set s := ε0
  set x := curve U V W V3.zero s with hx
  rw [windingSum_eq_signedCount (cone_closed' hcl (p - x)) p hoff, signedCount_cone]
  have hge := sum_ge_of_mem
    (fun t : Tri ℝ => if inTet ⟨p - x, t.a, t.b, t.c⟩ p = true then
      Spec.In3D.sign (orient (p - x) t.a t.b t.c) else 0) S
    (fun t ht => term_nonneg (p - x) p t.a t.b t.c (hp t ht)) ht0
  -- the term of `t0` is `+1`
  have b1 : orient (p - x) p t0.b t0.c = V3.det3 U V W := by
    rw [orient_apex1, hx]; unfold V3.det3 V3.dot V3.cross curve V3.zero
    simp only [Scalar.lit, Scalar.ofNat_real, Nat.cast_zero]; ring
  have b2 : orient (p - x) t0.a p t0.c = s * V3.det3 U V W := by
    rw [orient_apex2, hx]; unfold V3.det3 V3.dot V3.cross curve V3.zero
    simp only [Scalar.lit, Scalar.ofNat_real, Nat.cast_zero]; ring
  have b3 : orient (p - x) t0.a t0.b p = s * s * V3.det3 U V W := by
    rw [orient_apex3, hx]; unfold V3.det3 V3.dot V3.cross curve V3.zero
    simp only [Scalar.lit, Scalar.ofNat_real, Nat.cast_zero]; ring
  have b0 : orient p t0.a t0.b t0.c = V3.det3 U V W := rfl
  have hsum := orient_sum (p - x) t0.a t0.b t0.c p
  rw [b0, b1, b2, b3] at hsum
  have hsD : 0 < s * V3.det3 U V W := mul_pos h0 hD0
  have hssD : 0 < s * s * V3.det3 U V W := mul_pos (mul_pos h0 h0) hD0
  have hDpos : 0 < orient (p - x) t0.a t0.b t0.c := by linarith
  have hin : inTet ⟨p - x, t0.a, t0.b, t0.c⟩ p = true := by
    simp only [inTet, bary, List.all_cons, List.all_nil, Bool.and_true, Bool.or_eq_true,
      Bool.and_eq_true, decide_eq_true_iff, Scalar.lit, Scalar.ofNat_real, Nat.cast_zero]
    left
    rw [b0, b1, b2, b3]
    exact ⟨hDpos, hD0.le, hD0.le, hsD.le, hssD.le⟩
  simp only [hin, if_true] at hge
  rw [sign_eq_sgn, sgn_pos' hDpos] at hge
  linarith

/-- **Step 2 = the theorem.**  `S` closed, vertices in `V`, `o` a point of the hull off the plane
of some triangle of `S`; every point strictly on the inner side of all triangle planes is a convex
combination of `V`. -/
theorem memHull_of_inner_side (V : List (V3 ℝ)) {S : List (Tri ℝ)} (hcl : ClosedSurface S)
    (hV : ∀ t ∈ S, t.a ∈ V ∧ t.b ∈ V ∧ t.c ∈ V)
    (o : V3 ℝ) (ho : MemHull V o) {t1 : Tri ℝ} (ht1 : t1 ∈ S) (h1 : orient o t1.a t1.b t1.c ≠ 0)
    (p : V3 ℝ) (hp : ∀ t ∈ S, 0 < orient p t.a t.b t.c) : MemHull V p := by
  have hge := windingSum_ge_two hcl ht1 p hp
  -- apex curve inside the hull
  set X0 := p - o with hX0
  set X1 := o - t1.a with hX1
  set X2 := o - t1.b with hX2
  set X3 := o - t1.c with hX3
  have hspan : V3.det3 X1 X2 X3 ≠ 0 := by
    have e : V3.det3 X1 X2 X3 = -orient o t1.a t1.b t1.c := by
      obtain ⟨ox, oy, oz⟩ := o
      obtain ⟨⟨ax, ay, az⟩, ⟨bx, b_y, bz⟩, ⟨cx, cy, cz⟩⟩ := t1
      simp only [hX1, hX2, hX3]
      unfold orient V3.det3 V3.dot V3.cross
      simp only [V3.sub_x, V3.sub_y, V3.sub_z]; ring
    rw [e]; exact neg_ne_zero.mpr h1
  obtain ⟨ε0, h0, hk⟩ := generic_apex S p (fun t ht => (hp t ht).ne') X0 X1 X2 X3 (Or.inr hspan)
  set s := Min.min ε0 (1 / 2) with hs
  have hs0 : 0 < s := lt_min h0 (by norm_num)
  have hs1 : s ≤ 1 / 2 := min_le_right _ _
  have hoff := hk s hs0 (min_le_left _ _)
  set o2 := p - curve X0 X1 X2 X3 s with ho2
  rw [windingSum_eq_signedCount (cone_closed' hcl o2) p hoff, signedCount_cone] at hge
  obtain ⟨t, ht, hpos⟩ := exists_pos_of_sum_pos _ S (by linarith)
  have hin := term_pos_inTet o2 p t.a t.b t.c hpos
  obtain ⟨ws, hlen, ⟨hw, hsum⟩, hc⟩ := memHull_tet_of_inTet ⟨o2, t.a, t.b, t.c⟩ p hin
  simp only [Scalar.lit, Scalar.ofNat_real, Scalar.sum_real, Nat.cast_zero, Nat.cast_one] at hw hsum
  -- the apex is in the hull
  have ho2V : MemHull V o2 := by
    have hcomb : o2 = comb [1 - s - s * s - s * s * s, s, s * s, s * s * s] [o, t1.a, t1.b, t1.c] := by
      obtain ⟨ox, oy, oz⟩ := o; obtain ⟨px, py, pz⟩ := p
      obtain ⟨⟨ax, ay, az⟩, ⟨bx, b_y, bz⟩, ⟨cx, cy, cz⟩⟩ := t1
      simp only [ho2, hX0, hX1, hX2, hX3, curve, comb]
      ext <;> simp only [V3.sub_x, V3.sub_y, V3.sub_z, V3.add_x, V3.add_y, V3.add_z, V3.smul_x, V3.smul_y,
        V3.smul_z, V3.zero_x, V3.zero_y, V3.zero_z] <;> ring
    rw [hcomb]
    obtain ⟨ha, hb, hc'⟩ := hV t1 ht1
    apply memHull_comb _ _ rfl
    · intro u hu
      simp only [List.mem_cons, List.not_mem_nil, or_false] at hu
      have hss : 0 < s * s := mul_pos hs0 hs0
      have hsss : 0 < s * s * s := mul_pos hss hs0
      rcases hu with rfl | rfl | rfl | rfl
      · nlinarith
      · exact hs0.le
      · exact hss.le
      · exact hsss.le
    · simp only [List.sum_cons, List.sum_nil]; ring
    · intro q hq
      simp only [List.mem_cons, List.not_mem_nil, or_false] at hq
      rcases hq with rfl | rfl | rfl | rfl
      exacts [ho, memHull_of_mem ha, memHull_of_mem hb, memHull_of_mem hc']
  rw [← hc]
  obtain ⟨ha, hb, hc'⟩ := hV t ht
  refine memHull_comb ws [o2, t.a, t.b, t.c] hlen hw hsum ?_
  intro q hq
  simp only [List.mem_cons, List.not_mem_nil, or_false] at hq
  rcases hq with rfl | rfl | rfl | rfl
  exacts [ho2V, memHull_of_mem ha, memHull_of_mem hb, memHull_of_mem hc']

end Inside3D
end
