import CoxeterVerif.Lemmas.Basic
import CoxeterVerif.Spec.Codec
/-! Helper lemmas for C19: association-list dictionaries, `to_json`, key renaming, centring. -/
namespace C19
open Scalar

/-! ### dictionaries -/
section dict
variable {α : Type}

theorem Dict.has_iff (d : Dict α) (k : String) : Dict.has d k = true ↔ k ∈ Dict.keys d := by
  induction d with
  | nil => simp [Dict.has, Dict.keys]
  | cons e r ih =>
    obtain ⟨k', v⟩ := e
    by_cases h : k' = k
    · simp [Dict.has, Dict.keys, h]
    · have h' : ¬ k = k' := fun e => h e.symm
      simp only [Dict.keys] at ih
      simp [Dict.has, Dict.keys, h, h', ih]

theorem Dict.get?_isSome_iff (d : Dict α) (k : String) :
    (Dict.get? d k).isSome = true ↔ k ∈ Dict.keys d := by
  induction d with
  | nil => simp [Dict.get?, Dict.keys]
  | cons e r ih =>
    obtain ⟨k', v⟩ := e
    by_cases h : k' = k
    · simp [Dict.get?, Dict.keys, h]
    · have h' : ¬ k = k' := fun e => h e.symm
      simp only [Dict.keys] at ih
      simp [Dict.get?, Dict.keys, h, h', ih]

theorem Dict.get?_none_iff (d : Dict α) (k : String) :
    Dict.get? d k = none ↔ k ∉ Dict.keys d := by
  rw [← Dict.get?_isSome_iff]; cases Dict.get? d k <;> simp

theorem Dict.keys_set (d : Dict α) (k : String) (v : Val α) :
    Dict.keys (Dict.set d k v) = if k ∈ Dict.keys d then Dict.keys d else Dict.keys d ++ [k] := by
  induction d with
  | nil => simp [Dict.set, Dict.keys]
  | cons e r ih =>
    obtain ⟨k', v'⟩ := e
    by_cases h : k' = k
    · simp [Dict.set, Dict.keys, h]
    · have h' : ¬ k = k' := fun e => h e.symm
      simp only [Dict.keys] at ih
      by_cases hm : k ∈ List.map (·.1) r
      · simp [Dict.set, Dict.keys, h, h', ih, hm]
      · simp [Dict.set, Dict.keys, h, h', ih, hm]

theorem Dict.mem_keys_set (d : Dict α) (k : String) (v : Val α) (k' : String) :
    k' ∈ Dict.keys (Dict.set d k v) ↔ k' ∈ Dict.keys d ∨ k' = k := by
  rw [Dict.keys_set]
  by_cases hm : k ∈ Dict.keys d
  · simp only [hm, if_true]
    constructor
    · exact Or.inl
    · rintro (h | h)
      · exact h
      · exact h ▸ hm
  · simp [hm]

theorem Dict.nodup_keys_set (d : Dict α) (k : String) (v : Val α) (h : (Dict.keys d).Nodup) :
    (Dict.keys (Dict.set d k v)).Nodup := by
  rw [Dict.keys_set]
  by_cases hm : k ∈ Dict.keys d
  · simpa [hm] using h
  · simp only [hm, if_false]
    rw [List.nodup_append]
    refine ⟨h, by simp, ?_⟩
    intro a ha b hb
    simp only [List.mem_singleton] at hb
    intro e; exact hm (hb ▸ e ▸ ha)

theorem Dict.get?_set_self (d : Dict α) (k : String) (v : Val α) :
    Dict.get? (Dict.set d k v) k = some v := by
  induction d with
  | nil => simp [Dict.set, Dict.get?]
  | cons e r ih =>
    obtain ⟨k', v'⟩ := e
    by_cases h : k' = k
    · simp [Dict.set, Dict.get?, h]
    · simp [Dict.set, Dict.get?, h, ih]

theorem Dict.get?_set_ne (d : Dict α) (k : String) (v : Val α) (k' : String) (hne : k' ≠ k) :
    Dict.get? (Dict.set d k v) k' = Dict.get? d k' := by
  induction d with
  | nil =>
    have : ¬ k = k' := fun e => hne e.symm
    simp [Dict.set, Dict.get?, this]
  | cons e r ih =>
    obtain ⟨k'', v'⟩ := e
    by_cases h : k'' = k
    · subst h
      have : ¬ k'' = k' := fun e => hne e.symm
      simp [Dict.set, Dict.get?, this]
    · by_cases h2 : k'' = k'
      · subst h2; simp [Dict.set, Dict.get?, hne]
      · simp [Dict.set, Dict.get?, h, h2, ih]

theorem Dict.set_of_not_mem (d : Dict α) (k : String) (v : Val α) (h : k ∉ Dict.keys d) :
    Dict.set d k v = d ++ [(k, v)] := by
  induction d with
  | nil => simp [Dict.set]
  | cons e r ih =>
    obtain ⟨k', v'⟩ := e
    simp only [Dict.keys, List.map_cons, List.mem_cons, not_or] at h
    have h' : ¬ k' = k := fun e => h.1 e.symm
    simp only [Dict.keys] at ih
    simp [Dict.set, h', ih h.2]

theorem Dict.keys_resolve [Scalar α] (s : PState α) (d : Dict α) :
    Dict.keys (resolve s d) = Dict.keys d := by
  simp [resolve, Dict.keys, List.map_map, Function.comp_def]

theorem Dict.get?_resolve [Scalar α] (s : PState α) (d : Dict α) (k : String) :
    Dict.get? (resolve s d) k = (Dict.get? d k).map (copyOf s) := by
  induction d with
  | nil => simp [resolve, Dict.get?]
  | cons e r ih =>
    obtain ⟨k', v⟩ := e
    simp only [resolve, List.map_cons] at ih ⊢
    by_cases h : k' = k
    · simp [Dict.get?, h]
    · simp [Dict.get?, h, ih]

/-- decoding the rows that `tolist()` produced gives the vertices back -/
@[simp] theorem toV3s_rows [Scalar α] (vs : List (V3 α)) : toV3s (rows vs) = .ok vs := by
  induction vs with
  | nil => rfl
  | cons v vs ih =>
    simp only [rows, List.map_cons] at ih ⊢
    simp only [toV3s, rowToV3, ih, bind, Except.bind, pure, Except.pure]

/-! ### `to_json` -/

theorem toJson_cons_ok {g : String → Except String (Val α)} {a : String} {rest : List String}
    {acc d : Dict α} (h : toJson g (a :: rest) acc = .ok d) :
    ∃ v, g a = .ok v ∧ toJson g rest (Dict.set acc a v) = .ok d := by
  simp only [toJson, bind, Except.bind] at h
  cases hg : g a with
  | error e => rw [hg] at h; cases h
  | ok v => rw [hg] at h; exact ⟨v, rfl, h⟩

theorem toJson_keys {g : String → Except String (Val α)} (attrs : List String) :
    ∀ (acc d : Dict α), toJson g attrs acc = .ok d →
      ∀ k, k ∈ Dict.keys d ↔ k ∈ Dict.keys acc ∨ k ∈ attrs := by
  induction attrs with
  | nil => intro acc d h k; simp only [toJson, Except.ok.injEq] at h; simp [h]
  | cons a rest ih =>
    intro acc d h k
    obtain ⟨v, _, h2⟩ := toJson_cons_ok h
    rw [ih _ _ h2 k, Dict.mem_keys_set]
    simp only [List.mem_cons]
    tauto

theorem toJson_nodup {g : String → Except String (Val α)} (attrs : List String) :
    ∀ (acc d : Dict α), toJson g attrs acc = .ok d → (Dict.keys acc).Nodup → (Dict.keys d).Nodup := by
  induction attrs with
  | nil => intro acc d h; simp only [toJson, Except.ok.injEq] at h; simp [h]
  | cons a rest ih =>
    intro acc d h hn
    obtain ⟨v, _, h2⟩ := toJson_cons_ok h
    exact ih _ _ h2 (Dict.nodup_keys_set _ _ _ hn)

theorem toJson_get_other {g : String → Except String (Val α)} (attrs : List String) :
    ∀ (acc d : Dict α), toJson g attrs acc = .ok d → ∀ k, k ∉ attrs → Dict.get? d k = Dict.get? acc k := by
  induction attrs with
  | nil => intro acc d h k _; simp only [toJson, Except.ok.injEq] at h; simp [h]
  | cons a rest ih =>
    intro acc d h k hk
    obtain ⟨v, _, h2⟩ := toJson_cons_ok h
    simp only [List.mem_cons, not_or] at hk
    rw [ih _ _ h2 k hk.2, Dict.get?_set_ne _ _ _ _ hk.1]

theorem toJson_get {g : String → Except String (Val α)} (attrs : List String) :
    ∀ (acc d : Dict α), toJson g attrs acc = .ok d →
      ∀ a, a ∈ attrs → ∃ v, g a = .ok v ∧ Dict.get? d a = some v := by
  induction attrs with
  | nil => intro _ _ _ a ha; cases ha
  | cons b rest ih =>
    intro acc d h a ha
    obtain ⟨v, hv, h2⟩ := toJson_cons_ok h
    by_cases hr : a ∈ rest
    · exact ih _ _ h2 a hr
    · have hab : a = b := by
        rcases List.mem_cons.mp ha with h | h
        · exact h
        · exact absurd h hr
      subst hab
      exact ⟨v, hv, by rw [toJson_get_other _ _ _ h2 a hr, Dict.get?_set_self]⟩

theorem toJson_total {g : String → Except String (Val α)} (attrs : List String) :
    ∀ (acc : Dict α), (∀ a, a ∈ attrs → ∃ v, g a = .ok v) → ∃ d, toJson g attrs acc = .ok d := by
  induction attrs with
  | nil => intro acc _; exact ⟨acc, rfl⟩
  | cons a rest ih =>
    intro acc h
    obtain ⟨v, hv⟩ := h a (List.mem_cons_self ..)
    obtain ⟨d, hd⟩ := ih (Dict.set acc a v) (fun b hb => h b (List.mem_cons_of_mem _ hb))
    exact ⟨d, by simp only [toJson, bind, Except.bind, hv, hd]⟩

/-- the first failing getter decides the exception -/
theorem toJson_first_error {g : String → Except String (Val α)} (pre : List String) (a : String)
    (post : List String) (e : String) (hpre : ∀ b, b ∈ pre → ∃ v, g b = .ok v) (ha : g a = .error e) :
    ∀ acc : Dict α, toJson g (pre ++ a :: post) acc = .error e := by
  induction pre with
  | nil => intro acc; simp only [List.nil_append, toJson, bind, Except.bind, ha]
  | cons b pre ih =>
    intro acc
    obtain ⟨v, hv⟩ := hpre b (List.mem_cons_self ..)
    simp only [List.cons_append, toJson, bind, Except.bind, hv]
    exact ih (fun c hc => hpre c (List.mem_cons_of_mem _ hc)) _

/-! ### key renaming -/

theorem mappingGet_eq_rename (m : List (String × String)) (k : String) :
    mappingGet m k = Spec.rename m k := by
  induction m with
  | nil => simp [mappingGet, Spec.rename, List.lookup]
  | cons e r ih =>
    obtain ⟨a, b⟩ := e
    simp only [Spec.rename] at ih
    by_cases h : a = k
    · subst h; simp [mappingGet, Spec.rename, List.lookup]
    · have h' : (k == a) = false := by simpa using fun e : k = a => h e.symm
      simp [mappingGet, Spec.rename, List.lookup, h, h', ih]

theorem mapDictKeysFrom_mem (m : List (String × String)) (l : Dict α) :
    ∀ (acc : Dict α) (k' : String),
      k' ∈ Dict.keys (mapDictKeysFrom m l acc) ↔
        k' ∈ Dict.keys acc ∨ ∃ k, k ∈ Dict.keys l ∧ k' = mappingGet m k := by
  induction l with
  | nil => intro acc k'; simp [mapDictKeysFrom, Dict.keys]
  | cons e r ih =>
    intro acc k'
    obtain ⟨k, v⟩ := e
    simp only [mapDictKeysFrom]
    rw [ih, Dict.mem_keys_set]
    simp only [Dict.keys, List.map_cons, List.mem_cons]
    constructor
    · rintro ((h | h) | ⟨k2, h2, h3⟩)
      · exact Or.inl h
      · exact Or.inr ⟨k, Or.inl rfl, h⟩
      · exact Or.inr ⟨k2, Or.inr h2, h3⟩
    · rintro (h | ⟨k2, h2 | h2, h3⟩)
      · exact Or.inl (Or.inl h)
      · subst h2; exact Or.inl (Or.inr h3)
      · exact Or.inr ⟨k2, h2, h3⟩

theorem mapDictKeysFrom_nodup (m : List (String × String)) (l : Dict α) :
    ∀ (acc : Dict α),
      (Dict.keys acc ++ l.map (fun e => mappingGet m e.1)).Nodup →
        mapDictKeysFrom m l acc = acc ++ l.map (fun e => (mappingGet m e.1, e.2)) := by
  induction l with
  | nil => intro acc _; simp [mapDictKeysFrom]
  | cons e r ih =>
    intro acc h
    obtain ⟨k, v⟩ := e
    simp only [mapDictKeysFrom]
    have hk : mappingGet m k ∉ Dict.keys acc := by
      intro hm
      rw [List.nodup_append] at h
      exact h.2.2 _ hm _ (by simp) rfl
    rw [Dict.set_of_not_mem _ _ _ hk, ih]
    · simp
    · simpa [Dict.keys, List.append_assoc] using h

/-! ### closed forms of the `to_hoomd` models (by evaluation) -/
section hoomd
variable [Scalar α]

theorem polygonToHoomd_eq (M : Meas α) (s : PState α) :
    polygonToHoomd M s =
      let s1 := setCentroid M .recomputed s V3.zero
      .ok ([("vertices", .mat (s1.verts.map fun v => [v.x, v.y])),
            ("centroid", .vec (v3list (M.cen s1.verts))),
            ("area", .num (M.scalar "area" s1.verts)),
            ("moment_inertia", .mat (M.tensor s1.verts)),
            ("sweep_radius", .num (lit 0))],
           setCentroid M .recomputed s1 (M.cen s.verts)) := by
  rfl

theorem polyhedronToHoomd_eq (M : Meas α) (k : CenKind) (f) (s : PState α) :
    polyhedronToHoomd M k f s =
      let s1 := setCentroid M k s V3.zero
      .ok ([("vertices", .mat (rows s1.verts)),
            ("faces", .idx f),
            ("centroid", .vec (v3list (centroidOf M k s1))),
            ("volume", .num (M.scalar "volume" s1.verts)),
            ("moment_inertia", .mat (M.tensor s1.verts)),
            ("sweep_radius", .num (lit 0))],
           setCentroid M k s1 (centroidOf M k s)) := by
  rfl

theorem spheropolyhedronToHoomd_eq (M : Meas α) (r : α) (s : PState α) :
    spheropolyhedronToHoomd M r s =
      let s1 := setCentroid M .cached s V3.zero
      .ok ([("vertices", .mat (rows s1.verts)),
            ("sweep_radius", .num r),
            ("volume", .num (M.scalar "volume" s1.verts)),
            ("centroid", .vec [lit 0, lit 0, lit 0])],
           setCentroid M .cached s1 s.cache) := by
  rfl

theorem spheropolygonToHoomd_eq (M : Meas α) (r : α) (s : PState α) :
    spheropolygonToHoomd M r s =
      .ok ([("vertices", .live),
            ("sweep_radius", .num r),
            ("area", .num (M.scalar "area" s.verts)),
            ("centroid", .vec [lit 0, lit 0, lit 0])],
           setCentroid M .recomputed s (M.cen s.verts)) := by
  rfl

theorem sphereToHoomd_eq (M : Meas α) (r : α) (c : V3 α) :
    sphereToHoomd M r c =
      .ok ([("diameter", .num (lit 2 * r)),
            ("centroid", .vec (v3list V3.zero)),
            ("volume", .num (M.scalarC "volume" V3.zero)),
            ("moment_inertia", .mat (M.tensorC V3.zero))], c) := by
  rfl

theorem ellipsoidToHoomd_eq (M : Meas α) (a b c : α) (cen : V3 α) :
    ellipsoidToHoomd M a b c cen =
      .ok ([("a", .num a), ("b", .num b), ("c", .num c),
            ("centroid", .vec (v3list V3.zero)),
            ("volume", .num (M.scalarC "volume" V3.zero)),
            ("moment_inertia", .mat (M.tensorC V3.zero))], cen) := by
  rfl
end hoomd

end dict

/-! ### centring over ℝ -/

theorem V3.add_zero_sub (v c : V3 ℝ) : v + (V3.zero - c) = v - c := by
  apply V3.ext' <;> simp <;> ring

theorem V3.sub_add_sub_zero (v c : V3 ℝ) : v - c + (c - V3.zero) = v := by
  apply V3.ext' <;> simp

theorem V3.add_sub_self (v c : V3 ℝ) : v + (c - c) = v := by
  apply V3.ext' <;> simp

theorem V3.sdiv_one (v : V3 ℝ) : V3.sdiv v 1 = v := by
  apply V3.ext' <;> simp

theorem map_shift_zero (vs : List (V3 ℝ)) (c : V3 ℝ) :
    (vs.map fun v => v + (V3.zero - c)) = Spec.centred vs c := by
  simp only [Spec.centred, V3.add_zero_sub]

theorem map_shift_back (vs : List (V3 ℝ)) (c : V3 ℝ) :
    ((Spec.centred vs c).map fun v => v + (c - V3.zero)) = vs := by
  simp only [Spec.centred, List.map_map, Function.comp_def, V3.sub_add_sub_zero, List.map_id']

theorem map_shift_none (vs : List (V3 ℝ)) (c : V3 ℝ) : (vs.map fun v => v + (c - c)) = vs := by
  simp only [V3.add_sub_self, List.map_id']

theorem centred_ne_nil {vs : List (V3 ℝ)} (h : vs ≠ []) (c : V3 ℝ) : Spec.centred vs c ≠ [] := by
  simpa [Spec.centred] using h

theorem Spec.Equivariant.at {M : Meas ℝ} (hM : Spec.Equivariant M) {vs : List (V3 ℝ)} (h : vs ≠ []) :
    Spec.EquivariantAt M vs := fun t => hM vs t h

theorem cen_centred_at {M : Meas ℝ} {vs : List (V3 ℝ)} (hM : Spec.EquivariantAt M vs) :
    M.cen (Spec.centred vs (M.cen vs)) = V3.zero := by
  rw [← map_shift_zero, hM]
  apply V3.ext' <;> simp

theorem cen_centred {M : Meas ℝ} (hM : Spec.Equivariant M) {vs : List (V3 ℝ)} (h : vs ≠ []) :
    M.cen (Spec.centred vs (M.cen vs)) = V3.zero := cen_centred_at (hM.at h)

/-- the vertex mean (a translation-equivariant centre, the centroid of centrally symmetric sets) -/
noncomputable def vertexMean (vs : List (V3 ℝ)) : V3 ℝ := V3.sdiv (V3.sum vs) (vs.length : ℝ)

theorem sum_map_add (f : V3 ℝ → ℝ) (g : V3 ℝ → ℝ) (t : ℝ) (vs : List (V3 ℝ))
    (h : ∀ v, g v = f v + t) : (vs.map g).sum = (vs.map f).sum + vs.length * t := by
  induction vs with
  | nil => simp
  | cons v vs ih => simp only [List.map_cons, List.sum_cons, ih, h, List.length_cons]; push_cast; ring

theorem vertexMean_equivariant (vs : List (V3 ℝ)) (t : V3 ℝ) (h : vs ≠ []) :
    vertexMean (vs.map fun v => v + t) = vertexMean vs + t := by
  have hn : (vs.length : ℝ) ≠ 0 := by
    have : vs.length ≠ 0 := by simpa using h
    exact_mod_cast this
  unfold vertexMean
  apply V3.ext'
  · simp only [V3.sdiv_x, V3.add_x, V3.sum_x, List.map_map, List.length_map]
    rw [sum_map_add (·.x) _ t.x vs (fun v => by simp)]; field_simp
  · simp only [V3.sdiv_y, V3.add_y, V3.sum_y, List.map_map, List.length_map]
    rw [sum_map_add (·.y) _ t.y vs (fun v => by simp)]; field_simp
  · simp only [V3.sdiv_z, V3.add_z, V3.sum_z, List.map_map, List.length_map]
    rw [sum_map_add (·.z) _ t.z vs (fun v => by simp)]; field_simp


/-! ### witnesses used by the examples and the `_fails` theorem of Props/C19.lean -/

theorem norm_ez : V3.norm (⟨0, 0, -1⟩ : V3 ℝ) = 1 := by
  simp [V3.norm, V3.normSq, V3.dot]

/-- measure getters used by the examples: the centre is the vertex mean; a measure's value records
which vertex set it was evaluated on (sum of x-coordinates, rows of x-coordinates). -/
noncomputable def exM : Meas ℝ where
  cen := vertexMean
  scalar := fun name vs => (name.length : ℝ) + (vs.map (·.x)).sum
  tensor := fun vs => [vs.map (·.x), vs.map (·.y)]
  scalarC := fun name c => (name.length : ℝ) + c.x
  tensorC := fun c => [[c.x, c.y, c.z]]

theorem exM_equivariant : Spec.Equivariant exM := fun vs t h => vertexMean_equivariant vs t h

/-- centring (`centroid = 0`) moves the vertices to `original − centroid` -/
theorem centre_recomputed (M : Meas ℝ) (vs : List (V3 ℝ)) (c0 : V3 ℝ) :
    (setCentroid M .recomputed ⟨vs, c0⟩ V3.zero).verts = Spec.centred vs (M.cen vs) := by
  simp only [setCentroid, centroidOf, map_shift_zero]

theorem centre_cached (M : Meas ℝ) (vs : List (V3 ℝ)) :
    (setCentroid M .cached ⟨vs, M.cen vs⟩ V3.zero).verts = Spec.centred vs (M.cen vs) := by
  simp only [setCentroid, centroidOf, map_shift_zero]

theorem centre_cached_cache (M : Meas ℝ) (vs : List (V3 ℝ)) :
    (setCentroid M .cached ⟨vs, M.cen vs⟩ V3.zero).cache = M.cen (Spec.centred vs (M.cen vs)) := by
  simp only [setCentroid, centroidOf, map_shift_zero]

/-- the state a polytope is left in after `centre; …; restore` is the state it started in -/
theorem restore_recomputed_at {M : Meas ℝ} {vs : List (V3 ℝ)} (hM : Spec.EquivariantAt M vs) (c0 : V3 ℝ) :
    (setCentroid M .recomputed (setCentroid M .recomputed ⟨vs, c0⟩ V3.zero) (M.cen vs)).verts = vs := by
  simp only [setCentroid, centroidOf, map_shift_zero, cen_centred_at hM, map_shift_back]

theorem restore_recomputed {M : Meas ℝ} (hM : Spec.Equivariant M) {vs : List (V3 ℝ)} (h : vs ≠ [])
    (c0 : V3 ℝ) :
    (setCentroid M .recomputed (setCentroid M .recomputed ⟨vs, c0⟩ V3.zero) (M.cen vs)).verts = vs :=
  restore_recomputed_at (hM.at h) c0

theorem restore_cached {M : Meas ℝ} (hM : Spec.Equivariant M) {vs : List (V3 ℝ)} (h : vs ≠ []) :
    (setCentroid M .cached (setCentroid M .cached ⟨vs, M.cen vs⟩ V3.zero) (M.cen vs)).verts = vs := by
  simp only [setCentroid, centroidOf, map_shift_zero, cen_centred hM h, map_shift_back]

theorem v3list_zero : v3list (V3.zero : V3 ℝ) = [lit 0, lit 0, lit 0] := rfl

/-- the unit square `[0,1]²` (counter-clockwise), centroid `(1/2, 1/2, 0)` — the fixture of
`tests/test_spheropolygon.py::test_to_hoomd` -/
def unitSquare : List (V3 ℝ) := [⟨0, 0, 0⟩, ⟨1, 0, 0⟩, ⟨1, 1, 0⟩, ⟨0, 1, 0⟩]

theorem exM_cen_unitSquare : exM.cen unitSquare = ⟨1/2, 1/2, 0⟩ := by
  simp only [exM, vertexMean, unitSquare, V3.sum, List.foldr, V3.add, V3.zero, V3.sdiv, List.length]
  norm_num [Scalar.lit]


end C19
