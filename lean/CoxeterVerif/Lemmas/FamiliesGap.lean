import CoxeterVerif.Lemmas.FamiliesZ5
/-! The determinant gap of a plane table over ℤ[√5], for ALL triples at once, from the field norm:
    a non-zero `d = p + q√5` has `d · d̄ = p² − 5q² ∈ ℤ \ {0}`, hence `|d| ≥ 1/|d̄|`; the conjugate of a
    3×3 determinant is the determinant of the conjugate entries, which is at most `6K³` when every
    entry has `|p| + 3|q| ≤ K`.  So the coded test `|det| > 1e-6` is the test `det ≠ 0` on every
    table with small entries — no enumeration of the 37 820 triples of the 523 table is needed. -/
open Scalar
set_option maxRecDepth 4000

namespace Fam
noncomputable section

/-- the Galois conjugate `p − q√5` as a real number -/
def Z5.conjReal (z : Z5) : ℝ := (z.p : ℝ) - (z.q : ℝ) * Real.sqrt 5

namespace Z5
@[simp] theorem conjReal_add (a b : Z5) : (Z5.add a b).conjReal = a.conjReal + b.conjReal := by
  simp only [Z5.conjReal, Z5.add]; push_cast; ring
@[simp] theorem conjReal_sub (a b : Z5) : (Z5.sub a b).conjReal = a.conjReal - b.conjReal := by
  simp only [Z5.conjReal, Z5.sub]; push_cast; ring
@[simp] theorem conjReal_mul (a b : Z5) : (Z5.mul a b).conjReal = a.conjReal * b.conjReal := by
  simp only [Z5.conjReal, Z5.mul]; push_cast
  linear_combination (-(a.q : ℝ) * b.q) * sqrt5_mul_self

/-- the norm `p² − 5q²` -/
theorem toReal_mul_conjReal (z : Z5) : z.toReal * z.conjReal = ((z.p * z.p - 5 * (z.q * z.q) : Int) : ℝ) := by
  simp only [Z5.toReal, Z5.conjReal]; push_cast
  linear_combination (-(z.q : ℝ) * z.q) * sqrt5_mul_self

theorem sqrt5_lt_three : Real.sqrt 5 < 3 := by
  have h := sqrt5_mul_self
  have hp := sqrt5_pos
  by_contra hc
  push Not at hc
  nlinarith

theorem abs_conjReal_le (z : Z5) : |z.conjReal| ≤ (z.size : ℝ) := by
  have h3 := sqrt5_lt_three
  have hp := sqrt5_pos
  have hP : |(z.p : ℝ)| = (z.p.natAbs : ℝ) := by rw [Nat.cast_natAbs]; push_cast; rfl
  have hQ : |(z.q : ℝ)| = (z.q.natAbs : ℝ) := by rw [Nat.cast_natAbs]; push_cast; rfl
  have hq5 : |(z.q : ℝ) * Real.sqrt 5| ≤ 3 * |(z.q : ℝ)| := by
    rw [abs_mul, abs_of_pos hp]; nlinarith [abs_nonneg (z.q : ℝ)]
  calc |z.conjReal| ≤ |(z.p : ℝ)| + |(z.q : ℝ) * Real.sqrt 5| := abs_sub _ _
    _ ≤ |(z.p : ℝ)| + 3 * |(z.q : ℝ)| := by linarith
    _ = (z.size : ℝ) := by rw [hP, hQ]; simp [Z5.size]

/-- a non-zero element of ℤ[√5] is at least the reciprocal of (a bound of) its conjugate -/
theorem one_le_abs_mul_of_ne_zero (z : Z5) (B : ℝ) (hz : z.toReal ≠ 0) (hB : |z.conjReal| ≤ B) :
    1 ≤ |z.toReal| * B := by
  have hn := toReal_mul_conjReal z
  have hne : (z.p * z.p - 5 * (z.q * z.q) : Int) ≠ 0 := by
    intro h0
    rw [h0, Int.cast_zero] at hn
    rcases mul_eq_zero.mp hn with h | h
    · exact hz h
    · -- conjugate zero ⇒ p = q√5 ⇒ (by irrationality) p = q = 0 ⇒ z = 0
      have : (Z5.mk z.p (-z.q)).toReal = 0 := by
        simp only [Z5.toReal]; push_cast; simp only [Z5.conjReal] at h; linarith
      have := (toReal_eq_zero_iff _).mp this
      apply hz
      rw [toReal_eq_zero_iff]; simp only at this; omega
  have h1 : (1:ℝ) ≤ |((z.p * z.p - 5 * (z.q * z.q) : Int) : ℝ)| := by
    rw [← Int.cast_abs]
    have : (1 : Int) ≤ |z.p * z.p - 5 * (z.q * z.q)| := Int.one_le_abs hne
    exact_mod_cast this
  rw [← hn, abs_mul] at h1
  calc (1:ℝ) ≤ |z.toReal| * |z.conjReal| := h1
    _ ≤ |z.toReal| * B := mul_le_mul_of_nonneg_left hB (abs_nonneg _)

end Z5

/-- conjugate of a vector of ℤ[√5] entries -/
def ZV.conjReal (v : ZV) : V3 ℝ := ⟨v.1.conjReal, v.2.1.conjReal, v.2.2.conjReal⟩

theorem zDet_conjReal (r0 r1 r2 : ZRow) :
    (zDet r0 r1 r2).conjReal = V3.det3 (ZV.conjReal r0.1) (ZV.conjReal r1.1) (ZV.conjReal r2.1) := by
  simp [zDet, ZV.dot, ZV.cross, ZV.conjReal, V3.det3, V3.dot, V3.cross]

theorem abs_mul3_le {x y z K : ℝ} (hx : |x| ≤ K) (hy : |y| ≤ K) (hz : |z| ≤ K) :
    |x * y * z| ≤ K * K * K := by
  have hK : 0 ≤ K := le_trans (abs_nonneg x) hx
  rw [abs_mul, abs_mul]
  exact mul_le_mul (mul_le_mul hx hy (abs_nonneg _) hK) hz (abs_nonneg _) (mul_nonneg hK hK)

/-- Leibniz: a 3×3 determinant with entries bounded by `K` is at most `6K³` -/
theorem abs_det3_le (a b c : V3 ℝ) (K : ℝ)
    (ha : |a.x| ≤ K ∧ |a.y| ≤ K ∧ |a.z| ≤ K) (hb : |b.x| ≤ K ∧ |b.y| ≤ K ∧ |b.z| ≤ K)
    (hc : |c.x| ≤ K ∧ |c.y| ≤ K ∧ |c.z| ≤ K) : |V3.det3 a b c| ≤ 6 * (K * K * K) := by
  have e : V3.det3 a b c = a.x * b.y * c.z - a.x * b.z * c.y + a.y * b.z * c.x - a.y * b.x * c.z
      + a.z * b.x * c.y - a.z * b.y * c.x := by
    simp only [V3.det3, V3.dot, V3.cross]; ring
  have t1 := abs_le.mp (abs_mul3_le ha.1 hb.2.1 hc.2.2)
  have t2 := abs_le.mp (abs_mul3_le ha.1 hb.2.2 hc.2.1)
  have t3 := abs_le.mp (abs_mul3_le ha.2.1 hb.2.2 hc.1)
  have t4 := abs_le.mp (abs_mul3_le ha.2.1 hb.1 hc.2.2)
  have t5 := abs_le.mp (abs_mul3_le ha.2.2 hb.1 hc.2.1)
  have t6 := abs_le.mp (abs_mul3_le ha.2.2 hb.2.1 hc.1)
  rw [e, abs_le]
  constructor <;> linarith [t1.1, t1.2, t2.1, t2.2, t3.1, t3.2, t4.1, t4.2, t5.1, t5.2, t6.1, t6.2]

theorem entriesWithin_spec (planes : List ZV) (K : Nat) (h : entriesWithin planes K = true)
    (p : ZV) (hp : p ∈ planes) :
    |(ZV.conjReal p).x| ≤ (K : ℝ) ∧ |(ZV.conjReal p).y| ≤ (K : ℝ) ∧ |(ZV.conjReal p).z| ≤ (K : ℝ) := by
  simp only [entriesWithin, List.all_eq_true, Bool.and_eq_true, decide_eq_true_eq] at h
  obtain ⟨⟨h1, h2⟩, h3⟩ := h p hp
  have c (z : Z5) (hz : z.size ≤ K) : |z.conjReal| ≤ (K : ℝ) :=
    le_trans (Z5.abs_conjReal_le z) (by exact_mod_cast hz)
  exact ⟨c _ h1, c _ h2, c _ h3⟩

/-- **Determinant gap from the norm.** Planes with entries of size ≤ `K`: every triple determinant
    (in ℤ[√5]) is zero or at least `1/(6K³)` in absolute value. -/
theorem zDet_gap (planes : List ZV) (K : Nat) (h : entriesWithin planes K = true)
    (r0 r1 r2 : ZRow) (h0 : r0.1 ∈ planes) (h1 : r1.1 ∈ planes) (h2 : r2.1 ∈ planes) :
    (zDet r0 r1 r2).toReal = 0 ∨ 1 ≤ |(zDet r0 r1 r2).toReal| * (6 * ((K:ℝ) * K * K)) := by
  by_cases hz : (zDet r0 r1 r2).toReal = 0
  · left; exact hz
  · right
    apply Z5.one_le_abs_mul_of_ne_zero _ _ hz
    rw [zDet_conjReal]
    exact abs_det3_le _ _ _ _ (entriesWithin_spec planes K h _ h0) (entriesWithin_spec planes K h _ h1)
      (entriesWithin_spec planes K h _ h2)

theorem mem_rows_fst {planes : List (V3 ℝ)} {types : List Nat} {a b c : ℝ} {r : Row ℝ}
    (h : r ∈ rows planes types a b c) : r.1 ∈ planes := by
  unfold rows at h
  induction planes generalizing types with
  | nil => simp at h
  | cons p ps ih =>
    cases types with
    | nil => simp at h
    | cons t ts =>
      simp only [List.zipWith_cons_cons, List.mem_cons] at h ⊢
      rcases h with rfl | h
      · left; rfl
      · right; exact ih h

theorem mem_planesS (T : Table) (p : V3 ℝ) (h : p ∈ (T.planesS : List (V3 ℝ))) :
    ∃ z ∈ T.planes, p = V3.smul (1 / (T.den : ℝ)) (ZV.toReal z) := by
  simp only [Table.planesS, List.mem_map] at h
  obtain ⟨z, hz, rfl⟩ := h
  refine ⟨z, hz, ?_⟩
  apply V3.ext' <;> simp only [V3.smul_x, V3.smul_y, V3.smul_z, ZV.toReal, toScalar_eq_toReal] <;> ring

/-- **Determinant gap of a table, real form.** If every entry of the table has size ≤ `K` and
    `6·K³·den³ < 10⁶`, then for the model's real plane table EVERY triple of planes has determinant
    0 or of absolute value > 1e-6: the coded test `np.abs(dets) > thresh` is the test `det ≠ 0`. -/
theorem det_gap_of_bounded (T : Table) (K : Nat) (hden : 0 < T.den)
    (h : entriesWithin T.planes K = true) (hK : 6 * (K * K * K) * (T.den * T.den * T.den) < 1000000)
    (t : Row ℝ × Row ℝ × Row ℝ) (h0 : t.1.1 ∈ (T.planesS : List (V3 ℝ)))
    (h1 : t.2.1.1 ∈ (T.planesS : List (V3 ℝ))) (h2 : t.2.2.1 ∈ (T.planesS : List (V3 ℝ))) :
    tripleDet t = 0 ∨ 1 / 1000000 < |tripleDet t| := by
  obtain ⟨z0, hz0, e0⟩ := mem_planesS T _ h0
  obtain ⟨z1, hz1, e1⟩ := mem_planesS T _ h1
  obtain ⟨z2, hz2, e2⟩ := mem_planesS T _ h2
  have hd : (0:ℝ) < T.den := by exact_mod_cast hden
  have hdet : tripleDet t =
      (zDet (z0, Z5.zero) (z1, Z5.zero) (z2, Z5.zero)).toReal / ((T.den:ℝ) * T.den * T.den) := by
    rw [zDet_toReal]
    simp only [tripleDet, rowR, e0, e1, e2, V3.det3, V3.dot, V3.cross, V3.smul_x, V3.smul_y, V3.smul_z]
    field_simp
  rcases zDet_gap T.planes K h (z0, Z5.zero) (z1, Z5.zero) (z2, Z5.zero) hz0 hz1 hz2 with hz | hg
  · left; rw [hdet, hz, zero_div]
  · right
    rw [hdet, abs_div, abs_of_pos (by positivity : (0:ℝ) < (T.den:ℝ) * T.den * T.den)]
    rw [lt_div_iff₀ (by positivity)]
    have hK' : (6 * ((K:ℝ) * K * K)) * ((T.den:ℝ) * T.den * T.den) < 1000000 := by exact_mod_cast hK
    set A := |(zDet (z0, Z5.zero) (z1, Z5.zero) (z2, Z5.zero)).toReal| with hA
    have hA0 : 0 ≤ A := abs_nonneg _
    have hD : (0:ℝ) < (T.den:ℝ) * T.den * T.den := by positivity
    have hKK : (0:ℝ) ≤ 6 * ((K:ℝ) * K * K) := by positivity
    -- 1 ≤ A·B,  B·D < 10⁶  ⇒  D < 10⁶·A
    by_contra hcon
    push Not at hcon
    have hApos : 0 < A := by
      by_contra h0
      have : A = 0 := le_antisymm (not_lt.mp h0) hA0
      rw [this, zero_mul] at hg; linarith
    have : A * (6 * ((K:ℝ) * K * K)) * ((T.den:ℝ) * T.den * T.den) < 1000000 * A := by
      have := mul_lt_mul_of_pos_left hK' hApos
      linarith
    have h1' : ((T.den:ℝ) * T.den * T.den) ≤ A * (6 * ((K:ℝ) * K * K)) * ((T.den:ℝ) * T.den * T.den) := by
      have := mul_le_mul_of_nonneg_right hg hD.le
      linarith
    linarith

/-- the same, for the triples `make_vertices` takes (sublists of the rows at any parameters):
    hypothesis (G1) of `make_vertices_exact_of_gap` -/
theorem det_gap_rows (T : Table) (K : Nat) (hden : 0 < T.den)
    (h : entriesWithin T.planes K = true) (hK : 6 * (K * K * K) * (T.den * T.den * T.den) < 1000000)
    (a b c : ℝ) (t : Row ℝ × Row ℝ × Row ℝ)
    (ht : [t.1, t.2.1, t.2.2].Sublist (rows (T.planesS : List (V3 ℝ)) T.types a b c)) :
    tripleDet t = 0 ∨ 1 / 1000000 < |tripleDet t| :=
  det_gap_of_bounded T K hden h hK t (mem_rows_fst (ht.subset (by simp))) (mem_rows_fst (ht.subset (by simp)))
    (mem_rows_fst (ht.subset (by simp)))

end
end Fam
