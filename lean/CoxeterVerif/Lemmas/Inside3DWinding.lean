import CoxeterVerif.Lemmas.Inside3DShear
/-!
  C05, the single-tetrahedron winding lemma — part 3: statement on the model and the spec.

  `tet_winding` : for ANY tetrahedron `T` (either orientation, degenerate or not) and ANY query
  point `p` off its four face planes,
      `Poly.windingSum T.bdry p = 2 · (if inTet T p then sgn (orient T) else 0)`.
-/
open Scalar
set_option maxRecDepth 4000
noncomputable section

namespace Inside3D
open Spec.In3D

theorem sgn_one_of_pos {x : ℝ} (h : 0 < x) : sgn x = 1 := sgn_pos' h

/-- **Single-tetrahedron winding lemma.**  The model's winding sum over the four faces of `T`
(as listed by `Tet.bdry`) is `2·sgn(orient T)` when `p` is in `T` and `0` otherwise, for every
point `p` that is on none of the four face planes. -/
theorem tet_winding (T : Tet ℝ) (p : V3 ℝ) (hoff : ∀ x ∈ bary T p, x ≠ 0) :
    Poly.windingSum T.bdry p =
      2 * (if inTet T p = true then sgn (orient T.a T.b T.c T.d) else 0) := by
  obtain ⟨a, b, c, d⟩ := T
  simp only [bary, List.mem_cons, List.not_mem_nil, or_false, forall_eq_or_imp, forall_eq] at hoff
  obtain ⟨n0, n1, n2, n3⟩ := hoff
  -- the four face determinants are the un-normalised barycentric coordinates
  have e0 : V3.det3 (b - p) (c - p) (d - p) = orient p b c d := rfl
  have e1 : V3.det3 (a - p) (d - p) (c - p) = orient a p c d := by
    obtain ⟨ax, ay, az⟩ := a; obtain ⟨cx, cy, cz⟩ := c; obtain ⟨dx, dy, dz⟩ := d; obtain ⟨px, py, pz⟩ := p
    unfold orient V3.det3 V3.dot V3.cross
    simp only [V3.sub_x, V3.sub_y, V3.sub_z]; ring
  have e2 : V3.det3 (a - p) (b - p) (d - p) = orient a b p d := by
    obtain ⟨ax, ay, az⟩ := a; obtain ⟨bx, b_y, bz⟩ := b; obtain ⟨dx, dy, dz⟩ := d; obtain ⟨px, py, pz⟩ := p
    unfold orient V3.det3 V3.dot V3.cross
    simp only [V3.sub_x, V3.sub_y, V3.sub_z]; ring
  have e3 : V3.det3 (a - p) (c - p) (b - p) = orient a b c p := by
    obtain ⟨ax, ay, az⟩ := a; obtain ⟨bx, b_y, bz⟩ := b; obtain ⟨cx, cy, cz⟩ := c; obtain ⟨px, py, pz⟩ := p
    unfold orient V3.det3 V3.dot V3.cross
    simp only [V3.sub_x, V3.sub_y, V3.sub_z]; ring
  have hsum : orient p b c d + orient a p c d + orient a b p d + orient a b c p = orient a b c d := by
    obtain ⟨ax, ay, az⟩ := a; obtain ⟨bx, b_y, bz⟩ := b; obtain ⟨cx, cy, cz⟩ := c
    obtain ⟨dx, dy, dz⟩ := d; obtain ⟨px, py, pz⟩ := p
    unfold orient V3.det3 V3.dot V3.cross
    simp only [V3.sub_x, V3.sub_y, V3.sub_z]; ring
  have key := tet_any (a - p) (b - p) (c - p) (d - p) (by rw [e0]; exact n0) (by rw [e1]; exact n1)
    (by rw [e2]; exact n2) (by rw [e3]; exact n3)
  rw [e0, e1, e2, e3] at key
  have hW : Poly.windingSum (Tet.bdry ⟨a, b, c, d⟩) p =
      contribD (a - p) (c - p) (b - p) + contribD (a - p) (b - p) (d - p)
        + contribD (b - p) (c - p) (d - p) + contribD (a - p) (d - p) (c - p) := by
    simp only [Poly.windingSum, Tet.bdry, List.map_cons, List.map_nil, List.sum_cons, List.sum_nil,
      contribution_eq]
    ring
  rw [hW, key]
  simp only [inTet, bary, List.all_cons, List.all_nil, Bool.and_true, Bool.or_eq_true, Bool.and_eq_true,
    decide_eq_true_iff, Scalar.lit, Scalar.ofNat_real, Nat.cast_zero]
  set b0 := orient p b c d
  set b1 := orient a p c d
  set b2 := orient a b p d
  set b3 := orient a b c p
  set D := orient a b c d
  by_cases hp : sgn b0 = 1 ∧ sgn b1 = 1 ∧ sgn b2 = 1 ∧ sgn b3 = 1
  · obtain ⟨p0, p1, p2, p3⟩ := hp
    have q0 := sgn_eq_one_iff.mp p0; have q1 := sgn_eq_one_iff.mp p1
    have q2 := sgn_eq_one_iff.mp p2; have q3 := sgn_eq_one_iff.mp p3
    have hD : 0 < D := by linarith
    rw [if_pos ⟨p0, p1, p2, p3⟩, if_neg (by rw [p0]; intro h; exact absurd h.1 (by decide)),
      if_pos (Or.inl ⟨hD, q0.le, q1.le, q2.le, q3.le⟩), sgn_pos' hD]
    rfl
  · by_cases hn : sgn b0 = -1 ∧ sgn b1 = -1 ∧ sgn b2 = -1 ∧ sgn b3 = -1
    · obtain ⟨p0, p1, p2, p3⟩ := hn
      have q0 := sgn_eq_neg_one_iff.mp p0; have q1 := sgn_eq_neg_one_iff.mp p1
      have q2 := sgn_eq_neg_one_iff.mp p2; have q3 := sgn_eq_neg_one_iff.mp p3
      have hD : D < 0 := by linarith
      rw [if_neg hp, if_pos ⟨p0, p1, p2, p3⟩, if_pos (Or.inr ⟨hD, q0.le, q1.le, q2.le, q3.le⟩), sgn_neg' hD]
      rfl
    · rw [if_neg hp, if_neg hn, if_neg]
      · rfl
      · rintro (⟨_, g0, g1, g2, g3⟩ | ⟨_, g0, g1, g2, g3⟩)
        · exact hp ⟨sgn_pos' (lt_of_le_of_ne g0 (Ne.symm n0)), sgn_pos' (lt_of_le_of_ne g1 (Ne.symm n1)),
            sgn_pos' (lt_of_le_of_ne g2 (Ne.symm n2)), sgn_pos' (lt_of_le_of_ne g3 (Ne.symm n3))⟩
        · exact hn ⟨sgn_neg' (lt_of_le_of_ne g0 n0), sgn_neg' (lt_of_le_of_ne g1 n1),
            sgn_neg' (lt_of_le_of_ne g2 n2), sgn_neg' (lt_of_le_of_ne g3 n3)⟩

end Inside3D
end
