import CoxeterVerif.Lemmas.ConstructorsSimple
import Mathlib.Data.Int.GCD
import Mathlib.Tactic.IntervalCases
/-!
  C15, deepening round:
  * `simple_iff_simplePolygon_aux` — `Spec.simple` (the O(n²) Bool predicate) ⇔ `Spec.SimplePolygon` (indices/points);
  * `convex_quad_diagonals_cross` — the diagonals of a strictly convex quadrilateral cross;
  * `crossing_diagonals_not_simple` — a cycle containing both diagonals of a strictly convex quadrilateral as edges is
    rejected by the O(n²) predicate;
  * `starOrder_edgesOK_false` — every star polygon `{n/k}` (`2 ≤ k ≤ n−2`, `gcd(n,k) = 1`) of points in strictly convex
    position is rejected.
-/
open Scalar C15 C15.Spec
set_option maxRecDepth 4000
set_option linter.unusedSimpArgs false
set_option linter.unusedVariables false
noncomputable section

namespace C15

/-! ### `edgesOK` by index -/

theorem edgesOK_iff_idx (l : List (P2 ℝ)) :
    edgesOK l = true ↔ ∀ i j, i < j → j < l.length →
      edgeOK (vtx l i, vtx l (i + 1)) (vtx l j, vtx l (j + 1)) = true := by
  unfold edgesOK
  rw [allPairs_iff, List.pairwise_iff_getElem]
  constructor
  · intro h i j hij hj
    have hj' : j < (cycEdges l).length := by rw [cycEdges_length]; exact hj
    have hi' : i < (cycEdges l).length := by omega
    have := h i j hi' hj' hij
    rwa [cycEdges_getElem, cycEdges_getElem] at this
  · intro h i j hi hj hij
    rw [cycEdges_getElem, cycEdges_getElem]
    exact h i j hij (by rw [cycEdges_length] at hj; exact hj)

theorem vtx_succ_ne (l : List (P2 ℝ)) (hd : DistinctIdx l) (h2 : 2 ≤ l.length) (i : Nat) :
    vtx l i ≠ vtx l (i + 1) := by
  have hn : 0 < l.length := by omega
  intro h
  have hf := hd.ptEq_false (i := i) (j := i + 1) hn (by
    have : (i + 1) % l.length = (i % l.length + 1) % l.length := by
      rw [Nat.add_mod, Nat.mod_eq_of_lt (show 1 < l.length by omega)]
    rw [this]
    have hlt := Nat.mod_lt i hn
    generalize i % l.length = r at hlt
    by_cases hr : r + 1 < l.length
    · rw [Nat.mod_eq_of_lt hr]; omega
    · have : r + 1 = l.length := by omega
      rw [this, Nat.mod_self]; omega)
  rw [h, ptEq_self] at hf
  exact Bool.noConfusion hf

theorem not_segMeet_iff (a b c d : P2 ℝ) :
    (!segMeet a b c d) = true ↔ ¬ ∃ x, OnSegProp a b x ∧ OnSegProp c d x := by
  rw [← segMeetProp_iff_common_point, ← segMeet_iff_exists]
  cases segMeet a b c d <;> simp

theorem not_foldBack_iff (l : List (P2 ℝ)) (hd : DistinctIdx l) (h2 : 2 ≤ l.length) (i : Nat) :
    (!foldBack (vtx l i) (vtx l (i + 1)) (vtx l (i + 2))) = true ↔
      ∀ x, OnSegProp (vtx l i) (vtx l (i + 1)) x → OnSegProp (vtx l (i + 1)) (vtx l (i + 2)) x → x = vtx l (i + 1) := by
  rw [← foldBack_false_iff _ _ _ (vtx_succ_ne l hd h2 i) (vtx_succ_ne l hd h2 (i + 1))]
  cases foldBack (vtx l i) (vtx l (i + 1)) (vtx l (i + 2)) <;> simp

/-- **the O(n²) Bool predicate is the text-book definition of a simple polygon** -/
theorem simple_iff_simplePolygon_aux (l : List (P2 ℝ)) : Spec.simple l = true ↔ SimplePolygon l := by
  unfold Spec.simple SimplePolygon
  rw [Bool.and_eq_true, Bool.and_eq_true, decide_eq_true_eq, distinct_iff_idx, edgesOK_iff_idx]
  constructor
  · rintro ⟨⟨h3, hd⟩, he⟩
    refine ⟨h3, hd, ?_, ?_⟩
    · intro i j hij hj hna
      have := he i j hij hj
      rw [edgeOK_far l hd h3 i j hij hj hna, not_segMeet_iff] at this
      exact this
    · intro i hi
      rw [← not_foldBack_iff l hd (by omega) i]
      by_cases hlast : i + 1 < l.length
      · have := he i (i + 1) (by omega) hlast
        have e : i + 1 + 1 = i + 2 := rfl
        rw [e, edgeOK_adjacent l hd h3 i] at this
        exact this
      · have hi' : i = l.length - 1 := by omega
        have := he 0 (l.length - 1) (by omega) (by omega)
        have e : 0 + 1 = 1 := rfl
        rw [e, edgeOK_wrap l hd h3] at this
        rw [hi']; exact this
  · rintro ⟨h3, hd, hfar, hadj⟩
    refine ⟨⟨h3, hd⟩, ?_⟩
    intro i j hij hj
    by_cases hna : cycAdjacent l.length i j
    · rcases hna with h | ⟨h0, hn⟩
      · subst h
        have e : i + 1 + 1 = i + 2 := rfl
        rw [e, edgeOK_adjacent l hd h3 i, not_foldBack_iff l hd (by omega) i]
        exact hadj i (by omega)
      · subst h0
        have hj' : j = l.length - 1 := by omega
        subst hj'
        have e : 0 + 1 = 1 := rfl
        rw [e, edgeOK_wrap l hd h3, not_foldBack_iff l hd (by omega)]
        exact hadj (l.length - 1) (by omega)
    · rw [edgeOK_far l hd h3 i j hij hj hna, not_segMeet_iff]
      exact hfar i j hij hj hna

/-! ### crossing diagonals -/

theorem orient_cyc (a b c : P2 ℝ) : orient b c a = orient a b c := by unfold orient; ring

theorem orient_swap23 (a b c : P2 ℝ) : orient a c b = -orient a b c := by unfold orient; ring

/-- the diagonals `ac`, `bd` of a strictly convex (counter-clockwise) quadrilateral `a b c d` cross -/
theorem convex_quad_diagonals_cross (a b c d : P2 ℝ) (h1 : 0 < orient a b c) (h2 : 0 < orient b c d)
    (h3 : 0 < orient c d a) (h4 : 0 < orient d a b) : segMeet a c b d = true := by
  rw [segMeet_iff]
  left
  rw [oppositeSigns_iff, oppositeSigns_iff]
  constructor
  · right
    refine ⟨by rw [orient_swap23]; linarith, ?_⟩
    have : orient a c d = orient c d a := (orient_cyc a c d).symm
    rw [this]; exact h3
  · left
    refine ⟨?_, by rw [orient_swap23]; linarith⟩
    have : orient b d a = orient d a b := (orient_cyc b d a).symm
    rw [this]; exact h4

theorem orient_pos_ne (a b c : P2 ℝ) (h : 0 < orient a b c) : a ≠ b ∧ b ≠ c ∧ a ≠ c := by
  refine ⟨?_, ?_, ?_⟩ <;> intro he <;> subst he <;> unfold orient at h <;> nlinarith

instance : Std.Symm (fun e f : P2 ℝ × P2 ℝ => edgeOK e f = true) := ⟨fun e f h => by rw [edgeOK_symm]; exact h⟩

/-- **a cycle that contains both diagonals of a strictly convex quadrilateral as edges is rejected** -/
theorem crossing_diagonals_not_simple (l : List (P2 ℝ)) (a b c d : P2 ℝ)
    (hac : (a, c) ∈ cycEdges l) (hbd : (b, d) ∈ cycEdges l)
    (h1 : 0 < orient a b c) (h2 : 0 < orient b c d) (h3 : 0 < orient c d a) (h4 : 0 < orient d a b) :
    edgesOK l = false := by
  by_contra hc
  rw [Bool.not_eq_false] at hc
  unfold edgesOK at hc
  rw [allPairs_iff] at hc
  obtain ⟨hab, hbc, _⟩ := orient_pos_ne a b c h1
  obtain ⟨_, hcd, _⟩ := orient_pos_ne b c d h2
  obtain ⟨_, hda, _⟩ := orient_pos_ne c d a h3
  have hne : (a, c) ≠ (b, d) := by
    intro h; injection h with h _; exact hab h
  have hok := hc.forall hac hbd hne
  have e1 : ptEq c b = false := by rw [← Bool.not_eq_true, ptEq_eq]; exact fun h => hbc h.symm
  have e2 : ptEq d a = false := by rw [← Bool.not_eq_true, ptEq_eq]; exact hda
  have e3 : ptEq a b = false := by rw [← Bool.not_eq_true, ptEq_eq]; exact hab
  have e4 : ptEq c d = false := by rw [← Bool.not_eq_true, ptEq_eq]; exact hcd
  unfold edgeOK at hok
  simp only [e1, e2, e3, e4, Bool.false_and, Bool.or_self, Bool.false_eq_true, if_false,
    convex_quad_diagonals_cross a b c d h1 h2 h3 h4, Bool.not_true] at hok

/-! ### star polygons `{n/k}` -/

/-- strictly convex position, listed counter-clockwise: every index triple `i < j < m` turns left -/
def ConvexCCW (pts : List (P2 ℝ)) : Prop :=
  ∀ i j m, i < j → j < m → m < pts.length → 0 < orient (vtx pts i) (vtx pts j) (vtx pts m)

theorem starOrder_eq_map (pts : List (P2 ℝ)) (k : Nat) :
    starOrder pts k = (List.range pts.length).map (fun i => vtx pts (i * k)) := by
  unfold starOrder
  rw [← List.filterMap_eq_map]
  apply List.filterMap_congr
  intro i hi
  have hn : 0 < pts.length := by
    rw [List.mem_range] at hi; omega
  unfold vtx
  simp only [Function.comp]
  rw [List.getD_eq_getElem?_getD, List.getElem?_eq_getElem (Nat.mod_lt _ hn)]
  simp

theorem starOrder_length (pts : List (P2 ℝ)) (k : Nat) : (starOrder pts k).length = pts.length := by
  rw [starOrder_eq_map]; simp

theorem vtx_starOrder (pts : List (P2 ℝ)) (k i : Nat) (hn : 0 < pts.length) :
    vtx (starOrder pts k) i = vtx pts (i * k) := by
  have hlen := starOrder_length pts k
  have hi : i % pts.length < (starOrder pts k).length := by rw [hlen]; exact Nat.mod_lt _ hn
  rw [← vtx_mod (starOrder pts k) i, hlen, vtx_eq_getElem _ _ hi]
  have : (starOrder pts k)[i % pts.length] = ((List.range pts.length).map (fun i => vtx pts (i * k)))[i % pts.length]'(by
      simp; exact Nat.mod_lt _ hn) := by
    congr 1; exact starOrder_eq_map pts k
  rw [this, List.getElem_map, List.getElem_range]
  rw [← vtx_mod pts (i % pts.length * k), ← vtx_mod pts (i * k), Nat.mod_mul_mod]

/-- **every star polygon `{n/k}` of points in strictly convex position is rejected by the O(n²) predicate**:
`2 ≤ k ≤ n − 2`, `gcd(k, n) = 1`. The edges `p₀ p_k` and `p₁ p_{k+1}` are the diagonals of the convex quadrilateral
`p₀ p₁ p_k p_{k+1}`. (All turns of such a cycle have the same sign — it is locally convex with turning number `k` or
`n − k` ≥ 2.) -/
theorem starOrder_edgesOK_false (pts : List (P2 ℝ)) (k : Nat) (hconv : ConvexCCW pts) (hk2 : 2 ≤ k)
    (hkn : k + 2 ≤ pts.length) (hco : Nat.Coprime k pts.length) : edgesOK (starOrder pts k) = false := by
  have hn : 0 < pts.length := by omega
  obtain ⟨m, hm, hmk⟩ := Nat.exists_mul_mod_eq_one_of_coprime hco (show 1 < pts.length by omega)
  have hlen := starOrder_length pts k
  -- edge 0 and edge m of the star
  have hE : ∀ i, i < pts.length →
      (vtx pts (i * k), vtx pts ((i + 1) * k)) ∈ cycEdges (starOrder pts k) := by
    intro i hi
    have hi' : i < (cycEdges (starOrder pts k)).length := by rw [cycEdges_length, hlen]; exact hi
    have := List.getElem_mem hi'
    rwa [cycEdges_getElem, vtx_starOrder pts k i hn, vtx_starOrder pts k (i + 1) hn] at this
  have h0 := hE 0 hn
  have hm' := hE m hm
  have v0 : vtx pts (0 * k) = vtx pts 0 := by rw [Nat.zero_mul]
  have vk : vtx pts ((0 + 1) * k) = vtx pts k := by rw [Nat.zero_add, Nat.one_mul]
  have v1 : vtx pts (m * k) = vtx pts 1 := by
    rw [← vtx_mod, Nat.mul_comm, hmk]
  have vk1 : vtx pts ((m + 1) * k) = vtx pts (k + 1) := by
    rw [← vtx_mod, Nat.add_mul, Nat.one_mul, Nat.add_mod, Nat.mul_comm m k, hmk, Nat.mod_eq_of_lt (show k < pts.length by omega),
      Nat.add_comm 1 k, vtx_mod]
  rw [v0, vk] at h0
  rw [v1, vk1] at hm'
  apply crossing_diagonals_not_simple _ (vtx pts 0) (vtx pts 1) (vtx pts k) (vtx pts (k + 1)) h0 hm'
  · exact hconv 0 1 k (by omega) (by omega) (by omega)
  · exact hconv 1 k (k + 1) (by omega) (by omega) (by omega)
  · have : orient (vtx pts k) (vtx pts (k + 1)) (vtx pts 0) = orient (vtx pts 0) (vtx pts k) (vtx pts (k + 1)) := by
      unfold orient; ring
    rw [this]
    exact hconv 0 k (k + 1) (by omega) (by omega) (by omega)
  · have : orient (vtx pts (k + 1)) (vtx pts 0) (vtx pts 1) = orient (vtx pts 0) (vtx pts 1) (vtx pts (k + 1)) := by
      unfold orient; ring
    rw [this]
    exact hconv 0 1 (k + 1) (by omega) (by omega) (by omega)

end C15
end
