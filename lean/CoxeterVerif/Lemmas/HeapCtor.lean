import CoxeterVerif.Lemmas.Heap
/-!
  # C16 — constructors and the caller's arrays; histories in any scalar arithmetic

  * `runAll_footprint`: for EVERY scalar type (ℝ, ℚ, Float), every externals record and every history
    of queries: a pre-existing array other than the live vertex array is never written, `_vertices` is
    never re-bound, `WF` is kept.
  * `construct_*`: after the constructor of any of the ten classes the object is well formed, no
    attribute is bound to an array of the caller, and the caller's arrays hold what they held.
  Together: whatever the caller passed to the constructor is bit for bit what it was after any
  history of queries (`Props/C16.lean: caller_arrays_never_written`).
-/
namespace C16
open Scalar
set_option maxRecDepth 4000

section hist
variable {α : Type} [Scalar α]

/-- what any history guarantees with no hypothesis on the externals -/
structure Untouched (s t : St α) : Prop where
  wf : Spec.WF t
  next_le : s.next ≤ t.next
  fVerts : t.fVerts = s.fVerts
  cls : t.cls = s.cls
  get_eq : ∀ i, i < s.next → i ≠ s.fVerts → t.get i = s.get i
  detached : ∀ i, i < s.next → Spec.Detached s i → Spec.Detached t i

omit [Scalar α] in
/-- an array no attribute was bound to stays unbound: attributes keep their array or take a NEW one -/
theorem Frame.detached {s t : St α} (f : Frame s t) (i : Id) (hi : i < s.next) (hd : Spec.Detached s i) :
    Spec.Detached t i := by
  have kn : ∀ (g : St α → Id), KeptOrNew s t g → i ≠ g s → i ≠ g t := by
    intro g hk hg
    rcases hk with hk | hk
    · rw [hk]; exact hg
    · omega
  exact ⟨by rw [f.fVerts]; exact hd.1, kn _ f.fNormal hd.2.1, kn _ f.fCen hd.2.2.1, kn _ f.fEqs hd.2.2.2.1,
    kn _ f.fSeqs hd.2.2.2.2⟩

theorem run_untouched (M : Meas α) (q : Query) (s : St α) (hw : Spec.WF s) (ha : ArgsOk s q) :
    Untouched s (run M q s).1 :=
  ⟨run_wf M q s hw ha, (step_frame M q s hw).1.next_le, (step_frame M q s hw).1.fVerts,
    (step_frame M q s hw).1.cls, (step_frame M q s hw).1.get_eq, (step_frame M q s hw).1.detached⟩

/-- **footprint of a history, any scalar type** -/
theorem runAll_footprint (M : Meas α) : ∀ (qs : List Query) (s : St α), Spec.WF s →
    (∀ q, q ∈ qs → ArgsOk s q) → Untouched s (runAll M qs s) := by
  intro qs
  induction qs with
  | nil => intro s hw _; exact ⟨hw, Nat.le_refl _, rfl, rfl, fun _ _ _ => rfl, fun _ _ h => h⟩
  | cons q qs ih =>
    intro s hw ha
    have h1 := run_untouched M q s hw (ha q (List.mem_cons_self ..))
    have h2 := ih (run M q s).1 h1.wf
      (fun q' hq' a h => Nat.lt_of_lt_of_le (ha q' (List.mem_cons_of_mem _ hq') a h) h1.next_le)
    refine ⟨h2.wf, Nat.le_trans h1.next_le h2.next_le, h2.fVerts.trans h1.fVerts, h2.cls.trans h1.cls, ?_,
      fun i hi hd => h2.detached i (Nat.lt_of_lt_of_le hi h1.next_le) (h1.detached i hi hd)⟩
    intro i hi hv
    have e1 := h1.get_eq i hi hv
    have e2 := h2.get_eq i (Nat.lt_of_lt_of_le hi h1.next_le) (by rw [h1.fVerts]; exact hv)
    exact e2.trans e1

end hist

/-! ## constructors -/
section ctor
variable {α : Type} [Scalar α]

/-- the caller's arrays handed to the constructor of class `cls` -/
def CtorIn.callerIds (c : CtorIn α) (cls : Cls) : List Id :=
  match cls.kind with
  | .curved => [c.center]
  | .planar => c.verts :: c.normal.toList
  | _ => [c.verts]

/-- they exist in the heap the constructor starts from -/
def CtorIn.Ok (c : CtorIn α) (cls : Cls) (next : Id) : Prop := ∀ i, i ∈ c.callerIds cls → i < next

/-- what a constructor guarantees: a well-formed object none of whose attributes is a pre-existing
array, and the pre-existing heap untouched -/
structure Built (h : Heap α) (next : Id) (ids : List Id) (s : St α) : Prop where
  wf : Spec.WF s
  next_le : next ≤ s.next
  fVerts : next ≤ s.fVerts
  fNormal : next ≤ s.fNormal
  fCen : next ≤ s.fCen
  fEqs : next ≤ s.fEqs
  fSeqs : next ≤ s.fSeqs
  get_eq : ∀ i, i < next → s.get i = Heap.get h i
  args : s.args = ids

theorem blank_built (cls : Cls) (h : Heap α) (next : Id) (consts : List α) (ids : List Id)
    (hids : ∀ i, i ∈ ids → i < next) : Built h next ids (blank cls h next consts ids) := by
  refine ⟨⟨?_, ?_, ?_, ?_, ?_, ?_, ?_, ?_, ?_, ?_⟩, ?_, ?_, ?_, ?_, ?_, ?_, ?_, rfl⟩
  all_goals try (simp only [blank]; omega)
  · simp [blank]
  · simp [blank]
  · simp [blank]
  · intro i hi; simp [blank] at hi
  · intro i hi; simp only [blank] at hi ⊢; have := hids i hi; omega
  · intro i hi
    simp only [St.get, blank]
    rw [Heap.get_set_other _ _ _ _ (by omega), Heap.get_set_other _ _ _ _ (by omega),
      Heap.get_set_other _ _ _ _ (by omega), Heap.get_set_other _ _ _ _ (by omega),
      Heap.get_set_other _ _ _ _ (by omega)]

omit [Scalar α] in
/-- re-binding `_vertices` to a freshly allocated array -/
theorem Built.allocVerts {h : Heap α} {next : Id} {ids : List Id} {s : St α} (b : Built h next ids s) (a : Arr α) :
    Built h next ids ((s.alloc a).setVerts s.next) := by
  have w := b.wf
  refine ⟨⟨?_, ?_, ?_, ?_, ?_, ?_, ?_, ?_, ?_, ?_⟩, ?_, ?_, b.fNormal, b.fCen, b.fEqs, b.fSeqs, ?_, b.args⟩
  · show s.next < s.next + 1; omega
  · exact ⟨Nat.lt_succ_of_lt w.normal.1, Nat.ne_of_lt w.normal.1⟩
  · exact ⟨Nat.lt_succ_of_lt w.cen.1, Nat.ne_of_lt w.cen.1⟩
  · exact ⟨Nat.lt_succ_of_lt w.eqs.1, Nat.ne_of_lt w.eqs.1⟩
  · exact ⟨Nat.lt_succ_of_lt w.seqs.1, Nat.ne_of_lt w.seqs.1⟩
  · intro i hi; have := w.areas i hi; exact ⟨Nat.lt_succ_of_lt this.1, Nat.ne_of_lt this.1⟩
  · intro i hi; have := w.faceCen i hi; exact ⟨Nat.lt_succ_of_lt this.1, Nat.ne_of_lt this.1⟩
  · intro i hi; have := w.edges i hi; exact ⟨Nat.lt_succ_of_lt this.1, Nat.ne_of_lt this.1⟩
  · intro i hi; exact Nat.lt_succ_of_lt (w.handed i hi)
  · intro i hi; exact Nat.lt_succ_of_lt (w.args i hi)
  · show next ≤ s.next + 1; have := b.next_le; omega
  · exact b.next_le
  · intro i hi
    show (s.alloc a).get i = _
    rw [St.get_alloc_of_lt _ _ _ (Nat.lt_of_lt_of_le hi b.next_le)]
    exact b.get_eq i hi

omit [Scalar α] in
/-- anything a `Frame` step does (allocate, write the vertex array or a new array, re-bind another
attribute to a new array) keeps `Built`, provided the vertex array is not a pre-existing one -/
theorem Built.of_frame {h : Heap α} {next : Id} {ids : List Id} {s t : St α} (b : Built h next ids s) (f : Frame s t) :
    Built h next ids t := by
  have kn : ∀ (g : St α → Id), KeptOrNew s t g → next ≤ g s → next ≤ g t := by
    intro g hk hg
    rcases hk with hk | hk
    · rw [hk]; exact hg
    · exact Nat.le_trans b.next_le hk.1
  refine ⟨WF.of_frame b.wf f, Nat.le_trans b.next_le f.next_le, by rw [f.fVerts]; exact b.fVerts,
    kn _ f.fNormal b.fNormal, kn _ f.fCen b.fCen, kn _ f.fEqs b.fEqs, kn _ f.fSeqs b.fSeqs, ?_, by rw [f.args]; exact b.args⟩
  intro i hi
  rw [f.get_eq i (Nat.lt_of_lt_of_le hi b.next_le) (by have := b.fVerts; omega)]
  exact b.get_eq i hi

omit [Scalar α] in
/-- re-binding `_normal` to an array allocated since `s` -/
theorem Frame.setNormalNew {s t : St α} (f : Frame s t) (k : Id) (h1 : s.next ≤ k) (h2 : k < t.next) :
    Frame s (t.setNormal k) :=
  { next_le := f.next_le, get_eq := f.get_eq, fVerts := f.fVerts, cls := f.cls, consts := f.consts,
    handed := f.handed, args := f.args, fNormal := Or.inr ⟨h1, h2⟩, fCen := f.fCen, fEqs := f.fEqs,
    fSeqs := f.fSeqs, cAreas := f.cAreas, cFaceCen := f.cFaceCen, cEdges := f.cEdges }

theorem ctorNormal_frame (c : CtorIn α) (s : St α) : Frame s (ctorNormal c s) := by
  unfold ctorNormal
  have f1 : Frame s ((s.alloc c.computedNormal).setNormal s.next) := Frame.allocNormal s c.computedNormal
  split
  · exact f1
  · rename_i n _
    have f2 := f1.trans (Frame.alloc ((s.alloc c.computedNormal).setNormal s.next)
      (((s.alloc c.computedNormal).setNormal s.next).get n))
    have f3 := f2.writeSince ((s.alloc c.computedNormal).setNormal s.next).next
      (normalise ((((s.alloc c.computedNormal).setNormal s.next).alloc
        (((s.alloc c.computedNormal).setNormal s.next).get n)).get ((s.alloc c.computedNormal).setNormal s.next).next))
      (by show s.next ≤ s.next + 1; omega)
    exact f3.setNormalNew _ (by show s.next ≤ s.next + 1; omega) (by show s.next + 1 < s.next + 1 + 1; omega)

theorem ctorVerts_built {h : Heap α} {next : Id} {ids : List Id} {s : St α} (c : CtorIn α)
    (b : Built h next ids s) : Built h next ids (ctorVerts c s) := by
  unfold ctorVerts
  have b1 := b.allocVerts (s.get c.verts)
  split
  · exact b1.allocVerts _
  · exact b1

theorem constructPlanar_built {h : Heap α} {next : Id} {ids : List Id} {s : St α} (c : CtorIn α)
    (b : Built h next ids s) : Built h next ids (constructPlanar c s) :=
  (ctorVerts_built c b).of_frame (ctorNormal_frame c _)

omit [Scalar α] in
/-- no attribute of a constructed object is a pre-existing array -/
theorem Built.detached {h : Heap α} {next : Id} {ids : List Id} {s : St α} (b : Built h next ids s) (i : Id)
    (hi : i < next) : Spec.Detached s i := by
  have := b.fVerts; have := b.fNormal; have := b.fCen; have := b.fEqs; have := b.fSeqs
  refine ⟨?_, ?_, ?_, ?_, ?_⟩ <;> omega

/-- **every constructor**: the object is well formed, every attribute is bound to an array created
by the constructor, the heap the caller had is untouched, the caller's arrays are recorded -/
theorem construct_built (cls : Cls) (c : CtorIn α) (h : Heap α) (next : Id) (hc : c.Ok cls next) :
    Built h next (c.callerIds cls) (construct cls c h next) := by
  cases cls
  case circle => exact (blank_built Cls.circle h next c.consts [c.center] hc).of_frame (Frame.allocCen _ _)
  case ellipse => exact (blank_built Cls.ellipse h next c.consts [c.center] hc).of_frame (Frame.allocCen _ _)
  case sphere => exact (blank_built Cls.sphere h next c.consts [c.center] hc).of_frame (Frame.allocCen _ _)
  case ellipsoid => exact (blank_built Cls.ellipsoid h next c.consts [c.center] hc).of_frame (Frame.allocCen _ _)
  case polygon =>
    exact constructPlanar_built c (blank_built Cls.polygon h next c.consts _ hc)
  case convexPolygon =>
    exact (constructPlanar_built c (blank_built Cls.convexPolygon h next c.consts (c.verts :: c.normal.toList) hc)).allocVerts _
  case spheropolygon =>
    exact (constructPlanar_built c (blank_built Cls.spheropolygon h next c.consts (c.verts :: c.normal.toList) hc)).allocVerts _
  case polyhedron =>
    exact ((blank_built Cls.polyhedron h next c.consts [c.verts] hc).allocVerts
      ((blank Cls.polyhedron h next c.consts [c.verts]).get c.verts)).of_frame (Frame.allocEqs _ _)
  case convexPolyhedron =>
    exact (((((blank_built Cls.convexPolyhedron h next c.consts [c.verts] hc).allocVerts
      ((blank Cls.convexPolyhedron h next c.consts [c.verts]).get c.verts)).of_frame (Frame.allocSeqs _ _)).of_frame
        (Frame.allocEqs _ _)).of_frame (Frame.allocCen _ _)).of_frame (Frame.setVolume _ _)
  case spheropolyhedron =>
    exact (((((blank_built Cls.spheropolyhedron h next c.consts [c.verts] hc).allocVerts
      ((blank Cls.spheropolyhedron h next c.consts [c.verts]).get c.verts)).of_frame (Frame.allocSeqs _ _)).of_frame
        (Frame.allocEqs _ _)).of_frame (Frame.allocCen _ _)).of_frame (Frame.setVolume _ _)

end ctor
end C16
