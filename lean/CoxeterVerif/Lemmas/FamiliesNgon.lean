import CoxeterVerif.Lemmas.Families
import Mathlib.Tactic.LinearCombination
/-! Helper lemmas for C17: the regular n-gon of `_make_ngon` and the uniform prism. -/
open Scalar
set_option maxRecDepth 4000

namespace Fam
noncomputable section

/-- angular step `2π/n` -/
def delta (n : Nat) : ℝ := 2 * Real.pi / n

theorem ngonTheta_real (n : Nat) (angle : ℝ) (k : Nat) :
    ngonTheta n angle k = k * delta n + angle := by
  simp [ngonTheta, delta, Scalar.lit]

theorem ngonScale_real (n : Nat) (area : ℝ) :
    ngonScale n area = Real.sqrt (area / (1 / 2 * n * Real.sin (delta n))) := by
  simp [ngonScale, delta, Scalar.lit, Scalar.q]

theorem ngonVertex_real (n : Nat) (z area angle : ℝ) (k : Nat) :
    ngonVertex n z area angle k =
      ⟨Real.cos (k * delta n + angle) * ngonScale n area,
       Real.sin (k * delta n + angle) * ngonScale n area, z⟩ := by
  simp [ngonVertex, ngonTheta_real]

theorem delta_pos {n : Nat} (hn : 3 ≤ n) : 0 < delta n := by
  unfold delta
  have : (0:ℝ) < n := by exact_mod_cast (by omega : 0 < n)
  positivity

theorem delta_lt_pi {n : Nat} (hn : 3 ≤ n) : delta n < Real.pi := by
  unfold delta
  have h3 : (3:ℝ) ≤ n := by exact_mod_cast hn
  rw [div_lt_iff₀ (by linarith)]
  nlinarith [Real.pi_pos]

theorem sin_delta_pos {n : Nat} (hn : 3 ≤ n) : 0 < Real.sin (delta n) :=
  Real.sin_pos_of_pos_of_lt_pi (delta_pos hn) (delta_lt_pi hn)

theorem n_mul_delta {n : Nat} (hn : 3 ≤ n) : (n : ℝ) * delta n = 2 * Real.pi := by
  unfold delta
  have : (n:ℝ) ≠ 0 := by exact_mod_cast (by omega : n ≠ 0)
  field_simp

/-- the squared circumradius: `s² = area / (n/2 · sin δ)` for a non-negative area -/
theorem ngonScale_sq {n : Nat} (hn : 3 ≤ n) {area : ℝ} (ha : 0 ≤ area) :
    ngonScale n area * ngonScale n area = area / (1 / 2 * n * Real.sin (delta n)) := by
  rw [ngonScale_real]
  apply Real.mul_self_sqrt
  have : (0:ℝ) < n := by exact_mod_cast (by omega : 0 < n)
  have := sin_delta_pos hn
  positivity

theorem ngonScale_pos {n : Nat} (hn : 3 ≤ n) {area : ℝ} (ha : 0 < area) : 0 < ngonScale n area := by
  rw [ngonScale_real]
  apply Real.sqrt_pos.mpr
  have : (0:ℝ) < n := by exact_mod_cast (by omega : 0 < n)
  have := sin_delta_pos hn
  positivity

/-- cross term of consecutive vertices: `x_k y_{k+1} − x_{k+1} y_k = s² sin δ` -/
theorem ngon_cross_step (n : Nat) (z area angle : ℝ) (k : Nat) :
    (ngonVertex n z area angle k).x * (ngonVertex n z area angle (k + 1)).y
      - (ngonVertex n z area angle (k + 1)).x * (ngonVertex n z area angle k).y
      = ngonScale n area * ngonScale n area * Real.sin (delta n) := by
  simp only [ngonVertex_real]
  have h : ((k + 1 : ℕ) : ℝ) * delta n + angle = (k * delta n + angle) + delta n := by
    push_cast; ring
  rw [h]
  generalize (k:ℝ) * delta n + angle = θ
  rw [Real.sin_add, Real.cos_add]
  linear_combination (ngonScale n area * ngonScale n area * Real.sin (delta n)) *
    (Real.sin_sq_add_cos_sq θ)

/-- the vertex function is `n`-periodic -/
theorem ngonVertex_periodic {n : Nat} (hn : 3 ≤ n) (z area angle : ℝ) (k : Nat) :
    ngonVertex n z area angle (k + n) = ngonVertex n z area angle k := by
  simp only [ngonVertex_real]
  have h : ((k + n : ℕ) : ℝ) * delta n + angle = (k * delta n + angle) + 2 * Real.pi := by
    push_cast; rw [add_mul, n_mul_delta hn]; ring
  rw [h, Real.cos_add_two_pi, Real.sin_add_two_pi]

theorem ngon_on_circle (n : Nat) (z area angle : ℝ) (k : Nat) :
    (ngonVertex n z area angle k).x ^ 2 + (ngonVertex n z area angle k).y ^ 2
      = ngonScale n area * ngonScale n area := by
  simp only [ngonVertex_real]
  nlinarith [Real.sin_sq_add_cos_sq (k * delta n + angle)]

/-- squared length of the edge between consecutive vertices -/
theorem ngon_edge_sq (n : Nat) (z area angle : ℝ) (k : Nat) :
    dist2 (ngonVertex n z area angle k) (ngonVertex n z area angle (k + 1))
      = 2 * (ngonScale n area * ngonScale n area) * (1 - Real.cos (delta n)) := by
  simp only [dist2, V3.normSq, V3.dot, V3.sub_x, V3.sub_y, V3.sub_z, ngonVertex_real]
  have h : ((k + 1 : ℕ) : ℝ) * delta n + angle = (k * delta n + angle) + delta n := by
    push_cast; ring
  rw [h]
  generalize (k:ℝ) * delta n + angle = θ
  have hδ : Real.cos (delta n) = Real.cos (θ + delta n) * Real.cos θ + Real.sin (θ + delta n) * Real.sin θ := by
    rw [← Real.cos_sub]; congr 1; ring
  linear_combination (ngonScale n area * ngonScale n area) * (Real.sin_sq_add_cos_sq θ)
    + (ngonScale n area * ngonScale n area) * (Real.sin_sq_add_cos_sq (θ + delta n))
    + 2 * (ngonScale n area * ngonScale n area) * hδ

/-! ### shoelace sum over a run of consecutive vertices -/

theorem shoelace_go_range' (f : Nat → V3 ℝ) (v0 : V3 ℝ) (K : ℝ)
    (hK : ∀ k, (f k).x * (f (k + 1)).y - (f (k + 1)).x * (f k).y = K) (m s : Nat) :
    shoelace.go v0 ((List.range' s (m + 1)).map f)
      = m * K + ((f (s + m)).x * v0.y - v0.x * (f (s + m)).y) := by
  induction m generalizing s with
  | zero => simp [List.range', shoelace.go]
  | succ m ih =>
    have : List.range' s (m + 1 + 1) = s :: List.range' (s + 1) (m + 1) := by
      simp [List.range'_succ]
    rw [this, List.map_cons]
    have h2 : List.range' (s + 1) (m + 1) = (s + 1) :: List.range' (s + 1 + 1) m := by
      simp [List.range'_succ]
    rw [h2, List.map_cons, shoelace.go, ← List.map_cons, ← h2, ih, hK]
    have : s + 1 + m = s + (m + 1) := by omega
    rw [this]; push_cast; ring

/-- shoelace area of `n ≥ 1` consecutive values of a vertex function with constant cross step `K`
    and closing step `K`:  n·K/2 -/
theorem shoelace_map_range (f : Nat → V3 ℝ) (K : ℝ) (n : Nat) (hn : 1 ≤ n)
    (hK : ∀ k, (f k).x * (f (k + 1)).y - (f (k + 1)).x * (f k).y = K)
    (hclose : (f (n - 1)).x * (f 0).y - (f 0).x * (f (n - 1)).y = K) :
    shoelace ((List.range n).map f) = n * K / 2 := by
  obtain ⟨m, rfl⟩ : ∃ m, n = m + 1 := ⟨n - 1, by omega⟩
  have hr : List.range (m + 1) = List.range' 0 (m + 1) := by simp [List.range_eq_range']
  have hhead : (List.range' 0 (m + 1)).map f = f 0 :: (List.range' 1 m).map f := by
    simp [List.range'_succ]
  rw [hr]
  unfold shoelace
  rw [hhead]
  simp only []
  rw [← hhead, shoelace_go_range' f (f 0) K hK m 0]
  simp only [Nat.zero_add, Nat.add_sub_cancel] at hclose ⊢
  rw [hclose]
  simp only [Scalar.lit, Scalar.ofNat_real]
  push_cast; ring

/-- **shoelace area of the n-gon of `_make_ngon` is the requested area** (n ≥ 3, area ≥ 0) -/
theorem ngon_shoelace {n : Nat} (hn : 3 ≤ n) (z area angle : ℝ) (ha : 0 ≤ area) :
    shoelace ((List.range n).map (ngonVertex n z area angle)) = area := by
  have hclose : (ngonVertex n z area angle (n - 1)).x * (ngonVertex n z area angle 0).y
      - (ngonVertex n z area angle 0).x * (ngonVertex n z area angle (n - 1)).y
      = ngonScale n area * ngonScale n area * Real.sin (delta n) := by
    have h := ngon_cross_step n z area angle (n - 1)
    have hp := ngonVertex_periodic hn z area angle 0
    have e : n - 1 + 1 = 0 + n := by omega
    rw [e, hp] at h
    exact h
  rw [shoelace_map_range _ _ n (by omega) (ngon_cross_step n z area angle) hclose, ngonScale_sq hn ha]
  have hs := sin_delta_pos hn
  have hn0 : (0:ℝ) < n := by exact_mod_cast (by omega : 0 < n)
  field_simp

/-! ### cube roots -/

theorem cbrt_pos {x : ℝ} (hx : 0 < x) : 0 < (Scalar.cbrt x : ℝ) := by
  show 0 < (if 0 ≤ x then x ^ ((1:ℝ)/3) else -((-x) ^ ((1:ℝ)/3)))
  rw [if_pos hx.le]
  exact Real.rpow_pos_of_pos hx _

theorem cbrt_cube {x : ℝ} (hx : 0 ≤ x) : (Scalar.cbrt x : ℝ) ^ 3 = x := by
  show (if 0 ≤ x then x ^ ((1:ℝ)/3) else -((-x) ^ ((1:ℝ)/3))) ^ 3 = x
  rw [if_pos hx, ← Real.rpow_natCast, ← Real.rpow_mul hx]
  norm_num

/-! ### half-angle facts: `π/n` -/

theorem pi_div_pos {n : Nat} (hn : 3 ≤ n) : 0 < Real.pi / n := by
  have : (0:ℝ) < n := by exact_mod_cast (by omega : 0 < n)
  positivity

theorem pi_div_lt {n : Nat} (hn : 3 ≤ n) : Real.pi / n < Real.pi / 2 := by
  have h3 : (3:ℝ) ≤ n := by exact_mod_cast hn
  rw [div_lt_div_iff₀ (by linarith) (by norm_num)]
  nlinarith [Real.pi_pos]

theorem sin_pi_div_pos {n : Nat} (hn : 3 ≤ n) : 0 < Real.sin (Real.pi / n) :=
  Real.sin_pos_of_pos_of_lt_pi (pi_div_pos hn) (by linarith [pi_div_lt hn, Real.pi_pos])

theorem cos_pi_div_pos {n : Nat} (hn : 3 ≤ n) : 0 < Real.cos (Real.pi / n) :=
  Real.cos_pos_of_mem_Ioo ⟨by linarith [pi_div_pos hn, Real.pi_pos], pi_div_lt hn⟩

theorem tan_pi_div_pos {n : Nat} (hn : 3 ≤ n) : 0 < Real.tan (Real.pi / n) := by
  rw [Real.tan_eq_sin_div_cos]
  exact div_pos (sin_pi_div_pos hn) (cos_pi_div_pos hn)

theorem delta_eq_two_mul (n : Nat) : delta n = 2 * (Real.pi / n) := by
  unfold delta; ring

theorem sin_delta_eq (n : Nat) :
    Real.sin (delta n) = 2 * Real.sin (Real.pi / n) * Real.cos (Real.pi / n) := by
  rw [delta_eq_two_mul, Real.sin_two_mul]

theorem one_sub_cos_delta (n : Nat) :
    1 - Real.cos (delta n) = 2 * Real.sin (Real.pi / n) ^ 2 := by
  rw [delta_eq_two_mul, Real.cos_two_mul]
  nlinarith [Real.sin_sq_add_cos_sq (Real.pi / n)]

end
end Fam
