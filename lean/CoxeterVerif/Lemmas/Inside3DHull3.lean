import CoxeterVerif.Lemmas.Inside3DCert
/-!
  C05, convex bodies — part 4: the CLOSED form of "no facet is missing" (boundary points included).

  * `exists_tet_small`   : for a point strictly inside all triangle planes, and every small `s > 0`,
                           the point lies in a cone tetrahedron from the apex `o(s)` on the curve
                           `o + s(u−o) + s²(v−o) + s³(w−o)`;
  * `exists_tet_fixed`   : hence (finite pigeonhole + a polynomial that is `≥ 0` at arbitrarily small
                           `s > 0` has a non-negative constant term) in a cone tetrahedron from `o` itself;
  * `memHull_of_inner_side_closed` : the cone from `o` is invariant under shrinking towards `o`, so
                           a point with `0 ≤ orient p t` for ALL triangles is in a cone tetrahedron.
-/
open Scalar
set_option maxRecDepth 4000
noncomputable section

namespace Inside3D
open Spec.In3D CCk

/-- the apex curve used in `memHull_of_inner_side`: for all small `s` the point is in a cone
tetrahedron from the apex `p − curve s` -/
theorem exists_tet_small {S : List (Tri ℝ)} (hcl : ClosedSurface S)
    (o : V3 ℝ) {t1 : Tri ℝ} (ht1 : t1 ∈ S) (h1 : orient o t1.a t1.b t1.c ≠ 0)
    (p : V3 ℝ) (hp : ∀ t ∈ S, 0 < orient p t.a t.b t.c) :
    ∃ ε0 : ℝ, 0 < ε0 ∧ ∀ s, 0 < s → s ≤ ε0 → ∃ t ∈ S,
      inTet ⟨p - curve (p - o) (o - t1.a) (o - t1.b) (o - t1.c) s, t.a, t.b, t.c⟩ p = true := by
  have hge := windingSum_ge_two hcl ht1 p hp
  have hspan : V3.det3 (o - t1.a) (o - t1.b) (o - t1.c) ≠ 0 := by
    have e : V3.det3 (o - t1.a) (o - t1.b) (o - t1.c) = -orient o t1.a t1.b t1.c := by
      obtain ⟨ox, oy, oz⟩ := o
      obtain ⟨⟨ax, ay, az⟩, ⟨bx, b_y, bz⟩, ⟨cx, cy, cz⟩⟩ := t1
      unfold orient V3.det3 V3.dot V3.cross
      simp only [V3.sub_x, V3.sub_y, V3.sub_z]; ring
    rw [e]; exact neg_ne_zero.mpr h1
  obtain ⟨ε0, h0, hk⟩ := generic_apex S p (fun t ht => (hp t ht).ne') (p - o) (o - t1.a) (o - t1.b)
    (o - t1.c) (Or.inr hspan)
  refine ⟨ε0, h0, fun s hs hle => ?_⟩
  have hoff := hk s hs hle
  have hge' := hge
  rw [windingSum_eq_signedCount (cone_closed' hcl _) p hoff, signedCount_cone] at hge'
  obtain ⟨t, ht, hpos⟩ := exists_pos_of_sum_pos _ S (by linarith)
  exact ⟨t, ht, term_pos_inTet _ p t.a t.b t.c hpos⟩

/-! ### finite pigeonhole on "arbitrarily small `s`" -/

theorem pigeonhole_small {β : Type} (A : β → ℝ → Prop) : ∀ (l : List β) (ε0 : ℝ), 0 < ε0 →
    (∀ s, 0 < s → s ≤ ε0 → ∃ t ∈ l, A t s) →
    ∃ t ∈ l, ∀ δ, 0 < δ → ∃ s, 0 < s ∧ s ≤ δ ∧ A t s
  | [], ε0, h0, h => by
    obtain ⟨t, ht, _⟩ := h ε0 h0 le_rfl
    simp at ht
  | t :: l, ε0, h0, h => by
    by_cases hc : ∀ δ, 0 < δ → ∃ s, 0 < s ∧ s ≤ δ ∧ A t s
    · exact ⟨t, List.mem_cons_self, hc⟩
    · push Not at hc
      obtain ⟨δ0, hδ0, hno⟩ := hc
      have hmin : 0 < Min.min ε0 δ0 := lt_min h0 hδ0
      obtain ⟨t', ht', h'⟩ := pigeonhole_small A l (Min.min ε0 δ0) hmin (by
        intro s hs hle
        obtain ⟨u, hu, hA⟩ := h s hs (hle.trans (min_le_left _ _))
        rcases List.mem_cons.mp hu with rfl | hu'
        · exact absurd hA (hno s hs (hle.trans (min_le_right _ _)))
        · exact ⟨u, hu', hA⟩)
      exact ⟨t', List.mem_cons_of_mem _ ht', h'⟩

/-- a polynomial that is `≥ 0` at arbitrarily small positive arguments has a non-negative constant term -/
theorem evalPoly_head_nonneg (c : ℝ) (cs : List ℝ)
    (h : ∀ δ, 0 < δ → ∃ s, 0 < s ∧ s ≤ δ ∧ 0 ≤ evalPoly (c :: cs) s) : 0 ≤ c := by
  by_contra hc
  have hneg : 0 < -c := by linarith
  set B := (cs.map fun c => |c|).sum with hB
  have hBn : 0 ≤ B := by
    rw [hB]; apply List.sum_nonneg; intro x hx
    obtain ⟨y, _, rfl⟩ := List.mem_map.mp hx; exact abs_nonneg y
  obtain ⟨ε0, h0, hle1, hk⟩ := pos_small (-c) B hneg hBn
  obtain ⟨s, hs, hsle, hge⟩ := h ε0 h0
  have hb := evalPoly_bound cs s hs.le (hsle.trans hle1)
  have := hk s hs hsle (-(evalPoly cs s)) (by rw [abs_neg]; exact hb)
  simp only [evalPoly] at hge
  linarith

/-- … and a positive constant term keeps the polynomial positive for small arguments -/
theorem evalPoly_pos_small (c : ℝ) (cs : List ℝ) (hc : 0 < c) :
    ∃ ε0 : ℝ, 0 < ε0 ∧ ∀ s, 0 < s → s ≤ ε0 → 0 < evalPoly (c :: cs) s := by
  set B := (cs.map fun c => |c|).sum with hB
  have hBn : 0 ≤ B := by
    rw [hB]; apply List.sum_nonneg; intro x hx
    obtain ⟨y, _, rfl⟩ := List.mem_map.mp hx; exact abs_nonneg y
  obtain ⟨ε0, h0, hle1, hk⟩ := pos_small c B hc hBn
  refine ⟨ε0, h0, fun s hs hsle => ?_⟩
  have hb := evalPoly_bound cs s hs.le (hsle.trans hle1)
  simpa [evalPoly] using hk s hs hsle _ hb

theorem sub_sub_self' (p o : V3 ℝ) : p - (p - o) = o := by
  obtain ⟨px, py, pz⟩ := p; obtain ⟨ox, oy, oz⟩ := o
  ext <;> simp

theorem curve_zero (X0 X1 X2 X3 : V3 ℝ) : curve X0 X1 X2 X3 0 = X0 := by
  unfold curve; ext <;> simp

/-- **fixed apex.**  `o` strictly inside all triangle planes; every point strictly inside all triangle
planes lies in a (closed) cone tetrahedron `(o, t)`. -/
theorem exists_tet_fixed {S : List (Tri ℝ)} (hcl : ClosedSurface S) (hne : S ≠ [])
    (o : V3 ℝ) (ho : ∀ t ∈ S, 0 < orient o t.a t.b t.c)
    (p : V3 ℝ) (hp : ∀ t ∈ S, 0 < orient p t.a t.b t.c) :
    ∃ t ∈ S, inTet ⟨o, t.a, t.b, t.c⟩ p = true := by
  obtain ⟨t1, ht1⟩ := List.exists_mem_of_ne_nil S hne
  obtain ⟨ε0, h0, hk⟩ := exists_tet_small hcl o ht1 (ho t1 ht1).ne' p hp
  set X0 := p - o
  set X1 := o - t1.a
  set X2 := o - t1.b
  set X3 := o - t1.c
  obtain ⟨t, ht, hsmall⟩ := pigeonhole_small
    (fun (t : Tri ℝ) (s : ℝ) => inTet ⟨p - curve X0 X1 X2 X3 s, t.a, t.b, t.c⟩ p = true) S ε0 h0 hk
  refine ⟨t, ht, ?_⟩
  have hp0 := hp t ht
  -- the three apex-dependent barycentric coordinates are polynomials in `s`, non-negative for arbitrarily small `s`
  have hb : ∀ δ, 0 < δ → ∃ s, 0 < s ∧ s ≤ δ ∧
      0 ≤ orient (p - curve X0 X1 X2 X3 s) p t.b t.c ∧ 0 ≤ orient (p - curve X0 X1 X2 X3 s) t.a p t.c ∧
      0 ≤ orient (p - curve X0 X1 X2 X3 s) t.a t.b p := by
    intro δ hδ
    obtain ⟨s, hs, hsle, hin⟩ := hsmall δ hδ
    refine ⟨s, hs, hsle, ?_⟩
    simp only [inTet, bary, List.all_cons, List.all_nil, Bool.and_true, Bool.or_eq_true,
      Bool.and_eq_true, decide_eq_true_iff, Scalar.lit, Scalar.ofNat_real, Nat.cast_zero] at hin
    rcases hin with ⟨_, _, g1, g2, g3⟩ | ⟨_, g0, _⟩
    · exact ⟨g1, g2, g3⟩
    · exact absurd g0 (not_le.mpr hp0)
  have e1 : orient o p t.b t.c = V3.det3 X0 (t.b - p) (t.c - p) := by
    have := orient_apex1 p X0 t.b t.c; rw [sub_sub_self'] at this; exact this
  have e2 : orient o t.a p t.c = V3.det3 (t.a - p) X0 (t.c - p) := by
    have := orient_apex2 p X0 t.a t.c; rw [sub_sub_self'] at this; exact this
  have e3 : orient o t.a t.b p = V3.det3 (t.a - p) (t.b - p) X0 := by
    have := orient_apex3 p X0 t.a t.b; rw [sub_sub_self'] at this; exact this
  have g1 : 0 ≤ orient o p t.b t.c := by
    rw [e1]
    apply evalPoly_head_nonneg _ [V3.det3 X1 (t.b - p) (t.c - p), V3.det3 X2 (t.b - p) (t.c - p),
      V3.det3 X3 (t.b - p) (t.c - p)]
    intro δ hδ
    obtain ⟨s, hs, hsle, q1, _, _⟩ := hb δ hδ
    exact ⟨s, hs, hsle, by rw [← det3_curve1, ← orient_apex1]; exact q1⟩
  have g2 : 0 ≤ orient o t.a p t.c := by
    rw [e2]
    apply evalPoly_head_nonneg _ [V3.det3 (t.a - p) X1 (t.c - p), V3.det3 (t.a - p) X2 (t.c - p),
      V3.det3 (t.a - p) X3 (t.c - p)]
    intro δ hδ
    obtain ⟨s, hs, hsle, _, q2, _⟩ := hb δ hδ
    exact ⟨s, hs, hsle, by rw [← det3_curve2, ← orient_apex2]; exact q2⟩
  have g3 : 0 ≤ orient o t.a t.b p := by
    rw [e3]
    apply evalPoly_head_nonneg _ [V3.det3 (t.a - p) (t.b - p) X1, V3.det3 (t.a - p) (t.b - p) X2,
      V3.det3 (t.a - p) (t.b - p) X3]
    intro δ hδ
    obtain ⟨s, hs, hsle, _, _, q3⟩ := hb δ hδ
    exact ⟨s, hs, hsle, by rw [← det3_curve3, ← orient_apex3]; exact q3⟩
  simp only [inTet, bary, List.all_cons, List.all_nil, Bool.and_true, Bool.or_eq_true,
    Bool.and_eq_true, decide_eq_true_iff, Scalar.lit, Scalar.ofNat_real, Nat.cast_zero]
  exact Or.inl ⟨ho t ht, hp0.le, g1, g2, g3⟩

/-- `orient` is affine in its first argument along the segment towards `o` -/
theorem orient_lerp0 (p o a b c : V3 ℝ) (s : ℝ) :
    orient (p + V3.smul s (o - p)) a b c = (1 - s) * orient p a b c + s * orient o a b c := by
  obtain ⟨px, py, pz⟩ := p; obtain ⟨ox, oy, oz⟩ := o; obtain ⟨ax, ay, az⟩ := a
  obtain ⟨bx, b_y, bz⟩ := b; obtain ⟨cx, cy, cz⟩ := c
  unfold orient V3.det3 V3.dot V3.cross
  simp only [V3.sub_x, V3.sub_y, V3.sub_z, V3.add_x, V3.add_y, V3.add_z, V3.smul_x, V3.smul_y, V3.smul_z]; ring

theorem orient_lerp1 (p o b c : V3 ℝ) (s : ℝ) :
    orient o (p + V3.smul s (o - p)) b c = (1 - s) * orient o p b c := by
  obtain ⟨px, py, pz⟩ := p; obtain ⟨ox, oy, oz⟩ := o
  obtain ⟨bx, b_y, bz⟩ := b; obtain ⟨cx, cy, cz⟩ := c
  unfold orient V3.det3 V3.dot V3.cross
  simp only [V3.sub_x, V3.sub_y, V3.sub_z, V3.add_x, V3.add_y, V3.add_z, V3.smul_x, V3.smul_y, V3.smul_z]; ring

theorem orient_lerp2 (p o a c : V3 ℝ) (s : ℝ) :
    orient o a (p + V3.smul s (o - p)) c = (1 - s) * orient o a p c := by
  obtain ⟨px, py, pz⟩ := p; obtain ⟨ox, oy, oz⟩ := o
  obtain ⟨ax, ay, az⟩ := a; obtain ⟨cx, cy, cz⟩ := c
  unfold orient V3.det3 V3.dot V3.cross
  simp only [V3.sub_x, V3.sub_y, V3.sub_z, V3.add_x, V3.add_y, V3.add_z, V3.smul_x, V3.smul_y, V3.smul_z]; ring

theorem orient_lerp3 (p o a b : V3 ℝ) (s : ℝ) :
    orient o a b (p + V3.smul s (o - p)) = (1 - s) * orient o a b p := by
  obtain ⟨px, py, pz⟩ := p; obtain ⟨ox, oy, oz⟩ := o
  obtain ⟨ax, ay, az⟩ := a; obtain ⟨bx, b_y, bz⟩ := b
  unfold orient V3.det3 V3.dot V3.cross
  simp only [V3.sub_x, V3.sub_y, V3.sub_z, V3.add_x, V3.add_y, V3.add_z, V3.smul_x, V3.smul_y, V3.smul_z]; ring

/-- **closed form: a point of the closed cell lies in a cone tetrahedron from `o`** -/
theorem exists_tet_closed {S : List (Tri ℝ)} (hcl : ClosedSurface S) (hne : S ≠ [])
    (o : V3 ℝ) (ho : ∀ t ∈ S, 0 < orient o t.a t.b t.c)
    (p : V3 ℝ) (hp : ∀ t ∈ S, 0 ≤ orient p t.a t.b t.c) :
    ∃ t ∈ S, inTet ⟨o, t.a, t.b, t.c⟩ p = true := by
  set q := p + V3.smul (1 / 2) (o - p) with hq
  have hqs : ∀ t ∈ S, 0 < orient q t.a t.b t.c := by
    intro t ht
    rw [hq, orient_lerp0]
    have := hp t ht; have := ho t ht
    nlinarith
  obtain ⟨t, ht, hin⟩ := exists_tet_fixed hcl hne o ho q hqs
  refine ⟨t, ht, ?_⟩
  simp only [inTet, bary, List.all_cons, List.all_nil, Bool.and_true, Bool.or_eq_true,
    Bool.and_eq_true, decide_eq_true_iff, Scalar.lit, Scalar.ofNat_real, Nat.cast_zero] at hin ⊢
  have hD := ho t ht
  rcases hin with ⟨_, _, g1, g2, g3⟩ | ⟨hD', _⟩
  · rw [hq, orient_lerp1] at g1
    rw [hq, orient_lerp2] at g2
    rw [hq, orient_lerp3] at g3
    exact Or.inl ⟨hD, hp t ht, by linarith, by linarith, by linarith⟩
  · exact absurd hD' (not_lt.mpr hD.le)

/-- **"no facet is missing", closed form.** -/
theorem memHull_of_inner_side_closed (V : List (V3 ℝ)) {S : List (Tri ℝ)} (hcl : ClosedSurface S)
    (hne : S ≠ []) (hV : ∀ t ∈ S, t.a ∈ V ∧ t.b ∈ V ∧ t.c ∈ V)
    (o : V3 ℝ) (hoV : MemHull V o) (ho : ∀ t ∈ S, 0 < orient o t.a t.b t.c)
    (p : V3 ℝ) (hp : ∀ t ∈ S, 0 ≤ orient p t.a t.b t.c) : MemHull V p := by
  obtain ⟨t, ht, hin⟩ := exists_tet_closed hcl hne o ho p hp
  obtain ⟨ws, hlen, ⟨hw, hsum⟩, hc⟩ := memHull_tet_of_inTet ⟨o, t.a, t.b, t.c⟩ p hin
  simp only [Scalar.lit, Scalar.ofNat_real, Scalar.sum_real, Nat.cast_zero, Nat.cast_one] at hw hsum
  rw [← hc]
  obtain ⟨ha, hb, hc'⟩ := hV t ht
  refine memHull_comb ws [o, t.a, t.b, t.c] hlen hw hsum ?_
  intro q hq
  simp only [List.mem_cons, List.not_mem_nil, or_false] at hq
  rcases hq with rfl | rfl | rfl | rfl
  exacts [hoV, memHull_of_mem ha, memHull_of_mem hb, memHull_of_mem hc']

end Inside3D
end
