import CoxeterVerif.Lemmas.Solid
import CoxeterVerif.Model.Polygon
/-!
  Helper lemmas for C09 (covariance), part 1: rotations in component form and how the exact
  integrals of `Spec/Solid.lean` transform under rotations and translations.

  A proper rotation is an `M3 ℝ` (nine reals) with `IsRot R`: columns orthonormal (`RᵀR = 1`, six
  equations) and `det R = 1`.  Everything else (`cof R = R`, `R Rᵀ = 1`, `R a × R b = R (a × b)`,
  `det(Ra, Rb, Rc) = det(a, b, c)`, `M ↦ R M Rᵀ`, trace invariance) is derived here by
  `ring` / `linear_combination` with explicit coefficients.
-/
open Scalar
set_option maxRecDepth 4000
noncomputable section

namespace M3
def det (R : M3 ℝ) : ℝ :=
  R.xx * (R.yy * R.zz - R.yz * R.zy) - R.xy * (R.yx * R.zz - R.yz * R.zx) + R.xz * (R.yx * R.zy - R.yy * R.zx)
/-- cofactor matrix -/
def cof (R : M3 ℝ) : M3 ℝ :=
  ⟨R.yy * R.zz - R.yz * R.zy, -(R.yx * R.zz - R.yz * R.zx), R.yx * R.zy - R.yy * R.zx,
   -(R.xy * R.zz - R.xz * R.zy), R.xx * R.zz - R.xz * R.zx, -(R.xx * R.zy - R.xy * R.zx),
   R.xy * R.yz - R.xz * R.yy, -(R.xx * R.yz - R.xz * R.yx), R.xx * R.yy - R.xy * R.yx⟩
/-- entry `(i, j)` (indices ≥ 2 read the last row / column, like `V3.get`) -/
def get (R : M3 ℝ) (i j : Nat) : ℝ :=
  if i = 0 then (if j = 0 then R.xx else if j = 1 then R.xy else R.xz)
  else if i = 1 then (if j = 0 then R.yx else if j = 1 then R.yy else R.yz)
  else (if j = 0 then R.zx else if j = 1 then R.zy else R.zz)
/-- scalar multiple -/
def smulR (k : ℝ) (A : M3 ℝ) : M3 ℝ :=
  ⟨k * A.xx, k * A.xy, k * A.xz, k * A.yx, k * A.yy, k * A.yz, k * A.zx, k * A.zy, k * A.zz⟩
def trace (A : M3 ℝ) : ℝ := A.xx + A.yy + A.zz
end M3

structure IsRot (R : M3 ℝ) : Prop where
  c11 : R.xx * R.xx + R.yx * R.yx + R.zx * R.zx = 1
  c22 : R.xy * R.xy + R.yy * R.yy + R.zy * R.zy = 1
  c33 : R.xz * R.xz + R.yz * R.yz + R.zz * R.zz = 1
  c12 : R.xx * R.xy + R.yx * R.yy + R.zx * R.zy = 0
  c13 : R.xx * R.xz + R.yx * R.yz + R.zx * R.zz = 0
  c23 : R.xy * R.xz + R.yy * R.yz + R.zy * R.zz = 0
  det1 : M3.det R = 1

theorem det3_mulVec (R : M3 ℝ) (a b c : V3 ℝ) :
    V3.det3 (M3.mulVec R a) (M3.mulVec R b) (M3.mulVec R c) = M3.det R * V3.det3 a b c := by
  obtain ⟨ax,ay,az⟩ := a; obtain ⟨bx,b_y,bz⟩ := b; obtain ⟨cx,cy,cz⟩ := c
  simp only [M3.mulVec, M3.det, V3.det3, V3.dot, V3.cross]; ring

theorem cross_mulVec (R : M3 ℝ) (a b : V3 ℝ) :
    V3.cross (M3.mulVec R a) (M3.mulVec R b) = M3.mulVec (M3.cof R) (V3.cross a b) := by
  obtain ⟨ax,ay,az⟩ := a; obtain ⟨bx,b_y,bz⟩ := b
  simp only [M3.mulVec, M3.cof, V3.cross]
  ext <;> ring

theorem mulVec_sub (R : M3 ℝ) (a b : V3 ℝ) : M3.mulVec R (a - b) = M3.mulVec R a - M3.mulVec R b := by
  obtain ⟨ax,ay,az⟩ := a; obtain ⟨bx,b_y,bz⟩ := b
  ext <;> simp only [M3.mulVec, V3.sub_x, V3.sub_y, V3.sub_z] <;> ring
theorem mulVec_add (R : M3 ℝ) (a b : V3 ℝ) : M3.mulVec R (a + b) = M3.mulVec R a + M3.mulVec R b := by
  obtain ⟨ax,ay,az⟩ := a; obtain ⟨bx,b_y,bz⟩ := b
  ext <;> simp only [M3.mulVec, V3.add_x, V3.add_y, V3.add_z] <;> ring
theorem mulVec_smul (R : M3 ℝ) (k : ℝ) (a : V3 ℝ) : M3.mulVec R (V3.smul k a) = V3.smul k (M3.mulVec R a) := by
  obtain ⟨ax,ay,az⟩ := a
  ext <;> simp only [M3.mulVec, V3.smul_x, V3.smul_y, V3.smul_z] <;> ring

/-! basic homogeneity of the vector operations (used by every scaling lemma) -/
theorem V3.smul_sub (k : ℝ) (a b : V3 ℝ) : V3.smul k (a - b) = V3.smul k a - V3.smul k b := by
  ext <;> simp <;> ring
theorem V3.smul_add (k : ℝ) (a b : V3 ℝ) : V3.smul k (a + b) = V3.smul k a + V3.smul k b := by
  ext <;> simp <;> ring
theorem V3.cross_smul (k : ℝ) (a b : V3 ℝ) :
    V3.cross (V3.smul k a) (V3.smul k b) = V3.smul (k * k) (V3.cross a b) := by
  ext <;> simp [V3.cross] <;> ring
theorem V3.dot_smul (k l : ℝ) (a b : V3 ℝ) : V3.dot (V3.smul k a) (V3.smul l b) = k * l * V3.dot a b := by
  simp [V3.dot]; ring
theorem V3.get_smul (k : ℝ) (a : V3 ℝ) (i : Nat) : (V3.smul k a).get i = k * a.get i := by
  unfold V3.get; split_ifs <;> rfl
theorem V3.norm_smul (k : ℝ) (a : V3 ℝ) : V3.norm (V3.smul k a) = |k| * V3.norm a := by
  unfold V3.norm V3.normSq
  rw [V3.dot_smul, Scalar.sqrt_real, Scalar.sqrt_real, Real.sqrt_mul (mul_self_nonneg k), Real.sqrt_mul_self_eq_abs]
theorem V3.norm_smul_nonneg {k : ℝ} (hk : 0 ≤ k) (a : V3 ℝ) : V3.norm (V3.smul k a) = k * V3.norm a := by
  rw [V3.norm_smul, abs_of_nonneg hk]

namespace IsRot
variable {R : M3 ℝ} (h : IsRot R)
include h
theorem cof_eq : M3.cof R = R := by
  obtain ⟨c11, c22, c33, c12, c13, c23, d⟩ := h
  obtain ⟨xx, xy, xz, yx, yy, yz, zx, zy, zz⟩ := R
  simp only [M3.det] at *
  apply M3.ext' <;> simp only [M3.cof]
  · linear_combination xx * d - ((yy * zz - yz * zy) * c11 + (-(yx * zz - yz * zx)) * c12 + (yx * zy - yy * zx) * c13)
  · linear_combination xy * d - ((yy * zz - yz * zy) * c12 + (-(yx * zz - yz * zx)) * c22 + (yx * zy - yy * zx) * c23)
  · linear_combination xz * d - ((yy * zz - yz * zy) * c13 + (-(yx * zz - yz * zx)) * c23 + (yx * zy - yy * zx) * c33)
  · linear_combination yx * d - ((-(xy * zz - xz * zy)) * c11 + (xx * zz - xz * zx) * c12 + (-(xx * zy - xy * zx)) * c13)
  · linear_combination yy * d - ((-(xy * zz - xz * zy)) * c12 + (xx * zz - xz * zx) * c22 + (-(xx * zy - xy * zx)) * c23)
  · linear_combination yz * d - ((-(xy * zz - xz * zy)) * c13 + (xx * zz - xz * zx) * c23 + (-(xx * zy - xy * zx)) * c33)
  · linear_combination zx * d - ((xy * yz - xz * yy) * c11 + (-(xx * yz - xz * yx)) * c12 + (xx * yy - xy * yx) * c13)
  · linear_combination zy * d - ((xy * yz - xz * yy) * c12 + (-(xx * yz - xz * yx)) * c22 + (xx * yy - xy * yx) * c23)
  · linear_combination zz * d - ((xy * yz - xz * yy) * c13 + (-(xx * yz - xz * yx)) * c23 + (xx * yy - xy * yx) * c33)

/-- rows are orthonormal as well: `R Rᵀ = 1` -/
theorem rows : R.xx * R.xx + R.xy * R.xy + R.xz * R.xz = 1 ∧ R.yx * R.yx + R.yy * R.yy + R.yz * R.yz = 1 ∧
    R.zx * R.zx + R.zy * R.zy + R.zz * R.zz = 1 ∧ R.xx * R.yx + R.xy * R.yy + R.xz * R.yz = 0 ∧
    R.xx * R.zx + R.xy * R.zy + R.xz * R.zz = 0 ∧ R.yx * R.zx + R.yy * R.zy + R.yz * R.zz = 0 := by
  have hc := h.cof_eq
  have d := h.det1
  obtain ⟨xx, xy, xz, yx, yy, yz, zx, zy, zz⟩ := R
  simp only [M3.cof, M3.mk.injEq] at hc
  obtain ⟨h1, h2, h3, h4, h5, h6, h7, h8, h9⟩ := hc
  simp only [M3.det] at d
  refine ⟨?_, ?_, ?_, ?_, ?_, ?_⟩
  · linear_combination d - (xx * h1 + xy * h2 + xz * h3)
  · linear_combination d - (yx * h4 + yy * h5 + yz * h6)
  · linear_combination d - (zx * h7 + zy * h8 + zz * h9)
  · linear_combination - (xx * h4 + xy * h5 + xz * h6)
  · linear_combination - (xx * h7 + xy * h8 + xz * h9)
  · linear_combination - (yx * h7 + yy * h8 + yz * h9)

theorem dot_rot (a b : V3 ℝ) : V3.dot (M3.mulVec R a) (M3.mulVec R b) = V3.dot a b := by
  obtain ⟨c11, c22, c33, c12, c13, c23, _⟩ := h
  obtain ⟨ax,ay,az⟩ := a; obtain ⟨bx,b_y,bz⟩ := b
  simp only [M3.mulVec, V3.dot]
  linear_combination (ax * bx) * c11 + (ay * b_y) * c22 + (az * bz) * c33 + (ax * b_y + ay * bx) * c12 +
    (ax * bz + az * bx) * c13 + (ay * bz + az * b_y) * c23

theorem cross_rot (a b : V3 ℝ) :
    V3.cross (M3.mulVec R a) (M3.mulVec R b) = M3.mulVec R (V3.cross a b) := by
  rw [cross_mulVec, h.cof_eq]

theorem det3_rot (a b c : V3 ℝ) :
    V3.det3 (M3.mulVec R a) (M3.mulVec R b) (M3.mulVec R c) = V3.det3 a b c := by
  rw [det3_mulVec, h.det1, one_mul]

theorem normSq_rot (a : V3 ℝ) : V3.normSq (M3.mulVec R a) = V3.normSq a := h.dot_rot a a
theorem norm_rot (a : V3 ℝ) : V3.norm (M3.mulVec R a) = V3.norm a := by
  unfold V3.norm; rw [h.normSq_rot]
end IsRot

/-! ### spec sums under a rotation -/
abbrev rotT (R : M3 ℝ) (Ts : List (Tet ℝ)) : List (Tet ℝ) := Ts.map (Tet.map (M3.mulVec R))

theorem M3.get_vals (R : M3 ℝ) :
    R.get 0 0 = R.xx ∧ R.get 0 1 = R.xy ∧ R.get 0 2 = R.xz ∧ R.get 1 0 = R.yx ∧ R.get 1 1 = R.yy ∧
    R.get 1 2 = R.yz ∧ R.get 2 0 = R.zx ∧ R.get 2 1 = R.zy ∧ R.get 2 2 = R.zz := by
  simp [M3.get]

theorem mulVec_get (R : M3 ℝ) (p : V3 ℝ) (i : Nat) (hi : i < 3) :
    (M3.mulVec R p).get i = R.get i 0 * p.x + R.get i 1 * p.y + R.get i 2 * p.z := by
  cases3 i <;> simp [M3.mulVec, M3.get]

namespace IsRot
variable {R : M3 ℝ} (h : IsRot R)
include h

theorem tetVol_rot (T : Tet ℝ) : Spec.tetVol (T.map (M3.mulVec R)) = Spec.tetVol T := by
  unfold Spec.tetVol
  simp only [Tet.map, ← mulVec_sub, h.det3_rot]

theorem tetFirst_rot (T : Tet ℝ) : Spec.tetFirst (T.map (M3.mulVec R)) = M3.mulVec R (Spec.tetFirst T) := by
  unfold Spec.tetFirst
  rw [h.tetVol_rot, mulVec_smul]
  congr 1
  simp only [Spec.tetSum, Tet.map, mulVec_add]

theorem tetSecond_rot (T : Tet ℝ) (i j : Nat) (hi : i < 3) (hj : j < 3) :
    Spec.tetSecond (T.map (M3.mulVec R)) i j =
      R.get i 0 * R.get j 0 * Spec.tetSecond T 0 0 + R.get i 0 * R.get j 1 * Spec.tetSecond T 0 1 +
      R.get i 0 * R.get j 2 * Spec.tetSecond T 0 2 + R.get i 1 * R.get j 0 * Spec.tetSecond T 1 0 +
      R.get i 1 * R.get j 1 * Spec.tetSecond T 1 1 + R.get i 1 * R.get j 2 * Spec.tetSecond T 1 2 +
      R.get i 2 * R.get j 0 * Spec.tetSecond T 2 0 + R.get i 2 * R.get j 1 * Spec.tetSecond T 2 1 +
      R.get i 2 * R.get j 2 * Spec.tetSecond T 2 2 := by
  unfold Spec.tetSecond
  rw [h.tetVol_rot]
  have hs : Spec.tetSum (T.map (M3.mulVec R)) = M3.mulVec R (Spec.tetSum T) := by
    simp only [Spec.tetSum, Tet.map, mulVec_add]
  rw [hs]
  simp only [Tet.map, mulVec_get R _ i hi, mulVec_get R _ j hj, V3.get_zero, V3.get_one, V3.get_two]
  ring
end IsRot

namespace IsRot
variable {R : M3 ℝ} (h : IsRot R)
include h

theorem vol_rot (Ts : List (Tet ℝ)) : Spec.vol (rotT R Ts) = Spec.vol Ts := by
  rw [Spec.vol_eq, Spec.vol_eq, rotT, List.map_map]
  congr 1
  exact List.map_congr_left (fun T _ => h.tetVol_rot T)

theorem first_rot (Ts : List (Tet ℝ)) : Spec.first (rotT R Ts) = M3.mulVec R (Spec.first Ts) := by
  induction Ts with
  | nil => ext <;> simp [Spec.first, V3.sum, M3.mulVec, rotT]
  | cons T Ts ih =>
    have e1 : Spec.first (rotT R (T :: Ts)) = Spec.tetFirst (T.map (M3.mulVec R)) + Spec.first (rotT R Ts) := rfl
    have e2 : Spec.first (T :: Ts) = Spec.tetFirst T + Spec.first Ts := rfl
    rw [e1, e2, ih, h.tetFirst_rot, mulVec_add]

theorem second_rot (Ts : List (Tet ℝ)) (i j : Nat) (hi : i < 3) (hj : j < 3) :
    Spec.second (rotT R Ts) i j =
      R.get i 0 * R.get j 0 * Spec.second Ts 0 0 + R.get i 0 * R.get j 1 * Spec.second Ts 0 1 +
      R.get i 0 * R.get j 2 * Spec.second Ts 0 2 + R.get i 1 * R.get j 0 * Spec.second Ts 1 0 +
      R.get i 1 * R.get j 1 * Spec.second Ts 1 1 + R.get i 1 * R.get j 2 * Spec.second Ts 1 2 +
      R.get i 2 * R.get j 0 * Spec.second Ts 2 0 + R.get i 2 * R.get j 1 * Spec.second Ts 2 1 +
      R.get i 2 * R.get j 2 * Spec.second Ts 2 2 := by
  simp only [Spec.second_eq]
  induction Ts with
  | nil => simp [rotT]
  | cons T Ts ih =>
    simp only [rotT, List.map_cons, List.sum_cons] at ih ⊢
    rw [ih, h.tetSecond_rot T i j hi hj]; ring
end IsRot

/-- the spec's second-moment matrix `M_ij = ∫ x_i x_j` -/
def Spec.secondM (Ts : List (Tet ℝ)) : M3 ℝ :=
  ⟨Spec.second Ts 0 0, Spec.second Ts 0 1, Spec.second Ts 0 2, Spec.second Ts 1 0, Spec.second Ts 1 1,
   Spec.second Ts 1 2, Spec.second Ts 2 0, Spec.second Ts 2 1, Spec.second Ts 2 2⟩

theorem Spec.tetSecond_symm (T : Tet ℝ) (i j : Nat) : Spec.tetSecond T i j = Spec.tetSecond T j i := by
  unfold Spec.tetSecond; ring
theorem Spec.second_symm (Ts : List (Tet ℝ)) (i j : Nat) : Spec.second Ts i j = Spec.second Ts j i := by
  rw [Spec.second_eq, Spec.second_eq]; congr 1
  exact List.map_congr_left (fun T _ => Spec.tetSecond_symm T i j)

namespace IsRot
variable {R : M3 ℝ} (h : IsRot R)
include h

/-- second moments transform as `M ↦ R M Rᵀ` -/
theorem secondM_rot (Ts : List (Tet ℝ)) :
    Spec.secondM (rotT R Ts) = Poly2.rotateTensor R (Spec.secondM Ts) := by
  have g := M3.get_vals R
  obtain ⟨g00, g01, g02, g10, g11, g12, g20, g21, g22⟩ := g
  unfold Spec.secondM Poly2.rotateTensor M3.mul M3.transpose
  apply M3.ext' <;> simp only [] <;>
    rw [h.second_rot Ts _ _ (by omega) (by omega)] <;>
    simp only [g00, g01, g02, g10, g11, g12, g20, g21, g22] <;> ring

/-- the trace `∫ |x|²` is invariant -/
theorem second_trace_rot (Ts : List (Tet ℝ)) :
    Spec.second (rotT R Ts) 0 0 + Spec.second (rotT R Ts) 1 1 + Spec.second (rotT R Ts) 2 2 =
      Spec.second Ts 0 0 + Spec.second Ts 1 1 + Spec.second Ts 2 2 := by
  obtain ⟨g00, g01, g02, g10, g11, g12, g20, g21, g22⟩ := M3.get_vals R
  rw [h.second_rot Ts 0 0 (by omega) (by omega), h.second_rot Ts 1 1 (by omega) (by omega),
    h.second_rot Ts 2 2 (by omega) (by omega)]
  simp only [g00, g01, g02, g10, g11, g12, g20, g21, g22]
  rw [Spec.second_symm Ts 1 0, Spec.second_symm Ts 2 0, Spec.second_symm Ts 2 1]
  obtain ⟨c11, c22, c33, c12, c13, c23, _⟩ := h
  linear_combination (Spec.second Ts 0 0) * c11 + (Spec.second Ts 1 1) * c22 + (Spec.second Ts 2 2) * c33 +
    (2 * Spec.second Ts 0 1) * c12 + (2 * Spec.second Ts 0 2) * c13 + (2 * Spec.second Ts 1 2) * c23

/-- the inertia tensor transforms as `I ↦ R I Rᵀ` -/
theorem inertia_rot (Ts : List (Tet ℝ)) :
    Spec.inertia (rotT R Ts) = Poly2.rotateTensor R (Spec.inertia Ts) := by
  obtain ⟨g00, g01, g02, g10, g11, g12, g20, g21, g22⟩ := M3.get_vals R
  obtain ⟨r11, r22, r33, r12, r13, r23⟩ := h.rows
  have tr := h.second_trace_rot Ts
  have s := fun i j hi hj => h.second_rot Ts i j hi hj
  have s00 := s 0 0 (by omega) (by omega); have s11 := s 1 1 (by omega) (by omega)
  have s22 := s 2 2 (by omega) (by omega); have s01 := s 0 1 (by omega) (by omega)
  have s02 := s 0 2 (by omega) (by omega); have s12 := s 1 2 (by omega) (by omega)
  simp only [g00, g01, g02, g10, g11, g12, g20, g21, g22] at s00 s11 s22 s01 s02 s12
  rw [Spec.second_symm Ts 1 0, Spec.second_symm Ts 2 0, Spec.second_symm Ts 2 1] at s00 s11 s22 s01 s02 s12
  unfold Spec.inertia Poly2.rotateTensor M3.mul M3.transpose
  set A := Spec.second Ts 0 0
  set B := Spec.second Ts 1 1
  set C := Spec.second Ts 2 2
  set D := Spec.second Ts 0 1
  set E := Spec.second Ts 0 2
  set F := Spec.second Ts 1 2
  apply M3.ext' <;> simp only []
  · linear_combination tr - s00 - (A + B + C) * r11
  · linear_combination - s01 - (A + B + C) * r12
  · linear_combination - s02 - (A + B + C) * r13
  · linear_combination - s01 - (A + B + C) * r12
  · linear_combination tr - s11 - (A + B + C) * r22
  · linear_combination - s12 - (A + B + C) * r23
  · linear_combination - s02 - (A + B + C) * r13
  · linear_combination - s12 - (A + B + C) * r23
  · linear_combination tr - s22 - (A + B + C) * r33

theorem centroid_rot (Ts : List (Tet ℝ)) : Spec.centroid (rotT R Ts) = M3.mulVec R (Spec.centroid Ts) := by
  unfold Spec.centroid
  rw [h.first_rot, h.vol_rot]
  ext <;> simp only [V3.sdiv_x, V3.sdiv_y, V3.sdiv_z, M3.mulVec] <;> ring
end IsRot

/-! ### spec sums under a translation -/
abbrev addT (t : V3 ℝ) (Ts : List (Tet ℝ)) : List (Tet ℝ) := Ts.map (Tet.map (· + t))
abbrev addS (t : V3 ℝ) (S : List (Tri ℝ)) : List (Tri ℝ) := S.map (Tri.map (· + t))

theorem add_eq_sub_neg (t : V3 ℝ) : (fun x : V3 ℝ => x + t) = (fun x => x - (-t)) := by
  funext x; ext <;> simp

theorem Spec.vol_sub (Ts : List (Tet ℝ)) (c : V3 ℝ) :
    Spec.vol (Ts.map (Tet.map (· - c))) = Spec.vol Ts := by
  rw [Spec.vol_eq, Spec.vol_eq, List.map_map]
  congr 1
  apply List.map_congr_left
  intro T _
  obtain ⟨⟨ax,ay,az⟩,⟨bx,b_y,bz⟩,⟨cx,cy,cz⟩,⟨dx,dy,dz⟩⟩ := T
  obtain ⟨c1,c2,c3⟩ := c
  simp only [Function.comp, Spec.tetVol]; unfold_model; ring

theorem Spec.tetFirst_sub (T : Tet ℝ) (c : V3 ℝ) (i : Nat) (hi : i < 3) :
    (Spec.tetFirst (T.map (· - c))).get i = (Spec.tetFirst T).get i - c.get i * Spec.tetVol T := by
  obtain ⟨⟨ax,ay,az⟩,⟨bx,b_y,bz⟩,⟨cx,cy,cz⟩,⟨dx,dy,dz⟩⟩ := T
  obtain ⟨c1,c2,c3⟩ := c
  cases3 i <;> unfold Spec.tetFirst Spec.tetVol Spec.tetSum <;> unfold_model <;> ring

theorem Spec.first_sub (Ts : List (Tet ℝ)) (c : V3 ℝ) (i : Nat) (hi : i < 3) :
    (Spec.first (Ts.map (Tet.map (· - c)))).get i = (Spec.first Ts).get i - c.get i * Spec.vol Ts := by
  rw [first_get _ i hi, first_get _ i hi, Spec.vol_eq]
  induction Ts with
  | nil => simp
  | cons T Ts ih =>
    simp only [List.map_cons, List.sum_cons, List.map_map] at ih ⊢
    rw [Spec.tetFirst_sub T c i hi]
    simp only [Function.comp_def] at ih ⊢
    linarith

/-- **translation law of the exact integrals** -/
theorem Spec.vol_add (Ts : List (Tet ℝ)) (t : V3 ℝ) : Spec.vol (addT t Ts) = Spec.vol Ts := by
  unfold addT; rw [add_eq_sub_neg]; exact Spec.vol_sub Ts (-t)

theorem Spec.first_add (Ts : List (Tet ℝ)) (t : V3 ℝ) :
    Spec.first (addT t Ts) = Spec.first Ts + V3.smul (Spec.vol Ts) t := by
  unfold addT; rw [add_eq_sub_neg]
  apply V3.ext_get
  intro i hi
  rw [Spec.first_sub Ts (-t) i hi]
  cases3 i <;> simp <;> ring

theorem Spec.second_add (Ts : List (Tet ℝ)) (t : V3 ℝ) (i j : Nat) (hi : i < 3) (hj : j < 3) :
    Spec.second (addT t Ts) i j =
      Spec.second Ts i j + t.get i * (Spec.first Ts).get j + t.get j * (Spec.first Ts).get i
        + t.get i * t.get j * Spec.vol Ts := by
  unfold addT; rw [add_eq_sub_neg, second_translate Ts (-t) i j hi hj]
  cases3 i <;> cases3 j <;> simp

theorem Spec.centroid_add (Ts : List (Tet ℝ)) (t : V3 ℝ) (hv : Spec.vol Ts ≠ 0) :
    Spec.centroid (addT t Ts) = Spec.centroid Ts + t := by
  unfold Spec.centroid
  rw [Spec.first_add, Spec.vol_add]
  ext <;> simp <;> field_simp

theorem addT_sub (Ts : List (Tet ℝ)) (t c : V3 ℝ) :
    (addT t Ts).map (Tet.map (· - (c + t))) = Ts.map (Tet.map (· - c)) := by
  simp only [addT, List.map_map]
  apply List.map_congr_left
  intro T _
  obtain ⟨a, b, cc, d⟩ := T
  simp only [Function.comp, Tet.map]
  congr 1 <;> ext <;> simp
theorem addS_sub (S : List (Tri ℝ)) (t c : V3 ℝ) :
    (addS t S).map (Tri.map (· - (c + t))) = S.map (Tri.map (· - c)) := by
  simp only [addS, List.map_map]
  apply List.map_congr_left
  intro T _
  obtain ⟨a, b, cc⟩ := T
  simp only [Function.comp, Tri.map]
  congr 1 <;> ext <;> simp

/-- **parallel-axis theorem for the exact integrals**: the inertia tensor about the origin is the
tensor about the centroid shifted by `vol · (|c|² 1 − c cᵀ)` -/
theorem Spec.parallel_axis (Ts : List (Tet ℝ)) (hv : Spec.vol Ts ≠ 0) :
    Spec.inertia Ts = CP.translateInertia (Spec.centroid Ts)
      (Spec.inertia (Ts.map (Tet.map (· - Spec.centroid Ts)))) (Spec.vol Ts) := by
  have s := fun i j hi hj => second_centred Ts i j hi hj hv
  have s00 := s 0 0 (by omega) (by omega); have s11 := s 1 1 (by omega) (by omega)
  have s22 := s 2 2 (by omega) (by omega); have s01 := s 0 1 (by omega) (by omega)
  have s02 := s 0 2 (by omega) (by omega); have s12 := s 1 2 (by omega) (by omega)
  simp only [V3.get_zero, V3.get_one, V3.get_two] at s00 s11 s22 s01 s02 s12
  unfold CP.translateInertia Spec.inertia
  apply M3.ext' <;> simp only [s00, s11, s22, s01, s02, s12, V3.dot, Scalar.lit, Scalar.ofNat_real] <;>
    push_cast <;> ring

/-- translating the solid leaves the tensor about the centroid unchanged; about the origin it is
the parallel-axis shift to the moved centroid -/
theorem Spec.inertia_add (Ts : List (Tet ℝ)) (t : V3 ℝ) (hv : Spec.vol Ts ≠ 0) :
    Spec.inertia (addT t Ts) = CP.translateInertia (Spec.centroid Ts + t)
      (Spec.inertia (Ts.map (Tet.map (· - Spec.centroid Ts)))) (Spec.vol Ts) := by
  have hv' : Spec.vol (addT t Ts) ≠ 0 := by rw [Spec.vol_add]; exact hv
  rw [Spec.parallel_axis (addT t Ts) hv', Spec.centroid_add Ts t hv, Spec.vol_add, addT_sub]
end
