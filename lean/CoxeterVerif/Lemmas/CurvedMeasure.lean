import CoxeterVerif.Lemmas.Curved
import Mathlib.MeasureTheory.Measure.Lebesgue.VolumeOfBalls
import Mathlib.MeasureTheory.Function.L2Space
import Mathlib.Analysis.Normed.Lp.Matrix
import Mathlib.Analysis.SpecialFunctions.Integrals.Basic
/-!
  Measure-theoretic helper lemmas for C10 (Mathlib integrals): linearity of the integral under a
  shift of the coordinate functions, the arc-length integrand and its quarter-period integral, the
  contract of `scipy.special.ellipe`, and the point sets whose Lebesgue measure is the area/volume.
-/
open Curved MeasureTheory intervalIntegral
noncomputable section
namespace C10

variable {Ω : Type*} [MeasurableSpace Ω]

/-! ### moments of a finite measure under translation -/

theorem integral_shift (μ : Measure Ω) [IsFiniteMeasure μ] (f : Ω → ℝ) (hf : Integrable f μ) (a : ℝ) :
    ∫ ω, (f ω + a) ∂μ = (∫ ω, f ω ∂μ) + a * μ.real Set.univ := by
  rw [MeasureTheory.integral_add hf (integrable_const _), MeasureTheory.integral_const]; simp [smul_eq_mul, mul_comm]

/-- raw moment record of a finite measure `μ` with coordinate functions `X Y Z` -/
def momOf3 (μ : Measure Ω) (X Y Z : Ω → ℝ) : CSpec.Mom3 ℝ :=
  ⟨μ.real Set.univ, ⟨∫ ω, X ω ∂μ, ∫ ω, Y ω ∂μ, ∫ ω, Z ω ∂μ⟩,
   ∫ ω, X ω * X ω ∂μ, ∫ ω, Y ω * Y ω ∂μ, ∫ ω, Z ω * Z ω ∂μ,
   ∫ ω, X ω * Y ω ∂μ, ∫ ω, X ω * Z ω ∂μ, ∫ ω, Y ω * Z ω ∂μ⟩

/-- planar moment record of a finite measure with coordinate functions `X Y` -/
def momOf2 (μ : Measure Ω) (X Y : Ω → ℝ) : CSpec.Mom2 ℝ :=
  ⟨μ.real Set.univ, ∫ ω, X ω ∂μ, ∫ ω, Y ω ∂μ, ∫ ω, X ω * X ω ∂μ, ∫ ω, Y ω * Y ω ∂μ, ∫ ω, X ω * Y ω ∂μ⟩

/-! ### point sets -/

/-- the solid ellipse with semi-axes `a` (along x) and `b` (along y) centred at the origin -/
def ellipseSet (a b : ℝ) : Set (EuclideanSpace ℝ (Fin 2)) := {p | (p 0 / a) ^ 2 + (p 1 / b) ^ 2 ≤ 1}

/-- the solid ellipsoid with semi-axes `a,b,c` along x,y,z centred at the origin -/
def ellipsoidSet (a b c : ℝ) : Set (EuclideanSpace ℝ (Fin 3)) :=
  {p | (p 0 / a) ^ 2 + (p 1 / b) ^ 2 + (p 2 / c) ^ 2 ≤ 1}

/-- the solid ellipse centred at `q` -/
def ellipseSetAt (a b : ℝ) (q : EuclideanSpace ℝ (Fin 2)) : Set (EuclideanSpace ℝ (Fin 2)) :=
  {p | ((p 0 - q 0) / a) ^ 2 + ((p 1 - q 1) / b) ^ 2 ≤ 1}

/-- the solid ellipsoid centred at `q` -/
def ellipsoidSetAt (a b c : ℝ) (q : EuclideanSpace ℝ (Fin 3)) : Set (EuclideanSpace ℝ (Fin 3)) :=
  {p | ((p 0 - q 0) / a) ^ 2 + ((p 1 - q 1) / b) ^ 2 + ((p 2 - q 2) / c) ^ 2 ≤ 1}

/-! ### eccentricity and the argument of `ellipe` at ℝ -/

theorem eccentricity_eq (a b : ℝ) :
    Ellipse.eccentricity a b = Real.sqrt (1 - (Min.min a b) ^ 2 / (Max.max a b) ^ 2) := by
  simp only [Ellipse.eccentricity, sort2_real, Scalar.sqrt_real, Scalar.lit, Scalar.sqr,
    Scalar.ofNat_real, Nat.cast_one, pow_two]

theorem eccentricity_sq (a b : ℝ) (ha : 0 < a) (hb : 0 < b) :
    (Ellipse.eccentricity a b) ^ 2 = 1 - (Min.min a b) ^ 2 / (Max.max a b) ^ 2 := by
  rw [eccentricity_eq, Real.sq_sqrt]
  have hM : 0 < Max.max a b := lt_max_of_lt_left ha
  have hm : 0 ≤ Min.min a b := (lt_min ha hb).le
  rw [sub_nonneg, div_le_one (by positivity)]
  exact pow_le_pow_left₀ hm min_le_max 2

theorem ellipeArg_eq (a b : ℝ) (ha : 0 < a) (hb : 0 < b) :
    Ellipse.ellipeArg a b = 1 - (Min.min a b) ^ 2 / (Max.max a b) ^ 2 := by
  unfold Ellipse.ellipeArg Scalar.sqr
  rw [← pow_two, eccentricity_sq a b ha hb]

theorem perimeter_eq (ellipe : ℝ → ℝ) (a b : ℝ) :
    Ellipse.perimeter ellipe a b = 4 * Max.max a b * ellipe (Ellipse.ellipeArg a b) := by
  simp only [Ellipse.perimeter, sort2_real, Scalar.lit, Scalar.ofNat_real, Nat.cast_ofNat]

/-! ### arc length -/

/-- contract of `scipy.special.ellipe`: Legendre's complete elliptic integral of the second kind
with parameter `m`, `E(m) = ∫₀^{π/2} √(1 − m sin²θ) dθ` -/
def IsEllipe (ellipe : ℝ → ℝ) : Prop :=
  ∀ m, 0 ≤ m → m < 1 → ellipe m = ∫ θ in (0:ℝ)..Real.pi / 2, Real.sqrt (1 - m * Real.sin θ ^ 2)

/-- arc-length integrand at ℝ -/
theorem arcSpeed_real (a b θ : ℝ) :
    CSpec.arcSpeed a b θ = Real.sqrt (a ^ 2 * Real.sin θ ^ 2 + b ^ 2 * Real.cos θ ^ 2) := by
  simp only [CSpec.arcSpeed, Scalar.sqrt_real, Scalar.sin_real, Scalar.cos_real]
  congr 1; ring

theorem arcSpeed_continuous (a b : ℝ) : Continuous (CSpec.arcSpeed a b) := by
  have : CSpec.arcSpeed a b = fun θ => Real.sqrt (a ^ 2 * Real.sin θ ^ 2 + b ^ 2 * Real.cos θ ^ 2) := by
    funext θ; exact arcSpeed_real a b θ
  rw [this]; fun_prop

/-- quarter arc length does not depend on which axis the angle is measured from -/
theorem arcSpeed_quarter_swap (a b : ℝ) :
    ∫ θ in (0:ℝ)..Real.pi / 2, CSpec.arcSpeed a b θ = ∫ θ in (0:ℝ)..Real.pi / 2, CSpec.arcSpeed b a θ := by
  have h := integral_comp_sub_left (a := (0:ℝ)) (b := Real.pi / 2) (CSpec.arcSpeed b a) (Real.pi / 2)
  simp only [sub_self, sub_zero] at h
  rw [← h]
  congr 1; funext θ
  simp only [arcSpeed_real, Real.sin_pi_div_two_sub, Real.cos_pi_div_two_sub]
  congr 1; ring

/-- pointwise Jensen bound: `a sin² + b cos² ≤ √(a² sin² + b² cos²)` -/
theorem arcSpeed_ge (a b θ : ℝ) :
    a * Real.sin θ ^ 2 + b * Real.cos θ ^ 2 ≤ CSpec.arcSpeed a b θ := by
  rw [arcSpeed_real]
  apply Real.le_sqrt_of_sq_le
  have h := Real.sin_sq_add_cos_sq θ
  have hc : Real.cos θ ^ 2 = 1 - Real.sin θ ^ 2 := by linarith
  rw [hc]
  have hs0 : 0 ≤ Real.sin θ ^ 2 := sq_nonneg _
  have hs1 : Real.sin θ ^ 2 ≤ 1 := by nlinarith [sq_nonneg (Real.cos θ)]
  nlinarith [mul_nonneg (mul_nonneg hs0 (sub_nonneg.mpr hs1)) (sq_nonneg (a - b))]

/-- lower bound of the quarter arc: `π (a+b)/4` -/
theorem quarter_arc_ge (a b : ℝ) :
    Real.pi * (a + b) / 4 ≤ ∫ θ in (0:ℝ)..Real.pi / 2, CSpec.arcSpeed a b θ := by
  have hpi : (0:ℝ) ≤ Real.pi / 2 := by positivity
  have hI : ∫ θ in (0:ℝ)..Real.pi / 2, (a * Real.sin θ ^ 2 + b * Real.cos θ ^ 2) = Real.pi * (a + b) / 4 := by
    rw [intervalIntegral.integral_add, intervalIntegral.integral_const_mul,
      intervalIntegral.integral_const_mul, integral_sin_sq, integral_cos_sq]
    · simp; ring
    · exact (Continuous.intervalIntegrable (by fun_prop) _ _)
    · exact (Continuous.intervalIntegrable (by fun_prop) _ _)
  rw [← hI]
  apply integral_mono_on hpi
  · exact (Continuous.intervalIntegrable (by fun_prop) _ _)
  · exact (arcSpeed_continuous a b).intervalIntegrable _ _
  · intro θ _; exact arcSpeed_ge a b θ

/-- `4 a E(e²)` is four times the quarter arc length, for `a ≥ b > 0` -/
theorem perimeter_eq_arclength_ordered (ellipe : ℝ → ℝ) (hE : IsEllipe ellipe) (a b : ℝ) (hb : 0 < b)
    (hab : b ≤ a) :
    Ellipse.perimeter ellipe a b = 4 * ∫ θ in (0:ℝ)..Real.pi / 2, CSpec.arcSpeed a b θ := by
  have ha : 0 < a := lt_of_lt_of_le hb hab
  have harg := ellipeArg_eq a b ha hb
  rw [min_eq_right hab, max_eq_left hab] at harg
  have h0 : 0 ≤ Ellipse.ellipeArg a b := by
    rw [harg, sub_nonneg, div_le_one (by positivity)]; exact pow_le_pow_left₀ hb.le hab 2
  have h1 : Ellipse.ellipeArg a b < 1 := by
    rw [harg]; have : 0 < b ^ 2 / a ^ 2 := by positivity
    linarith
  simp only [Ellipse.perimeter, sort2_real, max_eq_left hab, Scalar.lit, Scalar.ofNat_real, Nat.cast_ofNat]
  rw [hE _ h0 h1, mul_assoc, ← intervalIntegral.integral_const_mul, arcSpeed_quarter_swap]
  congr 2; funext θ
  rw [arcSpeed_real, harg]
  have e : b ^ 2 * Real.sin θ ^ 2 + a ^ 2 * Real.cos θ ^ 2
      = a ^ 2 * (1 - (1 - b ^ 2 / a ^ 2) * Real.sin θ ^ 2) := by
    have := Real.sin_sq_add_cos_sq θ
    field_simp
    linear_combination (a ^ 2) * this
  rw [e, Real.sqrt_mul (sq_nonneg a), Real.sqrt_sq ha.le]

end C10
