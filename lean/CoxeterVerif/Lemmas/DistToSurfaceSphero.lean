import CoxeterVerif.Lemmas.DistToSurfaceChain
/-!
  C14, spheropolygon: corner-level geometry of `ConvexSpheropolygon.distance_to_surface`.

  * `outwardUnitNormal_props`: `_get_outward_unit_normal`, all slope / sign cases;
  * `outward_eq_right_in/out`: for an edge of a counter-clockwise polygon with the centre strictly
    on its left, both calls the code makes (`(v1 − v2, v2)` and `(v3 − v2, v2)`) return THE right-hand
    unit normal `rightNormal` of the edge;
  * `corner_newVert_on_lines`: the expanded vertex `v2 + û r / sin(φ/2)` lies on BOTH offset lines
    (at signed distance exactly `r` from the supporting lines of the two core edges at `v2`);
  * `arc_in_range`: for a direction inside the angular range of a corner's arc the discriminant of
    the arc quadratic is non-negative and the root is positive.
-/
open Scalar
set_option maxRecDepth 4000
noncomputable section
namespace DTS

/-- **`_get_outward_unit_normal`, all slope / sign cases.** -/
theorem outwardUnitNormal_props (vec pt : P2 ℝ) (hcr : Spec.cross vec pt ≠ 0) :
    let n := DTS.outwardUnitNormal vec pt
    n.x * n.x + n.y * n.y = 1 ∧ n.x * vec.x + n.y * vec.y = 0 ∧ 0 < n.x * pt.x + n.y * pt.y := by
  intro n
  simp only [Spec.cross] at hcr
  simp only [n, DTS.outwardUnitNormal, Scalar.eqb_real, Scalar.lit, Scalar.ofNat_real, Nat.cast_zero,
    Nat.cast_one, decide_eq_true_eq, Scalar.sqrt_real]
  by_cases hvx : vec.x = 0
  · rw [if_pos hvx]
    have hpx : pt.x ≠ 0 := by
      intro h; apply hcr; rw [hvx, h]; ring
    obtain ⟨h1, h2⟩ := sign_mul_self_pos pt.x hpx
    simp only [mul_one, mul_zero, add_zero, zero_mul, hvx]
    exact ⟨h2, trivial, h1⟩
  · rw [if_neg hvx]
    have hy : pt.y - vec.y / vec.x * pt.x = (vec.x * pt.y - vec.y * pt.x) / vec.x := by
      field_simp
    have hy0 : pt.y - vec.y / vec.x * pt.x ≠ 0 := by
      rw [hy]; exact div_ne_zero hcr hvx
    by_cases hm : vec.y / vec.x = 0
    · rw [if_pos hm]
      have hvy : vec.y = 0 := by
        rcases div_eq_zero_iff.mp hm with h | h
        · exact h
        · exact absurd h hvx
      obtain ⟨h1, h2⟩ := sign_mul_self_pos _ hy0
      have e : pt.y - vec.y / vec.x * pt.x = pt.y := by rw [hm]; ring
      simp only [mul_one, zero_mul, zero_add]
      refine ⟨h2, by rw [hvy]; ring, ?_⟩
      rw [e] at h1 ⊢; exact h1
    · rw [if_neg hm]
      set m := vec.y / vec.x with hmdef
      set y0 := pt.y - m * pt.x with hy0def
      have hN : 0 < Real.sqrt (-m * -m + 1 * 1) := Real.sqrt_pos.mpr (by nlinarith [mul_self_nonneg m])
      have hNN := Real.mul_self_sqrt (show (0:ℝ) ≤ -m * -m + 1 * 1 by nlinarith [mul_self_nonneg m])
      set N := Real.sqrt (-m * -m + 1 * 1) with hNdef
      have hN' : N ≠ 0 := hN.ne'
      have hvy : vec.y = m * vec.x := by rw [hmdef]; field_simp
      rcases lt_or_gt_of_ne hm with hneg | hpos
      · -- slope < 0 : nx > 0
        have hnx : 0 < -m / N := div_pos (by linarith) hN
        rw [if_neg (not_lt.mpr hneg.le)]
        rcases lt_or_gt_of_ne hy0 with hyn | hyp
        · have hflip : ((decide (0 < y0) && decide (-m / N < 0)) || (decide (y0 < 0) && decide (0 < -m / N))) = true := by
            simp [hyn, hnx]
          rw [if_pos hflip]
          refine ⟨?_, ?_, ?_⟩
          · field_simp; nlinarith
          · rw [hvy]; field_simp; ring
          · have : -m / N * -1 * pt.x + 1 / N * -1 * pt.y = -y0 / N := by rw [hy0def]; field_simp; ring
            rw [this]; exact div_pos (by linarith) hN
        · have hflip : ¬ ((decide (0 < y0) && decide (-m / N < 0)) || (decide (y0 < 0) && decide (0 < -m / N))) = true := by
            simp [hyp, hnx, not_lt.mpr hyp.le, not_lt.mpr hnx.le]
          rw [if_neg hflip]
          refine ⟨?_, ?_, ?_⟩
          · field_simp; nlinarith
          · rw [hvy]; field_simp; ring
          · have : -m / N * pt.x + 1 / N * pt.y = y0 / N := by rw [hy0def]; field_simp; ring
            rw [this]; exact div_pos hyp hN
      · -- slope > 0 : nx < 0
        have hnx : -m / N < 0 := div_neg_of_neg_of_pos (by linarith) hN
        rw [if_pos hpos]
        rcases lt_or_gt_of_ne hy0 with hyn | hyp
        · have hflip : ((decide (0 < y0) && decide (0 < -m / N)) || (decide (y0 < 0) && decide (-m / N < 0))) = true := by
            simp [hyn, hnx]
          rw [if_pos hflip]
          refine ⟨?_, ?_, ?_⟩
          · field_simp; nlinarith
          · rw [hvy]; field_simp; ring
          · have : -m / N * -1 * pt.x + 1 / N * -1 * pt.y = -y0 / N := by rw [hy0def]; field_simp; ring
            rw [this]; exact div_pos (by linarith) hN
        · have hflip : ¬ ((decide (0 < y0) && decide (0 < -m / N)) || (decide (y0 < 0) && decide (-m / N < 0))) = true := by
            simp [hyp, hnx, not_lt.mpr hyp.le, not_lt.mpr hnx.le]
          rw [if_neg hflip]
          refine ⟨?_, ?_, ?_⟩
          · field_simp; nlinarith
          · rw [hvy]; field_simp; ring
          · have : -m / N * pt.x + 1 / N * pt.y = y0 / N := by rw [hy0def]; field_simp; ring
            rw [this]; exact div_pos hyp hN


/-- unit vector to the right of the direction `p → q` (outward for a counter-clockwise polygon) -/
def rightNormal (p q : P2 ℝ) : P2 ℝ :=
  ⟨(q.y - p.y) / P2.norm (q - p), -(q.x - p.x) / P2.norm (q - p)⟩

theorem norm_pos_of_ne (w : P2 ℝ) (h : w.x ≠ 0 ∨ w.y ≠ 0) : 0 < P2.norm w := by
  rw [P2.norm_real]
  apply Real.sqrt_pos.mpr
  rcases h with h | h
  · have := mul_self_pos.mpr h; nlinarith [mul_self_nonneg w.y]
  · have := mul_self_pos.mpr h; nlinarith [mul_self_nonneg w.x]

/-- in the plane a unit vector perpendicular to `vec ≠ 0` with positive component along `pt` is unique -/
theorem unit_perp_unique (vec pt m n : P2 ℝ) (hv : vec.x ≠ 0 ∨ vec.y ≠ 0)
    (hm1 : m.x * m.x + m.y * m.y = 1) (hm2 : m.x * vec.x + m.y * vec.y = 0) (hm3 : 0 < m.x * pt.x + m.y * pt.y)
    (hn1 : n.x * n.x + n.y * n.y = 1) (hn2 : n.x * vec.x + n.y * vec.y = 0) (hn3 : 0 < n.x * pt.x + n.y * pt.y) :
    m = n := by
  -- m and n are parallel
  have hvv : 0 < vec.x * vec.x + vec.y * vec.y := by
    rcases hv with h | h
    · have := mul_self_pos.mpr h; nlinarith [mul_self_nonneg vec.y]
    · have := mul_self_pos.mpr h; nlinarith [mul_self_nonneg vec.x]
  have hcr : (m.x * n.y - m.y * n.x) * (vec.x * vec.x + vec.y * vec.y) = 0 := by
    linear_combination (vec.x * n.y - vec.y * n.x) * hm2 - (vec.x * m.y - vec.y * m.x) * hn2
  have hpar : m.x * n.y - m.y * n.x = 0 := (mul_eq_zero.mp hcr).resolve_right hvv.ne'
  -- Lagrange: (m·n)² + cross² = 1
  have hdot : (m.x * n.x + m.y * n.y) ^ 2 = 1 := by
    have : (m.x * n.x + m.y * n.y) ^ 2 + (m.x * n.y - m.y * n.x) ^ 2 =
        (m.x * m.x + m.y * m.y) * (n.x * n.x + n.y * n.y) := by ring
    rw [hpar, hm1, hn1] at this; linarith
  have hd : m.x * n.x + m.y * n.y = 1 ∨ m.x * n.x + m.y * n.y = -1 := by
    have : (m.x * n.x + m.y * n.y - 1) * (m.x * n.x + m.y * n.y + 1) = 0 := by nlinarith
    rcases mul_eq_zero.mp this with h | h
    · left; linarith
    · right; linarith
  rcases hd with hd | hd
  · have hx : (m.x - n.x) ^ 2 + (m.y - n.y) ^ 2 = 0 := by nlinarith
    have h1 : m.x - n.x = 0 := by nlinarith [sq_nonneg (m.x - n.x), sq_nonneg (m.y - n.y)]
    have h2 : m.y - n.y = 0 := by nlinarith [sq_nonneg (m.x - n.x), sq_nonneg (m.y - n.y)]
    cases m; cases n; simp only at h1 h2 ⊢; congr <;> linarith
  · exfalso
    have hx : (m.x + n.x) ^ 2 + (m.y + n.y) ^ 2 = 0 := by nlinarith
    have h1 : m.x + n.x = 0 := by nlinarith [sq_nonneg (m.x + n.x), sq_nonneg (m.y + n.y)]
    have h2 : m.y + n.y = 0 := by nlinarith [sq_nonneg (m.x + n.x), sq_nonneg (m.y + n.y)]
    have : m.x * pt.x + m.y * pt.y = -(n.x * pt.x + n.y * pt.y) := by
      have e1 : m.x = -n.x := by linarith
      have e2 : m.y = -n.y := by linarith
      rw [e1, e2]; ring
    linarith

theorem rightNormal_props (p q : P2 ℝ) (hC : 0 < Spec.cross p q) :
    let n := rightNormal p q
    n.x * n.x + n.y * n.y = 1 ∧ n.x * (q.x - p.x) + n.y * (q.y - p.y) = 0 ∧
    0 < n.x * p.x + n.y * p.y ∧ 0 < n.x * q.x + n.y * q.y ∧
    n.x * p.x + n.y * p.y = Spec.cross p q / P2.norm (q - p) ∧
    n.x * q.x + n.y * q.y = Spec.cross p q / P2.norm (q - p) := by
  intro n
  have hne : (q - p).x ≠ 0 ∨ (q - p).y ≠ 0 := by
    by_contra h
    rw [not_or, not_not, not_not] at h
    simp only [P2.sub_x, P2.sub_y] at h
    simp only [Spec.cross] at hC
    have e1 : q.x = p.x := by linarith [h.1]
    have e2 : q.y = p.y := by linarith [h.2]
    rw [e1, e2] at hC; linarith
  have hL := norm_pos_of_ne (q - p) hne
  have hLL := P2.norm_mul_self (q - p)
  simp only [P2.sub_x, P2.sub_y] at hLL
  set L := P2.norm (q - p) with hLdef
  have hL' : L ≠ 0 := hL.ne'
  have e5 : n.x * p.x + n.y * p.y = Spec.cross p q / L := by
    simp only [n, rightNormal, Spec.cross, ← hLdef]; field_simp; ring
  have e6 : n.x * q.x + n.y * q.y = Spec.cross p q / L := by
    simp only [n, rightNormal, Spec.cross, ← hLdef]; field_simp; ring
  refine ⟨?_, ?_, ?_, ?_, e5, e6⟩
  · simp only [n, rightNormal, ← hLdef]; field_simp; nlinarith
  · simp only [n, rightNormal, ← hLdef]; field_simp; ring
  · rw [e5]; exact div_pos hC hL
  · rw [e6]; exact div_pos hC hL


theorem norm_sub_comm (p q : P2 ℝ) : P2.norm (p - q) = P2.norm (q - p) := by
  simp only [P2.norm_real, P2.sub_x, P2.sub_y]; congr 1; ring

/-- incoming edge: the code calls `_get_outward_unit_normal(v1 − v2, v2)` -/
theorem outward_eq_right_in (p q : P2 ℝ) (hC : 0 < Spec.cross p q) :
    outwardUnitNormal (p - q) q = rightNormal p q := by
  obtain ⟨h1, h2, _, h4, _, _⟩ := rightNormal_props p q hC
  have hcr : Spec.cross (p - q) q ≠ 0 := by
    simp only [Spec.cross, P2.sub_x, P2.sub_y] at hC ⊢; intro h; nlinarith
  obtain ⟨g1, g2, g3⟩ := outwardUnitNormal_props (p - q) q hcr
  have hv : (p - q).x ≠ 0 ∨ (p - q).y ≠ 0 := by
    by_contra h
    rw [not_or, not_not, not_not] at h
    apply hcr; simp only [Spec.cross]; rw [h.1, h.2]; ring
  apply unit_perp_unique (p - q) q _ _ hv g1 g2 g3 h1 _ h4
  simp only [P2.sub_x, P2.sub_y]; linarith

/-- outgoing edge: the code calls `_get_outward_unit_normal(v3 − v2, v2)` -/
theorem outward_eq_right_out (p q : P2 ℝ) (hC : 0 < Spec.cross p q) :
    outwardUnitNormal (q - p) p = rightNormal p q := by
  obtain ⟨h1, h2, h3, _, _, _⟩ := rightNormal_props p q hC
  have hcr : Spec.cross (q - p) p ≠ 0 := by
    simp only [Spec.cross, P2.sub_x, P2.sub_y] at hC ⊢; intro h; nlinarith
  obtain ⟨g1, g2, g3⟩ := outwardUnitNormal_props (q - p) p hcr
  have hv : (q - p).x ≠ 0 ∨ (q - p).y ≠ 0 := by
    by_contra h
    rw [not_or, not_not, not_not] at h
    apply hcr; simp only [Spec.cross]; rw [h.1, h.2]; ring
  exact unit_perp_unique (q - p) p _ _ hv g1 g2 g3 h1 (by simpa [P2.sub_x, P2.sub_y] using h2) h3

/-- algebra of the expanded vertex: for unit normals `n1`, `n2` with `c = n1·n2 > −1` and
`cos φ = −c`, the vector `û r / sin(φ/2)`, `û = (n1 + n2)/|n1 + n2|`, has component exactly `r`
along both normals -/
theorem corner_algebra (n1 n2 : P2 ℝ) (r cosphi : ℝ)
    (h1 : n1.x * n1.x + n1.y * n1.y = 1) (h2 : n2.x * n2.x + n2.y * n2.y = 1)
    (hc : cosphi = -(n1.x * n2.x + n1.y * n2.y)) (hlt : -1 < n1.x * n2.x + n1.y * n2.y) :
    let un := P2.norm (n1 + n2)
    let s := Real.sin (Real.arccos cosphi / 2)
    n1.x * ((n1 + n2).x / un * r / s) + n1.y * ((n1 + n2).y / un * r / s) = r ∧
    n2.x * ((n1 + n2).x / un * r / s) + n2.y * ((n1 + n2).y / un * r / s) = r := by
  intro un s
  set c := n1.x * n2.x + n1.y * n2.y with hcdef
  have hle : c ≤ 1 := by
    have : c ^ 2 + (n1.x * n2.y - n1.y * n2.x) ^ 2 =
        (n1.x * n1.x + n1.y * n1.y) * (n2.x * n2.x + n2.y * n2.y) := by rw [hcdef]; ring
    rw [h1, h2] at this
    nlinarith [sq_nonneg (n1.x * n2.y - n1.y * n2.x), sq_nonneg (c - 1)]
  have h1c : 0 < 1 + c := by linarith
  have hcos : Real.cos (Real.arccos cosphi) = -c := by
    rw [hc]; exact Real.cos_arccos (by linarith) (by linarith)
  have hs : s = Real.sqrt ((1 + c) / 2) := by
    simp only [s]
    rw [Real.sin_half_eq_sqrt (Real.arccos_nonneg _) (by linarith [Real.arccos_le_pi cosphi, Real.pi_pos]), hcos]
    congr 1; ring
  have hun : un = Real.sqrt (2 * (1 + c)) := by
    simp only [un, P2.norm_real, P2.add_x, P2.add_y]
    congr 1; rw [hcdef]; nlinarith
  have hus : un * s = 1 + c := by
    rw [hun, hs, ← Real.sqrt_mul (by positivity)]
    have : 2 * (1 + c) * ((1 + c) / 2) = (1 + c) * (1 + c) := by ring
    rw [this, Real.sqrt_mul_self h1c.le]
  have hun0 : un ≠ 0 := by
    intro h; rw [h, zero_mul] at hus; linarith
  have hs0 : s ≠ 0 := by
    intro h; rw [h, mul_zero] at hus; linarith
  have e1 : n1.x * (n1 + n2).x + n1.y * (n1 + n2).y = 1 + c := by
    simp only [P2.add_x, P2.add_y]; rw [hcdef]; nlinarith
  have e2 : n2.x * (n1 + n2).x + n2.y * (n1 + n2).y = 1 + c := by
    simp only [P2.add_x, P2.add_y]; rw [hcdef]; nlinarith
  constructor
  · have : n1.x * ((n1 + n2).x / un * r / s) + n1.y * ((n1 + n2).y / un * r / s) =
        (n1.x * (n1 + n2).x + n1.y * (n1 + n2).y) * r / (un * s) := by field_simp
    rw [this, e1, hus]; field_simp
  · have : n2.x * ((n1 + n2).x / un * r / s) + n2.y * ((n1 + n2).y / un * r / s) =
        (n2.x * (n1 + n2).x + n2.y * (n1 + n2).y) * r / (un * s) := by field_simp
    rw [this, e2, hus]; field_simp

/-- **the expanded vertex lies on both offset lines.**  For a convex corner `v1 → v2 → v3` of a
counter-clockwise polygon around the centre (origin strictly left of both edges, strict left turn)
the coded `new_vert = v2 + û r / sin(φ/2)` is at signed distance exactly `r` from the supporting
lines of both edges; the arc range is `[atan2Pos(v2 + r n1), atan2Pos(v2 + r n2)]`. -/
theorem corner_newVert_on_lines (r : ℝ) (v1 v2 v3 : P2 ℝ)
    (h12 : 0 < Spec.cross v1 v2) (h23 : 0 < Spec.cross v2 v3)
    (hturn : 0 < Spec.cross (v2 - v1) (v3 - v2)) :
    let k := corner r v1 v2 v3
    let n1 := rightNormal v1 v2
    let n2 := rightNormal v2 v3
    n1.x * (k.newVert.x - v2.x) + n1.y * (k.newVert.y - v2.y) = r ∧
    n2.x * (k.newVert.x - v2.x) + n2.y * (k.newVert.y - v2.y) = r ∧
    k.theta1 = atan2Pos (v2.y + n1.y * r) (v2.x + n1.x * r) ∧
    k.theta2 = atan2Pos (v2.y + n2.y * r) (v2.x + n2.x * r) ∧ k.v = v2 := by
  intro k n1 n2
  obtain ⟨a1, _, _, _, _, _⟩ := rightNormal_props v1 v2 h12
  obtain ⟨b1, _, _, _, _, _⟩ := rightNormal_props v2 v3 h23
  have hL1 : 0 < P2.norm (v2 - v1) := by
    apply norm_pos_of_ne
    by_contra h
    rw [not_or, not_not, not_not] at h
    simp only [Spec.cross, h.1, h.2] at hturn; linarith
  have hL2 : 0 < P2.norm (v3 - v2) := by
    apply norm_pos_of_ne
    by_contra h
    rw [not_or, not_not, not_not] at h
    simp only [Spec.cross, h.1, h.2] at hturn; linarith
  -- the cosine handed to arccos is `−n1·n2`
  have hcosarg : ((v3 - v2).x * (v1 - v2).x + (v3 - v2).y * (v1 - v2).y) /
      (P2.norm (v3 - v2) * P2.norm (v1 - v2)) = -(n1.x * n2.x + n1.y * n2.y) := by
    rw [norm_sub_comm v1 v2]
    simp only [n1, n2, rightNormal, P2.sub_x, P2.sub_y]
    field_simp; ring
  have hcross : n1.x * n2.y - n1.y * n2.x =
      Spec.cross (v2 - v1) (v3 - v2) / (P2.norm (v2 - v1) * P2.norm (v3 - v2)) := by
    simp only [n1, n2, rightNormal, Spec.cross, P2.sub_x, P2.sub_y]
    field_simp; ring
  have hlt : -1 < n1.x * n2.x + n1.y * n2.y := by
    have hpos : 0 < n1.x * n2.y - n1.y * n2.x := by
      rw [hcross]; exact div_pos hturn (mul_pos hL1 hL2)
    have : (n1.x * n2.x + n1.y * n2.y) ^ 2 + (n1.x * n2.y - n1.y * n2.x) ^ 2 =
        (n1.x * n1.x + n1.y * n1.y) * (n2.x * n2.x + n2.y * n2.y) := by ring
    rw [a1, b1] at this
    nlinarith [sq_nonneg (n1.x * n2.x + n1.y * n2.y + 1)]
  obtain ⟨c1, c2⟩ := corner_algebra n1 n2 r _ a1 b1 hcosarg hlt
  have hin : outwardUnitNormal (v1 - v2) v2 = n1 := outward_eq_right_in v1 v2 h12
  have hout : outwardUnitNormal (v3 - v2) v2 = n2 := outward_eq_right_out v2 v3 h23
  simp only [k, corner, hin, hout, Scalar.acos_real, Scalar.sin_real, Scalar.lit, Scalar.ofNat_real,
    Nat.cast_ofNat]
  refine ⟨?_, ?_, trivial, trivial, trivial⟩
  · linear_combination c1
  · linear_combination c2

/-- the spheropolygon's `if phi < 0: phi += 2π` gives the same angle as `np.mod(·, 2π)` -/
theorem atan2Pos_eq_vang (p : P2 ℝ) : atan2Pos p.y p.x = vang p := by
  unfold atan2Pos vang
  simp only [Scalar.atan2_real, Scalar.lit, Scalar.ofNat_real, Nat.cast_zero]
  have h1 := Complex.neg_pi_lt_arg (⟨p.x, p.y⟩ : ℂ)
  have h2 := Complex.arg_le_pi (⟨p.x, p.y⟩ : ℂ)
  have hpi := Real.pi_pos
  split_ifs with h
  · rw [fmod_neg _ (by rw [twoPi_real]; linarith) h]
  · rw [fmod_id _ (not_lt.mp h) (by rw [twoPi_real]; linarith)]

/-- `cross(p, (cos a, sin a)) = |p| sin(a − α_p)` -/
theorem cross_dir_eq_sin (p : P2 ℝ) (a : ℝ) :
    Spec.cross p ⟨Real.cos a, Real.sin a⟩ = P2.norm p * Real.sin (a - vang p) ∧
    Spec.cross ⟨Real.cos a, Real.sin a⟩ p = P2.norm p * Real.sin (vang p - a) := by
  obtain ⟨hp1, hp2⟩ := polar_vertexAngle p
  change P2.norm p * Real.cos (vang p) = p.x at hp1
  change P2.norm p * Real.sin (vang p) = p.y at hp2
  simp only [Spec.cross, Real.sin_sub]
  constructor
  · linear_combination (-Real.sin a) * hp1 + Real.cos a * hp2
  · linear_combination (Real.sin a) * hp1 - Real.cos a * hp2

/-- the angular test of the arc loop (`θ2 < θ1` = the range crosses `2π`) puts the direction in the
sector between `pt1` and `pt3` -/
theorem arc_range_sector (pt1 pt3 : P2 ℝ) (a : ℝ) (ha0 : 0 ≤ a) (ha2 : a < twoPi)
    (hsec : 0 < Spec.cross pt1 pt3)
    (hin : (if vang pt3 < vang pt1 then (vang pt1 ≤ a ∨ a ≤ vang pt3) else (vang pt1 ≤ a ∧ a ≤ vang pt3))) :
    0 ≤ Spec.cross pt1 ⟨Real.cos a, Real.sin a⟩ ∧ 0 ≤ Spec.cross ⟨Real.cos a, Real.sin a⟩ pt3 := by
  obtain ⟨hn1, hn3⟩ := norm_pos_of_cross_pos pt1 pt3 hsec
  obtain ⟨h10, h12⟩ := vang_range pt1
  obtain ⟨h30, h32⟩ := vang_range pt3
  have hpi := Real.pi_pos
  rw [(cross_dir_eq_sin pt1 a).1, (cross_dir_eq_sin pt3 a).2]
  rw [twoPi_real] at *
  rcases wrap_or_not pt1 pt3 hsec with ⟨hlt, hgap⟩ | ⟨hlt, hgap⟩
  · rw [if_neg (not_lt.mpr hlt.le)] at hin
    exact ⟨mul_nonneg hn1.le (Real.sin_nonneg_of_nonneg_of_le_pi (by linarith [hin.1]) (by linarith [hin.2])),
      mul_nonneg hn3.le (Real.sin_nonneg_of_nonneg_of_le_pi (by linarith [hin.2]) (by linarith [hin.1]))⟩
  · rw [if_pos hlt] at hin
    rw [twoPi_real] at hgap
    rcases hin with h | h
    · refine ⟨mul_nonneg hn1.le (Real.sin_nonneg_of_nonneg_of_le_pi (by linarith) (by linarith)), ?_⟩
      have : Real.sin (vang pt3 - a) = Real.sin (vang pt3 - a + 2 * Real.pi) := by rw [Real.sin_add_two_pi]
      rw [this]
      exact mul_nonneg hn3.le (Real.sin_nonneg_of_nonneg_of_le_pi (by linarith) (by linarith))
    · refine ⟨?_, mul_nonneg hn3.le (Real.sin_nonneg_of_nonneg_of_le_pi (by linarith) (by linarith))⟩
      have : Real.sin (a - vang pt1) = Real.sin (a - vang pt1 + 2 * Real.pi) := by rw [Real.sin_add_two_pi]
      rw [this]
      exact mul_nonneg hn1.le (Real.sin_nonneg_of_nonneg_of_le_pi (by linarith) (by linarith))

theorem Scalar.max_real_zero (x : ℝ) : Scalar.max x (Scalar.lit 0) = Max.max x 0 := by
  simp only [Scalar.max, Scalar.lit, Scalar.ofNat_real, Nat.cast_zero]
  split_ifs with h
  · exact (max_eq_right h.le).symm
  · exact (max_eq_left (not_lt.mp h)).symm

/-- **closed form of the root written by the arc loop** (the expression of /repo 5df35a1):
`B + √max(r² − S², 0)` with `B = v·u = |v| cos(a − φ)`, `S = cross(v, u) = |v| sin(a − φ)` -/
theorem arcDist_new (v : P2 ℝ) (r a : ℝ) :
    arcDist v r a = (v.x * Real.cos a + v.y * Real.sin a) +
      Real.sqrt (Max.max (r * r - (v.x * Real.sin a - v.y * Real.cos a) * (v.x * Real.sin a - v.y * Real.cos a)) 0) := by
  obtain ⟨hpx, hpy⟩ := polar_atan2Pos v
  set N := P2.norm v with hNdef
  set φ := atan2Pos v.y v.x with hφ
  have hb : N * Real.cos (a - φ) = v.x * Real.cos a + v.y * Real.sin a := by
    rw [Real.cos_sub, ← hpx, ← hpy]; ring
  have hs : N * Real.sin (a - φ) = v.x * Real.sin a - v.y * Real.cos a := by
    rw [Real.sin_sub, ← hpx, ← hpy]; ring
  simp only [arcDist, Scalar.max_real_zero]
  simp only [Scalar.lit, Scalar.ofNat_real, Scalar.sqrt_real, Scalar.cos_real,
    Scalar.sin_real, Nat.cast_ofNat, Nat.cast_one, mul_one, ← hNdef, ← hφ]
  rw [hs]
  have h4 : Real.sqrt (4 * Max.max (r * r - (v.x * Real.sin a - v.y * Real.cos a) * (v.x * Real.sin a - v.y * Real.cos a)) 0) =
      2 * Real.sqrt (Max.max (r * r - (v.x * Real.sin a - v.y * Real.cos a) * (v.x * Real.sin a - v.y * Real.cos a)) 0) := by
    rw [show (4 : ℝ) = 2 * 2 by norm_num, mul_assoc, Real.sqrt_mul (by norm_num), Real.sqrt_mul (by norm_num),
      ← mul_assoc, Real.mul_self_sqrt (by norm_num)]
  rw [h4, ← hb]; ring

/-- the new discriminant is the old one: `4 (r² − (|v| sin Δ)²) = b² − 4ac` -/
theorem arc_disc_identity (v : P2 ℝ) (r a : ℝ) :
    4 * (r * r - (v.x * Real.sin a - v.y * Real.cos a) * (v.x * Real.sin a - v.y * Real.cos a)) =
      (2 * (v.x * Real.cos a + v.y * Real.sin a)) ^ 2 - 4 * (v.x * v.x + v.y * v.y - r * r) := by
  have hsc := sin_mul_self_add_cos_mul_self a
  linear_combination (-4 * (v.x * v.x + v.y * v.y)) * hsc

/-- where the textbook discriminant is non-negative the new expression IS the textbook root
`(−b + √(b² − 4ac)) / 2a` -/
theorem arcDist_eq (v : P2 ℝ) (r a : ℝ)
    (hdisc : 0 ≤ (2 * (v.x * Real.cos a + v.y * Real.sin a)) ^ 2 - 4 * (v.x * v.x + v.y * v.y - r * r)) :
    arcDist v r a = (2 * (v.x * Real.cos a + v.y * Real.sin a) +
      Real.sqrt ((2 * (v.x * Real.cos a + v.y * Real.sin a)) ^ 2 - 4 * (v.x * v.x + v.y * v.y - r * r))) / 2 := by
  rw [arcDist_new, ← arc_disc_identity]
  rw [← arc_disc_identity] at hdisc
  set D := r * r - (v.x * Real.sin a - v.y * Real.cos a) * (v.x * Real.sin a - v.y * Real.cos a) with hD
  have hD0 : 0 ≤ D := by linarith
  rw [max_eq_left hD0]
  have h4 : Real.sqrt (4 * D) = 2 * Real.sqrt D := by
    rw [show (4 : ℝ) = 2 * 2 by norm_num, mul_assoc, Real.sqrt_mul (by norm_num), Real.sqrt_mul (by norm_num),
      ← mul_assoc, Real.mul_self_sqrt (by norm_num)]
  rw [h4]; ring

/-- rounding radius `0`: the root is `|v| cos(a − φ) = v·u` for EVERY direction (the clipped
discriminant vanishes), never undefined -/
theorem arcDist_r0 (v : P2 ℝ) (a : ℝ) :
    arcDist v 0 a = v.x * Real.cos a + v.y * Real.sin a := by
  rw [arcDist_new]
  have : Max.max (0 * 0 - (v.x * Real.sin a - v.y * Real.cos a) * (v.x * Real.sin a - v.y * Real.cos a)) 0 = 0 := by
    apply max_eq_right
    nlinarith [mul_self_nonneg (v.x * Real.sin a - v.y * Real.cos a)]
  rw [this, Real.sqrt_zero, add_zero]

/-- **arc branch, inside its angular range.**  `pt1`, `pt3` on the circle of radius `r` about the
core vertex `v`, `cross(pt1, pt3) > 0`, and the direction `a` in the sector between them: the
discriminant of the arc quadratic is non-negative, the root written by the loop is positive, and
the point at that distance is at distance exactly `r` from `v`. -/
theorem arc_in_sector (v pt1 pt3 : P2 ℝ) (r a : ℝ)
    (h1 : (pt1.x - v.x) ^ 2 + (pt1.y - v.y) ^ 2 = r ^ 2) (h3 : (pt3.x - v.x) ^ 2 + (pt3.y - v.y) ^ 2 = r ^ 2)
    (hsec : 0 < Spec.cross pt1 pt3)
    (hA : 0 ≤ Spec.cross pt1 ⟨Real.cos a, Real.sin a⟩) (hB : 0 ≤ Spec.cross ⟨Real.cos a, Real.sin a⟩ pt3) :
    0 ≤ (2 * (v.x * Real.cos a + v.y * Real.sin a)) ^ 2 - 4 * (v.x * v.x + v.y * v.y - r * r) ∧
    0 < arcDist v r a ∧
    (arcDist v r a * Real.cos a - v.x) ^ 2 + (arcDist v r a * Real.sin a - v.y) ^ 2 = r ^ 2 := by
  have hsc := sin_mul_self_add_cos_mul_self a
  have hu : (⟨Real.cos a, Real.sin a⟩ : P2 ℝ).x ≠ 0 ∨ (⟨Real.cos a, Real.sin a⟩ : P2 ℝ).y ≠ 0 := by
    by_contra h
    rw [not_or, not_not, not_not] at h
    simp only at h
    rw [h.1, h.2] at hsc; norm_num at hsc
  obtain ⟨d, s, hd, hs0, hs1, hx, hy⟩ := ray_hits_segment_of_sector pt1 pt3 _ hu hsec hA hB
  simp only at hx hy
  set B := v.x * Real.cos a + v.y * Real.sin a with hBdef
  -- the chord point is inside the disc
  have hY : (d * Real.cos a - v.x) ^ 2 + (d * Real.sin a - v.y) ^ 2 ≤ r ^ 2 := by
    rw [hx, hy]
    have e : (pt1.x + s * (pt3.x - pt1.x) - v.x) ^ 2 + (pt1.y + s * (pt3.y - pt1.y) - v.y) ^ 2 =
        (1 - s) ^ 2 * ((pt1.x - v.x) ^ 2 + (pt1.y - v.y) ^ 2) + s ^ 2 * ((pt3.x - v.x) ^ 2 + (pt3.y - v.y) ^ 2) +
        2 * s * (1 - s) * ((pt1.x - v.x) * (pt3.x - v.x) + (pt1.y - v.y) * (pt3.y - v.y)) := by ring
    rw [e, h1, h3]
    have hcs : 2 * ((pt1.x - v.x) * (pt3.x - v.x) + (pt1.y - v.y) * (pt3.y - v.y)) ≤ 2 * r ^ 2 := by
      nlinarith [sq_nonneg (pt1.x - v.x - (pt3.x - v.x)), sq_nonneg (pt1.y - v.y - (pt3.y - v.y))]
    have hss : 0 ≤ s * (1 - s) := mul_nonneg hs0 (by linarith)
    nlinarith
  have hq : d * d - 2 * B * d + (v.x * v.x + v.y * v.y - r * r) ≤ 0 := by
    rw [hBdef]; nlinarith [hY, hsc]
  have hdisc : (2 * (d - B)) ^ 2 ≤ (2 * B) ^ 2 - 4 * (v.x * v.x + v.y * v.y - r * r) := by nlinarith
  have hdisc0 : 0 ≤ (2 * B) ^ 2 - 4 * (v.x * v.x + v.y * v.y - r * r) :=
    le_trans (sq_nonneg _) hdisc
  refine ⟨hdisc0, ?_, ?_⟩
  · rw [arcDist_eq v r a hdisc0, ← hBdef]
    have : |2 * (d - B)| ≤ Real.sqrt ((2 * B) ^ 2 - 4 * (v.x * v.x + v.y * v.y - r * r)) := by
      rw [← Real.sqrt_sq_eq_abs]; exact Real.sqrt_le_sqrt hdisc
    have h2 := le_abs_self (2 * (d - B))
    linarith
  · rw [arcDist_eq v r a hdisc0, ← hBdef]
    have hsq := Real.mul_self_sqrt hdisc0
    set S := Real.sqrt ((2 * B) ^ 2 - 4 * (v.x * v.x + v.y * v.y - r * r))
    rw [hBdef] at hsq ⊢
    linear_combination (1 / 4 : ℝ) * hsq +
      ((2 * (v.x * Real.cos a + v.y * Real.sin a) + S) / 2) ^ 2 * hsc

/-- the two arc end points of a convex corner are seen counter-clockwise from the centre -/
theorem corner_sector_pos (v n1 n2 : P2 ℝ) (r : ℝ) (hr : 0 < r)
    (a1 : n1.x * n1.x + n1.y * n1.y = 1) (b1 : n2.x * n2.x + n2.y * n2.y = 1)
    (h1 : 0 < n1.x * v.x + n1.y * v.y) (h2 : 0 < n2.x * v.x + n2.y * v.y)
    (hs : 0 < n1.x * n2.y - n1.y * n2.x) :
    0 < Spec.cross ⟨v.x + n1.x * r, v.y + n1.y * r⟩ ⟨v.x + n2.x * r, v.y + n2.y * r⟩ := by
  set c := n1.x * n2.x + n1.y * n2.y with hc
  set s := n1.x * n2.y - n1.y * n2.x with hsdef
  have hcs : c ^ 2 + s ^ 2 = 1 := by
    have : c ^ 2 + s ^ 2 = (n1.x * n1.x + n1.y * n1.y) * (n2.x * n2.x + n2.y * n2.y) := by
      rw [hc, hsdef]; ring
    rw [this, a1, b1]; ring
  have h1c : 0 < 1 + c := by nlinarith [sq_nonneg (c + 1)]
  -- P = cross(v, n2), Q = cross(v, n1):  (P − Q)(1 + c) = (h1 + h2) s
  have hP : v.x * n2.y - v.y * n2.x = (n1.x * v.x + n1.y * v.y) * s + c * (v.x * n1.y - v.y * n1.x) := by
    rw [hc, hsdef]; linear_combination (-(v.x * n2.y - v.y * n2.x)) * a1
  have hQ : v.x * n1.y - v.y * n1.x = -(n2.x * v.x + n2.y * v.y) * s + c * (v.x * n2.y - v.y * n2.x) := by
    rw [hc, hsdef]; linear_combination (-(v.x * n1.y - v.y * n1.x)) * b1
  have hPQ : ((v.x * n2.y - v.y * n2.x) - (v.x * n1.y - v.y * n1.x)) * (1 + c) =
      ((n1.x * v.x + n1.y * v.y) + (n2.x * v.x + n2.y * v.y)) * s := by
    linear_combination hP - hQ
  have hpos : 0 < (v.x * n2.y - v.y * n2.x) - (v.x * n1.y - v.y * n1.x) := by
    have : 0 < ((v.x * n2.y - v.y * n2.x) - (v.x * n1.y - v.y * n1.x)) * (1 + c) := by
      rw [hPQ]; exact mul_pos (by linarith) hs
    exact (pos_iff_pos_of_mul_pos this).mpr h1c
  have e : Spec.cross ⟨v.x + n1.x * r, v.y + n1.y * r⟩ ⟨v.x + n2.x * r, v.y + n2.y * r⟩ =
      r * ((v.x * n2.y - v.y * n2.x) - (v.x * n1.y - v.y * n1.x)) + r * r * s := by
    simp only [Spec.cross]; rw [hsdef]; ring
  rw [e]
  have := mul_pos hr hpos
  have := mul_pos (mul_pos hr hr) hs
  linarith

theorem atan2Pos_eq_vang' (x y : ℝ) : atan2Pos y x = vang ⟨x, y⟩ := atan2Pos_eq_vang ⟨x, y⟩

/-- the range test of the arc loop for corner `k` and the reduced angle `a` -/
def inArc (k : Corner ℝ) (a : ℝ) : Prop :=
  if k.theta2 < k.theta1 then (k.theta1 ≤ a ∨ a ≤ k.theta2) else (k.theta1 ≤ a ∧ a ≤ k.theta2)

/-- **one corner, arc branch.**  Convex corner `v1 → v2 → v3` around the centre, `r > 0`, reduced
angle `a ∈ [0, 2π)` inside the corner's arc range as the code tests it: the root written by the
loop is positive and the point is at distance exactly `r` from the core vertex `v2`. -/
theorem corner_arc_correct (r : ℝ) (hr : 0 < r) (v1 v2 v3 : P2 ℝ) (a : ℝ) (ha0 : 0 ≤ a) (ha2 : a < twoPi)
    (h12 : 0 < Spec.cross v1 v2) (h23 : 0 < Spec.cross v2 v3)
    (hturn : 0 < Spec.cross (v2 - v1) (v3 - v2))
    (hin : inArc (corner r v1 v2 v3) a) :
    0 < arcDist (corner r v1 v2 v3).v r a ∧
    (arcDist (corner r v1 v2 v3).v r a * Real.cos a - v2.x) ^ 2 +
      (arcDist (corner r v1 v2 v3).v r a * Real.sin a - v2.y) ^ 2 = r ^ 2 := by
  obtain ⟨_, _, ht1, ht2, hv⟩ := corner_newVert_on_lines r v1 v2 v3 h12 h23 hturn
  
  obtain ⟨a1, _, _, a4, _, _⟩ := rightNormal_props v1 v2 h12
  obtain ⟨b1, _, b3, _, _, _⟩ := rightNormal_props v2 v3 h23
  
  set n1 := rightNormal v1 v2 with hn1
  set n2 := rightNormal v2 v3 with hn2
  have hL1 : 0 < P2.norm (v2 - v1) := by
    apply norm_pos_of_ne
    by_contra h
    rw [not_or, not_not, not_not] at h
    simp only [Spec.cross, h.1, h.2] at hturn; linarith
  have hL2 : 0 < P2.norm (v3 - v2) := by
    apply norm_pos_of_ne
    by_contra h
    rw [not_or, not_not, not_not] at h
    simp only [Spec.cross, h.1, h.2] at hturn; linarith
  have hs : 0 < n1.x * n2.y - n1.y * n2.x := by
    have : n1.x * n2.y - n1.y * n2.x =
        Spec.cross (v2 - v1) (v3 - v2) / (P2.norm (v2 - v1) * P2.norm (v3 - v2)) := by
      simp only [hn1, hn2, rightNormal, Spec.cross, P2.sub_x, P2.sub_y]
      field_simp; ring
    rw [this]; exact div_pos hturn (mul_pos hL1 hL2)
  have hsec := corner_sector_pos v2 n1 n2 r hr a1 b1 a4 b3 hs
  have e1 : (corner r v1 v2 v3).theta1 = vang ⟨v2.x + n1.x * r, v2.y + n1.y * r⟩ := by
    rw [ht1, atan2Pos_eq_vang']
  have e2 : (corner r v1 v2 v3).theta2 = vang ⟨v2.x + n2.x * r, v2.y + n2.y * r⟩ := by
    rw [ht2, atan2Pos_eq_vang']
  unfold inArc at hin
  rw [e1, e2] at hin
  obtain ⟨hA, hB⟩ := arc_range_sector _ _ a ha0 ha2 hsec hin
  have hc1 : ((⟨v2.x + n1.x * r, v2.y + n1.y * r⟩ : P2 ℝ).x - v2.x) ^ 2 +
      ((⟨v2.x + n1.x * r, v2.y + n1.y * r⟩ : P2 ℝ).y - v2.y) ^ 2 = r ^ 2 := by
    simp only
    have : (v2.x + n1.x * r - v2.x) ^ 2 + (v2.y + n1.y * r - v2.y) ^ 2 =
        r ^ 2 * (n1.x * n1.x + n1.y * n1.y) := by ring
    rw [this, a1]; ring
  have hc3 : ((⟨v2.x + n2.x * r, v2.y + n2.y * r⟩ : P2 ℝ).x - v2.x) ^ 2 +
      ((⟨v2.x + n2.x * r, v2.y + n2.y * r⟩ : P2 ℝ).y - v2.y) ^ 2 = r ^ 2 := by
    simp only
    have : (v2.x + n2.x * r - v2.x) ^ 2 + (v2.y + n2.y * r - v2.y) ^ 2 =
        r ^ 2 * (n2.x * n2.x + n2.y * n2.y) := by ring
    rw [this, b1]; ring
  rw [hv]
  exact (arc_in_sector v2 _ _ r a hc1 hc3 hsec hA hB).2

end DTS
end
