import CoxeterVerif.Lemmas.Tabulated
/-!
  C18, lookup semantics through histories: the model of several tabulated families in one process
  (`Tab.World`) and of a sequence of DOI lookups through one `_KeyedDefaultDict` (`Tab.keyedRun`).
-/
namespace Tab
variable {V : Type}

/-! ### worlds of families -/

theorem World.step_fst (w : World V) (s : Step) : (w.step s).1 = w := by
  cases s <;> rfl

theorem World.run_fst (w : World V) (steps : List Step) : (w.run steps).1 = w := by
  induction steps generalizing w with
  | nil => rfl
  | cons s rest ih =>
    simp only [World.run]
    rw [World.step_fst, ih]

theorem World.run_length (w : World V) (steps : List Step) : (w.run steps).2.length = steps.length := by
  induction steps generalizing w with
  | nil => rfl
  | cons s rest ih =>
    simp only [World.run, List.length_cons]
    rw [World.step_fst, ih]

/-- the answers of a history are the answers each step gets in the INITIAL world -/
theorem World.run_snd (w : World V) (steps : List Step) : (w.run steps).2 = steps.map fun s => (w.step s).2 := by
  induction steps generalizing w with
  | nil => rfl
  | cons s rest ih =>
    simp only [World.run, List.map_cons]
    rw [World.step_fst, ih]

/-! ### DOI lookups -/

/-- the DOIs the two module-level maps know -/
def knownDois (m : DoiMaps) : List String := m.toFile.map Prod.fst ++ m.toFamily.map Prod.fst

theorem lookupOr_of_not_mem {β : Type} (d : List (String × List β)) (k : String) (h : k ∉ d.map Prod.fst) :
    lookupOr d k = [] := by
  unfold lookupOr
  rw [dictGet_of_not_mem d k h]

/-- the factory succeeds on known DOIs only (exact keys of the two maps) -/
theorem factory_ok_known (m : DoiMaps) (doi : String) (v : List RepoItem) (h : factory m doi = .ok v) :
    doi ∈ knownDois m := by
  by_contra hn
  unfold knownDois at hn
  rw [List.mem_append, not_or] at hn
  unfold factory at h
  rw [lookupOr_of_not_mem _ _ hn.1, lookupOr_of_not_mem _ _ hn.2] at h
  simp at h

theorem keyedGet_store_known (m : DoiMaps) (store : List (String × List RepoItem)) (key : String)
    (hs : ∀ k ∈ store.map Prod.fst, k ∈ knownDois m) :
    ∀ k ∈ (keyedGet m store key).2.map Prod.fst, k ∈ knownDois m := by
  unfold keyedGet
  cases hd : dictGet store key with
  | ok v => exact hs
  | error e =>
    simp only []
    cases hf : factory m key with
    | error e' => exact hs
    | ok v =>
      simp only [List.map_append, List.map_cons, List.map_nil, List.mem_append, List.mem_singleton]
      rintro k (hk | hk)
      · exact hs k hk
      · rw [hk]; exact factory_ok_known m key v hf

/-- whatever was looked up before, the dictionary only ever holds known DOIs -/
theorem keyedRun_store_known (m : DoiMaps) (store : List (String × List RepoItem)) (keys : List String)
    (hs : ∀ k ∈ store.map Prod.fst, k ∈ knownDois m) :
    ∀ k ∈ (keyedRun m store keys).2.map Prod.fst, k ∈ knownDois m := by
  induction keys generalizing store with
  | nil => exact hs
  | cons key rest ih =>
    simp only [keyedRun]
    exact ih _ (keyedGet_store_known m store key hs)

end Tab
