import CoxeterVerif.Lemmas.Tabulated
/-!
  C18, lookup semantics through histories: the model of several tabulated families in one process
  (`Tab.World`) and of a sequence of DOI lookups through one `_KeyedDefaultDict` (`Tab.keyedRun`).
-/
namespace Tab
variable {V : Type}

/-! ### worlds of families -/

theorem World.step_fst (w : World V) (s : Step) : (w.step s).1 = w := by
  cases s <;> rfl

theorem World.run_fst (w : World V) (steps : List Step) : (w.run steps).1 = w := by
  induction steps generalizing w with
  | nil => rfl
  | cons s rest ih =>
    simp only [World.run]
    rw [World.step_fst, ih]

theorem World.run_length (w : World V) (steps : List Step) : (w.run steps).2.length = steps.length := by
  induction steps generalizing w with
  | nil => rfl
  | cons s rest ih =>
    simp only [World.run, List.length_cons]
    rw [World.step_fst, ih]

/-- the answers of a history are the answers each step gets in the INITIAL world -/
theorem World.run_snd (w : World V) (steps : List Step) : (w.run steps).2 = steps.map fun s => (w.step s).2 := by
  induction steps generalizing w with
  | nil => rfl
  | cons s rest ih =>
    simp only [World.run, List.map_cons]
    rw [World.step_fst, ih]

/-! ### live iterators: any interleaving -/

theorem mem_setNth {β : Type} (l : List β) (k : Nat) (b x : β) (h : x ∈ setNth l k b) :
    x = b ∨ x ∈ l := by
  induction l generalizing k with
  | nil => simp [setNth] at h
  | cons a t ih =>
    cases k with
    | zero =>
      simp only [setNth, List.mem_cons] at h
      rcases h with h | h
      · exact Or.inl h
      · exact Or.inr (List.mem_cons_of_mem _ h)
    | succ k =>
      simp only [setNth, List.mem_cons] at h
      rcases h with h | h
      · exact Or.inr (by rw [h]; exact List.mem_cons_self)
      · rcases ih k h with h' | h'
        · exact Or.inl h'
        · exact Or.inr (List.mem_cons_of_mem _ h')

/-- the invariant of every live iterator: what it has yielded, followed by what it will still yield,
    is the full iteration of its family -/
def IterOK (w : World V) (it : LiveIter V) : Prop :=
  ∀ f, w.fams[it.fam]? = some f → it.done ++ f.iterFrom it.rest = f.iter

theorem IState.step_world (s : IState V) (st : IStep) : (s.step st).1.world = s.world := by
  cases st with
  | start i => rfl
  | next k =>
    simp only [IState.step]
    cases s.iters[k]? with
    | none => rfl
    | some it =>
      simp only []
      cases hr : it.rest <;> rfl
  | get i name => rfl
  | len i => rfl

theorem IState.step_ok (s : IState V) (st : IStep) (h : ∀ it ∈ s.iters, IterOK s.world it) :
    ∀ it ∈ (s.step st).1.iters, IterOK s.world it := by
  cases st with
  | start i =>
    simp only [IState.step, List.mem_append, List.mem_singleton]
    rintro it (hit | hit)
    · exact h it hit
    · subst hit
      intro f hf
      simp only [hf, List.nil_append]
      rfl
  | next k =>
    simp only [IState.step]
    cases hk : s.iters[k]? with
    | none => exact h
    | some it0 =>
      have hm : it0 ∈ s.iters := List.mem_of_getElem? hk
      simp only []
      cases hr : it0.rest with
      | nil => exact h
      | cons key rest =>
        intro it hit
        simp only [] at hit
        rcases mem_setNth _ _ _ _ hit with hit | hit
        · subst hit
          intro f hf
          have h0 := h it0 hm f hf
          rw [hr] at h0
          simp only [hf, List.append_assoc, List.singleton_append]
          exact h0
        · exact h it hit
  | get i name => exact h
  | len i => exact h

theorem IState.run_ok (s : IState V) (steps : List IStep) (h : ∀ it ∈ s.iters, IterOK s.world it) :
    (s.run steps).1.world = s.world ∧ ∀ it ∈ (s.run steps).1.iters, IterOK s.world it := by
  induction steps generalizing s with
  | nil => exact ⟨rfl, h⟩
  | cons st rest ih =>
    simp only [IState.run]
    have hw := IState.step_world s st
    have := ih (s.step st).1 (by rw [hw]; exact IState.step_ok s st h)
    rw [hw] at this
    exact this

/-! ### DOI lookups -/

/-- the DOIs the two module-level maps know -/
def knownDois (m : DoiMaps) : List String := m.toFile.map Prod.fst ++ m.toFamily.map Prod.fst

theorem lookupOr_of_not_mem {β : Type} (d : List (String × List β)) (k : String) (h : k ∉ d.map Prod.fst) :
    lookupOr d k = [] := by
  unfold lookupOr
  rw [dictGet_of_not_mem d k h]

/-- the factory succeeds on known DOIs only (exact keys of the two maps) -/
theorem factory_ok_known (m : DoiMaps) (doi : String) (v : List RepoItem) (h : factory m doi = .ok v) :
    doi ∈ knownDois m := by
  by_contra hn
  unfold knownDois at hn
  rw [List.mem_append, not_or] at hn
  unfold factory at h
  rw [lookupOr_of_not_mem _ _ hn.1, lookupOr_of_not_mem _ _ hn.2] at h
  simp at h

theorem keyedGet_store_known (m : DoiMaps) (store : List (String × List RepoItem)) (key : String)
    (hs : ∀ k ∈ store.map Prod.fst, k ∈ knownDois m) :
    ∀ k ∈ (keyedGet m store key).2.map Prod.fst, k ∈ knownDois m := by
  unfold keyedGet
  cases hd : dictGet store key with
  | ok v => exact hs
  | error e =>
    simp only []
    cases hf : factory m key with
    | error e' => exact hs
    | ok v =>
      simp only [List.map_append, List.map_cons, List.map_nil, List.mem_append, List.mem_singleton]
      rintro k (hk | hk)
      · exact hs k hk
      · rw [hk]; exact factory_ok_known m key v hf

/-- whatever was looked up before, the dictionary only ever holds known DOIs -/
theorem keyedRun_store_known (m : DoiMaps) (store : List (String × List RepoItem)) (keys : List String)
    (hs : ∀ k ∈ store.map Prod.fst, k ∈ knownDois m) :
    ∀ k ∈ (keyedRun m store keys).2.map Prod.fst, k ∈ knownDois m := by
  induction keys generalizing store with
  | nil => exact hs
  | cons key rest ih =>
    simp only [keyedRun]
    exact ih _ (keyedGet_store_known m store key hs)

end Tab
