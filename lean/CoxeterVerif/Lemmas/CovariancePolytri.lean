import CoxeterVerif.Lemmas.CovarianceScale
/-!
  Helper lemmas for C09 (covariance), part 3: the vendored ear clipping `polytri` (model
  `Polytri` in `Model/Polyhedron.lean`, with the thresholds as repaired in /repo: all relative).
  Every decision of `triangulate` is homogeneous, hence the whole procedure commutes with
  uniform scaling by any `k ≠ 0` — for polygons with any number of vertices (induction on fuel).
-/
open Scalar
set_option maxRecDepth 8000
noncomputable section

namespace Polytri

theorem newell_go_scale (k : ℝ) (first : V3 ℝ) (l : List (V3 ℝ)) (acc : V3 ℝ) :
    newell.go (V3.smul k first) (scV k l) (V3.smul (k ^ 2) acc) = V3.smul (k ^ 2) (newell.go first l acc) := by
  induction l generalizing acc with
  | nil => simp [scV, newell.go]
  | cons p1 t ih =>
    cases t with
    | nil =>
      simp only [scV, List.map_cons, List.map_nil, newell.go]
      ext <;> simp <;> ring
    | cons p2 rest =>
      simp only [scV, List.map_cons, newell.go] at ih ⊢
      rw [← ih]
      congr 1
      ext <;> simp <;> ring

/-- **Newell normal is homogeneous of degree 2** -/
theorem newell_scale (k : ℝ) (poly : List (V3 ℝ)) :
    newell (scV k poly) = V3.smul (k ^ 2) (newell poly) := by
  cases poly with
  | nil => ext <;> simp [newell, scV, V3.zero, Scalar.lit]
  | cons first rest =>
    have h0 : (V3.zero : V3 ℝ) = V3.smul (k ^ 2) V3.zero := by ext <;> simp
    have := newell_go_scale k first (first :: rest) V3.zero
    simp only [newell, scV, List.map_cons] at this ⊢
    rw [← this, ← h0]

theorem edgeSq_go_scale (k : ℝ) (first : V3 ℝ) (l : List (V3 ℝ)) (acc : ℝ) :
    edgeSq.go (V3.smul k first) (scV k l) (k ^ 2 * acc) = k ^ 2 * edgeSq.go first l acc := by
  induction l generalizing acc with
  | nil => simp [scV, edgeSq.go]
  | cons p1 t ih =>
    cases t with
    | nil =>
      simp only [scV, List.map_cons, List.map_nil, edgeSq.go, ← V3.smul_sub, V3.dot_smul]; ring
    | cons p2 rest =>
      simp only [scV, List.map_cons, edgeSq.go, ← V3.smul_sub, V3.dot_smul] at ih ⊢
      rw [← ih]
      congr 1; ring

/-- **the size measure (sum of squared edge lengths) is homogeneous of degree 2** -/
theorem edgeSq_scale (k : ℝ) (poly : List (V3 ℝ)) : edgeSq (scV k poly) = k ^ 2 * edgeSq poly := by
  cases poly with
  | nil => simp [edgeSq, scV, Scalar.lit]
  | cons first rest =>
    have := edgeSq_go_scale k first (first :: rest) 0
    simp only [edgeSq, scV, List.map_cons, Scalar.lit, Scalar.ofNat_real, Nat.cast_zero, mul_zero] at this ⊢
    exact this

theorem decide_congr {p q : Prop} [Decidable p] [Decidable q] (h : p ↔ q) : decide p = decide q := by
  simp only [h]

/-- **the zero-normal test is scale free** (`k ≠ 0`; both sides are homogeneous of degree 4) -/
theorem degenerate_scale {k : ℝ} (hk : k ≠ 0) (poly : List (V3 ℝ)) (normal : V3 ℝ) :
    degenerate (scV k poly) (V3.smul (k ^ 2) normal) = degenerate poly normal := by
  unfold degenerate
  apply decide_congr
  rw [edgeSq_scale, V3.dot_smul]
  have hk4 : (0:ℝ) < k ^ 4 := by positivity
  constructor
  · intro h
    have : k ^ 4 * V3.dot normal normal ≤ k ^ 4 * (lit 1 / lit 10000000000000000 * edgeSq poly * edgeSq poly) := by
      calc k ^ 4 * V3.dot normal normal = k ^ 2 * k ^ 2 * V3.dot normal normal := by ring
        _ ≤ _ := h
        _ = _ := by ring
    exact le_of_mul_le_mul_left this hk4
  · intro h
    calc k ^ 2 * k ^ 2 * V3.dot normal normal = k ^ 4 * V3.dot normal normal := by ring
      _ ≤ k ^ 4 * (lit 1 / lit 10000000000000000 * edgeSq poly * edgeSq poly) := mul_le_mul_of_nonneg_left h hk4.le
      _ = _ := by ring

/-- the ear test of `triangulate`: `dot(normal, (c−b)×(b−a)) > 1e-6 |normal|²` -/
def earTest (normal a b c : V3 ℝ) : Prop :=
  (lit 1 / lit 1000000) * V3.dot normal normal < V3.dot normal (V3.cross (c - b) (b - a))

/-- **the ear test is scale free** (`k ≠ 0`; both sides homogeneous of degree 4) -/
theorem earTest_scale {k : ℝ} (hk : k ≠ 0) (normal a b c : V3 ℝ) :
    earTest (V3.smul (k ^ 2) normal) (V3.smul k a) (V3.smul k b) (V3.smul k c) ↔ earTest normal a b c := by
  unfold earTest
  have hk4 : (0:ℝ) < k ^ 4 := by positivity
  rw [← V3.smul_sub, ← V3.smul_sub, V3.cross_smul, V3.dot_smul, V3.dot_smul]
  rw [show lit 1 / lit 1000000 * (k ^ 2 * k ^ 2 * V3.dot normal normal)
      = k ^ 4 * (lit 1 / lit 1000000 * V3.dot normal normal) by ring,
    show k ^ 2 * (k * k) * V3.dot normal (V3.cross (c - b) (b - a))
      = k ^ 4 * V3.dot normal (V3.cross (c - b) (b - a)) by ring]
  exact mul_lt_mul_iff_of_pos_left hk4

theorem veq_scale {k : ℝ} (hk : k ≠ 0) (a b : V3 ℝ) : veq (V3.smul k a) (V3.smul k b) = veq a b := by
  unfold veq
  have e : ∀ x y : ℝ, Scalar.eqb (k * x) (k * y) = Scalar.eqb x y := by
    intro x y
    show decide (k * x = k * y) = decide (x = y)
    exact decide_congr (mul_right_inj' hk)
  simp only [V3.smul_x, V3.smul_y, V3.smul_z, e]

theorem det3_smul (x y z : ℝ) (u v w : V3 ℝ) :
    V3.det3 (V3.smul x u) (V3.smul y v) (V3.smul z w) = x * y * z * V3.det3 u v w := by
  simp only [V3.det3, V3.dot, V3.cross, V3.smul_x, V3.smul_y, V3.smul_z]; ring

/-- **the closed point-in-ear test is scale free** (`k ≠ 0`: barycentric coordinates are ratios of
degree-4 forms) -/
theorem anyPointInTriangle_scale {k : ℝ} (hk : k ≠ 0) (a b c : V3 ℝ) (pts : List (V3 ℝ)) :
    anyPointInTriangle (V3.smul k a) (V3.smul k b) (V3.smul k c) (scV k pts) = anyPointInTriangle a b c pts := by
  unfold anyPointInTriangle
  simp only [scV, List.any_map]
  congr 1
  funext p
  have hk4 : k * k * (k * k) ≠ 0 := by positivity
  simp only [Function.comp, ← V3.smul_sub, V3.cross_smul, det3_smul, mul_div_mul_left _ _ hk4]

/-! #### the whole ear-clipping loop commutes with scaling -/
theorem smul_zero' (k : ℝ) : V3.smul k (V3.zero : V3 ℝ) = V3.zero := by ext <;> simp

theorem getLoop_map (k : ℝ) (poly : Array (V3 ℝ)) (i : Nat) :
    getLoop (poly.map (V3.smul k)) i = V3.smul k (getLoop poly i) := by
  unfold getLoop
  rw [Array.getD_eq_getD_getElem?, Array.getD_eq_getD_getElem?, Array.size_map, Array.getElem?_map]
  conv_lhs => rw [← smul_zero' k]
  exact Option.getD_map _ _ _

theorem eraseIdx_map' (f : V3 ℝ → V3 ℝ) (poly : Array (V3 ℝ)) (j : Nat) :
    (poly.map f).eraseIdxIfInBounds j = (poly.eraseIdxIfInBounds j).map f := by
  apply Array.toList_inj.mp
  simp only [Array.toList_eraseIdxIfInBounds, Array.toList_map, List.eraseIdx_map]

theorem others_map (f : V3 ℝ → V3 ℝ) (poly : Array (V3 ℝ)) (i : Nat) :
    others (poly.map f) i = (others poly i).map f := by
  unfold others
  simp only [Array.size_map, Array.toList_map]
  split_ifs <;> simp only [List.map_take, List.map_drop, List.map_append]

theorem rest_scale (k : ℝ) (poly : Array (V3 ℝ)) (l : List Nat) (s : V3 ℝ) :
    l.foldl (fun s j => s + V3.cross (getLoop (poly.map (V3.smul k)) j) (getLoop (poly.map (V3.smul k)) (j + 1)))
        (V3.smul (k ^ 2) s)
      = V3.smul (k ^ 2) (l.foldl (fun s j => s + V3.cross (getLoop poly j) (getLoop poly (j + 1))) s) := by
  induction l generalizing s with
  | nil => rfl
  | cons j l ih =>
    simp only [List.foldl_cons]
    rw [← ih]
    congr 1
    rw [getLoop_map, getLoop_map, V3.cross_smul, V3.smul_add]
    ext <;> simp only [V3.add_x, V3.add_y, V3.add_z, V3.smul_x, V3.smul_y, V3.smul_z] <;> ring

def mapRes (k : ℝ) (r : Except String (List (Tri ℝ))) : Except String (List (Tri ℝ)) :=
  match r with
  | .ok ts => .ok (ts.map (Tri.map (V3.smul k)))
  | .error e => .error e

/-- **ear clipping commutes with uniform scaling**: on the scaled polygon, with the scaled Newell
normal, the loop takes the same branch at every step (all its decisions — duplicate vertices, ear
test, point-in-ear test, degenerate-remainder exit — are scale free) and emits the scaled
triangles, or fails in the same way. -/
theorem loop_scale {k : ℝ} (hk : k ≠ 0) (normal : V3 ℝ) (fuel : Nat) :
    ∀ (poly : Array (V3 ℝ)) (i : Nat) (acc : List (Tri ℝ)),
      loop (V3.smul (k ^ 2) normal) fuel (poly.map (V3.smul k)) i (acc.map (Tri.map (V3.smul k)))
        = mapRes k (loop normal fuel poly i acc) := by
  induction fuel with
  | zero => intro poly i acc; simp [loop, mapRes]
  | succ fuel ih =>
    intro poly i acc
    have hk4 : (0:ℝ) < k ^ 4 := by positivity
    rw [loop, loop]
    simp only [Array.size_map]
    by_cases h1 : poly.size ≤ 2
    · rw [if_pos h1, if_pos h1]; simp only [mapRes, List.map_reverse]
    · rw [if_neg h1, if_neg h1]
      by_cases h2 : i ≥ poly.size
      · rw [if_pos h2, if_pos h2]
        have hrest := rest_scale k poly (List.range poly.size) V3.zero
        rw [smul_zero'] at hrest
        rw [hrest, V3.dot_smul, V3.dot_smul]
        set rest := (List.range poly.size).foldl (fun s j => s + V3.cross (getLoop poly j) (getLoop poly (j + 1))) V3.zero
        have hiff : (k ^ 2 * k ^ 2 * V3.dot rest rest ≤ lit 1 / lit 1000000000000 * (k ^ 2 * k ^ 2 * V3.dot normal normal))
            ↔ (V3.dot rest rest ≤ lit 1 / lit 1000000000000 * V3.dot normal normal) := by
          rw [show k ^ 2 * k ^ 2 * V3.dot rest rest = k ^ 4 * V3.dot rest rest by ring,
            show lit 1 / lit 1000000000000 * (k ^ 2 * k ^ 2 * V3.dot normal normal)
              = k ^ 4 * (lit 1 / lit 1000000000000 * V3.dot normal normal) by ring]
          exact mul_le_mul_iff_of_pos_left hk4
        by_cases h3 : V3.dot rest rest ≤ lit 1 / lit 1000000000000 * V3.dot normal normal
        · rw [if_pos (hiff.mpr h3), if_pos h3]; simp only [mapRes, List.map_reverse]
        · rw [if_neg (fun h => h3 (hiff.mp h)), if_neg h3]; simp only [mapRes]
      · rw [if_neg h2, if_neg h2]
        simp only [getLoop_map, veq_scale hk]
        by_cases h4 : (veq (getLoop poly i) (getLoop poly (i + 1)) || veq (getLoop poly (i + 1)) (getLoop poly (i + 2))) = true
        · rw [if_pos h4, if_pos h4, eraseIdx_map']
          exact ih _ _ _
        · rw [if_neg h4, if_neg h4]
          have he := earTest_scale hk normal (getLoop poly i) (getLoop poly (i + 1)) (getLoop poly (i + 2))
          unfold earTest at he
          by_cases h5 : lit 1 / lit 1000000 * V3.dot normal normal <
              V3.dot normal (V3.cross (getLoop poly (i + 2) - getLoop poly (i + 1)) (getLoop poly (i + 1) - getLoop poly i))
          · rw [if_pos (he.mpr h5), if_pos h5, others_map]
            have := anyPointInTriangle_scale hk (getLoop poly i) (getLoop poly (i + 1)) (getLoop poly (i + 2)) (others poly i)
            simp only [scV] at this
            rw [this]
            by_cases h6 : (!anyPointInTriangle (getLoop poly i) (getLoop poly (i + 1)) (getLoop poly (i + 2)) (others poly i)) = true
            · rw [if_pos h6, if_pos h6, eraseIdx_map']
              exact ih _ _ (⟨getLoop poly i, getLoop poly (i + 1), getLoop poly (i + 2)⟩ :: acc)
            · rw [if_neg h6, if_neg h6]
              exact ih _ _ _
          · rw [if_neg (fun h => h5 (he.mp h)), if_neg h5]
            exact ih _ _ _

/-- **`polytri.triangulate` commutes with uniform scaling** (`k ≠ 0`): a polygon that triangulates
at one size triangulates at every size, into the scaled triangles; the error cases correspond. -/
theorem triangulate_scale {k : ℝ} (hk : k ≠ 0) (poly : List (V3 ℝ)) :
    triangulate (scV k poly) = mapRes k (triangulate poly) := by
  unfold triangulate
  simp only []
  rw [newell_scale, degenerate_scale hk]
  by_cases hd : degenerate poly (newell poly) = true
  · rw [if_pos hd, if_pos hd]; simp only [mapRes]
  · rw [if_neg hd, if_neg hd]
    have := loop_scale hk (newell poly) (poly.length * poly.length + 2 * poly.length + 8) poly.toArray 0 []
    simp only [List.map_nil] at this
    rw [← this]
    simp only [scV, List.length_map, List.map_toArray]
end Polytri
end
