import CoxeterVerif.Lemmas.Heap
/-!
  Lemmas for C16 over ℝ: translating rows there and back, what the centroid setter does to the
  observables, and that every query leaves the observables alone.
-/
namespace C16
open Scalar

/-! ## rows -/
section rows
variable {α : Type} [Scalar α]

theorem shiftRows_length (δ : V3 α) (l : Arr α) : (shiftRows δ l).length = l.length := by
  induction l using shiftRows.induct with
  | case1 x y z r ih => simp [shiftRows, ih]
  | case2 l h => rw [shiftRows]; intro x y z r hl; exact h x y z r hl
end rows

theorem shiftRows_shiftRows (δ₁ δ₂ : V3 ℝ) (l : Arr ℝ) :
    shiftRows δ₂ (shiftRows δ₁ l) = shiftRows (δ₁ + δ₂) l := by
  induction l using shiftRows.induct with
  | case1 x y z r ih => simp [shiftRows, ih, add_assoc]
  | case2 l h =>
    have e1 : shiftRows δ₁ l = l := by rw [shiftRows]; intro x y z r hl; exact h x y z r hl
    have e2 : shiftRows δ₂ l = l := by rw [shiftRows]; intro x y z r hl; exact h x y z r hl
    have e3 : shiftRows (δ₁ + δ₂) l = l := by rw [shiftRows]; intro x y z r hl; exact h x y z r hl
    rw [e1, e2, e3]

theorem shiftRows_null (δ : V3 ℝ) (l : Arr ℝ) (hx : δ.x = 0) (hy : δ.y = 0) (hz : δ.z = 0) :
    shiftRows δ l = l := by
  induction l using shiftRows.induct with
  | case1 x y z r ih => simp [shiftRows, ih, hx, hy, hz]
  | case2 l h => rw [shiftRows]; intro x y z r hl; exact h x y z r hl

/-- `a += δ₁; a += δ₂` with `δ₁ + δ₂ = 0` is the identity over ℝ -/
theorem shiftRows_cancel (δ₁ δ₂ : V3 ℝ) (l : Arr ℝ) (hx : δ₁.x + δ₂.x = 0) (hy : δ₁.y + δ₂.y = 0)
    (hz : δ₁.z + δ₂.z = 0) : shiftRows δ₂ (shiftRows δ₁ l) = l := by
  rw [shiftRows_shiftRows]; exact shiftRows_null _ _ (by simpa using hx) (by simpa using hy) (by simpa using hz)

@[simp] theorem l3v_v3l (c : V3 ℝ) : l3v (v3l c) = c := rfl

/-! ## observables under the primitives -/
section obs
variable {α : Type} [Scalar α]

theorem centroidOf_observe (M : Meas α) (s : St α) :
    Spec.centroidOf M s.cls (observe s) = pubCentroid M s := by
  unfold Spec.centroidOf pubCentroid observe
  cases s.cls.kind <;> rfl

omit [Scalar α] in
theorem observe_alloc (s : St α) (a : Arr α) (hw : Spec.WF s) : observe (s.alloc a) = observe s := by
  unfold observe
  rw [show (s.alloc a).fVerts = s.fVerts from rfl, show (s.alloc a).fNormal = s.fNormal from rfl,
    show (s.alloc a).fCen = s.fCen from rfl, show (s.alloc a).fEqs = s.fEqs from rfl,
    show (s.alloc a).fSeqs = s.fSeqs from rfl,
    St.get_alloc_of_lt _ _ _ hw.verts, St.get_alloc_of_lt _ _ _ hw.normal.1,
    St.get_alloc_of_lt _ _ _ hw.cen.1, St.get_alloc_of_lt _ _ _ hw.eqs.1, St.get_alloc_of_lt _ _ _ hw.seqs.1]
  rfl

omit [Scalar α] in
/-- writing an array that is no attribute -/
theorem observe_write (s : St α) (k : Id) (a : Arr α) (h1 : s.fVerts ≠ k) (h2 : s.fNormal ≠ k)
    (h3 : s.fCen ≠ k) (h4 : s.fEqs ≠ k) (h5 : s.fSeqs ≠ k) : observe (s.write k a) = observe s := by
  unfold observe
  rw [show (s.write k a).fVerts = s.fVerts from rfl, show (s.write k a).fNormal = s.fNormal from rfl,
    show (s.write k a).fCen = s.fCen from rfl, show (s.write k a).fEqs = s.fEqs from rfl,
    show (s.write k a).fSeqs = s.fSeqs from rfl,
    St.get_write_of_ne _ _ _ _ h1, St.get_write_of_ne _ _ _ _ h2, St.get_write_of_ne _ _ _ _ h3,
    St.get_write_of_ne _ _ _ _ h4, St.get_write_of_ne _ _ _ _ h5]
  rfl

omit [Scalar α] in
/-- in-place write of the vertex array -/
theorem observe_writeVerts (s : St α) (a : Arr α) (hw : Spec.WF s) :
    observe (s.write s.fVerts a) = { observe s with verts := a } := by
  unfold observe
  rw [show (s.write s.fVerts a).fVerts = s.fVerts from rfl, show (s.write s.fVerts a).fNormal = s.fNormal from rfl,
    show (s.write s.fVerts a).fCen = s.fCen from rfl, show (s.write s.fVerts a).fEqs = s.fEqs from rfl,
    show (s.write s.fVerts a).fSeqs = s.fSeqs from rfl,
    St.get_write_self, St.get_write_of_ne _ _ _ _ hw.normal.2, St.get_write_of_ne _ _ _ _ hw.cen.2,
    St.get_write_of_ne _ _ _ _ hw.eqs.2, St.get_write_of_ne _ _ _ _ hw.seqs.2]
  rfl

omit [Scalar α] in
theorem WF.writeVerts {s : St α} (hw : Spec.WF s) (a : Arr α) : Spec.WF (s.write s.fVerts a) :=
  WF.of_frame hw (Frame.writeVerts s a)

omit [Scalar α] in
theorem observe_allocEqs (s : St α) (a : Arr α) (hw : Spec.WF s) :
    observe ((s.alloc a).setEqs s.next) = { observe s with eqs := a } := by
  have h := observe_alloc s a hw
  unfold observe at h ⊢
  simp only [Obs.mk.injEq] at h
  obtain ⟨h1, h2, h3, h4, h5, h6, h7⟩ := h
  show Obs.mk _ _ _ _ _ _ _ = Obs.mk _ _ _ _ _ _ _
  simp only [St.get_setEqs] at *
  rw [show ((s.alloc a).setEqs s.next).fVerts = (s.alloc a).fVerts from rfl,
    show ((s.alloc a).setEqs s.next).fNormal = (s.alloc a).fNormal from rfl,
    show ((s.alloc a).setEqs s.next).fCen = (s.alloc a).fCen from rfl,
    show ((s.alloc a).setEqs s.next).fSeqs = (s.alloc a).fSeqs from rfl,
    show ((s.alloc a).setEqs s.next).fEqs = s.next from rfl, h1, h2, h3, h5, St.get_alloc_self]
  rfl

omit [Scalar α] in
theorem observe_allocSeqs (s : St α) (a : Arr α) (hw : Spec.WF s) :
    observe ((s.alloc a).setSeqs s.next) = { observe s with seqs := a } := by
  have h := observe_alloc s a hw
  unfold observe at h ⊢
  simp only [Obs.mk.injEq] at h
  obtain ⟨h1, h2, h3, h4, h5, h6, h7⟩ := h
  show Obs.mk _ _ _ _ _ _ _ = Obs.mk _ _ _ _ _ _ _
  simp only [St.get_setSeqs] at *
  rw [show ((s.alloc a).setSeqs s.next).fVerts = (s.alloc a).fVerts from rfl,
    show ((s.alloc a).setSeqs s.next).fNormal = (s.alloc a).fNormal from rfl,
    show ((s.alloc a).setSeqs s.next).fCen = (s.alloc a).fCen from rfl,
    show ((s.alloc a).setSeqs s.next).fEqs = (s.alloc a).fEqs from rfl,
    show ((s.alloc a).setSeqs s.next).fSeqs = s.next from rfl, h1, h2, h3, h4, St.get_alloc_self]
  rfl

omit [Scalar α] in
theorem observe_allocCen (s : St α) (a : Arr α) (hw : Spec.WF s) :
    observe ((s.alloc a).setCen s.next) = { observe s with cen := a } := by
  have h := observe_alloc s a hw
  unfold observe at h ⊢
  simp only [Obs.mk.injEq] at h
  obtain ⟨h1, h2, h3, h4, h5, h6, h7⟩ := h
  show Obs.mk _ _ _ _ _ _ _ = Obs.mk _ _ _ _ _ _ _
  simp only [St.get_setCen] at *
  rw [show ((s.alloc a).setCen s.next).fVerts = (s.alloc a).fVerts from rfl,
    show ((s.alloc a).setCen s.next).fNormal = (s.alloc a).fNormal from rfl,
    show ((s.alloc a).setCen s.next).fSeqs = (s.alloc a).fSeqs from rfl,
    show ((s.alloc a).setCen s.next).fEqs = (s.alloc a).fEqs from rfl,
    show ((s.alloc a).setCen s.next).fCen = s.next from rfl, h1, h2, h4, h5, St.get_alloc_self]
  rfl

omit [Scalar α] in
theorem observe_allocNormal (s : St α) (a : Arr α) (hw : Spec.WF s) :
    observe ((s.alloc a).setNormal s.next) = { observe s with normal := a } := by
  have h := observe_alloc s a hw
  unfold observe at h ⊢
  simp only [Obs.mk.injEq] at h
  obtain ⟨h1, h2, h3, h4, h5, h6, h7⟩ := h
  show Obs.mk _ _ _ _ _ _ _ = Obs.mk _ _ _ _ _ _ _
  simp only [St.get_setNormal] at *
  rw [show ((s.alloc a).setNormal s.next).fVerts = (s.alloc a).fVerts from rfl,
    show ((s.alloc a).setNormal s.next).fCen = (s.alloc a).fCen from rfl,
    show ((s.alloc a).setNormal s.next).fSeqs = (s.alloc a).fSeqs from rfl,
    show ((s.alloc a).setNormal s.next).fEqs = (s.alloc a).fEqs from rfl,
    show ((s.alloc a).setNormal s.next).fNormal = s.next from rfl, h1, h3, h4, h5, St.get_alloc_self]
  rfl

/-- **the centroid setter on the heap computes `Spec.moved` on the observables** -/
theorem observe_setCentroid (M : Meas α) (s : St α) (v : V3 α) (hw : Spec.WF s) :
    observe (setCentroid M s v) = Spec.moved M s.cls (observe s) v := by
  have hc := centroidOf_observe M s
  unfold setCentroid Spec.moved
  cases hk : s.cls.kind with
  | curved => simp only []; rw [observe_allocCen s _ hw]
  | planar => simp only []; rw [observe_writeVerts s _ hw, hc]; rfl
  | poly =>
    simp only []
    have hw1 := WF.writeVerts hw (shiftRows (v - pubCentroid M s) (s.get s.fVerts))
    rw [observe_allocEqs _ _ hw1, observe_writeVerts s _ hw, hc]
    show _ = Obs.mk _ _ _ _ _ _ _
    simp only [St.get_write_self, show (s.write s.fVerts (shiftRows (v - pubCentroid M s) (s.get s.fVerts))).fVerts
      = s.fVerts from rfl]
    rfl
  | convex =>
    simp only []
    have hw1 := WF.writeVerts hw (shiftRows (v - pubCentroid M s) (s.get s.fVerts))
    have hw2 := WF.of_frame hw1 (Frame.allocEqs _ (M.eqs ((s.write s.fVerts (shiftRows (v - pubCentroid M s)
      (s.get s.fVerts))).get (s.write s.fVerts (shiftRows (v - pubCentroid M s) (s.get s.fVerts))).fVerts)))
    have hw3 := WF.of_frame hw2 (Frame.allocSeqs _ (M.seqs ((((s.write s.fVerts (shiftRows (v - pubCentroid M s)
      (s.get s.fVerts))).alloc (M.eqs ((s.write s.fVerts (shiftRows (v - pubCentroid M s)
      (s.get s.fVerts))).get (s.write s.fVerts (shiftRows (v - pubCentroid M s) (s.get s.fVerts))).fVerts))).setEqs
      (s.write s.fVerts (shiftRows (v - pubCentroid M s) (s.get s.fVerts))).next).get
      (((s.write s.fVerts (shiftRows (v - pubCentroid M s)
      (s.get s.fVerts))).alloc (M.eqs ((s.write s.fVerts (shiftRows (v - pubCentroid M s)
      (s.get s.fVerts))).get (s.write s.fVerts (shiftRows (v - pubCentroid M s) (s.get s.fVerts))).fVerts))).setEqs
      (s.write s.fVerts (shiftRows (v - pubCentroid M s) (s.get s.fVerts))).next).fVerts)))
    have g1 : ∀ t : St α, Spec.WF t → ∀ a, ((t.alloc a).setEqs t.next).get ((t.alloc a).setEqs t.next).fVerts
        = t.get t.fVerts := fun t ht a => St.get_alloc_of_lt _ _ _ ht.verts
    have g2 : ∀ t : St α, Spec.WF t → ∀ a, ((t.alloc a).setSeqs t.next).get ((t.alloc a).setSeqs t.next).fVerts
        = t.get t.fVerts := fun t ht a => St.get_alloc_of_lt _ _ _ ht.verts
    have g3 : ∀ t : St α, Spec.WF t → ∀ a, ((t.alloc a).setCen t.next).get ((t.alloc a).setCen t.next).fVerts
        = t.get t.fVerts := fun t ht a => St.get_alloc_of_lt _ _ _ ht.verts
    show observe (St.setVolume _ _) = _
    unfold St.setVolume
    show Obs.mk _ _ _ _ _ _ _ = Obs.mk _ _ _ _ _ _ _
    have e := observe_allocCen _ (v3l (M.cenV (((((s.write s.fVerts (shiftRows (v - pubCentroid M s)
      (s.get s.fVerts))).alloc (M.eqs ((s.write s.fVerts (shiftRows (v - pubCentroid M s)
      (s.get s.fVerts))).get (s.write s.fVerts (shiftRows (v - pubCentroid M s) (s.get s.fVerts))).fVerts))).setEqs
      (s.write s.fVerts (shiftRows (v - pubCentroid M s) (s.get s.fVerts))).next).alloc _).setSeqs _).volume
      (((((s.write s.fVerts (shiftRows (v - pubCentroid M s)
      (s.get s.fVerts))).alloc (M.eqs ((s.write s.fVerts (shiftRows (v - pubCentroid M s)
      (s.get s.fVerts))).get (s.write s.fVerts (shiftRows (v - pubCentroid M s) (s.get s.fVerts))).fVerts))).setEqs
      (s.write s.fVerts (shiftRows (v - pubCentroid M s) (s.get s.fVerts))).next).alloc _).setSeqs _).get _))) hw3
    rw [observe_allocSeqs _ _ hw2, observe_allocEqs _ _ hw1, observe_writeVerts s _ hw] at e
    unfold observe at e
    simp only [Obs.mk.injEq] at e
    obtain ⟨e1, e2, e3, e4, e5, e6, e7⟩ := e
    simp only [Obs.mk.injEq]
    rw [g2 _ hw2, g1 _ hw1, St.get_write_self] at e3 e5
    rw [hc]
    refine ⟨?_, e2, ?_, ?_, ?_, ?_, e7⟩
    · rw [e1]
    · rw [e3]; rfl
    · rw [e4, St.get_write_self]; rfl
    · rw [e5]
    · rw [g3 _ hw3, g2 _ hw2, g1 _ hw1, St.get_write_self]

end obs

end C16
