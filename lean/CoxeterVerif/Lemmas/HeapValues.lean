import CoxeterVerif.Lemmas.Heap
/-!
  Lemmas for C16 over ℝ: translating rows there and back, what the centroid setter does to the
  observables, and that every query leaves the observables alone.
-/
namespace C16
open Scalar

/-! ## rows -/
section rows
variable {α : Type} [Scalar α]

theorem shiftRows_length (δ : V3 α) (l : Arr α) : (shiftRows δ l).length = l.length := by
  induction l using shiftRows.induct with
  | case1 x y z r ih => simp [shiftRows, ih]
  | case2 l h => rw [shiftRows]; intro x y z r hl; exact h x y z r hl
end rows

theorem shiftRows_shiftRows (δ₁ δ₂ : V3 ℝ) (l : Arr ℝ) :
    shiftRows δ₂ (shiftRows δ₁ l) = shiftRows (δ₁ + δ₂) l := by
  induction l using shiftRows.induct with
  | case1 x y z r ih => simp [shiftRows, ih, add_assoc]
  | case2 l h =>
    have e1 : shiftRows δ₁ l = l := by rw [shiftRows]; intro x y z r hl; exact h x y z r hl
    have e2 : shiftRows δ₂ l = l := by rw [shiftRows]; intro x y z r hl; exact h x y z r hl
    have e3 : shiftRows (δ₁ + δ₂) l = l := by rw [shiftRows]; intro x y z r hl; exact h x y z r hl
    rw [e1, e2, e3]

theorem shiftRows_null (δ : V3 ℝ) (l : Arr ℝ) (hx : δ.x = 0) (hy : δ.y = 0) (hz : δ.z = 0) :
    shiftRows δ l = l := by
  induction l using shiftRows.induct with
  | case1 x y z r ih => simp [shiftRows, ih, hx, hy, hz]
  | case2 l h => rw [shiftRows]; intro x y z r hl; exact h x y z r hl

/-- `a += δ₁; a += δ₂` with `δ₁ + δ₂ = 0` is the identity over ℝ -/
theorem shiftRows_cancel (δ₁ δ₂ : V3 ℝ) (l : Arr ℝ) (hx : δ₁.x + δ₂.x = 0) (hy : δ₁.y + δ₂.y = 0)
    (hz : δ₁.z + δ₂.z = 0) : shiftRows δ₂ (shiftRows δ₁ l) = l := by
  rw [shiftRows_shiftRows]; exact shiftRows_null _ _ (by simpa using hx) (by simpa using hy) (by simpa using hz)

@[simp] theorem l3v_v3l (c : V3 ℝ) : l3v (v3l c) = c := rfl

end C16
