import CoxeterVerif.Lemmas.Heap
/-!
  Lemmas for C16 over ℝ: translating rows there and back, what the centroid setter does to the
  observables, and that every query leaves the observables alone.
-/
namespace C16
open Scalar
set_option linter.unusedSectionVars false

/-! ## rows -/
section rows
variable {α : Type} [Scalar α]

theorem shiftRows_length (δ : V3 α) (l : Arr α) : (shiftRows δ l).length = l.length := by
  induction l using shiftRows.induct with
  | case1 x y z r ih => simp [shiftRows, ih]
  | case2 l h => rw [shiftRows]; intro x y z r hl; exact h x y z r hl
end rows

theorem shiftRows_shiftRows (δ₁ δ₂ : V3 ℝ) (l : Arr ℝ) :
    shiftRows δ₂ (shiftRows δ₁ l) = shiftRows (δ₁ + δ₂) l := by
  induction l using shiftRows.induct with
  | case1 x y z r ih => simp [shiftRows, ih, add_assoc]
  | case2 l h =>
    have e1 : shiftRows δ₁ l = l := by rw [shiftRows]; intro x y z r hl; exact h x y z r hl
    have e2 : shiftRows δ₂ l = l := by rw [shiftRows]; intro x y z r hl; exact h x y z r hl
    have e3 : shiftRows (δ₁ + δ₂) l = l := by rw [shiftRows]; intro x y z r hl; exact h x y z r hl
    rw [e1, e2, e3]

theorem shiftRows_null (δ : V3 ℝ) (l : Arr ℝ) (hx : δ.x = 0) (hy : δ.y = 0) (hz : δ.z = 0) :
    shiftRows δ l = l := by
  induction l using shiftRows.induct with
  | case1 x y z r ih => simp [shiftRows, ih, hx, hy, hz]
  | case2 l h => rw [shiftRows]; intro x y z r hl; exact h x y z r hl

/-- `a += δ₁; a += δ₂` with `δ₁ + δ₂ = 0` is the identity over ℝ -/
theorem shiftRows_cancel (δ₁ δ₂ : V3 ℝ) (l : Arr ℝ) (hx : δ₁.x + δ₂.x = 0) (hy : δ₁.y + δ₂.y = 0)
    (hz : δ₁.z + δ₂.z = 0) : shiftRows δ₂ (shiftRows δ₁ l) = l := by
  rw [shiftRows_shiftRows]; exact shiftRows_null _ _ (by simpa using hx) (by simpa using hy) (by simpa using hz)

@[simp] theorem l3v_v3l (c : V3 ℝ) : l3v (v3l c) = c := rfl

/-! ## observables under the primitives -/
section obs
variable {α : Type} [Scalar α]

theorem centroidOf_observe (M : Meas α) (s : St α) :
    Spec.centroidOf M s.cls (observe s) = pubCentroid M s := by
  unfold Spec.centroidOf pubCentroid observe
  cases s.cls.kind <;> rfl

omit [Scalar α] in
theorem observe_alloc (s : St α) (a : Arr α) (hw : Spec.WF s) : observe (s.alloc a) = observe s := by
  unfold observe
  rw [show (s.alloc a).fVerts = s.fVerts from rfl, show (s.alloc a).fNormal = s.fNormal from rfl,
    show (s.alloc a).fCen = s.fCen from rfl, show (s.alloc a).fEqs = s.fEqs from rfl,
    show (s.alloc a).fSeqs = s.fSeqs from rfl,
    St.get_alloc_of_lt _ _ _ hw.verts, St.get_alloc_of_lt _ _ _ hw.normal.1,
    St.get_alloc_of_lt _ _ _ hw.cen.1, St.get_alloc_of_lt _ _ _ hw.eqs.1, St.get_alloc_of_lt _ _ _ hw.seqs.1]
  rfl

omit [Scalar α] in
/-- writing an array that is no attribute -/
theorem observe_write (s : St α) (k : Id) (a : Arr α) (h1 : s.fVerts ≠ k) (h2 : s.fNormal ≠ k)
    (h3 : s.fCen ≠ k) (h4 : s.fEqs ≠ k) (h5 : s.fSeqs ≠ k) : observe (s.write k a) = observe s := by
  unfold observe
  rw [show (s.write k a).fVerts = s.fVerts from rfl, show (s.write k a).fNormal = s.fNormal from rfl,
    show (s.write k a).fCen = s.fCen from rfl, show (s.write k a).fEqs = s.fEqs from rfl,
    show (s.write k a).fSeqs = s.fSeqs from rfl,
    St.get_write_of_ne _ _ _ _ h1, St.get_write_of_ne _ _ _ _ h2, St.get_write_of_ne _ _ _ _ h3,
    St.get_write_of_ne _ _ _ _ h4, St.get_write_of_ne _ _ _ _ h5]
  rfl

omit [Scalar α] in
/-- in-place write of the vertex array -/
theorem observe_writeVerts (s : St α) (a : Arr α) (hw : Spec.WF s) :
    observe (s.write s.fVerts a) = { observe s with verts := a } := by
  unfold observe
  rw [show (s.write s.fVerts a).fVerts = s.fVerts from rfl, show (s.write s.fVerts a).fNormal = s.fNormal from rfl,
    show (s.write s.fVerts a).fCen = s.fCen from rfl, show (s.write s.fVerts a).fEqs = s.fEqs from rfl,
    show (s.write s.fVerts a).fSeqs = s.fSeqs from rfl,
    St.get_write_self, St.get_write_of_ne _ _ _ _ hw.normal.2, St.get_write_of_ne _ _ _ _ hw.cen.2,
    St.get_write_of_ne _ _ _ _ hw.eqs.2, St.get_write_of_ne _ _ _ _ hw.seqs.2]
  rfl

omit [Scalar α] in
theorem WF.writeVerts {s : St α} (hw : Spec.WF s) (a : Arr α) : Spec.WF (s.write s.fVerts a) :=
  WF.of_frame hw (Frame.writeVerts s a)

omit [Scalar α] in
theorem observe_allocEqs (s : St α) (a : Arr α) (hw : Spec.WF s) :
    observe ((s.alloc a).setEqs s.next) = { observe s with eqs := a } := by
  have h := observe_alloc s a hw
  unfold observe at h ⊢
  simp only [Obs.mk.injEq] at h
  obtain ⟨h1, h2, h3, h4, h5, h6, h7⟩ := h
  show Obs.mk _ _ _ _ _ _ _ = Obs.mk _ _ _ _ _ _ _
  simp only [St.get_setEqs] at *
  rw [show ((s.alloc a).setEqs s.next).fVerts = (s.alloc a).fVerts from rfl,
    show ((s.alloc a).setEqs s.next).fNormal = (s.alloc a).fNormal from rfl,
    show ((s.alloc a).setEqs s.next).fCen = (s.alloc a).fCen from rfl,
    show ((s.alloc a).setEqs s.next).fSeqs = (s.alloc a).fSeqs from rfl,
    show ((s.alloc a).setEqs s.next).fEqs = s.next from rfl, h1, h2, h3, h5, St.get_alloc_self]
  rfl

omit [Scalar α] in
theorem observe_allocSeqs (s : St α) (a : Arr α) (hw : Spec.WF s) :
    observe ((s.alloc a).setSeqs s.next) = { observe s with seqs := a } := by
  have h := observe_alloc s a hw
  unfold observe at h ⊢
  simp only [Obs.mk.injEq] at h
  obtain ⟨h1, h2, h3, h4, h5, h6, h7⟩ := h
  show Obs.mk _ _ _ _ _ _ _ = Obs.mk _ _ _ _ _ _ _
  simp only [St.get_setSeqs] at *
  rw [show ((s.alloc a).setSeqs s.next).fVerts = (s.alloc a).fVerts from rfl,
    show ((s.alloc a).setSeqs s.next).fNormal = (s.alloc a).fNormal from rfl,
    show ((s.alloc a).setSeqs s.next).fCen = (s.alloc a).fCen from rfl,
    show ((s.alloc a).setSeqs s.next).fEqs = (s.alloc a).fEqs from rfl,
    show ((s.alloc a).setSeqs s.next).fSeqs = s.next from rfl, h1, h2, h3, h4, St.get_alloc_self]
  rfl

omit [Scalar α] in
theorem observe_allocCen (s : St α) (a : Arr α) (hw : Spec.WF s) :
    observe ((s.alloc a).setCen s.next) = { observe s with cen := a } := by
  have h := observe_alloc s a hw
  unfold observe at h ⊢
  simp only [Obs.mk.injEq] at h
  obtain ⟨h1, h2, h3, h4, h5, h6, h7⟩ := h
  show Obs.mk _ _ _ _ _ _ _ = Obs.mk _ _ _ _ _ _ _
  simp only [St.get_setCen] at *
  rw [show ((s.alloc a).setCen s.next).fVerts = (s.alloc a).fVerts from rfl,
    show ((s.alloc a).setCen s.next).fNormal = (s.alloc a).fNormal from rfl,
    show ((s.alloc a).setCen s.next).fSeqs = (s.alloc a).fSeqs from rfl,
    show ((s.alloc a).setCen s.next).fEqs = (s.alloc a).fEqs from rfl,
    show ((s.alloc a).setCen s.next).fCen = s.next from rfl, h1, h2, h4, h5, St.get_alloc_self]
  rfl

omit [Scalar α] in
theorem observe_allocNormal (s : St α) (a : Arr α) (hw : Spec.WF s) :
    observe ((s.alloc a).setNormal s.next) = { observe s with normal := a } := by
  have h := observe_alloc s a hw
  unfold observe at h ⊢
  simp only [Obs.mk.injEq] at h
  obtain ⟨h1, h2, h3, h4, h5, h6, h7⟩ := h
  show Obs.mk _ _ _ _ _ _ _ = Obs.mk _ _ _ _ _ _ _
  simp only [St.get_setNormal] at *
  rw [show ((s.alloc a).setNormal s.next).fVerts = (s.alloc a).fVerts from rfl,
    show ((s.alloc a).setNormal s.next).fCen = (s.alloc a).fCen from rfl,
    show ((s.alloc a).setNormal s.next).fSeqs = (s.alloc a).fSeqs from rfl,
    show ((s.alloc a).setNormal s.next).fEqs = (s.alloc a).fEqs from rfl,
    show ((s.alloc a).setNormal s.next).fNormal = s.next from rfl, h1, h3, h4, h5, St.get_alloc_self]
  rfl

/-- the cache refreshes of the centroid setters, one at a time -/
def refreshEqs (M : Meas α) (t : St α) : St α := (t.alloc (M.eqs (t.get t.fVerts))).setEqs t.next
def refreshSeqs (M : Meas α) (t : St α) : St α := (t.alloc (M.seqs (t.get t.fVerts))).setSeqs t.next
def refreshCen (M : Meas α) (t : St α) : St α :=
  (t.alloc (v3l (M.cenV t.volume (t.get t.fVerts)))).setCen t.next
def refreshVol (M : Meas α) (t : St α) : St α := t.setVolume (M.vol (t.get t.fVerts))

theorem refreshEqs_spec (M : Meas α) (t : St α) (hw : Spec.WF t) :
    Spec.WF (refreshEqs M t) ∧ observe (refreshEqs M t) = { observe t with eqs := M.eqs (t.get t.fVerts) } ∧
    (refreshEqs M t).get (refreshEqs M t).fVerts = t.get t.fVerts ∧ (refreshEqs M t).volume = t.volume :=
  ⟨WF.of_frame hw (Frame.allocEqs _ _), observe_allocEqs _ _ hw, St.get_alloc_of_lt _ _ _ hw.verts, rfl⟩
theorem refreshSeqs_spec (M : Meas α) (t : St α) (hw : Spec.WF t) :
    Spec.WF (refreshSeqs M t) ∧ observe (refreshSeqs M t) = { observe t with seqs := M.seqs (t.get t.fVerts) } ∧
    (refreshSeqs M t).get (refreshSeqs M t).fVerts = t.get t.fVerts ∧ (refreshSeqs M t).volume = t.volume :=
  ⟨WF.of_frame hw (Frame.allocSeqs _ _), observe_allocSeqs _ _ hw, St.get_alloc_of_lt _ _ _ hw.verts, rfl⟩
theorem refreshCen_spec (M : Meas α) (t : St α) (hw : Spec.WF t) :
    Spec.WF (refreshCen M t) ∧
    observe (refreshCen M t) = { observe t with cen := v3l (M.cenV t.volume (t.get t.fVerts)) } ∧
    (refreshCen M t).get (refreshCen M t).fVerts = t.get t.fVerts ∧ (refreshCen M t).volume = t.volume :=
  ⟨WF.of_frame hw (Frame.allocCen _ _), observe_allocCen _ _ hw, St.get_alloc_of_lt _ _ _ hw.verts, rfl⟩
theorem refreshVol_spec (M : Meas α) (t : St α) :
    observe (refreshVol M t) = { observe t with volume := M.vol (t.get t.fVerts) } := rfl

/-- **the centroid setter on the heap computes `Spec.moved` on the observables** -/
theorem observe_setCentroid (M : Meas α) (s : St α) (v : V3 α) (hw : Spec.WF s) :
    observe (setCentroid M s v) = Spec.moved M s.cls (observe s) v := by
  have hc := centroidOf_observe M s
  have hw1 := WF.writeVerts hw (shiftRows (v - pubCentroid M s) (s.get s.fVerts))
  have h1 := observe_writeVerts s (shiftRows (v - pubCentroid M s) (s.get s.fVerts)) hw
  have g1 : (s.write s.fVerts (shiftRows (v - pubCentroid M s) (s.get s.fVerts))).get
      (s.write s.fVerts (shiftRows (v - pubCentroid M s) (s.get s.fVerts))).fVerts =
      shiftRows (v - pubCentroid M s) (s.get s.fVerts) := St.get_write_self _ _ _
  unfold Spec.moved
  cases hk : s.cls.kind with
  | curved =>
    have e : setCentroid M s v = (s.alloc (v3l v)).setCen s.next := by unfold setCentroid; rw [hk]
    rw [e, observe_allocCen s _ hw]
  | planar =>
    have e : setCentroid M s v = s.write s.fVerts (shiftRows (v - pubCentroid M s) (s.get s.fVerts)) := by
      unfold setCentroid; rw [hk]
    rw [e, h1, hc]; rfl
  | poly =>
    have e : setCentroid M s v = refreshEqs M (s.write s.fVerts (shiftRows (v - pubCentroid M s) (s.get s.fVerts))) := by
      unfold setCentroid; rw [hk]; rfl
    obtain ⟨_, e2, _, _⟩ := refreshEqs_spec M _ hw1
    rw [e, e2, g1, h1, hc]; rfl
  | convex =>
    have e : setCentroid M s v = refreshVol M (refreshCen M (refreshSeqs M (refreshEqs M
        (s.write s.fVerts (shiftRows (v - pubCentroid M s) (s.get s.fVerts)))))) := by
      unfold setCentroid; rw [hk]; rfl
    obtain ⟨w2, e2, v2, u2⟩ := refreshEqs_spec M _ hw1
    obtain ⟨w3, e3, v3, u3⟩ := refreshSeqs_spec M _ w2
    obtain ⟨w4, e4, v4, u4⟩ := refreshCen_spec M _ w3
    rw [e, refreshVol_spec, e4, e3, e2, v4, v3, v2, u3, u2, g1, h1, hc]
    rfl

end obs

/-! ## `Polygon.inertia_tensor`, `Polyhedron.inertia_tensor` -/
section inertia
variable {α : Type} [Scalar α]

theorem observe_allocVerts (s : St α) (a : Arr α) (hw : Spec.WF s) :
    observe ((s.alloc a).setVerts s.next) = { observe s with verts := a } := by
  have h := observe_alloc s a hw
  unfold observe at h ⊢
  simp only [Obs.mk.injEq] at h
  obtain ⟨h1, h2, h3, h4, h5, h6, h7⟩ := h
  show Obs.mk _ _ _ _ _ _ _ = Obs.mk _ _ _ _ _ _ _
  simp only [St.get_setVerts] at *
  rw [show ((s.alloc a).setVerts s.next).fNormal = (s.alloc a).fNormal from rfl,
    show ((s.alloc a).setVerts s.next).fCen = (s.alloc a).fCen from rfl,
    show ((s.alloc a).setVerts s.next).fSeqs = (s.alloc a).fSeqs from rfl,
    show ((s.alloc a).setVerts s.next).fEqs = (s.alloc a).fEqs from rfl,
    show ((s.alloc a).setVerts s.next).fVerts = s.next from rfl, h2, h3, h4, h5, St.get_alloc_self]
  rfl

theorem WF.allocVerts {s : St α} (hw : Spec.WF s) (a : Arr α) : Spec.WF ((s.alloc a).setVerts s.next) := by
  have lt : ∀ i, i < s.next → i < s.next + 1 ∧ i ≠ s.next := fun i hi => ⟨by omega, by omega⟩
  exact
    { verts := Nat.lt_succ_self _
      normal := lt _ hw.normal.1, cen := lt _ hw.cen.1, eqs := lt _ hw.eqs.1, seqs := lt _ hw.seqs.1
      areas := fun i hi => lt _ (hw.areas i hi).1
      faceCen := fun i hi => lt _ (hw.faceCen i hi).1
      edges := fun i hi => lt _ (hw.edges i hi).1
      handed := fun i hi => (lt _ (hw.handed i hi)).1
      args := fun i hi => (lt _ (hw.args i hi)).1 }

/-- the state in which `Polygon.inertia_tensor` evaluates `polar_moment_inertia` and `area` -/
def polygonInertiaMid (M : Meas α) (s : St α) : St α :=
  ((((polygonInertiaHead M s).alloc (M.rot ((polygonInertiaHead M s).get (polygonInertiaHead M s).fNormal)
    ((polygonInertiaHead M s).get (polygonInertiaHead M s).fVerts))).setVerts (polygonInertiaHead M s).next).alloc
      [lit 0, lit 0, lit 1]).setNormal ((polygonInertiaHead M s).next + 1)

theorem polygonInertia_result (M : Meas α) (s : St α) (hw : Spec.WF s) :
    (polygonInertia M s).1.get (polygonInertia M s).2 =
      M.tensor2 (pubCentroid M s) (observe (polygonInertiaMid M s))
        ((polygonInertiaHead M s).get (polygonInertiaHead M s).fNormal) := by
  have h : (polygonInertia M s).2 ≠ s.fVerts := by
    rw [polygonInertia_ret]
    have := (polygonInertiaHead_frame M s).next_le
    have := hw.verts
    omega
  have e : (polygonInertia M s).1.get (polygonInertia M s).2 =
      ((polygonInertiaMid M s).alloc (M.tensor2 (pubCentroid M s) (observe (polygonInertiaMid M s))
        ((polygonInertiaHead M s).get (polygonInertiaHead M s).fNormal))).get (polygonInertiaMid M s).next := by
    show (St.write _ s.fVerts _).get _ = _
    rw [St.get_write_of_ne _ _ _ _ h]
    rfl
  rw [e, St.get_alloc_self]

/-- for a planar class: the head is the in-place translation of the vertex array -/
theorem polygonInertiaHead_planar (M : Meas α) (s : St α) (hk : s.cls.kind = .planar) :
    polygonInertiaHead M s =
      ((s.alloc (s.get s.fVerts)).alloc ((s.alloc (s.get s.fVerts)).get s.fNormal)).write s.fVerts
        (shiftRows (V3.zero - pubCentroid M ((s.alloc (s.get s.fVerts)).alloc ((s.alloc (s.get s.fVerts)).get s.fNormal)))
          (((s.alloc (s.get s.fVerts)).alloc ((s.alloc (s.get s.fVerts)).get s.fNormal)).get s.fVerts)) := by
  unfold polygonInertiaHead setCentroid
  rw [show ((s.alloc (s.get s.fVerts)).alloc ((s.alloc (s.get s.fVerts)).get s.fNormal)).cls = s.cls from rfl, hk]
  rfl

/-- **`Polygon.inertia_tensor` leaves the observables exactly as they were** (no hypothesis on the
external functions: the vertex array is restored from the saved copy, the normal is a copy) -/
theorem observe_polygonInertia (M : Meas α) (s : St α) (hw : Spec.WF s) (hk : s.cls.kind = .planar) :
    observe (polygonInertia M s).1 = observe s := by
  have hf := polygonInertia_frame M s
  have hh := polygonInertiaHead_frame M s
  have hp := polygonInertiaHead_planar M s hk
  have n2 : (polygonInertiaHead M s).next = s.next + 2 := by rw [hp]; rfl
  have a1 : (polygonInertiaHead M s).get s.next = s.get s.fVerts := by
    rw [hp, St.get_write_of_ne _ _ _ _ (Nat.ne_of_gt hw.verts),
      St.get_alloc_of_lt _ _ _ (by simp), St.get_alloc_self]
  have a2 : (polygonInertiaHead M s).get (s.next + 1) = s.get s.fNormal := by
    rw [hp, St.get_write_of_ne _ _ _ _ (by have := hw.verts; omega)]
    show ((s.alloc (s.get s.fVerts)).alloc _).get (s.alloc (s.get s.fVerts)).next = _
    rw [St.get_alloc_self, St.get_alloc_of_lt _ _ _ hw.normal.1]
  have gv : (polygonInertia M s).1.get s.fVerts = s.get s.fVerts := by
    have e : (polygonInertia M s).1.get s.fVerts =
        ((polygonInertiaMid M s).alloc (M.tensor2 (pubCentroid M s) (observe (polygonInertiaMid M s))
          ((polygonInertiaHead M s).get (polygonInertiaHead M s).fNormal))).get s.next := by
      show (St.write _ s.fVerts _).get s.fVerts = _
      rw [St.get_write_self]
      rfl
    have m2 : (polygonInertiaMid M s).next = (polygonInertiaHead M s).next + 2 := rfl
    rw [e, St.get_alloc_of_lt _ _ _ (by omega)]
    unfold polygonInertiaMid
    rw [St.get_setNormal, St.get_alloc_of_lt _ _ _ (by simp only [St.next_alloc, St.next_setVerts]; omega),
      St.get_setVerts, St.get_alloc_of_lt _ _ _ (by omega), a1]
  have gn : (polygonInertia M s).1.get (s.next + 1) = s.get s.fNormal := by
    rw [polygonInertia_get M s _ (by omega) (by have := hw.verts; omega), a2]
  have keep : ∀ i, i < s.next → i ≠ s.fVerts → (polygonInertia M s).1.get i = s.get i := hf.get_eq
  have fc : (polygonInertia M s).1.fCen = s.fCen := by
    show (polygonInertiaHead M s).fCen = _; rw [hp]; rfl
  have fe : (polygonInertia M s).1.fEqs = s.fEqs := by
    show (polygonInertiaHead M s).fEqs = _; rw [hp]; rfl
  have fs : (polygonInertia M s).1.fSeqs = s.fSeqs := by
    show (polygonInertiaHead M s).fSeqs = _; rw [hp]; rfl
  have fv : (polygonInertia M s).1.volume = s.volume := by
    show (polygonInertiaHead M s).volume = _; rw [hp]; rfl
  have fk : (polygonInertia M s).1.consts = s.consts := hf.consts
  unfold observe
  rw [polygonInertia_fVerts, polygonInertia_fNormal, fc, fe, fs, fv, fk, gv, gn,
    keep _ hw.cen.1 hw.cen.2, keep _ hw.eqs.1 hw.eqs.2, keep _ hw.seqs.1 hw.seqs.2]

theorem WF.alloc {s : St α} (hw : Spec.WF s) (a : Arr α) : Spec.WF (s.alloc a) :=
  WF.of_frame hw (Frame.alloc s a)

theorem observe_polygonInertiaHead (M : Meas α) (s : St α) (hw : Spec.WF s) :
    Spec.WF (polygonInertiaHead M s) ∧
    observe (polygonInertiaHead M s) = Spec.moved M s.cls (observe s) V3.zero := by
  have w1 := WF.alloc hw (s.get s.fVerts)
  have w2 := WF.alloc w1 ((s.alloc (s.get s.fVerts)).get s.fNormal)
  refine ⟨WF.of_frame hw (polygonInertiaHead_frame M s), ?_⟩
  unfold polygonInertiaHead
  rw [observe_setCentroid M _ _ w2, observe_alloc _ _ w1, observe_alloc _ _ hw]
  rfl

theorem observe_polygonInertiaMid (M : Meas α) (s : St α) (hw : Spec.WF s) :
    observe (polygonInertiaMid M s) =
      { Spec.moved M s.cls (observe s) V3.zero with
          verts := M.rot (Spec.moved M s.cls (observe s) V3.zero).normal (Spec.moved M s.cls (observe s) V3.zero).verts,
          normal := [lit 0, lit 0, lit 1] } := by
  obtain ⟨wh, oh⟩ := observe_polygonInertiaHead M s hw
  have w4 := WF.allocVerts wh (M.rot ((polygonInertiaHead M s).get (polygonInertiaHead M s).fNormal)
    ((polygonInertiaHead M s).get (polygonInertiaHead M s).fVerts))
  have e := observe_allocNormal _ [lit 0, lit 0, lit 1] w4
  have e4 := observe_allocVerts _ (M.rot ((polygonInertiaHead M s).get (polygonInertiaHead M s).fNormal)
    ((polygonInertiaHead M s).get (polygonInertiaHead M s).fVerts)) wh
  rw [e4, oh] at e
  have hn : (polygonInertiaHead M s).get (polygonInertiaHead M s).fNormal =
      (Spec.moved M s.cls (observe s) V3.zero).normal := by rw [← oh]; rfl
  have hv : (polygonInertiaHead M s).get (polygonInertiaHead M s).fVerts =
      (Spec.moved M s.cls (observe s) V3.zero).verts := by rw [← oh]; rfl
  rw [hn, hv] at e
  unfold polygonInertiaMid
  rw [hn, hv]
  exact e

theorem moved_normal (M : Meas α) (cls : Cls) (o : Obs α) (v : V3 α) : (Spec.moved M cls o v).normal = o.normal := by
  unfold Spec.moved; cases cls.kind <;> rfl

/-- **the heap program of `Polygon.inertia_tensor` returns the value semantics' answer** -/
theorem polygonInertia_answer (M : Meas α) (s : St α) (hw : Spec.WF s) :
    (polygonInertia M s).1.get (polygonInertia M s).2 = Spec.polygonInertia M s.cls (observe s) := by
  obtain ⟨_, oh⟩ := observe_polygonInertiaHead M s hw
  have hn : (polygonInertiaHead M s).get (polygonInertiaHead M s).fNormal =
      (Spec.moved M s.cls (observe s) V3.zero).normal := by rw [← oh]; rfl
  rw [polygonInertia_result M s hw, observe_polygonInertiaMid M s hw, hn, moved_normal, ← centroidOf_observe]
  rfl

theorem observe_polyhedronInertia (M : Meas α) (s : St α) (hw : Spec.WF s) :
    observe (polyhedronInertia M s).1 = observe s ∧
    (polyhedronInertia M s).1.get (polyhedronInertia M s).2 = Spec.polyhedronInertia M s.cls (observe s) := by
  have w1 := WF.alloc hw (M.gather (s.get s.fVerts))
  have o1 := observe_alloc s (M.gather (s.get s.fVerts)) hw
  have ne : ∀ i, i < s.next → i ≠ s.next := fun i hi => Nat.ne_of_lt hi
  have o2 : observe ((s.alloc (M.gather (s.get s.fVerts))).write s.next
      (shiftRows (V3.zero - pubCentroid M (s.alloc (M.gather (s.get s.fVerts))))
        ((s.alloc (M.gather (s.get s.fVerts))).get s.next))) = observe s := by
    rw [observe_write (s.alloc (M.gather (s.get s.fVerts))) s.next _ (ne _ hw.verts) (ne _ hw.normal.1) (ne _ hw.cen.1) (ne _ hw.eqs.1) (ne _ hw.seqs.1), o1]
  have w2 : Spec.WF ((s.alloc (M.gather (s.get s.fVerts))).write s.next
      (shiftRows (V3.zero - pubCentroid M (s.alloc (M.gather (s.get s.fVerts))))
        ((s.alloc (M.gather (s.get s.fVerts))).get s.next))) :=
    WF.of_frame hw ((Frame.alloc s _).writeSince s.next _ (Nat.le_refl _))
  have pc : pubCentroid M (s.alloc (M.gather (s.get s.fVerts))) = pubCentroid M s := by
    rw [← centroidOf_observe, ← centroidOf_observe, o1]; rfl
  constructor
  · show observe (St.alloc _ _) = _
    rw [observe_alloc _ _ w2, o2]
  · unfold polyhedronInertia
    simp only [St.get_alloc_self] at o2 ⊢
    rw [o2, St.get_write_self, pc, ← centroidOf_observe]
    rfl

end inertia

/-! ## there and back -/

/-- `Spec.Coherent` read off the observables -/
structure CohObs (M : Meas ℝ) (cls : Cls) (o : Obs ℝ) : Prop where
  verts : cls.kind ≠ .curved → 3 ≤ o.verts.length
  eqs : cls.kind = .poly ∨ cls.kind = .convex → o.eqs = M.eqs o.verts
  seqs : cls.kind = .convex → o.seqs = M.seqs o.verts
  volume : cls.kind = .convex → o.volume = M.vol o.verts
  cen : cls.kind = .convex → o.cen = v3l (M.cenV o.volume o.verts)
  centre : cls.kind = .curved → ∃ c : V3 ℝ, o.cen = v3l c

theorem CohObs.of_coherent {M : Meas ℝ} {s : St ℝ} (h : Spec.Coherent M s) : CohObs M s.cls (observe s) :=
  ⟨h.verts, h.eqs, h.seqs, h.volume, h.cen, h.centre⟩

/-- **translate to the origin, translate back to the old centroid: nothing changed** (over ℝ, for a
centroid getter that commutes with translations and coherent caches) -/
theorem moved_back (M : Meas ℝ) (hL : Spec.Lawful M) (cls : Cls) (o : Obs ℝ) (hc : CohObs M cls o) :
    Spec.moved M cls (Spec.moved M cls o V3.zero) (Spec.centroidOf M cls o) = o := by
  cases hk : cls.kind with
  | curved =>
    obtain ⟨c, hcen⟩ := hc.centre hk
    simp only [Spec.moved, Spec.centroidOf, hk, hcen, l3v_v3l]
    cases o; simp_all
  | planar =>
    have hlen := hc.verts (by simp [hk])
    simp only [Spec.moved, Spec.centroidOf, hk]
    rw [hL.cen_shift _ _ _ hlen, shiftRows_cancel] <;> simp
  | poly =>
    have hlen := hc.verts (by simp [hk])
    have he := hc.eqs (Or.inl hk)
    simp only [Spec.moved, Spec.centroidOf, hk]
    rw [hL.cen_shift _ _ _ hlen, shiftRows_cancel _ _ _ (by simp) (by simp) (by simp), ← he]
  | convex =>
    have hlen := hc.verts (by simp [hk])
    have he := hc.eqs (Or.inr hk)
    have hs := hc.seqs hk
    have hv := hc.volume hk
    have hcn := hc.cen hk
    simp only [Spec.moved, Spec.centroidOf, hk, l3v_v3l]
    have e1 : M.cenV o.volume (shiftRows (V3.zero - l3v o.cen) o.verts) = l3v o.cen + (V3.zero - l3v o.cen) := by
      rw [hv, hL.cenV_shift _ _ hlen, ← hv, hcn, l3v_v3l]
    rw [e1, shiftRows_cancel _ _ _ (by simp) (by simp) (by simp), hL.vol_shift, ← hv, ← he, ← hs, ← hcn]

end C16
