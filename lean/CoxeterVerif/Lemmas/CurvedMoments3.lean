import CoxeterVerif.Lemmas.CurvedMoments2
/-!
  C10: the moment records (`CSpec.Mom2` / `CSpec.Mom3`) of the solid disc, ellipse, ball and ellipsoid as Lebesgue
  integrals over the point sets in `EuclideanSpace ℝ (Fin 2 | Fin 3)` — the "textbook centred second moments" of
  `Spec/Curved.lean` are THEOREMS here (`*_centred_moments`), as is the translated record (`*_moments_translate`).
-/
open MeasureTheory Metric
noncomputable section
namespace C10

local notation "𝔼" n => EuclideanSpace ℝ (Fin n)

/-! ### the sets of `Lemmas/CurvedMeasure.lean` are `ellSet`s -/

theorem ellipseSet_eq (a b : ℝ) : ellipseSet a b = ellSet ![a, b] := by
  ext p; simp [ellipseSet, ellSet, Fin.sum_univ_two]

theorem ellipseSetAt_eq (a b : ℝ) (q : 𝔼 2) : ellipseSetAt a b q = ellSetAt ![a, b] q := by
  ext p; simp [ellipseSetAt, ellSetAt, Fin.sum_univ_two]

theorem ellipsoidSet_eq (a b c : ℝ) : ellipsoidSet a b c = ellSet ![a, b, c] := by
  ext p; simp [ellipsoidSet, ellSet, Fin.sum_univ_three]

theorem ellipsoidSetAt_eq (a b c : ℝ) (q : 𝔼 3) : ellipsoidSetAt a b c q = ellSetAt ![a, b, c] q := by
  ext p; simp [ellipsoidSetAt, ellSetAt, Fin.sum_univ_three]

/-- a closed Euclidean ball is the "ellipsoid" with all semi-axes `r` -/
theorem closedBall_eq_ellSetAt {n : ℕ} (q : 𝔼 n) (r : ℝ) (hr : 0 < r) :
    closedBall q r = ellSetAt (fun _ => r) q := by
  ext p
  simp only [mem_closedBall, EuclideanSpace.dist_eq, ellSetAt, Set.mem_ofPred_eq, div_pow]
  rw [← Finset.sum_div, div_le_one (by positivity), Real.sqrt_le_left hr.le]
  simp [Real.dist_eq, sq_abs]

theorem pos2 {a b : ℝ} (ha : 0 < a) (hb : 0 < b) : ∀ i, 0 < (![a, b] : Fin 2 → ℝ) i := by
  intro i; fin_cases i <;> simpa

theorem pos3 {a b c : ℝ} (ha : 0 < a) (hb : 0 < b) (hc : 0 < c) : ∀ i, 0 < (![a, b, c] : Fin 3 → ℝ) i := by
  intro i; fin_cases i <;> simpa

theorem unitBall2 : volume.real (ball (0 : 𝔼 2) 1) = Real.pi := by
  simp [Measure.real, Real.pi_pos.le]

theorem unitBall3 : volume.real (ball (0 : 𝔼 3) 1) = Real.pi * 4 / 3 := by
  simp [Measure.real]; positivity

theorem unitClosedBall2 : volume.real (closedBall (0 : 𝔼 2) 1) = Real.pi := by
  simp [Measure.real, Real.pi_pos.le]

theorem unitClosedBall3 : volume.real (closedBall (0 : 𝔼 3) 1) = Real.pi * 4 / 3 := by
  simp [Measure.real]; positivity

theorem ellSet_sq_moment2 (a : Fin 2 → ℝ) (ha : ∀ i, 0 < a i) (i : Fin 2) :
    ∫ p in ellSet a, p i * p i = a 0 * a 1 * a i ^ 2 * Real.pi / 4 := by
  have h := ellSet_sq_moment 1 a ha i
  have e : volume.real (ball (0 : 𝔼 (1 + 1)) 1) = Real.pi := unitBall2
  rw [e] at h
  rw [h, Fin.prod_univ_two]; norm_num

theorem ellSet_sq_moment3 (a : Fin 3 → ℝ) (ha : ∀ i, 0 < a i) (i : Fin 3) :
    ∫ p in ellSet a, p i * p i = a 0 * a 1 * a 2 * a i ^ 2 * (Real.pi * 4 / 3) / 5 := by
  have h := ellSet_sq_moment 2 a ha i
  have e : volume.real (ball (0 : 𝔼 (2 + 1)) 1) = Real.pi * 4 / 3 := unitBall3
  rw [e] at h
  rw [h, Fin.prod_univ_three]; norm_num

/-! ### centred records -/

/-- **the centred moments of the solid ellipse are the Lebesgue integrals** -/
theorem ellipse_centred_moments (a b : ℝ) (ha : 0 < a) (hb : 0 < b) :
    momOf2 (volume.restrict (ellipseSet a b)) (fun p => p 0) (fun p => p 1) = CSpec.ellipseCentred Real.pi a b := by
  have hp := pos2 ha hb
  simp only [momOf2, CSpec.ellipseCentred, CSpec.Mom2.mk.injEq, ellipseSet_eq, measureReal_restrict_apply_univ,
    ellSet_volume _ hp, ellSet_first_moment _ hp, ellSet_product_moment _ hp 0 1 (by decide),
    ellSet_sq_moment2 _ hp, Fin.prod_univ_two, unitClosedBall2, Scalar.lit, Scalar.ofNat_real]
  simp only [Matrix.cons_val_zero, Matrix.cons_val_one, Nat.cast_ofNat, Nat.cast_zero]
  refine ⟨by ring, trivial, trivial, by ring, by ring, trivial⟩

/-- **the centred moments of the solid ellipsoid are the Lebesgue integrals** -/
theorem ellipsoid_centred_moments (a b c : ℝ) (ha : 0 < a) (hb : 0 < b) (hc : 0 < c) :
    momOf3 (volume.restrict (ellipsoidSet a b c)) (fun p => p 0) (fun p => p 1) (fun p => p 2)
      = CSpec.ellipsoidCentred Real.pi a b c := by
  have hp := pos3 ha hb hc
  simp only [momOf3, CSpec.ellipsoidCentred, CSpec.Mom3.mk.injEq, V3.mk.injEq, ellipsoidSet_eq,
    measureReal_restrict_apply_univ,
    ellSet_volume _ hp, ellSet_first_moment _ hp, ellSet_product_moment _ hp 0 1 (by decide),
    ellSet_product_moment _ hp 0 2 (by decide), ellSet_product_moment _ hp 1 2 (by decide),
    ellSet_sq_moment3 _ hp, Fin.prod_univ_three, unitClosedBall3, Scalar.lit, Scalar.ofNat_real]
  simp only [Matrix.cons_val_zero, Matrix.cons_val_one, Matrix.cons_val_two, Matrix.vecHead, Matrix.vecTail,
    Function.comp, Matrix.cons_val_succ, Nat.cast_ofNat, Nat.cast_zero]
  refine ⟨by ring, ⟨trivial, trivial, trivial⟩, by ring, by ring, by ring, trivial, trivial, trivial⟩

/-! ### translated records -/

theorem ellSetAt_volume {n : ℕ} (a : Fin n → ℝ) (q : 𝔼 n) : volume.real (ellSetAt a q) = volume.real (ellSet a) := by
  rw [ellSetAt_eq, Measure.real, Measure.real, measure_preimage_add_right]

/-- the moments of the region centred at `q`, with coordinates `X`, are the moments of the centred region with
coordinates `X + q` -/
theorem momOf2_translate (a : Fin 2 → ℝ) (q : 𝔼 2) :
    momOf2 (volume.restrict (ellSetAt a q)) (fun p => p 0) (fun p => p 1)
      = momOf2 (volume.restrict (ellSet a)) (fun p => p 0 + q 0) (fun p => p 1 + q 1) := by
  simp only [momOf2, measureReal_restrict_apply_univ, ellSetAt_volume, setIntegral_ellSetAt a q, PiLp.add_apply]

theorem momOf3_translate (a : Fin 3 → ℝ) (q : 𝔼 3) :
    momOf3 (volume.restrict (ellSetAt a q)) (fun p => p 0) (fun p => p 1) (fun p => p 2)
      = momOf3 (volume.restrict (ellSet a)) (fun p => p 0 + q 0) (fun p => p 1 + q 1) (fun p => p 2 + q 2) := by
  simp only [momOf3, measureReal_restrict_apply_univ, ellSetAt_volume, setIntegral_ellSetAt a q, PiLp.add_apply]

theorem isFiniteMeasure_ellSet {n : ℕ} (a : Fin n → ℝ) (ha : ∀ i, 0 < a i) :
    IsFiniteMeasure (volume.restrict (ellSet a)) :=
  ⟨by rw [Measure.restrict_apply_univ]; exact (isBounded_ellSet a ha).measure_lt_top⟩

end C10
