import CoxeterVerif.Lemmas.Balls
/-!
  C13 — the optimality certificate of a minimal enclosing ball.

  * `IsCertificate` : the ball contains the points and its centre is a convex combination of points
    at distance exactly `r`  ⇒  it is THE minimal ball (`miniball_optimal`), which is unique
    (`minimal_bounding_unique`).
  * the computable forms run by the driver over ℚ (`BallSpec.certSide`, `certLower`, `certExact`,
    `maxDistSq`): every ball containing the points has `r² ≥ certLower sup` (`certLower_le`), the
    ball `(c, √maxDistSq pts c)` contains them (`maxDistSq_bounding`), hence the squared radius of
    the minimal ball lies in `[certLower sup, maxDistSq pts c]` (`cert_bracket`) — for ANY weights
    `≥ 0` and ANY centre: nothing about how they were found is trusted.
  * rotation: a certificate for the rotated points rotates back to a certificate for the original
    points (`IsCertificate.rotate_back`).
-/
noncomputable section
namespace Balls
open BallSpec

/-! ### weighted sums -/

/-- `Σ λᵢ‖pᵢ − c'‖² = Σ λᵢ‖pᵢ − c‖² + 2 (Σλᵢpᵢ − (Σλᵢ) c)·(c − c') + (Σλᵢ)‖c − c'‖²` -/
theorem weighted_shift (sup : List (ℝ × V3 ℝ)) (c c' : V3 ℝ) :
    (sup.map fun s => s.1 * V3.normSq (s.2 - c')).sum =
      (sup.map fun s => s.1 * V3.normSq (s.2 - c)).sum
      + 2 * (((sup.map fun s => s.1 * s.2.x).sum - (sup.map fun s => s.1).sum * c.x) * (c.x - c'.x)
           + ((sup.map fun s => s.1 * s.2.y).sum - (sup.map fun s => s.1).sum * c.y) * (c.y - c'.y)
           + ((sup.map fun s => s.1 * s.2.z).sum - (sup.map fun s => s.1).sum * c.z) * (c.z - c'.z))
      + (sup.map fun s => s.1).sum * V3.normSq (c - c') := by
  induction sup with
  | nil => simp
  | cons s sup ih =>
    simp only [List.map_cons, List.sum_cons, ih]
    simp only [V3.normSq_eq, V3.sub_x, V3.sub_y, V3.sub_z]
    ring

theorem weighted_le (sup : List (ℝ × V3 ℝ)) (f : V3 ℝ → ℝ) (M : ℝ)
    (h : ∀ s ∈ sup, 0 ≤ s.1 ∧ f s.2 ≤ M) :
    (sup.map fun s => s.1 * f s.2).sum ≤ (sup.map fun s => s.1).sum * M := by
  induction sup with
  | nil => simp
  | cons s sup ih =>
    simp only [List.map_cons, List.sum_cons]
    have h1 := h s List.mem_cons_self
    have h2 := ih fun t ht => h t (List.mem_cons_of_mem _ ht)
    nlinarith [mul_le_mul_of_nonneg_left h1.2 h1.1]

theorem weighted_const (sup : List (ℝ × V3 ℝ)) (f : V3 ℝ → ℝ) (M : ℝ) (h : ∀ s ∈ sup, f s.2 = M) :
    (sup.map fun s => s.1 * f s.2).sum = (sup.map fun s => s.1).sum * M := by
  induction sup with
  | nil => simp
  | cons s sup ih =>
    simp only [List.map_cons, List.sum_cons]
    rw [ih fun t ht => h t (List.mem_cons_of_mem _ ht), h s List.mem_cons_self]; ring

/-! ### the certificate as a proposition -/

/-- what a support certificate of a ball `(c, r)` for the points `pts` is: the ball contains all
points, and `c` is a convex combination (weights `s.1 ≥ 0`, sum 1) of points `s.2 ∈ pts` lying
exactly on the sphere. -/
structure IsCertificate (pts : List (V3 ℝ)) (c : V3 ℝ) (r : ℝ) (sup : List (ℝ × V3 ℝ)) : Prop where
  bounding : IsBounding c r pts
  mem : ∀ s ∈ sup, s.2 ∈ pts
  onSphere : ∀ s ∈ sup, dist s.2 c = r
  nonneg : ∀ s ∈ sup, 0 ≤ s.1
  sum_one : (sup.map fun s => s.1).sum = 1
  comb : V3.sum (sup.map fun s => V3.smul s.1 s.2) = c

theorem comb_x (sup : List (ℝ × V3 ℝ)) :
    (V3.sum (sup.map fun s => V3.smul s.1 s.2)).x = (sup.map fun s => s.1 * s.2.x).sum := by
  rw [V3.sum_x, List.map_map]; simp [Function.comp_def]
theorem comb_y (sup : List (ℝ × V3 ℝ)) :
    (V3.sum (sup.map fun s => V3.smul s.1 s.2)).y = (sup.map fun s => s.1 * s.2.y).sum := by
  rw [V3.sum_y, List.map_map]; simp [Function.comp_def]
theorem comb_z (sup : List (ℝ × V3 ℝ)) :
    (V3.sum (sup.map fun s => V3.smul s.1 s.2)).z = (sup.map fun s => s.1 * s.2.z).sum := by
  rw [V3.sum_z, List.map_map]; simp [Function.comp_def]

/-- a ball containing points has a non-negative radius -/
theorem radius_nonneg_of_bounding {c : V3 ℝ} {r : ℝ} {pts : List (V3 ℝ)} {p : V3 ℝ} (hp : p ∈ pts)
    (h : IsBounding c r pts) : 0 ≤ r := le_trans (V3.norm_nonneg _) (h p hp)

/-- **lower bound from any weighted support** (weights `≥ 0`, total `Λ > 0`, support points among
the points): every ball `(c', r')` containing the points satisfies
`Σλ‖s − c*‖²/Λ ≤ r'²`, `c* = Σλ s/Λ`. -/
theorem weighted_lower_bound (pts : List (V3 ℝ)) (sup : List (ℝ × V3 ℝ))
    (hnn : ∀ s ∈ sup, 0 ≤ s.1) (hmem : ∀ s ∈ sup, s.2 ∈ pts)
    (hpos : 0 < (sup.map fun s => s.1).sum)
    (c' : V3 ℝ) (r' : ℝ) (hb : IsBounding c' r' pts) :
    certLower sup ≤ r' * r' := by
  set Λ := (sup.map fun s => s.1).sum with hΛ
  have hne : sup ≠ [] := by
    intro h0; rw [hΛ, h0] at hpos; simp at hpos
  obtain ⟨s0, hs0⟩ := List.exists_mem_of_ne_nil sup hne
  have hr' : 0 ≤ r' := radius_nonneg_of_bounding (hmem s0 hs0) hb
  have hw : supWeight sup = Λ := by simp [supWeight, hΛ]
  set cs := supCentre sup with hcs
  have hcx : Λ * cs.x = (sup.map fun s => s.1 * s.2.x).sum := by
    rw [hcs, supCentre, V3.sdiv_x, comb_x, hw]; field_simp
  have hcy : Λ * cs.y = (sup.map fun s => s.1 * s.2.y).sum := by
    rw [hcs, supCentre, V3.sdiv_y, comb_y, hw]; field_simp
  have hcz : Λ * cs.z = (sup.map fun s => s.1 * s.2.z).sum := by
    rw [hcs, supCentre, V3.sdiv_z, comb_z, hw]; field_simp
  have hshift := weighted_shift sup cs c'
  rw [← hcx, ← hcy, ← hcz, ← hΛ] at hshift
  have hle := weighted_le sup (fun p => V3.normSq (p - c')) (r' * r') (by
    intro s hs
    refine ⟨hnn s hs, ?_⟩
    have := hb s.2 (hmem s hs)
    unfold InBall BallSpec.dist at this
    exact (V3.norm_le_iff _ hr').mp this)
  rw [← hΛ] at hle
  have hnnc := V3.normSq_nonneg (cs - c')
  have hnum : (sup.map fun s => s.1 * V3.normSq (s.2 - cs)).sum ≤ Λ * (r' * r') := by
    nlinarith [mul_nonneg (le_of_lt hpos) hnnc]
  unfold certLower
  rw [hw, Scalar.sum_real]
  rw [div_le_iff₀ hpos]
  simpa [distSq, mul_comm] using hnum

/-! ### the computable checkers at ℝ -/

theorem v3Eqb_real {u v : V3 ℝ} (h : v3Eqb u v = true) : u = v := by
  obtain ⟨a, b, c⟩ := u; obtain ⟨d, e, f⟩ := v
  simp only [v3Eqb, Bool.and_eq_true] at h
  obtain ⟨⟨h1, h2⟩, h3⟩ := h
  have e1 : a = d := of_decide_eq_true h1
  have e2 : b = e := of_decide_eq_true h2
  have e3 : c = f := of_decide_eq_true h3
  rw [e1, e2, e3]

/-- what `certSide` establishes -/
theorem certSide_spec {pts : List (V3 ℝ)} {sup : List (ℝ × V3 ℝ)} (h : certSide pts sup = true) :
    (∀ s ∈ sup, 0 ≤ s.1) ∧ (∀ s ∈ sup, s.2 ∈ pts) ∧ 0 < (sup.map fun s => s.1).sum := by
  unfold certSide at h
  simp only [Bool.and_eq_true, List.all_eq_true, List.any_eq_true, decide_eq_true_eq] at h
  obtain ⟨hall, hpos⟩ := h
  refine ⟨fun s hs => ?_, fun s hs => ?_, ?_⟩
  · simpa using (hall s hs).1
  · obtain ⟨p, hp, he⟩ := (hall s hs).2
    rw [v3Eqb_real he]; exact hp
  · simpa [supWeight] using hpos

/-- **soundness of the lower bound** as the driver evaluates it -/
theorem certLower_le {pts : List (V3 ℝ)} {sup : List (ℝ × V3 ℝ)} (h : certSide pts sup = true)
    (c' : V3 ℝ) (r' : ℝ) (hb : IsBounding c' r' pts) : certLower sup ≤ r' * r' := by
  obtain ⟨h1, h2, h3⟩ := certSide_spec h
  exact weighted_lower_bound pts sup h1 h2 h3 c' r' hb

theorem foldl_maxd_ge_init (c : V3 ℝ) (pts : List (V3 ℝ)) (m : ℝ) :
    m ≤ pts.foldl (fun m p => Scalar.max m (distSq p c)) m := by
  induction pts generalizing m with
  | nil => simp
  | cons a l ih =>
    simp only [List.foldl_cons]
    exact le_trans (by rw [Scalar.max_real]; exact le_max_left _ _) (ih _)

theorem foldl_maxd_ge_mem (c : V3 ℝ) (pts : List (V3 ℝ)) (m : ℝ) :
    ∀ p ∈ pts, distSq p c ≤ pts.foldl (fun m p => Scalar.max m (distSq p c)) m := by
  induction pts generalizing m with
  | nil => intro p hp; cases hp
  | cons a l ih =>
    intro p hp
    simp only [List.foldl_cons]
    rcases List.mem_cons.mp hp with rfl | hp
    · exact le_trans (by rw [Scalar.max_real]; exact le_max_right _ _) (foldl_maxd_ge_init c l _)
    · exact ih _ p hp

theorem distSq_le_maxDistSq (pts : List (V3 ℝ)) (c : V3 ℝ) : ∀ p ∈ pts, distSq p c ≤ maxDistSq pts c :=
  foldl_maxd_ge_mem c pts _

theorem inBall_of_distSq_le {p c : V3 ℝ} {r2 : ℝ} (h : distSq p c ≤ r2) : InBall c (Real.sqrt r2) p := by
  unfold InBall BallSpec.dist
  rw [V3.norm_eq]
  exact Real.sqrt_le_sqrt h

/-- the ball about ANY centre with squared radius `maxDistSq` contains the points -/
theorem maxDistSq_bounding (pts : List (V3 ℝ)) (c : V3 ℝ) :
    IsBounding c (Real.sqrt (maxDistSq pts c)) pts :=
  fun p hp => inBall_of_distSq_le (distSq_le_maxDistSq pts c p hp)

/-- **bracket**: with a weighted support passing `certSide`, the squared radius of a minimal
bounding ball lies between the exactly computable numbers `certLower sup` and `maxDistSq pts c`
(`c` arbitrary — in the check: the centre returned by the implementation). -/
theorem cert_bracket {pts : List (V3 ℝ)} {sup : List (ℝ × V3 ℝ)} (h : certSide pts sup = true)
    (c : V3 ℝ) {c0 : V3 ℝ} {r0 : ℝ} (hmin : IsMinimalBounding c0 r0 pts) :
    certLower sup ≤ r0 * r0 ∧ r0 * r0 ≤ maxDistSq pts c := by
  refine ⟨certLower_le h c0 r0 hmin.1, ?_⟩
  have hle := hmin.2 c _ (maxDistSq_bounding pts c)
  obtain ⟨_, hmem, hpos⟩ := certSide_spec h
  have hne : sup ≠ [] := by intro h0; rw [h0] at hpos; simp at hpos
  obtain ⟨s0, hs0⟩ := List.exists_mem_of_ne_nil sup hne
  have hr0 : 0 ≤ r0 := radius_nonneg_of_bounding (hmem s0 hs0) hmin.1
  have hU : 0 ≤ maxDistSq pts c := by
    have h0 := foldl_maxd_ge_init c pts (Scalar.lit 0)
    calc (0 : ℝ) = Scalar.lit 0 := by simp
      _ ≤ _ := h0
  calc r0 * r0 ≤ Real.sqrt (maxDistSq pts c) * Real.sqrt (maxDistSq pts c) :=
        mul_le_mul hle hle hr0 (Real.sqrt_nonneg _)
    _ = maxDistSq pts c := Real.mul_self_sqrt hU

/-- **soundness of the exact certificate check**: contains the points and the lower bound reaches
`r²`  ⇒  `(c, √r²)` is the minimal bounding ball. -/
theorem certExact_sound {pts : List (V3 ℝ)} {c : V3 ℝ} {r2 : ℝ} {sup : List (ℝ × V3 ℝ)}
    (h : certExact pts c r2 sup = true) : IsMinimalBounding c (Real.sqrt r2) pts := by
  unfold certExact at h
  simp only [Bool.and_eq_true, List.all_eq_true, decide_eq_true_eq] at h
  obtain ⟨⟨hside, hin⟩, hlow⟩ := h
  refine ⟨fun p hp => inBall_of_distSq_le (hin p hp), fun c' r' hb => ?_⟩
  have h1 := certLower_le hside c' r' hb
  obtain ⟨_, hmem, hpos⟩ := certSide_spec hside
  have hne : sup ≠ [] := by intro h0; rw [h0] at hpos; simp at hpos
  obtain ⟨s0, hs0⟩ := List.exists_mem_of_ne_nil sup hne
  have hr' : 0 ≤ r' := radius_nonneg_of_bounding (hmem s0 hs0) hb
  calc Real.sqrt r2 ≤ Real.sqrt (r' * r') := Real.sqrt_le_sqrt (le_trans hlow h1)
    _ = r' := Real.sqrt_mul_self hr'

/-! ### the propositional certificate: optimal, and the optimum is unique -/

/-- **minimality certificate.** A ball that contains all the points and whose centre is a convex
combination of points at distance exactly `r` is a minimal enclosing ball: every ball containing
the points has radius `≥ r` (`Σλᵢ‖pᵢ−c'‖² = r² + ‖c−c'‖² ≥ r²`). -/
theorem certificate_optimal (pts : List (V3 ℝ)) (c : V3 ℝ) (r : ℝ) (sup : List (ℝ × V3 ℝ))
    (h : IsCertificate pts c r sup) : IsMinimalBounding c r pts := by
  refine ⟨h.bounding, ?_⟩
  intro c' r' hb
  have hne : sup ≠ [] := by
    intro h0; have := h.sum_one; rw [h0] at this; simp at this
  obtain ⟨s0, hs0⟩ := List.exists_mem_of_ne_nil sup hne
  have hr : 0 ≤ r := by rw [← h.onSphere s0 hs0]; exact V3.norm_nonneg _
  have hr' : 0 ≤ r' := radius_nonneg_of_bounding (h.mem s0 hs0) hb
  have hx : (sup.map fun s => s.1 * s.2.x).sum = c.x := by rw [← comb_x, h.comb]
  have hy : (sup.map fun s => s.1 * s.2.y).sum = c.y := by rw [← comb_y, h.comb]
  have hz : (sup.map fun s => s.1 * s.2.z).sum = c.z := by rw [← comb_z, h.comb]
  have hshift := weighted_shift sup c c'
  rw [hx, hy, hz, h.sum_one] at hshift
  have hconst := weighted_const sup (fun p => V3.normSq (p - c)) (r * r) (by
    intro s hs
    have := h.onSphere s hs
    unfold BallSpec.dist at this
    rw [← V3.norm_mul_self, this])
  rw [h.sum_one] at hconst
  have hle := weighted_le sup (fun p => V3.normSq (p - c')) (r' * r') (by
    intro s hs
    refine ⟨h.nonneg s hs, ?_⟩
    have := hb s.2 (h.mem s hs)
    unfold InBall BallSpec.dist at this
    exact (V3.norm_le_iff _ hr').mp this)
  rw [h.sum_one] at hle
  have hnn := V3.normSq_nonneg (c - c')
  have hsq : r * r ≤ r' * r' := by nlinarith
  by_contra hlt
  push Not at hlt
  nlinarith

/-- midpoint identity: `‖p − (a+b)/2‖² = (‖p−a‖² + ‖p−b‖²)/2 − ‖a−b‖²/4` -/
theorem midpoint_normSq (p a b : V3 ℝ) :
    V3.normSq (p - V3.smul (1/2) (a + b)) =
      (V3.normSq (p - a) + V3.normSq (p - b)) / 2 - V3.normSq (a - b) / 4 := by
  simp only [V3.normSq_eq, V3.sub_x, V3.sub_y, V3.sub_z, V3.smul_x, V3.smul_y, V3.smul_z, V3.add_x,
    V3.add_y, V3.add_z]
  ring

theorem eq_of_normSq_sub_eq_zero {a b : V3 ℝ} (h : V3.normSq (a - b) = 0) : a = b := by
  rw [V3.normSq_eq] at h
  simp only [V3.sub_x, V3.sub_y, V3.sub_z] at h
  have hx : a.x - b.x = 0 := by
    nlinarith [mul_self_nonneg (a.x - b.x), mul_self_nonneg (a.y - b.y), mul_self_nonneg (a.z - b.z)]
  have hy : a.y - b.y = 0 := by
    nlinarith [mul_self_nonneg (a.x - b.x), mul_self_nonneg (a.y - b.y), mul_self_nonneg (a.z - b.z)]
  have hz : a.z - b.z = 0 := by
    nlinarith [mul_self_nonneg (a.x - b.x), mul_self_nonneg (a.y - b.y), mul_self_nonneg (a.z - b.z)]
  ext <;> linarith

/-- **the minimal bounding ball is unique** (two minimal balls have the same radius; if their
centres differed, the ball about the midpoint with `r² − ‖c₁−c₂‖²/4` would be smaller). -/
theorem minimal_bounding_unique {pts : List (V3 ℝ)} (hne : pts ≠ []) {c1 c2 : V3 ℝ} {r1 r2 : ℝ}
    (h1 : IsMinimalBounding c1 r1 pts) (h2 : IsMinimalBounding c2 r2 pts) : r1 = r2 ∧ c1 = c2 := by
  have hr : r1 = r2 := le_antisymm (h1.2 c2 r2 h2.1) (h2.2 c1 r1 h1.1)
  refine ⟨hr, ?_⟩
  subst hr
  obtain ⟨p0, hp0⟩ := List.exists_mem_of_ne_nil pts hne
  have hr1 : 0 ≤ r1 := radius_nonneg_of_bounding hp0 h1.1
  set δ := V3.normSq (c1 - c2) / 4 with hδ
  have hδnn : 0 ≤ δ := by have := V3.normSq_nonneg (c1 - c2); rw [hδ]; linarith
  set m := V3.smul (1/2) (c1 + c2) with hm
  -- every point is within sqrt (r² − δ) of the midpoint
  have hin : ∀ p ∈ pts, V3.normSq (p - m) ≤ r1 * r1 - δ := by
    intro p hp
    have a1 := (V3.norm_le_iff _ hr1).mp (h1.1 p hp)
    have a2 := (V3.norm_le_iff _ hr1).mp (h2.1 p hp)
    rw [hm, midpoint_normSq, hδ]; linarith
  have hrad : 0 ≤ r1 * r1 - δ := le_trans (V3.normSq_nonneg _) (hin p0 hp0)
  have hb : IsBounding m (Real.sqrt (r1 * r1 - δ)) pts := fun p hp => inBall_of_distSq_le (hin p hp)
  have hle := h1.2 m _ hb
  have hsq : r1 * r1 ≤ r1 * r1 - δ := by
    calc r1 * r1 ≤ Real.sqrt (r1 * r1 - δ) * Real.sqrt (r1 * r1 - δ) :=
          mul_le_mul hle hle hr1 (Real.sqrt_nonneg _)
      _ = r1 * r1 - δ := Real.mul_self_sqrt hrad
  have hδ0 : V3.normSq (c1 - c2) = 0 := by rw [hδ] at hsq hδnn; linarith
  exact eq_of_normSq_sub_eq_zero hδ0

/-- consequently a certified ball is THE minimal ball: any minimal ball equals it -/
theorem certificate_unique {pts : List (V3 ℝ)} {c : V3 ℝ} {r : ℝ} {sup : List (ℝ × V3 ℝ)}
    (h : IsCertificate pts c r sup) {c' : V3 ℝ} {r' : ℝ} (h' : IsMinimalBounding c' r' pts) :
    r' = r ∧ c' = c := by
  have hne : sup ≠ [] := by
    intro h0; have := h.sum_one; rw [h0] at this; simp at this
  obtain ⟨s0, hs0⟩ := List.exists_mem_of_ne_nil sup hne
  have hp : pts ≠ [] := List.ne_nil_of_mem (h.mem s0 hs0)
  exact minimal_bounding_unique hp h' (certificate_optimal pts c r sup h)

/-! ### rotation invariance of the certificate -/

theorem rotate_add (p : Quat ℝ) (a b : V3 ℝ) :
    Quat.rotate p (a + b) = Quat.rotate p a + Quat.rotate p b := by
  obtain ⟨w, ⟨x, y, z⟩⟩ := p
  ext <;> unfold_vec <;> ring

theorem rotate_smul (p : Quat ℝ) (k : ℝ) (a : V3 ℝ) :
    Quat.rotate p (V3.smul k a) = V3.smul k (Quat.rotate p a) := by
  obtain ⟨w, ⟨x, y, z⟩⟩ := p
  ext <;> unfold_vec <;> ring

theorem rotate_zero (p : Quat ℝ) : Quat.rotate p (V3.zero : V3 ℝ) = V3.zero := by
  obtain ⟨w, ⟨x, y, z⟩⟩ := p
  ext <;> simp only [V3.zero] <;> unfold_vec <;> ring

theorem rotate_sum (p : Quat ℝ) (l : List (V3 ℝ)) :
    Quat.rotate p (V3.sum l) = V3.sum (l.map (Quat.rotate p)) := by
  induction l with
  | nil => exact rotate_zero p
  | cons a l ih =>
    show Quat.rotate p (a + V3.sum l) = Quat.rotate p a + V3.sum (l.map (Quat.rotate p))
    rw [rotate_add, ih]

theorem norm_rotate_sub_conj {q : Quat ℝ} (hq : Quat.normSq q = 1) (a c : V3 ℝ) :
    V3.norm (Quat.rotate (Quat.conj q) a - Quat.rotate (Quat.conj q) c) = V3.norm (a - c) :=
  norm_rotate_sub (by rw [normSq_conj, hq]) a c

/-- **rotation invariance.** A certificate of the ball `(c, r)` for the ROTATED points turns, by
rotating centre and support points back with the conjugate unit quaternion, into a certificate of
`(rotate(conj q, c), r)` for the ORIGINAL points — same weights, same radius. -/
theorem IsCertificate.rotate_back {q : Quat ℝ} (hq : Quat.normSq q = 1) {V : List (V3 ℝ)} {c : V3 ℝ}
    {r : ℝ} {sup : List (ℝ × V3 ℝ)} (h : IsCertificate (V.map (Quat.rotate q)) c r sup) :
    IsCertificate V (Quat.rotate (Quat.conj q) c) r
      (sup.map fun s => (s.1, Quat.rotate (Quat.conj q) s.2)) := by
  refine ⟨?_, ?_, ?_, ?_, ?_, ?_⟩
  · intro v hv
    have := h.bounding (Quat.rotate q v) (List.mem_map.mpr ⟨v, hv, rfl⟩)
    unfold InBall BallSpec.dist at this ⊢
    rw [← norm_rotate_sub hq, rotate_rotate_conj_unit hq]
    exact this
  · intro s hs
    obtain ⟨t, ht, rfl⟩ := List.mem_map.mp hs
    obtain ⟨v, hv, hvt⟩ := List.mem_map.mp (h.mem t ht)
    simp only
    rw [← hvt, rotate_conj_rotate_unit hq]; exact hv
  · intro s hs
    obtain ⟨t, ht, rfl⟩ := List.mem_map.mp hs
    unfold BallSpec.dist
    simp only
    rw [norm_rotate_sub_conj hq]
    exact h.onSphere t ht
  · intro s hs
    obtain ⟨t, ht, rfl⟩ := List.mem_map.mp hs
    exact h.nonneg t ht
  · rw [List.map_map]; simpa [Function.comp_def] using h.sum_one
  · rw [← h.comb, rotate_sum, List.map_map, List.map_map]
    congr 1
    apply List.map_congr_left
    intro s _
    simp only [Function.comp_def]
    rw [rotate_smul]

end Balls
end
