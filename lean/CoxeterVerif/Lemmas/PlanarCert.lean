import CoxeterVerif.Lemmas.ChainCheck
import CoxeterVerif.Lemmas.PlanarFrame
/-!
  C04: soundness of the per-run certificates of `Spec/Planar.lean`.

  The harness's oracle triangulates the generated polygon (exact ear clipping in the polygon's own plane
  coordinates, dyadic rationals).  That this list of triangles IS a triangulation used to be trusted.  Now the
  driver evaluates, exactly over `ℚ`, on the very triangle list whose closed forms it sums:
    * `Spec2.triangulationCheck w Ts` ⇒ `EdgeChainEq (cycleEdges w) (Ts.flatMap triEdges)`  (= `Triangulates w Ts`),
    * `Spec2.orientCheck Ts`          ⇒ `Ts ≠ []` and every triangle counter-clockwise     (= `OrientedBy 1 Ts`),
  and the numbers it prints are the real-valued closed forms (`*_ofRat`), which are iterated integrals
  (`Lemmas/PlanarIntegral.lean`).
-/
open Scalar ChainCheck CCk
set_option maxRecDepth 4000
noncomputable section
namespace PlanarCert

/-! ### generic: edge-chain difference -/

theorem sumEdges_map_swap {φ : Edge → ℝ} (hφ : OddEdge φ) (F : List Edge) :
    sumEdges φ (F.map (fun e => (e.2, e.1))) = -sumEdges φ F := by
  induction F with
  | nil => simp [sumEdges]
  | cons e F ih =>
    simp only [sumEdges, List.map_cons, List.sum_cons] at ih ⊢
    rw [ih, hφ e.1 e.2]; ring

/-- `E − F = 0` as 1-chains gives `E = F` as 1-chains -/
theorem edgeChainEq_of_sub_nil {E F : List Edge}
    (h : EdgeChainEq (E ++ F.map (fun e => (e.2, e.1))) []) : EdgeChainEq E F := by
  intro φ hφ
  have := h φ hφ
  simp only [sumEdges, List.map_append, List.sum_append, List.map_nil, List.sum_nil] at this
  have h2 := sumEdges_map_swap hφ F
  simp only [sumEdges] at h2 ⊢
  linarith

theorem cycleEdges_transport {α : Type} [Scalar α] (f : V3 α → V3 ℝ) (w : List (V3 α)) :
    (Spec2.cycleEdges w).map (edgeTo f) = cycleEdges (w.map f) := by
  unfold Spec2.cycleEdges cycleEdges Poly2.rotl
  rw [List.length_map, ← List.map_drop, ← List.map_take, ← List.map_append, List.zip_map]
  rfl

section generic
variable {α : Type} [Scalar α] (heq : ∀ a b : α, Scalar.eqb a b = true → a = b)
include heq

/-- **soundness of the triangulation certificate** (generic scalar, transported to `ℝ`) -/
theorem triangulationCheck_sound_gen (f : V3 α → V3 ℝ) {w : List (V3 α)} {Ts : List (Tri α)}
    (h : Spec2.triangulationCheck w Ts = true) :
    EdgeChainEq (cycleEdges (w.map f)) ((Ts.map (triTo f)).flatMap triEdges) := by
  have := cancelEdges_sound heq f _ _ h
  apply edgeChainEq_of_sub_nil
  rw [← cycleEdges_transport, ← flatMap_edgesOf_triTo]
  simpa [List.map_append, List.map_map, Function.comp_def, edgeTo] using this

end generic

/-! ### the driver's instance: `ℚ`, cast to `ℝ` -/

theorem triangulationCheck_sound {w : List (V3 ℚ)} {Ts : List (Tri ℚ)}
    (h : Spec2.triangulationCheck w Ts = true) :
    EdgeChainEq (cycleEdges (w.map v3OfRat)) ((Ts.map triOfRat).flatMap triEdges) :=
  triangulationCheck_sound_gen eqb_rat_sound v3OfRat h

theorem get_ofRat (v : V3 ℚ) (i : Nat) : (v3OfRat v).get i = ((v.get i : ℚ) : ℝ) := by
  unfold V3.get v3OfRat; split_ifs <;> rfl

theorem triArea_ofRat (t : Tri ℚ) : Spec2.triArea (triOfRat t) = ((Spec2.triArea t : ℚ) : ℝ) := by
  obtain ⟨⟨ax,ay,az⟩,⟨bx,b_y,bz⟩,⟨cx,cy,cz⟩⟩ := t
  simp only [Spec2.triArea, triOfRat, triTo, v3OfRat, Scalar.lit]
  show _ / ((2 : ℕ) : ℝ) = ((_ / ((2 : ℕ) : ℚ) : ℚ) : ℝ)
  push_cast; ring

theorem triFirst_ofRat (t : Tri ℚ) (i : Nat) :
    Spec2.triFirst (triOfRat t) i = ((Spec2.triFirst t i : ℚ) : ℝ) := by
  unfold Spec2.triFirst
  rw [triArea_ofRat]
  simp only [triOfRat, triTo, get_ofRat, Scalar.lit]
  show _ / ((3 : ℕ) : ℝ) = ((_ / ((3 : ℕ) : ℚ) : ℚ) : ℝ)
  push_cast; ring

theorem triSecond_ofRat (t : Tri ℚ) (i j : Nat) :
    Spec2.triSecond (triOfRat t) i j = ((Spec2.triSecond t i j : ℚ) : ℝ) := by
  unfold Spec2.triSecond
  rw [triArea_ofRat]
  simp only [triOfRat, triTo, get_ofRat, Scalar.lit]
  show _ / ((12 : ℕ) : ℝ) * _ = ((_ / ((12 : ℕ) : ℚ) * _ : ℚ) : ℝ)
  push_cast; ring

/-- what the driver prints for `spec.planar` in `Q` mode is the real closed form -/
theorem area_ofRat (Ts : List (Tri ℚ)) : Spec2.area (Ts.map triOfRat) = ((Spec2.area Ts : ℚ) : ℝ) := by
  unfold Spec2.area
  rw [Scalar.sum_real, scalar_sum_rat, List.map_map, List.map_map]
  congr 1
  exact List.map_congr_left (fun t _ => triArea_ofRat t)

theorem first_ofRat (Ts : List (Tri ℚ)) (i : Nat) :
    Spec2.first (Ts.map triOfRat) i = ((Spec2.first Ts i : ℚ) : ℝ) := by
  unfold Spec2.first
  rw [Scalar.sum_real, scalar_sum_rat, List.map_map, List.map_map]
  congr 1
  exact List.map_congr_left (fun t _ => triFirst_ofRat t i)

theorem second_ofRat (Ts : List (Tri ℚ)) (i j : Nat) :
    Spec2.second (Ts.map triOfRat) i j = ((Spec2.second Ts i j : ℚ) : ℝ) := by
  unfold Spec2.second
  rw [Scalar.sum_real, scalar_sum_rat, List.map_map, List.map_map]
  congr 1
  exact List.map_congr_left (fun t _ => triSecond_ofRat t i j)

/-- **soundness of the orientation certificate** -/
theorem orientCheck_sound {Ts : List (Tri ℚ)} (h : Spec2.orientCheck Ts = true) :
    Ts.map triOfRat ≠ [] ∧ ∀ t ∈ Ts.map triOfRat, 0 < 1 * Spec2.triArea t := by
  simp only [Spec2.orientCheck, Bool.and_eq_true, Bool.not_eq_eq_eq_not, Bool.not_true,
    List.isEmpty_eq_false_iff, List.all_eq_true, decide_eq_true_eq] at h
  obtain ⟨hne, hall⟩ := h
  refine ⟨by simpa using hne, ?_⟩
  intro t ht
  obtain ⟨s, hs, rfl⟩ := List.mem_map.mp ht
  have := hall s hs
  rw [triArea_ofRat, one_mul]
  have h0 : ((Scalar.lit 0 : ℚ)) = 0 := by simp [Scalar.lit]; rfl
  rw [h0] at this
  exact_mod_cast this

/-- **soundness of the flatness certificate**: cycle and triangles lie in the plane `z = 0` -/
theorem flatCheck_sound {w : List (V3 ℚ)} {Ts : List (Tri ℚ)} (h : Spec2.flatCheck w Ts = true) :
    (∀ v ∈ w.map v3OfRat, v.z = 0) ∧ ∀ t ∈ Ts.map triOfRat, t.a.z = 0 ∧ t.b.z = 0 ∧ t.c.z = 0 := by
  have h0 : ((Scalar.lit 0 : ℚ)) = 0 := by simp [Scalar.lit]; rfl
  simp only [Spec2.flatCheck, Bool.and_eq_true, List.all_eq_true, h0] at h
  obtain ⟨hw, hT⟩ := h
  constructor
  · intro v hv
    obtain ⟨u, hu, rfl⟩ := List.mem_map.mp hv
    have := eqb_rat_sound _ _ (hw u hu)
    simp only [v3OfRat, this]; norm_num
  · intro t ht
    obtain ⟨s, hs, rfl⟩ := List.mem_map.mp ht
    obtain ⟨⟨ha, hb⟩, hc⟩ := hT s hs
    have ha' := eqb_rat_sound _ _ ha
    have hb' := eqb_rat_sound _ _ hb
    have hc' := eqb_rat_sound _ _ hc
    simp only [triOfRat, triTo, v3OfRat, ha', hb', hc']; norm_num

end PlanarCert
end
