import CoxeterVerif.Lemmas.FormFactorFan
import CoxeterVerif.Lemmas.FormFactorSwap
/-!
  The Fourier transform of a TETRAHEDRON as a triple iterated interval integral, and the divergence step
  (solid ← faces) for it, proved from the fundamental theorem of calculus and Fubini on triangles
  (`Lemmas/FormFactorSwap.lean`); no divergence/Stokes theorem is assumed.

  `r(s,t,u) = A + s (B−A) + t (C−A) + u (D−A)`, `0 ≤ s,t,u`, `s+t+u ≤ 1`, Jacobian `|det(B−A,C−A,D−A)| = 6 V`:

      ∫∫∫_T e^{-i q·r} dV = 6V · Ktet p_A (p_B−p_A) (p_C−p_A) (p_D−p_A),
      Ktet a β γ δ := ∫ s in 0..1, ∫ t in 0..(1−s), ∫ u in 0..(1−s−t), e^{-i(a + sβ + tγ + uδ)}.

  Relations:  `(p_X − p_A) · Ktet = i (J_{BCD} − J_{face opposite X})`  for `X = B, C, D`, where `J` is the triangle
  integral `Jtri` over the face; with `Σ_faces N_f = 0` and `Σ_X (X−A) ⊗ N_{opp X} = −6V·Id` they give
      (i/|q|²) Σ_faces (q·N_f) J_f = 6V · Ktet        (`N_f` = outward double-area vector).
-/
open Scalar MeasureTheory
set_option maxRecDepth 4000
namespace FF
noncomputable section

theorem continuous_cexp : Continuous cexp := by
  unfold cexp
  exact Complex.continuous_exp.comp (continuous_const.mul Complex.continuous_ofReal)

/-- the tetrahedron integral -/
def Ktet (a β γ δ : ℝ) : ℂ :=
  ∫ s in (0:ℝ)..1, ∫ t in (0:ℝ)..(1 - s), ∫ u in (0:ℝ)..(1 - s - t), cexp (a + s * β + t * γ + u * δ)

/-! ### continuity of the partial integrals -/

theorem cont_inner2 (h : ℝ × ℝ → ℝ) (hh : Continuous h) :
    Continuous fun s : ℝ => ∫ t in (0:ℝ)..(1 - s), cexp (h (s, t)) := by
  have hf : Continuous (Function.uncurry fun (s t : ℝ) => cexp (h (s, t))) := by
    show Continuous fun p : ℝ × ℝ => cexp (h (p.1, p.2))
    exact continuous_cexp.comp hh
  exact intervalIntegral.continuous_parametric_intervalIntegral_of_continuous hf
    (continuous_const.sub continuous_id)

theorem cont_inner3 (h : (ℝ × ℝ) × ℝ → ℝ) (hh : Continuous h) :
    Continuous fun p : ℝ × ℝ => ∫ u in (0:ℝ)..(1 - p.1 - p.2), cexp (h (p, u)) := by
  have hf : Continuous (Function.uncurry fun (p : ℝ × ℝ) (u : ℝ) => cexp (h (p, u))) := by
    show Continuous fun z : (ℝ × ℝ) × ℝ => cexp (h (z.1, z.2))
    exact continuous_cexp.comp hh
  exact intervalIntegral.continuous_parametric_intervalIntegral_of_continuous hf
    ((continuous_const.sub continuous_fst).sub continuous_snd)

theorem cont_mid3 (h : (ℝ × ℝ) × ℝ → ℝ) (hh : Continuous h) :
    Continuous fun s : ℝ => ∫ t in (0:ℝ)..(1 - s), ∫ u in (0:ℝ)..(1 - s - t), cexp (h ((s, t), u)) := by
  have hf : Continuous (Function.uncurry fun (s t : ℝ) => ∫ u in (0:ℝ)..(1 - s - t), cexp (h ((s, t), u))) := by
    show Continuous fun p : ℝ × ℝ => ∫ u in (0:ℝ)..(1 - p.1 - p.2), cexp (h ((p.1, p.2), u))
    exact cont_inner3 h hh
  exact intervalIntegral.continuous_parametric_intervalIntegral_of_continuous hf
    (continuous_const.sub continuous_id)

/-! ### symmetries of the triangle and tetrahedron integrals -/

/-- exchanging the two edge directions (Fubini on the triangle) -/
theorem Jtri_swap (a β γ : ℝ) : Jtri a β γ = Jtri a γ β := by
  unfold Jtri
  have hf : Continuous (Function.uncurry fun (s t : ℝ) => cexp (a + s * β + t * γ)) := by
    show Continuous fun p : ℝ × ℝ => cexp (a + p.1 * β + p.2 * γ)
    exact continuous_cexp.comp (by fun_prop)
  have := triangle_swap (fun s t => cexp (a + s * β + t * γ)) hf 1 zero_le_one
  rw [this]
  congr 1; funext t; congr 1; funext s; congr 1; ring

/-- changing the base vertex `A ↔ C` (substitution `t ↦ (1−s) − t` in the inner integral) -/
theorem Jtri_rebase (a β γ : ℝ) : Jtri a β γ = Jtri (a + γ) (β - γ) (-γ) := by
  unfold Jtri
  congr 1; funext s
  have h := intervalIntegral.integral_comp_sub_left (fun t : ℝ => cexp (a + s * β + t * γ)) (1 - s)
    (a := 0) (b := 1 - s)
  simp only [sub_self, sub_zero] at h
  rw [← h]
  congr 1; funext t; congr 1; ring

/-- the face `X Y Z` seen from `Y` -/
theorem Jtri_perm1 (pX pY pZ : ℝ) :
    Jtri pX (pY - pX) (pZ - pX) = Jtri pY (pZ - pY) (pX - pY) := by
  rw [Jtri_swap pX (pY - pX) (pZ - pX), Jtri_rebase pX (pZ - pX) (pY - pX)]
  congr 1 <;> ring

theorem Ktet_swap_inner (a β γ δ : ℝ) : Ktet a β γ δ = Ktet a β δ γ := by
  unfold Ktet
  apply intervalIntegral.integral_congr
  intro s hs
  rw [Set.uIcc_of_le zero_le_one] at hs
  have hL : 0 ≤ 1 - s := by linarith [hs.2]
  have hf : Continuous (Function.uncurry fun (t u : ℝ) => cexp (a + s * β + t * γ + u * δ)) := by
    show Continuous fun p : ℝ × ℝ => cexp (a + s * β + p.1 * γ + p.2 * δ)
    exact continuous_cexp.comp (by fun_prop)
  have := triangle_swap (fun t u => cexp (a + s * β + t * γ + u * δ)) hf (1 - s) hL
  simp only at this ⊢
  rw [this]
  congr 1; funext u; congr 1; funext t; congr 1; ring

theorem Ktet_swap_outer (a β γ δ : ℝ) : Ktet a β γ δ = Ktet a γ β δ := by
  unfold Ktet
  have hf : Continuous (Function.uncurry fun (s t : ℝ) =>
      ∫ u in (0:ℝ)..(1 - s - t), cexp (a + s * β + t * γ + u * δ)) := by
    show Continuous fun p : ℝ × ℝ => ∫ u in (0:ℝ)..(1 - p.1 - p.2), cexp (a + p.1 * β + p.2 * γ + u * δ)
    exact cont_inner3 (fun z => a + z.1.1 * β + z.1.2 * γ + z.2 * δ) (by fun_prop)
  have := triangle_swap (fun s t => ∫ u in (0:ℝ)..(1 - s - t), cexp (a + s * β + t * γ + u * δ)) hf 1 zero_le_one
  rw [this]
  congr 1; funext t; congr 1; funext s
  rw [show 1 - s - t = 1 - t - s by ring]
  congr 1; funext u; congr 1; ring

/-! ### the three relations -/

/-- innermost variable: `δ · Ktet a β γ δ = i (Jtri (a+δ) (β−δ) (γ−δ) − Jtri a β γ)` -/
theorem Ktet_rel_delta (a β γ δ : ℝ) :
    (δ : ℂ) * Ktet a β γ δ = Complex.I * (Jtri (a + δ) (β - δ) (γ - δ) - Jtri a β γ) := by
  have step : ∀ s t : ℝ, (δ : ℂ) * ∫ u in (0:ℝ)..(1 - s - t), cexp (a + s * β + t * γ + u * δ) =
      Complex.I * (cexp (a + δ + s * (β - δ) + t * (γ - δ)) - cexp (a + s * β + t * γ)) := by
    intro s t
    rw [seg_rel]
    congr 3
    ring
  have e : (δ : ℂ) * Ktet a β γ δ = ∫ s in (0:ℝ)..1, ∫ t in (0:ℝ)..(1 - s),
      Complex.I * (cexp (a + δ + s * (β - δ) + t * (γ - δ)) - cexp (a + s * β + t * γ)) := by
    unfold Ktet
    rw [← intervalIntegral.integral_const_mul]
    congr 1; funext s
    rw [← intervalIntegral.integral_const_mul]
    congr 1; funext t
    exact step s t
  rw [e]
  unfold Jtri
  simp_rw [intervalIntegral.integral_const_mul]
  have i1 : ∀ s : ℝ, IntervalIntegrable (fun t : ℝ => cexp (a + δ + s * (β - δ) + t * (γ - δ))) volume 0 (1 - s) :=
    fun s => intervalIntegrable_cexp (by fun_prop) _ _
  have i2 : ∀ s : ℝ, IntervalIntegrable (fun t : ℝ => cexp (a + s * β + t * γ)) volume 0 (1 - s) :=
    fun s => intervalIntegrable_cexp (by fun_prop) _ _
  simp_rw [fun s => intervalIntegral.integral_sub (i1 s) (i2 s)]
  rw [intervalIntegral.integral_sub]
  · exact (cont_inner2 (fun p => a + δ + p.1 * (β - δ) + p.2 * (γ - δ)) (by fun_prop)).intervalIntegrable _ _
  · exact (cont_inner2 (fun p => a + p.1 * β + p.2 * γ) (by fun_prop)).intervalIntegrable _ _

theorem Ktet_rel_gamma (a β γ δ : ℝ) :
    (γ : ℂ) * Ktet a β γ δ = Complex.I * (Jtri (a + γ) (β - γ) (δ - γ) - Jtri a β δ) := by
  rw [Ktet_swap_inner, Ktet_rel_delta]

theorem Ktet_rel_beta (a β γ δ : ℝ) :
    (β : ℂ) * Ktet a β γ δ = Complex.I * (Jtri (a + β) (γ - β) (δ - β) - Jtri a γ δ) := by
  rw [Ktet_swap_outer, Ktet_swap_inner, Ktet_rel_delta]

/-- **tetrahedron = face form**, in terms of the phases at the vertices, the face coefficients
`n_X = q·N_{face opposite X}` (outward double-area vectors), `Q = |q|²` and `V6 = det(B−A, C−A, D−A)`.
The faces are listed as `Tet.bdry` lists them: `A C B` (opposite `D`), `A B D` (opposite `C`),
`B C D` (opposite `A`), `A D C` (opposite `B`). -/
theorem tet_boundary_eq (pA pB pC pD nA nB nC nD Q V6 : ℝ) (hQ : Q ≠ 0)
    (h0 : nA + nB + nC + nD = 0)
    (h1 : (pB - pA) * nB + (pC - pA) * nC + (pD - pA) * nD = -(V6 * Q)) :
    (Complex.I / (Q : ℂ)) *
        ((nD : ℂ) * Jtri pA (pC - pA) (pB - pA) + (nC : ℂ) * Jtri pA (pB - pA) (pD - pA) +
          (nA : ℂ) * Jtri pB (pC - pB) (pD - pB) + (nB : ℂ) * Jtri pA (pD - pA) (pC - pA)) =
      (V6 : ℂ) * Ktet pA (pB - pA) (pC - pA) (pD - pA) := by
  have hQC : (Q : ℂ) ≠ 0 := by exact_mod_cast hQ
  have h0C : (nA : ℂ) + nB + nC + nD = 0 := by exact_mod_cast h0
  have h1C : ((pB : ℂ) - pA) * nB + ((pC : ℂ) - pA) * nC + ((pD : ℂ) - pA) * nD = -((V6 : ℂ) * Q) := by
    exact_mod_cast h1
  -- the face BCD as it appears in the three relations
  have eB : Jtri (pA + (pB - pA)) ((pC - pA) - (pB - pA)) ((pD - pA) - (pB - pA)) =
      Jtri pB (pC - pB) (pD - pB) := by congr 1 <;> ring
  have eC : Jtri (pA + (pC - pA)) ((pB - pA) - (pC - pA)) ((pD - pA) - (pC - pA)) =
      Jtri pB (pC - pB) (pD - pB) := by
    rw [Jtri_perm1 pB pC pD, Jtri_swap pC (pD - pC) (pB - pC)]
    congr 1 <;> ring
  have eD : Jtri (pA + (pD - pA)) ((pB - pA) - (pD - pA)) ((pC - pA) - (pD - pA)) =
      Jtri pB (pC - pB) (pD - pB) := by
    rw [Jtri_perm1 pB pC pD, Jtri_perm1 pC pD pB]
    congr 1 <;> ring
  have RB := Ktet_rel_beta pA (pB - pA) (pC - pA) (pD - pA)
  have RC := Ktet_rel_gamma pA (pB - pA) (pC - pA) (pD - pA)
  have RD := Ktet_rel_delta pA (pB - pA) (pC - pA) (pD - pA)
  rw [eB] at RB
  rw [eC] at RC
  rw [eD] at RD
  rw [Jtri_swap pA (pC - pA) (pB - pA), Jtri_swap pA (pD - pA) (pC - pA)]
  push_cast at RB RC RD
  set K := Ktet pA (pB - pA) (pC - pA) (pD - pA)
  set JA := Jtri pB (pC - pB) (pD - pB)
  set JB := Jtri pA (pC - pA) (pD - pA)
  set JC := Jtri pA (pB - pA) (pD - pA)
  set JD := Jtri pA (pB - pA) (pC - pA)
  rw [div_mul_eq_mul_div, div_eq_iff hQC]
  linear_combination (Complex.I * JA) * h0C - K * h1C + (nB : ℂ) * RB + (nC : ℂ) * RC + (nD : ℂ) * RD

end
end FF
