import CoxeterVerif.Model.MeshIO
/-!
  Helper lemmas of C20, part 1 (no Mathlib needed):
  * text layer: `splitOn`/`join` are inverse on separator-free pieces; `tokenize (render L) = L` for lines of
    well-formed tokens (also with tab indentation); `content += line + "\n"` loops followed by `[:-1]` are
    `join "\n"` (`foldl_append_eq`, `dropLast_unl`);
  * decimal numbers: `parseNat (dec n) = some n`, `parseInt (decI i) = some i`, digits are not separators;
  * counted token streams: `takeVerts`/`takeFaces` consume exactly what the writers emit (`readBody_flat`);
  * `Mesh.WF` and the OBJ format.
-/
set_option linter.unusedSimpArgs false
namespace MeshIO

/-! ## text layer -/

def Free (p : Char → Bool) (w : Str) : Prop := ∀ c ∈ w, p c = false

theorem Free.nil {p} : Free p [] := by intro c h; cases h
theorem Free.cons {p c w} : Free p (c :: w) ↔ p c = false ∧ Free p w := by
  simp [Free]
theorem Free.append {p a b} : Free p (a ++ b) ↔ Free p a ∧ Free p b := by
  simp [Free, or_imp, forall_and]

theorem splitOn_ne_nil (p : Char → Bool) (s : Str) : splitOn p s ≠ [] := by
  induction s with
  | nil => simp [splitOn]
  | cons c cs ih =>
    unfold splitOn
    split
    · simp
    · split <;> simp

theorem splitOn_free {p : Char → Bool} {w : Str} (h : Free p w) : splitOn p w = [w] := by
  induction w with
  | nil => simp [splitOn]
  | cons c cs ih =>
    have ⟨hc, hcs⟩ := Free.cons.mp h
    simp [splitOn, hc, ih hcs]

theorem splitOn_append_sep {p : Char → Bool} {w : Str} {sep : Char} {r : Str}
    (h : Free p w) (hs : p sep = true) : splitOn p (w ++ sep :: r) = w :: splitOn p r := by
  induction w with
  | nil => simp [splitOn, hs]
  | cons c cs ih =>
    have ⟨hc, hcs⟩ := Free.cons.mp h
    simp [splitOn, hc, ih hcs]

theorem join_cons_cons (sep a b : Str) (r : List Str) :
    join sep (a :: b :: r) = a ++ sep ++ join sep (b :: r) := by simp [join]

theorem join_cons_ne (sep a : Str) {l : List Str} (h : l ≠ []) :
    join sep (a :: l) = a ++ sep ++ join sep l := by
  cases l with
  | nil => exact absurd rfl h
  | cons b r => simp [join]

theorem splitOn_join {p : Char → Bool} {sep : Char} (hs : p sep = true) :
    ∀ {ws : List Str}, (∀ w ∈ ws, Free p w) → ws ≠ [] → splitOn p (join [sep] ws) = ws := by
  intro ws
  induction ws with
  | nil => intro _ h; exact absurd rfl h
  | cons a l ih =>
    intro hw _
    cases l with
    | nil => simpa [join] using splitOn_free (hw a (by simp))
    | cons b r =>
      rw [join_cons_cons, List.append_assoc, List.singleton_append,
        splitOn_append_sep (hw a (by simp)) hs, ih (fun w h => hw w (by simp [h])) (by simp)]


/-! well-formed tokens -/
def wfTokB (t : Tok) : Bool := !t.isEmpty && t.all fun c => !isWsX c
/-- non-empty and free of blanks, newlines and commas -/
def WFTok (t : Tok) : Prop := wfTokB t = true
instance (t : Tok) : Decidable (WFTok t) := inferInstanceAs (Decidable (wfTokB t = true))

theorem WFTok.ne_nil {t} (h : WFTok t) : t ≠ [] := by
  intro h0; subst h0; exact absurd h (by decide)
theorem WFTok.free {t} (h : WFTok t) : Free isWsX t := by
  intro c hc
  simp only [WFTok, wfTokB, Bool.and_eq_true, List.all_eq_true] at h
  simpa using h.2 c hc
theorem WFTok.mk {t : Tok} (h1 : t ≠ []) (h2 : Free isWsX t) : WFTok t := by
  simp only [WFTok, wfTokB, Bool.and_eq_true, List.all_eq_true]
  refine ⟨by cases t <;> simp_all, fun c hc => by simp [h2 c hc]⟩

theorem isWs_of_isWsX {c : Char} (h : isWsX c = false) : isWs c = false := by
  simp [isWsX, isWs] at *; exact h.1.1
theorem isNL_of_isWsX {c : Char} (h : isWsX c = false) : isNL c = false := by
  simp [isWsX, isNL] at *; exact h.1.2

theorem WFTok.ws {t} (h : WFTok t) : Free isWs t := fun c hc => isWs_of_isWsX (h.free c hc)
theorem WFTok.nl {t} (h : WFTok t) : Free isNL t := fun c hc => isNL_of_isWsX (h.free c hc)

abbrev spaced (toks : List Tok) : Str := join cs!" " toks

theorem filter_nonempty_id {ws : List Str} (h : ∀ w ∈ ws, w ≠ []) :
    ws.filter (fun w => !w.isEmpty) = ws := by
  rw [List.filter_eq_self]
  intro w hw
  have := h w hw
  cases w <;> simp_all

theorem words_spaced {p : Char → Bool} (hsp : p ' ' = true) {toks : List Tok}
    (h : ∀ t ∈ toks, t ≠ [] ∧ Free p t) : words p (spaced toks) = toks := by
  cases toks with
  | nil => simp [words, spaced, join, splitOn]
  | cons a l =>
    unfold words spaced
    rw [splitOn_join hsp (fun w hw => (h w hw).2) (by simp)]
    exact filter_nonempty_id fun w hw => (h w hw).1

theorem words_tab {p : Char → Bool} (ht : p '\t' = true) (s : Str) : words p ('\t' :: s) = words p s := by
  simp [words, splitOn, ht]

theorem words_tabs {p : Char → Bool} (ht : p '\t' = true) (k : Nat) (s : Str) :
    words p (List.replicate k '\t' ++ s) = words p s := by
  induction k with
  | zero => simp
  | succ k ih => simp [List.replicate_succ, words_tab ht, ih]

theorem free_join {p : Char → Bool} {sep : Str} (hsep : Free p sep) :
    ∀ {l : List Str}, (∀ w ∈ l, Free p w) → Free p (join sep l) := by
  intro l
  induction l with
  | nil => intro _; exact Free.nil
  | cons a l ih =>
    intro h
    cases l with
    | nil => simpa [join] using h a (by simp)
    | cons b r =>
      rw [join_cons_cons]
      exact Free.append.mpr ⟨Free.append.mpr ⟨h a (by simp), hsep⟩, ih fun w hw => h w (by simp [hw])⟩

theorem free_sp_nl : Free isNL cs!" " := by
  intro c hc; simp at hc; subst hc; decide

theorem free_replicate_tab : ∀ k, Free isNL (List.replicate k '\t') := by
  intro k c hc
  have := List.eq_of_mem_replicate hc
  subst this; decide

/-- indented token line -/
def lineI (l : Nat × List Tok) : Str := List.replicate l.1 '\t' ++ spaced l.2

def renderI (L : List (Nat × List Tok)) : Str := join cs!"\n" (L.map lineI)
def render (L : List (List Tok)) : Str := join cs!"\n" (L.map spaced)

theorem render_eq (L : List (List Tok)) : render L = renderI (L.map fun l => (0, l)) := by
  simp [render, renderI, lineI, List.map_map, Function.comp_def]

theorem tokenize_renderI {L : List (Nat × List Tok)} (hne : L ≠ [])
    (h : ∀ l ∈ L, ∀ t ∈ l.2, WFTok t) : tokenize (renderI L) = L.map (·.2) := by
  unfold tokenize renderI
  rw [show (cs!"\n" : Str) = ['\n'] from rfl, splitOn_join (p := isNL) (by decide) _ (by simpa using hne)]
  · rw [List.map_map]
    apply List.map_congr_left
    intro l hl
    simp only [Function.comp, lineI]
    rw [words_tabs (by decide)]
    exact words_spaced (by decide) fun t ht => ⟨(h l hl t ht).ne_nil, (h l hl t ht).ws⟩
  · intro w hw
    obtain ⟨l, hl, rfl⟩ := List.mem_map.mp hw
    exact Free.append.mpr ⟨free_replicate_tab _, free_join free_sp_nl fun t ht => (h l hl t ht).nl⟩

theorem tokenize_render {L : List (List Tok)} (hne : L ≠ [])
    (h : ∀ l ∈ L, ∀ t ∈ l, WFTok t) : tokenize (render L) = L := by
  rw [render_eq, tokenize_renderI (by simpa using hne)]
  · simp [List.map_map, Function.comp_def]
  · intro l hl
    obtain ⟨l', hl', rfl⟩ := List.mem_map.mp hl
    exact h l' hl'

/-! newline-terminated lines -/
def unl (ls : List Str) : Str := (ls.map (· ++ cs!"\n")).flatten

@[simp] theorem unl_nil : unl [] = [] := rfl
@[simp] theorem unl_cons (a : Str) (l : List Str) : unl (a :: l) = a ++ '\n' :: unl l := by
  simp [unl]
theorem unl_append (a b : List Str) : unl (a ++ b) = unl a ++ unl b := by
  simp [unl]

theorem dropLast_unl : ∀ {ls : List Str}, ls ≠ [] → (unl ls).dropLast = join cs!"\n" ls := by
  intro ls
  induction ls with
  | nil => intro h; exact absurd rfl h
  | cons a l ih =>
    intro _
    cases l with
    | nil => simp [join]
    | cons b r =>
      rw [unl_cons, join_cons_cons, List.dropLast_append_cons, List.dropLast_cons_of_ne_nil (by simp),
        ih (by simp)]
      simp

theorem foldl_append_eq {α} (g : α → Str) (l : List α) (c0 : Str) :
    l.foldl (fun c x => c ++ g x) c0 = c0 ++ (l.map g).flatten := by
  induction l generalizing c0 with
  | nil => simp
  | cons a l ih => simp [ih, List.append_assoc]

theorem unl_map {α} (r : α → Str) (l : List α) :
    unl (l.map r) = (l.map fun x => r x ++ cs!"\n").flatten := by
  simp [unl, List.map_map, Function.comp_def]


/-! ## numbers -/

theorem isWsX_of_isDigit {c : Char} (h : c.isDigit = true) : isWsX c = false := by
  cases hw : isWsX c with
  | false => rfl
  | true =>
    simp [isWsX] at hw
    rcases hw with (((rfl | rfl) | rfl) | rfl) | rfl <;> simp [Char.isDigit] at h

@[simp] theorem wf_dec (n : Nat) : WFTok (dec n) :=
  WFTok.mk Nat.toDigits_ne_nil
    fun _ hc => isWsX_of_isDigit (Nat.isDigit_of_mem_toDigits (by decide) (by decide) hc)

theorem parseNat_dec (n : Nat) : parseNat (dec n) = some n := by
  have h1 : (dec n).isEmpty = false := by
    have : dec n ≠ [] := Nat.toDigits_ne_nil
    cases h : dec n <;> simp_all
  have h2 : (dec n).all Char.isDigit = true := by
    rw [List.all_eq_true]
    exact fun c hc => Nat.isDigit_of_mem_toDigits (by decide) (by decide) hc
  unfold parseNat
  rw [h1, h2]
  simp [dec]

theorem head_dec_isDigit {n : Nat} {c : Char} {r : Str} (h : dec n = c :: r) : c.isDigit = true :=
  Nat.isDigit_of_mem_toDigits (b := 10) (n := n) (by decide) (by decide) (by rw [show Nat.toDigits 10 n = dec n from rfl, h]; simp)

theorem parseNat_nondigit {c : Char} (hc : c.isDigit = false) (r : Str) : parseNat (c :: r) = none := by
  simp [parseNat, hc]

theorem parseInt_decI (i : Int) : parseInt (decI i) = some i := by
  cases i with
  | ofNat n =>
    simp only [decI]
    unfold parseInt
    split
    · rename_i r h
      have := head_dec_isDigit h
      simp [Char.isDigit] at this
    · simp [parseNat_dec]
  | negSucc n =>
    simp [decI, parseInt, parseNat_dec, Int.negSucc_eq]

@[simp] theorem wf_decI (i : Int) : WFTok (decI i) := by
  cases i with
  | ofNat n => exact wf_dec n
  | negSucc n =>
    refine WFTok.mk (by simp [decI]) ?_
    intro c hc
    simp only [decI, List.mem_cons] at hc
    rcases hc with rfl | hc
    · decide
    · exact (wf_dec _).free c hc

theorem parseIdx1_dec (i : Nat) : parseIdx1 (dec (i + 1)) = some i := by
  simp [parseIdx1, parseNat_dec]

theorem mapOpt_map {α β} {f : β → Option α} {g : α → β} :
    ∀ {l : List α}, (∀ x ∈ l, f (g x) = some x) → mapOpt f (l.map g) = some l := by
  intro l
  induction l with
  | nil => intro _; rfl
  | cons a l ih =>
    intro h
    simp [mapOpt, h a (by simp), ih fun x hx => h x (by simp [hx])]

/-! ## counted streams -/

def vtoks (v : V3T) : List Tok := [v.1, v.2.1, v.2.2]
def ftoks (f : List Nat) : List Tok := dec f.length :: f.map dec

theorem takeVerts_flat (vs : List V3T) (rest : List Tok) :
    takeVerts vs.length (vs.flatMap vtoks ++ rest) = some (vs, rest) := by
  induction vs with
  | nil => simp [takeVerts]
  | cons v vs ih => simp [takeVerts, vtoks, ih]

theorem takeNats_map (f : List Nat) (rest : List Tok) :
    takeNats f.length (f.map dec ++ rest) = some (f, rest) := by
  induction f with
  | nil => simp [takeNats]
  | cons i f ih => simp [takeNats, parseNat_dec, ih]

theorem takeFaces_flat (fs : List (List Nat)) (rest : List Tok) :
    takeFaces fs.length (fs.flatMap ftoks ++ rest) = some (fs, rest) := by
  induction fs with
  | nil => simp [takeFaces]
  | cons f fs ih =>
    simp [takeFaces, ftoks, parseNat_dec, List.append_assoc, takeNats_map, ih]

theorem readBody_flat (m : Mesh) (hr : inRange m = true) :
    readBody m.verts.length m.faces.length (m.verts.flatMap vtoks ++ m.faces.flatMap ftoks) = some m := by
  have := takeFaces_flat m.faces []
  simp only [List.append_nil] at this
  simp [readBody, takeVerts_flat, this, checked, hr]


/-! ## well-formed meshes -/

/-- a coordinate token: well-formed and not the start of a `#` comment -/
def WFCoord (t : Tok) : Prop := WFTok t ∧ t.head? ≠ some '#'
instance (t : Tok) : Decidable (WFCoord t) := inferInstanceAs (Decidable (_ ∧ _))

structure Mesh.WF (m : Mesh) : Prop where
  coords : ∀ v ∈ m.verts, WFCoord v.1 ∧ WFCoord v.2.1 ∧ WFCoord v.2.2
  arity : ∀ f ∈ m.faces, 3 ≤ f.length
  range : ∀ f ∈ m.faces, ∀ i ∈ f, i < m.verts.length

theorem Mesh.WF.inRange {m : Mesh} (h : m.WF) : inRange m = true := by
  simp only [MeshIO.inRange, List.all_eq_true, decide_eq_true_eq]
  exact h.range

theorem Mesh.WF.ne_nil {m : Mesh} (h : m.WF) : ∀ f ∈ m.faces, f ≠ [] := by
  intro f hf h0
  have := h.arity f hf
  simp [h0] at this

theorem Mesh.WF.toks {m : Mesh} (h : m.WF) : ∀ v ∈ m.verts, WFTok v.1 ∧ WFTok v.2.1 ∧ WFTok v.2.2 :=
  fun v hv => ⟨(h.coords v hv).1.1, (h.coords v hv).2.1.1, (h.coords v hv).2.2.1⟩

theorem wf_vtoks {m : Mesh} (h : m.WF) {v : V3T} (hv : v ∈ m.verts) : ∀ t ∈ vtoks v, WFCoord t := by
  intro t ht
  have := h.coords v hv
  simp only [vtoks, List.mem_cons, List.not_mem_nil, or_false] at ht
  rcases ht with rfl | rfl | rfl
  · exact this.1
  · exact this.2.1
  · exact this.2.2

theorem wf_ftoks (f : List Nat) : ∀ t ∈ ftoks f, WFTok t := by
  intro t ht
  simp only [ftoks, List.mem_cons, List.mem_map] at ht
  rcases ht with rfl | ⟨i, _, rfl⟩ <;> exact wf_dec _

/-! ## OBJ -/

def objLines (ver cls : Str) (m : Mesh) : List (List Tok) :=
  [[cs!"#", cs!"wavefront", cs!"obj", cs!"file", cs!"written", cs!"by", cs!"Coxeter", cs!"version", ver],
   [cs!"#", cls], []]
  ++ m.verts.map (fun v => cs!"v" :: vtoks v) ++ [[]]
  ++ m.faces.map (fun f => cs!"f" :: f.map fun i => dec (i + 1))

theorem toObj_eq (ver cls : Str) (m : Mesh) (hne : ∀ f ∈ m.faces, f ≠ []) :
    toObj ver cls m = render (objLines ver cls m) := by
  unfold toObj render
  simp only [foldl_append_eq, List.nil_append]
  rw [← dropLast_unl (by simp [objLines])]
  congr 1
  simp only [objLines, List.map_append, List.map_map, unl_append, unl_map, List.map_cons, List.map_nil]
  have hf : (m.faces.map fun f => cs!"f " ++ join cs!" " (f.map fun v_index => dec (v_index + 1)) ++ cs!"\n")
      = m.faces.map ((fun x => x ++ cs!"\n") ∘ spaced ∘ fun f => cs!"f" :: f.map fun i => dec (i + 1)) := by
    apply List.map_congr_left
    intro f hf
    have : (f.map fun i => dec (i + 1)) ≠ [] := by simpa using hne f hf
    simp [spaced, join_cons_ne _ _ this]
  rw [hf]
  simp [unl, spaced, join, coordsOf, vtoks, Function.comp_def, List.append_assoc]


theorem wf_objLines {ver cls : Str} {m : Mesh} (hv : WFTok ver) (hc : WFTok cls) (h : m.WF) :
    ∀ l ∈ objLines ver cls m, ∀ t ∈ l, WFTok t := by
  simp (config := {decide := true}) only [objLines, vtoks, List.forall_mem_append, List.forall_mem_cons,
    List.forall_mem_map, List.not_mem_nil, false_imp_iff, implies_true, and_true, true_and, hv, hc, wf_dec]
  exact h.toks

theorem objLine_v (v : V3T) (m : Mesh) :
    objLine (cs!"v" :: vtoks v) m = some ⟨v :: m.verts, m.faces⟩ := by
  simp [objLine, vtoks]

theorem objLine_f {f : List Nat} (h3 : 3 ≤ f.length) (m : Mesh) :
    objLine (cs!"f" :: f.map fun i => dec (i + 1)) m = some ⟨m.verts, f :: m.faces⟩ := by
  have : mapOpt parseIdx1 (f.map fun i => dec (i + 1)) = some f := mapOpt_map fun x _ => parseIdx1_dec x
  simp [objLine, this]
  omega

theorem readObjT_faces : ∀ {fs : List (List Nat)}, (∀ f ∈ fs, 3 ≤ f.length) →
    readObjT (fs.map fun f => cs!"f" :: f.map fun i => dec (i + 1)) = some ⟨[], fs⟩ := by
  intro fs
  induction fs with
  | nil => intro _; rfl
  | cons f fs ih =>
    intro h
    simp [readObjT, ih fun g hg => h g (by simp [hg]), objLine_f (h f (by simp))]

theorem readObjT_verts (vs : List V3T) (R : List (List Tok)) :
    readObjT (vs.map (fun v => cs!"v" :: vtoks v) ++ R)
      = (readObjT R).map fun m => ⟨vs ++ m.verts, m.faces⟩ := by
  induction vs with
  | nil => cases h : readObjT R <;> simp [h]
  | cons v vs ih =>
    simp only [List.map_cons, List.cons_append, readObjT, ih]
    cases h : readObjT R <;> simp [objLine_v]

theorem readObjT_objLines {ver cls : Str} {m : Mesh} (h : m.WF) :
    readObjT (objLines ver cls m) = some m := by
  have hf := readObjT_faces h.arity
  simp only [objLines, List.append_assoc, List.cons_append, List.nil_append, readObjT, readObjT_verts, hf]
  simp [objLine]

end MeshIO
