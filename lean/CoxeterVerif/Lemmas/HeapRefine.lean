import CoxeterVerif.Lemmas.HeapValues
/-!
  Lemmas for C16: every query of the heap machine REFINES its value semantics (`Spec.answer`): it
  leaves the observables alone and what it returns is the value semantics' answer.
-/
namespace C16
open Scalar
set_option linter.unusedSectionVars false

/-- the heap program `p` (run from `s`) leaves the observables alone, answers `A`, and keeps the
`edges` cache valid -/
structure Refines (M : Meas ℝ) (s : St ℝ) (p : St ℝ × Out ℝ) (A : Answer ℝ) : Prop where
  obs : observe p.1 = observe s
  ans : answerOf p = A
  edges : ∀ i, p.1.cEdges = some i → p.1.get i = M.value "edges" (observe s)

theorem edges_kept {M : Meas ℝ} {s t : St ℝ} (hf : Frame s t) (hw : Spec.WF s) (hc : Spec.Coherent M s)
    (he : t.cEdges = s.cEdges) : ∀ i, t.cEdges = some i → t.get i = M.value "edges" (observe s) := by
  intro i hi
  rw [he] at hi
  rw [hf.get_eq i (hw.edges i hi).1 (hw.edges i hi).2]
  exact hc.edges i hi

theorem refines_same {M : Meas ℝ} {s : St ℝ} (hw : Spec.WF s) (hc : Spec.Coherent M s) (o : Out ℝ) (A : Answer ℝ)
    (h : answerOf (s, o) = A) : Refines M s (s, o) A :=
  ⟨rfl, h, edges_kept (Frame.refl s) hw hc rfl⟩

theorem refines_alloc {M : Meas ℝ} {s : St ℝ} (hw : Spec.WF s) (hc : Spec.Coherent M s) (a : Arr ℝ) (tag : Nat) :
    Refines M s (s.alloc a, ret1 tag s.next) (Spec.one tag a) :=
  ⟨observe_alloc s a hw, by simp [answerOf, ret1, Spec.one], edges_kept (Frame.alloc s a) hw hc rfl⟩

theorem answerOf_ret1 (t : St ℝ) (tag : Nat) (id : Id) :
    answerOf (t, ret1 tag id) = Spec.one tag (t.get id) := rfl

theorem getter_refines (M : Meas ℝ) (g : Getter) (s : St ℝ) (hw : Spec.WF s) (hc : Spec.Coherent M s) :
    Refines M s (getter M g s) (Spec.getterAns M s.cls (observe s) g) := by
  cases g with
  | vertices =>
    simp only [getter, Spec.getterAns]
    split <;> exact refines_same hw hc _ _ rfl
  | normal =>
    simp only [getter, Spec.getterAns]
    split <;> exact refines_same hw hc _ _ rfl
  | centroid =>
    simp only [getter, Spec.getterAns]
    split
    · exact refines_same hw hc _ _ rfl
    · cases hk : s.cls.kind <;> simp only []
      · exact refines_same hw hc _ _ rfl
      · rw [centroidOf_observe]; exact refines_alloc hw hc _ _
      · rw [centroidOf_observe]; exact refines_alloc hw hc _ _
      · exact refines_same hw hc _ _ rfl
  | equations =>
    simp only [getter, Spec.getterAns]
    split <;> exact refines_same hw hc _ _ rfl
  | normals =>
    simp only [getter, Spec.getterAns]
    split <;> exact refines_same hw hc _ _ rfl
  | faceCentroids =>
    simp only [getter, Spec.getterAns]
    split
    · have f1 := Frame.allocAreas s (M.value "_simplex_areas" (observe s))
      have w1 := WF.of_frame hw f1
      refine ⟨?_, ?_, edges_kept (f1.trans (Frame.allocFaceCen _ _)) hw hc rfl⟩
      · show observe (St.alloc _ _) = _
        rw [observe_alloc _ _ w1]
        exact observe_alloc s _ hw
      · rw [answerOf_ret1]
        congr 1
        exact St.get_alloc_self { s.alloc (M.value "_simplex_areas" (observe s)) with cAreas := some s.next } _
    · exact refines_same hw hc _ _ rfl
  | edges =>
    simp only [getter, Spec.getterAns]
    split
    · split
      next i hi =>
        refine refines_same hw hc _ _ ?_
        rw [answerOf_ret1, hc.edges i hi]
      next hn =>
        refine ⟨observe_alloc s _ hw, ?_, ?_⟩
        · rw [answerOf_ret1]
          congr 1
          exact St.get_alloc_self s _
        · intro i hi
          cases hi
          exact St.get_alloc_self _ _
    · exact refines_same hw hc _ _ rfl
  | inertiaTensor =>
    have poly2 : s.cls.kind = .planar → Refines M s ((polygonInertia M s).1, ret1 4 (polygonInertia M s).2)
        (Spec.one 4 (Spec.polygonInertia M s.cls (observe s))) := by
      intro hk
      refine ⟨observe_polygonInertia M s hw hk, ?_, edges_kept (polygonInertia_frame M s) hw hc ?_⟩
      · rw [answerOf_ret1, polygonInertia_answer M s hw]
      · show (polygonInertiaHead M s).cEdges = _; rw [polygonInertiaHead_planar M s hk]; rfl
    have poly3 : Refines M s ((polyhedronInertia M s).1, ret1 4 (polyhedronInertia M s).2)
        (Spec.one 4 (Spec.polyhedronInertia M s.cls (observe s))) := by
      obtain ⟨h1, h2⟩ := observe_polyhedronInertia M s hw
      refine ⟨h1, ?_, edges_kept (polyhedronInertia_frame M s) hw hc rfl⟩
      rw [answerOf_ret1, h2]
    simp only [getter, Spec.getterAns]
    cases hcls : s.cls <;> simp only []
    · exact refines_alloc hw hc _ _
    · exact refines_alloc hw hc _ _
    · exact refines_alloc hw hc _ _
    · exact refines_alloc hw hc _ _
    · rw [← hcls]; exact poly2 (by rw [hcls]; rfl)
    · rw [← hcls]; exact poly2 (by rw [hcls]; rfl)
    · exact refines_same hw hc _ _ rfl
    · rw [← hcls]; exact poly3
    · rw [← hcls]; exact poly3
    · exact refines_same hw hc _ _ rfl
  | value name => exact refines_alloc hw hc _ _

/-! ## composing -/

theorem coherent_of_obs {M : Meas ℝ} {s t : St ℝ} (hc : Spec.Coherent M s) (ho : observe t = observe s)
    (hcls : t.cls = s.cls) (he : ∀ i, t.cEdges = some i → t.get i = M.value "edges" (observe s)) :
    Spec.Coherent M t := by
  have hv : t.get t.fVerts = s.get s.fVerts := congrArg Obs.verts ho
  have h3 : t.get t.fCen = s.get s.fCen := congrArg Obs.cen ho
  have h4 : t.get t.fEqs = s.get s.fEqs := congrArg Obs.eqs ho
  have h5 : t.get t.fSeqs = s.get s.fSeqs := congrArg Obs.seqs ho
  have h6 : t.volume = s.volume := congrArg Obs.volume ho
  exact
    { verts := by rw [hcls, hv]; exact hc.verts
      eqs := by rw [hcls, hv, h4]; exact hc.eqs
      seqs := by rw [hcls, hv, h5]; exact hc.seqs
      volume := by rw [hcls, hv, h6]; exact hc.volume
      cen := by rw [hcls, hv, h3, h6]; exact hc.cen
      centre := by rw [hcls, h3]; exact hc.centre
      edges := by rw [ho]; exact he }

/-- an array that existed in `s` holds the same values in `t` when `t` was reached by frame steps
that left the observables alone -/
theorem stable_get {s t : St ℝ} (hf : Frame s t) (ho : observe t = observe s) (i : Id) (hi : i < s.next) :
    t.get i = s.get i := by
  by_cases h : i = s.fVerts
  · subst h
    have hv : t.get t.fVerts = s.get s.fVerts := congrArg Obs.verts ho
    rw [← hv, hf.fVerts]
  · exact hf.get_eq i hi h

theorem answerOf_stable (s t : St ℝ) (o : Out ℝ) (h : ∀ r, r ∈ o.rets → t.get r.id = s.get r.id) :
    answerOf (t, o) = answerOf (s, o) := by
  unfold answerOf
  congr 1
  exact List.map_congr_left fun r hr => by rw [h r hr]

theorem toJson_refines (M : Meas ℝ) (gs : List Getter) :
    ∀ s : St ℝ, Spec.WF s → Spec.Coherent M s →
      Refines M s (toJson M gs s) (Spec.toJsonAns M s.cls (observe s) gs) := by
  induction gs with
  | nil => intro s hw hc; exact refines_same hw hc _ _ rfl
  | cons g gs ih =>
    intro s hw hc
    have hg := getter_refines M g s hw hc
    have fg := getter_frame M g s
    have w1 := WF.of_frame hw fg
    have c1 := coherent_of_obs hc hg.obs fg.cls hg.edges
    have hr := ih _ w1 c1
    have fr := toJson_frame M gs (getter M g s).1
    rw [fg.cls, hg.obs] at hr
    have ea : (getter M g s).2.err = (Spec.getterAns M s.cls (observe s) g).err := by rw [← hg.ans]; rfl
    have eb : (toJson M gs (getter M g s).1).2.err = (Spec.toJsonAns M s.cls (observe s) gs).err := by
      rw [← hr.ans]; rfl
    simp only [toJson, Spec.toJsonAns]
    rw [← ea, ← eb]
    cases h1 : (getter M g s).2.err with
    | some k =>
      simp only []
      exact ⟨hg.obs, rfl, hg.edges⟩
    | none =>
      simp only []
      cases h2 : (toJson M gs (getter M g s).1).2.err with
      | some k =>
        simp only []
        exact ⟨hr.obs.trans hg.obs, rfl, fun i hi => by rw [hr.edges i hi, hg.obs]⟩
      | none =>
        simp only []
        refine ⟨hr.obs.trans hg.obs, ?_, fun i hi => by rw [hr.edges i hi, hg.obs]⟩
        have s1 : answerOf ((toJson M gs (getter M g s).1).1, (getter M g s).2) = answerOf (getter M g s) :=
          answerOf_stable _ _ _ fun r hr' => stable_get fr hr.obs _ (getter_rets M g s hw r hr')
        have a1 := hg.ans
        have a2 := hr.ans
        rw [← s1] at a1
        rw [← a1, ← a2]
        simp only [answerOf, List.map_append]

/-! ## `to_hoomd` -/

theorem setCentroid_cEdges (M : Meas ℝ) (s : St ℝ) (v : V3 ℝ) : (setCentroid M s v).cEdges = s.cEdges := by
  unfold setCentroid; cases s.cls.kind <;> rfl
theorem setCentroid_cls (M : Meas ℝ) (s : St ℝ) (v : V3 ℝ) : (setCentroid M s v).cls = s.cls :=
  (setCentroid_frame M s v).cls
theorem polygonInertia_cEdges (M : Meas ℝ) (s : St ℝ) : (polygonInertia M s).1.cEdges = s.cEdges := by
  show (polygonInertiaHead M s).cEdges = _
  unfold polygonInertiaHead
  rw [setCentroid_cEdges]; rfl
theorem polygonInertia_cls (M : Meas ℝ) (s : St ℝ) : (polygonInertia M s).1.cls = s.cls :=
  (polygonInertia_frame M s).cls

theorem WF.setCentroid {M : Meas ℝ} {s : St ℝ} (hw : Spec.WF s) (v : V3 ℝ) : Spec.WF (setCentroid M s v) :=
  WF.of_frame hw (setCentroid_frame M s v)

theorem polygonToHoomd_refines (M : Meas ℝ) (hL : Spec.Lawful M) (s : St ℝ) (hw : Spec.WF s)
    (hc : Spec.Coherent M s) (hk : s.cls.kind = .planar) :
    Refines M s (polygonToHoomd M s)
      { arrays := [(0, cols2 (Spec.moved M s.cls (observe s) V3.zero).verts),
                   (2, v3l (Spec.centroidOf M s.cls (Spec.moved M s.cls (observe s) V3.zero))),
                   (4, Spec.polygonInertia M s.cls (Spec.moved M s.cls (observe s) V3.zero))],
        scalars := M.value "area" (Spec.moved M s.cls (observe s) V3.zero), err := none } := by
  -- the five states
  have w1 := WF.setCentroid (M := M) hw V3.zero
  have o1 := observe_setCentroid M s V3.zero hw
  have c1 := setCentroid_cls M s V3.zero
  have w2 := WF.alloc w1 (v3l (pubCentroid M (setCentroid M s V3.zero)))
  have o2 := observe_alloc _ (v3l (pubCentroid M (setCentroid M s V3.zero))) w1
  have k2 : ((setCentroid M s V3.zero).alloc (v3l (pubCentroid M (setCentroid M s V3.zero)))).cls.kind = .planar := by
    show (setCentroid M s V3.zero).cls.kind = _; rw [c1, hk]
  have f3 := polygonInertia_frame M ((setCentroid M s V3.zero).alloc (v3l (pubCentroid M (setCentroid M s V3.zero))))
  have w3 := WF.of_frame w2 f3
  have o3 := observe_polygonInertia M _ w2 k2
  have a3 := polygonInertia_answer M _ w2
  have w4 := WF.alloc w3 (cols2 ((polygonInertia M ((setCentroid M s V3.zero).alloc
    (v3l (pubCentroid M (setCentroid M s V3.zero))))).1.get (polygonInertia M ((setCentroid M s V3.zero).alloc
    (v3l (pubCentroid M (setCentroid M s V3.zero))))).1.fVerts))
  have o4 := observe_alloc _ (cols2 ((polygonInertia M ((setCentroid M s V3.zero).alloc
    (v3l (pubCentroid M (setCentroid M s V3.zero))))).1.get (polygonInertia M ((setCentroid M s V3.zero).alloc
    (v3l (pubCentroid M (setCentroid M s V3.zero))))).1.fVerts)) w3
  have o5 := observe_setCentroid M _ (pubCentroid M s) w4
  have f5 := setCentroid_frame M ((polygonInertia M ((setCentroid M s V3.zero).alloc
    (v3l (pubCentroid M (setCentroid M s V3.zero))))).1.alloc (cols2 ((polygonInertia M ((setCentroid M s V3.zero).alloc
    (v3l (pubCentroid M (setCentroid M s V3.zero))))).1.get (polygonInertia M ((setCentroid M s V3.zero).alloc
    (v3l (pubCentroid M (setCentroid M s V3.zero))))).1.fVerts))) (pubCentroid M s)
  rw [o4, o3, o2, o1] at o5
  have cls4 : ((polygonInertia M ((setCentroid M s V3.zero).alloc (v3l (pubCentroid M (setCentroid M s V3.zero))))).1.alloc
      (cols2 ((polygonInertia M ((setCentroid M s V3.zero).alloc (v3l (pubCentroid M (setCentroid M s V3.zero))))).1.get
        (polygonInertia M ((setCentroid M s V3.zero).alloc (v3l (pubCentroid M (setCentroid M s V3.zero))))).1.fVerts))).cls
      = s.cls := by
    show (polygonInertia M _).1.cls = _
    rw [polygonInertia_cls]; exact c1
  rw [cls4, ← centroidOf_observe, moved_back M hL s.cls (observe s) (CohObs.of_coherent hc)] at o5
  have n3 := polygonInertia_next M ((setCentroid M s V3.zero).alloc (v3l (pubCentroid M (setCentroid M s V3.zero))))
  have r3 := polygonInertia_ret M ((setCentroid M s V3.zero).alloc (v3l (pubCentroid M (setCentroid M s V3.zero))))
  have h3 := (polygonInertiaHead_frame M ((setCentroid M s V3.zero).alloc (v3l (pubCentroid M (setCentroid M s V3.zero))))).next_le
  simp only [St.next_alloc] at h3
  have v1 := w1.verts
  have fv3 : (polygonInertia M ((setCentroid M s V3.zero).alloc (v3l (pubCentroid M (setCentroid M s V3.zero))))).1.fVerts
      = (setCentroid M s V3.zero).fVerts := rfl
  refine ⟨o5, ?_, ?_⟩
  · -- the answer
    show Answer.mk _ _ _ = _
    simp only [polygonToHoomd, List.map, Answer.mk.injEq, and_true, List.cons.injEq, Prod.mk.injEq, true_and]
    refine ⟨⟨?_, ?_, ?_⟩, ?_⟩
    · -- vertices: the copy taken while centred
      rw [f5.get_eq _ (by simp only [St.next_alloc]; omega) (by show _ ≠ (setCentroid M s V3.zero).fVerts; omega),
        St.get_alloc_self]
      have : (polygonInertia M ((setCentroid M s V3.zero).alloc (v3l (pubCentroid M (setCentroid M s V3.zero))))).1.get
          (polygonInertia M ((setCentroid M s V3.zero).alloc (v3l (pubCentroid M (setCentroid M s V3.zero))))).1.fVerts
          = (Spec.moved M s.cls (observe s) V3.zero).verts := by
        have := congrArg Obs.verts o3
        rw [o2, o1] at this
        exact this
      rw [this]
    · -- centroid array
      rw [f5.get_eq _ (by simp only [St.next_alloc]; omega) (by show _ ≠ (setCentroid M s V3.zero).fVerts; omega),
        St.get_alloc_of_lt _ _ _ (by omega),
        f3.get_eq _ (by simp only [St.next_alloc]; omega) (by show _ ≠ (setCentroid M s V3.zero).fVerts; omega),
        St.get_alloc_self, ← centroidOf_observe, o1, c1]
    · -- inertia tensor
      rw [f5.get_eq _ (by simp only [St.next_alloc]; omega) (by show _ ≠ (setCentroid M s V3.zero).fVerts; omega),
        St.get_alloc_of_lt _ _ _ (by omega), a3, o2, o1]
      show Spec.polygonInertia M (setCentroid M s V3.zero).cls _ = _
      rw [c1]
    · rw [o2, o1]
  · refine edges_kept ?_ hw hc ?_
    · exact (polygonToHoomd_frame M s).1
    · show (setCentroid M _ _).cEdges = _
      rw [setCentroid_cEdges]
      show (polygonInertia M _).1.cEdges = _
      rw [polygonInertia_cEdges]
      show (setCentroid M s V3.zero).cEdges = _
      rw [setCentroid_cEdges]

end C16
